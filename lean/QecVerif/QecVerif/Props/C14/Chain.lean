/-
  C14, part 3 — the chain-to-matching (T-join) lemma and the MWPM statements without `ChainBound`.

  * `chain_induces_matching_generic`: in ANY finite multigraph with a symmetric `dist` obeying the
    triangle inequality and `dist ≤ 1` on edges, the odd-degree vertices of ANY edge list `E` have a
    perfect matching (in the complete graph on them) of total `dist ≤ |E|`.  (Lemmas/TJoin.lean;
    edge-by-edge induction, core Lean.)
  * `chain_induces_matching_boundary_generic`: the same for a graph with a boundary, delivered in the
    decoder's shape: real odd-degree vertices `ds`, virtual nodes `vnodes ∋ vp d`, edges `(d, vp d)`,
    all pairs of `ds`, all pairs of `vnodes` at weight 0, `|ds| + |vnodes|` even.
  * `chain_induces_matching_toric` / `chain_induces_matching_planar`: for the toric / planar code of ANY
    size R, C ≥ 2 and ANY error `e`, the decoder's graph for the defects of either type has a perfect
    matching whose total decoder distance is at most the weight of the X-component (primal) /
    Z-component (dual) of `e`.  Every qubit is an edge between the two plaquettes of that type
    adjacent to it (one of them virtual for a planar boundary qubit), defects = (real) odd-degree
    plaquettes, the decoder's distance is the graph metric.
  * `toric_mwpm_corrects`, `planar_mwpm_corrects`, `planar_decode_corrects`: hence for ALL sizes the
    modelled MWPM decoders correct every error whose X-component and Z-component EACH have weight
    ≤ t = ⌊(d−1)/2⌋, for ANY minimum-weight perfect matchings of the two modelled graphs.
    `ChainBound` is no longer a hypothesis.

  External facts, each a clearly named hypothesis of the `…_mwpm_corrects` theorems:
    h_path_syndrome : ToricL.Spec / PlanarL.Spec — C15 `path_syndrome_vector(_real)`, `virtualPlaquette_spec`
                                           (+ C07 index-list nodup)
    h_path_weight                        — C15 `path_weight` (weight of a path ≤ decoder distance)
    h_css                                — C07: generators are X-type or Z-type
    h_distance : DistHyp …               — C08: operators lighter than d commuting with S commute with L
    h_min… : MinWeightPM / MinWeightPMPlanar — C13: the matching returned is a minimum-weight perfect
                                           matching of the modelled graph (`NxContract` ⇒
                                           `mwpmNetworkx_min_weight_perfect`)
  C02's `toric_mwpm_syndrome` / `planar_mwpm_syndrome` (recovery reproduces the syndrome) are imported
  and used as proved.
  * `toric_mwpm_corrects_all_sizes`, `planar_mwpm_corrects_all_sizes`: the same with the C07 / C08 / C15
    hypotheses discharged from Props/C08.lean (`distance_lower_*`, all sizes), Props/C15/{Toric,Planar}.lean
    and the CSS shape of the generators (Lemmas/TJoin.lean) — d = min R C; only `h_min…` (C13) remains here — it is discharged under the networkx contract in Props/C14/Bridge.lean.
-/
import QecVerif.Lemmas.TJoin
import QecVerif.Props.C02
import QecVerif.Props.C08
import QecVerif.Props.C15.Toric
import QecVerif.Props.C15.Planar
import QecVerif.Props.C14.Mwpm
namespace Qec.C14
open Qec Qec.Dec Qec.NaiveDecode Qec.MwpmSplit Qec.MwpmReduce Qec.TJoin Qec.ChainToric

/-- **chain_induces_matching (generic T-join lemma)**: `D` lists without repetition exactly the
    odd-degree vertices of the edge list `E` (`deg` counts endpoint occurrences, a self loop twice);
    then the complete graph on `D` has a perfect matching of total distance at most `|E|`, and `|D|`
    is even.  Any vertex type, any symmetric `dist` with the triangle inequality that is `≤ 1` on
    the edges of `E`. -/
theorem chain_induces_matching_generic {V : Type} [DecidableEq V] (dist : V → V → Nat)
    (hsymm : ∀ a b, dist a b = dist b a) (htri : ∀ a b c, dist a c ≤ dist a b + dist b c)
    (E : List (V × V)) (hadj : ∀ e ∈ E, dist e.1 e.2 ≤ 1)
    (D : List V) (hD : D.Nodup) (hodd : ∀ v, v ∈ D ↔ deg E v % 2 = 1) :
    ∃ M : List (V × V), isPerfectMatchingOfGraph D (pairsOf D) M = true ∧
      cost dist M ≤ E.length ∧ D.length = 2 * M.length :=
  tjoin_complete dist hsymm htri E hadj D hD hodd

/-- the same without reference to a defect list: some list of pairs `M` covers every odd-degree
    vertex exactly once and no other vertex, with total distance at most `|E|` -/
theorem chain_induces_pairs_generic {V : Type} [DecidableEq V] (dist : V → V → Nat)
    (hsymm : ∀ a b, dist a b = dist b a) (htri : ∀ a b c, dist a c ≤ dist a b + dist b c)
    (E : List (V × V)) (hadj : ∀ e ∈ E, dist e.1 e.2 ≤ 1) :
    ∃ M : List (V × V), (∀ v, deg M v = deg E v % 2) ∧ cost dist M ≤ E.length :=
  tjoin dist hsymm htri E hadj

/-- the decoder's distance is a metric on the plaquettes of one lattice, and the two plaquettes of
    lattice `l` adjacent to a qubit are at distance ≤ 1 (so the decoder distance is dominated by the
    graph metric of the plaquette lattice) -/
theorem toric_distance_metric (R C : Int) (hR : 2 ≤ R) (hC : 2 ≤ C) :
    (∀ a b : Toric.Idx, a.1 % 2 = b.1 % 2 → toricDistT R C a b = toricDistT R C b a) ∧
    (∀ a b c : Toric.Idx, a.1 % 2 = b.1 % 2 → b.1 % 2 = c.1 % 2 →
      toricDistT R C a c ≤ toricDistT R C a b + toricDistT R C b c) ∧
    (∀ l : Int, l = 0 ∨ l = 1 → ∀ s : Toric.Idx, Toric.InLattice R C s →
      toricDistT R C (edge R C l s).1 (edge R C l s).2 ≤ 1) := by
  have hR0 : (0 : Int) < R := by omega
  have hC0 : (0 : Int) < C := by omega
  refine ⟨fun a b h => ?_, fun a b c h1 h2 => ?_, fun l hl s hs => ?_⟩
  · rw [toricDistT_eq R C a b h, toricDistT_eq R C b a h.symm]; exact dist_symm R C hR0 hC0 a b
  · rw [toricDistT_eq R C a c (h1.trans h2), toricDistT_eq R C a b h1, toricDistT_eq R C b c h2]
    exact dist_triangle R C hR0 hC0 a b c
  · obtain ⟨_, _, h3, h4, h5, _⟩ := edge_spec R C hR hC l hl s hs
    rw [toricDistT_eq R C _ _ (by rw [h3, h4])]; exact h5

/-- a single-qubit X (lattice 0) / Z (lattice 1) error on the site `s` is the decoder's path between
    the two plaquettes of that lattice adjacent to `s` -/
theorem qubit_is_edge (R C : Int) (hR : 2 ≤ R) (hC : 2 ≤ C) (l : Int) (hl : l = 0 ∨ l = 1)
    (s : Toric.Idx) (hs : Toric.InLattice R C s) :
    Toric.path R C (Toric.identity R C) (edge R C l s).1 (edge R C l s).2 =
      .ok (Toric.site R C (opOf l) (Toric.identity R C) s) :=
  (edge_spec R C hR hC l hl s hs).2.2.2.2.2

/-- defects = odd-degree plaquettes: for ANY error `e`, a plaquette is among the defects of lattice
    `l` read back from the syndrome of `e` iff it is an endpoint of an odd number of edges of the
    chain of lattice `l` (X-component for `l = 0`, Z-component for `l = 1`); the chain has as many
    edges as that component has weight -/
theorem defects_are_odd_vertices (R C : Int) (hR : 2 ≤ R) (hC : 2 ≤ C)
    (h_path_syndrome : ToricL.Spec R C) (l : Int) (hl : l = 0 ∨ l = 1)
    (e : BVec) (he : e.length = 2 * ToricL.nq R C) :
    (∀ p, p ∈ toricDefects R C (synd (Toric.stabilizers R C) e) l ↔
      deg (chainEdges R C l e) p % 2 = 1) ∧
    (chainEdges R C l e).length = bsfWt (part l e) :=
  ⟨mem_toricDefects_iff R C hR hC h_path_syndrome l hl e he, chainEdges_length R C l hl e he⟩

/-- **chain_induces_matching (toric)**: for ANY error `e` on the R×C toric code and either lattice
    `l` (0: primal plaquettes / X-component, 1: dual plaquettes / Z-component) the decoder's graph on
    the defects of that lattice has a perfect matching of total decoder distance at most the weight
    of that component, and the number of those defects is even. -/
theorem chain_induces_matching_toric (R C : Int) (hR : 2 ≤ R) (hC : 2 ≤ C)
    (h_path_syndrome : ToricL.Spec R C) (l : Int) (hl : l = 0 ∨ l = 1)
    (e : BVec) (he : e.length = 2 * ToricL.nq R C) :
    ∃ M : List (Toric.Idx × Toric.Idx),
      isPerfectMatchingOfGraph (toricNodes (toricDefects R C (synd (Toric.stabilizers R C) e) l))
        (toricEdges (toricDefects R C (synd (Toric.stabilizers R C) e) l)) M = true ∧
      cost (toricDistT R C) M ≤ bsfWt (part l e) ∧
      (toricDefects R C (synd (Toric.stabilizers R C) e) l).length % 2 = 0 :=
  chain_matching R C hR hC h_path_syndrome l hl e he

/-- what C13 delivers for the modelled graph of one lattice (nodes `toricNodes ds`, an edge of weight
    `distance` for every pair of defects): `m` is a perfect matching of it and no perfect matching has
    a smaller total weight -/
def MinWeightPM (R C : Int) (ds : List Toric.Idx) (m : List (Toric.Idx × Toric.Idx)) : Prop :=
  isPerfectMatchingOfGraph (toricNodes ds) (toricEdges ds) m = true ∧
  ∀ m', isPerfectMatchingOfGraph (toricNodes ds) (toricEdges ds) m' = true →
    cost (toricDistT R C) m ≤ cost (toricDistT R C) m'

/-- the X- (Z-) component of the toric MWPM recovery is no heavier than that of the error, for any
    minimum-weight perfect matchings — `ChainBound` PROVED, not assumed -/
theorem toric_chain_bound (R C : Int) (hR : 2 ≤ R) (hC : 2 ≤ C)
    (h_path_syndrome : ToricL.Spec R C)
    (h_path_weight : ∀ a b, ToricL.Ok R C a b → bsfWt (ToricL.pathT R C a b) ≤ toricDistT R C a b)
    (e : BVec) (he : e.length = 2 * ToricL.nq R C)
    (m0 m1 : List (Toric.Idx × Toric.Idx))
    (h_min0 : MinWeightPM R C (toricDefects R C (synd (Toric.stabilizers R C) e) 0) m0)
    (h_min1 : MinWeightPM R C (toricDefects R C (synd (Toric.stabilizers R C) e) 1) m1) :
    ∃ r, toricMwpmRecovery R C m0 m1 = .ok r ∧ r.length = 2 * ToricL.nq R C ∧
      synd (Toric.stabilizers R C) r = synd (Toric.stabilizers R C) e ∧
      ChainBound (ToricL.nq R C) (xPart r) (xPart e) ∧
      ChainBound (ToricL.nq R C) (zPart r) (zPart e) := by
  have hR0 : (0 : Int) < R := by omega
  have hC0 : (0 : Int) < C := by omega
  obtain ⟨M0, hM0, hc0, hev0⟩ := chain_matching R C hR hC h_path_syndrome 0 (.inl rfl) e he
  obtain ⟨M1, hM1, hc1, hev1⟩ := chain_matching R C hR hC h_path_syndrome 1 (.inr rfl) e he
  have hslen : (synd (Toric.stabilizers R C) e).length = (Toric.indices R C).length := by
    rw [synd_length, ToricL.stabilizers_plaqs]
  obtain ⟨r, hrec, hrlen, hrs⟩ := C02.toric_mwpm_syndrome R C h_path_syndrome _ hslen ⟨hev0, hev1⟩
    m0 m1 h_min0.1 h_min1.1
  refine ⟨r, hrec, hrlen, hrs, ?_, ?_⟩
  all_goals
    have hok0 := ToricL.pm_ok R C _ 0 m0 h_min0.1
    have hok1 := ToricL.pm_ok R C _ 1 m1 h_min1.1
    have hlat : ∀ (l : Int) (m : List (Toric.Idx × Toric.Idx)),
        (toricDefects R C (synd (Toric.stabilizers R C) e) l).length % 2 = 0 →
        isPerfectMatchingOfGraph (toricNodes (toricDefects R C (synd (Toric.stabilizers R C) e) l))
          (toricEdges (toricDefects R C (synd (Toric.stabilizers R C) e) l)) m = true →
        ∀ ab ∈ m, ab.1.1 = l := by
      intro l m hev hm ab hab
      have h1 := pm_ends _ _ _ hm ab.1 (by unfold ends; exact List.mem_flatMap.mpr ⟨ab, hab, by simp⟩)
      rw [ToricL.toricNodes_even _ hev] at h1
      exact ((ToricL.mem_toricDefects R C _ l ab.1).mp h1).2
    have hf : ToricFlattenBound R C := fun i => Toric.flatNat_lt R C hR0 hC0 i
    obtain ⟨vp, vd, evp, evd, hx, hz, hzp, hxd⟩ := mwpm_split_toric R C hf m0 m1
      (fun ab hab => by
        show ab.1.1 % 2 = 0
        rw [hlat 0 m0 hev0 h_min0.1 ab hab]; rfl)
      (fun ab hab => by
        show ab.1.1 % 2 ≠ 0
        rw [hlat 1 m1 hev1 h_min1.1 ab hab]; decide) r hrec
    have hpath : ∀ (m : List (Toric.Idx × Toric.Idx)), (∀ x ∈ m, ToricL.Ok R C x.1 x.2) →
        ∀ x ∈ m, ∃ w, Toric.path R C (Toric.identity R C) x.1 x.2 = .ok w := by
      intro m hm x hx
      obtain ⟨w, hw, _⟩ := h_path_syndrome.path_syndrome_vector x.1 (hm x hx).1 x.2 (hm x hx).2.1
        (hm x hx).2.2
      exact ⟨w, hw⟩
    have evp' := ToricL.applyMates_eq R C m0 (hpath m0 hok0)
    have evd' := ToricL.applyMates_eq R C m1 (hpath m1 hok1)
    rw [evp] at evp'
    rw [evd] at evd'
    injection evp' with evp'
    injection evd' with evd'
    have hid : Toric.identity R C = zeros (2 * ToricL.nq R C) := rfl
  · refine chainBound_of_pairs (ToricL.nq R C) m0 (fun x => ToricL.pathT R C x.1 x.2)
      (fun x => toricDistT R C x.1 x.2) (cost (toricDistT R C) M0) _ _ ?_
      (fun x _ => ToricL.pathT_length R C _ _) (fun x hx => h_path_weight _ _ (hok0 x hx))
      (h_min0.2 M0 hM0) hc0
    rw [← evp']
    exact xPart_eq_of_halves _ r vp hrlen hx (by rw [hzp, hid, zHalf_zeros_two_mul])
  · refine chainBound_of_pairs (ToricL.nq R C) m1 (fun x => ToricL.pathT R C x.1 x.2)
      (fun x => toricDistT R C x.1 x.2) (cost (toricDistT R C) M1) _ _ ?_
      (fun x _ => ToricL.pathT_length R C _ _) (fun x hx => h_path_weight _ _ (hok1 x hx))
      (h_min1.2 M1 hM1) hc1
    rw [← evd']
    exact zPart_eq_of_halves _ r vd hrlen hz (by rw [hxd, hid, xHalf_zeros_two_mul])

/-- **toric_mwpm_corrects**: for ALL sizes R, C ≥ 2, every error `e` whose X-component and
    Z-component EACH have weight `≤ t = ⌊(d−1)/2⌋` is corrected by the modelled toric MWPM decoder,
    for ANY minimum-weight perfect matchings `m0`, `m1` of the two modelled graphs (primal / dual
    defects of the syndrome of `e`): the recovery exists, reproduces the syndrome, and
    `recovery ⊕ e` commutes with all stabilizers and all logicals `L`.
    Hypotheses = facts of other properties: C15 (`h_path_syndrome`, `h_path_weight`), C07 (`h_css`),
    C08 (`h_distance`, with the code's `d = min R C` when C08 provides it), C13 (`h_min0`, `h_min1`). -/
theorem toric_mwpm_corrects (R C : Int) (hR : 2 ≤ R) (hC : 2 ≤ C)
    (h_path_syndrome : ToricL.Spec R C)
    (h_path_weight : ∀ a b, ToricL.Ok R C a b → bsfWt (ToricL.pathT R C a b) ≤ toricDistT R C a b)
    (h_css : IsCSS (Toric.stabilizers R C))
    (L : List BVec) (hL : ∀ row ∈ L, row.length = 2 * ToricL.nq R C)
    (d : Nat) (hd1 : 1 ≤ d)
    (h_distance : DistHyp (Toric.stabilizers R C) L (ToricL.nq R C) d)
    (e : BVec) (he : e.length = 2 * ToricL.nq R C)
    (heX : bsfWt (xPart e) ≤ (d - 1) / 2) (heZ : bsfWt (zPart e) ≤ (d - 1) / 2)
    (m0 m1 : List (Toric.Idx × Toric.Idx))
    (h_min0 : MinWeightPM R C (toricDefects R C (synd (Toric.stabilizers R C) e) 0) m0)
    (h_min1 : MinWeightPM R C (toricDefects R C (synd (Toric.stabilizers R C) e) 1) m1) :
    ∃ r, toricMwpmRecovery R C m0 m1 = .ok r ∧
      synd (Toric.stabilizers R C) r = synd (Toric.stabilizers R C) e ∧
      bsfWt (xPart r) ≤ bsfWt (xPart e) ∧ bsfWt (zPart r) ≤ bsfWt (zPart e) ∧
      corrected (Toric.stabilizers R C) L e r = true := by
  obtain ⟨r, hrec, hrlen, hrs, hX, hZ⟩ :=
    toric_chain_bound R C hR hC h_path_syndrome h_path_weight e he m0 m1 h_min0 h_min1
  exact ⟨r, hrec, hrs, chainBound_le _ _ _ hX, chainBound_le _ _ _ hZ,
    mwpm_corrects_of_chain_bound_partial _ L _ d (ToricL.stabilizers_length R C) hL h_css h_distance hd1
      e r he hrlen hrs heX heZ hX hZ⟩

/-! ### the planar code -/

open Qec.ChainPlanar in
/-- **chain_induces_matching (planar)**: for ANY error `e` on the R×C planar code and either plaquette
    type `t` (`true`: primal plaquettes / X-component, `false`: dual / Z-component) the decoder's graph
    for the defects of that type — real nodes = the defects, the NEAREST virtual plaquette of each (as a
    set), the extra virtual node when the node count is odd; edges defect–own virtual plaquette and all
    defect pairs weighted by `distance`, all virtual pairs at weight 0 (`distance` is 0 there) — has a
    perfect matching of total weight at most the weight of that component of `e`.
    (The boundary is one extra vertex of the plaquette graph; a chain segment ending on the boundary is
    at least as long as the distance to the nearest virtual plaquette of its defect; two defects sent
    to the same virtual plaquette are paired with each other instead.) -/
theorem chain_induces_matching_planar (R C : Int) (hR : 2 ≤ R) (hC : 2 ≤ C)
    (h_path_syndrome : PlanarL.Spec R C) (t : Bool) (e : BVec) (he : e.length = 2 * PlanarL.nq R C) :
    ∃ M : List (Idx2 × Idx2),
      isPerfectMatchingOfGraph (planarNodes R C t (planarDefects R C (synd (Planar.stabilizers R C) e) t))
        (planarEdges R C t (planarDefects R C (synd (Planar.stabilizers R C) e) t)) M = true ∧
      cost (Dec.distT R C) M ≤ bsfWt (partP t e) :=
  chain_matching_planar R C hR hC h_path_syndrome t e he

/-- the generic lemma behind it: T-join in a graph with a boundary, in the decoder's shape -/
theorem chain_induces_matching_boundary_generic {V : Type} [DecidableEq V]
    (ρ : V → Bool) (vp : V → V) (bd : V → Nat) (d dist2 : V → V → Nat)
    (hvp : ∀ a, ρ a = true → ρ (vp a) = false) (hsymm : ∀ a b, d a b = d b a)
    (hd_vp : ∀ a, ρ a = true → d a (vp a) = bd a)
    (hd_same : ∀ a b, ρ a = true → ρ b = true → vp a = vp b → d a b ≤ bd a + bd b)
    (hd_le : ∀ a b, ρ a = true → ρ b = true → d a b ≤ dist2 a b)
    (h2 : ∀ a b, dist2 a b = dist2 b a) (htri2 : ∀ a b c, dist2 a c ≤ dist2 a b + dist2 b c)
    (hlip : ∀ a b, bd a ≤ dist2 a b + bd b)
    (E : List (V × V)) (hadj : ∀ e ∈ E, pd ρ bd dist2 e.1 e.2 ≤ 1)
    (ds : List V) (hds : ds.Nodup) (hodd : ∀ v, v ∈ ds ↔ ρ v = true ∧ deg E v % 2 = 1)
    (vnodes : List V) (hvn : vnodes.Nodup) (hvirt : ∀ w ∈ vnodes, ρ w = false)
    (hvpmem : ∀ a ∈ ds, vp a ∈ vnodes) (hpar : (ds.length + vnodes.length) % 2 = 0)
    (hd_out : ∀ x ∈ vnodes, ∀ y ∈ vnodes, d x y = 0) :
    ∃ M', isPerfectMatchingOfGraph (ds ++ vnodes)
        (ds.map (fun a => (a, vp a)) ++ pairsOf ds ++ pairsOf vnodes) M' = true ∧
      cost d M' ≤ E.length :=
  tjoin_boundary ρ vp bd d dist2 hvp hsymm hd_vp hd_same hd_le h2 htri2 hlip E hadj ds hds hodd vnodes hvn
    hvirt hvpmem hpar hd_out

/-- what C13 delivers for the modelled planar graph of type `t`: `m` is a perfect matching of it of
    minimum total weight (`distance`; it is 0 between virtual nodes, as in `planarWeightedEdges`) -/
def MinWeightPMPlanar (R C : Int) (t : Bool) (ds : List Idx2) (m : List (Idx2 × Idx2)) : Prop :=
  isPerfectMatchingOfGraph (planarNodes R C t ds) (planarEdges R C t ds) m = true ∧
  ∀ m', isPerfectMatchingOfGraph (planarNodes R C t ds) (planarEdges R C t ds) m' = true →
    cost (Dec.distT R C) m ≤ cost (Dec.distT R C) m'

/-- the X- (Z-) component of the planar MWPM recovery is no heavier than that of the error, for any
    minimum-weight perfect matchings — `ChainBound` PROVED, not assumed -/
theorem planar_chain_bound (R C : Int) (hR : 2 ≤ R) (hC : 2 ≤ C)
    (h_path_syndrome : PlanarL.Spec R C)
    (h_path_weight : ∀ a b, PlanarL.Ok R C a b → bsfWt (PlanarL.pathT R C a b) ≤ Dec.distT R C a b)
    (e : BVec) (he : e.length = 2 * PlanarL.nq R C)
    (mP mD : List (Idx2 × Idx2))
    (h_minP : MinWeightPMPlanar R C true (planarDefects R C (synd (Planar.stabilizers R C) e) true) mP)
    (h_minD : MinWeightPMPlanar R C false (planarDefects R C (synd (Planar.stabilizers R C) e) false) mD) :
    ∃ r, planarMwpmRecovery R C mP mD = .ok r ∧ r.length = 2 * PlanarL.nq R C ∧
      synd (Planar.stabilizers R C) r = synd (Planar.stabilizers R C) e ∧
      ChainBound (PlanarL.nq R C) (xPart r) (xPart e) ∧
      ChainBound (PlanarL.nq R C) (zPart r) (zPart e) := by
  obtain ⟨MP, hMP, hcP⟩ := ChainPlanar.chain_matching_planar R C hR hC h_path_syndrome true e he
  obtain ⟨MD, hMD, hcD⟩ := ChainPlanar.chain_matching_planar R C hR hC h_path_syndrome false e he
  have hslen : (synd (Planar.stabilizers R C) e).length = (Planar.plaquetteIndices R C).length := by
    rw [synd_length, PlanarL.stabilizers_plaqs]
  obtain ⟨r, hrec, hrlen, hrs⟩ := C02.planar_mwpm_syndrome R C h_path_syndrome _ hslen mP mD h_minP.1 h_minD.1
  have hokP := PlanarL.pm_ok R C h_path_syndrome _ true mP h_minP.1
  have hokD := PlanarL.pm_ok R C h_path_syndrome _ false mD h_minD.1
  have htype : ∀ (t : Bool) (m : List (Idx2 × Idx2)),
      isPerfectMatchingOfGraph (planarNodes R C t (planarDefects R C (synd (Planar.stabilizers R C) e) t))
        (planarEdges R C t (planarDefects R C (synd (Planar.stabilizers R C) e) t)) m = true →
      ∀ ab ∈ m, Planar.isPrimal ab.1.1 ab.1.2 = t := by
    intro t m hm ab hab
    have hds := fun d hd => PlanarL.defects_real R C h_path_syndrome (synd (Planar.stabilizers R C) e) t d hd
    have h1 := pm_ends _ _ _ hm ab.1 (by unfold ends; exact List.mem_flatMap.mpr ⟨ab, hab, by simp⟩)
    unfold planarNodes at h1
    rcases List.mem_append.mp h1 with h | h
    · exact (hds _ h).2
    · exact (PlanarL.vnodes_out R C h_path_syndrome t _ hds _ h).2
  have hf : PlanarFlattenBound R C := fun r c hb hs => Planar.flatten_toNat_lt R C r c hR hC hs hb
  obtain ⟨vp, vd, evp, evd, hx, hz, hzp, hxd⟩ := mwpm_split_planar R C hf mP mD
    (htype true mP h_minP.1) (htype false mD h_minD.1) r hrec
  have hpath : ∀ (m : List (Idx2 × Idx2)), (∀ x ∈ m, PlanarL.Ok R C x.1 x.2) →
      ∀ x ∈ m, ∃ w, Planar.path R C (Planar.identity R C) x.1 x.2 = .ok w := by
    intro m hm x hx
    obtain ⟨w, hw, _⟩ := PlanarL.ok_path R C h_path_syndrome x.1 x.2 (hm x hx)
    exact ⟨w, hw⟩
  have evp' := PlanarL.applyMates_eq R C mP (hpath mP hokP)
  have evd' := PlanarL.applyMates_eq R C mD (hpath mD hokD)
  rw [evp] at evp'
  rw [evd] at evd'
  injection evp' with evp'
  injection evd' with evd'
  have hid : Planar.identity R C = zeros (2 * PlanarL.nq R C) := rfl
  refine ⟨r, hrec, hrlen, hrs, ?_, ?_⟩
  · refine chainBound_of_pairs (PlanarL.nq R C) mP (fun x => PlanarL.pathT R C x.1 x.2)
      (fun x => Dec.distT R C x.1 x.2) (cost (Dec.distT R C) MP) _ _ ?_
      (fun x _ => PlanarL.pathT_length R C _ _) (fun x hx => h_path_weight _ _ (hokP x hx))
      (h_minP.2 MP hMP) hcP
    rw [← evp']
    exact xPart_eq_of_halves _ r vp hrlen hx (by rw [hzp, hid, zHalf_zeros_two_mul])
  · refine chainBound_of_pairs (PlanarL.nq R C) mD (fun x => PlanarL.pathT R C x.1 x.2)
      (fun x => Dec.distT R C x.1 x.2) (cost (Dec.distT R C) MD) _ _ ?_
      (fun x _ => PlanarL.pathT_length R C _ _) (fun x hx => h_path_weight _ _ (hokD x hx))
      (h_minD.2 MD hMD) hcD
    rw [← evd']
    exact zPart_eq_of_halves _ r vd hrlen hz (by rw [hxd, hid, xHalf_zeros_two_mul])

/-- **planar_mwpm_corrects**: for ALL sizes R, C ≥ 2, every error `e` whose X-component and
    Z-component EACH have weight `≤ t = ⌊(d−1)/2⌋` is corrected by the modelled planar MWPM decoder,
    for ANY minimum-weight perfect matchings `mP`, `mD` of the two modelled graphs (primal / dual
    defects of the syndrome of `e`, nearest virtual plaquettes, extra node): the recovery exists,
    reproduces the syndrome, and `recovery ⊕ e` commutes with all stabilizers and all logicals `L`.
    Hypotheses = facts of other properties: C15 (`h_path_syndrome`, `h_path_weight`), C07 (`h_css`),
    C08 (`h_distance`, with the code's `d = min R C` when C08 provides it), C13 (`h_minP`, `h_minD`). -/
theorem planar_mwpm_corrects (R C : Int) (hR : 2 ≤ R) (hC : 2 ≤ C)
    (h_path_syndrome : PlanarL.Spec R C)
    (h_path_weight : ∀ a b, PlanarL.Ok R C a b → bsfWt (PlanarL.pathT R C a b) ≤ Dec.distT R C a b)
    (h_css : IsCSS (Planar.stabilizers R C))
    (L : List BVec) (hL : ∀ row ∈ L, row.length = 2 * PlanarL.nq R C)
    (d : Nat) (hd1 : 1 ≤ d)
    (h_distance : DistHyp (Planar.stabilizers R C) L (PlanarL.nq R C) d)
    (e : BVec) (he : e.length = 2 * PlanarL.nq R C)
    (heX : bsfWt (xPart e) ≤ (d - 1) / 2) (heZ : bsfWt (zPart e) ≤ (d - 1) / 2)
    (mP mD : List (Idx2 × Idx2))
    (h_minP : MinWeightPMPlanar R C true (planarDefects R C (synd (Planar.stabilizers R C) e) true) mP)
    (h_minD : MinWeightPMPlanar R C false (planarDefects R C (synd (Planar.stabilizers R C) e) false) mD) :
    ∃ r, planarMwpmRecovery R C mP mD = .ok r ∧
      synd (Planar.stabilizers R C) r = synd (Planar.stabilizers R C) e ∧
      bsfWt (xPart r) ≤ bsfWt (xPart e) ∧ bsfWt (zPart r) ≤ bsfWt (zPart e) ∧
      corrected (Planar.stabilizers R C) L e r = true := by
  obtain ⟨r, hrec, hrlen, hrs, hX, hZ⟩ :=
    planar_chain_bound R C hR hC h_path_syndrome h_path_weight e he mP mD h_minP h_minD
  exact ⟨r, hrec, hrs, chainBound_le _ _ _ hX, chainBound_le _ _ _ hZ,
    mwpm_corrects_of_chain_bound_partial _ L _ d (PlanarL.stabilizers_length R C) hL h_css h_distance hd1
      e r he hrlen hrs heX heZ hX hZ⟩

/-- the same for `planarDecodeWith` (Props/C14/Mwpm.lean): the decoder with the matching routine as a
    parameter — `mtP` / `mtD` map the defect list of one type to the mates returned for its graph; if
    they return minimum-weight perfect matchings of the modelled graphs, every error within `t` per
    component is corrected -/
theorem planar_decode_corrects (R C : Int) (hR : 2 ≤ R) (hC : 2 ≤ C)
    (h_path_syndrome : PlanarL.Spec R C)
    (h_path_weight : ∀ a b, PlanarL.Ok R C a b → bsfWt (PlanarL.pathT R C a b) ≤ Dec.distT R C a b)
    (h_css : IsCSS (Planar.stabilizers R C))
    (L : List BVec) (hL : ∀ row ∈ L, row.length = 2 * PlanarL.nq R C)
    (d : Nat) (hd1 : 1 ≤ d)
    (h_distance : DistHyp (Planar.stabilizers R C) L (PlanarL.nq R C) d)
    (mtP mtD : List Idx2 → List (Idx2 × Idx2))
    (h_minP : ∀ ds, MinWeightPMPlanar R C true ds (mtP ds))
    (h_minD : ∀ ds, MinWeightPMPlanar R C false ds (mtD ds))
    (e : BVec) (he : e.length = 2 * PlanarL.nq R C)
    (heX : bsfWt (xPart e) ≤ (d - 1) / 2) (heZ : bsfWt (zPart e) ≤ (d - 1) / 2) :
    ∃ r, planarDecodeWith R C mtP mtD (synd (Planar.stabilizers R C) e) = .ok r ∧
      corrected (Planar.stabilizers R C) L e r = true := by
  have e1 : ((Planar.syndromeToPlaquettes R C (synd (Planar.stabilizers R C) e)).filter
      fun i => Planar.isPrimal i.1 i.2) = planarDefects R C (synd (Planar.stabilizers R C) e) true := by
    unfold planarDefects
    apply List.filter_congr
    intro x _; simp
  have e2 : ((Planar.syndromeToPlaquettes R C (synd (Planar.stabilizers R C) e)).filter
      fun i => Planar.isDual i.1 i.2) = planarDefects R C (synd (Planar.stabilizers R C) e) false := by
    unfold planarDefects
    apply List.filter_congr
    intro x _; simp [Planar.isDual]
  obtain ⟨r, hrec, _, _, _, hcor⟩ := planar_mwpm_corrects R C hR hC h_path_syndrome h_path_weight h_css L hL d hd1
    h_distance e he heX heZ _ _ (h_minP _) (h_minD _)
  refine ⟨r, ?_, hcor⟩
  unfold planarDecodeWith
  simp only
  rw [e1, e2]
  exact hrec

/-! ### discharging the C07 / C08 / C15 hypotheses from the proved theorems of those properties

  Only the C13 hypothesis (the matching returned is a minimum-weight perfect matching of the modelled
  graph) remains. -/

/-- C08 ⇒ `DistHyp`: if every non-trivial logical weighs at least `d`, then every operator lighter than
    `d` that commutes with `S` commutes with `L` -/
theorem distHyp_of_lower (S L : List BVec) (n d : Nat)
    (h : ∀ e : BVec, e.length = 2 * n → Distance.IsLogical S L e → d ≤ Distance.wt e) : DistHyp S L n d := by
  intro v hv hs hw
  rw [isZero_synd_iff] at hs ⊢
  intro row hrow
  cases hb : bsp v row with
  | false => rfl
  | true =>
    exfalso
    have := h v hv ⟨(Distance.commAll_iff S v).mpr hs, row, hrow, hb⟩
    unfold Distance.wt at this
    omega

/-- C15 (toric) ⇒ the path facts used by C02 / C14 -/
theorem toric_path_facts (R C : Int) (hR : 2 ≤ R) (hC : 2 ≤ C) :
    ToricL.Spec R C ∧
    (∀ a b, ToricL.Ok R C a b → bsfWt (ToricL.pathT R C a b) ≤ toricDistT R C a b) := by
  refine ⟨⟨Toric.indices_nodup R C, fun a ha b hb hab =>
    C15.Toric.path_syndrome_vector_real R C hR hC a b ((Toric.mem_indices R C a).mp ha)
      ((Toric.mem_indices R C b).mp hb) hab⟩, ?_⟩
  intro a b hab
  obtain ⟨v, t, d, hv, _, hd, hw, _⟩ := C15.Toric.path_weight R C hR hC a b (by rw [hab.2.2])
  rw [ToricL.pathT_of_ok R C a b v hv]
  unfold toricDistT
  rw [hd, hw]

/-- C15 (planar) ⇒ the path facts used by C02 / C14 -/
theorem planar_path_facts (R C : Int) (hR : 2 ≤ R) (hC : 2 ≤ C) :
    PlanarL.Spec R C ∧
    (∀ a b, PlanarL.Ok R C a b → bsfWt (PlanarL.pathT R C a b) ≤ Dec.distT R C a b) := by
  have hspec : PlanarL.Spec R C :=
    ⟨C15.Planar.plaquetteIndices_spec R C hR hC,
     fun a b ha hb hab => C15.Planar.path_syndrome_vector R C hR hC a b ha hb hab,
     fun p hp => by
       obtain ⟨v, h1, h2, h3, _⟩ := C15.Planar.virtualPlaquette_spec R C hR hC p hp
       exact ⟨v, h1, h2, h3⟩⟩
  refine ⟨hspec, ?_⟩
  intro a b hab
  rcases hab.2 with ⟨ha, hb⟩ | ⟨ha, hb⟩
  · obtain ⟨v, d, hv, hd, hw⟩ := C15.Planar.path_weight_le R C hR hC a b ha hb hab.1
    rw [PlanarL.pathT_of_ok R C a b v hv]
    unfold Dec.distT
    rw [hd]
    exact hw
  · rw [PlanarL.pathT_of_ok R C a b _ (PlanarL.path_out_out R C _ a b ha hb hab.1), Planar.bsfWt_identity]
    exact Nat.zero_le _

/-- **toric_mwpm_corrects, with C07 / C08 / C15 discharged**: for ALL R, C ≥ 2 and `t = ⌊(min R C − 1)/2⌋`,
    every error whose X-component and Z-component each have weight ≤ t is corrected by the modelled
    toric MWPM decoder for ANY minimum-weight perfect matchings of the two modelled graphs: the recovery
    exists, has the syndrome, and `recovery ⊕ e` commutes with all stabilizers and all four logicals. -/
theorem toric_mwpm_corrects_all_sizes (R C : Int) (hR : 2 ≤ R) (hC : 2 ≤ C)
    (e : BVec) (he : e.length = 2 * (Toric.nQubits R C).toNat)
    (heX : bsfWt (xPart e) ≤ ((min R C).toNat - 1) / 2) (heZ : bsfWt (zPart e) ≤ ((min R C).toNat - 1) / 2)
    (m0 m1 : List (Toric.Idx × Toric.Idx))
    (h_min0 : MinWeightPM R C (toricDefects R C (synd (Toric.stabilizers R C) e) 0) m0)
    (h_min1 : MinWeightPM R C (toricDefects R C (synd (Toric.stabilizers R C) e) 1) m1) :
    ∃ r, toricMwpmRecovery R C m0 m1 = .ok r ∧
      synd (Toric.stabilizers R C) r = synd (Toric.stabilizers R C) e ∧
      corrected (Toric.stabilizers R C) (Toric.logicalXs R C ++ Toric.logicalZs R C) e r = true := by
  obtain ⟨hspec, hweight⟩ := toric_path_facts R C hR hC
  have hL : ∀ row ∈ Toric.logicalXs R C ++ Toric.logicalZs R C, row.length = 2 * ToricL.nq R C := by
    intro row hrow
    simp only [Toric.logicalXs, Toric.logicalZs, List.cons_append, List.nil_append, List.mem_cons,
      List.not_mem_nil, or_false] at hrow
    rcases hrow with rfl | rfl | rfl | rfl
    · exact Distance.Weights.toric_logicalX1_len R C hR hC
    · exact Distance.Weights.toric_logicalX2_len R C hR hC
    · exact Distance.Weights.toric_logicalZ1_len R C hR hC
    · exact Distance.Weights.toric_logicalZ2_len R C hR hC
  have hdist : DistHyp (Toric.stabilizers R C) (Toric.logicalXs R C ++ Toric.logicalZs R C) (ToricL.nq R C)
      (min R C).toNat :=
    distHyp_of_lower _ _ _ _ (fun v hv hl => by
      have := C08.distance_lower_toric R C hR hC v hv hl
      omega)
  obtain ⟨r, h1, h2, _, _, h5⟩ := toric_mwpm_corrects R C hR hC hspec hweight
    (toric_isCSS R C (by omega) (by omega)) _ hL (min R C).toNat (by omega) hdist e he heX heZ m0 m1 h_min0 h_min1
  exact ⟨r, h1, h2, h5⟩

/-- **planar_mwpm_corrects, with C07 / C08 / C15 discharged**: for ALL R, C ≥ 2 and
    `t = ⌊(min R C − 1)/2⌋`, every error whose X-component and Z-component each have weight ≤ t is
    corrected by the modelled planar MWPM decoder for ANY minimum-weight perfect matchings of the two
    modelled graphs -/
theorem planar_mwpm_corrects_all_sizes (R C : Int) (hR : 2 ≤ R) (hC : 2 ≤ C)
    (e : BVec) (he : e.length = 2 * (Planar.nQubits R C).toNat)
    (heX : bsfWt (xPart e) ≤ ((min R C).toNat - 1) / 2) (heZ : bsfWt (zPart e) ≤ ((min R C).toNat - 1) / 2)
    (mP mD : List (Idx2 × Idx2))
    (h_minP : MinWeightPMPlanar R C true (planarDefects R C (synd (Planar.stabilizers R C) e) true) mP)
    (h_minD : MinWeightPMPlanar R C false (planarDefects R C (synd (Planar.stabilizers R C) e) false) mD) :
    ∃ r, planarMwpmRecovery R C mP mD = .ok r ∧
      synd (Planar.stabilizers R C) r = synd (Planar.stabilizers R C) e ∧
      corrected (Planar.stabilizers R C) [Planar.logicalX R C, Planar.logicalZ R C] e r = true := by
  obtain ⟨hspec, hweight⟩ := planar_path_facts R C hR hC
  have hL : ∀ row ∈ [Planar.logicalX R C, Planar.logicalZ R C], row.length = 2 * PlanarL.nq R C := by
    intro row hrow
    simp only [List.mem_cons, List.not_mem_nil, or_false] at hrow
    rcases hrow with rfl | rfl
    · exact Distance.Weights.planar_logicalX_len R C hR hC
    · exact Distance.Weights.planar_logicalZ_len R C hR hC
  have hdist : DistHyp (Planar.stabilizers R C) [Planar.logicalX R C, Planar.logicalZ R C] (PlanarL.nq R C)
      (min R C).toNat :=
    distHyp_of_lower _ _ _ _ (fun v hv hl => by
      have := C08.distance_lower_planar R C hR hC v hv hl
      omega)
  obtain ⟨r, h1, h2, _, _, h5⟩ := planar_mwpm_corrects R C hR hC hspec hweight
    (ChainPlanar.planar_isCSS R C hR hC) _ hL (min R C).toNat (by omega) hdist e he heX heZ mP mD h_minP h_minD
  exact ⟨r, h1, h2, h5⟩

/-! ### non-vacuity and tiny-instance tests -/

/-- generic lemma, path 0–1–2–3 with the chord 1–3 and `dist = |i − j|`: odd vertices {0, 1} -/
example :
    let E : List (Nat × Nat) := [(0, 1), (1, 2), (2, 3), (1, 3)]
    let dist : Nat → Nat → Nat := fun a b => (a - b) + (b - a)
    (∀ e ∈ E, dist e.1 e.2 ≤ 1 ∨ e = (1, 3)) ∧
    (∀ v ∈ [0, 1, 2, 3], deg [(0, 1)] v = deg E v % 2) ∧ cost dist [(0, 1)] ≤ E.length := by decide

/-- a qubit of either lattice is an edge between adjacent plaquettes (3×4 torus, with wrap-around) -/
example : edge 3 4 0 (0, 0, 2) = ((0, 2, 2), (0, 0, 2)) ∧ edge 3 4 0 (1, 1, 0) = ((0, 1, 3), (0, 1, 0)) ∧
    edge 3 4 1 (1, 0, 2) = ((1, 2, 2), (1, 0, 2)) ∧ edge 3 4 1 (0, 0, 3) = ((1, 2, 3), (1, 2, 0)) ∧
    toricDistT 3 4 (0, 2, 2) (0, 0, 2) = 1 ∧ toricDistT 3 4 (1, 2, 3) (1, 2, 0) = 1 := by decide +kernel
example : (Toric.path 3 4 (Toric.identity 3 4) (edge 3 4 1 (0, 0, 3)).1 (edge 3 4 1 (0, 0, 3)).2).toOption =
    some (Toric.site 3 4 P1.Z (Toric.identity 3 4) (0, 0, 3)) := by decide +kernel

/-- the error X(0,0,0) Z(1,1,1) Y(0,2,1) on the 3×3 torus (|X-support| = |Z-support| = 2) -/
private def e33 : BVec :=
  Toric.site 3 3 P1.Y (Toric.site 3 3 P1.Z (Toric.site 3 3 P1.X (Toric.identity 3 3) (0, 0, 0)) (1, 1, 1)) (0, 2, 1)

/-- its chains have as many edges as the components have weight, and the defects of each lattice are
    exactly the odd-degree plaquettes of the chain of that lattice -/
example : (chainEdges 3 3 0 e33).length = 2 ∧ bsfWt (xPart e33) = 2 ∧
    (chainEdges 3 3 1 e33).length = 2 ∧ bsfWt (zPart e33) = 2 ∧
    (∀ l ∈ [(0 : Int), 1], ∀ p ∈ Toric.indices 3 3,
      decide (p ∈ toricDefects 3 3 (synd (Toric.stabilizers 3 3) e33) l) =
        decide (deg (chainEdges 3 3 l e33) p % 2 = 1)) := by decide +kernel

/-- the matchings networkx returned for that syndrome (recorded by the C02 harness) are perfect
    matchings of the modelled graphs, no heavier than the components, and the recovery corrects `e33` -/
example :
    let s := synd (Toric.stabilizers 3 3) e33
    let m0 : List (Toric.Idx × Toric.Idx) := [((0, 2, 0), (0, 0, 0)), ((0, 2, 1), (0, 1, 1))]
    let m1 : List (Toric.Idx × Toric.Idx) := [((1, 0, 1), (1, 1, 2))]
    isPerfectMatchingOfGraph (toricNodes (toricDefects 3 3 s 0)) (toricEdges (toricDefects 3 3 s 0)) m0 = true ∧
    isPerfectMatchingOfGraph (toricNodes (toricDefects 3 3 s 1)) (toricEdges (toricDefects 3 3 s 1)) m1 = true ∧
    cost (toricDistT 3 3) m0 ≤ bsfWt (xPart e33) ∧ cost (toricDistT 3 3) m1 ≤ bsfWt (zPart e33) ∧
    (toricMwpmRecovery 3 3 m0 m1).toOption.map
      (corrected (Toric.stabilizers 3 3) (Toric.logicalXs 3 3 ++ Toric.logicalZs 3 3) e33) = some true := by
  decide +kernel

/-- planar: a qubit of either parity is an edge between adjacent plaquettes of either type; boundary
    qubits have a virtual endpoint -/
example : ChainPlanar.edgeP true (0, 2) = ((-1, 2), (1, 2)) ∧ ChainPlanar.edgeP true (1, 3) = ((1, 2), (1, 4)) ∧
    ChainPlanar.edgeP false (0, 0) = ((0, -1), (0, 1)) ∧ ChainPlanar.edgeP false (3, 1) = ((2, 1), (4, 1)) ∧
    TJoin.pd (ChainPlanar.rho 3 3 true) (ChainPlanar.bdP 3 3 true) ChainPlanar.dist2 (-1, 2) (1, 2) = 1 ∧
    (Planar.path 3 3 (Planar.identity 3 3) (-1, 2) (1, 2)).toOption =
      some (Planar.site 3 3 P1.X (Planar.identity 3 3) (0, 2)) := by decide +kernel

/-- the error X(0,0) Z(2,2) Y(1,3) on the 3×3 planar code -/
private def p33 : BVec :=
  Planar.site 3 3 P1.Y (Planar.site 3 3 P1.Z (Planar.site 3 3 P1.X (Planar.identity 3 3) (0, 0)) (2, 2)) (1, 3)

/-- its chains have as many edges as the components have weight, and the defects of each type are
    exactly the in-lattice plaquettes of that type of odd degree in the chain of that type -/
example : (ChainPlanar.chainEdgesP 3 3 true p33).length = 2 ∧ bsfWt (xPart p33) = 2 ∧
    (ChainPlanar.chainEdgesP 3 3 false p33).length = 2 ∧ bsfWt (zPart p33) = 2 ∧
    (∀ t ∈ [true, false], ∀ p ∈ Planar.plaquetteIndices 3 3,
      decide (p ∈ planarDefects 3 3 (synd (Planar.stabilizers 3 3) p33) t) =
        (ChainPlanar.rho 3 3 t p && decide (deg (ChainPlanar.chainEdgesP 3 3 t p33) p % 2 = 1))) := by
  decide +kernel

/-- the matchings networkx returned for that syndrome (C02 harness record) are perfect matchings of the
    modelled graphs (virtual–virtual pairs at weight 0), no heavier than the components, and the
    recovery corrects `p33` -/
example :
    let s := synd (Planar.stabilizers 3 3) p33
    let mP : List (Idx2 × Idx2) := [((-1, 4), (1, 4)), ((1, 2), (1, 0)), ((-1, 0), (-1, 2))]
    let mD : List (Idx2 × Idx2) := [((0, 5), (2, -1)), ((2, 1), (0, 3))]
    isPerfectMatchingOfGraph (planarNodes 3 3 true (planarDefects 3 3 s true))
      (planarEdges 3 3 true (planarDefects 3 3 s true)) mP = true ∧
    isPerfectMatchingOfGraph (planarNodes 3 3 false (planarDefects 3 3 s false))
      (planarEdges 3 3 false (planarDefects 3 3 s false)) mD = true ∧
    cost (Dec.distT 3 3) mP ≤ bsfWt (xPart p33) ∧ cost (Dec.distT 3 3) mD ≤ bsfWt (zPart p33) ∧
    (planarMwpmRecovery 3 3 mP mD).toOption.map
      (corrected (Planar.stabilizers 3 3) [Planar.logicalX 3 3, Planar.logicalZ 3 3] p33) = some true := by
  decide +kernel

end Qec.C14
