/-
  C14, part 4 — the bridge C13 → C14: the matching the MWPM decoders obtain from `gt.mwpm_networkx` IS a
  minimum-weight perfect matching of the modelled graph, so `MinWeightPM` / `MinWeightPMPlanar` — the one hypothesis
  left in `toric_mwpm_corrects_all_sizes` / `planar_mwpm_corrects_all_sizes` (Props/C14/Chain.lean) — follows from
  the documented contract of `networkx.max_weight_matching` (`C13.NxContract`) ALONE.

  The two sides speak different languages:
    C13 (Model/Matching.lean)  graphs over small-integer nodes, built by an insertion sequence of
                               `add_edge(a, b, w)` with `Rat` weights; `IsPM`, `weightBy`, `mwpmNetworkx oracle`.
    C14 (Model/Decoders.lean)  `isPerfectMatchingOfGraph nodes edges` over plaquette indices, `cost distance` in `Nat`.
  The translation (Lemmas/MwpmBridge.lean):
    * `planarGraphOps` / `toricGraphOps`: the `add_edge` calls `PlanarMWPMDecoder.decode` / `ToricMWPMDecoder.decode`
      perform on `gt.SimpleGraph()` for one plaquette type / lattice, in program order — planar: `(index, vindex,
      distance)` for every defect, then `combinations(indices, 2)` with `distance`, then `combinations(vindices, 2)`
      with weight 0 (= `planarWeightedEdges`); toric: `combinations(l_plaquette_indices, 2)` with `distance`
      (= `toricWeightedEdges`) — with the node objects numbered by FIRST OCCURRENCE in that sequence (`encF`, what the
      C13 harness does with the decoders' node objects; `decF` maps the numbers back).  (`vindices` is a Python `set`;
      the model lists it in a fixed order.  Nothing below depends on the order of the insertions or on the numbering:
      `MwpmBridge.bridge_generic` holds for ANY edge order and ANY injective encoding.)
    * perfectness transfers through the injective encoding (`GraphEnc.isPM_iff`), total weights agree because the `Nat`
      distances cast to `Rat` (`GraphEnc.weight_eq`; `SimpleGraph` stores the LAST weight written for an unordered
      pair, and every weight written for a pair is the symmetric `distance` of its endpoints), and minimality
      transfers because every perfect matching of the decoder graph encodes to one of `build graphOps`.
  PROVED here, for all sizes:
    * `bridge_planar`, `bridge_toric` (+ `…_graph` forms for arbitrary defect lists, `…_empty` for no defects);
    * `planar_mwpm_corrects_networkx`, `toric_mwpm_corrects_networkx`: under `NxContract oracle` ONLY, every error with
      |X-support|, |Z-support| ≤ t = ⌊(min R C − 1)/2⌋ is corrected by the modelled decoder that obtains its matchings
      from `mwpmNetworkx oracle`.
  TRUSTED: `NxContract` — Edmonds' blossom algorithm lives in networkx, outside /repo; C13's harness tests the real
  routine against the verified optimum `minPM` on every run.  It is now the single trusted assumption of C14's MWPM
  clause on the networkx path.  (With the Blossom V C library present `gt.mwpm` dispatches to it instead; that backend
  is covered by Props/C14/Blossom.lean, under the contract `Blossom5.ClibContract` of the C routine.)
-/
import QecVerif.Props.C14
import QecVerif.Props.C14.Chain
import QecVerif.Props.C13
import QecVerif.Lemmas.MwpmBridge
namespace Qec.C14.Bridge
open Qec Qec.Dec Qec.Matching Qec.TJoin Qec.MwpmBridge Qec.NaiveDecode Qec.ChainToric

/-! ### the insertion sequences and the decoded mates -/

/-- the `graph.add_edge(a, b, w)` calls of `PlanarMWPMDecoder.decode` for the defects `ds` of one plaquette type, in
    program order, nodes numbered by first occurrence -/
def planarGraphOps (R C : Int) (t : Bool) (ds : List Idx2) : List (Node × Node × Rat) :=
  graphOps (encF (planarWeightedEdges R C t ds)) (planarWeightedEdges R C t ds)

/-- `gt.mwpm_networkx(graph)` for that graph, the returned numbers mapped back to plaquette indices -/
def planarMatesNx (oracle : Graph → Bool → List Edge) (R C : Int) (t : Bool) (ds : List Idx2) : List (Idx2 × Idx2) :=
  decPairs (decF (planarWeightedEdges R C t ds)) (mwpmNetworkx oracle (build (planarGraphOps R C t ds)))

/-- the `l_graph.add_edge(a, b, distance)` calls of `ToricMWPMDecoder.decode` for the defects `ds` of one lattice -/
def toricGraphOps (R C : Int) (ds : List Toric.Idx) : List (Node × Node × Rat) :=
  graphOps (encF (toricWeightedEdges R C ds)) (toricWeightedEdges R C ds)

def toricMatesNx (oracle : Graph → Bool → List Edge) (R C : Int) (ds : List Toric.Idx) :
    List (Toric.Idx × Toric.Idx) :=
  decPairs (decF (toricWeightedEdges R C ds)) (mwpmNetworkx oracle (build (toricGraphOps R C ds)))

/-- `PlanarMWPMDecoder.decode` with `gt.mwpm = mwpm_networkx`, the networkx routine being the parameter `oracle` -/
def planarDecodeNx (oracle : Graph → Bool → List Edge) (R C : Int) (s : BVec) : Except IdxErr BVec :=
  planarDecodeWith R C (planarMatesNx oracle R C true) (planarMatesNx oracle R C false) s

/-- `ToricMWPMDecoder.decode` with `gt.mwpm = mwpm_networkx` -/
def toricDecodeNx (oracle : Graph → Bool → List Edge) (R C : Int) (s : BVec) : Except IdxErr BVec :=
  toricMwpmRecovery R C (toricMatesNx oracle R C (toricDefects R C s 0)) (toricMatesNx oracle R C (toricDefects R C s 1))

/-! ### the encoding is faithful -/

/-- the numbering is injective on the nodes of the modelled planar graph and `decF` inverts it; the insertion
    sequence mentions exactly those nodes, carries the decoder's distance as weight, and its unweighted edges are
    `planarEdges` -/
theorem planar_encoding_faithful (R C : Int) (hR : 2 ≤ R) (hC : 2 ≤ C) (t : Bool) (ds : List Idx2)
    (hds : ∀ a ∈ ds, PlanarL.Real R C a ∧ Planar.isPrimal a.1 a.2 = t) :
    (∀ a ∈ planarNodes R C t ds, ∀ b ∈ planarNodes R C t ds,
      encF (planarWeightedEdges R C t ds) a = encF (planarWeightedEdges R C t ds) b → a = b) ∧
    (∀ a ∈ planarNodes R C t ds, decF (planarWeightedEdges R C t ds) (encF (planarWeightedEdges R C t ds) a) = a) ∧
    (∀ x, x ∈ nodesOf (build (planarGraphOps R C t ds)) ↔
      ∃ a ∈ planarNodes R C t ds, x = encF (planarWeightedEdges R C t ds) a) ∧
    (∀ a ∈ planarNodes R C t ds, ∀ b ∈ planarNodes R C t ds,
      ((edgeW (build (planarGraphOps R C t ds)) (encF (planarWeightedEdges R C t ds) a)
          (encF (planarWeightedEdges R C t ds) b)).isSome = true ↔ isEdge (planarEdges R C t ds) a b = true) ∧
      ∀ w, edgeW (build (planarGraphOps R C t ds)) (encF (planarWeightedEdges R C t ds) a)
          (encF (planarWeightedEdges R C t ds) b) = some w → w = (Dec.distT R C a b : Rat)) := by
  have G := graphEnc_planar R C (planar_path_facts R C hR hC).1 t ds hds
  refine ⟨fun a ha b hb h => G.inj ha hb h, G.dec_enc, G.mem_nodes, fun a ha b hb => ⟨?_, fun w hw => ?_⟩⟩
  · rw [← edgesOf_planar]; exact G.edge_iff ha hb
  · exact G.edge_weight ha hb hw

/-- the same for the toric graph of one lattice (any defect list) -/
theorem toric_encoding_faithful (R C : Int) (hR : 0 < R) (hC : 0 < C) (ds : List Toric.Idx) :
    (∀ a ∈ toricNodes ds, ∀ b ∈ toricNodes ds,
      encF (toricWeightedEdges R C ds) a = encF (toricWeightedEdges R C ds) b → a = b) ∧
    (∀ a ∈ toricNodes ds, decF (toricWeightedEdges R C ds) (encF (toricWeightedEdges R C ds) a) = a) ∧
    (∀ x, x ∈ nodesOf (build (toricGraphOps R C ds)) ↔ ∃ a ∈ toricNodes ds, x = encF (toricWeightedEdges R C ds) a) ∧
    (∀ a ∈ toricNodes ds, ∀ b ∈ toricNodes ds,
      ((edgeW (build (toricGraphOps R C ds)) (encF (toricWeightedEdges R C ds) a)
          (encF (toricWeightedEdges R C ds) b)).isSome = true ↔ isEdge (toricEdges ds) a b = true) ∧
      ∀ w, edgeW (build (toricGraphOps R C ds)) (encF (toricWeightedEdges R C ds) a)
          (encF (toricWeightedEdges R C ds) b) = some w → w = (toricDistT R C a b : Rat)) := by
  have G := graphEnc_toric R C hR hC ds
  refine ⟨fun a ha b hb h => G.inj ha hb h, G.dec_enc, G.mem_nodes, fun a ha b hb => ⟨?_, fun w hw => ?_⟩⟩
  · rw [← edgesOf_toric R C]; exact G.edge_iff ha hb
  · exact G.edge_weight ha hb hw

/-- **perfect matchings correspond, with equal weight** (planar): a list of pairs over the nodes is a perfect
    matching of the modelled graph iff its encoding is a perfect matching (C13's `IsPM`) of the built `SimpleGraph`,
    and then C13's total weight of the encoding is the decoder's total distance -/
theorem planar_pm_transfer (R C : Int) (hR : 2 ≤ R) (hC : 2 ≤ C) (t : Bool) (ds : List Idx2)
    (hds : ∀ a ∈ ds, PlanarL.Real R C a ∧ Planar.isPrimal a.1 a.2 = t)
    (m : List (Idx2 × Idx2)) (hm : ∀ v ∈ ends m, v ∈ planarNodes R C t ds) :
    (isPerfectMatchingOfGraph (planarNodes R C t ds) (planarEdges R C t ds) m = true ↔
      IsPM (nodesOf (build (planarGraphOps R C t ds))) (edgeW (build (planarGraphOps R C t ds)))
        (encPairs (encF (planarWeightedEdges R C t ds)) m)) ∧
    (isPerfectMatchingOfGraph (planarNodes R C t ds) (planarEdges R C t ds) m = true →
      matchingWeight (build (planarGraphOps R C t ds)) (encPairs (encF (planarWeightedEdges R C t ds)) m) =
        (cost (Dec.distT R C) m : Rat)) := by
  have G := graphEnc_planar R C (planar_path_facts R C hR hC).1 t ds hds
  rw [← edgesOf_planar]
  refine ⟨G.isPM_iff m hm, fun h => G.weight_eq m hm ?_⟩
  intro p hp
  unfold isPerfectMatchingOfGraph at h
  simp only [Bool.and_eq_true, List.all_eq_true] at h
  exact h.1.1 p hp

/-- the same for the toric graph -/
theorem toric_pm_transfer (R C : Int) (hR : 0 < R) (hC : 0 < C) (ds : List Toric.Idx)
    (m : List (Toric.Idx × Toric.Idx)) (hm : ∀ v ∈ ends m, v ∈ toricNodes ds) :
    (isPerfectMatchingOfGraph (toricNodes ds) (toricEdges ds) m = true ↔
      IsPM (nodesOf (build (toricGraphOps R C ds))) (edgeW (build (toricGraphOps R C ds)))
        (encPairs (encF (toricWeightedEdges R C ds)) m)) ∧
    (isPerfectMatchingOfGraph (toricNodes ds) (toricEdges ds) m = true →
      matchingWeight (build (toricGraphOps R C ds)) (encPairs (encF (toricWeightedEdges R C ds)) m) =
        (cost (toricDistT R C) m : Rat)) := by
  have G := graphEnc_toric R C hR hC ds
  rw [← edgesOf_toric R C]
  refine ⟨G.isPM_iff m hm, fun h => G.weight_eq m hm ?_⟩
  intro p hp
  unfold isPerfectMatchingOfGraph at h
  simp only [Bool.and_eq_true, List.all_eq_true] at h
  exact h.1.1 p hp

/-! ### the bridge -/

/-- **bridge (planar), arbitrary defect list**: for real defects `ds` of type `t` whose modelled graph has a perfect
    matching, the decoded answer of `mwpm_networkx` is a minimum-weight perfect matching of the modelled graph, if
    the networkx routine meets its contract -/
theorem bridge_planar_graph (oracle : Graph → Bool → List Edge) (hc : C13.NxContract oracle)
    (R C : Int) (hR : 2 ≤ R) (hC : 2 ≤ C) (t : Bool) (ds : List Idx2)
    (hds : ∀ a ∈ ds, PlanarL.Real R C a ∧ Planar.isPrimal a.1 a.2 = t)
    (hex : ∃ m', isPerfectMatchingOfGraph (planarNodes R C t ds) (planarEdges R C t ds) m' = true) :
    MinWeightPMPlanar R C t ds (planarMatesNx oracle R C t ds) := by
  have G := graphEnc_planar R C (planar_path_facts R C hR hC).1 t ds hds
  have := bridge_generic oracle hc G (by rw [edgesOf_planar]; exact hex)
  rw [edgesOf_planar] at this
  exact this

/-- **bridge_planar**: for EVERY syndrome `s` (of the right length or not) and either plaquette type, the matching the
    planar MWPM decoder obtains from `mwpm_networkx` for the defects of `s` satisfies `MinWeightPMPlanar` — under the
    networkx contract only (the modelled graph always has a perfect matching: `PlanarL.graph_has_pm`) -/
theorem bridge_planar (oracle : Graph → Bool → List Edge) (hc : C13.NxContract oracle)
    (R C : Int) (hR : 2 ≤ R) (hC : 2 ≤ C) (s : BVec) (t : Bool) :
    MinWeightPMPlanar R C t (planarDefects R C s t) (planarMatesNx oracle R C t (planarDefects R C s t)) :=
  have H := (planar_path_facts R C hR hC).1
  bridge_planar_graph oracle hc R C hR hC t _ (fun a ha => PlanarL.defects_real R C H s t a ha)
    (PlanarL.graph_has_pm R C H s t)

/-- **bridge (toric), arbitrary defect list**: whenever the modelled graph of the defects `ds` has a perfect matching
    at all -/
theorem bridge_toric_graph (oracle : Graph → Bool → List Edge) (hc : C13.NxContract oracle)
    (R C : Int) (hR : 0 < R) (hC : 0 < C) (ds : List Toric.Idx)
    (hex : ∃ m', isPerfectMatchingOfGraph (toricNodes ds) (toricEdges ds) m' = true) :
    MinWeightPM R C ds (toricMatesNx oracle R C ds) := by
  have G := graphEnc_toric R C hR hC ds
  have := bridge_generic oracle hc G (by rw [edgesOf_toric]; exact hex)
  rw [edgesOf_toric] at this
  exact this

/-- **bridge_toric**: for every syndrome with an even number of defects on lattice `l` (every syndrome of an error
    has: `chain_induces_matching_toric`) the matching the toric MWPM decoder obtains from `mwpm_networkx` satisfies
    `MinWeightPM` — under the networkx contract only -/
theorem bridge_toric (oracle : Graph → Bool → List Edge) (hc : C13.NxContract oracle)
    (R C : Int) (hR : 2 ≤ R) (hC : 2 ≤ C) (s : BVec) (l : Int)
    (hev : (toricDefects R C s l).length % 2 = 0) :
    MinWeightPM R C (toricDefects R C s l) (toricMatesNx oracle R C (toricDefects R C s l)) :=
  bridge_toric_graph oracle hc R C (by omega) (by omega) _
    (ToricL.graph_has_pm R C (toric_path_facts R C hR hC).1 s l hev)

/-- no defects (planar) / fewer than two defects (toric: a lone defect is not even a node): the graph is empty and
    `mwpm_networkx` returns the empty matching without consulting networkx -/
theorem bridge_empty (oracle : Graph → Bool → List Edge) (R C : Int) (t : Bool) (d : Toric.Idx) :
    planarGraphOps R C t [] = [] ∧ planarMatesNx oracle R C t [] = [] ∧
    toricGraphOps R C [] = [] ∧ toricMatesNx oracle R C [] = [] ∧
    toricGraphOps R C [d] = [] ∧ toricMatesNx oracle R C [d] = [] := by
  have hp : planarWeightedEdges R C t [] = [] := by
    simp [planarWeightedEdges, planarVNodes, dedup, pairsOf]
  have h0 : toricWeightedEdges R C [] = [] := rfl
  have h1 : toricWeightedEdges R C [d] = [] := rfl
  refine ⟨?_, ?_, ?_, ?_, ?_, ?_⟩
  · unfold planarGraphOps; rw [hp]; rfl
  · unfold planarMatesNx planarGraphOps; rw [hp]; rfl
  · rfl
  · rfl
  · rfl
  · rfl

/-! ### C14's MWPM clause under the networkx contract alone -/

/-- **planar_mwpm_corrects_networkx**: for ALL sizes R, C ≥ 2 and `t = ⌊(min R C − 1)/2⌋`, if the networkx routine
    meets its documented contract (`NxContract oracle` — the ONLY hypothesis; tested on every run by C13's harness
    against the verified optimum), then every error whose X-component and Z-component EACH have weight ≤ t is
    corrected by the modelled planar MWPM decoder that builds its two graphs by the modelled `add_edge` sequences and
    obtains its matchings from `mwpm_networkx`: the recovery exists, reproduces the syndrome, and `recovery ⊕ e`
    commutes with all stabilizers and both logicals.  C07 / C08 / C13 / C15 facts are all discharged from the proved
    theorems of those properties. -/
theorem planar_mwpm_corrects_networkx (oracle : Graph → Bool → List Edge) (hc : C13.NxContract oracle)
    (R C : Int) (hR : 2 ≤ R) (hC : 2 ≤ C)
    (e : BVec) (he : e.length = 2 * (Planar.nQubits R C).toNat)
    (heX : bsfWt (xPart e) ≤ ((min R C).toNat - 1) / 2) (heZ : bsfWt (zPart e) ≤ ((min R C).toNat - 1) / 2) :
    ∃ r, planarDecodeNx oracle R C (synd (Planar.stabilizers R C) e) = .ok r ∧
      synd (Planar.stabilizers R C) r = synd (Planar.stabilizers R C) e ∧
      corrected (Planar.stabilizers R C) [Planar.logicalX R C, Planar.logicalZ R C] e r = true := by
  obtain ⟨r, h1, h2, h3⟩ := planar_mwpm_corrects_all_sizes R C hR hC e he heX heZ _ _
    (bridge_planar oracle hc R C hR hC (synd (Planar.stabilizers R C) e) true)
    (bridge_planar oracle hc R C hR hC (synd (Planar.stabilizers R C) e) false)
  refine ⟨r, ?_, h2, h3⟩
  have e1 : ((Planar.syndromeToPlaquettes R C (synd (Planar.stabilizers R C) e)).filter
      fun i => Planar.isPrimal i.1 i.2) = planarDefects R C (synd (Planar.stabilizers R C) e) true := by
    unfold planarDefects
    apply List.filter_congr
    intro x _; simp
  have e2 : ((Planar.syndromeToPlaquettes R C (synd (Planar.stabilizers R C) e)).filter
      fun i => Planar.isDual i.1 i.2) = planarDefects R C (synd (Planar.stabilizers R C) e) false := by
    unfold planarDefects
    apply List.filter_congr
    intro x _; simp [Planar.isDual]
  unfold planarDecodeNx planarDecodeWith
  simp only
  rw [e1, e2]
  exact h1

/-- **toric_mwpm_corrects_networkx**: the same for the toric code, all sizes R, C ≥ 2 — `NxContract oracle` is the
    ONLY hypothesis -/
theorem toric_mwpm_corrects_networkx (oracle : Graph → Bool → List Edge) (hc : C13.NxContract oracle)
    (R C : Int) (hR : 2 ≤ R) (hC : 2 ≤ C)
    (e : BVec) (he : e.length = 2 * (Toric.nQubits R C).toNat)
    (heX : bsfWt (xPart e) ≤ ((min R C).toNat - 1) / 2) (heZ : bsfWt (zPart e) ≤ ((min R C).toNat - 1) / 2) :
    ∃ r, toricDecodeNx oracle R C (synd (Toric.stabilizers R C) e) = .ok r ∧
      synd (Toric.stabilizers R C) r = synd (Toric.stabilizers R C) e ∧
      corrected (Toric.stabilizers R C) (Toric.logicalXs R C ++ Toric.logicalZs R C) e r = true := by
  have H := (toric_path_facts R C hR hC).1
  obtain ⟨_, _, _, hev0⟩ := chain_induces_matching_toric R C hR hC H 0 (.inl rfl) e he
  obtain ⟨_, _, _, hev1⟩ := chain_induces_matching_toric R C hR hC H 1 (.inr rfl) e he
  exact toric_mwpm_corrects_all_sizes R C hR hC e he heX heZ _ _
    (bridge_toric oracle hc R C hR hC _ 0 hev0) (bridge_toric oracle hc R C hR hC _ 1 hev1)

/-! ### insertion order and orientation are irrelevant -/

/-- **bridge_planar for any insertion order**: `vindices` is a Python `set`, so the order in which
    `combinations(vindices, 2)` emits the virtual pairs — and which member comes first — is hash order.  For EVERY
    insertion sequence `W'` with the same unordered weighted edges as the modelled one (any order, orientation,
    repetition; nodes numbered by first occurrence in `W'`), the decoded answer of `mwpm_networkx` satisfies
    `MinWeightPMPlanar` -/
theorem bridge_planar_any_order (oracle : Graph → Bool → List Edge) (hc : C13.NxContract oracle)
    (R C : Int) (hR : 2 ≤ R) (hC : 2 ≤ C) (s : BVec) (t : Bool) (W' : List (Idx2 × Idx2 × Nat))
    (hW : SameEdges (planarWeightedEdges R C t (planarDefects R C s t)) W') :
    MinWeightPMPlanar R C t (planarDefects R C s t)
      (decPairs (decF W') (mwpmNetworkx oracle (build (graphOps (encF W') W')))) := by
  have H := (planar_path_facts R C hR hC).1
  have G := graphEnc_planar R C H t _ (fun a ha => PlanarL.defects_real R C H s t a ha)
  have := bridge_generic_reorder oracle hc G hW (by rw [edgesOf_planar]; exact PlanarL.graph_has_pm R C H s t)
  rw [edgesOf_planar] at this
  exact this

/-- the same for the toric graph of one lattice -/
theorem bridge_toric_any_order (oracle : Graph → Bool → List Edge) (hc : C13.NxContract oracle)
    (R C : Int) (hR : 2 ≤ R) (hC : 2 ≤ C) (s : BVec) (l : Int)
    (hev : (toricDefects R C s l).length % 2 = 0) (W' : List (Toric.Idx × Toric.Idx × Nat))
    (hW : SameEdges (toricWeightedEdges R C (toricDefects R C s l)) W') :
    MinWeightPM R C (toricDefects R C s l)
      (decPairs (decF W') (mwpmNetworkx oracle (build (graphOps (encF W') W')))) := by
  have G := graphEnc_toric R C (by omega) (by omega) (toricDefects R C s l)
  have := bridge_generic_reorder oracle hc G hW (by
    rw [edgesOf_toric]; exact ToricL.graph_has_pm R C (toric_path_facts R C hR hC).1 s l hev)
  rw [edgesOf_toric] at this
  exact this

/-! ### the contract is satisfiable: an exact matcher -/

/-- **the networkx contract is satisfiable**: the exhaustive matcher `bruteNx` (maximum cardinality, then maximum
    weight, by trying every partner of the first node) meets `NxContract` on every edge list — so the theorems above
    are not vacuous, and the tests below run with it -/
theorem exact_matcher_meets_contract : C13.NxContract bruteNx := bruteNx_contract

/-- hence, with NO hypothesis at all: the modelled planar MWPM decoder with an exact matcher corrects every error with
    |X-support|, |Z-support| ≤ t, for all sizes -/
theorem planar_mwpm_corrects_exact_matcher (R C : Int) (hR : 2 ≤ R) (hC : 2 ≤ C)
    (e : BVec) (he : e.length = 2 * (Planar.nQubits R C).toNat)
    (heX : bsfWt (xPart e) ≤ ((min R C).toNat - 1) / 2) (heZ : bsfWt (zPart e) ≤ ((min R C).toNat - 1) / 2) :
    ∃ r, planarDecodeNx bruteNx R C (synd (Planar.stabilizers R C) e) = .ok r ∧
      synd (Planar.stabilizers R C) r = synd (Planar.stabilizers R C) e ∧
      corrected (Planar.stabilizers R C) [Planar.logicalX R C, Planar.logicalZ R C] e r = true :=
  planar_mwpm_corrects_networkx bruteNx bruteNx_contract R C hR hC e he heX heZ

/-- … and the toric one -/
theorem toric_mwpm_corrects_exact_matcher (R C : Int) (hR : 2 ≤ R) (hC : 2 ≤ C)
    (e : BVec) (he : e.length = 2 * (Toric.nQubits R C).toNat)
    (heX : bsfWt (xPart e) ≤ ((min R C).toNat - 1) / 2) (heZ : bsfWt (zPart e) ≤ ((min R C).toNat - 1) / 2) :
    ∃ r, toricDecodeNx bruteNx R C (synd (Toric.stabilizers R C) e) = .ok r ∧
      synd (Toric.stabilizers R C) r = synd (Toric.stabilizers R C) e ∧
      corrected (Toric.stabilizers R C) (Toric.logicalXs R C ++ Toric.logicalZs R C) e r = true :=
  toric_mwpm_corrects_networkx bruteNx bruteNx_contract R C hR hC e he heX heZ

/-
STATED, NOT PROVED (outside /repo, or outside the model):

  * `NxContract networkx_max_weight_matching` for the REAL routine — Edmonds' blossom algorithm in networkx.  Tested on
    every run by C13's harness (perfectness and total weight against the verified optimum `minPM`); the single trusted
    assumption of C14's MWPM clause.
  * (NOW PROVED, Props/C14/Blossom.lean `bridge_planar_blossom`, `bridge_toric_blossom`,
    `planar_mwpm_corrects_blossom`, `toric_mwpm_corrects_blossom`, `…_corrects_gt_mwpm`: the Blossom V backend.
    `gt.mwpm` dispatches to `mwpm_blossom5` when the C library loads (it does not in this environment); with the
    wrapper modelled line by line (Model/Blossom5.lean: node→id map in any hash order, id edges, the `assert` of
    `mwpm_ids`, the C call, sorted id pairs, ids back to nodes) and `weight_to_int_fn` proved to be the identity on the
    decoders' integer distances when `R + C < infty()/10`,
        ∀ clib, ClibContract clib → ∀ hash orders, ∀ R C ≥ 2 with R + C < infty/10, ∀ s t,
          mwpm_blossom5 raises nothing ∧ MinWeightPMPlanar R C t (planarDefects R C s t) (decoded mates)
    and the same for toric, hence `corrects`.)  What stays trusted there: `ClibContract` for the REAL Blossom V library
    (outside /repo, licence forbids redistribution; satisfiable: `clib_contract_satisfiable`).
  * (NOW PROVED, Props/C14/MatesOrder.lean `planar_applyMates_perm`, `toric_applyMates_perm`,
    `toric_mwpm_recovery_perm`: `recovery_pauli.path(a, b)` is applied for the mates in the (hash) order of the returned
    Python `set`, the model applies them in list order; the recovery is an XOR of paths, so it is the same for every
    permutation of the mates.  The orientation of a pair is NOT immaterial for the operator — only for its coset; the
    correction theorems hold for any minimum-weight perfect matching given as ordered pairs.)
-/

/-! ### tests on tiny instances, with the exact matcher as the oracle -/

/-- X(2,2) Y(2,4) Z(5,3) on the 5×5 planar code: |X| = |Z| = 2 = t -/
private def p55 : BVec :=
  Planar.site 5 5 P1.Z (Planar.site 5 5 P1.Y (Planar.site 5 5 P1.X (Planar.identity 5 5) (2, 2)) (2, 4)) (5, 3)

/-- the primal graph: 4 defects, two of them sharing the virtual plaquette (−1,2), two sharing (−1,4); the insertion
    sequence in program order with first-occurrence numbering [(1,2) (−1,2) (1,4) (−1,4) (3,2) (3,4)]; the decoded
    mates; the decoder corrects the error -/
example : bsfWt (xPart p55) = 2 ∧ bsfWt (zPart p55) = 2 ∧
    planarDefects 5 5 (synd (Planar.stabilizers 5 5) p55) true = [(1, 2), (1, 4), (3, 2), (3, 4)] ∧
    planarGraphOps 5 5 true (planarDefects 5 5 (synd (Planar.stabilizers 5 5) p55) true) =
      [(0, 1, 1), (2, 3, 1), (4, 1, 2), (5, 3, 2), (0, 2, 1), (0, 4, 1), (0, 5, 2), (2, 4, 2), (2, 5, 1), (4, 5, 1),
       (1, 3, 0)] ∧
    planarMatesNx bruteNx 5 5 true (planarDefects 5 5 (synd (Planar.stabilizers 5 5) p55) true) =
      [((3, 2), (1, 2)), ((3, 4), (1, 4)), ((-1, 4), (-1, 2))] ∧
    isPerfectMatchingOfGraph (planarNodes 5 5 true (planarDefects 5 5 (synd (Planar.stabilizers 5 5) p55) true))
      (planarEdges 5 5 true (planarDefects 5 5 (synd (Planar.stabilizers 5 5) p55) true))
      (planarMatesNx bruteNx 5 5 true (planarDefects 5 5 (synd (Planar.stabilizers 5 5) p55) true)) = true ∧
    (planarDecodeNx bruteNx 5 5 (synd (Planar.stabilizers 5 5) p55)).toOption.map
      (corrected (Planar.stabilizers 5 5) [Planar.logicalX 5 5, Planar.logicalZ 5 5] p55) = some true := by
  decide +kernel

/-- the same graph inserted in another order, with flipped and repeated pairs: same unordered weighted edges -/
example : SameEdges (planarWeightedEdges 3 3 true [(1, 0), (1, 2)])
    [((-1, 2), (-1, 0), 0), ((1, 2), (1, 0), 1), ((1, 0), (-1, 0), 1), ((-1, 2), (1, 2), 1), ((1, 0), (1, 2), 1)] := by
  constructor <;> decide +kernel

/-- X(0,0,0) Z(1,1,1) Y(0,2,3) on the 5×5 torus: |X| = |Z| = 2 = t; insertion sequence of lattice 0 (4 defects, all
    6 pairs), decoded mates of both lattices, and the decoder corrects the error -/
private def e55 : BVec :=
  Toric.site 5 5 P1.Y (Toric.site 5 5 P1.Z (Toric.site 5 5 P1.X (Toric.identity 5 5) (0, 0, 0)) (1, 1, 1)) (0, 2, 3)

example : bsfWt (xPart e55) = 2 ∧ bsfWt (zPart e55) = 2 ∧
    toricGraphOps 5 5 (toricDefects 5 5 (synd (Toric.stabilizers 5 5) e55) 0) =
      [(0, 1, 3), (0, 2, 4), (0, 3, 1), (1, 2, 1), (1, 3, 4), (2, 3, 4)] ∧
    toricMatesNx bruteNx 5 5 (toricDefects 5 5 (synd (Toric.stabilizers 5 5) e55) 0) =
      [((0, 4, 0), (0, 0, 0)), ((0, 2, 3), (0, 1, 3))] ∧
    toricMatesNx bruteNx 5 5 (toricDefects 5 5 (synd (Toric.stabilizers 5 5) e55) 1) =
      [((1, 1, 1), (1, 0, 1)), ((1, 1, 4), (1, 1, 3))] ∧
    (toricDecodeNx bruteNx 5 5 (synd (Toric.stabilizers 5 5) e55)).toOption.map
      (corrected (Toric.stabilizers 5 5) (Toric.logicalXs 5 5 ++ Toric.logicalZs 5 5) e55) = some true := by
  decide +kernel

/-- no defects: nothing is inserted and nothing is matched -/
example : planarGraphOps 3 3 true [] = [] ∧ planarMatesNx bruteNx 3 3 true [] = [] ∧
    (planarDecodeNx bruteNx 3 3 (synd (Planar.stabilizers 3 3) (Planar.identity 3 3))).toOption =
      some (Planar.identity 3 3) := by
  decide +kernel

end Qec.C14.Bridge
