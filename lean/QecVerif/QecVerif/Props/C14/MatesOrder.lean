/-
  C14 / MWPM decoders — the ORDER in which the mates of the matching are applied is immaterial.

  `PlanarMWPMDecoder.decode` / `ToricMWPMDecoder.decode` iterate over the Python `set` returned by `gt.mwpm`
  (`for a_index, b_index in mates: recovery_pauli.path(a_index, b_index)`), i.e. in hash order; the model
  (`Planar.applyMates`, `Toric.applyMates`, `Dec.toricMwpmRecovery`) applies the pairs in list order.
  Props/C14/Bridge.lean listed "for every permutation of the mates the recovery is the same" as not formalised.
  It is proved here, for ALL lattice sizes and all lists of pairs whose paths exist (same-type plaquettes; C15
  `translation_error_iff` / `path_error_iff`): `planar_applyMates_perm`, `toric_applyMates_perm`,
  `toric_mwpm_recovery_perm` — the recovery is the XOR of the individual path operators (`applyMates_eq`,
  Lemmas/Decoders.lean) and XOR is commutative and associative.

  NOT covered: the ORIENTATION of a pair (`path(a, b)` and `path(b, a)` are different operators in general — rows
  first from `a` resp. from `b`; they differ by a product of plaquettes); the correction theorems of
  Props/C14/Chain.lean / Bridge.lean hold for ANY minimum-weight perfect matching given as a list of ordered pairs,
  hence for every order and every orientation.
-/
import QecVerif.Lemmas.Decoders
namespace Qec.C14.MatesOrder
open Qec Qec.Dec

private theorem foldl_xorV_perm (l1 l2 : List BVec) (hp : l1.Perm l2) (v : BVec) :
    l1.foldl xorV v = l2.foldl xorV v := by
  induction hp generalizing v with
  | nil => rfl
  | cons x _ ih => simp only [List.foldl_cons]; exact ih _
  | swap x y l =>
    simp only [List.foldl_cons]
    congr 1
    rw [xorV_assoc, xorV_comm y x, ← xorV_assoc]
  | trans _ _ ih1 ih2 => rw [ih1, ih2]

/-- **planar**: permuting the mates does not change the recovery built by `applyMates` -/
theorem planar_applyMates_perm (R C : Int) (m1 m2 : List ((Int × Int) × (Int × Int))) (hp : m1.Perm m2)
    (h : ∀ x ∈ m1, ∃ w, Planar.path R C (Planar.identity R C) x.1 x.2 = .ok w) :
    Planar.applyMates R C m1 = Planar.applyMates R C m2 := by
  rw [PlanarL.applyMates_eq R C m1 h, PlanarL.applyMates_eq R C m2 (fun x hx => h x (hp.mem_iff.mpr hx))]
  congr 1
  unfold xorAll
  exact foldl_xorV_perm _ _ (hp.map _) _

/-- **toric**: permuting the mates does not change the recovery built by `applyMates` -/
theorem toric_applyMates_perm (R C : Int) (m1 m2 : List (Toric.Idx × Toric.Idx)) (hp : m1.Perm m2)
    (h : ∀ x ∈ m1, ∃ w, Toric.path R C (Toric.identity R C) x.1 x.2 = .ok w) :
    Toric.applyMates R C m1 = Toric.applyMates R C m2 := by
  rw [ToricL.applyMates_eq R C m1 h, ToricL.applyMates_eq R C m2 (fun x hx => h x (hp.mem_iff.mpr hx))]
  congr 1
  unfold xorAll
  exact foldl_xorV_perm _ _ (hp.map _) _

/-- **toric decoder**: the recovery of `ToricMWPMDecoder.decode` does not depend on the order within the two mate
    sets, nor on which lattice's mates are applied first -/
theorem toric_mwpm_recovery_perm (R C : Int) (a0 a1 b0 b1 : List (Toric.Idx × Toric.Idx))
    (h0 : a0.Perm b0) (h1 : a1.Perm b1)
    (h : ∀ x ∈ a0 ++ a1, ∃ w, Toric.path R C (Toric.identity R C) x.1 x.2 = .ok w) :
    toricMwpmRecovery R C a0 a1 = toricMwpmRecovery R C b0 b1 ∧
    toricMwpmRecovery R C a0 a1 = toricMwpmRecovery R C b1 b0 := by
  unfold toricMwpmRecovery
  exact ⟨toric_applyMates_perm R C _ _ (h0.append h1) h,
    toric_applyMates_perm R C _ _ ((h0.append h1).trans List.perm_append_comm) h⟩

/-! ### non-vacuity: two pairs of primal plaquettes of the 3 x 3 planar code, two pairs on the 3 x 4 torus -/

example : Planar.applyMates 3 3 [((1, 0), (3, 2)), ((1, 4), (3, 4))]
    = Planar.applyMates 3 3 [((1, 4), (3, 4)), ((1, 0), (3, 2))] :=
  planar_applyMates_perm 3 3 _ _ (List.Perm.swap _ _ _) (by
    intro x hx
    simp only [List.mem_cons, List.not_mem_nil, or_false] at hx
    rcases hx with rfl | rfl <;> exact ⟨_, rfl⟩)

example : Planar.applyMates 3 3 [((1, 0), (3, 2)), ((1, 4), (3, 4))] ≠ .ok (Planar.identity 3 3) := by decide

example : Toric.applyMates 3 4 [((0, 0, 0), (0, 1, 2)), ((0, 2, 1), (0, 2, 3))]
    = Toric.applyMates 3 4 [((0, 2, 1), (0, 2, 3)), ((0, 0, 0), (0, 1, 2))] :=
  toric_applyMates_perm 3 4 _ _ (List.Perm.swap _ _ _) (by
    intro x hx
    simp only [List.mem_cons, List.not_mem_nil, or_false] at hx
    rcases hx with rfl | rfl <;> exact ⟨_, rfl⟩)

end Qec.C14.MatesOrder
