/-
  C15 — lattice paths connect exactly their endpoints: index of the property theorems.

  * Props/C15/Planar.lean (all R, C ≥ 2, real and boundary-virtual plaquettes): `path_syndrome`, `path_syndrome_vector`,
    `path_self`, `path_weight_real`, `path_weight_le`, `translation_spec`, `translation_error_iff`, `translation_symm`,
    `virtualPlaquette_spec`, `plaquette_support`, `syndrome_bit_roundtrip`, `plaquetteIndices_spec`;
  * Props/C15/Toric.lean (all R, C ≥ 2, all index triples modulo the shape): `path_syndrome`, `path_syndrome_vector`
    (`_real`), `path_self`, `path_weight`, `translation_spec`, `translation_unique`, `translation_symm`,
    `translation_error_iff`, `path_error_iff`, `distance_error_iff`, `plaquette_support`, `syndrome_bit_roundtrip`,
    `syndrome_roundtrip`, `path_syndrome_plaquettes`;
  * Props/C15/RotatedToric.lean (all even R, C ≥ 2, all integer index pairs): every clause, see its header.

  STATED, NOT PROVED (audit): nothing — no file of C15 contains a `STATED, NOT PROVED` block, a `…_partial` or a
  `…_bounded` theorem, or a cross-property hypothesis; every clause of the property text (endpoints, coincident
  endpoints, weight = decoder distance / ≤ with a virtual endpoint, translations, supports, syndrome-bit round trip) is
  a theorem for all sizes for each of the three lattices.  What is NOT a theorem: that the Python code equals the model
  (checked by the harness on every run, exhaustively up to a size bound).
-/
import QecVerif.Props.C15.Planar
import QecVerif.Props.C15.Toric
import QecVerif.Props.C15.RotatedToric
