import QecVerif.Props.C15.Planar
