import QecVerif.Props.C15.Planar
import QecVerif.Props.C15.Toric
import QecVerif.Props.C15.RotatedToric
