/-
  C17 — the DISTRIBUTIONAL statement: generated qubit and measurement errors follow their stated
  distributions.

  `Props/C17.lean` proves the structure of the sampler (`Model/Stream.lean`): qubit i is a function
  of the i-th consumed uniform alone (`generate_pointwise`), the preimage of letter k under the
  inverse-CDF map is the half-open interval `[c_{k-1}, c_k)` of length `dist k`
  (`pauliOf_interval`, `interval_length`), a syndrome bit is flipped iff its uniform is `≥ 1 − q`
  (`measFlips_spec`).  This file turns those facts into statements about probability measures.

  TRUSTED (numpy / PCG64's contract, not a theorem here): **the stream of uniforms IS uniform and
  independent**, i.e. the `k` doubles consumed by a call are distributed as `k` independent draws
  from the uniform law on `[0,1)`.  Here that law is `uniform01` (= Lebesgue measure
  `MeasureTheory.volume` restricted to `Set.Ico 0 1`) and `uniformPi ι` (= the product measure
  `MeasureTheory.Measure.pi` of `ι` copies = Lebesgue measure on `ι → ℝ` restricted to the unit
  box, `uniformPi_is_lebesgue_on_unit_box`).  So every theorem below reads:

      IF the consumed uniforms are i.i.d. uniform on [0,1)
      THEN the errors and the measurement flips have exactly the stated laws.

  Also idealised: the uniforms are real numbers (a double is a dyadic rational with 53 bits; the
  law of a PCG64 double is uniform on the grid `2^-53 ℤ ∩ [0,1)`, which differs from `uniform01`
  on an interval by less than `2^-53`).  The bridge to the executable `Rat` model is exact:
  `pauliOfReal` / `flipOfReal` agree with `pauliOf` / `flipOf` on every rational input
  (`pauliOfReal_ratCast`, `flipOfReal_ratCast`), and the events "the generated string is e" /
  "the flip vector is f" of the executable model are exactly the coordinate events whose
  probability is computed (`generatePauli_event_iff`, `generate_event_iff`, `measFlips_event_iff`).

  Layout: the real copies `choiceIdxR`, `pauliOfReal`, `flipOfReal`, the measures `uniform01`,
  `uniformPi` and the interval / box lemmas live in `Lemmas/StreamMeasure.lean`.
-/
import QecVerif.Props.C17
import QecVerif.Props.C09
import QecVerif.Lemmas.StreamMeasure

namespace Qec.C17.Measure
open Qec Qec.Stream Qec.StreamMeasure MeasureTheory

/-! ### distributions -/

/-- a real single-qubit distribution: a non-negative weight for each of I, X, Y, Z, total 1 -/
structure IsDistR (d : P1 → ℝ) : Prop where
  nonneg : ∀ P, 0 ≤ d P
  sum_one : d P1.I + d P1.X + d P1.Y + d P1.Z = 1

/-- its cumulative thresholds `p.cumsum()` in the code's order (I, X, Y, Z) -/
def cdfR (d : P1 → ℝ) : List ℝ :=
  [d P1.I, d P1.I + d P1.X, d P1.I + d P1.X + d P1.Y, d P1.I + d P1.X + d P1.Y + d P1.Z]

/-- the probability a rational distribution list (in the code's order) gives a letter, in ℝ -/
def prob (dist : List ℚ) (P : P1) : ℝ := ((dist.getD (letterIdx P) 0 : ℚ) : ℝ)

/-- the single-qubit law as a measure on the four letters: `Σ_P d P · δ_P` -/
noncomputable def pauliLaw (d : P1 → ℝ) : Measure P1 :=
  ∑ P, ENNReal.ofReal (d P) • Measure.dirac P

/-- the law of one measurement bit as a measure on `Bool`: `(1 − q) · δ_false + q · δ_true` -/
noncomputable def flipLaw (q : ℝ) : Measure Bool :=
  ENNReal.ofReal (1 - q) • Measure.dirac false + ENNReal.ofReal q • Measure.dirac true

/-! ### bridge to the executable `Rat` model -/

/-- the real map is the model's map: on a rational cdf and a rational uniform (every double is
    one) `pauliOfReal` returns exactly what the executable `pauliOf` returns -/
theorem pauliOfReal_ratCast (cdf : List ℚ) (u : ℚ) :
    pauliOfReal (castL cdf) (u : ℝ) = pauliOf cdf u :=
  pauliOfReal_ratCast' cdf u

/-- the same for one measurement flip -/
theorem flipOfReal_ratCast (cdf : List ℚ) (u : ℚ) :
    flipOfReal (castL cdf) (u : ℝ) = flipOf cdf u :=
  flipOfReal_ratCast' cdf u

/-- a rational distribution of `Props/C17.lean` is a real distribution -/
theorem prob_isDistR (dist : List ℚ) (hd : IsDist dist) : IsDistR (prob dist) := by
  obtain ⟨a, b, c, d, rfl⟩ : ∃ a b c d, dist = [a, b, c, d] := by
    have := hd.len
    match dist, this with
    | [a, b, c, d], _ => exact ⟨a, b, c, d, rfl⟩
  refine ⟨fun P => ?_, ?_⟩
  · have h := hd.nonneg
    simp only [List.mem_cons, List.not_mem_nil, or_false, forall_eq_or_imp, forall_eq] at h
    cases P <;> simp only [prob, letterIdx, List.getD_cons_zero, List.getD_cons_succ] <;>
      exact_mod_cast (by tauto)
  · have h : a + (b + (c + d)) = 1 := by simpa using hd.sum_one
    simp only [prob, letterIdx, List.getD_cons_zero, List.getD_cons_succ]
    exact_mod_cast (by linarith : a + b + c + d = 1)

/-- … and the exact cdf the model compares against (`cdfOf dist`) is its list of cumulative
    thresholds -/
theorem cdf_ratCast (dist : List ℚ) (hd : IsDist dist) : castL (cdfOf dist) = cdfR (prob dist) := by
  obtain ⟨a, b, c, d, rfl⟩ : ∃ a b c d, dist = [a, b, c, d] := by
    have := hd.len
    match dist, this with
    | [a, b, c, d], _ => exact ⟨a, b, c, d, rfl⟩
  rw [cdfOf_eq_cumsum hd.sum_one]
  simp [cumsum, cumsumFrom, cdfR, prob, letterIdx]

/-- the cdf of the measurement-flip distribution `(1 − q, q)` is `[1 − q, 1]` -/
theorem measCdf_ratCast (q : ℚ) : castL (cdfOf (measDist q)) = [1 - (q : ℝ), 1] := by
  rw [cdfOf_eq_cumsum (by simp [measDist])]
  simp [cumsum, cumsumFrom, measDist]

/-- the event "the generated Pauli string is `e`" of the executable model is the coordinate event
    "uniform `pos + i` falls in the cell of `e i`, for every i" -/
theorem generatePauli_event_iff (n : ℕ) (cdf : List ℚ) (s : UStream) (pos : ℕ) (e : Fin n → P1) :
    generatePauli n cdf s pos = List.ofFn e ↔
      ∀ i : Fin n, pauliOfReal (castL cdf) ((s (pos + i) : ℚ) : ℝ) = e i := by
  simp only [pauliOfReal_ratCast']
  exact map_draws_eq_ofFn_iff (pauliOf cdf) s pos n e

/-- the same for the binary symplectic vector `SimpleErrorModel.generate` returns
    (`pauli_to_bsf` is injective, C09) -/
theorem generate_event_iff (n : ℕ) (cdf : List ℚ) (s : UStream) (pos : ℕ) (e : Fin n → P1) :
    generate n cdf s pos = toBsf (List.ofFn e) ↔
      ∀ i : Fin n, pauliOfReal (castL cdf) ((s (pos + i) : ℚ) : ℝ) = e i := by
  rw [← generatePauli_event_iff, generate]
  exact ⟨fun h => Qec.C09.toBsf_injective _ _ h, fun h => by rw [h]⟩

/-- the event "the measurement-flip vector of a step is `f`" (q ≠ 0, so that `m` uniforms are
    consumed) is the coordinate event "flip j iff uniform `pos + j` is `≥ 1 − q`" -/
theorem measFlips_event_iff (m : ℕ) (q : ℚ) (hq0 : q ≠ 0) (s : UStream) (pos : ℕ) (f : Fin m → Bool) :
    (measFlipsQ m q s pos).1 = List.ofFn f ↔
      ∀ j : Fin m, flipOfReal [1 - (q : ℝ), 1] ((s (pos + j) : ℚ) : ℝ) = f j := by
  rw [← measCdf_ratCast]
  simp only [flipOfReal_ratCast', measFlipsQ, measFlips, if_neg hq0]
  exact map_draws_eq_ofFn_iff (flipOf (cdfOf (measDist q))) s pos m f

/-- the event "the `T` steps of a run (q ≠ 0) produce the errors `e t` and the flip vectors `f t`"
    is a coordinate event on `T · (n + m)` DISTINCT stream positions: step `t` reads its error from
    positions `pos + t(n+m) + i` and its flips from `pos + t(n+m) + n + j` — the index set
    `Fin T × Fin (n + m)` of `run_law` -/
theorem run_event_iff (T n m : ℕ) (cdfE : List ℚ) (q : ℚ) (hq0 : q ≠ 0) (s : UStream) (pos : ℕ)
    (e : Fin T → Fin n → P1) (f : Fin T → Fin m → Bool) :
    (runSteps n m cdfE q (cdfOf (measDist q)) s T pos).1
        = List.ofFn (fun t => (toBsf (List.ofFn (e t)), List.ofFn (f t))) ↔
      ∀ t : Fin T,
        (∀ i : Fin n,
          pauliOfReal (castL cdfE) ((s (pos + t * (n + m) + i) : ℚ) : ℝ) = e t i) ∧
        (∀ j : Fin m,
          flipOfReal [1 - (q : ℝ), 1] ((s (pos + t * (n + m) + n + j) : ℚ) : ℝ) = f t j) := by
  rw [run_stream_order]
  have hL : stepLen n m q = n + m := by simp [stepLen, hq0]
  simp only [hL]
  rw [map_range_eq_ofFn_iff]
  refine forall_congr' fun t => ?_
  rw [Prod.mk.injEq, generate_event_iff, ← measFlips_event_iff m q hq0]
  rfl

/-- the same for q = 0 (the T = 1 default and ideal runs): no flip is drawn, a step consumes only
    its `n` error uniforms (positions `pos + t·n + i`) and its flip vector is all-zero -/
theorem run_event_iff_zero (T n m : ℕ) (cdfE cdfM : List ℚ) (s : UStream) (pos : ℕ)
    (e : Fin T → Fin n → P1) :
    (runSteps n m cdfE 0 cdfM s T pos).1
        = List.ofFn (fun t => (toBsf (List.ofFn (e t)), zeros m)) ↔
      ∀ t : Fin T, ∀ i : Fin n,
        pauliOfReal (castL cdfE) ((s (pos + t * n + i) : ℚ) : ℝ) = e t i := by
  rw [run_stream_order]
  have hL : stepLen n m 0 = n := by simp [stepLen]
  simp only [hL, measFlips_spec_zero]
  rw [map_range_eq_ofFn_iff]
  refine forall_congr' fun t => ?_
  rw [Prod.mk.injEq, generate_event_iff]
  simp

/-! ### the uniform law -/

/-- `uniform01` is a probability law: total mass 1 -/
theorem uniform01_univ : uniform01 Set.univ = 1 := measure_univ

/-- the uniform law gives a sub-interval of `[0,1)` its length -/
theorem uniform01_Ico (a b : ℝ) (ha : 0 ≤ a) (hb : b ≤ 1) :
    uniform01 (Set.Ico a b) = ENNReal.ofReal (b - a) := by
  apply uniform01_of_inter_eq_Ico
  ext u
  simp only [Set.mem_inter_iff, Set.mem_Ico]
  constructor
  · rintro ⟨h, _⟩; exact h
  · rintro ⟨h1, h2⟩; exact ⟨⟨h1, h2⟩, by linarith, by linarith⟩

/-- the law of `ι` independent uniforms is Lebesgue measure on `ι → ℝ` restricted to `[0,1)^ι` -/
theorem uniformPi_is_lebesgue_on_unit_box (ι : Type) [Fintype ι] :
    uniformPi ι = (volume : Measure (ι → ℝ)).restrict (Set.pi Set.univ fun _ => Set.Ico 0 1) :=
  uniformPi_eq_restrict ι

/-! ### clause 1: each qubit suffers I/X/Y/Z with exactly the model's probabilities -/

/-- C17, single-qubit clause, for ANY thresholds `0 ≤ c0 ≤ c1 ≤ c2 ≤ 1 ≤ c3` (in particular the
    floating-point cdf numpy computes): the probability of each letter is the length of its cell -/
theorem pauli_law_thresholds (c0 c1 c2 c3 : ℝ) (h0 : 0 ≤ c0) (h01 : c0 ≤ c1) (h12 : c1 ≤ c2)
    (h2 : c2 ≤ 1) (h3 : 1 ≤ c3) (P : P1) :
    uniform01 {u | pauliOfReal [c0, c1, c2, c3] u = P}
      = ENNReal.ofReal (hi4 c0 c1 c2 P - lo4 c0 c1 c2 P) :=
  uniform01_of_inter_eq_Ico _ _ _ (pauliOfReal_cell c0 c1 c2 c3 h0 h01 h12 h2 h3 P)

/-- **C17, single-qubit clause** ("each qubit suffers I/X/Y/Z with exactly the model's
    probabilities"): under the uniform law on `[0,1)` the inverse-CDF map with the exact cumulative
    thresholds of `d` returns `P` with probability exactly `d P` -/
theorem pauli_law (d : P1 → ℝ) (hd : IsDistR d) (P : P1) :
    uniform01 {u | pauliOfReal (cdfR d) u = P} = ENNReal.ofReal (d P) := by
  have hI := hd.nonneg P1.I
  have hX := hd.nonneg P1.X
  have hY := hd.nonneg P1.Y
  have hZ := hd.nonneg P1.Z
  have hs := hd.sum_one
  rw [cdfR, pauli_law_thresholds _ _ _ _ hI (by linarith) (by linarith) (by linarith) (by linarith)]
  congr 1
  cases P <;> simp only [hi4, lo4] <;> linarith

/-- the same for the executable model's exact rational cdf `cdfOf dist` -/
theorem pauli_law_rat (dist : List ℚ) (hd : IsDist dist) (P : P1) :
    uniform01 {u | pauliOfReal (castL (cdfOf dist)) u = P} = ENNReal.ofReal (prob dist P) := by
  rw [cdf_ratCast dist hd]
  exact pauli_law _ (prob_isDistR dist hd) P

/-- the single-qubit clause as an equality of measures: the push-forward of the uniform law under
    the inverse-CDF map is `Σ_P d P · δ_P` -/
theorem pauli_law_measure (d : P1 → ℝ) (hd : IsDistR d) :
    Measure.map (pauliOfReal (cdfR d)) uniform01 = pauliLaw d := by
  rw [Measure.ext_iff_singleton]
  intro a
  rw [Measure.map_apply (measurable_pauliOfReal _) (measurableSet_singleton a)]
  have hpre : pauliOfReal (cdfR d) ⁻¹' {a} = {u | pauliOfReal (cdfR d) u = a} := rfl
  rw [hpre, pauli_law d hd a, pauliLaw, Measure.coe_finsetSum, Finset.sum_apply]
  simp only [Measure.smul_apply, Measure.dirac_apply' _ (measurableSet_singleton a), smul_eq_mul]
  rw [Finset.sum_eq_single a]
  · simp
  · intro b _ hb; simp [hb]
  · intro h; exact absurd (Finset.mem_univ a) h

/-- a letter of probability 0 has probability 0 (measure form of `zero_prob_impossible`) -/
theorem zero_prob_null (d : P1 → ℝ) (hd : IsDistR d) (P : P1) (hz : d P = 0) :
    uniform01 {u | pauliOfReal (cdfR d) u = P} = 0 := by
  rw [pauli_law d hd P, hz, ENNReal.ofReal_zero]

/-! ### clause 2: the qubits are independent -/

/-- **C17, independence clause** ("each qubit independently …"): under `n` independent uniforms
    the probability that the generated error is `e` is the product over the qubits of `d (e i)`.
    (Prescribing the outcome on every coordinate determines the law on the finite set `P1^n`.) -/
theorem generate_law (n : ℕ) (d : P1 → ℝ) (hd : IsDistR d) (e : Fin n → P1) :
    uniformPi (Fin n) {u | ∀ i, pauliOfReal (cdfR d) (u i) = e i}
      = ∏ i, ENNReal.ofReal (d (e i)) := by
  refine (uniformPi_box (fun i => {x | pauliOfReal (cdfR d) x = e i})).trans ?_
  exact Finset.prod_congr rfl fun i _ => pauli_law d hd (e i)

/-- the same with the product taken in ℝ -/
theorem generate_law_ofReal (n : ℕ) (d : P1 → ℝ) (hd : IsDistR d) (e : Fin n → P1) :
    uniformPi (Fin n) {u | ∀ i, pauliOfReal (cdfR d) (u i) = e i}
      = ENNReal.ofReal (∏ i, d (e i)) := by
  rw [generate_law n d hd e, ENNReal.ofReal_prod_of_nonneg fun i _ => hd.nonneg (e i)]

/-- the same for the executable model's exact rational cdf `cdfOf dist` -/
theorem generate_law_rat (n : ℕ) (dist : List ℚ) (hd : IsDist dist) (e : Fin n → P1) :
    uniformPi (Fin n) {u | ∀ i, pauliOfReal (castL (cdfOf dist)) (u i) = e i}
      = ∏ i, ENNReal.ofReal (prob dist (e i)) := by
  rw [cdf_ratCast dist hd]
  exact generate_law n _ (prob_isDistR dist hd) e

/-- mutual independence with marginals: prescribing the outcome on ANY subset `S` of the qubits
    (the others free) has probability `∏_{i ∈ S} d (e i)`; `S = {i}` is the marginal law of
    qubit i, `S = {i, j}` pairwise independence -/
theorem generate_law_subset (n : ℕ) (d : P1 → ℝ) (hd : IsDistR d) (S : Finset (Fin n))
    (e : Fin n → P1) :
    uniformPi (Fin n) {u | ∀ i ∈ S, pauliOfReal (cdfR d) (u i) = e i}
      = ∏ i ∈ S, ENNReal.ofReal (d (e i)) := by
  have hset : {u : Fin n → ℝ | ∀ i ∈ S, pauliOfReal (cdfR d) (u i) = e i}
      = {u | ∀ i, u i ∈ (if i ∈ S then {x | pauliOfReal (cdfR d) x = e i} else Set.univ)} := by
    ext u
    simp only [Set.mem_ofPred_eq]
    constructor
    · intro h i
      by_cases hi : i ∈ S
      · rw [if_pos hi]; exact h i hi
      · rw [if_neg hi]; trivial
    · intro h i hi
      have := h i
      rw [if_pos hi] at this
      exact this
  rw [hset, uniformPi_box]
  have hterm : ∀ i, uniform01 (if i ∈ S then {x | pauliOfReal (cdfR d) x = e i} else Set.univ)
      = if i ∈ S then ENNReal.ofReal (d (e i)) else 1 := by
    intro i
    by_cases hi : i ∈ S
    · rw [if_pos hi, if_pos hi]; exact pauli_law d hd (e i)
    · rw [if_neg hi, if_neg hi]; exact measure_univ
  simp_rw [hterm]
  rw [Finset.prod_ite_mem, Finset.univ_inter]

/-- marginal law of one qubit inside an `n`-qubit draw -/
theorem qubit_marginal_law (n : ℕ) (d : P1 → ℝ) (hd : IsDistR d) (i : Fin n) (P : P1) :
    uniformPi (Fin n) {u | pauliOfReal (cdfR d) (u i) = P} = ENNReal.ofReal (d P) := by
  have h := generate_law_subset n d hd {i} (fun _ => P)
  simpa using h

/-- pairwise independence: two different qubits take the values `P`, `Q` with probability
    `d P · d Q` (the "pairwise frequencies" of the property statement) -/
theorem qubit_pair_law (n : ℕ) (d : P1 → ℝ) (hd : IsDistR d) (i j : Fin n) (hij : i ≠ j) (P Q : P1) :
    uniformPi (Fin n) {u | pauliOfReal (cdfR d) (u i) = P ∧ pauliOfReal (cdfR d) (u j) = Q}
      = ENNReal.ofReal (d P) * ENNReal.ofReal (d Q) := by
  have h := generate_law_subset n d hd {i, j} (fun k => if k = i then P else Q)
  rw [Finset.prod_pair hij] at h
  simp only [if_true, if_neg hij.symm] at h
  rw [← h]
  congr 1
  ext u
  simp only [Set.mem_ofPred_eq, Finset.mem_insert, Finset.mem_singleton]
  constructor
  · rintro ⟨h1, h2⟩ k (rfl | rfl)
    · simpa using h1
    · simpa [hij.symm] using h2
  · intro hk
    exact ⟨by simpa using hk i (Or.inl rfl), by simpa [hij.symm] using hk j (Or.inr rfl)⟩

/-- the product law for ANY thresholds `0 ≤ c0 ≤ c1 ≤ c2 ≤ 1 ≤ c3` (e.g. numpy's floating-point
    cdf): the qubits are independent and each letter has the length of its cell -/
theorem generate_law_thresholds (n : ℕ) (c0 c1 c2 c3 : ℝ) (h0 : 0 ≤ c0) (h01 : c0 ≤ c1)
    (h12 : c1 ≤ c2) (h2 : c2 ≤ 1) (h3 : 1 ≤ c3) (e : Fin n → P1) :
    uniformPi (Fin n) {u | ∀ i, pauliOfReal [c0, c1, c2, c3] (u i) = e i}
      = ∏ i, ENNReal.ofReal (hi4 c0 c1 c2 (e i) - lo4 c0 c1 c2 (e i)) := by
  refine (uniformPi_box (fun i => {x | pauliOfReal [c0, c1, c2, c3] x = e i})).trans ?_
  exact Finset.prod_congr rfl fun i _ => pauli_law_thresholds c0 c1 c2 c3 h0 h01 h12 h2 h3 (e i)

/-- the independence clause as an equality of measures, for ANY thresholds: the law of the
    generated string is the product of the single-qubit laws -/
theorem generate_law_measure_pi (n : ℕ) (cdf : List ℝ) :
    Measure.map (fun (u : Fin n → ℝ) i => pauliOfReal cdf (u i)) (uniformPi (Fin n))
      = Measure.pi fun _ : Fin n => Measure.map (pauliOfReal cdf) uniform01 :=
  Measure.pi_map_pi fun _ => (measurable_pauliOfReal cdf).aemeasurable

/-- … which for the exact thresholds of `d` is the n-fold product of `Σ_P d P · δ_P` -/
theorem generate_law_measure (n : ℕ) (d : P1 → ℝ) (hd : IsDistR d) :
    Measure.map (fun (u : Fin n → ℝ) i => pauliOfReal (cdfR d) (u i)) (uniformPi (Fin n))
      = Measure.pi fun _ : Fin n => pauliLaw d := by
  rw [generate_law_measure_pi, pauli_law_measure d hd]

/-! ### clause 3: measurement bits flip independently with probability q -/

/-- **C17, measurement clause** ("measurement bits flip independently with probability q"): under
    `m` independent uniforms the probability of the flip pattern `f` is
    `∏_j (q if f j else 1 − q)` -/
theorem measFlips_law (m : ℕ) (q : ℝ) (hq0 : 0 ≤ q) (hq1 : q ≤ 1) (f : Fin m → Bool) :
    uniformPi (Fin m) {u | ∀ j, flipOfReal [1 - q, 1] (u j) = f j}
      = ∏ j, ENNReal.ofReal (if f j then q else 1 - q) := by
  refine (uniformPi_box (fun j => {x | flipOfReal [1 - q, 1] x = f j})).trans ?_
  refine Finset.prod_congr rfl fun j _ => ?_
  rw [uniform01_of_inter_eq_Ico _ _ _ (flipOfReal_cell q 1 hq0 hq1 le_rfl (f j))]
  cases f j <;> simp

/-- one measurement bit: flipped with probability exactly `q` -/
theorem flip_law (q : ℝ) (hq0 : 0 ≤ q) (hq1 : q ≤ 1) (b : Bool) :
    uniform01 {u | flipOfReal [1 - q, 1] u = b} = ENNReal.ofReal (if b then q else 1 - q) := by
  rw [uniform01_of_inter_eq_Ico _ _ _ (flipOfReal_cell q 1 hq0 hq1 le_rfl b)]
  cases b <;> simp

/-- … as an equality of measures: the push-forward of the uniform law is Bernoulli(q) -/
theorem flip_law_measure (q : ℝ) (hq0 : 0 ≤ q) (hq1 : q ≤ 1) :
    Measure.map (flipOfReal [1 - q, 1]) uniform01 = flipLaw q := by
  rw [Measure.ext_iff_singleton]
  intro b
  rw [Measure.map_apply (measurable_flipOfReal _) (measurableSet_singleton b)]
  have hpre : flipOfReal [1 - q, 1] ⁻¹' {b} = {u | flipOfReal [1 - q, 1] u = b} := rfl
  rw [hpre, flip_law q hq0 hq1 b, flipLaw]
  cases b <;> simp

/-- the measurement clause as an equality of measures: the flip vector of a step is distributed as
    the m-fold product of Bernoulli(q) -/
theorem measFlips_law_measure (m : ℕ) (q : ℝ) (hq0 : 0 ≤ q) (hq1 : q ≤ 1) :
    Measure.map (fun (u : Fin m → ℝ) j => flipOfReal [1 - q, 1] (u j)) (uniformPi (Fin m))
      = Measure.pi fun _ : Fin m => flipLaw q := by
  rw [← flip_law_measure q hq0 hq1]
  exact Measure.pi_map_pi fun _ => (measurable_flipOfReal _).aemeasurable

/-- the same with the event written as in `measFlips_spec`: bit j flips iff `u j ≥ 1 − q` -/
theorem measFlips_law_decide (m : ℕ) (q : ℝ) (hq0 : 0 ≤ q) (hq1 : q ≤ 1) (f : Fin m → Bool) :
    uniformPi (Fin m) {u | ∀ j, decide (1 - q ≤ u j) = f j}
      = ∏ j, ENNReal.ofReal (if f j then q else 1 - q) := by
  rw [← measFlips_law m q hq0 hq1 f]
  refine (uniformPi_box (fun j => {x | decide (1 - q ≤ x) = f j})).trans
    (Eq.trans ?_ (uniformPi_box (fun j => {x | flipOfReal [1 - q, 1] x = f j})).symm)
  refine Finset.prod_congr rfl fun j _ => ?_
  rw [uniform01_apply, uniform01_apply]
  congr 1
  ext x
  simp only [Set.mem_inter_iff, Set.mem_ofPred_eq, Set.mem_Ico]
  constructor
  · rintro ⟨h, h0, h1⟩
    exact ⟨by rw [flipOfReal_thresholds _ _ _ h1]; exact h, h0, h1⟩
  · rintro ⟨h, h0, h1⟩
    exact ⟨by rw [flipOfReal_thresholds _ _ _ h1] at h; exact h, h0, h1⟩

/-- the flip law by number of flips: a pattern with `k` flips among `m` bits has probability
    `q^k (1 − q)^(m − k)` -/
theorem measFlips_law_count (m : ℕ) (q : ℝ) (hq0 : 0 ≤ q) (hq1 : q ≤ 1) (f : Fin m → Bool) :
    uniformPi (Fin m) {u | ∀ j, flipOfReal [1 - q, 1] (u j) = f j}
      = ENNReal.ofReal q ^ (Finset.univ.filter fun j => f j = true).card
        * ENNReal.ofReal (1 - q) ^ (Finset.univ.filter fun j => ¬ f j = true).card := by
  rw [measFlips_law m q hq0 hq1 f]
  have : ∀ j, ENNReal.ofReal (if f j then q else 1 - q)
      = if f j = true then ENNReal.ofReal q else ENNReal.ofReal (1 - q) := by
    intro j; cases f j <;> simp
  simp_rw [this]
  rw [Finset.prod_ite, Finset.prod_const, Finset.prod_const]

/-- q = 0: with probability 1 no bit is flipped (consistent with `measFlips_spec_zero`, where the
    code does not even draw) -/
theorem measFlips_law_zero (m : ℕ) :
    uniformPi (Fin m) {u | ∀ j, flipOfReal [1 - 0, 1] (u j) = false} = 1 := by
  rw [measFlips_law m 0 le_rfl zero_le_one fun _ => false]
  simp

/-- q = 0: every pattern with a flip has probability 0 -/
theorem measFlips_law_zero_flip (m : ℕ) (f : Fin m → Bool) (j : Fin m) (hj : f j = true) :
    uniformPi (Fin m) {u | ∀ j, flipOfReal [1 - 0, 1] (u j) = f j} = 0 := by
  rw [measFlips_law m 0 le_rfl zero_le_one f]
  exact Finset.prod_eq_zero (Finset.mem_univ j) (by simp [hj])

/-- q = 1: with probability 1 every bit is flipped (consistent with `measFlips_spec_one`) -/
theorem measFlips_law_one (m : ℕ) :
    uniformPi (Fin m) {u | ∀ j, flipOfReal [1 - 1, 1] (u j) = true} = 1 := by
  rw [measFlips_law m 1 zero_le_one le_rfl fun _ => true]
  simp

/-! ### clause 4: one FTP step, and a whole run -/

/-- **joint law of one FTP step**: the `n` uniforms of the step error and the `m` uniforms of that
    step's measurement flips are disjoint coordinates of the stream (`run_stream_order`:
    positions `pos + t·L + i`, `i < n`, then `pos + t·L + n + j`, `j < m`), so the joint
    probability of (error `e`, flips `f`) is the product of the two laws -/
theorem step_law (n m : ℕ) (d : P1 → ℝ) (hd : IsDistR d) (q : ℝ) (hq0 : 0 ≤ q) (hq1 : q ≤ 1)
    (e : Fin n → P1) (f : Fin m → Bool) :
    uniformPi (Fin (n + m))
        {u | (∀ i : Fin n, pauliOfReal (cdfR d) (u (Fin.castAdd m i)) = e i) ∧
             (∀ j : Fin m, flipOfReal [1 - q, 1] (u (Fin.natAdd n j)) = f j)}
      = (∏ i, ENNReal.ofReal (d (e i))) * ∏ j, ENNReal.ofReal (if f j then q else 1 - q) := by
  have h := uniformPi_box_add (n := n) (m := m) (fun i => {x | pauliOfReal (cdfR d) x = e i})
    (fun j => {x | flipOfReal [1 - q, 1] x = f j})
  simp only [Set.mem_ofPred_eq] at h
  rw [h]
  congr 1
  · exact Finset.prod_congr rfl fun i _ => pauli_law d hd (e i)
  · refine Finset.prod_congr rfl fun j _ => ?_
    rw [uniform01_of_inter_eq_Ico _ _ _ (flipOfReal_cell q 1 hq0 hq1 le_rfl (f j))]
    cases f j <;> simp

/-- error and flips of a step are independent: the joint probability is the product of the
    probabilities of `generate_law` and `measFlips_law` -/
theorem step_law_independent (n m : ℕ) (d : P1 → ℝ) (hd : IsDistR d) (q : ℝ) (hq0 : 0 ≤ q)
    (hq1 : q ≤ 1) (e : Fin n → P1) (f : Fin m → Bool) :
    uniformPi (Fin (n + m))
        {u | (∀ i : Fin n, pauliOfReal (cdfR d) (u (Fin.castAdd m i)) = e i) ∧
             (∀ j : Fin m, flipOfReal [1 - q, 1] (u (Fin.natAdd n j)) = f j)}
      = uniformPi (Fin n) {u | ∀ i, pauliOfReal (cdfR d) (u i) = e i}
        * uniformPi (Fin m) {u | ∀ j, flipOfReal [1 - q, 1] (u j) = f j} := by
  rw [step_law n m d hd q hq0 hq1 e f, generate_law n d hd e, measFlips_law m q hq0 hq1 f]

/-- `Σ_P d P · δ_P` gives the letter `P` the mass `d P` -/
theorem pauliLaw_singleton (d : P1 → ℝ) (P : P1) : pauliLaw d {P} = ENNReal.ofReal (d P) := by
  rw [pauliLaw, Measure.coe_finsetSum, Finset.sum_apply]
  simp only [Measure.smul_apply, Measure.dirac_apply' _ (measurableSet_singleton P), smul_eq_mul]
  rw [Finset.sum_eq_single P]
  · simp
  · intro b _ hb; simp [hb]
  · intro h; exact absurd (Finset.mem_univ P) h

/-- Bernoulli(q) gives `true` the mass `q` and `false` the mass `1 − q` -/
theorem flipLaw_singleton (q : ℝ) (b : Bool) :
    flipLaw q {b} = ENNReal.ofReal (if b then q else 1 - q) := by
  rw [flipLaw]
  cases b <;> simp

/-- **the joint law of one FTP step as an equality of measures**: the pair (step error, step
    measurement flips) is distributed as the product of the n-fold product of the single-qubit law
    and the m-fold product of Bernoulli(q) -/
theorem step_law_measure (n m : ℕ) (d : P1 → ℝ) (hd : IsDistR d) (q : ℝ) (hq0 : 0 ≤ q) (hq1 : q ≤ 1) :
    Measure.map
        (fun u : Fin (n + m) → ℝ =>
          ((fun i : Fin n => pauliOfReal (cdfR d) (u (Fin.castAdd m i))),
           (fun j : Fin m => flipOfReal [1 - q, 1] (u (Fin.natAdd n j)))))
        (uniformPi (Fin (n + m)))
      = (Measure.pi fun _ : Fin n => pauliLaw d).prod (Measure.pi fun _ : Fin m => flipLaw q) := by
  have : IsFiniteMeasure (pauliLaw d) := by
    rw [← pauli_law_measure d hd]; infer_instance
  have : IsFiniteMeasure (flipLaw q) := by
    rw [← flip_law_measure q hq0 hq1]; infer_instance
  have hmeas : Measurable (fun u : Fin (n + m) → ℝ =>
      ((fun i : Fin n => pauliOfReal (cdfR d) (u (Fin.castAdd m i))),
       (fun j : Fin m => flipOfReal [1 - q, 1] (u (Fin.natAdd n j))))) :=
    Measurable.prodMk
      (measurable_pi_lambda _ fun i => (measurable_pauliOfReal _).comp (measurable_pi_apply _))
      (measurable_pi_lambda _ fun j => (measurable_flipOfReal _).comp (measurable_pi_apply _))
  rw [Measure.ext_iff_singleton]
  rintro ⟨e, f⟩
  rw [Measure.map_apply hmeas (measurableSet_singleton _)]
  have hpre : (fun u : Fin (n + m) → ℝ =>
      ((fun i : Fin n => pauliOfReal (cdfR d) (u (Fin.castAdd m i))),
       (fun j : Fin m => flipOfReal [1 - q, 1] (u (Fin.natAdd n j))))) ⁻¹' {(e, f)}
      = {u | (∀ i : Fin n, pauliOfReal (cdfR d) (u (Fin.castAdd m i)) = e i) ∧
             (∀ j : Fin m, flipOfReal [1 - q, 1] (u (Fin.natAdd n j)) = f j)} := by
    ext u
    simp only [Set.mem_preimage, Set.mem_singleton_iff, Prod.mk.injEq, Set.mem_ofPred_eq,
      funext_iff]
  rw [hpre, step_law n m d hd q hq0 hq1 e f, ← Set.singleton_prod_singleton, Measure.prod_prod,
    ← Set.univ_pi_singleton e, ← Set.univ_pi_singleton f, Measure.pi_pi, Measure.pi_pi]
  simp only [pauliLaw_singleton, flipLaw_singleton]

/-- **law of a whole `T`-step run** (`q ≠ 0`, `L = n + m` uniforms per step, uniform `(t, k)` is
    stream position `pos + t·L + k` by `run_stream_order`): the steps are independent and each has
    the law of `step_law` -/
theorem run_law (T n m : ℕ) (d : P1 → ℝ) (hd : IsDistR d) (q : ℝ) (hq0 : 0 ≤ q) (hq1 : q ≤ 1)
    (e : Fin T → Fin n → P1) (f : Fin T → Fin m → Bool) :
    uniformPi (Fin T × Fin (n + m))
        {u | ∀ t, (∀ i : Fin n, pauliOfReal (cdfR d) (u (t, Fin.castAdd m i)) = e t i) ∧
                  (∀ j : Fin m, flipOfReal [1 - q, 1] (u (t, Fin.natAdd n j)) = f t j)}
      = ∏ t, ((∏ i, ENNReal.ofReal (d (e t i)))
              * ∏ j, ENNReal.ofReal (if f t j then q else 1 - q)) := by
  have hset : {u : Fin T × Fin (n + m) → ℝ |
        ∀ t, (∀ i : Fin n, pauliOfReal (cdfR d) (u (t, Fin.castAdd m i)) = e t i) ∧
             (∀ j : Fin m, flipOfReal [1 - q, 1] (u (t, Fin.natAdd n j)) = f t j)}
      = {u | ∀ t k, u (t, k) ∈ (Fin.addCases (motive := fun _ => Set ℝ)
              (fun i => {x | pauliOfReal (cdfR d) x = e t i})
              (fun j => {x | flipOfReal [1 - q, 1] x = f t j}) k)} := by
    ext u
    simp only [Set.mem_ofPred_eq]
    refine forall_congr' fun t => ?_
    rw [Fin.forall_fin_add]
    simp only [Fin.addCases_left, Fin.addCases_right, Set.mem_ofPred_eq]
  rw [hset, uniformPi_box_prod]
  refine Finset.prod_congr rfl fun t _ => ?_
  rw [Fin.prod_univ_add]
  simp only [Fin.addCases_left, Fin.addCases_right]
  congr 1
  · exact Finset.prod_congr rfl fun i _ => pauli_law d hd (e t i)
  · refine Finset.prod_congr rfl fun j _ => ?_
    rw [uniform01_of_inter_eq_Ico _ _ _ (flipOfReal_cell q 1 hq0 hq1 le_rfl (f t j))]
    cases f t j <;> simp

/-- law of a whole `T`-step run with q = 0 (no measurement flips are drawn; `run_event_iff_zero`):
    all `T · n` qubit errors are independent draws from `d` -/
theorem run_law_zero (T n : ℕ) (d : P1 → ℝ) (hd : IsDistR d) (e : Fin T → Fin n → P1) :
    uniformPi (Fin T × Fin n) {u | ∀ t i, pauliOfReal (cdfR d) (u (t, i)) = e t i}
      = ∏ t, ∏ i, ENNReal.ofReal (d (e t i)) := by
  refine (uniformPi_box_prod (fun t i => {x | pauliOfReal (cdfR d) x = e t i})).trans ?_
  exact Finset.prod_congr rfl fun t _ => Finset.prod_congr rfl fun i _ => pauli_law d hd (e t i)

/-! ### the same clauses when the uniforms live on a grid

  A generator of doubles does not draw from `uniform01` but (in numpy's contract: `(x >> 11) · 2^-53`
  for a uniform 64-bit word `x`) from the uniform law on the grid `{k / N | k < N}`, `N = 2^53`.
  The idealisation costs less than `1/N` per letter and nothing for independence. -/

/-- single-qubit clause on the grid: the fraction of the `N` grid points that are mapped to `P`
    differs from `d P` by less than `1/N` -/
theorem pauli_law_grid (N : ℕ) (hN : 0 < N) (d : P1 → ℝ) (hd : IsDistR d) (P : P1) :
    |(gridCount N {u | pauliOfReal (cdfR d) u = P} : ℝ) / N - d P| < 1 / N := by
  have hI := hd.nonneg P1.I
  have hX := hd.nonneg P1.X
  have hY := hd.nonneg P1.Y
  have hZ := hd.nonneg P1.Z
  have hs := hd.sum_one
  have hcell := pauliOfReal_cell (d P1.I) (d P1.I + d P1.X) (d P1.I + d P1.X + d P1.Y)
    (d P1.I + d P1.X + d P1.Y + d P1.Z) hI (by linarith) (by linarith) (by linarith) (by linarith) P
  have h := gridCount_error N hN {u | pauliOfReal (cdfR d) u = P} _ _
    (by cases P <;> simp only [lo4] <;> linarith)
    (by cases P <;> simp only [lo4, hi4] <;> linarith)
    (by cases P <;> simp only [hi4] <;> linarith) hcell
  have hlen : hi4 (d P1.I) (d P1.I + d P1.X) (d P1.I + d P1.X + d P1.Y) P
      - lo4 (d P1.I) (d P1.I + d P1.X) (d P1.I + d P1.X + d P1.Y) P = d P := by
    cases P <;> simp only [hi4, lo4] <;> linarith
  rwa [hlen] at h

/-- … and it is EXACTLY `d P` when the probabilities are multiples of `1/N` -/
theorem pauli_law_grid_exact (N : ℕ) (hN : 0 < N) (k : P1 → ℕ)
    (hk : k P1.I + k P1.X + k P1.Y + k P1.Z = N) (P : P1) :
    gridCount N {u | pauliOfReal (cdfR fun P => (k P : ℝ) / N) u = P} = k P := by
  have hNr : (0 : ℝ) < N := by exact_mod_cast hN
  have hd : IsDistR fun P => (k P : ℝ) / N :=
    ⟨fun P => by positivity, by
      rw [← add_div, ← add_div, ← add_div, div_eq_one_iff_eq hNr.ne']; exact_mod_cast hk⟩
  have hI := hd.nonneg P1.I
  have hX := hd.nonneg P1.X
  have hY := hd.nonneg P1.Y
  have hZ := hd.nonneg P1.Z
  have hs := hd.sum_one
  have hcell := pauliOfReal_cell ((k P1.I : ℝ) / N) ((k P1.I : ℝ) / N + (k P1.X : ℝ) / N)
    ((k P1.I : ℝ) / N + (k P1.X : ℝ) / N + (k P1.Y : ℝ) / N)
    ((k P1.I : ℝ) / N + (k P1.X : ℝ) / N + (k P1.Y : ℝ) / N + (k P1.Z : ℝ) / N)
    hI (by linarith) (by linarith) (by linarith) (by linarith) P
  cases P
  · have := gridCount_exact N hN _ 0 (k P1.I) (by omega)
      (by simpa only [lo4, hi4, Nat.cast_zero, zero_div] using hcell)
    simpa [cdfR] using this
  · have := gridCount_exact N hN _ (k P1.I) (k P1.I + k P1.X) (by omega)
      (by simpa only [lo4, hi4, Nat.cast_add, add_div] using hcell)
    rw [cdfR, this]; omega
  · have := gridCount_exact N hN _ (k P1.I + k P1.X) (k P1.I + k P1.X + k P1.Y) (by omega)
      (by simpa only [lo4, hi4, Nat.cast_add, add_div] using hcell)
    rw [cdfR, this]; omega
  · have := gridCount_exact N hN _ (k P1.I + k P1.X + k P1.Y) N le_rfl
      (by simpa only [lo4, hi4, Nat.cast_add, add_div, div_self hNr.ne'] using hcell)
    rw [cdfR, this]; omega

/-- independence clause on the grid, exact for ANY thresholds: among the `N^n` grid points of
    `[0,1)^n` the number mapped to the error `e` is the product over the qubits of the number of
    grid points mapped to `e i` -/
theorem generate_law_grid (N n : ℕ) (cdf : List ℝ) (e : Fin n → P1) :
    Nat.card {k : Fin n → Fin N // ∀ i, pauliOfReal cdf (((k i : ℕ) : ℝ) / N) = e i}
      = ∏ i, gridCount N {u | pauliOfReal cdf u = e i} := by
  classical
  rw [← grid_box_count N fun i => {u | pauliOfReal cdf u = e i}, Nat.card_eq_fintype_card,
    Fintype.card_subtype]
  congr 1
  ext k
  simp

/-- measurement clause on the grid: the fraction of grid points that flip a bit differs from `q`
    by less than `1/N` -/
theorem flip_law_grid (N : ℕ) (hN : 0 < N) (q : ℝ) (hq0 : 0 ≤ q) (hq1 : q ≤ 1) (b : Bool) :
    |(gridCount N {u | flipOfReal [1 - q, 1] u = b} : ℝ) / N - (if b then q else 1 - q)| < 1 / N := by
  have h := gridCount_error N hN {u | flipOfReal [1 - q, 1] u = b} _ _
    (by cases b <;> simp [hq1]) (by cases b <;> simp [hq0, hq1])
    (by cases b <;> simp [hq0]) (flipOfReal_cell q 1 hq0 hq1 le_rfl b)
  have hlen : (if b = true then (1 : ℝ) else 1 - q) - (if b = true then 1 - q else 0)
      = if b = true then q else 1 - q := by
    cases b <;> simp
  rwa [hlen] at h

/-! ### non-vacuity: the depolarizing channel with p = 3/10 -/

/-- depolarizing distribution: I with 1 − p, each of X, Y, Z with p/3 -/
noncomputable def depol (p : ℝ) : P1 → ℝ
  | .I => 1 - p
  | _ => p / 3

/-- the depolarizing distribution with p = 3/10 is a distribution -/
example : IsDistR (depol (3 / 10)) :=
  ⟨fun P => by cases P <;> simp only [depol] <;> norm_num, by simp only [depol]; norm_num⟩

/-- … each of X, Y, Z has probability exactly 1/10 -/
example : uniform01 {u | pauliOfReal (cdfR (depol (3 / 10))) u = P1.Y} = ENNReal.ofReal (1 / 10) := by
  rw [pauli_law _ ⟨fun P => by cases P <;> simp only [depol] <;> norm_num,
    by simp only [depol]; norm_num⟩]
  congr 1; simp only [depol]; norm_num

/-- … and the three-qubit error `I X Z` has probability 7/10 · 1/10 · 1/10 = 7/1000 -/
example : uniformPi (Fin 3) {u | ∀ i, pauliOfReal (cdfR (depol (3 / 10))) (u i) = ![P1.I, P1.X, P1.Z] i}
    = ENNReal.ofReal (7 / 1000) := by
  rw [generate_law_ofReal 3 _ ⟨fun P => by cases P <;> simp only [depol] <;> norm_num,
    by simp only [depol]; norm_num⟩]
  congr 1
  simp only [Fin.prod_univ_three, depol, Matrix.cons_val]
  norm_num

/-- the rational depolarizing list of the executable model satisfies the hypotheses of
    `pauli_law_rat` / `generate_law_rat` -/
example : IsDist [7/10, 1/10, 1/10, 1/10] := ⟨rfl, by simp; norm_num, by norm_num⟩

/-- a step with 2 qubits and 1 stabiliser, q = 3/10: error `X I` with a flip has probability
    1/10 · 7/10 · 3/10 -/
example : uniformPi (Fin (2 + 1))
      {u | (∀ i : Fin 2, pauliOfReal (cdfR (depol (3 / 10))) (u (Fin.castAdd 1 i)) = ![P1.X, P1.I] i) ∧
           (∀ j : Fin 1, flipOfReal [1 - 3 / 10, 1] (u (Fin.natAdd 2 j)) = ![true] j)}
    = ENNReal.ofReal (1 / 10) * ENNReal.ofReal (7 / 10) * ENNReal.ofReal (3 / 10) := by
  rw [step_law 2 1 _ ⟨fun P => by cases P <;> simp only [depol] <;> norm_num,
    by simp only [depol]; norm_num⟩ (3 / 10) (by norm_num) (by norm_num)]
  simp only [Fin.prod_univ_two, Fin.prod_univ_one, depol]
  norm_num [Matrix.cons_val_zero, Matrix.cons_val_one]

/-
  FORMERLY `STATED, NOT PROVED` — all three items are now theorems, for all sizes, in
  `Props/C17/MeasureMore.lean` (namespace `Qec.C17.MeasureMore`, helpers `Lemmas/C17More.lean`):

  (S1) stream-level formulation.  With `uniformStream` the infinite product of `uniform01` on
       `ℕ → ℝ` (`MeasureTheory.Measure.infinitePi`), for every position `pos` the push-forward of
       `uniformStream` under `streamRun T n m d q pos` (the real copy of
       `s ↦ (runSteps n m cdfE q cdfM s T pos).1`, equal to the executable run on every rational
       stream: `streamRun_ratCast`) is the T-fold product of
         `stepLaw n m d q = (Measure.pi fun _ : Fin n => pauliLaw d).prod (Measure.pi fun _ : Fin m => flipLaw q)`
       — PROVED: `stream_run_law`; consecutive runs (`runMany`) are independent — PROVED:
       `stream_runs_law`; q = 0 — PROVED: `stream_run_law_zero` (+ `streamRunZero_ratCast`).
       Key lemma: `Qec.C17More.uniformStream_map_comp` (finitely many distinct stream positions are
       independent uniforms).

  (S2) `run_law` as an equality of measures on `Fin T → (Fin n → P1) × (Fin m → Bool)` — PROVED:
       `run_law_measure` (also `run_step_marginal`, `run_law_measure_index`).

  (S3) bound between the grid law and the continuous law for a whole n-qubit error:
       `|#{grid points of [0,1)^n mapped to e} / N^n − ∏ i, d (e i)| ≤ n / N` — PROVED:
       `generate_law_grid_error` (strict: `generate_law_grid_error_lt`); summed over all errors
       (ℓ¹ = twice the total variation) `≤ 4 n / N`: `generate_law_grid_l1`; one whole FTP step
       (error and flips) `≤ (n + m) / N`: `step_law_grid_error`.

  TRUSTED, NOT A STATEMENT ABOUT THIS CODE: PCG64's doubles are uniform on the grid and independent;
  numpy's `Generator.choice` is the inverse-CDF map of `rng.random` (re-checked by the harness).
-/

end Qec.C17.Measure
