/-
  C17 — distributional statements, second round: the items `Props/C17/Measure.lean` had left as
  `STATED, NOT PROVED`, now proved for all sizes.

  (S3) grid law vs continuous law of a whole n-qubit error, for every `n`, `N ≥ 1`, distribution `d`:
       `generate_law_grid_error` (per error, `≤ n/N`; `…_lt`: strict for `n ≥ 1`),
       `generate_law_grid_l1` (ℓ¹ = 2·total variation over all `4^n` errors, `≤ 4n/N`),
       `step_law_grid_error` (error and measurement flips of one FTP step, `≤ (n+m)/N`).
  (S2) `run_law_measure`: the law of a `T`-step run is the `T`-fold product of the step law, as an
       equality of measures on `Fin T → (Fin n → P1) × (Fin m → Bool)`; `run_step_marginal`;
       `run_law_measure_index` (steps indexed by any finite type).
  (S1) on the infinite stream, `uniformStream = Measure.infinitePi fun _ : ℕ => uniform01`:
       `stream_run_law` (any start position), `stream_runs_law` (consecutive runs are independent),
       `stream_run_law_zero` (q = 0), with `streamRun_ratCast` / `streamRunZero_ratCast` tying the
       real-valued run to the executable `runSteps` on every rational stream.

  Trusted exactly as in `Measure.lean`: the consumed doubles are i.i.d. uniform (on `[0,1)`, resp.
  on the grid `{k/N}`).  Helpers: `Lemmas/C17More.lean`.
-/
import QecVerif.Props.C17.Measure
import QecVerif.Lemmas.C17More

namespace Qec.C17.MeasureMore
open Qec Qec.Stream Qec.StreamMeasure Qec.C17.Measure Qec.C17More MeasureTheory

/-! ### (S3) the grid law of a whole n-qubit error -/

/-- a probability of a distribution is at most 1 -/
theorem isDistR_le_one (d : P1 → ℝ) (hd : IsDistR d) (P : P1) : d P ≤ 1 := by
  have hI := hd.nonneg P1.I
  have hX := hd.nonneg P1.X
  have hY := hd.nonneg P1.Y
  have hZ := hd.nonneg P1.Z
  have hs := hd.sum_one
  cases P <;> linarith

/-- the fraction of the `N^n` grid points of `[0,1)^n` mapped to `e` is the product over the qubits
    of the single-qubit grid frequencies (`generate_law_grid`, in ℝ) -/
theorem generate_grid_freq (N n : ℕ) (cdf : List ℝ) (e : Fin n → P1) :
    (Nat.card {k : Fin n → Fin N // ∀ i, pauliOfReal cdf (((k i : ℕ) : ℝ) / N) = e i} : ℝ)
        / (N : ℝ) ^ n
      = ∏ i, ((gridCount N {u | pauliOfReal cdf u = e i} : ℝ) / N) := by
  rw [generate_law_grid, Nat.cast_prod, Finset.prod_div_distrib, Finset.prod_const,
    Finset.card_univ, Fintype.card_fin]

/-- **(S3)** for every number of qubits `n`, every grid size `N ≥ 1`, every distribution `d` and
    every error `e`: the fraction of the `N^n` grid points of `[0,1)^n` that the sampler maps to
    `e` differs from the ideal probability `∏ i, d (e i)` by at most `n / N` -/
theorem generate_law_grid_error (N n : ℕ) (hN : 0 < N) (d : P1 → ℝ) (hd : IsDistR d)
    (e : Fin n → P1) :
    |(Nat.card {k : Fin n → Fin N // ∀ i, pauliOfReal (cdfR d) (((k i : ℕ) : ℝ) / N) = e i} : ℝ)
        / (N : ℝ) ^ n - ∏ i, d (e i)| ≤ (n : ℝ) / N := by
  rw [generate_grid_freq]
  refine (abs_prod_sub_prod_le Finset.univ _ _ (fun i _ => gridFreq_mem N hN _)
    (fun i _ => ⟨hd.nonneg _, isDistR_le_one d hd _⟩)).trans ?_
  calc ∑ i : Fin n, |(gridCount N {u | pauliOfReal (cdfR d) u = e i} : ℝ) / N - d (e i)|
      ≤ ∑ _i : Fin n, (1 : ℝ) / N :=
        Finset.sum_le_sum fun i _ => (pauli_law_grid N hN d hd (e i)).le
    _ = (n : ℝ) / N := by
        rw [Finset.sum_const, Finset.card_univ, Fintype.card_fin, nsmul_eq_mul]; ring

/-- … and the bound is strict as soon as there is a qubit -/
theorem generate_law_grid_error_lt (N n : ℕ) (hN : 0 < N) (hn : 0 < n) (d : P1 → ℝ)
    (hd : IsDistR d) (e : Fin n → P1) :
    |(Nat.card {k : Fin n → Fin N // ∀ i, pauliOfReal (cdfR d) (((k i : ℕ) : ℝ) / N) = e i} : ℝ)
        / (N : ℝ) ^ n - ∏ i, d (e i)| < (n : ℝ) / N := by
  rw [generate_grid_freq]
  refine (abs_prod_sub_prod_le Finset.univ _ _ (fun i _ => gridFreq_mem N hN _)
    (fun i _ => ⟨hd.nonneg _, isDistR_le_one d hd _⟩)).trans_lt ?_
  calc ∑ i : Fin n, |(gridCount N {u | pauliOfReal (cdfR d) u = e i} : ℝ) / N - d (e i)|
      < ∑ _i : Fin n, (1 : ℝ) / N :=
        Finset.sum_lt_sum_of_nonempty ⟨⟨0, hn⟩, Finset.mem_univ _⟩
          fun i _ => pauli_law_grid N hN d hd (e i)
    _ = (n : ℝ) / N := by
        rw [Finset.sum_const, Finset.card_univ, Fintype.card_fin, nsmul_eq_mul]; ring

/-- **(S3), total-variation form**: the ℓ¹ distance (twice the total-variation distance) between
    the law of the n-qubit error under grid uniforms and the ideal product law is at most
    `4 n / N` — summed over ALL `4^n` errors, not per error -/
theorem generate_law_grid_l1 (N n : ℕ) (hN : 0 < N) (d : P1 → ℝ) (hd : IsDistR d) :
    ∑ e : Fin n → P1,
      |(Nat.card {k : Fin n → Fin N // ∀ i, pauliOfReal (cdfR d) (((k i : ℕ) : ℝ) / N) = e i} : ℝ)
          / (N : ℝ) ^ n - ∏ i, d (e i)| ≤ 4 * (n : ℝ) / N := by
  have hNr : (0 : ℝ) < N := by exact_mod_cast hN
  simp_rw [generate_grid_freq]
  have ha1 : ∑ P : P1, (gridCount N {u | pauliOfReal (cdfR d) u = P} : ℝ) / N = 1 := by
    rw [← Finset.sum_div, ← Nat.cast_sum, gridCount_cells_sum, div_self hNr.ne']
  have hb1 : ∑ P : P1, d P = 1 := by rw [sum_P1]; exact hd.sum_one
  refine (sum_abs_prod_sub_prod_le
    (fun P => (gridCount N {u | pauliOfReal (cdfR d) u = P} : ℝ) / N) d
    (fun P => (gridFreq_mem N hN _).1) hd.nonneg ha1 hb1 n).trans ?_
  have h4 : ∑ P : P1, |(gridCount N {u | pauliOfReal (cdfR d) u = P} : ℝ) / N - d P| ≤ 4 / N := by
    calc _ ≤ ∑ _P : P1, (1 : ℝ) / N :=
          Finset.sum_le_sum fun P _ => (pauli_law_grid N hN d hd P).le
      _ = 4 / N := by rw [Finset.sum_const, card_P1, nsmul_eq_mul]; push_cast; ring
  calc (n : ℝ) * ∑ P : P1, |(gridCount N {u | pauliOfReal (cdfR d) u = P} : ℝ) / N - d P|
      ≤ (n : ℝ) * (4 / N) := by gcongr
    _ = 4 * (n : ℝ) / N := by ring

/-- **(S3) for a whole FTP step** (error AND measurement flips): the fraction of the `N^(n+m)` grid
    points of `[0,1)^(n+m)` that produce the step outcome `(e, f)` differs from the ideal
    probability `∏ d (e i) · ∏ (q if f j else 1 − q)` by at most `(n + m) / N` -/
theorem step_law_grid_error (N n m : ℕ) (hN : 0 < N) (d : P1 → ℝ) (hd : IsDistR d) (q : ℝ)
    (hq0 : 0 ≤ q) (hq1 : q ≤ 1) (e : Fin n → P1) (f : Fin m → Bool) :
    |(Nat.card {k : Fin (n + m) → Fin N //
          (∀ i : Fin n, pauliOfReal (cdfR d) (((k (Fin.castAdd m i) : ℕ) : ℝ) / N) = e i) ∧
          (∀ j : Fin m, flipOfReal [1 - q, 1] (((k (Fin.natAdd n j) : ℕ) : ℝ) / N) = f j)} : ℝ)
        / (N : ℝ) ^ (n + m)
      - (∏ i, d (e i)) * ∏ j, (if f j then q else 1 - q)| ≤ ((n + m : ℕ) : ℝ) / N := by
  classical
  have h := grid_box_error (ι := Fin (n + m)) N hN
    (Fin.addCases (motive := fun _ => Set ℝ) (fun i => {u | pauliOfReal (cdfR d) u = e i})
      (fun j => {u | flipOfReal [1 - q, 1] u = f j}))
    (Fin.addCases (motive := fun _ => ℝ) (fun i => d (e i)) (fun j => if f j then q else 1 - q))
    (by
      intro k
      refine Fin.addCases (fun i => ?_) (fun j => ?_) k
      · simp only [Fin.addCases_left]; exact ⟨hd.nonneg _, isDistR_le_one d hd _⟩
      · simp only [Fin.addCases_right]; cases f j <;> simp [hq0, hq1])
    (by
      intro k
      refine Fin.addCases (fun i => ?_) (fun j => ?_) k
      · simp only [Fin.addCases_left]; exact pauli_law_grid N hN d hd (e i)
      · simp only [Fin.addCases_right]; exact flip_law_grid N hN q hq0 hq1 (f j))
  rw [Fin.prod_univ_add, Fintype.card_fin] at h
  simp only [Fin.addCases_left, Fin.addCases_right] at h
  rw [Nat.card_eq_fintype_card, Fintype.card_subtype]
  convert h using 7
  rw [Fin.forall_fin_add]
  simp only [Fin.addCases_left, Fin.addCases_right, Set.mem_ofPred_eq]

/-- non-vacuity of (S3): depolarizing noise with p = 3/10 on 5 qubits, doubles (`N = 2^53`): the
    grid probability of `X I Z I Y` is within `5 / 2^53` of `(1/10)^3 (7/10)^2` -/
example :
    |(Nat.card {k : Fin 5 → Fin (2 ^ 53) // ∀ i, pauliOfReal (cdfR (depol (3 / 10)))
          (((k i : ℕ) : ℝ) / (2 ^ 53 : ℕ)) = ![P1.X, P1.I, P1.Z, P1.I, P1.Y] i} : ℝ)
        / ((2 ^ 53 : ℕ) : ℝ) ^ 5 - 49 / 100000| ≤ 5 / ((2 ^ 53 : ℕ) : ℝ) := by
  have hd : IsDistR (depol (3 / 10)) :=
    ⟨fun P => by cases P <;> simp only [depol] <;> norm_num, by simp only [depol]; norm_num⟩
  have h := generate_law_grid_error (2 ^ 53) 5 (by positivity) _ hd ![P1.X, P1.I, P1.Z, P1.I, P1.Y]
  have hp : ∏ i, depol (3 / 10) (![P1.X, P1.I, P1.Z, P1.I, P1.Y] i) = 49 / 100000 := by
    simp only [Fin.prod_univ_five, depol, Matrix.cons_val]
    norm_num
  rw [hp] at h
  exact_mod_cast h

/-! ### (S2) the law of a `T`-step run as an equality of measures -/

/-- the law of one FTP step (`step_law_measure`): n-fold product of the single-qubit law times
    m-fold product of Bernoulli(q) -/
noncomputable def stepLaw (n m : ℕ) (d : P1 → ℝ) (q : ℝ) : Measure ((Fin n → P1) × (Fin m → Bool)) :=
  (Measure.pi fun _ : Fin n => pauliLaw d).prod (Measure.pi fun _ : Fin m => flipLaw q)

/-- the outcome of a `T`-step run (errors and measurement flips of every step) as a function of its
    `T · (n + m)` uniforms; uniform `(t, k)` is stream position `pos + t·(n+m) + k`
    (`run_event_iff`) -/
noncomputable def runOutcome (T n m : ℕ) (d : P1 → ℝ) (q : ℝ) (u : Fin T × Fin (n + m) → ℝ) :
    Fin T → (Fin n → P1) × (Fin m → Bool) :=
  fun t => (fun i => pauliOfReal (cdfR d) (u (t, Fin.castAdd m i)),
            fun j => flipOfReal [1 - q, 1] (u (t, Fin.natAdd n j)))

theorem pauliLaw_isProbability (d : P1 → ℝ) (hd : IsDistR d) : IsProbabilityMeasure (pauliLaw d) := by
  rw [← pauli_law_measure d hd]
  exact Measure.isProbabilityMeasure_map (measurable_pauliOfReal _).aemeasurable

theorem flipLaw_isProbability (q : ℝ) (hq0 : 0 ≤ q) (hq1 : q ≤ 1) : IsProbabilityMeasure (flipLaw q) := by
  rw [← flip_law_measure q hq0 hq1]
  exact Measure.isProbabilityMeasure_map (measurable_flipOfReal _).aemeasurable

/-- the step law gives the outcome `(e, f)` the mass `∏ d (e i) · ∏ (q if f j else 1 − q)` -/
theorem stepLaw_singleton (n m : ℕ) (d : P1 → ℝ) (hd : IsDistR d) (q : ℝ) (hq0 : 0 ≤ q)
    (hq1 : q ≤ 1) (e : Fin n → P1) (f : Fin m → Bool) :
    stepLaw n m d q {(e, f)}
      = (∏ i, ENNReal.ofReal (d (e i))) * ∏ j, ENNReal.ofReal (if f j then q else 1 - q) := by
  have := pauliLaw_isProbability d hd
  have := flipLaw_isProbability q hq0 hq1
  rw [stepLaw, ← Set.singleton_prod_singleton, Measure.prod_prod,
    ← Set.univ_pi_singleton e, ← Set.univ_pi_singleton f, Measure.pi_pi, Measure.pi_pi]
  simp only [pauliLaw_singleton, flipLaw_singleton]

theorem measurable_runOutcome (T n m : ℕ) (d : P1 → ℝ) (q : ℝ) :
    Measurable (runOutcome T n m d q) :=
  measurable_pi_lambda _ fun _ => Measurable.prodMk
    (measurable_pi_lambda _ fun _ => (measurable_pauliOfReal _).comp (measurable_pi_apply _))
    (measurable_pi_lambda _ fun _ => (measurable_flipOfReal _).comp (measurable_pi_apply _))

/-- **(S2)** `run_law` as an equality of measures on `Fin T → (Fin n → P1) × (Fin m → Bool)`: under
    `T · (n + m)` independent uniforms the sequence of (step error, step measurement flips) of a
    `T`-step run is distributed as the `T`-fold product of the step law — the steps are
    independent and identically distributed -/
theorem run_law_measure (T n m : ℕ) (d : P1 → ℝ) (hd : IsDistR d) (q : ℝ) (hq0 : 0 ≤ q)
    (hq1 : q ≤ 1) :
    Measure.map (runOutcome T n m d q) (uniformPi (Fin T × Fin (n + m)))
      = Measure.pi fun _ : Fin T => stepLaw n m d q := by
  have := pauliLaw_isProbability d hd
  have := flipLaw_isProbability q hq0 hq1
  have : IsFiniteMeasure (stepLaw n m d q) := by unfold stepLaw; infer_instance
  rw [Measure.ext_iff_singleton]
  intro x
  rw [Measure.map_apply (measurable_runOutcome T n m d q) (measurableSet_singleton _)]
  have hpre : runOutcome T n m d q ⁻¹' {x}
      = {u | ∀ t, (∀ i : Fin n, pauliOfReal (cdfR d) (u (t, Fin.castAdd m i)) = (x t).1 i) ∧
                  (∀ j : Fin m, flipOfReal [1 - q, 1] (u (t, Fin.natAdd n j)) = (x t).2 j)} := by
    ext u
    simp only [Set.mem_preimage, Set.mem_singleton_iff, Set.mem_ofPred_eq, runOutcome, funext_iff,
      Prod.ext_iff]
  rw [hpre, run_law T n m d hd q hq0 hq1 (fun t => (x t).1) (fun t => (x t).2),
    ← Set.univ_pi_singleton x, Measure.pi_pi]
  refine Finset.prod_congr rfl fun t _ => ?_
  rw [← stepLaw_singleton n m d hd q hq0 hq1]

/-- the single step is the case `T = 1` read at `t = 0`: the marginal of step `t` of a run is the
    step law -/
theorem run_step_marginal (T n m : ℕ) (d : P1 → ℝ) (hd : IsDistR d) (q : ℝ) (hq0 : 0 ≤ q)
    (hq1 : q ≤ 1) (t : Fin T) :
    Measure.map (fun u => runOutcome T n m d q u t) (uniformPi (Fin T × Fin (n + m)))
      = stepLaw n m d q := by
  have := pauliLaw_isProbability d hd
  have := flipLaw_isProbability q hq0 hq1
  have : IsProbabilityMeasure (stepLaw n m d q) := by unfold stepLaw; infer_instance
  have h : (fun u => runOutcome T n m d q u t) = (fun x => x t) ∘ runOutcome T n m d q := rfl
  rw [h, ← Measure.map_map (measurable_pi_apply t) (measurable_runOutcome T n m d q),
    run_law_measure T n m d hd q hq0 hq1]
  exact (measurePreserving_eval (fun _ : Fin T => stepLaw n m d q) t).map_eq

/-- non-vacuity of (S2): two steps, two qubits, one stabiliser, depolarizing p = 3/10, q = 3/10 —
    the run outcome ((X I, flip), (I I, no flip)) has probability
    (1/10 · 7/10 · 3/10) · (7/10 · 7/10 · 7/10) under the product law -/
example :
    Measure.map (runOutcome 2 2 1 (depol (3 / 10)) (3 / 10)) (uniformPi (Fin 2 × Fin (2 + 1)))
        {![(![P1.X, P1.I], ![true]), (![P1.I, P1.I], ![false])]}
      = (ENNReal.ofReal (1 / 10) * ENNReal.ofReal (7 / 10) * ENNReal.ofReal (3 / 10))
        * (ENNReal.ofReal (7 / 10) * ENNReal.ofReal (7 / 10) * ENNReal.ofReal (7 / 10)) := by
  have hd : IsDistR (depol (3 / 10)) :=
    ⟨fun P => by cases P <;> simp only [depol] <;> norm_num, by simp only [depol]; norm_num⟩
  have := pauliLaw_isProbability _ hd
  have := flipLaw_isProbability (3 / 10) (by norm_num) (by norm_num)
  have : IsFiniteMeasure (stepLaw 2 1 (depol (3 / 10)) (3 / 10)) := by unfold stepLaw; infer_instance
  rw [run_law_measure 2 2 1 _ hd (3 / 10) (by norm_num) (by norm_num), ← Set.univ_pi_singleton,
    Measure.pi_pi, Fin.prod_univ_two]
  simp only [Matrix.cons_val_zero, Matrix.cons_val_one]
  rw [stepLaw_singleton 2 1 _ hd _ (by norm_num) (by norm_num),
    stepLaw_singleton 2 1 _ hd _ (by norm_num) (by norm_num)]
  simp only [Fin.prod_univ_two, Fin.prod_univ_one, depol]
  norm_num [Matrix.cons_val_zero, Matrix.cons_val_one]

/-! ### (S1) the stream-level formulation: the infinite product of `uniform01` on `ℕ → ℝ` -/

/-- the outcome of a run whose steps are indexed by any finite type `τ` (`τ = Fin T`: one run;
    `τ = Fin R × Fin T`: `R` consecutive runs), as a function of its `τ × (n + m)` uniforms -/
noncomputable def runOutcomeI (τ : Type) (n m : ℕ) (d : P1 → ℝ) (q : ℝ) (u : τ × Fin (n + m) → ℝ) :
    τ → (Fin n → P1) × (Fin m → Bool) :=
  fun t => (fun i => pauliOfReal (cdfR d) (u (t, Fin.castAdd m i)),
            fun j => flipOfReal [1 - q, 1] (u (t, Fin.natAdd n j)))

theorem measurable_runOutcomeI (τ : Type) (n m : ℕ) (d : P1 → ℝ) (q : ℝ) :
    Measurable (runOutcomeI τ n m d q) :=
  measurable_pi_lambda _ fun _ => Measurable.prodMk
    (measurable_pi_lambda _ fun _ => (measurable_pauliOfReal _).comp (measurable_pi_apply _))
    (measurable_pi_lambda _ fun _ => (measurable_flipOfReal _).comp (measurable_pi_apply _))

/-- `run_law_measure` for steps indexed by any finite type: the steps are i.i.d. with the step
    law -/
theorem run_law_measure_index (τ : Type) [Fintype τ] (n m : ℕ) (d : P1 → ℝ) (hd : IsDistR d)
    (q : ℝ) (hq0 : 0 ≤ q) (hq1 : q ≤ 1) :
    Measure.map (runOutcomeI τ n m d q) (uniformPi (τ × Fin (n + m)))
      = Measure.pi fun _ : τ => stepLaw n m d q := by
  classical
  have := pauliLaw_isProbability d hd
  have := flipLaw_isProbability q hq0 hq1
  have : IsFiniteMeasure (stepLaw n m d q) := by unfold stepLaw; infer_instance
  rw [Measure.ext_iff_singleton]
  intro x
  rw [Measure.map_apply (measurable_runOutcomeI τ n m d q) (measurableSet_singleton _)]
  have hpre : runOutcomeI τ n m d q ⁻¹' {x}
      = {u | ∀ t k, u (t, k) ∈ (Fin.addCases (motive := fun _ => Set ℝ)
              (fun i => {y | pauliOfReal (cdfR d) y = (x t).1 i})
              (fun j => {y | flipOfReal [1 - q, 1] y = (x t).2 j}) k)} := by
    ext u
    simp only [Set.mem_preimage, Set.mem_singleton_iff, Set.mem_ofPred_eq, runOutcomeI, funext_iff,
      Prod.ext_iff]
    refine forall_congr' fun t => ?_
    rw [Fin.forall_fin_add]
    simp only [Fin.addCases_left, Fin.addCases_right, Set.mem_ofPred_eq]
  rw [hpre, uniformPi_box_prod, ← Set.univ_pi_singleton x, Measure.pi_pi]
  refine Finset.prod_congr rfl fun t _ => ?_
  rw [Fin.prod_univ_add]
  simp only [Fin.addCases_left, Fin.addCases_right]
  have hx : ({x t} : Set ((Fin n → P1) × (Fin m → Bool))) = {((x t).1, (x t).2)} := rfl
  rw [hx, stepLaw_singleton n m d hd q hq0 hq1]
  congr 1
  · exact Finset.prod_congr rfl fun i _ => pauli_law d hd _
  · exact Finset.prod_congr rfl fun j _ => flip_law q hq0 hq1 _

/-- stream position of uniform `k` of step `t` of a run that starts at `pos` (`run_event_iff`) -/
def runPos (T n m pos : ℕ) (x : Fin T × Fin (n + m)) : ℕ := pos + x.1 * (n + m) + x.2

/-- the positions a run reads are pairwise distinct -/
theorem runPos_injective (T n m pos : ℕ) : Function.Injective (runPos T n m pos) := by
  rintro ⟨t, k⟩ ⟨t', k'⟩ h
  simp only [runPos] at h
  obtain ⟨h1, h2⟩ := mul_add_inj k.isLt k'.isLt (by omega : (t : ℕ) * (n + m) + k = t' * (n + m) + k')
  exact Prod.ext (Fin.ext h1) (Fin.ext h2)

/-- the real copy of `(runSteps n m cdfE q cdfM s T pos).1` for `q ≠ 0`: step `t` reads its error
    from the stream positions `pos + t(n+m) + i` and its flips from `pos + t(n+m) + n + j`
    (`run_stream_order`; tied to the executable model by `streamRun_ratCast`) -/
noncomputable def streamRun (T n m : ℕ) (d : P1 → ℝ) (q : ℝ) (pos : ℕ) (s : ℕ → ℝ) :
    Fin T → (Fin n → P1) × (Fin m → Bool) :=
  fun t => (fun i => pauliOfReal (cdfR d) (s (pos + t * (n + m) + i)),
            fun j => flipOfReal [1 - q, 1] (s (pos + t * (n + m) + n + j)))

/-- `streamRun` IS the executable run on every rational stream (every stream of doubles): the run
    of the model produces the outcome `x` iff `streamRun` of the same stream seen in ℝ equals `x` -/
theorem streamRun_ratCast (T n m : ℕ) (dist : List ℚ) (hd : IsDist dist) (q : ℚ) (hq0 : q ≠ 0)
    (s : UStream) (pos : ℕ) (x : Fin T → (Fin n → P1) × (Fin m → Bool)) :
    (runSteps n m (cdfOf dist) q (cdfOf (measDist q)) s T pos).1
        = List.ofFn (fun t => (toBsf (List.ofFn (x t).1), List.ofFn (x t).2)) ↔
      streamRun T n m (prob dist) (q : ℝ) pos (fun i => ((s i : ℚ) : ℝ)) = x := by
  rw [run_event_iff T n m (cdfOf dist) q hq0 s pos (fun t => (x t).1) (fun t => (x t).2),
    cdf_ratCast dist hd]
  simp only [streamRun, funext_iff, Prod.ext_iff]

theorem streamRun_eq (T n m : ℕ) (d : P1 → ℝ) (q : ℝ) (pos : ℕ) (s : ℕ → ℝ) :
    streamRun T n m d q pos s = runOutcome T n m d q fun x => s (runPos T n m pos x) := by
  funext t
  simp only [streamRun, runOutcome, runPos, Fin.val_castAdd, Fin.val_natAdd, Nat.add_assoc]

/-- **(S1)** with the stream distributed as the infinite product `uniformStream` of `uniform01` on
    `ℕ → ℝ`: for every start position `pos` the outcome of a `T`-step run (`q ≠ 0` branch: `n + m`
    uniforms per step) is distributed as the `T`-fold product of the step law -/
theorem stream_run_law (T n m : ℕ) (d : P1 → ℝ) (hd : IsDistR d) (q : ℝ) (hq0 : 0 ≤ q) (hq1 : q ≤ 1)
    (pos : ℕ) :
    Measure.map (streamRun T n m d q pos) uniformStream
      = Measure.pi fun _ : Fin T => stepLaw n m d q := by
  have hm : Measurable (fun (s : ℕ → ℝ) (x : Fin T × Fin (n + m)) => s (runPos T n m pos x)) :=
    measurable_pi_lambda _ fun k => measurable_pi_apply _
  have h : streamRun T n m d q pos
      = runOutcome T n m d q ∘ fun (s : ℕ → ℝ) (x : Fin T × Fin (n + m)) => s (runPos T n m pos x) := by
    funext s; exact streamRun_eq T n m d q pos s
  rw [h, ← Measure.map_map (measurable_runOutcome T n m d q) hm,
    uniformStream_map_comp _ (runPos_injective T n m pos), run_law_measure T n m d hd q hq0 hq1]

/-- the real copy of `(runMany …).1`: `R` consecutive `T`-step runs from one stream; run `r` starts
    at `pos + r·(T·(n+m))` (`runs_stream_order`) -/
noncomputable def streamRuns (R T n m : ℕ) (d : P1 → ℝ) (q : ℝ) (pos : ℕ) (s : ℕ → ℝ) :
    Fin R → Fin T → (Fin n → P1) × (Fin m → Bool) :=
  fun r => streamRun T n m d q (pos + r * (T * (n + m))) s

/-- stream position of uniform `k` of step `t` of run `r` -/
def runsPos (R T n m pos : ℕ) (x : (Fin R × Fin T) × Fin (n + m)) : ℕ :=
  pos + x.1.1 * (T * (n + m)) + x.1.2 * (n + m) + x.2

theorem runsPos_injective (R T n m pos : ℕ) : Function.Injective (runsPos R T n m pos) := by
  rintro ⟨⟨r, t⟩, k⟩ ⟨⟨r', t'⟩, k'⟩ h
  simp only [runsPos] at h
  have e : ∀ (a b c : ℕ), pos + a * (T * (n + m)) + b * (n + m) + c
      = pos + ((a * T + b) * (n + m) + c) := by
    intro a b c; rw [Nat.add_mul, Nat.mul_assoc]; omega
  rw [e, e] at h
  obtain ⟨h1, h2⟩ := mul_add_inj k.isLt k'.isLt (Nat.add_left_cancel h)
  obtain ⟨h3, h4⟩ := mul_add_inj t.isLt t'.isLt h1
  exact Prod.ext (Prod.ext (Fin.ext h3) (Fin.ext h4)) (Fin.ext h2)

/-- **(S1), consecutive runs**: under `uniformStream` the `R` consecutive runs that `_run` draws
    from one generator are independent and every step of every run has the step law — the joint
    law on `Fin R → Fin T → (errors × flips)` is the product over the runs of the product over the
    steps of the step law -/
theorem stream_runs_law (R T n m : ℕ) (d : P1 → ℝ) (hd : IsDistR d) (q : ℝ) (hq0 : 0 ≤ q)
    (hq1 : q ≤ 1) (pos : ℕ) :
    Measure.map (streamRuns R T n m d q pos) uniformStream
      = Measure.pi fun _ : Fin R => Measure.pi fun _ : Fin T => stepLaw n m d q := by
  have := pauliLaw_isProbability d hd
  have := flipLaw_isProbability q hq0 hq1
  have : IsProbabilityMeasure (stepLaw n m d q) := by unfold stepLaw; infer_instance
  have hm : Measurable (fun (s : ℕ → ℝ) (x : (Fin R × Fin T) × Fin (n + m)) =>
      s (runsPos R T n m pos x)) :=
    measurable_pi_lambda _ fun k => measurable_pi_apply _
  have h : streamRuns R T n m d q pos
      = (MeasurableEquiv.curry (Fin R) (Fin T) ((Fin n → P1) × (Fin m → Bool)))
        ∘ (runOutcomeI (Fin R × Fin T) n m d q
        ∘ fun (s : ℕ → ℝ) (x : (Fin R × Fin T) × Fin (n + m)) => s (runsPos R T n m pos x)) := by
    funext s r t
    simp only [streamRuns, streamRun, runOutcomeI, runsPos, Function.comp_apply,
      MeasurableEquiv.curry_apply, Fin.val_castAdd, Fin.val_natAdd,
      Nat.add_assoc]
  rw [h, ← Measure.map_map (MeasurableEquiv.measurable _)
      ((measurable_runOutcomeI _ n m d q).comp hm),
    ← Measure.map_map (measurable_runOutcomeI _ n m d q) hm,
    uniformStream_map_comp _ (runsPos_injective R T n m pos),
    run_law_measure_index (Fin R × Fin T) n m d hd q hq0 hq1]
  have hc := Measure.infinitePi_map_curry
    (fun (_ : Fin R) (_ : Fin T) => stepLaw n m d q)
  simp only [Measure.infinitePi_eq_pi] at hc
  exact hc

/-- non-vacuity of (S1): starting anywhere in the stream (here position 1000), the 2-step run of
    the (S2) example has the same probability as there -/
example :
    Measure.map (streamRun 2 2 1 (depol (3 / 10)) (3 / 10) 1000) uniformStream
        {![(![P1.X, P1.I], ![true]), (![P1.I, P1.I], ![false])]}
      = (ENNReal.ofReal (1 / 10) * ENNReal.ofReal (7 / 10) * ENNReal.ofReal (3 / 10))
        * (ENNReal.ofReal (7 / 10) * ENNReal.ofReal (7 / 10) * ENNReal.ofReal (7 / 10)) := by
  have hd : IsDistR (depol (3 / 10)) :=
    ⟨fun P => by cases P <;> simp only [depol] <;> norm_num, by simp only [depol]; norm_num⟩
  have := pauliLaw_isProbability _ hd
  have := flipLaw_isProbability (3 / 10) (by norm_num) (by norm_num)
  have : IsFiniteMeasure (stepLaw 2 1 (depol (3 / 10)) (3 / 10)) := by unfold stepLaw; infer_instance
  rw [stream_run_law 2 2 1 _ hd (3 / 10) (by norm_num) (by norm_num), ← Set.univ_pi_singleton,
    Measure.pi_pi, Fin.prod_univ_two]
  simp only [Matrix.cons_val_zero, Matrix.cons_val_one]
  rw [stepLaw_singleton 2 1 _ hd _ (by norm_num) (by norm_num),
    stepLaw_singleton 2 1 _ hd _ (by norm_num) (by norm_num)]
  simp only [Fin.prod_univ_two, Fin.prod_univ_one, depol]
  norm_num [Matrix.cons_val_zero, Matrix.cons_val_one]

/-- non-vacuity of `streamRun_ratCast`: the concrete two-step run of `Props/C17.lean` (stream
    1/20, 3/4, 4/5, 19/20, 1/2, 1/10; outcome (I X, flip), (Z I, no flip)) is `streamRun` of the
    same stream -/
example :
    streamRun 2 2 1 (prob [7/10, 1/5, 0, 1/10]) ((3 / 10 : ℚ) : ℝ) 0
        (fun i => (([1/20, 3/4, 4/5, 19/20, 1/2, 1/10] : List ℚ).getD i 0 : ℚ))
      = ![(![P1.I, P1.X], ![true]), (![P1.Z, P1.I], ![false])] := by
  rw [← streamRun_ratCast 2 2 1 _ ⟨rfl, by simp; norm_num, by norm_num⟩ (3 / 10) (by norm_num)
    (fun i => ([1/20, 3/4, 4/5, 19/20, 1/2, 1/10] : List ℚ).getD i 0) 0]
  decide +kernel

/-! ### (S1), q = 0: no measurement flip is drawn, a step reads only its `n` error uniforms -/

/-- the real copy of the errors of `(runSteps n m cdfE 0 cdfM s T pos).1`: step `t` reads the
    stream positions `pos + t·n + i` (`run_event_iff_zero`) -/
noncomputable def streamRunZero (T n : ℕ) (d : P1 → ℝ) (pos : ℕ) (s : ℕ → ℝ) : Fin T → Fin n → P1 :=
  fun t i => pauliOfReal (cdfR d) (s (pos + t * n + i))

/-- `streamRunZero` IS the executable run with q = 0 on every rational stream -/
theorem streamRunZero_ratCast (T n m : ℕ) (dist : List ℚ) (hd : IsDist dist) (cdfM : List ℚ)
    (s : UStream) (pos : ℕ) (x : Fin T → Fin n → P1) :
    (runSteps n m (cdfOf dist) 0 cdfM s T pos).1
        = List.ofFn (fun t => (toBsf (List.ofFn (x t)), zeros m)) ↔
      streamRunZero T n (prob dist) pos (fun i => ((s i : ℚ) : ℝ)) = x := by
  rw [run_event_iff_zero T n m (cdfOf dist) cdfM s pos x, cdf_ratCast dist hd]
  simp only [streamRunZero, funext_iff]

/-- **(S1), q = 0** (ideal runs and the `T = 1` default): under `uniformStream` all `T · n` qubit
    errors of a run are independent draws from `d` — the law on `Fin T → Fin n → P1` is the product
    of products of the single-qubit law -/
theorem stream_run_law_zero (T n : ℕ) (d : P1 → ℝ) (hd : IsDistR d) (pos : ℕ) :
    Measure.map (streamRunZero T n d pos) uniformStream
      = Measure.pi fun _ : Fin T => Measure.pi fun _ : Fin n => pauliLaw d := by
  have := pauliLaw_isProbability d hd
  have hinj : Function.Injective fun x : Fin T × Fin n => pos + x.1 * n + x.2 := by
    rintro ⟨t, k⟩ ⟨t', k'⟩ h
    simp only at h
    obtain ⟨h1, h2⟩ := mul_add_inj k.isLt k'.isLt (by omega : (t : ℕ) * n + k = t' * n + k')
    exact Prod.ext (Fin.ext h1) (Fin.ext h2)
  have hm : Measurable (fun (s : ℕ → ℝ) (x : Fin T × Fin n) => s (pos + x.1 * n + x.2)) :=
    measurable_pi_lambda _ fun k => measurable_pi_apply _
  have hf : Measurable (fun (u : Fin T × Fin n → ℝ) (x : Fin T × Fin n) =>
      pauliOfReal (cdfR d) (u x)) :=
    measurable_pi_lambda _ fun _ => (measurable_pauliOfReal _).comp (measurable_pi_apply _)
  have h : streamRunZero T n d pos
      = (MeasurableEquiv.curry (Fin T) (Fin n) P1)
        ∘ ((fun (u : Fin T × Fin n → ℝ) (x : Fin T × Fin n) => pauliOfReal (cdfR d) (u x))
        ∘ fun (s : ℕ → ℝ) (x : Fin T × Fin n) => s (pos + x.1 * n + x.2)) := by
    funext s t i
    simp only [streamRunZero, Function.comp_apply, MeasurableEquiv.curry_apply]
  rw [h, ← Measure.map_map (MeasurableEquiv.measurable _) (hf.comp hm),
    ← Measure.map_map hf hm, uniformStream_map_comp _ hinj]
  have hpi : Measure.map (fun (u : Fin T × Fin n → ℝ) (x : Fin T × Fin n) =>
        pauliOfReal (cdfR d) (u x)) (uniformPi (Fin T × Fin n))
      = Measure.pi fun _ : Fin T × Fin n => pauliLaw d := by
    rw [← pauli_law_measure d hd]
    exact Measure.pi_map_pi fun _ => (measurable_pauliOfReal _).aemeasurable
  rw [hpi]
  have hc := Measure.infinitePi_map_curry (fun (_ : Fin T) (_ : Fin n) => pauliLaw d)
  simp only [Measure.infinitePi_eq_pi] at hc
  exact hc

/-- non-vacuity of `stream_run_law_zero`: two ideal steps on two qubits from position 7 of the
    stream — the outcome (X I), (I Z) has probability 1/10 · 7/10 · 7/10 · 1/10 -/
example :
    Measure.map (streamRunZero 2 2 (depol (3 / 10)) 7) uniformStream
        {![![P1.X, P1.I], ![P1.I, P1.Z]]}
      = (ENNReal.ofReal (1 / 10) * ENNReal.ofReal (7 / 10))
        * (ENNReal.ofReal (7 / 10) * ENNReal.ofReal (1 / 10)) := by
  have hd : IsDistR (depol (3 / 10)) :=
    ⟨fun P => by cases P <;> simp only [depol] <;> norm_num, by simp only [depol]; norm_num⟩
  have := pauliLaw_isProbability _ hd
  rw [stream_run_law_zero 2 2 _ hd, ← Set.univ_pi_singleton, Measure.pi_pi, Fin.prod_univ_two]
  simp only [Matrix.cons_val_zero, Matrix.cons_val_one]
  rw [← Set.univ_pi_singleton, Measure.pi_pi, ← Set.univ_pi_singleton, Measure.pi_pi]
  simp only [Fin.prod_univ_two, pauliLaw_singleton, depol]
  norm_num [Matrix.cons_val_zero, Matrix.cons_val_one]

/-! ### non-vacuity of the remaining statements (depolarizing p = 3/10, q = 3/10, doubles) -/

/-- the depolarizing distribution with p = 3/10 satisfies the hypothesis of every theorem above -/
theorem depol_isDistR : IsDistR (depol (3 / 10)) :=
  ⟨fun P => by cases P <;> simp only [depol] <;> norm_num, by simp only [depol]; norm_num⟩

/-- (S3) strict and ℓ¹ forms on 5 qubits with `N = 2^53` -/
example (e : Fin 5 → P1) :
    |(Nat.card {k : Fin 5 → Fin (2 ^ 53) // ∀ i, pauliOfReal (cdfR (depol (3 / 10)))
          (((k i : ℕ) : ℝ) / (2 ^ 53 : ℕ)) = e i} : ℝ)
        / ((2 ^ 53 : ℕ) : ℝ) ^ 5 - ∏ i, depol (3 / 10) (e i)| < (5 : ℕ) / ((2 ^ 53 : ℕ) : ℝ) :=
  generate_law_grid_error_lt (2 ^ 53) 5 (by positivity) (by norm_num) _ depol_isDistR e

example :
    ∑ e : Fin 5 → P1,
      |(Nat.card {k : Fin 5 → Fin (2 ^ 53) // ∀ i, pauliOfReal (cdfR (depol (3 / 10)))
            (((k i : ℕ) : ℝ) / (2 ^ 53 : ℕ)) = e i} : ℝ)
          / ((2 ^ 53 : ℕ) : ℝ) ^ 5 - ∏ i, depol (3 / 10) (e i)|
      ≤ 4 * ((5 : ℕ) : ℝ) / ((2 ^ 53 : ℕ) : ℝ) :=
  generate_law_grid_l1 (2 ^ 53) 5 (by positivity) _ depol_isDistR

/-- (S2) marginal of step 1 of a 3-step run, and the law for steps indexed by `Fin 2 × Fin 3` -/
example :
    Measure.map (fun u => runOutcome 3 2 1 (depol (3 / 10)) (3 / 10) u 1)
        (uniformPi (Fin 3 × Fin (2 + 1)))
      = stepLaw 2 1 (depol (3 / 10)) (3 / 10) :=
  run_step_marginal 3 2 1 _ depol_isDistR _ (by norm_num) (by norm_num) 1

example :
    Measure.map (runOutcomeI (Fin 2 × Fin 3) 2 1 (depol (3 / 10)) (3 / 10))
        (uniformPi ((Fin 2 × Fin 3) × Fin (2 + 1)))
      = Measure.pi fun _ : Fin 2 × Fin 3 => stepLaw 2 1 (depol (3 / 10)) (3 / 10) :=
  run_law_measure_index _ 2 1 _ depol_isDistR _ (by norm_num) (by norm_num)

/-- (S1) two consecutive 3-step runs from position 5 of the stream are independent -/
example :
    Measure.map (streamRuns 2 3 2 1 (depol (3 / 10)) (3 / 10) 5) uniformStream
      = Measure.pi fun _ : Fin 2 => Measure.pi fun _ : Fin 3 =>
          stepLaw 2 1 (depol (3 / 10)) (3 / 10) :=
  stream_runs_law 2 3 2 1 _ depol_isDistR _ (by norm_num) (by norm_num) 5

/-- (S3) for a step: 5 qubits, 4 stabilisers, doubles -/
example (e : Fin 5 → P1) (f : Fin 4 → Bool) :
    |(Nat.card {k : Fin (5 + 4) → Fin (2 ^ 53) //
          (∀ i : Fin 5, pauliOfReal (cdfR (depol (3 / 10)))
              (((k (Fin.castAdd 4 i) : ℕ) : ℝ) / (2 ^ 53 : ℕ)) = e i) ∧
          (∀ j : Fin 4, flipOfReal [1 - 3 / 10, 1]
              (((k (Fin.natAdd 5 j) : ℕ) : ℝ) / (2 ^ 53 : ℕ)) = f j)} : ℝ)
        / ((2 ^ 53 : ℕ) : ℝ) ^ (5 + 4)
      - (∏ i, depol (3 / 10) (e i)) * ∏ j, (if f j then (3 / 10 : ℝ) else 1 - 3 / 10)|
      ≤ ((5 + 4 : ℕ) : ℝ) / ((2 ^ 53 : ℕ) : ℝ) :=
  step_law_grid_error (2 ^ 53) 5 4 (by positivity) _ depol_isDistR _ (by norm_num) (by norm_num) e f

end Qec.C17.MeasureMore
