/-
  C09 — Pauli primitives agree with the Pauli group.
  Property theorems only; helper lemmas live in Lemmas/.
-/
import QecVerif.Lemmas.GF2
import QecVerif.Lemmas.IPauli
import QecVerif.Lemmas.Pack
namespace Qec.C09
open Qec

/-- string → bsf → string is the identity (every length, including 0) -/
theorem ofBsf_toBsf (p : PStr) : ofBsf (toBsf p) = p := by
  unfold ofBsf
  rw [xHalf_toBsf, zHalf_toBsf]
  induction p with
  | nil => rfl
  | cons a p ih => cases a <;> simp_all [P1.xBit, P1.zBit, P1.ofBits]

/-- bsf → string → bsf is the identity on every even-length binary vector -/
theorem toBsf_ofBsf (b : BVec) (h : b.length % 2 = 0) : toBsf (ofBsf b) = b := by
  have hl := halves_same_length b h
  have hx : ∀ (xs zs : BVec), xs.length = zs.length →
      (List.zipWith P1.ofBits xs zs).map P1.xBit = xs := by
    intro xs
    induction xs with
    | nil => intro zs _; simp
    | cons x xs ih =>
      intro zs h
      cases zs with
      | nil => simp at h
      | cons z zs =>
        simp only [List.length_cons, Nat.add_right_cancel_iff] at h
        simp only [List.zipWith_cons_cons, List.map_cons, ih zs h]
        cases x <;> cases z <;> simp [P1.ofBits, P1.xBit]
  have hz : ∀ (xs zs : BVec), xs.length = zs.length →
      (List.zipWith P1.ofBits xs zs).map P1.zBit = zs := by
    intro xs
    induction xs with
    | nil => intro zs h; cases zs <;> simp_all
    | cons x xs ih =>
      intro zs h
      cases zs with
      | nil => simp at h
      | cons z zs =>
        simp only [List.length_cons, Nat.add_right_cancel_iff] at h
        simp only [List.zipWith_cons_cons, List.map_cons, ih zs h]
        cases x <;> cases z <;> simp [P1.ofBits, P1.zBit]
  unfold ofBsf toBsf
  rw [hx _ _ hl, hz _ _ hl, half_append]

/-- the conversion is injective: different strings have different binary symplectic forms -/
theorem toBsf_injective (p q : PStr) (h : toBsf p = toBsf q) : p = q := by
  rw [← ofBsf_toBsf p, ← ofBsf_toBsf q, h]

/-- the length of the bsf is twice the number of qubits -/
theorem toBsf_length (p : PStr) : (toBsf p).length = 2 * p.length := by
  simp [toBsf]; omega

/-- **bsp = Pauli-group commutation**: the binary symplectic product of two n-qubit Paulis is 1
    exactly when the number of positions whose single-qubit factors anticommute (by the 4×4
    table) is odd. -/
theorem bsp_eq_anti (p q : PStr) (h : p.length = q.length) : bsp (toBsf p) (toBsf q) = antiStr p q := by
  rw [bsp_halves _ _ (by simp [toBsf_length, h]) (by simp [toBsf_length])]
  simp only [xHalf_toBsf, zHalf_toBsf]
  induction p generalizing q with
  | nil => cases q <;> simp [antiStr]
  | cons a p ih =>
    cases q with
    | nil => simp at h
    | cons b q =>
      simp only [List.length_cons, Nat.add_right_cancel_iff] at h
      have := ih q h
      simp only [List.map_cons, dot_cons, antiStr, ← this]
      cases a <;> cases b <;> simp [P1.xBit, P1.zBit, P1.anti]

/-- symmetric -/
theorem bsp_symm (a b : BVec) (h : a.length = b.length) (he : a.length % 2 = 0) : bsp a b = bsp b a := by
  rw [bsp_halves a b h he, bsp_halves b a h.symm (h ▸ he), dot_comm (zHalf a), dot_comm (xHalf a), Bool.xor_comm]

/-- additive in the left argument (bilinearity over GF(2), part 1) -/
theorem bsp_add_left (a b c : BVec) (h : a.length = b.length) (h2 : a.length = c.length)
    (he : a.length % 2 = 0) : bsp (xorV a b) c = xor (bsp a c) (bsp b c) := by
  have hl : (xorV a b).length = a.length := xorV_length a b h
  rw [bsp_halves _ c (hl.trans h2) (hl ▸ he), bsp_halves a c h2 he, bsp_halves b c (h ▸ h2) (h ▸ he),
    xHalf_xorV a b h, zHalf_xorV a b h,
    dot_xorV_left _ _ _ (by rw [zHalf_length, zHalf_length, h]),
    dot_xorV_left _ _ _ (by rw [xHalf_length, xHalf_length, h])]
  cases dot (zHalf a) (xHalf c) <;> cases dot (zHalf b) (xHalf c) <;> cases dot (xHalf a) (zHalf c) <;>
    cases dot (xHalf b) (zHalf c) <;> rfl

/-- additive in the right argument (bilinearity, part 2) -/
theorem bsp_add_right (a b c : BVec) (h : b.length = c.length) (h2 : a.length = b.length)
    (he : a.length % 2 = 0) : bsp a (xorV b c) = xor (bsp a b) (bsp a c) := by
  have hl : (xorV b c).length = b.length := xorV_length b c h
  rw [bsp_symm a _ (by rw [hl, h2]) he, bsp_add_left b c a h h2.symm (h2 ▸ he),
    bsp_symm b a h2.symm (h2 ▸ he), bsp_symm c a (h ▸ h2.symm) (by rw [← h, ← h2]; exact he)]

/-- a Pauli commutes with itself -/
theorem bsp_self (a : BVec) (he : a.length % 2 = 0) : bsp a a = false := by
  rw [bsp_halves a a rfl he, dot_comm]; simp

/-- matrix·matrix form: entry (i,j) is the vector form on row i and row j -/
theorem bspMat_entry (A B : List BVec) (i j : Nat) (hi : i < A.length) (hj : j < B.length) :
    ((bspMat A B)[i]?.bind (·[j]?)) = some (bsp A[i] B[j]) := by
  simp [bspMat, hi, hj]

/-- vector·matrix form (`synd`): entry j is the vector form against row j; and the matrix form
    is the row-wise vector·matrix form -/
theorem synd_entry (M : List BVec) (e : BVec) (j : Nat) (hj : j < M.length) :
    (synd M e)[j]? = some (bsp e M[j]) := by
  simp [synd, hj]
theorem bspMat_rows (A B : List BVec) : bspMat A B = A.map (synd B) := rfl

/-- syndromes are additive: `synd S (e₁ ⊕ e₂) = synd S e₁ ⊕ synd S e₂` -/
theorem synd_add (M : List BVec) (a b : BVec) (h : a.length = b.length) (he : a.length % 2 = 0)
    (hM : ∀ r ∈ M, r.length = a.length) : synd M (xorV a b) = xorV (synd M a) (synd M b) := by
  induction M with
  | nil => simp [synd, xorV]
  | cons r M ih =>
    have hr := hM r (by simp)
    have := ih (fun r' h' => hM r' (by simp [h']))
    simp only [synd, xorV, List.map_cons, List.zipWith_cons_cons] at this ⊢
    have hb := bsp_add_left a b r h hr.symm he
    simp only [xorV] at hb
    rw [this, hb]

/-- weight of the bsf = number of non-identity tensor factors -/
theorem bsfWt_toBsf (p : PStr) : bsfWt (toBsf p) = pauliWt p := by
  unfold bsfWt pauliWt
  rw [xHalf_toBsf, zHalf_toBsf]
  induction p with
  | nil => rfl
  | cons a p ih =>
    simp only [List.map_cons, List.zipWith_cons_cons, List.countP_cons, ih]
    cases a <;> simp [P1.xBit, P1.zBit]

/-- matrix weight is the sum of row weights -/
theorem bsfWtMat_eq (A : List BVec) : bsfWtMat A = (A.map bsfWt).sum := rfl

/-- **ipauli**: for `lo ≤ hi ≤ n` the iterator yields exactly the strings of length n whose
    weight lies in `[lo, hi]`, each exactly once, in non-decreasing weight. -/
theorem ipauli_complete_nodup_sorted (n lo hi : Nat) (h : lo ≤ hi ∧ hi ≤ n) :
    ∃ l, ipauli n lo hi = some l ∧
      (∀ p : PStr, p ∈ l ↔ (p.length = n ∧ lo ≤ pauliWt p ∧ pauliWt p ≤ hi)) ∧
      l.Nodup ∧ l.Pairwise (fun p q => pauliWt p ≤ pauliWt q) :=
  ipauli_spec n lo hi h

/-- the assertion fails exactly outside `lo ≤ hi ≤ n` -/
theorem ipauli_none_iff (n lo hi : Nat) : ipauli n lo hi = none ↔ ¬ (lo ≤ hi ∧ hi ≤ n) := by
  unfold ipauli; split <;> simp_all

/-- the iterator's length: Σ_{w=lo}^{hi} C(n,w)·3^w -/
theorem ipauli_length (n lo hi : Nat) (h : lo ≤ hi ∧ hi ≤ n) :
    ∃ l, ipauli n lo hi = some l ∧
      l.length = ((List.range (hi + 1 - lo)).map fun i => Nat.choose n (lo + i) * 3 ^ (lo + i)).sum :=
  ipauli_length_spec n lo hi h

/-- ibsf is ipauli mapped through the (injective) conversion -/
theorem ibsf_eq (n lo hi : Nat) : ibsf n lo hi = (ipauli n lo hi).map (·.map toBsf) := rfl

/-- **pack/unpack round trip** for every binary array of every length (0 and non-multiples of 8
    included); the packed length field is the array length and there are ⌈len/8⌉ bytes. -/
theorem unpack_pack (b : BVec) : unpack (pack b) = b := unpack_pack_spec b
theorem pack_length (b : BVec) : (pack b).2 = b.length ∧ (pack b).1.length = (b.length + 7) / 8 :=
  pack_length_spec b
theorem pack_bytes_lt (b : BVec) : ∀ v ∈ (pack b).1, v < 256 := pack_bytes_lt_spec b

/-! non-vacuity -/
example : bsp (toBsf [.X, .I, .Z, .I, .Y]) (toBsf [.Z, .Z, .X, .I, .X]) = true := by decide
example : antiStr [.X, .I, .Z, .I, .Y] [.Z, .Z, .X, .I, .X] = true := by decide
example : (ipauli 2 0 1) = some [[.I,.I],[.X,.I],[.Z,.I],[.Y,.I],[.I,.X],[.I,.Z],[.I,.Y]] := by decide
example : unpack (pack [true,false,true,false,false,false,false,false,true]) =
    [true,false,true,false,false,false,false,false,true] := by decide

end Qec.C09
