/-
  C10 — untruncated tensor-network decoders are maximum-likelihood decoders: the SPEC side.

  The decoders compute (in floats / mpmath) what `Model/Coset.lean` defines exactly; the harness compares the two
  numerically on every run.  The theorems below are about the exact quantity only: they say that what the decoders
  are compared with really is "the total probability of each logical coset consistent with the syndrome", that these
  cosets exhaust the syndrome class, that the choice of the sample recovery is immaterial, and that picking an arg-max
  coset is the optimal decoding rule.  The scalar type is any commutative semiring (ordered where an order is needed),
  so the statements cover `Rat` (probabilities) and `Int` (the numerators the driver computes with).

  Facts about the code itself (independence, commutation, normaliser = ⟨S, L⟩) belong to C07 and enter as the named
  hypotheses of `CodeSpec` (`h_indep`, `h_comm`, `h_norm`).
-/
import QecVerif.Lemmas.Coset
import QecVerif.Props.C10.Network
import Mathlib.Algebra.Order.Ring.Rat
import Mathlib.Tactic.NormNum
namespace Qec.C10
open Qec Qec.Coset

/-- the fold enumerates exactly the XOR-combinations of the generators: `2^|S|` entries, and each group element
    exactly once when the generators are independent -/
theorem spanEnum_spec (m : Nat) (S : List BVec) :
    (∀ x : BVec, x ∈ spanEnum m S ↔ ∃ c : List Bool, c.length = S.length ∧ x = xorComb m c S) ∧
    (spanEnum m S).length = 2 ^ S.length ∧
    (AllLen m S → LinIndep m S → (spanEnum m S).Nodup) :=
  ⟨mem_spanEnum_iff m S, spanEnum_length m S, fun h1 h2 => spanEnum_nodup h1 h2⟩

/-- the errors with the syndrome of `f` are, without repetition, exactly the elements `f·ℓ·g` of the `4^k` cosets
    (`ℓ` in the span of the logicals, `g` in the stabilizer group) -/
theorem syndrome_class_is_union_of_cosets {m : Nat} {S L : List BVec} (hC : CodeSpec m S L) {f : BVec}
    (hf : f.length = m) :
    List.Perm ((spanEnum m (L ++ S)).map (xorV f)) ((allVecs m).filter fun e => synd S e == synd S f) ∧
    ((spanEnum m (L ++ S)).map (xorV f)).Nodup ∧
    (∀ x ∈ spanEnum m (L ++ S), ∃ l ∈ spanEnum m L, ∃ g ∈ spanEnum m S, x = xorV l g) := by
  have hp := coset_perm_syndrome_class hC.even hC.lenS (hC.lenL.append hC.lenS) hC.h_indep hC.h_comm hC.h_norm hf
  exact ⟨hp, hp.nodup_iff.mpr ((allVecs_nodup m).filter _),
    fun x hx => spanEnum_append_decomp L S hC.lenL hC.lenS hx⟩

/-- the coset probabilities of the `4^k` logical cosets consistent with a syndrome sum to `Pr(syndrome)`,
    the total probability of all errors with that syndrome -/
theorem cosets_partition {α : Type} [CommSemiring α] (d : Dist α) {m : Nat} {S L : List BVec}
    (hC : CodeSpec m S L) {f : BVec} (hf : f.length = m) :
    (cosetProbsAll d S L f).sum = syndProb d S m (synd S f) := by
  rw [← sum_cosets_eq_syndProb d hC.even hC.lenS hC.lenL hC.h_indep hC.h_comm hC.h_norm hf]
  unfold cosetProbsAll
  rw [hf]
  congr 1
  apply List.map_congr_left
  intro l hl
  rw [cosetProb_eq_M, xorV_len hf (spanEnum_len hC.lenL l hl)]

/-- a different sample recovery with the same syndrome only permutes the cosets -/
theorem coset_indep_of_sample {α : Type} [CommSemiring α] (d : Dist α) {m : Nat} {S L : List BVec}
    (hC : CodeSpec m S L) {f f' : BVec} (hf : f.length = m) (hf' : f'.length = m) (hs : synd S f' = synd S f) :
    ∃ l0 ∈ spanEnum m L, ∀ l : BVec, l.length = m →
      cosetProb d S (xorV f' l) = cosetProb d S (xorV f (xorV l0 l)) := by
  obtain ⟨l0, hl0, h⟩ := cosetProbM_other_sample d hC hf hf' hs
  refine ⟨l0, hl0, fun l hl => ?_⟩
  have h0 := spanEnum_len hC.lenL l0 hl0
  rw [cosetProb_eq_M, cosetProb_eq_M, xorV_len hf' hl, xorV_len hf (xorV_len h0 hl)]
  exact h l hl

/-- a coset probability is non-negative -/
theorem cosetProb_nonneg {α : Type} [CommSemiring α] [PartialOrder α] [IsOrderedRing α] {d : Dist α}
    (hd : d.Nonneg) (S : List BVec) (f : BVec) : 0 ≤ cosetProb d S f :=
  cosetProbM_nonneg hd _ S f

/-- maximum-likelihood decoding is optimal: a decoder `dML` that returns, for every syndrome, a recovery carrying that
    syndrome whose coset probability is maximal among all recoveries carrying it, has success probability (total
    probability of the errors it corrects up to a stabilizer) at least that of ANY function `dec` of the syndrome -/
theorem ml_optimal {α : Type} [CommSemiring α] [PartialOrder α] [IsOrderedRing α] {d : Dist α} (hd : d.Nonneg)
    {m : Nat} {S : List BVec} (hm : m % 2 = 0) (hS : AllLen m S) (h_indep : LinIndep m S)
    (h_comm : ∀ a ∈ S, synd S a = zeros S.length)
    (dec dML : BVec → BVec) (hdec : ∀ s, (dec s).length = m) (hMLlen : ∀ s, (dML s).length = m)
    (hMLs : ∀ e : BVec, e.length = m → synd S (dML (synd S e)) = synd S e)
    (hMLmax : ∀ r : BVec, r.length = m → cosetProb d S r ≤ cosetProb d S (dML (synd S r))) :
    successProb d S m dec ≤ successProb d S m dML := by
  refine successProb_le_of_argmax hm hS h_indep h_comm hd dec dML hdec hMLlen hMLs (fun r hr => ?_)
  have := hMLmax r hr
  rwa [cosetProb_eq_M, cosetProb_eq_M, hr, hMLlen] at this

/-- … in particular the decoders' rule: take any sample recovery `sample s` carrying the syndrome and multiply it by a
    logical `lstar s` whose coset `sample·lstar·G` has the largest probability among the `4^k` cosets -/
theorem ml_optimal_of_argmax {α : Type} [CommSemiring α] [PartialOrder α] [IsOrderedRing α] {d : Dist α}
    (hd : d.Nonneg) {m : Nat} {S L : List BVec} (hC : CodeSpec m S L)
    (sample lstar : BVec → BVec) (hsl : ∀ s, (sample s).length = m)
    (hss : ∀ e : BVec, e.length = m → synd S (sample (synd S e)) = synd S e)
    (hstar : ∀ s, lstar s ∈ spanEnum m L)
    (hmax : ∀ s, ∀ l ∈ spanEnum m L,
      cosetProb d S (xorV (sample s) l) ≤ cosetProb d S (xorV (sample s) (lstar s)))
    (dec : BVec → BVec) (hdec : ∀ s, (dec s).length = m) :
    successProb d S m dec ≤ successProb d S m (fun s => xorV (sample s) (lstar s)) := by
  have hLl := spanEnum_len hC.lenL
  have hcommS : ∀ a ∈ S, synd S a = zeros S.length := fun a ha => hC.h_comm a (by simp [ha])
  have hcommL : ∀ a ∈ L, synd S a = zeros S.length := fun a ha => hC.h_comm a (by simp [ha])
  have hzL := synd_span_zero hC.even hC.lenS hC.lenL hcommL
  have hsyn : ∀ s, synd S (xorV (sample s) (lstar s)) = synd S (sample s) := fun s => by
    rw [C09.synd_add S _ _ ((hsl s).trans (hLl _ (hstar s)).symm) (by rw [hsl]; exact hC.even)
      (fun r hr => (hC.lenS r hr).trans (hsl s).symm), hzL _ (hstar s),
      xorV_zeros_right _ _ (synd_length S _)]
  refine ml_optimal hd hC.even hC.lenS hC.h_indep.of_append_right hcommS dec _ hdec
    (fun s => xorV_len (hsl s) (hLl _ (hstar s))) (fun e he => ?_) (fun r hr => ?_)
  · show synd S (xorV (sample (synd S e)) (lstar (synd S e))) = synd S e
    rw [hsyn, hss e he]
  · -- r and `sample (synd r)` carry the same syndrome: r lies in one of the cosets of the sample
    have hs' : synd S r = synd S (sample (synd S r)) := (hss r hr).symm
    obtain ⟨l0, hl0, h⟩ := coset_indep_of_sample d hC (hsl (synd S r)) hr hs'
    have h0 := h (zeros m) (zeros_length m)
    rw [xorV_zeros_right m r hr, xorV_zeros_right m l0 (hLl l0 hl0)] at h0
    rw [h0]
    exact hmax _ l0 hl0

/-- the model's `argMax` (hence `mlClass`) returns the index of a maximal entry -/
theorem argMax_is_max {α : Type} [LinearOrder α] (l : List α) (h : l ≠ []) :
    ∃ hlt : argMax l < l.length, ∀ b ∈ l, b ≤ l[argMax l] :=
  argMax_spec l h

/-- a coset probability is at most 1 (for a probability distribution and independent generators): it is a sum over
    distinct errors, and all `4^n` errors together have probability `(pI+pX+pY+pZ)^n = 1` -/
theorem cosetProb_le_one {α : Type} [CommSemiring α] [PartialOrder α] [IsOrderedRing α] {d : Dist α}
    (hd : d.Nonneg) (hsum : d.pI + d.pX + d.pY + d.pZ = 1) {n : Nat} {S : List BVec} (hS : AllLen (2 * n) S)
    (h_indep : LinIndep (2 * n) S) {f : BVec} (hf : f.length = 2 * n) : cosetProb d S f ≤ 1 := by
  have := cosetProbM_le_total hd hS h_indep hf
  rwa [sum_weight_allVecs, hsum, one_pow, ← hf, ← cosetProb_eq_M] at this

/-- the total probability of all errors is `(pI+pX+pY+pZ)^n` — hence the syndrome probabilities sum to 1 -/
theorem total_probability {α : Type} [CommSemiring α] (d : Dist α) (n : Nat) :
    ((allVecs (2 * n)).map (weight d)).sum = (d.pI + d.pX + d.pY + d.pZ) ^ n :=
  sum_weight_allVecs d n

/-- the planar Y decoder's quantity: for pure-Y noise (`pX = pZ = 0`) the sum over the Y-only elements of a coset is
    the full coset probability -/
theorem yCosetProb_eq_cosetProb {α : Type} [CommSemiring α] (d : Dist α) (hX : d.pX = 0) (hZ : d.pZ = 0) {m : Nat}
    (hm : m % 2 = 0) {S : List BVec} (hS : AllLen m S) {f : BVec} (hf : f.length = m) :
    yCosetProb d S f = cosetProb d S f :=
  yCosetProb_eq d hX hZ hm hS hf

/-- homogeneity (what lets the driver work with the integer numerators `a = D·p` of the four floats): scaling the
    distribution by `c` scales every coset sum by `c^n` -/
theorem cosetProb_scale {α : Type} [CommSemiring α] (c : α) (d : Dist α) (n : Nat) {S : List BVec}
    (hS : AllLen (2 * n) S) {f : BVec} (hf : f.length = 2 * n) :
    cosetProb (d.scale c) S f = c ^ n * cosetProb d S f := by
  rw [cosetProb_eq_M, cosetProb_eq_M, hf]
  exact cosetProbM_scale c d n hS hf

/-! ### non-vacuity: the hypotheses hold for a concrete code and distribution
    (the [[3,1]] phase-repetition-like code  S = ⟨ZZI, IZZ⟩,  X̄ = XXX,  Z̄ = ZII;  bsf = x-bits ++ z-bits) -/

def exS3 : List BVec := [[false, false, false, true, true, false], [false, false, false, false, true, true]]
def exL3 : List BVec := [[true, true, true, false, false, false], [false, false, false, true, false, false]]
def exD3 : Dist Rat := ⟨17/20, 1/20, 1/25, 3/50⟩

theorem ex_codeSpec : CodeSpec 6 exS3 exL3 where
  even := by decide
  lenS := by unfold AllLen; decide
  lenL := by unfold AllLen; decide
  h_indep := by
    intro c hc hz
    have key : ∀ c ∈ allVecs 4, xorComb 6 c (exL3 ++ exS3) = zeros 6 → c = List.replicate 4 false := by decide
    exact key c ((mem_allVecs 4 c).mpr hc) hz
  h_comm := by decide
  h_norm := by
    intro e he hz
    have key : ∀ e ∈ allVecs 6, synd exS3 e = zeros 2 → e ∈ spanEnum 6 (exL3 ++ exS3) := by decide
    exact key e ((mem_allVecs 6 e).mpr he) hz

example : (cosetProbsAll exD3 exS3 exL3 [true, false, false, false, false, true]).sum
    = syndProb exD3 exS3 6 (synd exS3 [true, false, false, false, false, true]) :=
  cosets_partition exD3 ex_codeSpec rfl

example : exD3.Nonneg ∧ exD3.pI + exD3.pX + exD3.pY + exD3.pZ = 1 := by
  refine ⟨⟨?_, ?_, ?_, ?_⟩, ?_⟩ <;> norm_num [exD3]

example : synd exS3 [true, false, false, false, false, true] ≠ zeros 2 := by decide

/-
NETWORK SIDE: `factor_graph_identity` (generic) and `planar_tn_exact_value` / `planar_tn_value` / `planar_tn_value_rl` /
`planar_tn_value_transposed` (the planar MPS decoder's network, all sizes) are PROVED in Props/C10/Network.lean.

The networks of the other four tensor-network decoders are modelled and PROVED too (audit: an earlier version of this
comment listed them as "not modelled"), each for all accepted sizes, all distributions, all samples, every mode:
* PlanarRMPSDecoder — Props/C10/PlanarRmpsNetwork.lean `planarRmps_tn_exact_value`, `planarRmps_tn_value` (`_rl`,
  `_transposed`), `planarRmps_optimized_value` (`_tn_contract_optimized` returns `cosetProb` of its four samples);
  Props/C10/PlanarRmpsLogicals.lean `planarRmps_diag_logical_x` / `_z`, `planarRmps_coset_values` (the diagonal logicals
  name the code's cosets: the four values are `cosetProbs4`);
* RotatedPlanarMPSDecoder — Props/C10/RotatedPlanarNetwork.lean `rotated_planar_tn_exact_value`, `rotated_planar_tn_value`
  (`_rl`, `_transposed`), `rotated_planar_tn_coset_values`; Props/C10/RotatedPlanarShared.lean
  `rotated_planar_tn_coset_values_c` / `_r` / `_a`;
* RotatedPlanarRMPSDecoder — Props/C10/RotatedPlanarRmpsNetwork.lean `rotated_planar_rmps_tn_exact_value`,
  `rotated_planar_rmps_tn_value` (`_rl`, `_transposed`), `rotated_planar_rmps_tn_decoder_value`,
  `rotated_planar_rmps_tn_coset_values`; Props/C10/RotatedPlanarRmpsShared.lean `rotated_planar_rmps_coset_values_c` /
  `_r` / `_a` (shared bra);
* Color666MPSDecoder — Props/C10/Color666Network.lean `color666_tn_exact_value`, `color666_tn_value`;
  Props/C10/Color666Values.lean `color666_tn_variant_value`, `color666_tn_values` (shared ket);
* PlanarMPSDecoder's shared-bra procedure — Props/C10/PlanarShared.lean `planar_tn_coset_values_c` / `_r` / `_a`;
* agreement of independently constructed networks (standard vs rotated, by column vs by row) —
  Props/C10/Agreement.lean `planar_rmps_modes_agree`, `planar_mps_rmps_agree`, `rotated_planar_mps_rmps_agree`;
* `CodeSpec` discharged for every family (and the ML theorems without code hypotheses) — Props/C10/Instances.lean.

STATED, NOT PROVED (exact-arithmetic side): nothing.  GENUINELY OPEN (not theorems, explored by the harness):

* "the real decoders' float / mpf results equal cosetProb" is not a theorem at all: it is explored numerically on every
  run by harness/qv/props/c10.py (relative 1e-11), see LEVEL note there; likewise truncation (`chi`, `tol`), the `stp`
  mask, and the `except` fall-back to 0.0 (never reached by the models: the theorems show they return `ok`).
* the final step `decode` = sample · (arg-max logical) is modelled (`Coset.argMax`, `argMax_is_max`,
  `ml_optimal_of_argmax`) on exact values; ties "within numerical tolerance" are excluded by the property itself.
-/

end Qec.C10
