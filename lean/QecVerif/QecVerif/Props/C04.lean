/-
  C04 — Run loop stops exactly on its limits and aggregates are the fold of the runs.
  Theorems about `Model/RunLoop.lean` (model of `qecsim.app._run`).  One run's outcome is a
  universally quantified input; `outs` is the (finite prefix of the) outcome history.
-/
import QecVerif.Model.RunLoop
import QecVerif.Lemmas.RunLoop
namespace Qec.C04
open Qec

/-- failures among the first `j` runs -/
def failsIn (outs : List RunOut) (j : Nat) : Nat := (outs.take j).countP (fun o => !o.success)

/-- a limit is reached after `j` runs -/
def Hit (mr mf : Option Nat) (outs : List RunOut) (j : Nat) : Prop :=
  (∃ r, mr = some r ∧ r ≤ j) ∨ (∃ f, mf = some f ∧ f ≤ failsIn outs j)

def shapeOf (v : Option (List Int)) : Option Nat := v.map List.length

/-- the first `N` runs have arrays of the same presence and length as run 1 -/
def Consistent (outs : List RunOut) (N : Nat) : Prop :=
  ∀ i, i < N → ∀ o o0, outs[i]? = some o → outs[0]? = some o0 →
    shapeOf o.lc = shapeOf o0.lc ∧ shapeOf o.cv = shapeOf o0.cv

/-- `Hit` is exactly "the `while` guard is false" at the counters after `j` runs -/
private theorem hit_iff_guardN (mr mf : Option Nat) (outs : List RunOut) (j : Nat) :
    Hit mr mf outs j ↔
      guardN mr mf j ((outs.take j).countP (fun o => !o.success)) = false :=
  (guardN_eq_false_iff mr mf j _).symm

private theorem not_hit_of_guardN {mr mf : Option Nat} {outs : List RunOut} {j : Nat}
    (h : guardN mr mf j ((outs.take j).countP (fun o => !o.success)) = true) :
    ¬ Hit mr mf outs j := by
  intro hh
  rw [(hit_iff_guardN mr mf outs j).mp hh] at h
  cases h

/-- **exact stopping index**: when the loop returns, the number of runs performed is the *least*
    index at which a limit is reached — not one fewer (a limit is reached there), not one more (no
    limit was reached at any earlier index). -/
theorem stop_exact (mr mf : Option Nat) (outs : List RunOut) (s : LoopState)
    (h : runLoop mr mf outs = .ok s) :
    Hit (effectiveMaxRuns mr mf) mf outs s.nRun ∧
    (∀ j, j < s.nRun → ¬ Hit (effectiveMaxRuns mr mf) mf outs j) ∧ s.nRun ≤ outs.length := by
  obtain ⟨hle, hinv, hg, hhist⟩ := runLoop_ok h
  refine ⟨?_, ?_, hle⟩
  · rw [hinv.nFail] at hg
    exact (hit_iff_guardN _ _ _ _).mpr hg
  · intro j hj
    exact not_hit_of_guardN (hhist j hj)

/-- for limits ≥ 1 the limit that stops the loop is met with equality: `n_run = max_runs` or
    `n_fail = max_failures` -/
theorem stop_reaches_limit (mr mf : Option Nat) (outs : List RunOut) (s : LoopState)
    (h : runLoop mr mf outs = .ok s)
    (hr : ∀ r, effectiveMaxRuns mr mf = some r → 1 ≤ r) (hf : ∀ f, mf = some f → 1 ≤ f) :
    effectiveMaxRuns mr mf = some s.nRun ∨ mf = some s.nFail := by
  obtain ⟨hhit, hno, _⟩ := stop_exact mr mf outs s h
  obtain ⟨_, hinv, _, _⟩ := runLoop_ok h
  have hfail : s.nFail = failsIn outs s.nRun := hinv.nFail
  have h1 : 1 ≤ s.nRun := by
    rcases Nat.eq_zero_or_pos s.nRun with h0 | h0
    · exfalso
      rw [h0] at hhit
      rcases hhit with ⟨r, hr1, hr2⟩ | ⟨f, hf1, hf2⟩
      · have := hr r hr1; omega
      · have := hf f hf1
        simp [failsIn] at hf2
        omega
    · exact h0
  have hprev := hno (s.nRun - 1) (by omega)
  rcases hhit with ⟨r, hr1, hr2⟩ | ⟨f, hf1, hf2⟩
  · left
    have : ¬ r ≤ s.nRun - 1 := fun hle => hprev (Or.inl ⟨r, hr1, hle⟩)
    have : r = s.nRun := by omega
    rw [hr1, this]
  · right
    have h2 : ¬ f ≤ failsIn outs (s.nRun - 1) := fun hle => hprev (Or.inr ⟨f, hf1, hle⟩)
    have h3 : failsIn outs s.nRun ≤ failsIn outs (s.nRun - 1) + 1 := by
      have := countP_take_succ_le (fun o : RunOut => !o.success) outs (s.nRun - 1)
      rw [Nat.sub_add_cancel h1] at this
      exact this
    have : f = s.nFail := by omega
    rw [hf1, this]

/-- exactly one run if neither limit is given -/
theorem default_single_run (outs : List RunOut) : runLoop none none outs = runLoop (some 1) none outs := by
  rfl
theorem default_single_run_count (outs : List RunOut) (s : LoopState)
    (h : runLoop none none outs = .ok s) : s.nRun = 1 := by
  obtain ⟨hhit, hno, _⟩ := stop_exact none none outs s h
  have h1 : 1 ≤ s.nRun := by
    rcases hhit with ⟨r, hr, hle⟩ | ⟨f, hf, _⟩
    · have : r = 1 := by simpa [effectiveMaxRuns] using hr.symm
      omega
    · cases hf
  rcases Nat.lt_or_ge 1 s.nRun with h2 | h2
  · exact absurd (Or.inl ⟨1, rfl, Nat.le_refl _⟩) (hno 1 h2)
  · omega

/-- if no limit is reached within the history the loop keeps asking for runs (non-termination of
    the real loop, e.g. `max_failures` with a decoder that never fails) -/
theorem needMore_iff (mr mf : Option Nat) (outs : List RunOut)
    (h : runLoop mr mf outs = .error .needMore) :
    ∀ j, j ≤ outs.length → ¬ Hit (effectiveMaxRuns mr mf) mf outs j := by
  intro j hj
  exact not_hit_of_guardN (runLoop_needMore h j hj)

/-- with consistent arrays and a limit reached within the history the loop terminates normally -/
theorem terminates (mr mf : Option Nat) (outs : List RunOut)
    (hc : Consistent outs outs.length)
    (hhit : ∃ j, j ≤ outs.length ∧ Hit (effectiveMaxRuns mr mf) mf outs j) :
    ∃ s, runLoop mr mf outs = .ok s := by
  cases hres : runLoop mr mf outs with
  | ok s => exact ⟨s, rfl⟩
  | error e =>
    exfalso
    obtain ⟨j, hj, hhit⟩ := hhit
    cases e with
    | needMore => exact needMore_iff mr mf outs hres j hj hhit
    | mismatchLc r =>
      obtain ⟨k, o, o0, _, _, hklt, hk, h0, _, hmis, _⟩ :=
        runLoop_mismatch_spec (r := r) (Or.inl rfl) hres
      have := hc k hklt o o0 hk h0
      rcases hmis with hm | hm
      · exact hm this.1
      · exact hm this.2
    | mismatchCv r =>
      obtain ⟨k, o, o0, _, _, hklt, hk, h0, _, hmis, _⟩ :=
        runLoop_mismatch_spec (r := r) (Or.inr rfl) hres
      have := hc k hklt o o0 hk h0
      rcases hmis with hm | hm
      · exact hm this.1
      · exact hm this.2

/-- the result depends only on the runs actually performed -/
theorem result_ignores_later_runs (mr mf : Option Nat) (outs other : List RunOut) (s : LoopState)
    (h : runLoop mr mf outs = .ok s) : runLoop mr mf (outs.take s.nRun ++ other) = .ok s := by
  obtain ⟨k, _, hn, hall⟩ := loopFrom_prefix h
  have : s.nRun = k := by rw [hn]; exact Nat.zero_add k
  rw [this]
  exact hall other

/-- **counts are the fold of the runs**: each run counted once by its success flag -/
theorem counts_are_fold (mr mf : Option Nat) (outs : List RunOut) (s : LoopState)
    (h : runLoop mr mf outs = .ok s) :
    s.nSuccess = (outs.take s.nRun).countP (fun o => o.success) ∧
    s.nFail = (outs.take s.nRun).countP (fun o => !o.success) ∧
    s.nRun = s.nSuccess + s.nFail ∧
    s.weights = (outs.take s.nRun).map (·.errorWeight) := by
  obtain ⟨hle, hinv, _, _⟩ := runLoop_ok h
  refine ⟨hinv.nSuccess, hinv.nFail, ?_, hinv.weights⟩
  rw [hinv.nSuccess, hinv.nFail, countP_success_add, List.length_take, Nat.min_eq_left hle]

/-- **array totals are element-wise sums** (or `None` when absent in every run) -/
theorem lc_is_sum (mr mf : Option Nat) (outs : List RunOut) (s : LoopState)
    (h : runLoop mr mf outs = .ok s) (h1 : 1 ≤ s.nRun) :
    (s.lcSum = none → ∀ o ∈ outs.take s.nRun, o.lc = none) ∧
    (∀ v, s.lcSum = some v →
      (∀ o ∈ outs.take s.nRun, ∃ w, o.lc = some w ∧ w.length = v.length) ∧
      ∀ i, i < v.length → v[i]? = some (((outs.take s.nRun).map fun o => (o.lc.getD []).getD i 0).sum)) := by
  have _ := h1
  exact (runLoop_ok h).2.1.lc.spec
theorem cv_is_sum (mr mf : Option Nat) (outs : List RunOut) (s : LoopState)
    (h : runLoop mr mf outs = .ok s) (h1 : 1 ≤ s.nRun) :
    (s.cvSum = none → ∀ o ∈ outs.take s.nRun, o.cv = none) ∧
    (∀ v, s.cvSum = some v →
      (∀ o ∈ outs.take s.nRun, ∃ w, o.cv = some w ∧ w.length = v.length) ∧
      ∀ i, i < v.length → v[i]? = some (((outs.take s.nRun).map fun o => (o.cv.getD []).getD i 0).sum)) := by
  have _ := h1
  exact (runLoop_ok h).2.1.cv.spec

/-- **never mis-summed**: a normal return implies all performed runs had consistent arrays -/
theorem ok_implies_consistent (mr mf : Option Nat) (outs : List RunOut) (s : LoopState)
    (h : runLoop mr mf outs = .ok s) : Consistent outs s.nRun := by
  obtain ⟨_, hinv, _, _⟩ := runLoop_ok h
  intro i hi o o0 ho ho0
  have hm : o ∈ outs.take s.nRun := mem_take_of_getElem? ho hi
  have hm0 : o0 ∈ outs.take s.nRun := mem_take_of_getElem? ho0 (by omega)
  exact ⟨(hinv.lc.2.1 o hm).trans (hinv.lc.2.1 o0 hm0).symm,
    (hinv.cv.2.1 o hm).trans (hinv.cv.2.1 o0 hm0).symm⟩

/-- **mismatch raises at the first inconsistent run**, after which nothing more is executed -/
theorem mismatch_is_first (mr mf : Option Nat) (outs : List RunOut) (r : Nat)
    (h : runLoop mr mf outs = .error (.mismatchLc r) ∨ runLoop mr mf outs = .error (.mismatchCv r)) :
    1 ≤ r ∧ r ≤ outs.length ∧ Consistent outs (r - 1) ∧ ¬ Consistent outs r ∧
    (∀ j, j < r → ¬ Hit (effectiveMaxRuns mr mf) mf outs j) := by
  have hspec : ∃ e, (e = LoopErr.mismatchLc r ∨ e = LoopErr.mismatchCv r) ∧
      runLoop mr mf outs = .error e := by
    rcases h with h | h
    · exact ⟨_, Or.inl rfl, h⟩
    · exact ⟨_, Or.inr rfl, h⟩
  obtain ⟨e, he, h⟩ := hspec
  obtain ⟨k, o, o0, hr, hk1, hklt, hk, h0, hcons, hmis, hhist⟩ := runLoop_mismatch_spec he h
  subst hr
  refine ⟨by omega, by omega, ?_, ?_, ?_⟩
  · intro i hi o' o0' ho' ho0'
    rw [h0] at ho0'
    cases ho0'
    exact hcons o' (mem_take_of_getElem? ho' (by omega))
  · intro hc
    have := hc k (by omega) o o0 hk h0
    rcases hmis with hm | hm
    · exact hm this.1
    · exact hm this.2
  · intro j hj
    exact not_hit_of_guardN (hhist j (by omega))

/-- the aggregate's statistics are the documented functions of the fold -/
theorem aggregate_fields (n T : Nat) (s : LoopState) :
    (aggregate n T s).nRun = s.nRun ∧ (aggregate n T s).nSuccess = s.nSuccess ∧
    (aggregate n T s).nFail = s.nFail ∧ (aggregate n T s).lc = s.lcSum ∧ (aggregate n T s).cv = s.cvSum ∧
    (aggregate n T s).ewTotal = s.weights.sum ∧
    (aggregate n T s).lfr = (s.nFail : Rat) / (s.nRun : Rat) ∧
    (aggregate n T s).per = ((s.weights.sum : Nat) : Rat) / (n : Rat) / (T : Rat) / (s.nRun : Rat) ∧
    (aggregate n T s).pvar = pvariance s.weights := by
  refine ⟨rfl, rfl, rfl, rfl, rfl, sumNat_eq_sum _, rfl, ?_, rfl⟩
  simp only [aggregate, sumNat_eq_sum]

/-- `pvariance` is the population variance: mean of squares minus square of the mean -/
theorem pvariance_alt (xs : List Nat) (h : xs ≠ []) :
    pvariance xs = ((xs.map fun (x : Nat) => ((x : Rat) * (x : Rat))).sum) / (xs.length : Rat)
      - (((xs.sum : Nat) : Rat) / (xs.length : Rat)) * (((xs.sum : Nat) : Rat) / (xs.length : Rat)) := by
  exact pvariance_eq xs h

/-! non-vacuity: a 5-run history, stop on the second failure after 4 runs -/
example : (runLoop (some 10) (some 2)
    [⟨1, true, some [0,0], none⟩, ⟨2, false, some [1,0], none⟩, ⟨0, true, some [0,0], none⟩,
     ⟨3, false, some [1,1], none⟩, ⟨1, true, some [0,0], none⟩]).toOption.map (·.nRun) = some 4 := by decide
example : (runLoop (some 10) (some 2)
    [⟨1, true, some [0,0], none⟩, ⟨2, false, some [1,0], none⟩, ⟨0, true, some [0,0], none⟩,
     ⟨3, false, some [1,1], none⟩, ⟨1, true, some [0,0], none⟩]).toOption.map (·.lcSum) = some (some [2,1]) := by
  decide
example : runLoop (some 3) none [⟨1, true, some [0,0], none⟩, ⟨2, false, some [1], none⟩] =
    .error (.mismatchLc 2) := by rfl

end Qec.C04
