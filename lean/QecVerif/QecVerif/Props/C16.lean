/-
  C16 — Error-model probability distributions are valid and as documented.
  Theorems about `Model/ErrorModels.lean` (models of qecsim.models.generic: Depolarizing, BitFlip, PhaseFlip,
  BitPhaseFlip, BiasedDepolarizing, BiasedYX, CenterSlice and their constructors' argument checks).
  Everything is over exact arithmetic: ℚ for the executable model, ℝ (with `Real.sqrt`) for the biased-Y-X closed
  form.  The float evaluation is explored by the harness (harness/qv/props/c16.py), not proved.
-/
import QecVerif.Model.ErrorModels
import QecVerif.Lemmas.ErrorModels
import Mathlib.Analysis.Real.Sqrt
import Mathlib.Tactic.NormNum
namespace Qec.C16
open Qec Qec.EM

/-! ### every distribution built by `mk` sums to 1 -/

/-- `p_i = 1 - sum(...)`: whatever the three rates are, the four entries sum to 1 -/
theorem mk_sum_one (px py pz : Rat) : (mk px py pz).sum = 1 := by
  simp only [mk, Dist.sum]; ring

/-! ### simple models -/

/-- depolarizing: entries ≥ 0 for p ∈ [0,1] -/
theorem depolarizing_nonneg {p : Rat} (h0 : 0 ≤ p) (h1 : p ≤ 1) : (depolarizing p).nonneg := by
  simp only [depolarizing, mk, Dist.nonneg]
  refine ⟨by linarith, by linarith, by linarith, by linarith⟩

theorem depolarizing_sum_one (p : Rat) : (depolarizing p).sum = 1 := mk_sum_one _ _ _

/-- Pr(I) = 1 - p -/
theorem depolarizing_prI (p : Rat) : (depolarizing p).pI = 1 - p := by
  simp only [depolarizing, mk]; ring

/-- documented shape: equal thirds -/
theorem depolarizing_thirds (p : Rat) :
    (depolarizing p).pX = p / 3 ∧ (depolarizing p).pY = p / 3 ∧ (depolarizing p).pZ = p / 3 := ⟨rfl, rfl, rfl⟩

/-- bit-flip, phase-flip, bit-phase-flip: (1-p, p, 0, 0), (1-p, 0, 0, p), (1-p, 0, p, 0) -/
theorem pureFlip_shape (p : Rat) :
    bitFlip p = ⟨1 - p, p, 0, 0⟩ ∧ phaseFlip p = ⟨1 - p, 0, 0, p⟩ ∧ bitPhaseFlip p = ⟨1 - p, 0, p, 0⟩ := by
  refine ⟨?_, ?_, ?_⟩ <;> simp [bitFlip, phaseFlip, bitPhaseFlip, mk]

theorem pureFlip_nonneg {p : Rat} (h0 : 0 ≤ p) (h1 : p ≤ 1) :
    (bitFlip p).nonneg ∧ (phaseFlip p).nonneg ∧ (bitPhaseFlip p).nonneg := by
  obtain ⟨e1, e2, e3⟩ := pureFlip_shape p
  rw [e1, e2, e3]
  refine ⟨⟨?_, ?_, ?_, ?_⟩, ⟨?_, ?_, ?_, ?_⟩, ⟨?_, ?_, ?_, ?_⟩⟩ <;> simp <;> linarith

theorem pureFlip_sum_one (p : Rat) :
    (bitFlip p).sum = 1 ∧ (phaseFlip p).sum = 1 ∧ (bitPhaseFlip p).sum = 1 :=
  ⟨mk_sum_one _ _ _, mk_sum_one _ _ _, mk_sum_one _ _ _⟩

theorem pureFlip_prI (p : Rat) :
    (bitFlip p).pI = 1 - p ∧ (phaseFlip p).pI = 1 - p ∧ (bitPhaseFlip p).pI = 1 - p := by
  obtain ⟨e1, e2, e3⟩ := pureFlip_shape p
  rw [e1, e2, e3]; exact ⟨rfl, rfl, rfl⟩

/-! ### biased depolarizing (accepted parameters: bias > 0, any axis) -/

theorem biasedDepolarizing_nonneg {bias p : Rat} (ax : Axis) (hb : 0 < bias) (h0 : 0 ≤ p) (h1 : p ≤ 1) :
    (biasedDepolarizing bias ax p).nonneg := by
  have hb1 : 0 < bias + 1 := by linarith
  have hlr : 0 ≤ lowRate bias p := by unfold lowRate; positivity
  have hhr : 0 ≤ highRate bias p := by unfold highRate; positivity
  have hs : 2 * lowRate bias p + highRate bias p = p := by
    unfold lowRate highRate; field_simp; ring
  cases ax <;> simp only [biasedDepolarizing, mk, Dist.nonneg] <;>
    exact ⟨by linarith, by assumption, by assumption, by assumption⟩

theorem biasedDepolarizing_sum_one (bias : Rat) (ax : Axis) (p : Rat) :
    (biasedDepolarizing bias ax p).sum = 1 := by
  cases ax <;> exact mk_sum_one _ _ _

/-- Pr(I) = 1 - p (needs bias ≠ -1; accepted biases are positive) -/
theorem biasedDepolarizing_prI {bias : Rat} (ax : Axis) (p : Rat) (hb : 0 < bias) :
    (biasedDepolarizing bias ax p).pI = 1 - p := by
  have hb1 : bias + 1 ≠ 0 := by linarith
  have hs : 2 * lowRate bias p + highRate bias p = p := by
    unfold lowRate highRate; field_simp; ring
  cases ax <;> simp only [biasedDepolarizing, mk] <;> linarith

/-- documented shape: the rate along the axis is `bias` times the sum of the two off-axis rates, which are equal -/
theorem biased_ratio {bias : Rat} (ax : Axis) (p : Rat) (hb : 0 < bias) :
    (biasedDepolarizing bias ax p).along ax = bias * (biasedDepolarizing bias ax p).offSum ax ∧
    (biasedDepolarizing bias ax p).offSum ax = 2 * lowRate bias p := by
  have hb1 : bias + 1 ≠ 0 := by linarith
  have : highRate bias p = bias * (lowRate bias p + lowRate bias p) := by
    unfold lowRate highRate; field_simp; ring
  cases ax <;> simp only [biasedDepolarizing, mk, Dist.along, Dist.offSum] <;> exact ⟨this, by ring⟩

/-- the same as a quotient, `high / Σ low = bias`, whenever p > 0 -/
theorem biased_ratio_div {bias p : Rat} (ax : Axis) (hb : 0 < bias) (hp : 0 < p) :
    (biasedDepolarizing bias ax p).along ax / (biasedDepolarizing bias ax p).offSum ax = bias := by
  obtain ⟨h1, h2⟩ := biased_ratio ax p hb
  have hpos : 0 < lowRate bias p := by
    have : 0 < bias + 1 := by linarith
    unfold lowRate; positivity
  have hne : (biasedDepolarizing bias ax p).offSum ax ≠ 0 := by rw [h2]; linarith
  rw [h1]; field_simp

/-- special case: bias = 1/2 is the depolarizing model, for every axis -/
theorem biased_half_is_depolarizing (ax : Axis) (p : Rat) :
    biasedDepolarizing (1 / 2) ax p = depolarizing p := by
  have e1 : lowRate (1 / 2) p = p / 3 := by unfold lowRate; ring
  have e2 : highRate (1 / 2) p = p / 3 := by unfold highRate; ring
  cases ax <;> simp only [biasedDepolarizing, depolarizing, e1, e2]

/-! ### biased Y-X: the closed form with an exact square root `s` of the discriminant (ℚ) -/

theorem yxDisc_nonneg {bias p : Rat} (hb : 0 ≤ bias) (h0 : 0 ≤ p) (h1 : p ≤ 1) : 0 ≤ yxDisc bias p :=
  YX.disc_nonneg (K := Rat) hb h0 h1

/-- with any `s ≥ 0`, `s² =` discriminant, the closed form has rates in [0,1], entries ≥ 0, sum 1, Pr(I) = 1-p,
    `p_x+p_y+p_z = p`, `p_y = bias · p_x`, `p_z = r_x r_y` (all residuals of `biasedYXResidual` vanish) -/
theorem biasedYX_relations {bias p s : Rat} (hb : 0 < bias) (h0 : 0 ≤ p) (h1 : p ≤ 1) (hs0 : 0 ≤ s)
    (hs : s * s = yxDisc bias p) :
    let d := biasedYXWith bias p s
    (0 ≤ yxRateX bias p s ∧ yxRateX bias p s ≤ 1 ∧ 0 ≤ yxRateY bias p s ∧ yxRateY bias p s ≤ 1) ∧
    d.nonneg ∧ d.sum = 1 ∧ d.pI = 1 - p ∧ biasedYXResidual p bias (d.pX, d.pY, d.pZ) = (0, 0, 0) := by
  intro d
  have hne : bias ≠ 0 := hb.ne'
  have hs' : s ^ 2 = YX.disc bias p := by rw [pow_two]; exact hs
  have ex : yxRateX bias p s = YX.rateX bias p s := by simp [yxRateX, YX.rateX, hne]
  have ey : yxRateY bias p s = YX.rateY bias p s := by simp [yxRateY, YX.rateY, hne]
  have x0 := YX.rateX_nonneg hb h0 h1 hs0 hs'
  have x1 := YX.rateX_le_one hb h0 h1 hs0 hs'
  have y0 := YX.rateY_nonneg hb h0 h1 hs0 hs'
  have y1 := YX.rateY_le_one hb h0 h1 hs0 hs'
  have hsum := YX.rates_sum hb h0 h1 hs0 hs'
  have hbias := YX.rates_bias hb h0 h1 hs0 hs'
  have hd : d = ofRates (YX.rateX bias p s) (YX.rateY bias p s) := by
    show biasedYXWith bias p s = _; unfold biasedYXWith; rw [ex, ey]
  refine ⟨by rw [ex, ey]; exact ⟨x0, x1, y0, y1⟩, ?_, ?_, ?_, ?_⟩
  · rw [hd]; simp only [ofRates, mk, Dist.nonneg]
    refine ⟨by linarith, mul_nonneg x0 (by linarith), mul_nonneg y0 (by linarith), mul_nonneg x0 y0⟩
  · rw [hd]; exact mk_sum_one _ _ _
  · rw [hd]; simp only [ofRates, mk]; linarith
  · rw [hd]; simp only [ofRates, mk, biasedYXResidual]
    refine Prod.ext ?_ (Prod.ext ?_ ?_)
    · show _ - p = 0; linarith
    · show _ - bias * _ = 0; linarith
    · show _ - _ = (0 : Rat); ring

/-- the executable exact model `biasedYX?` (bias ≥ 0; answers only when the discriminant is a rational square):
    whenever it answers, the answer is a valid distribution with Pr(I) = 1-p satisfying the defining equations -/
theorem biasedYX?_valid {bias p : Rat} {d : Dist} (hb : 0 ≤ bias) (h0 : 0 ≤ p) (h1 : p ≤ 1)
    (h : biasedYX? bias p = some d) :
    d.nonneg ∧ d.sum = 1 ∧ d.pI = 1 - p ∧ biasedYXResidual p bias (d.pX, d.pY, d.pZ) = (0, 0, 0) := by
  unfold biasedYX? at h
  by_cases hz : bias = 0
  · subst hz
    simp only [if_true, Option.some.injEq] at h
    rw [← h]
    simp only [biasedYXWith, yxRateX, yxRateY, if_true, ofRates, mk, Dist.nonneg, Dist.sum, biasedYXResidual]
    refine ⟨⟨by linarith, by linarith, by simp, by simp⟩, by ring, by ring, ?_⟩
    refine Prod.ext ?_ (Prod.ext ?_ ?_) <;> simp
  · simp only [hz, if_false] at h
    cases hs : ratSqrt? (yxDisc bias p) with
    | none => simp [hs] at h
    | some s =>
      simp only [hs, Option.map_some, Option.some.injEq] at h
      obtain ⟨hs0, hss⟩ := ratSqrt?_spec hs
      have hb' : 0 < bias := lt_of_le_of_ne hb (Ne.symm hz)
      obtain ⟨_, r2, r3, r4, r5⟩ := biasedYX_relations hb' h0 h1 hs0 hss
      rw [← h]; exact ⟨r2, r3, r4, r5⟩

/-- bias = 0 (accepted): the biased-Y-X model is the bit-flip model -/
theorem biasedYX_zero_is_bitFlip (p s : Rat) : biasedYXWith 0 p s = bitFlip p := by
  simp [biasedYXWith, yxRateX, yxRateY, ofRates, bitFlip, mk]

/-- uniqueness: for bias > 0, p < 1 any non-negative (p_x,p_y,p_z) with vanishing residuals is the closed form -/
theorem biasedYX_unique {bias p s px py pz : Rat} (hb : 0 < bias) (h0 : 0 ≤ p) (h1 : p < 1) (hs0 : 0 ≤ s)
    (hs : s * s = yxDisc bias p) (hx : 0 ≤ px) (hy : 0 ≤ py) (hz : 0 ≤ pz)
    (hres : biasedYXResidual p bias (px, py, pz) = (0, 0, 0)) :
    (biasedYXWith bias p s).pX = px ∧ (biasedYXWith bias p s).pY = py ∧ (biasedYXWith bias p s).pZ = pz := by
  have hne : bias ≠ 0 := hb.ne'
  have hs' : s ^ 2 = YX.disc bias p := by rw [pow_two]; exact hs
  simp only [biasedYXResidual, Prod.mk.injEq] at hres
  obtain ⟨r1, r2, r3⟩ := hres
  have e1 : px + py + pz = p := by linarith
  have e2 : py = bias * px := by linarith
  have e3 : pz = (px + pz) * (py + pz) := by linarith
  obtain ⟨ux, uy⟩ := YX.unique hb h0 h1 hs0 hs' hx hy hz e1 e2 e3
  have ex : yxRateX bias p s = YX.rateX bias p s := by simp [yxRateX, YX.rateX, hne]
  have ey : yxRateY bias p s = YX.rateY bias p s := by simp [yxRateY, YX.rateY, hne]
  simp only [biasedYXWith, ofRates, mk, ex, ey, ← ux, ← uy]
  refine ⟨?_, ?_, ?_⟩ <;> nlinarith

/-! ### biased Y-X over ℝ: the documented closed form with `Real.sqrt` -/

/-- the code's `_rate_x`, `_rate_y` over ℝ (bias > 0 branch) -/
noncomputable def realRateX (h p : ℝ) : ℝ := 1 / 2 * (1 + h + p - h * p - Real.sqrt (-4 * p + (1 + h + p - h * p) ^ 2))
noncomputable def realRateY (h p : ℝ) : ℝ :=
  1 / (2 * h) * (1 + h - p + h * p - Real.sqrt (-4 * p + (1 + h + p - h * p) ^ 2))

/-- for every real bias h > 0 and p ∈ [0,1]: the discriminant is ≥ 0 (the square root is real), both rates lie in
    [0,1], the three error probabilities r_x(1-r_y), r_y(1-r_x), r_x r_y are ≥ 0, sum to p (so Pr(I) = 1-p ≥ 0 and
    the distribution sums to 1), and p_y = h · p_x -/
theorem biasedYX_real {h p : ℝ} (hh : 0 < h) (h0 : 0 ≤ p) (h1 : p ≤ 1) :
    0 ≤ -4 * p + (1 + h + p - h * p) ^ 2 ∧
    (0 ≤ realRateX h p ∧ realRateX h p ≤ 1 ∧ 0 ≤ realRateY h p ∧ realRateY h p ≤ 1) ∧
    (0 ≤ realRateX h p * (1 - realRateY h p) ∧ 0 ≤ realRateY h p * (1 - realRateX h p) ∧
      0 ≤ realRateX h p * realRateY h p) ∧
    realRateX h p * (1 - realRateY h p) + realRateY h p * (1 - realRateX h p) + realRateX h p * realRateY h p = p ∧
    realRateY h p * (1 - realRateX h p) = h * (realRateX h p * (1 - realRateY h p)) := by
  have hd : 0 ≤ YX.disc h p := YX.disc_nonneg hh.le h0 h1
  have hs0 : 0 ≤ Real.sqrt (YX.disc h p) := Real.sqrt_nonneg _
  have hs : Real.sqrt (YX.disc h p) ^ 2 = YX.disc h p := Real.sq_sqrt hd
  have x0 := YX.rateX_nonneg hh h0 h1 hs0 hs
  have x1 := YX.rateX_le_one hh h0 h1 hs0 hs
  have y0 := YX.rateY_nonneg hh h0 h1 hs0 hs
  have y1 := YX.rateY_le_one hh h0 h1 hs0 hs
  have ex : realRateX h p = YX.rateX h p (Real.sqrt (YX.disc h p)) := rfl
  have ey : realRateY h p = YX.rateY h p (Real.sqrt (YX.disc h p)) := rfl
  rw [ex, ey]
  refine ⟨hd, ⟨x0, x1, y0, y1⟩, ⟨mul_nonneg x0 (by linarith), mul_nonneg y0 (by linarith), mul_nonneg x0 y0⟩,
    YX.rates_sum hh h0 h1 hs0 hs, YX.rates_bias hh h0 h1 hs0 hs⟩

/-- uniqueness over ℝ (p < 1): the documented equations have exactly one non-negative solution, the closed form -/
theorem biasedYX_real_unique {h p px py pz : ℝ} (hh : 0 < h) (h0 : 0 ≤ p) (h1 : p < 1)
    (hx : 0 ≤ px) (hy : 0 ≤ py) (hz : 0 ≤ pz)
    (e1 : px + py + pz = p) (e2 : py = h * px) (e3 : pz = (px + pz) * (py + pz)) :
    px + pz = realRateX h p ∧ py + pz = realRateY h p :=
  YX.unique hh h0 h1 (Real.sqrt_nonneg _) (Real.sq_sqrt (YX.disc_nonneg hh.le h0 h1.le)) hx hy hz e1 e2 e3

/-! ### centre slice (documented domain: limit with non-negative components and one or two zeros, pos ∈ [-1,1]) -/

/-- the stored limit `_normalize(lim)` is a point of the triangle boundary -/
theorem normalize_on_boundary {lim : V3} (hl : LimOK lim) : Boundary (normalize lim) := normalize_boundary hl

/-- the negative limit exists, lies on the boundary of the triangle (entries ≥ 0, sum 1, one entry 0) and on the
    line through the limit and the centre, on the other side of the centre -/
theorem negLim_on_boundary {L : V3} (hL : Boundary L) :
    ∃ N, negLim? L = some N ∧ Boundary N ∧ Opposite L N := negLim_boundary hL

/-- the ratio is the point at |pos| between the centre (0) and the limit / negative limit (1) -/
theorem ratio_on_segment (L : V3) (pos : Rat) :
    ratio? L pos = (if pos ≥ 0 then some L else negLim? L).map
      fun l => (V3.smul (rabs pos) l).add (V3.smul (1 - rabs pos) center) := by
  unfold ratio?
  by_cases hp : pos ≥ 0
  · simp [hp]
  · simp only [hp, if_false]
    cases negLim? L <;> rfl

/-- the ratio always exists, has entries ≥ 0 and sums to 1 -/
theorem ratio_valid {lim : V3} (hl : LimOK lim) {pos : Rat} (h1 : -1 ≤ pos) (h2 : pos ≤ 1) :
    ∃ r, ratio? (normalize lim) pos = some r ∧ 0 ≤ r.x ∧ 0 ≤ r.y ∧ 0 ≤ r.z ∧ r.x + r.y + r.z = 1 := by
  obtain ⟨r, hr, ht⟩ := ratio_inTriangle (normalize_boundary hl) h1 h2
  exact ⟨r, hr, ht.x0, ht.y0, ht.z0, ht.sum1⟩

/-- the distribution is defined for every documented (lim, pos) -/
theorem slice_defined {lim : V3} (hl : LimOK lim) {pos : Rat} (h1 : -1 ≤ pos) (h2 : pos ≤ 1) (p : Rat) :
    ∃ d, centerSlice? lim pos p = some d := by
  obtain ⟨r, hr, _⟩ := ratio_valid hl h1 h2
  exact ⟨sliceOfRatio r p, by simp [centerSlice?, hr]⟩

theorem slice_sum_one {lim : V3} {pos p : Rat} {d : Dist} (h : centerSlice? lim pos p = some d) : d.sum = 1 := by
  unfold centerSlice? at h
  cases hr : ratio? (normalize lim) pos with
  | none => simp [hr] at h
  | some r => simp [hr] at h; rw [← h]; exact mk_sum_one _ _ _

/-- entries ≥ 0 — for limits with non-negative components (the hypothesis `LimOK` is what the constructor of the
    unchanged tree does NOT check: finding D4) -/
theorem slice_nonneg {lim : V3} (hl : LimOK lim) {pos p : Rat} (h1 : -1 ≤ pos) (h2 : pos ≤ 1)
    (hp0 : 0 ≤ p) (hp1 : p ≤ 1) {d : Dist} (h : centerSlice? lim pos p = some d) : d.nonneg := by
  obtain ⟨r, hr, rx, ry, rz, rs⟩ := ratio_valid hl h1 h2
  simp [centerSlice?, hr] at h
  rw [← h]; simp only [sliceOfRatio, mk, Dist.nonneg]
  refine ⟨?_, mul_nonneg rx hp0, mul_nonneg ry hp0, mul_nonneg rz hp0⟩
  have : r.x * p + r.y * p + r.z * p = p := by rw [← add_mul, ← add_mul, rs, one_mul]
  linarith

/-- Pr(I) = 1 - p and the error rates are ratio × p -/
theorem slice_prI {lim : V3} (hl : LimOK lim) {pos p : Rat} (h1 : -1 ≤ pos) (h2 : pos ≤ 1)
    {d : Dist} (h : centerSlice? lim pos p = some d) :
    d.pI = 1 - p ∧ ∃ r, ratio? (normalize lim) pos = some r ∧ d.pX = r.x * p ∧ d.pY = r.y * p ∧ d.pZ = r.z * p := by
  obtain ⟨r, hr, rx, ry, rz, rs⟩ := ratio_valid hl h1 h2
  simp [centerSlice?, hr] at h
  rw [← h]; simp only [sliceOfRatio, mk]
  refine ⟨?_, r, hr, rfl, rfl, rfl⟩
  have : r.x * p + r.y * p + r.z * p = p := by rw [← add_mul, ← add_mul, rs, one_mul]
  linarith

/-- special case: pos = 0 is the depolarizing model, for every limit -/
theorem slice_pos_zero_is_depolarizing (lim : V3) (p : Rat) :
    centerSlice? lim 0 p = some (depolarizing p) := by
  have : ratio? (normalize lim) 0 = some center := by
    simp [ratio?, rabs, V3.smul, V3.add, center]
  simp only [centerSlice?, this, Option.map_some, sliceOfRatio, depolarizing, center]
  congr 2 <;> ring

/-- special cases: a unit limit (any positive multiple of a vertex) at pos = 1 is the pure single-Pauli model -/
theorem slice_unit_limits {k : Rat} (hk : 0 < k) (p : Rat) :
    centerSlice? ⟨k, 0, 0⟩ 1 p = some (bitFlip p) ∧ centerSlice? ⟨0, k, 0⟩ 1 p = some (bitPhaseFlip p) ∧
    centerSlice? ⟨0, 0, k⟩ 1 p = some (phaseFlip p) := by
  have hk' : k ≠ 0 := hk.ne'
  have hr : rabs k = k := rabs_of_nonneg hk.le
  have r0 : rabs 0 = 0 := rabs_of_nonneg le_rfl
  have r1 : rabs 1 = 1 := rabs_of_nonneg zero_le_one
  refine ⟨?_, ?_, ?_⟩ <;>
    simp [centerSlice?, ratio?, normalize, V3.norm1, r0, r1, hr, V3.smul, V3.add, center, sliceOfRatio, bitFlip,
      bitPhaseFlip, phaseFlip, mk, hk']

/-! ### constructor domains -/

/-- BiasedDepolarizing accepts exactly: bias a numeric scalar (int / bool / float) that is finite and > 0, and axis
    one of the strings X Y Z x y z.  A non-numeric bias is a TypeError whatever the axis. -/
theorem ctor_domain_biasedDepolarizing (bias axis : PV) (q : Rat) (ax : Axis) :
    ctorBiasedDepolarizing bias axis = .ok (q, ax) ↔
      (∃ v, bias = .s v ∧ v.num? = some (.fin q) ∧ 0 < q) ∧
      (∃ s, axis = .s (.str s) ∧ axisOfString? s = some ax) := by
  constructor
  · intro h
    unfold ctorBiasedDepolarizing at h
    split at h
    · cases h
    · rename_i b
      split at h
      · cases h
      · rename_i x hx
        split at h
        · cases h
        · rename_i hc
          split at h
          · rename_i a
            split at h
            · rename_i ax' hax
              simp only [Except.ok.injEq, Prod.mk.injEq] at h
              obtain ⟨hq, hax'⟩ := h
              cases x with
              | fin r =>
                simp [Num.gt, Num.isFinite] at hc
                simp [Num.val] at hq
                exact ⟨⟨b, rfl, by rw [hx, hq], by rw [← hq]; exact hc⟩, ⟨a, rfl, by rw [hax, hax']⟩⟩
              | nan => simp [Num.gt] at hc
              | pinf => simp [Num.isFinite] at hc
              | ninf => simp [Num.gt] at hc
            · cases h
          · cases h
  · rintro ⟨⟨v, rfl, hv, hq⟩, ⟨s, rfl, hs⟩⟩
    simp [ctorBiasedDepolarizing, hv, Num.gt, Num.isFinite, hq, hs, Num.val]

/-- BiasedYX accepts exactly a numeric scalar that is finite and ≥ 0 -/
theorem ctor_domain_biasedYX (bias : PV) (q : Rat) :
    ctorBiasedYX bias = .ok q ↔ ∃ v, bias = .s v ∧ v.num? = some (.fin q) ∧ 0 ≤ q := by
  constructor
  · intro h
    unfold ctorBiasedYX at h
    split at h
    · cases h
    · rename_i b
      split at h
      · cases h
      · rename_i x hx
        split at h
        · cases h
        · rename_i hc
          simp only [Except.ok.injEq] at h
          cases x with
          | fin r =>
            simp [Num.ge, Num.isFinite] at hc
            simp [Num.val] at h
            exact ⟨b, rfl, by rw [hx, h], by rw [← h]; exact hc⟩
          | nan => simp [Num.ge] at hc
          | pinf => simp [Num.isFinite] at hc
          | ninf => simp [Num.ge] at hc
  · rintro ⟨v, rfl, hv, hq⟩
    simp [ctorBiasedYX, hv, Num.ge, Num.isFinite, hq, Num.val]

/-- CenterSlice accepts exactly: lim a sequence of three numeric scalars of which one or two are non-zero, and pos a
    finite numeric scalar in [-1,1].  (Sign and finiteness of the limit components are not checked: see
    `ctor_slice_gap`.) -/
theorem ctor_domain_centerSlice (lim pos : PV) (a : SliceArgs) :
    ctorCenterSlice lim pos = some (.ok a) ↔
      ∃ l v, lim = .seq l ∧ l.mapM PS.num? = some a.lim ∧ a.lim.length = 3 ∧
        ((a.lim.filter Num.isNonzero).length = 1 ∨ (a.lim.filter Num.isNonzero).length = 2) ∧
        pos = .s v ∧ v.num? = some (.fin a.pos) ∧ -1 ≤ a.pos ∧ a.pos ≤ 1 := by
  constructor
  · intro h
    cases lim with
    | s v => cases v <;> simp [ctorCenterSlice] at h
    | seq l =>
      cases hn : l.mapM PS.num? with
      | none => simp [ctorCenterSlice, hn] at h
      | some nums =>
        by_cases hc : nums.length = 3 ∧
            ((nums.filter Num.isNonzero).length = 1 ∨ (nums.filter Num.isNonzero).length = 2)
        · cases pos with
          | seq _ => simp [ctorCenterSlice, hn, hc] at h
          | s v =>
            cases hv : v.num? with
            | none => simp [ctorCenterSlice, hn, hc, hv] at h
            | some x =>
              cases x with
              | fin r =>
                by_cases hr : -1 ≤ r ∧ r ≤ 1
                · simp [ctorCenterSlice, hn, hc, hv, Num.ge, Num.le, hr, Num.val] at h
                  subst h
                  exact ⟨l, v, rfl, hn, hc.1, hc.2, rfl, hv, hr.1, hr.2⟩
                · have hr' : r < -1 ∨ 1 < r := by
                    by_contra hcon
                    rw [not_or, not_lt, not_lt] at hcon
                    exact hr hcon
                  simp [ctorCenterSlice, hn, hc, hv, Num.ge, Num.le, hr'] at h
              | nan => simp [ctorCenterSlice, hn, hc, hv, Num.ge, Num.le] at h
              | pinf => simp [ctorCenterSlice, hn, hc, hv, Num.ge, Num.le] at h
              | ninf => simp [ctorCenterSlice, hn, hc, hv, Num.ge, Num.le] at h
        · simp [ctorCenterSlice, hn, hc] at h
  · rintro ⟨l, v, rfl, hn, h3, hnz, rfl, hv, h1, h2⟩
    simp [ctorCenterSlice, hn, h3, hnz, hv, Num.ge, Num.le, h1, h2, Num.val]

/-- an accepted limit that lies in the documented domain (finite, non-negative) satisfies the hypothesis `LimOK`
    of the slice theorems; so for such arguments the distribution is valid for every p ∈ [0,1] -/
theorem ctor_slice_inDomain_valid {x y z : Num} {pos : Rat} (hd : limInDomain [x, y, z] = true)
    (h1 : -1 ≤ pos) (h2 : pos ≤ 1) {p : Rat} (hp0 : 0 ≤ p) (hp1 : p ≤ 1) :
    ∃ d, centerSlice? ⟨x.val, y.val, z.val⟩ pos p = some d ∧ d.nonneg ∧ d.sum = 1 ∧ d.pI = 1 - p := by
  have hl : LimOK ⟨x.val, y.val, z.val⟩ := by
    simp only [limInDomain, List.length_cons, List.length_nil, List.all_cons, List.all_nil, Bool.and_true,
      Bool.and_eq_true, decide_eq_true_eq, Bool.or_eq_true] at hd
    obtain ⟨⟨_, ⟨hx, hx0⟩, ⟨hy, hy0⟩, ⟨hz, hz0⟩⟩, hnz⟩ := hd
    refine ⟨hx0, hy0, hz0, ?_⟩
    cases x <;> simp [Num.isFinite] at hx
    cases y <;> simp [Num.isFinite] at hy
    cases z <;> simp [Num.isFinite] at hz
    rename_i a b c
    simp only [V3.nonzeros, Num.val]
    by_cases ha : a = 0 <;> by_cases hb : b = 0 <;> by_cases hc : c = 0 <;>
      simp [List.filter, Num.isNonzero, ha, hb, hc] at hnz ⊢
  obtain ⟨d, hdd⟩ := slice_defined hl h1 h2 p
  exact ⟨d, hdd, slice_nonneg hl h1 h2 hp0 hp1 hdd, slice_sum_one hdd, (slice_prI hl h1 h2 hdd).1⟩

/-! ### non-vacuity and the two gaps of the unchanged tree (findings D3 is a float matter; D4 is visible here) -/

/-- D4: the modelled constructor (as the code) accepts a limit with a negative component, which is outside the
    documented domain, and the resulting "distribution" has a negative entry and Pr(I) ≠ 1 - p -/
example : ctorCenterSlice (.seq [.int (-1), .flt (1 / 2), .int 0]) (.s (.flt (1 / 2))) =
    some (.ok ⟨[.fin (-1), .fin (1 / 2), .fin 0], 1 / 2⟩) ∧
    limInDomain [.fin (-1), .fin (1 / 2), .fin 0] = false ∧
    centerSlice? ⟨-1, 1 / 2, 0⟩ (1 / 2) (2 / 5) = some ⟨13 / 15, -1 / 15, 2 / 15, 1 / 15⟩ := by decide +kernel

example : depolarizing (3 / 10) = ⟨7 / 10, 1 / 10, 1 / 10, 1 / 10⟩ := by decide +kernel
example : biasedDepolarizing 10 .Z (11 / 100) = ⟨89 / 100, 1 / 200, 1 / 200, 1 / 10⟩ := by decide +kernel
/-- bias 3, p = 5/8: discriminant 81/16 = (9/4)², rates r_x = 1/2, r_y = 3/4 -/
example : biasedYX? 3 (5 / 8) = some ⟨3 / 8, 1 / 8, 3 / 8, 1 / 8⟩ ∧
    biasedYXResidual (5 / 8) 3 (1 / 8, 3 / 8, 1 / 8) = (0, 0, 0) := by decide +kernel
/-- limit (9,1,0)/10 at pos = -1/2: negative limit (0, 8/17, 9/17) -/
example : negLim? ⟨9 / 10, 1 / 10, 0⟩ = some ⟨0, 8 / 17, 9 / 17⟩ ∧
    centerSlice? ⟨9, 1, 0⟩ (-1 / 2) 1 = some ⟨0, 1 / 6, 41 / 102, 22 / 51⟩ := by decide +kernel
example : LimOK ⟨9, 1, 0⟩ := ⟨by decide, by decide, by decide, Or.inr (by decide)⟩
example : ctorBiasedDepolarizing (.s (.bool true)) (.s (.str "y")) = .ok (1, .Y) := by decide +kernel
example : ctorBiasedDepolarizing (.s .nan) (.s (.str "y")) = .error .value ∧
    ctorBiasedDepolarizing (.s (.str "a")) (.s (.int 3)) = .error .type ∧
    ctorBiasedYX (.s .pinf) = .error .value ∧ ctorBiasedYX (.s (.int 0)) = .ok 0 ∧
    ctorCenterSlice (.seq [.int 1, .int 1, .int 1]) (.s .none) = some (.error .value) ∧
    ctorCenterSlice (.seq [.int 1, .int 0, .int 1]) (.s .none) = some (.error .type) ∧
    ctorCenterSlice (.seq [.int 1, .int 0, .int 1]) (.s .nan) = some (.error .value) ∧
    ctorCenterSlice (.s .none) (.s (.int 0)) = some (.error .type) := by decide +kernel

end Qec.C16
