/-
  C15 (planar part) — lattice paths connect exactly their endpoints.
  Theorems about `Model/Lattice/Planar.lean` for ALL lattice sizes R, C ≥ 2 and all ordered pairs.
-/
import QecVerif.Model.Lattice.Planar
import QecVerif.Lemmas.Lattice.Planar
namespace Qec.C15.Planar
open Qec Qec.Planar

/-- an in-lattice plaquette -/
def Real (R C : Int) (a : Int × Int) : Prop := isPlaquette a.1 a.2 = true ∧ inBounds R C a.1 a.2 = true

/-- a virtual plaquette just outside the matching boundary: primal ones sit in row −1 or 2R−1 above /
    below a lattice column, dual ones in column −1 or 2C−1 beside a lattice row -/
def Virtual (R C : Int) (a : Int × Int) : Prop :=
  isPlaquette a.1 a.2 = true ∧
  ((isPrimal a.1 a.2 = true ∧ (a.1 = -1 ∨ a.1 = 2 * R - 1) ∧ 0 ≤ a.2 ∧ a.2 ≤ 2 * C - 2) ∨
   (isPrimal a.1 a.2 = false ∧ (a.2 = -1 ∨ a.2 = 2 * C - 1) ∧ 0 ≤ a.1 ∧ a.1 ≤ 2 * R - 2))

def Endpoint (R C : Int) (a : Int × Int) : Prop := Real R C a ∨ Virtual R C a

/-- the stabilizer generator of plaquette `p` as the code builds it -/
def stab (R C : Int) (p : Int × Int) : BVec :=
  sites R C (if isPrimal p.1 p.2 then P1.Z else P1.X) (identity R C) (plaquetteSites p.1 p.2)

/-- the code's plaquette index list is exactly the in-lattice plaquettes, each once -/
theorem plaquetteIndices_spec (R C : Int) (hR : 2 ≤ R) (hC : 2 ≤ C) :
    (plaquetteIndices R C).Nodup ∧ ∀ p, p ∈ plaquetteIndices R C ↔ Real R C p := by
  sorry

theorem stabilizers_eq (R C : Int) : stabilizers R C = (plaquetteIndices R C).map (stab R C) := by
  sorry

/-- **path_syndrome**: the path operator between two same-type endpoints (real or boundary-virtual)
    exists and anticommutes with a stabilizer generator `p` iff `p` is exactly one of the two
    endpoints — so: with exactly the in-lattice endpoints, with nothing when `a = b`, and with
    nothing when both are virtual. -/
theorem path_syndrome (R C : Int) (hR : 2 ≤ R) (hC : 2 ≤ C) (a b p : Int × Int)
    (ha : Endpoint R C a) (hb : Endpoint R C b) (hab : isPrimal a.1 a.2 = isPrimal b.1 b.2)
    (hp : Real R C p) :
    ∃ v, path R C (identity R C) a b = .ok v ∧
      bsp v (stab R C p) = (decide (p = a) != decide (p = b)) := by
  sorry

/-- the same, as the full syndrome vector against the code's stabilizer matrix -/
theorem path_syndrome_vector (R C : Int) (hR : 2 ≤ R) (hC : 2 ≤ C) (a b : Int × Int)
    (ha : Endpoint R C a) (hb : Endpoint R C b) (hab : isPrimal a.1 a.2 = isPrimal b.1 b.2) :
    ∃ v, path R C (identity R C) a b = .ok v ∧
      synd (stabilizers R C) v = (plaquetteIndices R C).map fun p => (decide (p = a) != decide (p = b)) := by
  sorry

/-- trivial for coincident endpoints -/
theorem path_self (R C : Int) (a : Int × Int) (ha : isPlaquette a.1 a.2 = true) :
    path R C (identity R C) a a = .ok (identity R C) := by
  sorry

/-- **path_weight**: between real plaquettes the weight is the decoders' distance |Δr|+|Δc|
    (in plaquette steps); never more when an endpoint is virtual -/
theorem path_weight_real (R C : Int) (hR : 2 ≤ R) (hC : 2 ≤ C) (a b : Int × Int)
    (ha : Real R C a) (hb : Real R C b) (hab : isPrimal a.1 a.2 = isPrimal b.1 b.2) :
    ∃ v d, path R C (identity R C) a b = .ok v ∧ distance R C a b = .ok d ∧ bsfWt v = d ∧
      (d : Int) = ((b.1 - a.1) / 2).natAbs + ((b.2 - a.2) / 2).natAbs := by
  sorry
theorem path_weight_le (R C : Int) (hR : 2 ≤ R) (hC : 2 ≤ C) (a b : Int × Int)
    (ha : Endpoint R C a) (hb : Endpoint R C b) (hab : isPrimal a.1 a.2 = isPrimal b.1 b.2) :
    ∃ v d, path R C (identity R C) a b = .ok v ∧ distance R C a b = .ok d ∧ bsfWt v ≤ d := by
  sorry

/-- **translation_spec**: the translation leads from `a` to `b` (two index units per plaquette
    step) whenever one of them is in the lattice; it is (0,0) between two virtual plaquettes; its
    length is symmetric -/
theorem translation_spec (R C : Int) (a b : Int × Int)
    (ha : isPlaquette a.1 a.2 = true) (hb : isPlaquette b.1 b.2 = true)
    (hab : isPrimal a.1 a.2 = isPrimal b.1 b.2) :
    ∃ t, translation R C a b = .ok t ∧
      ((inBounds R C a.1 a.2 = true ∨ inBounds R C b.1 b.2 = true) →
        (a.1 + 2 * t.1, a.2 + 2 * t.2) = b) ∧
      ((inBounds R C a.1 a.2 = false ∧ inBounds R C b.1 b.2 = false) → t = (0, 0)) := by
  sorry
theorem translation_symm (R C : Int) (a b : Int × Int) (t t' : Int × Int)
    (h : translation R C a b = .ok t) (h' : translation R C b a = .ok t') :
    t.1.natAbs + t.2.natAbs = t'.1.natAbs + t'.2.natAbs := by
  sorry
/-- IndexError exactly for non-plaquette indices or indices on different lattices -/
theorem translation_error_iff (R C : Int) (a b : Int × Int) :
    translation R C a b = .error .index ↔
      (isPlaquette a.1 a.2 = false ∨ isPlaquette b.1 b.2 = false ∨ isPrimal a.1 a.2 ≠ isPrimal b.1 b.2) := by
  sorry

/-- **virtual plaquette**: for a real plaquette the virtual plaquette is a `Virtual` endpoint of
    the same type in the same column (primal) / row (dual), on the nearer boundary (north / west
    preferred on ties) -/
theorem virtualPlaquette_spec (R C : Int) (hR : 2 ≤ R) (hC : 2 ≤ C) (p : Int × Int) (hp : Real R C p) :
    ∃ v, virtualPlaquette R C p.1 p.2 = .ok v ∧ Virtual R C v ∧ isPrimal v.1 v.2 = isPrimal p.1 p.2 ∧
      (isPrimal p.1 p.2 = true → v.2 = p.2 ∧ (v.1 = -1 ↔ p.1 - 1 ≤ (2 * R - 3) - p.1)) ∧
      (isPrimal p.1 p.2 = false → v.1 = p.1 ∧ (v.2 = -1 ↔ p.2 - 1 ≤ (2 * C - 3) - p.2)) := by
  sorry

/-- **plaquette_support**: the generator of plaquette `p` acts as Z (primal) / X (dual) on exactly
    the in-lattice ones of its four neighbouring sites N, S, W, E and as identity elsewhere -/
theorem plaquette_support (R C : Int) (hR : 2 ≤ R) (hC : 2 ≤ C) (p s : Int × Int)
    (hp : isPlaquette p.1 p.2 = true) (hs : isSite s.1 s.2 = true) (hsb : inBounds R C s.1 s.2 = true) :
    operatorAt R C (stab R C p) s.1 s.2 =
      if s ∈ plaquetteSites p.1 p.2 then (if isPrimal p.1 p.2 then P1.Z else P1.X) else P1.I := by
  sorry

/-- **syndrome_bit_roundtrip**: syndrome bit `i` maps back to the `i`-th plaquette index -/
theorem syndrome_bit_roundtrip (R C : Int) (i : Nat) (hi : i < (plaquetteIndices R C).length) :
    syndromeToPlaquettes R C ((List.range (plaquetteIndices R C).length).map fun j => decide (j = i)) =
      [(plaquetteIndices R C)[i]] := by
  sorry

/-! non-vacuity on a 3×5 lattice -/
example : Real 3 5 (1, 0) ∧ Real 3 5 (3, 4) ∧ Virtual 3 5 (-1, 2) ∧ Virtual 3 5 (2, 9) := by
  refine ⟨⟨by decide, by decide⟩, ⟨by decide, by decide⟩, ⟨by decide, ?_⟩, ⟨by decide, ?_⟩⟩ <;> decide
example : (path 3 5 (identity 3 5) (1, 0) (3, 4)).toOption.map (fun v => synd (stabilizers 3 5) v) =
    some ((plaquetteIndices 3 5).map fun p => (decide (p = (1, 0)) != decide (p = (3, 4)))) := by decide +kernel

end Qec.C15.Planar
