/-
  C15 (planar part) — lattice paths connect exactly their endpoints.
  Theorems about `Model/Lattice/Planar.lean` for ALL lattice sizes R, C ≥ 2 and all ordered pairs.
-/
import QecVerif.Model.Lattice.Planar
import QecVerif.Lemmas.Lattice.Planar
namespace Qec.C15.Planar
open Qec Qec.Planar

/-- an in-lattice plaquette -/
def Real (R C : Int) (a : Int × Int) : Prop := isPlaquette a.1 a.2 = true ∧ inBounds R C a.1 a.2 = true

/-- a virtual plaquette just outside the matching boundary: primal ones sit in row −1 or 2R−1 above /
    below a lattice column, dual ones in column −1 or 2C−1 beside a lattice row -/
def Virtual (R C : Int) (a : Int × Int) : Prop :=
  isPlaquette a.1 a.2 = true ∧
  ((isPrimal a.1 a.2 = true ∧ (a.1 = -1 ∨ a.1 = 2 * R - 1) ∧ 0 ≤ a.2 ∧ a.2 ≤ 2 * C - 2) ∨
   (isPrimal a.1 a.2 = false ∧ (a.2 = -1 ∨ a.2 = 2 * C - 1) ∧ 0 ≤ a.1 ∧ a.1 ≤ 2 * R - 2))

def Endpoint (R C : Int) (a : Int × Int) : Prop := Real R C a ∨ Virtual R C a

/-- the stabilizer generator of plaquette `p` as the code builds it -/
def stab (R C : Int) (p : Int × Int) : BVec :=
  sites R C (if isPrimal p.1 p.2 then P1.Z else P1.X) (identity R C) (plaquetteSites p.1 p.2)

/-- the code's plaquette index list is exactly the in-lattice plaquettes, each once -/
theorem plaquetteIndices_spec (R C : Int) (_hR : 2 ≤ R) (_hC : 2 ≤ C) :
    (plaquetteIndices R C).Nodup ∧ ∀ p, p ∈ plaquetteIndices R C ↔ Real R C p := by
  exact ⟨nodup_plaquetteIndices R C, fun p => mem_plaquetteIndices R C p⟩

theorem stabilizers_eq (R C : Int) : stabilizers R C = (plaquetteIndices R C).map (stab R C) := by
  rfl

/-- **path_syndrome**: the path operator between two same-type endpoints (real or boundary-virtual)
    exists and anticommutes with a stabilizer generator `p` iff `p` is exactly one of the two
    endpoints — so: with exactly the in-lattice endpoints, with nothing when `a = b`, and with
    nothing when both are virtual. -/
theorem path_syndrome (R C : Int) (hR : 2 ≤ R) (hC : 2 ≤ C) (a b p : Int × Int)
    (ha : Endpoint R C a) (hb : Endpoint R C b) (hab : isPrimal a.1 a.2 = isPrimal b.1 b.2)
    (hp : Real R C p) :
    ∃ v, path R C (identity R C) a b = .ok v ∧
      bsp v (stab R C p) = (decide (p = a) != decide (p = b)) := by
  obtain ⟨hpp, hpb⟩ := hp
  have hpbb := (inBounds_iff _ _ _ _).1 hpb
  have hE : ∀ x, Endpoint R C x → isPlaquette x.1 x.2 = true ∧ Box R C x ∧
      (inBounds R C x.1 x.2 = false → p ≠ x) := by
    intro x hx
    rcases hx with ⟨h1, h2⟩ | ⟨h1, h2⟩
    · have := (inBounds_iff _ _ _ _).1 h2
      exact ⟨h1, by unfold Box; omega, fun h => by rw [h2] at h; cases h⟩
    · refine ⟨h1, by unfold Box; omega, fun h e => ?_⟩
      rw [← e, hpb] at h; cases h
  obtain ⟨hpa, hBa, hna⟩ := hE a ha
  obtain ⟨hpb', hBb, hnb⟩ := hE b hb
  by_cases hin : inBounds R C a.1 a.2 = true ∨ inBounds R C b.1 b.2 = true
  · refine ⟨_, path_eq_of_translation R C _ a b _ (translation_exact R C a b hpa hpb' hab hin), ?_⟩
    exact bsp_pathSites_plaquette R C hR hC a b p hpa hpb' hab hBa hBb hpp hpb
  · have h1 : inBounds R C a.1 a.2 = false := by
      cases h : inBounds R C a.1 a.2 with
      | false => rfl
      | true => exact absurd (Or.inl h) hin
    have h2 : inBounds R C b.1 b.2 = false := by
      cases h : inBounds R C b.1 b.2 with
      | false => rfl
      | true => exact absurd (Or.inr h) hin
    refine ⟨_, path_eq_of_translation R C _ a b _ (translation_zero R C a b hpa hpb' hab h1 h2), ?_⟩
    have e : pathSites a 0 0 = [] := by simp [pathSites]
    simp only [e, sites_nil, identity_bsp]
    simp [hna h1, hnb h2]

/-- the same, as the full syndrome vector against the code's stabilizer matrix -/
theorem path_syndrome_vector (R C : Int) (hR : 2 ≤ R) (hC : 2 ≤ C) (a b : Int × Int)
    (ha : Endpoint R C a) (hb : Endpoint R C b) (hab : isPrimal a.1 a.2 = isPrimal b.1 b.2) :
    ∃ v, path R C (identity R C) a b = .ok v ∧
      synd (stabilizers R C) v = (plaquetteIndices R C).map fun p => (decide (p = a) != decide (p = b)) := by
  obtain ⟨v, hv, _⟩ := path_syndrome R C hR hC a b (1, 0) ha hb hab
    ⟨by decide, by rw [inBounds_iff]; simp only; omega⟩
  refine ⟨v, hv, ?_⟩
  rw [stabilizers_eq, synd, List.map_map]
  apply List.map_congr_left
  intro p hp
  obtain ⟨v', hv', h⟩ := path_syndrome R C hR hC a b p ha hb hab ((mem_plaquetteIndices R C p).1 hp)
  rw [hv] at hv'
  cases hv'
  exact h

/-- trivial for coincident endpoints -/
theorem path_self (R C : Int) (a : Int × Int) (ha : isPlaquette a.1 a.2 = true) :
    path R C (identity R C) a a = .ok (identity R C) := by
  have ht : translation R C a a = .ok (0, 0) := by
    unfold translation
    rw [ha]
    cases inBounds R C a.1 a.2 <;> simp
  rw [path_eq_of_translation R C _ a a _ ht]
  simp [pathSites]

/-- **translation_spec**: the translation leads from `a` to `b` (two index units per plaquette
    step) whenever one of them is in the lattice; it is (0,0) between two virtual plaquettes; its
    length is symmetric -/
theorem translation_spec (R C : Int) (a b : Int × Int)
    (ha : isPlaquette a.1 a.2 = true) (hb : isPlaquette b.1 b.2 = true)
    (hab : isPrimal a.1 a.2 = isPrimal b.1 b.2) :
    ∃ t, translation R C a b = .ok t ∧
      ((inBounds R C a.1 a.2 = true ∨ inBounds R C b.1 b.2 = true) →
        (a.1 + 2 * t.1, a.2 + 2 * t.2) = b) ∧
      ((inBounds R C a.1 a.2 = false ∧ inBounds R C b.1 b.2 = false) → t = (0, 0)) := by
  have ha' := (isPlaquette_iff _ _).1 ha
  have hb' := (isPlaquette_iff _ _).1 hb
  have hab' := (isPrimal_eq_iff _ _ _ _).1 hab
  by_cases hin : inBounds R C a.1 a.2 = true ∨ inBounds R C b.1 b.2 = true
  · refine ⟨_, translation_exact R C a b ha hb hab hin, fun _ => ?_, fun h => ?_⟩
    · apply Prod.ext <;> simp only <;> omega
    · rcases hin with h1 | h1
      · rw [h.1] at h1; cases h1
      · rw [h.2] at h1; cases h1
  · have h1 : inBounds R C a.1 a.2 = false := by
      cases h : inBounds R C a.1 a.2 with
      | false => rfl
      | true => exact absurd (Or.inl h) hin
    have h2 : inBounds R C b.1 b.2 = false := by
      cases h : inBounds R C b.1 b.2 with
      | false => rfl
      | true => exact absurd (Or.inr h) hin
    exact ⟨_, translation_zero R C a b ha hb hab h1 h2, fun h => absurd h hin, fun _ => rfl⟩
/-- IndexError exactly for non-plaquette indices or indices on different lattices -/
theorem translation_error_iff (R C : Int) (a b : Int × Int) :
    translation R C a b = .error .index ↔
      (isPlaquette a.1 a.2 = false ∨ isPlaquette b.1 b.2 = false ∨ isPrimal a.1 a.2 ≠ isPrimal b.1 b.2) := by
  unfold translation
  cases isPlaquette a.1 a.2 <;> cases isPlaquette b.1 b.2 <;> cases isPrimal a.1 a.2 <;>
    cases isPrimal b.1 b.2 <;> cases inBounds R C a.1 a.2 <;> cases inBounds R C b.1 b.2 <;> simp
theorem translation_symm (R C : Int) (a b : Int × Int) (t t' : Int × Int)
    (h : translation R C a b = .ok t) (h' : translation R C b a = .ok t') :
    t.1.natAbs + t.2.natAbs = t'.1.natAbs + t'.2.natAbs := by
  have hne : ¬ (isPlaquette a.1 a.2 = false ∨ isPlaquette b.1 b.2 = false ∨ isPrimal a.1 a.2 ≠ isPrimal b.1 b.2) := by
    intro hh
    rw [← translation_error_iff R C a b, h] at hh
    cases hh
  have ha : isPlaquette a.1 a.2 = true := by
    cases hh : isPlaquette a.1 a.2 with
    | true => rfl
    | false => exact absurd (Or.inl hh) hne
  have hb : isPlaquette b.1 b.2 = true := by
    cases hh : isPlaquette b.1 b.2 with
    | true => rfl
    | false => exact absurd (Or.inr (Or.inl hh)) hne
  have hab : isPrimal a.1 a.2 = isPrimal b.1 b.2 := by
    by_cases hh : isPrimal a.1 a.2 = isPrimal b.1 b.2
    · exact hh
    · exact absurd (Or.inr (Or.inr hh)) hne
  have ha' := (isPlaquette_iff _ _).1 ha
  have hb' := (isPlaquette_iff _ _).1 hb
  have hab' := (isPrimal_eq_iff _ _ _ _).1 hab
  by_cases hin : inBounds R C a.1 a.2 = true ∨ inBounds R C b.1 b.2 = true
  · rw [translation_exact R C a b ha hb hab hin] at h
    rw [translation_exact R C b a hb ha hab.symm hin.symm] at h'
    cases h; cases h'
    simp only
    omega
  · have h1 : inBounds R C a.1 a.2 = false := by
      cases h : inBounds R C a.1 a.2 with
      | false => rfl
      | true => exact absurd (Or.inl h) hin
    have h2 : inBounds R C b.1 b.2 = false := by
      cases h : inBounds R C b.1 b.2 with
      | false => rfl
      | true => exact absurd (Or.inr h) hin
    rw [translation_zero R C a b ha hb hab h1 h2] at h
    rw [translation_zero R C b a hb ha hab.symm h2 h1] at h'
    cases h; cases h'
    rfl
/-- **path_weight**: between real plaquettes the weight is the decoders' distance |Δr|+|Δc|
    (in plaquette steps); never more when an endpoint is virtual -/
theorem path_weight_real (R C : Int) (hR : 2 ≤ R) (hC : 2 ≤ C) (a b : Int × Int)
    (ha : Real R C a) (hb : Real R C b) (hab : isPrimal a.1 a.2 = isPrimal b.1 b.2) :
    ∃ v d, path R C (identity R C) a b = .ok v ∧ distance R C a b = .ok d ∧ bsfWt v = d ∧
      (d : Int) = ((b.1 - a.1) / 2).natAbs + ((b.2 - a.2) / 2).natAbs := by
  have hin : inBounds R C a.1 a.2 = true ∨ inBounds R C b.1 b.2 = true := Or.inl ha.2
  have ht := translation_exact R C a b ha.1 hb.1 hab hin
  refine ⟨_, _, path_eq_of_translation R C _ a b _ ht, by unfold distance; rw [ht]; rfl, ?_, by simp only; omega⟩
  simp only
  exact bsfWt_pathSites R C hR hC a b ha.1 hb.1 hab ha.2 hb.2
theorem path_weight_le (R C : Int) (hR : 2 ≤ R) (hC : 2 ≤ C) (a b : Int × Int)
    (ha : Endpoint R C a) (hb : Endpoint R C b) (hab : isPrimal a.1 a.2 = isPrimal b.1 b.2) :
    ∃ v d, path R C (identity R C) a b = .ok v ∧ distance R C a b = .ok d ∧ bsfWt v ≤ d := by
  have hE : ∀ x, Endpoint R C x → isPlaquette x.1 x.2 = true := by
    intro x hx
    rcases hx with h | h <;> exact h.1
  obtain ⟨t, ht, _, _⟩ := translation_spec R C a b (hE a ha) (hE b hb) hab
  refine ⟨_, t.1.natAbs + t.2.natAbs, path_eq_of_translation R C _ a b _ ht, by unfold distance; rw [ht]; rfl, ?_⟩
  have := bsfWt_sites_le R C hR hC (pathOp a) _ (identity_length R C) _ (allSites_pathSites a t.1 t.2 (hE a ha))
  rw [bsfWt_identity, length_pathSites] at this
  omega

/-- **virtual plaquette**: for a real plaquette the virtual plaquette is a `Virtual` endpoint of
    the same type in the same column (primal) / row (dual), on the nearer boundary (north / west
    preferred on ties) -/
theorem virtualPlaquette_spec (R C : Int) (hR : 2 ≤ R) (hC : 2 ≤ C) (p : Int × Int) (hp : Real R C p) :
    ∃ v, virtualPlaquette R C p.1 p.2 = .ok v ∧ Virtual R C v ∧ isPrimal v.1 v.2 = isPrimal p.1 p.2 ∧
      (isPrimal p.1 p.2 = true → v.2 = p.2 ∧ (v.1 = -1 ↔ p.1 - 1 ≤ (2 * R - 3) - p.1)) ∧
      (isPrimal p.1 p.2 = false → v.1 = p.1 ∧ (v.2 = -1 ↔ p.2 - 1 ≤ (2 * C - 3) - p.2)) := by
  obtain ⟨p1, p2⟩ := p
  obtain ⟨hpp, hpb⟩ := hp
  simp only at hpp hpb ⊢
  have hpp' := (isPlaquette_iff _ _).1 hpp
  have hpb' := (inBounds_iff _ _ _ _).1 hpb
  unfold virtualPlaquette
  rw [hpp]
  simp only [Bool.not_true, Bool.false_eq_true, if_false]
  cases hpr : isPrimal p1 p2 with
  | true =>
    have hpr' := (isPrimal_iff _ _).1 hpr
    simp only [if_true]
    split
    · next hle =>
      refine ⟨_, rfl, ⟨?_, Or.inl ⟨?_, ?_⟩⟩, ?_, fun _ => ⟨rfl, ?_⟩, fun h => by cases h⟩
      · rw [isPlaquette_iff]; simp only; omega
      · rw [isPrimal_iff]; simp only; omega
      · simp only; omega
      · rw [isPrimal_iff]; simp only; omega
      · simp only; omega
    · next hle =>
      refine ⟨_, rfl, ⟨?_, Or.inl ⟨?_, ?_⟩⟩, ?_, fun _ => ⟨rfl, ?_⟩, fun h => by cases h⟩
      · rw [isPlaquette_iff]; simp only; omega
      · rw [isPrimal_iff]; simp only; omega
      · simp only; omega
      · rw [isPrimal_iff]; simp only; omega
      · simp only; omega
  | false =>
    have hpr' := (isPrimal_eq_false_iff _ _).1 hpr
    simp only [Bool.false_eq_true, if_false]
    split
    · next hle =>
      refine ⟨_, rfl, ⟨?_, Or.inr ⟨?_, ?_⟩⟩, ?_, (fun h => by cases h), fun _ => ⟨rfl, ?_⟩⟩
      · rw [isPlaquette_iff]; simp only; omega
      · rw [isPrimal_eq_false_iff]; simp only; omega
      · simp only; omega
      · rw [isPrimal_eq_false_iff]; simp only; omega
      · simp only; omega
    · next hle =>
      refine ⟨_, rfl, ⟨?_, Or.inr ⟨?_, ?_⟩⟩, ?_, (fun h => by cases h), fun _ => ⟨rfl, ?_⟩⟩
      · rw [isPlaquette_iff]; simp only; omega
      · rw [isPrimal_eq_false_iff]; simp only; omega
      · simp only; omega
      · rw [isPrimal_eq_false_iff]; simp only; omega
      · simp only; omega

/-- **plaquette_support**: the generator of plaquette `p` acts as Z (primal) / X (dual) on exactly
    the in-lattice ones of its four neighbouring sites N, S, W, E and as identity elsewhere -/
theorem plaquette_support (R C : Int) (hR : 2 ≤ R) (hC : 2 ≤ C) (p s : Int × Int)
    (hp : isPlaquette p.1 p.2 = true) (hs : isSite s.1 s.2 = true) (hsb : inBounds R C s.1 s.2 = true) :
    operatorAt R C (stab R C p) s.1 s.2 =
      if s ∈ plaquetteSites p.1 p.2 then (if isPrimal p.1 p.2 then P1.Z else P1.X) else P1.I := by
  unfold stab
  rw [operatorAt_sites R C hR hC _ _ (allSites_plaquetteSites _ _ hp) s hs hsb,
    occ_eq_mem _ (nodup_plaquetteSites _ _)]
  by_cases hm : s ∈ plaquetteSites p.1 p.2
  · rw [if_pos hm, decide_eq_true hm]
    cases isPrimal p.1 p.2 <;> rfl
  · rw [if_neg hm, decide_eq_false hm]
    cases isPrimal p.1 p.2 <;> rfl

/-- **syndrome_bit_roundtrip**: syndrome bit `i` maps back to the `i`-th plaquette index -/
theorem syndrome_bit_roundtrip (R C : Int) (i : Nat) (hi : i < (plaquetteIndices R C).length) :
    syndromeToPlaquettes R C ((List.range (plaquetteIndices R C).length).map fun j => decide (j = i)) =
      [(plaquetteIndices R C)[i]] := by
  unfold syndromeToPlaquettes
  exact filterMap_zip_unit _ _ i hi (fun _ _ => rfl)

/-! non-vacuity on a 3×5 lattice -/
example : Real 3 5 (1, 0) ∧ Real 3 5 (3, 4) ∧ Virtual 3 5 (-1, 2) ∧ Virtual 3 5 (2, 9) := by
  refine ⟨⟨by decide, by decide⟩, ⟨by decide, by decide⟩, ⟨by decide, ?_⟩, ⟨by decide, ?_⟩⟩ <;> decide
example : (path 3 5 (identity 3 5) (1, 0) (3, 4)).toOption.map (fun v => synd (stabilizers 3 5) v) =
    some ((plaquetteIndices 3 5).map fun p => (decide (p = (1, 0)) != decide (p = (3, 4)))) := by decide +kernel
/-! a path from a virtual plaquette: only the in-lattice endpoint lights up -/
example : (path 3 5 (identity 3 5) (-1, 2) (3, 2)).toOption.map (fun v => synd (stabilizers 3 5) v) =
    some ((plaquetteIndices 3 5).map fun p => (decide (p = (-1, 2)) != decide (p = (3, 2)))) := by decide +kernel
example : Endpoint 3 5 (-1, 2) ∧ Endpoint 3 5 (3, 2) ∧ isPrimal (-1) 2 = isPrimal 3 2 :=
  ⟨Or.inr ⟨by decide, Or.inl ⟨by decide, Or.inl rfl, by decide, by decide⟩⟩, Or.inl ⟨by decide, by decide⟩, by decide⟩

end Qec.C15.Planar
