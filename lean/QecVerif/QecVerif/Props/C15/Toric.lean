/-
  C15 (toric part) — lattice paths connect exactly their endpoints on the torus.
  Theorems about `Model/Lattice/Toric.lean` (the model of `ToricCode` / `ToricPauli` /
  `ToricMWPMDecoder.distance`) for ALL lattice sizes R, C ≥ 2 (square or not, even or odd) and ALL
  index triples — the code reduces every index modulo the shape (2, R, C), and so do the statements.
  Helper lemmas: `Lemmas/Lattice/Toric.lean`.
-/
import QecVerif.Model.Lattice.Toric
import QecVerif.Lemmas.Lattice.Toric
namespace Qec.C15.Toric
open Qec Qec.Toric Qec.ToricLemmas

/-- an in-lattice index (lattice, row, column) -/
def Real (R C : Int) (p : Idx) : Prop :=
  0 ≤ p.1 ∧ p.1 < 2 ∧ 0 ≤ p.2.1 ∧ p.2.1 < R ∧ 0 ≤ p.2.2 ∧ p.2.2 < C

/-- two indices denote the same plaquette / site modulo the lattice shape (2, R, C) -/
def Same (R C : Int) (p q : Idx) : Prop :=
  p.1 % 2 = q.1 % 2 ∧ p.2.1 % R = q.2.1 % R ∧ p.2.2 % C = q.2.2 % C

instance (R C : Int) (p q : Idx) : Decidable (Same R C p q) := by unfold Same; infer_instance
instance (R C : Int) (p : Idx) : Decidable (Real R C p) := by unfold Real; infer_instance

/-- the order of `np.ndindex((2, R, C))`: lexicographic in (lattice, row, column) -/
def Before (p q : Idx) : Prop :=
  p.1 < q.1 ∨ (p.1 = q.1 ∧ (p.2.1 < q.2.1 ∨ (p.2.1 = q.2.1 ∧ p.2.2 < q.2.2)))

/-- the stabilizer generator of plaquette `p` as the code builds it (`new_pauli().plaquette(p)`) -/
def stab (R C : Int) (p : Idx) : BVec := plaquette R C (identity R C) p

/-- the code's index list is exactly the in-lattice indices, each once, in `np.ndindex` order -/
theorem plaquetteIndices_spec (R C : Int) :
    (∀ p, p ∈ indices R C ↔ Real R C p) ∧ (indices R C).Pairwise Before ∧ (indices R C).Nodup ∧
      (indices R C).length = 2 * (R.toNat * C.toNat) :=
  ⟨mem_indices R C, indices_sorted R C, indices_nodup R C, length_indices R C⟩

/-- … and the in-lattice index `(l, r, c)` sits at position `l·R·C + r·C + c` (the position of its
    generator in `stabilizers` and of its bit in a syndrome) -/
theorem plaquetteIndices_position (R C : Int) (p : Idx) (hp : Real R C p) :
    (indices R C)[(p.1 * (R * C) + p.2.1 * C + p.2.2).toNat]? = some p := by
  have := getElem?_indices R C p hp
  simp only [flatNat, flatten, norm_of_inLattice R C p hp] at this
  exact this

theorem stabilizers_eq (R C : Int) : stabilizers R C = (indices R C).map (stab R C) := rfl

/-- the generator depends on the plaquette index only modulo the lattice -/
theorem stab_congr (R C : Int) (p q : Idx) (h : Same R C p q) : stab R C p = stab R C q := by
  unfold stab
  rw [← plaquette_norm R C _ p, ← plaquette_norm R C _ q, (norm_eq_iff R C p q).mpr h]

/-- **path_syndrome**: for all indices `a`, `b` on the same lattice (modulo 2) the path operator exists
    and anticommutes with the generator of plaquette `p` iff `p` is exactly one of `a`, `b` modulo the
    lattice — in particular with nothing when `a` and `b` coincide modulo the lattice, and never with a
    plaquette of the other lattice -/
theorem path_syndrome (R C : Int) (hR : 2 ≤ R) (hC : 2 ≤ C) (a b p : Idx) (hab : a.1 % 2 = b.1 % 2) :
    ∃ v, path R C (identity R C) a b = .ok v ∧
      bsp v (stab R C p) = (decide (Same R C p a) != decide (Same R C p b)) := by
  refine ⟨_, path_eq_ok R C _ a b hab, ?_⟩
  unfold stab
  rw [bsp_path_plaquette R C (by omega) (by omega) a b p hab]
  simp only [norm_eq_iff, Same]

/-- the same, as the full syndrome vector against the code's stabilizer matrix -/
theorem path_syndrome_vector (R C : Int) (hR : 2 ≤ R) (hC : 2 ≤ C) (a b : Idx) (hab : a.1 % 2 = b.1 % 2) :
    ∃ v, path R C (identity R C) a b = .ok v ∧
      synd (stabilizers R C) v =
        (indices R C).map fun p => (decide (Same R C p a) != decide (Same R C p b)) := by
  refine ⟨_, path_eq_ok R C _ a b hab, ?_⟩
  rw [stabilizers_eq, synd, List.map_map]
  apply List.map_congr_left
  intro p _
  obtain ⟨v, hv, h⟩ := path_syndrome R C hR hC a b p hab
  rw [path_eq_ok R C _ a b hab] at hv
  cases hv
  exact h

/-- for in-lattice endpoints the syndrome has ones exactly at the positions of `a` and `b`
    (none when `a = b`) -/
theorem path_syndrome_vector_real (R C : Int) (hR : 2 ≤ R) (hC : 2 ≤ C) (a b : Idx)
    (ha : Real R C a) (hb : Real R C b) (hab : a.1 = b.1) :
    ∃ v, path R C (identity R C) a b = .ok v ∧
      synd (stabilizers R C) v = (indices R C).map fun p => (decide (p = a) != decide (p = b)) := by
  obtain ⟨v, hv, h⟩ := path_syndrome_vector R C hR hC a b (by rw [hab])
  refine ⟨v, hv, ?_⟩
  rw [h]
  apply List.map_congr_left
  intro p hp
  have hp' : norm R C p = p := norm_of_inLattice R C p ((mem_indices R C p).mp hp)
  have ha' : norm R C a = a := norm_of_inLattice R C a ha
  have hb' : norm R C b = b := norm_of_inLattice R C b hb
  have e1 : Same R C p a ↔ p = a := by
    rw [show Same R C p a ↔ norm R C p = norm R C a from (norm_eq_iff R C p a).symm, hp', ha']
  have e2 : Same R C p b ↔ p = b := by
    rw [show Same R C p b ↔ norm R C p = norm R C b from (norm_eq_iff R C p b).symm, hp', hb']
  rw [decide_eq_decide.mpr e1, decide_eq_decide.mpr e2]

/-- trivial for endpoints that coincide modulo the lattice -/
theorem path_self (R C : Int) (hR : 2 ≤ R) (hC : 2 ≤ C) (a b : Idx) (h : Same R C a b) :
    path R C (identity R C) a b = .ok (identity R C) := by
  rw [path_eq_ok R C _ a b h.1,
    pathSites_self R C (by omega) (by omega) a b ((norm_eq_iff R C a b).mpr h)]
  rfl

/-- **path_weight**: the weight of the path is `|t.1| + |t.2|` for the translation `t`, which is the
    MWPM decoder's `distance` -/
theorem path_weight (R C : Int) (hR : 2 ≤ R) (hC : 2 ≤ C) (a b : Idx) (hab : a.1 % 2 = b.1 % 2) :
    ∃ v t d, path R C (identity R C) a b = .ok v ∧ translation R C a b = .ok t ∧
      distance R C a b = .ok d ∧ bsfWt v = d ∧ d = t.1.natAbs + t.2.natAbs := by
  refine ⟨_, _, _, path_eq_ok R C _ a b hab, translation_eq_ok R C a b hab, distance_eq_ok R C a b hab,
    ?_, rfl⟩
  have h1 := step_natAbs_le (m := R) (by omega) a.2.1 b.2.1
  have h2 := step_natAbs_le (m := C) (by omega) a.2.2 b.2.2
  rw [bsfWt_sites R C (by omega) (by omega) _ (pathOp_ne_I R C a) _
    (pathSites_pairwise R C a _ _ (by omega) (by omega)), length_pathSites]

/-- **translation_spec**: the translation exists iff the lattices agree (see `translation_error_iff`);
    applying it to `a` reaches `b` modulo the periods; each component is the shortest residue, in
    `(-m/2, m/2]` — i.e. on an even size the half-way tie goes south / east, as in the code -/
theorem translation_spec (R C : Int) (hR : 2 ≤ R) (hC : 2 ≤ C) (a b : Idx) (hab : a.1 % 2 = b.1 % 2) :
    ∃ t, translation R C a b = .ok t ∧
      (a.2.1 + t.1) % R = b.2.1 % R ∧ (a.2.2 + t.2) % C = b.2.2 % C ∧
      -R < 2 * t.1 ∧ 2 * t.1 ≤ R ∧ -C < 2 * t.2 ∧ 2 * t.2 ≤ C ∧
      (t.1.natAbs : Int) ≤ R / 2 ∧ (t.2.natAbs : Int) ≤ C / 2 := by
  have hR' : (0 : Int) < R := by omega
  have hC' : (0 : Int) < C := by omega
  exact ⟨_, translation_eq_ok R C a b hab, step_emod hR' _ _, step_emod hC' _ _,
    (step_bounds hR' _ _).1, (step_bounds hR' _ _).2, (step_bounds hC' _ _).1, (step_bounds hC' _ _).2,
    step_natAbs_le hR' _ _, step_natAbs_le hC' _ _⟩

/-- the specification determines the translation (so it pins down the code's tie-breaks) -/
theorem translation_unique (R C : Int) (hR : 2 ≤ R) (hC : 2 ≤ C) (a b : Idx) (t t' : Int × Int)
    (h : translation R C a b = .ok t)
    (h1 : (a.2.1 + t'.1) % R = b.2.1 % R) (h2 : (a.2.2 + t'.2) % C = b.2.2 % C)
    (h3 : -R < 2 * t'.1) (h4 : 2 * t'.1 ≤ R) (h5 : -C < 2 * t'.2) (h6 : 2 * t'.2 ≤ C) : t' = t := by
  by_cases hab : a.1 % 2 = b.1 % 2
  · rw [translation_eq_ok R C a b hab] at h
    cases h
    exact Prod.ext (step_unique (by omega) _ _ _ h1 h3 h4) (step_unique (by omega) _ _ _ h2 h5 h6)
  · rw [translation_eq_error R C a b hab] at h
    cases h

/-- the length of the translation is symmetric, component by component -/
theorem translation_symm (R C : Int) (hR : 2 ≤ R) (hC : 2 ≤ C) (a b : Idx) (t t' : Int × Int)
    (h : translation R C a b = .ok t) (h' : translation R C b a = .ok t') :
    t.1.natAbs = t'.1.natAbs ∧ t.2.natAbs = t'.2.natAbs := by
  by_cases hab : a.1 % 2 = b.1 % 2
  · rw [translation_eq_ok R C a b hab] at h
    rw [translation_eq_ok R C b a hab.symm] at h'
    cases h
    cases h'
    exact ⟨step_natAbs_comm R _ _ (by omega), step_natAbs_comm C _ _ (by omega)⟩
  · rw [translation_eq_error R C a b hab] at h
    cases h

/-- IndexError exactly when the indices are on different lattices (modulo 2); the same for `path` and
    the decoder's `distance` -/
theorem translation_error_iff (R C : Int) (a b : Idx) :
    translation R C a b = .error .index ↔ a.1 % 2 ≠ b.1 % 2 := by
  by_cases hab : a.1 % 2 = b.1 % 2
  · rw [translation_eq_ok R C a b hab]
    simp [hab]
  · rw [translation_eq_error R C a b hab]
    simp [hab]
theorem path_error_iff (R C : Int) (v : BVec) (a b : Idx) :
    path R C v a b = .error .index ↔ a.1 % 2 ≠ b.1 % 2 := by
  by_cases hab : a.1 % 2 = b.1 % 2
  · rw [path_eq_ok R C v a b hab]
    simp [hab]
  · rw [path_eq_error R C v a b hab]
    simp [hab]
theorem distance_error_iff (R C : Int) (a b : Idx) :
    distance R C a b = .error .index ↔ a.1 % 2 ≠ b.1 % 2 := by
  by_cases hab : a.1 % 2 = b.1 % 2
  · rw [distance_eq_ok R C a b hab]
    simp [hab]
  · rw [distance_eq_error R C a b hab]
    simp [hab]

/-- **plaquette_support**: the generator of the in-lattice plaquette `p = (l, r, c)` acts as Z (primal,
    `l = 0`) / X (dual, `l = 1`) on exactly its four sites N `(l, r, c)`, S `(l, r+1, c)`,
    W `(l+1, r+l, c−l)`, E `(l+1, r+l, c−l+1)` (all modulo the lattice), as the identity elsewhere,
    and has weight 4 -/
theorem plaquette_support (R C : Int) (hR : 2 ≤ R) (hC : 2 ≤ C) (p s : Idx) (hp : Real R C p) :
    operator R C (stab R C p) s =
      (if Same R C s (p.1, p.2.1, p.2.2) ∨ Same R C s (p.1, p.2.1 + 1, p.2.2) ∨
          Same R C s (p.1 + 1, p.2.1 + p.1, p.2.2 - p.1) ∨
          Same R C s (p.1 + 1, p.2.1 + p.1, p.2.2 - p.1 + 1)
       then (if p.1 = 0 then P1.Z else P1.X) else P1.I) ∧
    bsfWt (stab R C p) = 4 := by
  refine ⟨?_, bsfWt_plaquette R C hR hC p⟩
  unfold stab
  rw [operator_plaquette R C hR hC, plaquetteSites_of_inLattice R C p hp, plaquetteOp_of_inLattice R C p hp]
  simp only [List.map_cons, List.map_nil, List.mem_cons, List.not_mem_nil, or_false, norm_eq_iff, Same]
  rfl

/-- **syndrome_bit_roundtrip**: syndrome bit `i` maps back to the `i`-th plaquette index -/
theorem syndrome_bit_roundtrip (R C : Int) (i : Nat) (hi : i < (indices R C).length) :
    syndromeToPlaquettes R C ((List.range (indices R C).length).map fun j => decide (j = i)) =
      [(indices R C)[i]] :=
  filterMap_sel_unit (indices R C) i hi

/-- more generally, reading back any syndrome computed plaquette by plaquette returns exactly the
    plaquettes whose bit is set, in index order; and for an arbitrary bit vector the plaquettes
    returned are those at the positions of the set bits -/
theorem syndrome_roundtrip (R C : Int) (f : Idx → Bool) :
    syndromeToPlaquettes R C ((indices R C).map f) = (indices R C).filter f :=
  filterMap_sel_map (indices R C) f
theorem mem_syndromeToPlaquettes (R C : Int) (s : BVec) (p : Idx) :
    p ∈ syndromeToPlaquettes R C s ↔ ∃ i : Nat, (indices R C)[i]? = some p ∧ s[i]? = some true :=
  mem_filterMap_sel (indices R C) s p

/-- **the decoder's view**: the plaquettes read back from the syndrome of the path between two
    in-lattice plaquettes are exactly its two endpoints (none when they coincide) -/
theorem path_syndrome_plaquettes (R C : Int) (hR : 2 ≤ R) (hC : 2 ≤ C) (a b : Idx)
    (ha : Real R C a) (hb : Real R C b) (hab : a.1 = b.1) :
    ∃ v, path R C (identity R C) a b = .ok v ∧
      syndromeToPlaquettes R C (synd (stabilizers R C) v) =
        (indices R C).filter fun p => (decide (p = a) != decide (p = b)) := by
  obtain ⟨v, hv, h⟩ := path_syndrome_vector_real R C hR hC a b ha hb hab
  exact ⟨v, hv, by rw [h, syndrome_roundtrip]⟩

/-! non-vacuity on a 3×4 torus (odd × even: a wrap-around and a half-way tie) -/
example : Real 3 4 (0, 0, 0) ∧ Real 3 4 (1, 2, 3) ∧ ¬ Real 3 4 (0, 3, 0) ∧ Same 3 4 (2, 4, -1) (0, 1, 3) := by
  decide
example : (translation 3 4 (0, 0, 0) (0, 2, 2)).toOption = some (-1, 2) ∧
    (translation 3 4 (0, 2, 2) (0, 0, 0)).toOption = some (1, 2) ∧
    (translation 3 4 (0, 0, 0) (1, 0, 0)).toOption = none := by decide +kernel
example : (path 3 4 (identity 3 4) (0, 0, 0) (0, 2, 2)).toOption.map (fun v => synd (stabilizers 3 4) v) =
    some ((indices 3 4).map fun p => (decide (p = (0, 0, 0)) != decide (p = (0, 2, 2)))) := by decide +kernel
example : (path 3 4 (identity 3 4) (1, 2, 3) (3, -1, 5)).toOption.map (fun v => (bsfWt v, synd (stabilizers 3 4) v)) =
    some (2, (indices 3 4).map fun p => (decide (p = (1, 2, 3)) != decide (p = (1, 2, 1)))) := by decide +kernel
example : operator 3 4 (stab 3 4 (1, 2, 0)) (0, 0, 3) = P1.X ∧ operator 3 4 (stab 3 4 (1, 2, 0)) (0, 0, 1) = P1.I := by
  decide +kernel

end Qec.C15.Toric
