/-
  C15 (rotated-toric part) — lattice paths connect exactly their endpoints.
  Theorems about `Model/Lattice/RotatedToric.lean` for ALL accepted lattice sizes (rows, columns even and ≥ 2,
  non-square included), all integer index pairs (the code reduces every index modulo the lattice).

  Every statement below is proved (no `STATED, NOT PROVED` block).  Helper lemmas: `Lemmas/Lattice/RotatedToric.lean`.
  Two definitions here have no counterpart in the model and are transcriptions of the code used only to STATE
  a clause: `operatorAt` (`RotatedToricPauli.operator`) and `decoderSteps` (`delta_parallel + delta_diagonal` of
  `RotatedToricSMWPMDecoder._distance`, both orientations); the harness monitors "path weight = decoder distance"
  on the real code independently.
-/
import QecVerif.Model.Lattice.RotatedToric
import QecVerif.Lemmas.Lattice.RotatedToric
namespace Qec.C15.RotatedToric
open Qec Qec.RotatedToric Qec.RotatedToric.Lem

/-- the sizes the constructor accepts: rows, columns even and ≥ 2 -/
def Size (R C : Int) : Prop := 2 ≤ R ∧ 2 ≤ C ∧ R % 2 = 0 ∧ C % 2 = 0

/-- the stabilizer generator of plaquette `p` as the code builds it: Z on the four corner sites of a
    z-plaquette, X on those of an x-plaquette -/
def stab (R C : Int) (p : Int × Int) : BVec :=
  sites R C (if isZPlaquette p.1 p.2 then P1.Z else P1.X) (identity R C) (plaquetteSites p.1 p.2)

/-- `Size` is exactly what the constructor accepts for integer arguments -/
theorem ctor_ok_iff (R C : Int) : ctor (.int R) (.int C) = .ok (R, C) ↔ Size R C := by
  unfold ctor Size
  simp only [PyVal.index?]
  by_cases h1 : R < 2
  · simp only [h1, ↓reduceIte]; constructor
    · intro h; cases h
    · intro h; omega
  · by_cases h2 : C < 2
    · simp only [h1, h2, ↓reduceIte]; constructor
      · intro h; cases h
      · intro h; omega
    · simp only [h1, h2, ↓reduceIte]
      by_cases h3 : (R % 2 != 0 || C % 2 != 0) = true
      · simp only [h3, ↓reduceIte]; constructor
        · intro h; cases h
        · intro h
          simp only [Bool.or_eq_true, bne_iff_ne, ne_eq] at h3
          omega
      · simp only [h3]
        simp only [Bool.or_eq_true, bne_iff_ne, ne_eq, not_or, Decidable.not_not] at h3
        constructor
        · intro _; omega
        · intro _; rfl

/-- the code's plaquette index list is exactly the in-bounds indices, each once -/
theorem plaquetteIndices_spec (R C : Int) :
    (plaquetteIndices R C).Nodup ∧ ∀ p, p ∈ plaquetteIndices R C ↔ inBounds R C p.1 p.2 = true :=
  ⟨nodup_plaquetteIndices R C, mem_plaquetteIndices R C⟩

theorem stabilizers_eq (R C : Int) : stabilizers R C = (plaquetteIndices R C).map (stab R C) := rfl

/-- **path_syndrome**: for all plaquette indices `a`, `b` of the same type (arbitrary integers, reduced
    modulo the lattice as the code does) the path operator exists and anticommutes with the generator of an
    in-lattice plaquette `p` iff `p` is exactly one of `a`, `b` modulo the lattice — so with nothing when
    `a = b` modulo the lattice, and never with a plaquette of the other type. -/
theorem path_syndrome (R C : Int) (hS : Size R C) (a b p : Int × Int)
    (hab : isZPlaquette a.1 a.2 = isZPlaquette b.1 b.2) (hp : inBounds R C p.1 p.2 = true) :
    ∃ v, path R C (identity R C) a b = .ok v ∧
      bsp v (stab R C p) = (decide (p = modIndex R C a) != decide (p = modIndex R C b)) := by
  obtain ⟨hR, hC, hRe, hCe⟩ := hS
  refine ⟨_, path_eq R C a b hab, ?_⟩
  have h := bsp_path_stab R C (by omega) (by omega) hRe hCe a b p hab
  have e : stab R C p = stabOf R C p := rfl
  rw [e, h]
  rw [decide_eq_decide.mpr (eq_modIndex_iff R C p a hp), decide_eq_decide.mpr (eq_modIndex_iff R C p b hp)]

/-- the same, as the full syndrome vector against the code's stabilizer matrix -/
theorem path_syndrome_vector (R C : Int) (hS : Size R C) (a b : Int × Int)
    (hab : isZPlaquette a.1 a.2 = isZPlaquette b.1 b.2) :
    ∃ v, path R C (identity R C) a b = .ok v ∧
      synd (stabilizers R C) v =
        (plaquetteIndices R C).map fun p => (decide (p = modIndex R C a) != decide (p = modIndex R C b)) := by
  refine ⟨_, path_eq R C a b hab, ?_⟩
  rw [stabilizers_eq, synd, List.map_map]
  apply List.map_congr_left
  intro p hp
  obtain ⟨v, hv, hb⟩ := path_syndrome R C hS a b p hab ((plaquetteIndices_spec R C).2 p |>.mp hp)
  rw [path_eq R C a b hab] at hv
  cases hv
  exact hb

/-- trivial for coincident endpoints: identical index pairs (checked before anything else) … -/
theorem path_self (R C : Int) (v : BVec) (a : Int × Int) : path R C v a a = .ok v := by
  simp [path]

/-- … and, on an accepted lattice, indices that coincide modulo the lattice (empty translation) -/
theorem path_coincident (R C : Int) (hS : Size R C) (a b : Int × Int)
    (h : modIndex R C a = modIndex R C b) : path R C (identity R C) a b = .ok (identity R C) := by
  obtain ⟨hR, hC, hRe, hCe⟩ := hS
  have hc := (modIndex_eq_iff R C a b).mp h
  have hab : isZPlaquette a.1 a.2 = isZPlaquette b.1 b.2 :=
    (isZPlaquette_eq_iff a b).mpr (cong_parity R C hRe hCe a b hc)
  rw [path_eq R C a b hab]
  have h1 : trans1 C a.1 b.1 = 0 := by
    rw [trans1_formula C a.1 b.1 (by omega)]; have := hc.1; rw [if_pos (by omega)]
  have h2 : trans1 R a.2 b.2 = 0 := by
    rw [trans1_formula R a.2 b.2 (by omega)]; have := hc.2; rw [if_pos (by omega)]
  rw [h1, h2]
  split <;> rfl

/-- the loop of `path` (`pathSites`) produces the closed-form site list: `max(|tx|,|ty|)` sites, the
    diagonal part first, then straight along the longer axis; a negative first step stays on the
    plaquette's own (south-west) corner -/
theorem pathIndices_eq_closed (R C : Int) (a b : Int × Int) :
    pathIndices R C a b = pathIndicesClosed R C a b := by
  unfold pathIndices pathIndicesClosed
  simp only [pathSites_eq_closed]

/-- IndexError exactly for different index pairs of different plaquette types -/
theorem path_error_iff (R C : Int) (v : BVec) (a b : Int × Int) :
    path R C v a b = .error .index ↔ (a ≠ b ∧ isZPlaquette a.1 a.2 ≠ isZPlaquette b.1 b.2) := by
  unfold path
  by_cases h : a = b
  · simp [h]
  · have h' : (a == b) = false := by simpa using h
    simp only [h', Bool.false_eq_true, ↓reduceIte, translation_eq]
    by_cases hab : isZPlaquette a.1 a.2 = isZPlaquette b.1 b.2
    · simp [hab, h]
    · have : (isZPlaquette a.1 a.2 != isZPlaquette b.1 b.2) = true := by simpa using hab
      simp [this, hab, h]

/-- **translation_spec**: for same-type plaquettes the translation exists, applying it to `a` reaches `b`
    modulo the periods (columns for x, rows for y), and each component is the shortest residue, the
    POSITIVE direction on a tie (`-C < 2·tx ≤ C`, `-R < 2·ty ≤ R`) -/
theorem translation_spec (R C : Int) (hR : 0 < R) (hC : 0 < C) (a b : Int × Int)
    (hab : isZPlaquette a.1 a.2 = isZPlaquette b.1 b.2) :
    ∃ t, translation R C a b = .ok t ∧
      modIndex R C (a.1 + t.1, a.2 + t.2) = modIndex R C b ∧
      (-C < 2 * t.1 ∧ 2 * t.1 ≤ C) ∧ (-R < 2 * t.2 ∧ 2 * t.2 ≤ R) := by
  refine ⟨(trans1 C a.1 b.1, trans1 R a.2 b.2), ?_, ?_, trans1_bounds C a.1 b.1 hC, trans1_bounds R a.2 b.2 hR⟩
  · simp [translation_eq, hab]
  · rw [modIndex_eq_iff]
    exact ⟨trans1_reach C a.1 b.1 hC, trans1_reach R a.2 b.2 hR⟩

/-- … and these conditions determine the translation -/
theorem translation_unique (R C : Int) (hR : 0 < R) (hC : 0 < C) (a b t t' : Int × Int)
    (h : translation R C a b = .ok t)
    (hreach : modIndex R C (a.1 + t'.1, a.2 + t'.2) = modIndex R C b)
    (hx : -C < 2 * t'.1 ∧ 2 * t'.1 ≤ C) (hy : -R < 2 * t'.2 ∧ 2 * t'.2 ≤ R) : t' = t := by
  rw [translation_eq] at h
  split at h
  · cases h
  · cases h
    rw [modIndex_eq_iff] at hreach
    exact Prod.ext (trans1_unique C a.1 b.1 t'.1 hC hreach.1 hx.1 hx.2)
      (trans1_unique R a.2 b.2 t'.2 hR hreach.2 hy.1 hy.2)

/-- symmetric length, component-wise -/
theorem translation_symm (R C : Int) (hR : 0 < R) (hC : 0 < C) (a b t t' : Int × Int)
    (h : translation R C a b = .ok t) (h' : translation R C b a = .ok t') :
    t.1.natAbs = t'.1.natAbs ∧ t.2.natAbs = t'.2.natAbs := by
  rw [translation_eq] at h h'
  split at h
  · cases h
  · split at h'
    · cases h'
    · cases h; cases h'
      exact ⟨trans1_symm C a.1 b.1 hC, trans1_symm R a.2 b.2 hR⟩

/-- IndexError exactly for plaquettes of different type -/
theorem translation_error_iff (R C : Int) (a b : Int × Int) :
    translation R C a b = .error .index ↔ isZPlaquette a.1 a.2 ≠ isZPlaquette b.1 b.2 := by
  rw [translation_eq]
  by_cases hab : isZPlaquette a.1 a.2 = isZPlaquette b.1 b.2
  · simp [hab]
  · have : (isZPlaquette a.1 a.2 != isZPlaquette b.1 b.2) = true := by simpa using hab
    simp [this, hab]

/-- **path_weight**: the weight of the path operator is `max(|tx|, |ty|)` for the translation `(tx, ty)`
    (diagonal steps cover both axes at once) -/
theorem path_weight (R C : Int) (hS : Size R C) (a b : Int × Int)
    (hab : isZPlaquette a.1 a.2 = isZPlaquette b.1 b.2) :
    ∃ v t, path R C (identity R C) a b = .ok v ∧ translation R C a b = .ok t ∧
      bsfWt v = max t.1.natAbs t.2.natAbs := by
  obtain ⟨hR, hC, hRe, hCe⟩ := hS
  have hR0 : 0 < R := by omega
  have hC0 : 0 < C := by omega
  refine ⟨_, (trans1 C a.1 b.1, trans1 R a.2 b.2), path_eq R C a b hab, by simp [translation_eq, hab], ?_⟩
  have hop : pathOp a = P1.X ∨ pathOp a = P1.Z := by unfold pathOp; split <;> simp
  by_cases h : a = b
  · subst h
    have h1 : trans1 C a.1 a.1 = 0 := by rw [trans1_formula C a.1 a.1 hC0, if_pos (by omega)]
    have h2 : trans1 R a.2 a.2 = 0 := by rw [trans1_formula R a.2 a.2 hR0, if_pos (by omega)]
    rw [if_pos rfl, bsfWt_sites R C hR0 hC0 _ hop _ (by simp), h1, h2]
    rfl
  · rw [if_neg h, bsfWt_sites R C hR0 hC0 _ hop _
      (nodup_pathSites R C hR0 hC0 a _ _
        (by have := trans1_bounds C a.1 b.1 hC0; omega) (by have := trans1_bounds R a.2 b.2 hR0; omega)),
      pathSitesClosed_length]

/-- the step count of `RotatedToricSMWPMDecoder._distance` for a box of width `w` and height `h`
    (`delta_parallel + delta_diagonal`) -/
def boxSteps (w h : Int) : Int := if w ≥ h then (w - h) + h else (h - w) % 2 + h

/-- spatial step count of the decoder's `_distance` between in-lattice plaquettes, treating them as lying
    in rows (`byRow`) or in columns (x and y swapped) -/
def decoderSteps (R C : Int) (a b : Int × Int) (byRow : Bool) : Int :=
  let w : Int := min ((a.1 - b.1).natAbs : Int) (C - (a.1 - b.1).natAbs)
  let h : Int := min ((a.2 - b.2).natAbs : Int) (R - (a.2 - b.2).natAbs)
  if byRow then boxSteps w h else boxSteps h w

/-- … which, between in-lattice plaquettes of the same type, is the decoder's spatial step count
    `max(box_width, box_height)` in either orientation -/
theorem path_weight_distance (R C : Int) (hS : Size R C) (a b : Int × Int)
    (hab : isZPlaquette a.1 a.2 = isZPlaquette b.1 b.2)
    (ha : inBounds R C a.1 a.2 = true) (hb : inBounds R C b.1 b.2 = true) (byRow : Bool) :
    ∃ v, path R C (identity R C) a b = .ok v ∧ (bsfWt v : Int) = decoderSteps R C a b byRow := by
  obtain ⟨v, t, hv, ht, hw⟩ := path_weight R C hS a b hab
  obtain ⟨hR, hC, hRe, hCe⟩ := hS
  have hR0 : 0 < R := by omega
  have hC0 : 0 < C := by omega
  refine ⟨v, hv, ?_⟩
  rw [translation_eq, if_neg (by simp [hab])] at ht
  cases ht
  rw [inBounds_iff] at ha hb
  have e1 : a.1 % C = a.1 := Int.emod_eq_of_lt (by omega) (by omega)
  have e2 : b.1 % C = b.1 := Int.emod_eq_of_lt (by omega) (by omega)
  have e3 : a.2 % R = a.2 := Int.emod_eq_of_lt (by omega) (by omega)
  have e4 : b.2 % R = b.2 := Int.emod_eq_of_lt (by omega) (by omega)
  have nx := trans1_natAbs C a.1 b.1 hC0
  have ny := trans1_natAbs R a.2 b.2 hR0
  rw [e1, e2] at nx
  rw [e3, e4] at ny
  have px := trans1_parity C a.1 b.1 hC0 hCe
  have py := trans1_parity R a.2 b.2 hR0 hRe
  have pab := (isZPlaquette_eq_iff a b).mp hab
  rw [hw]
  simp only [decoderSteps, boxSteps]
  cases byRow <;> simp only [Bool.false_eq_true, ↓reduceIte] <;> (repeat' split) <;> omega

/-- `operator(index)`: the Pauli at the site `s` (index reduced modulo the lattice), read off a bsf -/
def operatorAt (R C : Int) (v : BVec) (s : Int × Int) : P1 :=
  let m := modIndex R C s
  let f := (flatten R C m.1 m.2).toNat
  P1.ofBits (v.getD f false) (v.getD ((nQubits R C).toNat + f) false)

/-- **plaquette_support**: the generator of plaquette `p` acts as Z (z-plaquette) / X (x-plaquette) on
    exactly its four corner sites SW, NW, NE, SE — with wrap-around — and as identity elsewhere -/
theorem plaquette_support (R C : Int) (hR : 2 ≤ R) (hC : 2 ≤ C) (p s : Int × Int) :
    operatorAt R C (stab R C p) s =
      if modIndex R C s ∈ [modIndex R C (p.1, p.2), modIndex R C (p.1, p.2 + 1),
          modIndex R C (p.1 + 1, p.2 + 1), modIndex R C (p.1 + 1, p.2)]
      then (if isZPlaquette p.1 p.2 then P1.Z else P1.X) else P1.I := by
  have hg := getD_sites R C (by omega) (by omega) (plaquetteOp p.1 p.2) (plaquetteSites p.1 p.2) s
  have hi := inc_true_iff R C hR hC s p
  have e : stab R C p = stabOf R C p := rfl
  have hmem : modIndex R C s ∈ [modIndex R C (p.1, p.2), modIndex R C (p.1, p.2 + 1),
      modIndex R C (p.1 + 1, p.2 + 1), modIndex R C (p.1 + 1, p.2)] ↔ inc R C s p = true := by
    rw [hi]
    simp only [List.mem_cons, List.not_mem_nil, or_false, eq_comm (a := modIndex R C s), modIndex_eq_iff]
  rw [e]
  unfold operatorAt
  show P1.ofBits ((stabOf R C p).getD (flatOf R C s) false)
    ((stabOf R C p).getD ((nQubits R C).toNat + flatOf R C s) false) = _
  unfold stabOf
  rw [hg.1, hg.2]
  change P1.ofBits ((plaquetteOp p.1 p.2).xBit && inc R C s p) ((plaquetteOp p.1 p.2).zBit && inc R C s p) = _
  by_cases hinc : inc R C s p = true
  · rw [if_pos (hmem.mpr hinc), hinc]
    unfold plaquetteOp
    split <;> rfl
  · rw [if_neg (fun h => hinc (hmem.mp h))]
    have : inc R C s p = false := by simpa using hinc
    rw [this]
    simp [P1.ofBits]

/-- every generator has weight 4, also on the smallest lattices (2 rows or 2 columns) -/
theorem plaquette_weight (R C : Int) (hR : 2 ≤ R) (hC : 2 ≤ C) (p : Int × Int) : bsfWt (stab R C p) = 4 := by
  have hop : plaquetteOp p.1 p.2 = P1.X ∨ plaquetteOp p.1 p.2 = P1.Z := by
    unfold plaquetteOp; split <;> simp
  exact bsfWt_sites R C (by omega) (by omega) _ hop _ (nodup_plaquetteSites R C hR hC p.1 p.2)

/-- **syndrome_bit_roundtrip**: syndrome bit `i` maps back to the `i`-th plaquette index, the plaquette
    whose generator is row `i` of `stabilizers` -/
theorem syndrome_bit_roundtrip (R C : Int) (i : Nat) (hi : i < (plaquetteIndices R C).length) :
    syndromeToPlaquettes R C ((List.range (plaquetteIndices R C).length).map fun j => decide (j = i)) =
      [(plaquetteIndices R C)[i]] ∧
    (stabilizers R C)[i]? = some (stab R C (plaquetteIndices R C)[i]) := by
  constructor
  · exact filterMap_zip_unit _ i hi
  · rw [stabilizers_eq, List.getElem?_map, List.getElem?_eq_getElem hi]
    rfl

/-! non-vacuity on a 4×6 lattice (rows 4, columns 6), kernel-evaluated -/
example : Size 4 6 := by unfold Size; omega
example : (ctor (.int 4) (.int 6)).toOption = some (4, 6) := by decide +kernel
/-- a wrap-around path with a diagonal and a straight part, from out-of-lattice indices -/
example : (path 4 6 (identity 4 6) (5, 1) (8, -2)).toOption.map (fun v => synd (stabilizers 4 6) v) =
    some ((plaquetteIndices 4 6).map fun p => (decide (p = (5, 1)) != decide (p = (2, 2)))) := by
  decide +kernel
example : (translation 4 6 (5, 1) (8, -2)).toOption = some (3, 1) ∧
    (translation 4 6 (8, -2) (5, 1)).toOption = some (3, -1) ∧
    (translation 4 6 (0, 0) (3, 2)).toOption = none ∧ (translation 4 6 (0, 0) (0, 2)).toOption = some (0, 2) := by
  decide +kernel
example : (path 4 6 (identity 4 6) (5, 1) (8, -2)).toOption.map bsfWt = some 3 := by decide +kernel
example : decoderSteps 4 6 (5, 1) (2, 2) true = 3 ∧ decoderSteps 4 6 (5, 1) (2, 2) false = 3 := by
  decide +kernel
example : operatorAt 4 6 (stab 4 6 (5, 3)) (0, 0) = P1.Z ∧ operatorAt 4 6 (stab 4 6 (5, 3)) (6, 4) = P1.Z ∧
    operatorAt 4 6 (stab 4 6 (5, 3)) (1, 0) = P1.I ∧ operatorAt 4 6 (stab 4 6 (4, 3)) (5, 0) = P1.X := by
  decide +kernel
example : (plaquetteIndices 4 6).length = 24 ∧ (plaquetteIndices 4 6)[13]? = some (3, 0) ∧
    syndromeToPlaquettes 4 6 ((List.range 24).map fun j => decide (j = 13)) = [(3, 0)] := by
  decide +kernel

end Qec.C15.RotatedToric
