/-
  C12 — MPS canonical forms and truncation honour their contracts.

  PROVED here (about the shape / control-flow model Model/MpsShape.lean, for all list lengths, all dimension
  assignments, all parameter values and ALL oracle inputs, i.e. whatever norms and singular values LAPACK hands
  the code): the shape, guard, mask, zero-flag and contiguity clauses of the property.
  Zero flag: a QR step with |R|_F = 0, an SVD step with σ₀ = 0, an SVD step at which tol discards EVERY normalised
  singular value (tol ≥ 1; repo fix bea8d12 — `tol_discards_all_is_zero_exit`, `tol_discards_all_gives_zeros`), or a zero
  last tensor under normalise.  The statements of the older theorems are unchanged; what they left implicit — a step
  that reports a kept rank keeps at least 1 — is now a theorem (`kept_rank_pos`): before the fix the model could report
  kept rank 0 (bond dimension 0) where the code raised IndexError.
  The numeric clauses (state preservation, isometry, unit norm, truncation error = discarded weight) are proved in
  their ALGEBRAIC form (exact real arithmetic, LAPACK's factorisation contract as hypothesis) in Props/C12/Sweep.lean;
  floating-point behaviour is explored by the monitors of harness/qv/props/c12.py — see the block at the end.
-/
import QecVerif.Lemmas.MpsShape
import QecVerif.Props.C12.Sweep
namespace Qec.C12
open Qec.Mps Qec.MpsLemmas

/-- the tensors of an MPS in order (None entries dropped) -/
def tensorsOf (m : Mps) : List Shape := m.filterMap id

/-- `_mps_start_stop_indices` raises exactly on lists with a tensor, a later None and a still later tensor -/
theorem noncontiguous_raises (m : Mps) :
    startStop m = .error .gap ↔
      ∃ xs t ys zs u ws, m = xs ++ some t :: (ys ++ none :: (zs ++ some u :: ws)) := by
  constructor
  · intro h
    obtain ⟨k, run, tl, hm, _, hhd, hs⟩ := startStop_struct m
    rw [hs] at h
    by_cases hr : run = []
    · simp [hr] at h
    · simp only [hr, ↓reduceIte] at h
      by_cases hall : tl.all Option.isNone = true
      · simp [hall] at h
      · have hall' : tl.all Option.isNone = false := by simpa using hall
        obtain ⟨u, hu, hu'⟩ := List.all_eq_false.mp hall'
        cases tl with
        | nil => simp at hu
        | cons x rest =>
          have hx := hhd x rest rfl
          subst hx
          cases u with
          | none => simp at hu'
          | some s =>
            rcases List.mem_cons.mp hu with hu | hu
            · cases hu
            · obtain ⟨zs, ws, hrest⟩ := List.append_of_mem hu
              cases run with
              | nil => exact absurd rfl hr
              | cons t run' =>
                refine ⟨List.replicate k none, t, run'.map some, zs, s, ws, ?_⟩
                rw [hm, hrest]; simp
  · rintro ⟨xs, t, ys, zs, u, ws, rfl⟩
    simp only [startStop, aux0_gap]

/-- … and the canonical forms propagate the error (after their parameter assertions) -/
theorem noncontiguous_lcf_raises (p : Params) (m : Mps) (orc : List Orc)
    (h1 : (p.chiOn && p.qr) = false) (h2 : (p.tolOn && p.qr) = false) (h3 : maskLenBad p.mask m = false)
    (hgap : ∃ xs t ys zs u ws, m = xs ++ some t :: (ys ++ none :: (zs ++ some u :: ws))) :
    lcf p m orc = .error .gap := by
  have := (noncontiguous_raises m).mpr hgap
  simp [lcf, h1, h2, h3, this]

/-- `truncate` returns its input unchanged with norm 1 exactly when its guard is false, and the guard is false
    exactly when the list is empty, or tol is off and (chi is off or no N dimension exceeds chi), or the mask is
    all false -/
theorem truncate_id_when_small (chi : Option Nat) (tol : Option Rat) (mask : Option (List Bool)) (m : Mps)
    (orc : List Orc) :
    (truncGuard chi tol mask m = false → truncate chi tol mask m orc = .ok ⟨m, true, false, [], [], orc⟩) ∧
    (truncGuard chi tol mask m = true → ∀ r, truncate chi tol mask m orc = .ok r → r.same = false) ∧
    (truncGuard chi tol mask m = false ↔
      (m = [] ∨ (optOnRat tol = false ∧ (optOnNat chi = false ∨ ∃ c, chi = some c ∧ ∀ t ∈ m, siteN t ≤ c)) ∨
       ∃ l, mask = some l ∧ ∀ b ∈ l, b = false)) := by
  refine ⟨?_, ?_, ?_⟩
  · intro h; simp [truncate, h]
  · intro h r hr
    simp only [truncate, h, Bool.not_true, Bool.false_eq_true, ↓reduceIte] at hr
    split at hr
    · cases hr
    · split at hr
      · cases hr
      · cases hr; rfl
  · unfold truncGuard
    have hchi : chiBelow chi (bondDim m) = false ↔
        (optOnNat chi = false ∨ ∃ c, chi = some c ∧ ∀ t ∈ m, siteN t ≤ c) := by
      cases chi with
      | none => simp [chiBelow, optOnNat]
      | some c =>
        simp only [chiBelow, optOnNat, Bool.and_eq_false_imp, bne_iff_ne, ne_eq, decide_eq_false_iff_not, Nat.not_lt,
          bondDim_le, bne_eq_false_iff_eq, Option.some.injEq, exists_eq_left']
        by_cases hc : c = 0 <;> simp [hc]
    have hmask : maskAny mask = false ↔ ∃ l, mask = some l ∧ ∀ b ∈ l, b = false := by
      cases mask with
      | none => simp [maskAny]
      | some l => simp [maskAny]
    have hlen : (m.length != 0) = false ↔ m = [] := by simp
    rw [Bool.and_eq_false_iff, Bool.and_eq_false_iff, Bool.or_eq_false_iff, hchi, hmask, hlen, or_assoc]

/-- "is the identity when no bond exceeds chi" -/
theorem truncate_id_when_no_bond_exceeds_chi (c : Nat) (mask : Option (List Bool)) (m : Mps) (orc : List Orc)
    (h : ∀ t ∈ m, siteN t ≤ c) :
    truncate (some c) none mask m orc = .ok ⟨m, true, false, [], [], orc⟩ := by
  have := truncate_id_when_small (some c) none mask m orc
  exact this.1 (this.2.2.mpr (Or.inr (Or.inl ⟨rfl, Or.inr ⟨c, rfl, h⟩⟩)))

/-- every decomposition of `left_canonical_form` is QR iff `qr or not mask[row]`, a QR step keeps the full rank
    min(rows, cols) (no truncation at masked-off sites), no step keeps more than min(rows, cols), and an SVD step
    with chi on keeps at most chi -/
theorem mask_respected (p : Params) (m : Mps) (orc : List Orc) (r : Res) (h : lcf p m orc = .ok r) :
    ∀ st ∈ r.trace, st.row < m.length ∧ st.isQr = (p.qr || !(maskAt p.mask st.row)) ∧
      (st.isQr = true → ∀ k, st.kept = some k → k = min st.rows st.cols) ∧
      (∀ k, st.kept = some k → k ≤ min st.rows st.cols) ∧
      (st.isQr = false → ∀ c, p.chi = some c → c ≠ 0 → ∀ k, st.kept = some k → k ≤ c) := by
  intro st hst
  obtain ⟨a, c, run, hm, ⟨_, rfl⟩ | ⟨cur, more, sr, rfl, hsw, ⟨_, rfl⟩ | ⟨out, _, rfl⟩⟩⟩ := lcf_ok h
  · simp at hst
  all_goals
    obtain ⟨h1, h2, h3, h4, h5, h6⟩ := sweep_trace_spec p _ more a cur orc sr hsw st hst
    refine ⟨?_, h3, h4, h5, h6⟩
    rw [hm]; simp; omega

/-- the same for `right_canonical_form`, with the mask indexed by the ORIGINAL (un-reversed) site: the mask
    reversal inside `right_canonical_form` is right -/
theorem mask_respected_rcf (p : Params) (m : Mps) (orc : List Orc) (r : Res) (h : rcf p m orc = .ok r) :
    ∀ st ∈ r.trace, st.isQr = (p.qr || !(maskAt p.mask st.row)) ∧
      (st.isQr = true → ∀ k, st.kept = some k → k = min st.rows st.cols) ∧
      (st.isQr = false → ∀ c, p.chi = some c → c ≠ 0 → ∀ k, st.kept = some k → k ≤ c) := by
  intro st hst
  unfold rcf at h
  split at h
  · cases h
  · rename_i r' hr'
    cases h
    simp only [List.mem_map] at hst
    obtain ⟨st', hst', rfl⟩ := hst
    obtain ⟨hrow, hq, hfull, _, hchi⟩ := mask_respected _ _ _ _ hr' st' hst'
    have hlenbad := (lcf_ok_asserts hr').2.2
    refine ⟨?_, hfull, hchi⟩
    rw [hq]
    simp only
    rw [rev_length] at hrow
    cases hmask : p.mask with
    | none => simp [maskAt]
    | some l =>
      simp only [hmask, Option.map_some, maskLenBad, List.length_reverse, rev_length, bne_eq_false_iff_eq] at hlenbad
      simp only [Option.map_some]
      rw [maskAt_reverse (by omega), hlenbad]

/-- zero detection: the flag gives `zeros_like(mps)` (and norm 0), a step that raises the flag is the last step
    of the sweep (nothing is decomposed, divided or read afterwards), and without the flag no step saw a zero -/
theorem zero_gives_zeros (p : Params) (m : Mps) (orc : List Orc) (r : Res) (h : lcf p m orc = .ok r) :
    (r.zero = true → r.tensors = zerosLike m) ∧
    (∀ pre st post, r.trace = pre ++ st :: post → st.kept = none → post = [] ∧ r.zero = true) ∧
    (r.zero = false → ∀ st ∈ r.trace, st.kept ≠ none) ∧
    (orc.length ≤ r.rest.length + r.trace.length + 1) := by
  obtain ⟨a, c, run, hm, ⟨_, rfl⟩ | ⟨cur, more, sr, rfl, hsw, hcase⟩⟩ := lcf_ok h
  · refine ⟨by simp, ?_, by simp, by simp⟩
    intro pre st post htr; simp at htr
  · have hz := sweep_zero_last p _ more a cur orc sr hsw
    have ho := (sweep_oracle_consumed p _ more a cur orc sr hsw).2
    rcases hcase with ⟨hf, rfl⟩ | ⟨out, hf, rfl⟩
    · refine ⟨fun _ => rfl, fun pre st post htr hk => ⟨(hz pre st post htr hk).1, rfl⟩, by simp, by simp only; omega⟩
    · refine ⟨by simp, ?_, ?_, by simp only; omega⟩
      · intro pre st post htr hk
        have := (hz pre st post htr hk).2
        rw [hf] at this; cases this
      · intro _ st hst hk
        obtain ⟨pre, post, htr⟩ := List.append_of_mem hst
        have := (hz pre st post htr hk).2
        rw [hf] at this; cases this

/-- (repo fix bea8d12) WHEN an SVD step raises the zero flag: the largest singular value is 0, or tol is on and no
    normalised singular value exceeds it (`s = s[s > tol]` leaves nothing — tol ≥ 1): kept rank 0 is a zero exit,
    exactly like σ₀ = 0; chi never causes it -/
theorem tol_discards_all_is_zero_exit (p : Params) (rows cols : Nat) (sig : List Rat) :
    stepDecide p false rows cols (.svd sig) = .ok .zero ↔
      sig ≠ [] ∧ (sig.headD 0 = 0 ∨ ∃ t, p.tol = some t ∧ t ≠ 0 ∧ ∀ x ∈ sig, ¬ t < x / sig.headD 0) := by
  rw [stepDecide_svd_zero_iff, keptSigmas_length_eq_zero_iff]
  constructor
  · rintro ⟨hne, h0 | hnil | ht⟩
    · exact ⟨hne, Or.inl h0⟩
    · exact absurd hnil hne
    · exact ⟨hne, Or.inr ht⟩
  · rintro ⟨hne, h0 | ht⟩
    · exact ⟨hne, Or.inl h0⟩
    · exact ⟨hne, Or.inr (Or.inr ht)⟩

/-- … consequently such a step gives `zeros_like(mps)` with the zero flag (norm 0 where a norm is returned) and is the
    last step: the instance of `zero_gives_zeros` for the step that met the all-discarding tol -/
theorem tol_discards_all_gives_zeros (p : Params) (m : Mps) (orc : List Orc) (r : Res) (h : lcf p m orc = .ok r)
    (pre post : List Step) (st : Step) (htr : r.trace = pre ++ st :: post) (hk : st.kept = none) :
    r.tensors = zerosLike m ∧ r.zero = true ∧ post = [] := by
  obtain ⟨h1, h2, _, _⟩ := zero_gives_zeros p m orc r h
  obtain ⟨hpost, hz⟩ := h2 pre st post htr hk
  exact ⟨h1 hz, hz, hpost⟩

/-- a step that does NOT raise the zero flag keeps at least rank 1 (non-empty matrix): "kept rank ≥ 1", which the
    theorems about kept ranks used to leave implicit (before fix bea8d12 the code raised IndexError at kept rank 0
    and the model returned a bond of dimension 0), now holds for every successful run of the model -/
theorem kept_rank_pos (p : Params) (m : Mps) (orc : List Orc) (r : Res) (h : lcf p m orc = .ok r) :
    ∀ st ∈ r.trace, ∀ k, st.kept = some k → 0 < st.rows → 0 < st.cols → 0 < k := by
  intro st hst
  obtain ⟨a, c, run, hm, ⟨_, rfl⟩ | ⟨cur, more, sr, rfl, hsw, ⟨_, rfl⟩ | ⟨out, _, rfl⟩⟩⟩ := lcf_ok h
  · simp at hst
  all_goals exact sweep_trace_pos p _ more a cur orc sr hsw st hst

/-- `right_canonical_form` is reverse ∘ left_canonical_form(reversed mask) ∘ reverse; reversal is an involution
    that commutes with `zeros_like`, so the zero flag of the right form also yields `zeros_like` of the GIVEN list -/
theorem rcf_is_reverse_lcf_reverse (p : Params) (m : Mps) (orc : List Orc) :
    (∀ r, rcf p m orc = .ok r ↔ ∃ r', lcf { p with mask := p.mask.map List.reverse } (rev m) orc = .ok r' ∧
        r = { r' with tensors := rev r'.tensors,
                      trace := r'.trace.map fun s => { s with row := m.length - 1 - s.row } }) ∧
    (∀ e, rcf p m orc = .error e ↔ lcf { p with mask := p.mask.map List.reverse } (rev m) orc = .error e) ∧
    rev (rev m) = m ∧ zerosLike (rev m) = rev (zerosLike m) ∧
    (∀ r, rcf p m orc = .ok r → r.zero = true → r.tensors = zerosLike m) := by
  refine ⟨?_, ?_, rev_rev m, zerosLike_rev m, ?_⟩
  · intro r
    unfold rcf
    split
    · rename_i e he; simp [he]
    · rename_i r' hr'
      simp only [Except.ok.injEq, hr', exists_eq_left']
      exact ⟨fun h => h.symm, fun h => h.symm⟩
  · intro e
    unfold rcf
    split
    · rename_i e' he; simp [he]
    · rename_i r' hr'; simp [hr']
  · intro r h hz
    unfold rcf at h
    split at h
    · cases h
    · rename_i r' hr'
      cases h
      simp only at hz ⊢
      rw [(zero_gives_zeros _ _ _ _ hr').1 hz, zerosLike_rev, rev_rev]

/-- the output of a canonical form is again a well-formed MPS: same None pattern, same physical dimensions,
    and consecutive output bonds match (S of each tensor = N of the next) -/
theorem shapes_compatible (p : Params) (m : Mps) (orc : List Orc) (r : Res) (h : lcf p m orc = .ok r) :
    bondsOk (tensorsOf r.tensors) ∧ r.tensors.map Option.isSome = m.map Option.isSome ∧
    (tensorsOf r.tensors).map phys = (tensorsOf m).map phys := by
  have hones : ∀ l : List Shape, (∀ t ∈ l, t.n = 1 ∧ t.s = 1) → bondsOk l := by
    intro l
    induction l with
    | nil => intro _; trivial
    | cons a l ih =>
      intro hl
      cases l with
      | nil => trivial
      | cons b l =>
        exact ⟨by rw [(hl a (by simp)).2, (hl b (by simp)).1], ih (fun t ht => hl t (List.mem_cons_of_mem _ ht))⟩
  obtain ⟨a, c, run, hm, ⟨hrun, rfl⟩ | ⟨cur, more, sr, rfl, hsw, ⟨_, rfl⟩ | ⟨out, hf, rfl⟩⟩⟩ := lcf_ok h
  · refine ⟨?_, rfl, rfl⟩
    simp only [tensorsOf]
    rw [hm, hrun]
    simp [filterMap_id_replicate_none, bondsOk]
  · refine ⟨hones _ (fun t ht => mem_zerosLike_filterMap ht), ?_, ?_⟩
    · simp only [zerosLike, List.map_map]
      congr 1; funext x; cases x <;> rfl
    · simp only [tensorsOf, zerosLike]
      generalize m = mm
      induction mm with
      | nil => rfl
      | cons x xs ih => cases x <;> simp_all [phys, zeroShape]
  · obtain ⟨hl, hb, hp, _, _⟩ := sweep_done_shape p _ more a cur orc sr out hsw hf
    have ht : tensorsOf (List.replicate a none ++ (out.map some ++ List.replicate c none)) = out := by
      simp [tensorsOf, List.filterMap_append, filterMap_id_replicate_none, filterMap_id_map_some]
    have hmt : tensorsOf m = cur :: more := by
      rw [hm]
      simp only [tensorsOf, List.filterMap_append, filterMap_id_replicate_none, filterMap_id_map_some,
        List.nil_append, List.append_nil]
    refine ⟨by rw [ht]; exact hb, ?_, by rw [ht, hmt]; exact hp⟩
    rw [hm]
    simp only [List.map_append, List.map_map, List.map_replicate]
    congr 2
    have : (Option.isSome ∘ some : Shape → Bool) = fun _ => true := rfl
    rw [this, List.map_const', List.map_const', hl, List.length_cons]

/-- after `truncate(mps, chi)` with a full mask (None or all true) that did not take the no-op shortcut, every
    bond between consecutive tensors of the result is at most chi — for every MPS/MPO, every tol and whatever
    singular values the SVDs return -/
theorem bond_le_chi (c : Nat) (hc : c ≠ 0) (tol : Option Rat) (mask : Option (List Bool))
    (hmask : ∀ l, mask = some l → ∀ b ∈ l, b = true) (m : Mps) (orc : List Orc) (r : TruncRes)
    (h : truncate (some c) tol mask m orc = .ok r) (hs : r.same = false) :
    ∀ t ∈ (tensorsOf r.tensors).tail, t.n ≤ c := by
  unfold truncate at h
  split at h
  · cases h; simp at hs
  · split at h
    · cases h
    · rename_i r1 hr1
      split at h
      · cases h
      · rename_i r2 hr2
        cases h
        simp only
        unfold rcf at hr2
        split at hr2
        · cases hr2
        · rename_i r' hr'
          cases hr2
          simp only [tensorsOf, filterMap_id_rev]
          intro t ht
          rw [← List.map_tail, List.tail_reverse] at ht
          simp only [List.mem_map, List.mem_reverse] at ht
          obtain ⟨u, hu, rfl⟩ := ht
          show u.s ≤ c
          have hmk : ∀ i, maskAt (Option.map List.reverse mask) i = true := by
            apply maskAt_all_true
            intro l hl b hb
            cases mask with
            | none => simp at hl
            | some l' =>
              simp only [Option.map_some, Option.some.injEq] at hl
              subst hl
              exact hmask l' rfl b (List.mem_reverse.mp hb)
          obtain ⟨a, cc, run, hm, ⟨hrun, rfl⟩ | ⟨cur, more, sr, rfl, hsw, ⟨_, rfl⟩ | ⟨out, hf, rfl⟩⟩⟩ := lcf_ok hr'
          · simp only at hu
            rw [hm, hrun] at hu
            simp [filterMap_id_replicate_none] at hu
          · have := (mem_zerosLike_filterMap (List.dropLast_subset _ hu)).2
            omega
          · have ht : (List.replicate a none ++ (out.map some ++ List.replicate cc none)).filterMap id = out := by
              simp [List.filterMap_append, filterMap_id_replicate_none, filterMap_id_map_some]
            simp only [ht] at hu
            have hfun : (maskAt (Option.map List.reverse mask)) = fun _ => true := funext hmk
            exact sweep_inner_le _ _ c rfl hc rfl (fun i => by simp only [hmk]) more a cur _ sr out hsw hf u hu

/-! non-vacuity: a 3-site MPS with bonds 3 and 4 truncated to chi = 2 (oracle: QR norms, last norm, two SVDs) -/

example : (truncate (some 2) none none [none, some ⟨1, 2, 3, 1⟩, some ⟨3, 2, 4, 1⟩, some ⟨4, 2, 1, 1⟩]
      [.qr 2, .qr 3, .last 5, .svd [1, 1/2], .svd [3, 1, 1/4, 0]]).toOption.map (·.tensors) =
    some [none, some ⟨1, 2, 2, 1⟩, some ⟨2, 2, 2, 1⟩, some ⟨2, 2, 1, 1⟩] := by rfl

example : startStop [some ⟨1, 1, 1, 1⟩, none, some ⟨1, 1, 1, 1⟩] = .error .gap := by rfl

example : (lcf { normalise := true } [some ⟨1, 2, 2, 1⟩, some ⟨2, 2, 1, 1⟩] [.svd [0, 0]]).toOption.map (·.tensors) =
    some [some ⟨1, 2, 1, 1⟩, some ⟨1, 2, 1, 1⟩] := by rfl

/-! non-vacuity of the tol exit (fix bea8d12): normalised singular values (1, 1/2) under tol = 1 — nothing is kept:
    `left_canonical_form` answers zeros_like with the zero flag; `truncate` answers zeros_like with the NON-zero norm of
    its first (normalising QR) sweep (`z = false`: "norm from putting into left canonical form", as the code has it);
    tol = 1/2 keeps rank 1 -/

example : (lcf { tol := some 1, normalise := true } [some ⟨1, 2, 2, 1⟩, some ⟨2, 2, 1, 1⟩] [.svd [3, 3/2]]).toOption.map
      (fun r => (r.tensors, r.zero, r.trace)) =
    some ([some ⟨1, 2, 1, 1⟩, some ⟨1, 2, 1, 1⟩], true, [⟨0, false, 2, 2, none⟩]) := by decide +kernel

example : (truncate none (some (3/2)) none [some ⟨1, 2, 2, 1⟩, some ⟨2, 2, 1, 1⟩]
      [.qr 2, .last 5, .svd [1, 1/2]]).toOption.map (fun r => (r.tensors, r.same, r.zero, r.trace2)) =
    some ([some ⟨1, 2, 1, 1⟩, some ⟨1, 2, 1, 1⟩], false, false, [⟨1, false, 2, 2, none⟩]) := by decide +kernel

example : (lcf { tol := some (1/2) } [some ⟨1, 2, 2, 1⟩, some ⟨2, 2, 1, 1⟩] [.svd [3, 3/2]]).toOption.map (·.tensors) =
    some [some ⟨1, 2, 1, 1⟩, some ⟨1, 2, 1, 1⟩] := by decide +kernel

/-
PROVED in Props/C12/Sweep.lean (namespace Qec.C12.Sweep; over ℝ, factorisations as hypotheses):
  sweep_step_preserves, sweep_step_isometry, rsweep_step, sweep_preserves_state, sweep_isometry, lcf_norm,
  lcf_normalised, truncation_error_eq, truncation_state_error, truncation_error_step, truncation_error_bound
  (the squared distance after a truncating sweep EQUALS the accumulated discarded weight, errors add in quadrature),
  truncate_contract (lcf + reversed truncating sweep: |in - norm*out|^2 = norm^2 * discarded weight, |in| = norm).

STATED, NOT PROVED:

  link_model_to_algebra: the shape model of this file (Model/MpsShape.lean) and the algebraic chain model
    (Lemmas/Sweep.lean) are two separate models of the same loop; that the step sequence chosen by the shape model
    (QR iff `qr ∨ ¬mask`, kept rank, zero shortcut) is a derivation of `LSweep` / `TSweep` is argued in the
    docstrings, not proved.  (The reversal link IS proved: `Qec.Sweep.Chain.tailRightCan_reverse`, `eval_reverse`.)
  floating_point: the theorems are exact-arithmetic; that LAPACK's factors satisfy `A = QR`, `QᵀQ = 1`,
    `A = UΣVᵀ` to rounding, and that residuals do not grow along the sweep, is evaluated numerically on every
    generated case by harness/qv/props/c12.py (coverage.explored: state_preservation, isometry_sites, unit_norm,
    truncation_error, zero_state, finite) — exploration, not proof.
-/

end Qec.C12
