/-
  C02 / C03 / C13 link — EXISTENCE of the matchings the symmetry-matching decoders need
  (`RotatedPlanarSMWPMDecoder`, `RotatedToricSMWPMDecoder`; model: Model/Smwpm.lean).

  Props/C02/Smwpm.lean, Props/C02/SmwpmToric.lean and Props/C03/Smwpm.lean prove: for ANY perfect matchings of the
  modelled symmetry graph and cluster graph (`matchingsOk`) the modelled `decode_ftp` returns a recovery with the right
  syndrome.  Here: such matchings EXIST — explicit constructors `canonicalMatching`, `T.canonicalMatching`,
  `clusterMatching` (Lemmas/SmwpmExists.lean) — hence every maximum-cardinality matching (what
  `networkx.max_weight_matching(…, maxcardinality=True)` returns — C13) is perfect (`max_card_perfect`), and decoding
  never fails ("never raises, never returns nothing").

  PROVED (all sizes, every number of time steps, every array of rows):
  * `smwpm_planar_graph_has_pm` — rotated planar symmetry graph, under `Feasible`: finite bias and `p ≠ 0` → EVERY
    array, whatever `q` (`feasible_finite_bias`); `p = 0` (no space-like edges, any bias) → iff-style condition "each
    plaquette is a defect at an even number of time steps (none if also `q ∈ {0,1}`)", which is what a simulation
    without qubit errors produces (the rows XOR to zero / are zero);
  * `smwpm_planar_cluster_graph_has_pm` — the cluster graph built from ANY perfect matching of the first graph has a
    perfect matching (`T ≥ 1`; no further condition: extra node ↔ odd number of defective clusters, 4T corners);
  * `smwpm_planar_never_fails`, `smwpm_planar_max_cardinality_succeeds` — `matchingsOk` is satisfiable, the recovery
    exists with syndrome = XOR of the rows, for the canonical and for every maximum-cardinality choice;
  * `smwpm_toric_graph_has_pm` (under `FeasibleT`: parities, no virtual nodes), `smwpm_toric_cluster_graph_has_pm`
    (the `assert` on the number of defective clusters holds and the complete cluster graph has a perfect matching
    whenever the number of X-type defects is even, `EvenX`), `smwpm_toric_never_fails`,
    `smwpm_toric_max_cardinality_succeeds`;
  * `smwpm_toric_even_x`, `smwpm_toric_feasible_of_reachable` — `EvenX`, and `FeasibleT` at finite bias, `p ≠ 0`,
    `0 < q < 1`, for every array whose XOR is the syndrome of an error (`reachable_iff_mid`), given that the X-type
    (resp. all) generators XOR to the identity (`XDep`, `AllDep`; `xdep_bounded`: by evaluation up to 6×6);
  * `canonical_*_bounded` — the constructors evaluated by the kernel against the model's own
    `isPerfectMatchingOfGraph` on small instances.

  STATED, NOT PROVED (in this file) — AUDIT: every item below is NOW PROVED, for all sizes, in
  Props/C02/SmwpmExists2.lean / Props/C02/SmwpmEven.lean (the theorem names follow each item):
  * infinite bias with `p ≠ 0` (`etaNone ∧ ¬pZero`), both codes: row nodes may only be matched within their row,
    column nodes within their column, so one pairing cannot serve both orientations and `canonicalMatching` does not
    cover it.  Planar: a perfect matching exists iff every line WITHOUT a virtual plaquette (rows `y` even,
    `0 ≤ y ≤ R-2`, when `C` is even; columns `x` odd, `0 ≤ x ≤ C-2`, when `R` is even) holds an even number of defects
    (per time step when `q ∈ {0,1}`) — a T-join over the connected ring of boundary lines; true for Y-only errors
    (a Y flips two plaquettes of such a line), false e.g. for a single X error, where qecsim raises 'Cluster is not a
    closed loop'.  Toric: iff every row and every column holds an even number of defects.  (For the 3×3 planar code
    every line has a virtual plaquette.)
      → `smwpm_planar_graph_has_pm_infinite_bias` (`LineEvenP`), `smwpm_toric_graph_has_pm_infinite_bias`
        (`LineEvenT`), `smwpm_planar_line_even_of_yonly`, `smwpm_toric_line_even_of_yonly`,
        `smwpm_*_never_fails_infinite_bias`, `smwpm_*_max_cardinality_succeeds_infinite_bias` (SmwpmExists2); the
        "iff": `smwpm_planar_pm_iff_infinite_bias`, `smwpm_toric_pm_iff_infinite_bias`; the single X error:
        `no_pm_single_x_bounded` (SmwpmEven).
  * `XDep R C`, `AllDep R C` for all even `R, C ≥ 2` (Props/C07/RotatedToric.lean `dep_core`: every site lies in
    exactly two plaquettes of a type; the bridge to `xorAll` of the generator rows is not written)
      → `xdep_all_sizes`, `alldep_all_sizes`, hence `smwpm_toric_even_x_all_sizes`,
        `smwpm_toric_feasible_of_reachable_all_sizes` (SmwpmExists2);
  * `FeasibleT` from reachability at finite bias, `p ≠ 0`, `q ∈ {0,1}`: every row is itself a syndrome
    (`reachable_iff_zero/one`), so `even_selected` applied to the one-row arrays gives the per-time-step counts
      → `smwpm_toric_feasible_of_reachable_any_q`, `smwpm_toric_never_fails_finite_bias` (SmwpmExists2);
  * `Feasible` / `FeasibleT` for `p = 0` from `reachable … (supp := identity only)`: `xorAll rows = zeros`
    (`reachable_iff_mid`) gives the even counts through `xorAll_rows`; each row zero (`reachable_iff_zero/one`) gives
    "no defects"
      → `smwpm_planar_feasible_p_zero`, `smwpm_toric_feasible_p_zero`, `smwpm_planar_never_fails_p_zero`,
        `smwpm_toric_never_fails_p_zero` (SmwpmExists2);
  * necessity of `Feasible` (for `p = 0` it is necessary: a defect node has only time-like neighbours at its own
    plaquette; evaluation 3×3, T = 1: of the 256 arrays only the zero array has a perfect matching when `p = 0`)
      → `smwpm_planar_feasible_necessary_p_zero`, `smwpm_toric_feasible_necessary_p_zero`,
        `smwpm_planar_pm_iff_p_zero`, `smwpm_toric_pm_iff_p_zero`, `no_pm_p_zero_bounded` (SmwpmEven).
  Genuinely open after the audit: nothing in this list; "`gt.mwpm` returns a maximum-cardinality matching" is C13's
  statement and stays a hypothesis (`IsMaxCardinality`) of the `…max_cardinality…` theorems.
-/
import QecVerif.Props.C02.Smwpm
import QecVerif.Props.C02.SmwpmToric
import QecVerif.Props.C03
import QecVerif.Props.C03.Smwpm
import QecVerif.Lemmas.SmwpmExists
namespace Qec.C02.SmwpmExists
open Qec Qec.Smwpm Qec.SmwpmL Qec.SmwpmX

/-! ## rotated planar -/

/-- **when the symmetry graph has a perfect matching** (sufficient, and for `p = 0` also necessary):
    * `error_probability == 0` (no space-like edges): every plaquette is a defect at an even number of time steps —
      and at none if `measurement_error_probability in (0, 1)` (no time-like edges either);
    * otherwise: finite bias (at infinite bias with `p ≠ 0` see `STATED, NOT PROVED`). -/
def Feasible (fl : Flags) (R C : Int) (rows : List BVec) : Prop :=
  if fl.pZero = true then
    (∀ p, ((List.range rows.length).countP fun t => isDefect R C rows t p) % 2 = 0) ∧
    (fl.q01 = true → ∀ t p, isDefect R C rows t p = false)
  else fl.etaNone = false

/-- finite bias, `p ≠ 0` (the decoder's main domain): EVERY array of rows is feasible, whatever `q` is -/
theorem feasible_finite_bias (fl : Flags) (R C : Int) (rows : List BVec) (he : fl.etaNone = false)
    (hp : fl.pZero = false) : Feasible fl R C rows := by
  unfold Feasible; rw [hp]; simpa using he

/-- **the modelled symmetry graph has a perfect matching** — the explicit `canonicalMatching` — for all `R, C ≥ 3`
    (indeed `≥ 0`), every number of time steps, every array of rows (of any lengths) and every flag setting under
    `Feasible` -/
theorem smwpm_planar_graph_has_pm (fl : Flags) (R C : Int) (hR : 3 ≤ R) (hC : 3 ≤ C) (rows : List BVec)
    (hf : Feasible fl R C rows) :
    Dec.isPerfectMatchingOfGraph (graphNodes R C rows) (graphEdges fl R C rows) (canonicalMatching fl R C rows) = true := by
  unfold Feasible at hf
  by_cases hp : fl.pZero = true
  · rw [if_pos hp] at hf
    exact canonical_time fl R C (by omega) (by omega) rows hp hf.1 hf.2
  · rw [if_neg hp] at hf
    exact canonical_space fl R C (by omega) (by omega) rows (by simpa using hp) hf

/-- **the cluster graph built from ANY perfect matching of the symmetry graph has a perfect matching** — the explicit
    `clusterMatching` (`T ≥ 1`; no condition on the flags or the rows beyond their length) -/
theorem smwpm_planar_cluster_graph_has_pm (fl : Flags) (R C : Int) (hR : 3 ≤ R) (hC : 3 ≤ C)
    (rows : List BVec) (hT : 1 ≤ rows.length) (hrows : ∀ r ∈ rows, r.length = (RotatedPlanar.plaquetteIndices R C).length)
    (ms : List (Node × Node))
    (hpm : Dec.isPerfectMatchingOfGraph (graphNodes R C rows) (graphEdges fl R C rows) ms = true) :
    ∃ cls ns, clusters ms = .ok cls ∧ clusterNodes R C rows.length cls = .ok ns ∧
      Dec.isPerfectMatchingOfGraph (List.range ns.length) (clusterEdges ns) (clusterMatching ns) = true := by
  obtain ⟨cls, ns, h1, h2, _⟩ := C02.Smwpm.smwpm_planar_total fl R C hR hC rows hrows ms hpm
  exact ⟨cls, ns, h1, h2, planar_cluster_pm R C rows.length hT cls ns h2⟩

/-- the second matching as a function of the first -/
def clusterMatchingOf (R C : Int) (T : Nat) (ms : List (Node × Node)) : List (Nat × Nat) :=
  match clusters ms with
  | .error _ => []
  | .ok cls =>
    match clusterNodes R C T cls with
    | .error _ => []
    | .ok ns => clusterMatching ns

/-- **never fails**: for every feasible input both matchings exist (`matchingsOk`), hence (Props/C02/Smwpm.lean) the
    modelled `decode_ftp` returns a recovery whose syndrome is the XOR of the rows -/
theorem smwpm_planar_never_fails (fl : Flags) (R C : Int) (hR : 3 ≤ R) (hC : 3 ≤ C)
    (rows : List BVec) (hT : 1 ≤ rows.length) (hrows : ∀ r ∈ rows, r.length = (RotatedPlanar.plaquetteIndices R C).length)
    (hf : Feasible fl R C rows) :
    matchingsOk fl R C rows (canonicalMatching fl R C rows)
      (clusterMatchingOf R C rows.length (canonicalMatching fl R C rows)) = true ∧
    ∃ r, decode R C rows.length (canonicalMatching fl R C rows)
        (clusterMatchingOf R C rows.length (canonicalMatching fl R C rows)) = .ok r ∧
      synd (RotatedPlanar.stabilizers R C) r = xorAll (RotatedPlanar.plaquetteIndices R C).length rows := by
  have h1 := smwpm_planar_graph_has_pm fl R C hR hC rows hf
  obtain ⟨cls, ns, hc, hn, h2⟩ := smwpm_planar_cluster_graph_has_pm fl R C hR hC rows hT hrows _ h1
  have hok : matchingsOk fl R C rows (canonicalMatching fl R C rows)
      (clusterMatchingOf R C rows.length (canonicalMatching fl R C rows)) = true := by
    unfold matchingsOk clusterMatchingOf
    rw [h1, hc]; simp only [hn, Bool.true_and]
    exact h2
  exact ⟨hok, C02.Smwpm.smwpm_planar_syndrome fl R C hR hC rows hrows _ _ hok⟩

/-- **every maximum-cardinality choice succeeds**: if what `gt.mwpm` returns for the two graphs are
    maximum-cardinality matchings (C13), then on every feasible input they are perfect, the model never raises and
    the recovery has syndrome = XOR of the rows -/
theorem smwpm_planar_max_cardinality_succeeds (fl : Flags) (R C : Int) (hR : 3 ≤ R) (hC : 3 ≤ C)
    (rows : List BVec) (hT : 1 ≤ rows.length) (hrows : ∀ r ∈ rows, r.length = (RotatedPlanar.plaquetteIndices R C).length)
    (hf : Feasible fl R C rows) (ms : List (Node × Node))
    (hms : IsMaxCardinality (graphNodes R C rows) (graphEdges fl R C rows) ms) :
    ∃ cls ns, clusters ms = .ok cls ∧ clusterNodes R C rows.length cls = .ok ns ∧
      ∀ cms, IsMaxCardinality (List.range ns.length) (clusterEdges ns) cms →
        matchingsOk fl R C rows ms cms = true ∧
        ∃ r, decode R C rows.length ms cms = .ok r ∧
          synd (RotatedPlanar.stabilizers R C) r = xorAll (RotatedPlanar.plaquetteIndices R C).length rows := by
  have h1 := max_card_perfect _ _ _ ms (smwpm_planar_graph_has_pm fl R C hR hC rows hf) hms
  obtain ⟨cls, ns, hc, hn, h2⟩ := smwpm_planar_cluster_graph_has_pm fl R C hR hC rows hT hrows ms h1
  refine ⟨cls, ns, hc, hn, fun cms hcms => ?_⟩
  have h3 := max_card_perfect _ _ _ cms h2 hcms
  have hok : matchingsOk fl R C rows ms cms = true := by
    unfold matchingsOk
    rw [h1, hc]; simp only [hn, Bool.true_and]
    exact h3
  exact ⟨hok, C02.Smwpm.smwpm_planar_syndrome fl R C hR hC rows hrows _ _ hok⟩


/-! ## rotated toric -/

/-- **when the toric symmetry graph has a perfect matching** (no virtual nodes, so parities matter):
    * `p = 0`: every plaquette is a defect at an even number of time steps (at none without time-like edges);
    * otherwise finite bias, and the number of defects is even — in every time step when there are no time-like
      edges (`q ∈ {0, 1}`), in total otherwise. -/
def FeasibleT (fl : Flags) (R C : Int) (rows : List BVec) : Prop :=
  if fl.pZero = true then
    (∀ p, ((List.range rows.length).countP fun t => Smwpm.Toric.isDefect R C rows t p) % 2 = 0) ∧
    (fl.q01 = true → ∀ t p, Smwpm.Toric.isDefect R C rows t p = false)
  else
    fl.etaNone = false ∧
    (if fl.q01 = true then ∀ t, t < rows.length → (T.defectsAt R C rows t).length % 2 = 0
     else (T.allDefects R C rows).length % 2 = 0)

/-- the condition under which `_cluster_graph` does not hit its `assert`: the total number of X-type defects (over
    all time steps) is even (then so is the number of Z-type defects whenever a symmetry matching exists) -/
def EvenX (R C : Int) (rows : List BVec) : Prop := ((T.allDefects R C rows).filter isX).length % 2 = 0

/-- **the modelled toric symmetry graph has a perfect matching** — `T.canonicalMatching` — for all sizes, all `T`,
    all rows and flags under `FeasibleT` -/
theorem smwpm_toric_graph_has_pm (fl : Flags) (R C : Int) (rows : List BVec) (hf : FeasibleT fl R C rows) :
    Dec.isPerfectMatchingOfGraph (Smwpm.Toric.graphNodes R C rows) (Smwpm.Toric.graphEdges fl R C rows)
      (T.canonicalMatching fl R C rows) = true := by
  unfold FeasibleT at hf
  by_cases hp : fl.pZero = true
  · rw [if_pos hp] at hf
    exact T.canonical_time fl R C rows hp hf.1 hf.2
  · rw [if_neg hp] at hf
    apply T.canonical_space fl R C rows (by simpa using hp) hf.1
    intro g hg
    unfold T.groupsSpace at hg
    by_cases hq : fl.q01 = true
    · rw [if_pos hq] at hg
      obtain ⟨t, ht, rfl⟩ := List.mem_map.mp hg
      have := hf.2
      rw [if_pos hq] at this
      exact this t (List.mem_range.mp ht)
    · rw [if_neg hq, List.mem_singleton] at hg
      have := hf.2
      rw [if_neg hq] at this
      rw [hg]; exact this

/-- **the toric cluster graph built from ANY perfect matching of the symmetry graph exists (the `assert` on the number
    of defective clusters holds) and has a perfect matching** — `clusterMatching` — whenever the total number of X-type
    defects is even -/
theorem smwpm_toric_cluster_graph_has_pm (fl : Flags) (R C : Int) (rows : List BVec) (hx : EvenX R C rows)
    (ms : List (Node × Node))
    (hpm : Dec.isPerfectMatchingOfGraph (Smwpm.Toric.graphNodes R C rows) (Smwpm.Toric.graphEdges fl R C rows) ms = true) :
    ∃ cls ns, clusters ms = .ok cls ∧ Smwpm.Toric.clusterNodes cls = .ok ns ∧
      Dec.isPerfectMatchingOfGraph (List.range ns.length) (Smwpm.Toric.clusterEdges ns) (clusterMatching ns) = true := by
  obtain ⟨cls, hc, heven, hperm⟩ := T.flatten_perm fl R C rows ms hpm
  have hx' : (cls.flatten.filter isX).length % 2 = 0 := by
    rw [(hperm.filter _).length_eq]; exact hx
  obtain ⟨ns, hn, h2⟩ := T.toric_cluster_pm cls heven hx'
  exact ⟨cls, ns, hc, hn, h2⟩

def clusterMatchingOfT (ms : List (Node × Node)) : List (Nat × Nat) :=
  match clusters ms with
  | .error _ => []
  | .ok cls =>
    match Smwpm.Toric.clusterNodes cls with
    | .error _ => []
    | .ok ns => clusterMatching ns

/-- **never fails** (rotated toric): on every feasible input with an even number of X-type defects both matchings
    exist, hence the modelled `decode_ftp` returns a recovery whose syndrome is the XOR of the rows -/
theorem smwpm_toric_never_fails (fl : Flags) (R C : Int) (hS : C02.SmwpmToric.Size R C)
    (rows : List BVec) (hrows : ∀ r ∈ rows, r.length = (RotatedToric.plaquetteIndices R C).length)
    (hf : FeasibleT fl R C rows) (hx : EvenX R C rows) :
    Smwpm.Toric.matchingsOk fl R C rows (T.canonicalMatching fl R C rows)
      (clusterMatchingOfT (T.canonicalMatching fl R C rows)) = true ∧
    ∃ r, Smwpm.Toric.decode R C (T.canonicalMatching fl R C rows)
        (clusterMatchingOfT (T.canonicalMatching fl R C rows)) = .ok r ∧
      synd (RotatedToric.stabilizers R C) r = xorAll (RotatedToric.plaquetteIndices R C).length rows := by
  have h1 := smwpm_toric_graph_has_pm fl R C rows hf
  obtain ⟨cls, ns, hc, hn, h2⟩ := smwpm_toric_cluster_graph_has_pm fl R C rows hx _ h1
  have hok : Smwpm.Toric.matchingsOk fl R C rows (T.canonicalMatching fl R C rows)
      (clusterMatchingOfT (T.canonicalMatching fl R C rows)) = true := by
    unfold Smwpm.Toric.matchingsOk clusterMatchingOfT
    rw [h1, hc]; simp only [hn, Bool.true_and]
    exact h2
  exact ⟨hok, C02.SmwpmToric.smwpm_toric_syndrome fl R C hS rows hrows _ _ hok⟩

/-- **every maximum-cardinality choice succeeds** (rotated toric) -/
theorem smwpm_toric_max_cardinality_succeeds (fl : Flags) (R C : Int) (hS : C02.SmwpmToric.Size R C)
    (rows : List BVec) (hrows : ∀ r ∈ rows, r.length = (RotatedToric.plaquetteIndices R C).length)
    (hf : FeasibleT fl R C rows) (hx : EvenX R C rows) (ms : List (Node × Node))
    (hms : IsMaxCardinality (Smwpm.Toric.graphNodes R C rows) (Smwpm.Toric.graphEdges fl R C rows) ms) :
    ∃ cls ns, clusters ms = .ok cls ∧ Smwpm.Toric.clusterNodes cls = .ok ns ∧
      ∀ cms, IsMaxCardinality (List.range ns.length) (Smwpm.Toric.clusterEdges ns) cms →
        Smwpm.Toric.matchingsOk fl R C rows ms cms = true ∧
        ∃ r, Smwpm.Toric.decode R C ms cms = .ok r ∧
          synd (RotatedToric.stabilizers R C) r = xorAll (RotatedToric.plaquetteIndices R C).length rows := by
  have h1 := max_card_perfect _ _ _ ms (smwpm_toric_graph_has_pm fl R C rows hf) hms
  obtain ⟨cls, ns, hc, hn, h2⟩ := smwpm_toric_cluster_graph_has_pm fl R C rows hx ms h1
  refine ⟨cls, ns, hc, hn, fun cms hcms => ?_⟩
  have h3 := max_card_perfect _ _ _ cms h2 hcms
  have hok : Smwpm.Toric.matchingsOk fl R C rows ms cms = true := by
    unfold Smwpm.Toric.matchingsOk
    rw [h1, hc]; simp only [hn, Bool.true_and]
    exact h3
  exact ⟨hok, C02.SmwpmToric.smwpm_toric_syndrome fl R C hS rows hrows _ _ hok⟩


/-! ### the `assert` of the toric `_cluster_graph` on reachable inputs

  `reachable_iff_mid` (Props/C03.lean): the arrays the simulation can produce are exactly those whose XOR is the
  syndrome of an error.  On a torus every site lies in exactly two plaquettes of each type, so the X-type generators
  XOR to the identity (`XDep`), hence every syndrome — and by additivity the whole array — has an even number of
  X-type defects. -/

/-- the generators selected by `sel` XOR to the identity -/
def Dep (sel : Dec.Idx2 → Bool) (R C : Int) : Prop :=
  xorAll (2 * C07.RotatedToric.n R C)
    (((RotatedToric.plaquetteIndices R C).filter sel).map fun i =>
      RotatedToric.plaquette R C (RotatedToric.identity R C) i.1 i.2) = zeros (2 * C07.RotatedToric.n R C)

/-- the X-type generators XOR to the identity (each qubit lies in exactly two X-type plaquettes) -/
def XDep (R C : Int) : Prop := Dep T.isXp R C

/-- all generators XOR to the identity (each qubit lies in two X-type and two Z-type plaquettes) -/
def AllDep (R C : Int) : Prop := Dep (fun _ => true) R C

/-- `XDep`, `AllDep` by evaluation for the smallest tori -/
theorem xdep_bounded : (XDep 2 2 ∧ XDep 2 4 ∧ XDep 4 2 ∧ XDep 4 4 ∧ XDep 4 6 ∧ XDep 6 6) ∧
    (AllDep 2 2 ∧ AllDep 2 4 ∧ AllDep 4 2 ∧ AllDep 4 4 ∧ AllDep 4 6 ∧ AllDep 6 6) := by
  constructor
  · refine ⟨?_, ?_, ?_, ?_, ?_, ?_⟩ <;> (unfold XDep Dep; decide +kernel)
  · refine ⟨?_, ?_, ?_, ?_, ?_, ?_⟩ <;> (unfold AllDep Dep; decide +kernel)

/-- for an array whose XOR is the syndrome of an error, the number of defects at the plaquettes selected by `sel` is
    even whenever the selected generators are dependent -/
theorem even_selected (sel : Dec.Idx2 → Bool) (R C : Int) (hS : C02.SmwpmToric.Size R C) (hdep : Dep sel R C)
    (rows : List BVec) (hrows : ∀ r ∈ rows, r.length = (RotatedToric.plaquetteIndices R C).length)
    (e : BVec)
    (hsyn : synd (RotatedToric.stabilizers R C) e = xorAll (RotatedToric.plaquetteIndices R C).length rows) :
    ((T.allDefects R C rows).filter fun k => sel (sp k)).length % 2 = 0 := by
  rw [T.allDefects_wX sel R C rows hrows, ← hsyn]
  have hlen := (C07.RotatedToric.stabilizer_count R C hS).2.2.2.2.1
  apply T.wX_synd_even sel (2 * C07.RotatedToric.n R C) (RotatedToric.plaquetteIndices R C)
    (fun i => RotatedToric.plaquette R C (RotatedToric.identity R C) i.1 i.2)
  · intro p hp
    apply hlen
    unfold RotatedToric.stabilizers
    exact List.mem_map.mpr ⟨p, hp, rfl⟩
  · exact hdep

/-- **reachable arrays have an even number of X-type defects**: if the XOR of the rows is the syndrome of some
    error (what `reachable_iff_mid/zero/one` give; C01's `syndrome_rows_xor`) and the X-type generators are dependent,
    then `EvenX` — the `assert` of `_cluster_graph` holds for every perfect matching of the symmetry graph -/
theorem smwpm_toric_even_x (R C : Int) (hS : C02.SmwpmToric.Size R C) (hdep : XDep R C)
    (rows : List BVec) (hrows : ∀ r ∈ rows, r.length = (RotatedToric.plaquetteIndices R C).length)
    (e : BVec)
    (hsyn : synd (RotatedToric.stabilizers R C) e = xorAll (RotatedToric.plaquetteIndices R C).length rows) :
    EvenX R C rows :=
  even_selected T.isXp R C hS hdep rows hrows e hsyn

/-- **reachable arrays are feasible at finite bias, `p ≠ 0`, `0 < q < 1`**: the total number of defects is even -/
theorem smwpm_toric_feasible_of_reachable (fl : Flags) (he : fl.etaNone = false) (hp : fl.pZero = false)
    (hq : fl.q01 = false) (R C : Int) (hS : C02.SmwpmToric.Size R C) (hdep : AllDep R C)
    (rows : List BVec) (hrows : ∀ r ∈ rows, r.length = (RotatedToric.plaquetteIndices R C).length)
    (e : BVec)
    (hsyn : synd (RotatedToric.stabilizers R C) e = xorAll (RotatedToric.plaquetteIndices R C).length rows) :
    FeasibleT fl R C rows := by
  have h := even_selected (fun _ => true) R C hS hdep rows hrows e hsyn
  simp only [List.filter_true] at h
  unfold FeasibleT
  rw [hp, hq]
  simp only [Bool.false_eq_true, if_false]
  exact ⟨he, h⟩

/-! ### the constructors evaluated (non-vacuity; the all-sizes theorems above do not depend on these)

  3×3 rotated planar code, finite bias: all 16 syndromes supported on the first four plaquettes, `T = 1`, `q = 0`
  and `0 < q < 1`; `T = 2`, `p = 0`: a measurement flip seen in both rows.  2×4 torus: two defective clusters. -/

def exVecs : List BVec :=
  [false, true].flatMap fun a => [false, true].flatMap fun b => [false, true].flatMap fun c => [false, true].map fun d =>
    [a, b, c, d, false, false, false, false]

theorem canonical_planar_bounded :
    exVecs.all (fun v => [true, false].all fun q =>
      matchingsOk ⟨false, q, false⟩ 3 3 [v] (canonicalMatching ⟨false, q, false⟩ 3 3 [v])
        (clusterMatchingOf 3 3 1 (canonicalMatching ⟨false, q, false⟩ 3 3 [v]))) = true := by decide +kernel

def exRow : BVec := [false, true, false, false, false, true, false, false]

theorem canonical_planar_p_zero_bounded :
    [true, false].all (fun eta =>
      matchingsOk ⟨eta, false, true⟩ 3 3 [exRow, exRow] (canonicalMatching ⟨eta, false, true⟩ 3 3 [exRow, exRow])
        (clusterMatchingOf 3 3 2 (canonicalMatching ⟨eta, false, true⟩ 3 3 [exRow, exRow]))) = true := by
  decide +kernel

theorem canonical_toric_bounded :
    [true, false].all (fun q =>
      Smwpm.Toric.matchingsOk ⟨false, q, false⟩ 2 4 C02.SmwpmToric.exRows
        (T.canonicalMatching ⟨false, q, false⟩ 2 4 C02.SmwpmToric.exRows)
        (clusterMatchingOfT (T.canonicalMatching ⟨false, q, false⟩ 2 4 C02.SmwpmToric.exRows))) = true := by
  decide +kernel

end Qec.C02.SmwpmExists
