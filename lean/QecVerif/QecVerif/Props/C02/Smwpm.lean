/-
  C02 / C03 — the rotated planar symmetry-matching decoder (`RotatedPlanarSMWPMDecoder`), recovery construction
  modelled in Model/Smwpm.lean with BOTH matchings as universally quantified parameters.

  PROVED here (all lattice sizes R, C ≥ 3, every number of time steps, every syndrome array, every choice of the
  three edge-deciding flags, ANY perfect matchings of the two modelled graphs):
  * `smwpm_clusters_total`   — characterisation of when `_clusters` succeeds: whenever `row_mates` / `col_mates`
                               are fixed-point-free involutions with the same key set (`Good`), the loop returns
                               clusters of even length in which every key occurs exactly once (never
                               'Cluster is not a closed loop', 'Cluster length is not even', 'Some row matches
                               unclustered');
  * `smwpm_planar_mates_good` — for a perfect matching of the modelled symmetry graph `buildMates` never raises and
                               yields such dictionaries;
  * `smwpm_planar_total`     — hence the model's decoder never fails: clusters, cluster nodes, and — for any perfect
                               matching of the cluster graph — the recovery are all returned;
  * `smwpm_planar_syndrome`  — and the recovery has syndrome = XOR of the rows (`smwpm_planar_syndrome_ideal`:
                               one row — the syndrome itself).
  * `smwpm_path_syndrome`    — the endpoint lemma of the decoder's own `_path_operator` (C15-style, `PathSynd`), for
                               all sizes and all ordered same-type pairs of (virtual) plaquettes of the grid; it
                               discharges the hypothesis `hpath` of `smwpm_planar_core`.
  No hypothesis is left except the size constraint of the code constructor, the length of the syndrome rows and
  "the matchings are perfect matchings of the modelled graphs" (C13's statement; checked on every recorded matching by
  the harness through the driver op `smwpm decode … → pm=1`).

  STATED, NOT PROVED (in this file) — AUDIT of each item:
  * (the rotated TORIC decoder is in Props/C02/SmwpmToric.lean) — PROVED there: `smwpm_toric_clusters_total`,
    `smwpm_toric_syndrome`, `smwpm_toric_syndrome_ideal`;
  * existence of a perfect matching of the modelled symmetry graph for every reachable syndrome array (inside the
    stated noise domain the real decoder finds one on every run of the harness; outside it — e.g. non-Y errors at
    infinite bias — there is none and qecsim raises 'Cluster is not a closed loop')
      → NOW PROVED: Props/C02/SmwpmExists.lean `smwpm_planar_graph_has_pm` (+ `feasible_finite_bias`),
        `smwpm_planar_cluster_graph_has_pm`, `smwpm_planar_never_fails`, `smwpm_planar_max_cardinality_succeeds`;
        Props/C02/SmwpmExists2.lean `smwpm_planar_graph_has_pm_infinite_bias`, `smwpm_planar_line_even_of_yonly`,
        `smwpm_planar_never_fails_infinite_bias`, `smwpm_planar_feasible_p_zero`, `smwpm_planar_never_fails_p_zero`;
        "outside there is none": Props/C02/SmwpmEven.lean `smwpm_planar_line_even_necessary`,
        `smwpm_planar_pm_iff_infinite_bias`, `smwpm_planar_pm_iff_p_zero`, `no_pm_single_x_bounded`;
  * `walk` / `clustersLoop` never exhaust their fuel on ARBITRARY dictionaries (proved here only under `Good`,
    which is all the property needs) — GENUINELY OPEN (no theorem; not needed: every perfect matching gives `Good`
    dictionaries by `smwpm_planar_mates_good`, and the harness compares `_clusters` on every recorded matching).
-/
import QecVerif.Props.C02
import QecVerif.Lemmas.SmwpmFinal
import QecVerif.Lemmas.SmwpmPath
import QecVerif.Lemmas.Pairing
namespace Qec.C02.Smwpm
open Qec Qec.Smwpm Qec.Dec Qec.SmwpmL Qec.RotatedPlanar Qec.RotatedPlanarCode Qec.Pairing

/-- the endpoint lemma of `_path_operator`: between grid indices of the same type the path anticommutes exactly with
    the in-lattice members of `{a, b}` -/
def PathSynd (R C : Int) : Prop :=
  ∀ a b : Idx2, InGrid R C a → InGrid R C b → isZPlaquette a.1 a.2 = isZPlaquette b.1 b.2 →
    synd (stabilizers R C) (pathOpT R C a b) =
      (plaquetteIndices R C).map fun p => (decide (p = a) != decide (p = b))

/-- the lattice interface of the pairing theorem for this decoder -/
def pathSpec (R C : Int) (h : PathSynd R C) : PathSpec Idx2 where
  n := nq R C
  S := stabilizers R C
  plaqs := plaquetteIndices R C
  path := pathOpT R C
  ok a b := InGrid R C a ∧ InGrid R C b ∧ isZPlaquette a.1 a.2 = isZPlaquette b.1 b.2
  S_plaqs := by rw [stabilizers_eq_map, List.length_map]
  S_len := RotatedPlanarL.stabilizers_length R C
  path_len := fun a b _ => pathOpT_length R C a b
  path_synd := fun a b hab => h a b hab.1 hab.2.1 hab.2.2

/-- **when `_clusters` succeeds**: under the invariant `Good` of the two mate dictionaries -/
theorem smwpm_clusters_total (col row : Dict) (h : Good col row) :
    ∃ cls, clustersLoop (col.length + 1) col row [] = .ok cls ∧ (∀ k, cnt cls.flatten k = ind col k) ∧
      (∀ cl ∈ cls, cl.length % 2 = 0) := by
  obtain ⟨cls, h1, h2, h3⟩ := loop_spec (col.length + 1) col row [] h (by omega)
  exact ⟨cls, by rw [h1, List.nil_append], h2, h3⟩

/-- a perfect matching of the modelled symmetry graph gives mate dictionaries satisfying the invariant -/
theorem smwpm_planar_mates_good (fl : Flags) (R C : Int) (hR : 3 ≤ R) (hC : 3 ≤ C) (rows : List BVec)
    (ms : List (Node × Node))
    (hpm : isPerfectMatchingOfGraph (graphNodes R C rows) (graphEdges fl R C rows) ms = true) :
    ∃ row col, buildMates ms [] [] = .ok (row, col) ∧ Good col row := by
  have F := matchFacts fl R C (by omega) (by omega) rows ms hpm
  obtain ⟨row, col, hb, hg, _, _⟩ := mates_good ms F.shape F.nodup F.twin
  exact ⟨row, col, hb, hg⟩

/-- the core statement, with the endpoint lemma of `_path_operator` as a hypothesis -/
theorem smwpm_planar_core (fl : Flags) (R C : Int) (hR : 3 ≤ R) (hC : 3 ≤ C) (hpath : PathSynd R C)
    (rows : List BVec) (hrows : ∀ r ∈ rows, r.length = (plaquetteIndices R C).length)
    (ms : List (Node × Node))
    (hpm : isPerfectMatchingOfGraph (graphNodes R C rows) (graphEdges fl R C rows) ms = true) :
    ∃ cls ns, clusters ms = .ok cls ∧ clusterNodes R C rows.length cls = .ok ns ∧
      ∀ cms, isPerfectMatchingOfGraph (List.range ns.length) (clusterEdges ns) cms = true →
        ∃ r, decode R C rows.length ms cms = .ok r ∧
          synd (stabilizers R C) r = xorAll (plaquetteIndices R C).length rows := by
  have F := matchFacts fl R C (by omega) (by omega) rows ms hpm
  obtain ⟨row, col, hb, hgood, hcol, hrow⟩ := mates_good ms F.shape F.nodup F.twin
  obtain ⟨cls, hcl, hcnt, heven⟩ := smwpm_clusters_total col row hgood
  have hclusters : clusters ms = .ok cls := by unfold clusters; rw [hb]; exact hcl
  -- keys of the column mates are nodes of the graph
  have hkey : ∀ k v, dget col k = some v → IsNode R C rows k := by
    intro k v hd
    have := (hcol k v).mp hd
    have hin : (k, false) ∈ ends ms := by
      rcases this.2 with h | h
      · exact (mem_ends ms _).mpr ⟨_, h, Or.inl rfl⟩
      · exact (mem_ends ms _).mpr ⟨_, h, Or.inr rfl⟩
    exact (F.node k false).mp hin
  have hmem : ∀ k ∈ cls.flatten, IsNode R C rows k := by
    intro k hk
    have h1 : 0 < cnt cls.flatten k := List.countP_pos_iff.mpr ⟨k, hk, by simp⟩
    rw [hcnt] at h1
    unfold ind at h1
    cases hd : dget col k with
    | none => rw [hd] at h1; simp at h1
    | some v => exact hkey k v hd
  obtain ⟨ps, nsr, yd, hps, hnsr, hpsok, hnsrok, hc1, hc2, hc3⟩ := clusters_spec cls heven
  -- the members of the clusters at an in-lattice plaquette are its defects
  have hflat : ∀ p, PlaqIn R C p →
      cntS cls.flatten p = (List.range rows.length).countP fun t => isDefect R C rows t p := by
    intro p hp
    have hnv : isVirtualPlaquette R C p.1 p.2 = false := by
      unfold isVirtualPlaquette
      rw [(inPlaquetteBounds_iff R C p.1 p.2).mpr hp]; simp
    rw [cntS_eq_sum cls.flatten p rows.length (fun k hk _ => by
      obtain ⟨_, t, h1, h2, _⟩ := hmem k hk; exact ⟨t, h1, h2⟩)]
    rw [← sum_indicator_countP]
    congr 1
    apply List.map_congr_left
    intro t ht
    rw [List.mem_range] at ht
    rw [hcnt]
    unfold ind
    by_cases hd : isDefect R C rows t p = true
    · rw [if_pos hd]
      -- the defect is a node, matched to a different column node
      have hnode : IsNode R C rows ((t : Int), p.1, p.2) := by
        refine ⟨?_, t, rfl, ht, Or.inr hd⟩
        unfold InGrid sp; unfold PlaqIn at hp; simp only; omega
      have hin := (F.node _ false).mpr hnode
      obtain ⟨m, hm, hmk⟩ := (mem_ends ms _).mp hin
      have hnt : m.1.1 ≠ m.2.1 := by
        intro hh
        have hv := F.twinVirtual m hm hh
        rcases hmk with h | h
        · rw [← h] at hv; simp only at hv; rw [hnv] at hv; cases hv
        · rw [hh, ← h] at hv; simp only at hv; rw [hnv] at hv; cases hv
      have hor : m.1.2 = m.2.2 := by
        rcases F.shape m hm with h | h
        · exact h
        · exact absurd h hnt
      have : ∃ v, P ms false ((t : Int), p.1, p.2) v := by
        rcases hmk with h | h
        · refine ⟨m.2.1, ?_, Or.inl ?_⟩
          · intro hh; apply hnt; rw [← h]; exact hh
          · have e2 : m.2 = (m.2.1, false) := by
              have : m.2.2 = false := by rw [← hor, ← h]
              rw [← this]
            rw [← e2, h]; exact hm
        · refine ⟨m.1.1, ?_, Or.inr ?_⟩
          · intro hh; apply hnt; rw [← h]; exact hh.symm
          · have e1 : m.1 = (m.1.1, false) := by
              have : m.1.2 = false := by rw [hor, ← h]
              rw [← this]
            rw [← e1, h]; exact hm
      obtain ⟨v, hv⟩ := this
      rw [(hcol _ v).mpr hv]; rfl
    · rw [if_neg hd]
      cases hdg : dget col ((t : Int), p.1, p.2) with
      | none => rfl
      | some v =>
        exfalso
        obtain ⟨_, t', h1, _, h3⟩ := hkey _ v hdg
        simp only at h1
        have : t' = t := by omega
        rw [this] at h3
        rcases h3 with h3 | h3
        · simp only at h3; rw [hnv] at h3; cases h3
        · exact hd h3
  -- the cluster nodes
  have hM : ∀ k ∈ cls.flatten, InGrid R C (sp k) := fun k hk => (hmem k hk).1
  obtain ⟨hA1, hA2⟩ := allNodes_facts R C hR hC rows.length cls.flatten hM nsr hnsrok
  have hns : clusterNodes R C rows.length cls =
      .ok (if nDefective nsr = 0 then [] else allNodes R C rows.length nsr) := by
    unfold clusterNodes allNodes; rw [hnsr]; simp only; split <;> rfl
  refine ⟨cls, _, hclusters, hns, ?_⟩
  intro cms hpm2
  obtain ⟨qs, hqs, hqsfrom, hqscnt⟩ := stage2_spec _ cms hpm2
  -- facts about the node list in both cases
  have hN1 : ∀ n ∈ (if nDefective nsr = 0 then [] else allNodes R C rows.length nsr), n.kind ≠ .extra → NodeP R C n := by
    intro n hn
    split at hn
    · simp at hn
    · exact hA1 n hn
  have hN2 : ∀ p, PlaqIn R C p →
      (∀ n ∈ (if nDefective nsr = 0 then [] else allNodes R C rows.length nsr), n.virt = true → wS n p = 0) ∧
      sumW (if nDefective nsr = 0 then [] else allNodes R C rows.length nsr) p % 2 = cntS yd p % 2 := by
    intro p hp
    split
    · rename_i h0
      refine ⟨by simp, ?_⟩
      rw [hc3 h0]; rfl
    · exact ⟨(hA2 p hp).1, by rw [(hA2 p hp).2]; exact hc2 p⟩
  -- every fused pair is accepted by `_path_operator`
  have hpsPath : ∀ x ∈ ps, PathOK R C x := fun x hx => by
    obtain ⟨h1, h2, h3⟩ := hpsok x hx
    exact ⟨hM _ h2, hM _ h3, h1⟩
  have hqsPath : ∀ x ∈ qs, PathOK R C x := fun x hx => by
    obtain ⟨a, b, ha, hb, hae, hbe, hx'⟩ := hqsfrom x hx
    obtain ⟨a1, a2, a3, a4⟩ := hN1 a ha hae
    obtain ⟨b1, b2, b3, b4⟩ := hN1 b hb hbe
    rcases hx' with rfl | rfl
    · exact ⟨a3, b3, by simp only; rw [a1, b1]⟩
    · exact ⟨a4, b4, by simp only; rw [a2, b2]⟩
  have hr1 := applyPairs_ok R C ps hpsPath (identity R C)
  have hr2 := applyPairs_ok R C qs hqsPath (identity R C)
  refine ⟨xorV (xorV (identity R C)
      ((ps.map fun x => pathOpT R C (sp x.1) (sp x.2)).foldl xorV (identity R C)))
      ((qs.map fun x => pathOpT R C (sp x.1) (sp x.2)).foldl xorV (identity R C)), ?_, ?_⟩
  · unfold decode
    rw [hclusters]; simp only
    unfold recovery
    rw [hps]; simp only
    rw [hr1]; simp only
    rw [hns]; simp only
    unfold clusterRecovery
    rw [hqs]; simp only
    rw [hr2]
  · -- the syndrome
    let L := pathSpec R C hpath
    let g : TIdx × TIdx → Idx2 × Idx2 := fun x => (sp x.1, sp x.2)
    have hok : ∀ (l : List (TIdx × TIdx)), (∀ x ∈ l, PathOK R C x) → ∀ y ∈ l.map g, L.ok y.1 y.2 := by
      intro l hl y hy
      rw [List.mem_map] at hy
      obtain ⟨x, hx, rfl⟩ := hy
      obtain ⟨h1, h2, h3⟩ := hl x hx
      refine ⟨h1, h2, ?_⟩
      unfold isX at h3
      show (!isXPlaquette x.1.2.1 x.1.2.2) = (!isXPlaquette x.2.2.1 x.2.2.2)
      rw [h3]
    have hfold : ∀ (l : List (TIdx × TIdx)),
        (l.map fun x => pathOpT R C (sp x.1) (sp x.2)).foldl xorV (identity R C) =
          xorAll (2 * L.n) ((l.map g).map fun x => L.path x.1 x.2) := by
      intro l; unfold xorAll; rw [List.map_map]; rfl
    have hlen : ∀ (l : List (TIdx × TIdx)),
        ((l.map fun x => pathOpT R C (sp x.1) (sp x.2)).foldl xorV (identity R C)).length = 2 * nq R C := by
      intro l
      apply foldl_xorV_length _ _ _ (identity_length R C)
      intro r hr
      rw [List.mem_map] at hr
      obtain ⟨x, _, rfl⟩ := hr
      exact pathOpT_length R C _ _
    have hS : ∀ s ∈ stabilizers R C, s.length = 2 * nq R C := RotatedPlanarL.stabilizers_length R C
    have hsum := foldl_synd (nq R C) (stabilizers R C)
      [(ps.map fun x => pathOpT R C (sp x.1) (sp x.2)).foldl xorV (identity R C),
       (qs.map fun x => pathOpT R C (sp x.1) (sp x.2)).foldl xorV (identity R C)]
      (identity R C) (identity_length R C) hS (by
        intro e he
        simp only [List.mem_cons, List.not_mem_nil, or_false] at he
        rcases he with rfl | rfl <;> exact hlen _)
    simp only [List.map_cons, List.map_nil, List.foldl_cons, List.foldl_nil] at hsum
    rw [← hsum, hfold ps, hfold qs]
    have p1 : synd (stabilizers R C) (xorAll (2 * L.n) ((ps.map g).map fun x => L.path x.1 x.2)) =
        (plaquetteIndices R C).map fun p => decide (Dec.occ (ps.map g) p % 2 = 1) :=
      pairing L (ps.map g) (hok ps hpsPath)
    have p2 : synd (stabilizers R C) (xorAll (2 * L.n) ((qs.map g).map fun x => L.path x.1 x.2)) =
        (plaquetteIndices R C).map fun p => decide (Dec.occ (qs.map g) p % 2 = 1) :=
      pairing L (qs.map g) (hok qs hqsPath)
    have e1 : ∀ l : List (TIdx × TIdx), ∀ p, Dec.occ (l.map g) p = cntS (ends l) p :=
      fun l p => count_ends_sp l p
    have hz : synd (stabilizers R C) (identity R C) = (plaquetteIndices R C).map fun _ => false := by
      rw [identity_eq, synd_zeros, stabilizers_eq_map, List.length_map]; simp [zeros]
    rw [p1, p2, hz, xorV_map_map, xorV_map_map, xorAll_rows R C rows hrows]
    apply List.map_congr_left
    intro p hp
    have hpin : PlaqIn R C p := (mem_plaquetteIndices R C p).mp hp
    apply parity3
    rw [e1, e1, hqscnt p (hN2 p hpin).1, ← hflat p hpin, ← hc1 p]
    have := (hN2 p hpin).2
    omega

/-- **endpoint lemma of `_path_operator`**, all sizes: the path between two grid indices of the same type
    anticommutes exactly with the in-lattice members of `{a, b}` (none when both are virtual or `a = b`) -/
theorem smwpm_path_syndrome (R C : Int) (hR : 3 ≤ R) (hC : 3 ≤ C) : PathSynd R C :=
  fun a b ha hb hty => path_syndrome R C (by omega) (by omega) a b ha hb hty

/-- **never fails**: for every size, syndrome array and perfect matching of the modelled symmetry graph the model
    returns clusters and cluster nodes, and for every perfect matching of the modelled cluster graph a recovery -/
theorem smwpm_planar_total (fl : Flags) (R C : Int) (hR : 3 ≤ R) (hC : 3 ≤ C)
    (rows : List BVec) (hrows : ∀ r ∈ rows, r.length = (plaquetteIndices R C).length) (ms : List (Node × Node))
    (hpm : isPerfectMatchingOfGraph (graphNodes R C rows) (graphEdges fl R C rows) ms = true) :
    ∃ cls ns, clusters ms = .ok cls ∧ clusterNodes R C rows.length cls = .ok ns ∧
      ∀ cms, isPerfectMatchingOfGraph (List.range ns.length) (clusterEdges ns) cms = true →
        ∃ r, decode R C rows.length ms cms = .ok r := by
  obtain ⟨cls, ns, h1, h2, h3⟩ :=
    smwpm_planar_core fl R C hR hC (smwpm_path_syndrome R C hR hC) rows hrows ms hpm
  refine ⟨cls, ns, h1, h2, fun cms hc => ?_⟩
  obtain ⟨r, hr, _⟩ := h3 cms hc
  exact ⟨r, hr⟩

/-- **syndrome reproduction** (C02 / C03 for `RotatedPlanarSMWPMDecoder`): whatever perfect matchings `gt.mwpm`
    returns for the two graphs (`matchingsOk`), the modelled `decode_ftp` returns a recovery whose syndrome is the
    XOR of the syndrome rows -/
theorem smwpm_planar_syndrome (fl : Flags) (R C : Int) (hR : 3 ≤ R) (hC : 3 ≤ C)
    (rows : List BVec) (hrows : ∀ r ∈ rows, r.length = (plaquetteIndices R C).length)
    (ms : List (Node × Node)) (cms : List (Nat × Nat)) (hok : matchingsOk fl R C rows ms cms = true) :
    ∃ r, decode R C rows.length ms cms = .ok r ∧
      synd (stabilizers R C) r = xorAll (plaquetteIndices R C).length rows := by
  unfold matchingsOk at hok
  rw [Bool.and_eq_true] at hok
  obtain ⟨hpm, h2⟩ := hok
  obtain ⟨cls, ns, h1, hns, h3⟩ :=
    smwpm_planar_core fl R C hR hC (smwpm_path_syndrome R C hR hC) rows hrows ms hpm
  rw [h1] at h2; simp only at h2
  rw [hns] at h2; simp only at h2
  exact h3 cms h2

/-- ideal mode (`decode`: one time step, the row is the syndrome): the recovery reproduces the syndrome -/
theorem smwpm_planar_syndrome_ideal (fl : Flags) (R C : Int) (hR : 3 ≤ R) (hC : 3 ≤ C)
    (s : BVec) (hs : s.length = (plaquetteIndices R C).length)
    (ms : List (Node × Node)) (cms : List (Nat × Nat)) (hok : matchingsOk fl R C [s] ms cms = true) :
    ∃ r, decode R C 1 ms cms = .ok r ∧ synd (stabilizers R C) r = s := by
  obtain ⟨r, h1, h2⟩ := smwpm_planar_syndrome fl R C hR hC [s]
    (by intro r hr; rw [List.mem_singleton] at hr; rw [hr]; exact hs) ms cms hok
  refine ⟨r, h1, ?_⟩
  rw [h2]
  simp only [xorAll, List.foldl_cons, List.foldl_nil]
  exact xorV_zeros_left _ s hs

/-! ### the hypotheses are satisfiable on a concrete non-trivial input

  3×3 code, syndrome `01000000` (one defect ⇒ a defective cluster ⇒ the cluster stage is used), finite bias, ideal
  mode (`q = 0`); `exMs` / `exCms` are the matchings networkx returned in a recorded run, the recovery is the one
  qecsim returned (`X` on qubit 0). -/

def exRows : List BVec := [[false, true, false, false, false, false, false, false]]
def exMs : List (Node × Node) :=
  [(((0,-1,-1),false),((0,-1,-1),true)), (((0,-1,1),false),((0,-1,1),true)), (((0,-1,2),false),((0,-1,2),true)),
   (((0,0,-1),false),((0,0,0),false)), (((0,0,-1),true),((0,0,0),true)), (((0,1,2),false),((0,1,2),true)),
   (((0,2,-1),false),((0,2,-1),true)), (((0,2,0),false),((0,2,0),true)), (((0,2,2),false),((0,2,2),true))]
def exCms : List (Nat × Nat) := [(0,2),(4,3),(5,1)]

set_option maxRecDepth 100000 in
example : matchingsOk ⟨false, true, false⟩ 3 3 exRows exMs exCms = true := by decide

example : decode 3 3 1 exMs exCms = .ok (true :: List.replicate 17 false) := by rfl

end Qec.C02.Smwpm
