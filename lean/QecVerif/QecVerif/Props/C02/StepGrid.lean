/-
  C02 (anchor `_planarcmwpmdecoder.py`) / C13 (what `PlanarCMWPMDecoder` hands to `gt.mwpm`) — the edge weights of the
  converging MWPM decoder: `StepGrid.set_background` and `StepGrid.distance`.  Model: Model/StepGrid.lean, tied on every
  run by harness/qv/c02_stepgrid.py (every grid cell and every distance, exact fractions, all four box shapes, all three
  distance algorithms).

  Theorems (all lattice sizes, all box shapes, all factors / initial values, all lists of matched pairs):
  * `background_order_irrelevant` — the matched pairs arrive as a `frozenset`, iterated in an order that depends on the
    process (hash seed): the grid, hence every distance, does not depend on that order (any permutation of the pairs);
  * `virtual_pair_skipped` — a pair of two virtual indices leaves the grid unchanged;
  * `empty_background` — without matched pairs every site weighs `initial`;
  * `off_site_zero` — only sites (row and column of equal parity in grid coordinates) carry weight, whatever the
    background: plaquette positions and the grid border positions of odd parity are 0;
  * `count_tight_inside`, `count_tight_outside` — the default box shape: for one matched pair a grid cell inside the
    bounding box of the pair is left alone and every other grid cell is multiplied exactly once, i.e. with the tight
    box a site weighs `initial · factor ^ (number of matched pairs whose box does not contain it)`
    (`tight_total_count`, any list of active pairs on the grid);
  * `empty_background_distance_1` — the first `mwpm` call of a decode (no matched pairs yet): algorithm 1 weighs a pair
    of same-type plaquettes `initial` times half their taxi-cab distance — the plain MWPM weight of C14;
  * `cell_nonneg`, `distance_nonneg` — non-negative `initial` and `factor` give non-negative site weights and edge weights
    (all algorithms, all backgrounds);
  * `distance_both_virtual_zero` — two virtual indices are at distance 0 for every algorithm and background;
  * `distance_algorithm_2_symmetric` — algorithm 2 (down-across / across-down minimum) does not depend on the orientation
    of the pair;  algorithm 1 DOES (`distance_algorithm_1_not_symmetric`: a concrete background, kernel-evaluated; the
    default algorithm 4 mixes the source and target columns in its third path the same way) — harmless because `mwpm`
    names every pair once, in the order of `itertools.combinations`, and C02 holds for any perfect matching.

  STATED, NOT PROVED: that the float64 grid equals the exact one (products beyond 2^53 round; `decode` catches
  `FloatingPointError`), and any optimality statement about the converged matching (not claimed by C02).
-/
import QecVerif.Model.StepGrid
import QecVerif.Lemmas.StepGrid
namespace Qec.C02.StepGrid
open Qec Qec.StepGrid

theorem sum_perm (l₁ l₂ : List Nat) (h : l₁.Perm l₂) : l₁.sum = l₂.sum := by
  induction h with
  | nil => rfl
  | cons x _ ih => simp [ih]
  | swap x y l => simp; omega
  | trans _ _ ih1 ih2 => exact ih1.trans ih2

/-- the number of multiplications of a cell does not depend on the order of the matched pairs -/
theorem totalCount_perm (R C : Int) (sh : Shape) (ps qs : List (Idx × Idx)) (h : ps.Perm qs) (r c : Int) :
    totalCount R C sh ps r c = totalCount R C sh qs r c := by
  unfold totalCount
  exact sum_perm _ _ (h.map _)

/-- **the background does not depend on the iteration order of the `frozenset` of matched pairs** -/
theorem background_order_irrelevant (R C : Int) (initial factor : Rat) (sh : Shape) (ps qs : List (Idx × Idx))
    (h : ps.Perm qs) :
    grid R C initial factor sh ps = grid R C initial factor sh qs ∧
    ∀ alg src tgt, bgDistance R C initial factor sh ps alg src tgt = bgDistance R C initial factor sh qs alg src tgt := by
  have hc : cell R C initial factor sh ps = cell R C initial factor sh qs := by
    funext r c; unfold cell; rw [totalCount_perm R C sh ps qs h]
  refine ⟨?_, ?_⟩
  · unfold grid; rw [hc]
  · intro alg src tgt; unfold bgDistance; rw [hc]

/-- a pair of two virtual (out-of-bounds) indices is skipped -/
theorem virtual_pair_skipped (R C : Int) (sh : Shape) (p : Idx × Idx) (ps : List (Idx × Idx)) (r c : Int)
    (h1 : Planar.inBounds R C p.1.1 p.1.2 = false) (h2 : Planar.inBounds R C p.2.1 p.2.2 = false) :
    totalCount R C sh (p :: ps) r c = totalCount R C sh ps r c := by
  unfold totalCount active; simp [h1, h2]

/-- without matched pairs every site weighs `initial` -/
theorem empty_background (R C : Int) (initial factor : Rat) (sh : Shape) (r c : Int) (h : r % 2 = c % 2) :
    cell R C initial factor sh [] r c = initial := by
  unfold cell totalCount; simp [h, Rat.mul_one]

/-- only sites carry weight -/
theorem off_site_zero (R C : Int) (initial factor : Rat) (sh : Shape) (ps : List (Idx × Idx)) (r c : Int)
    (h : r % 2 ≠ c % 2) : cell R C initial factor sh ps r c = 0 := by
  unfold cell; rw [if_neg h]

/-- two virtual indices are at distance 0, for every algorithm and background -/
theorem distance_both_virtual_zero (R C : Int) (g : Int → Int → Rat) (alg : Nat) (src tgt : Idx)
    (h1 : Planar.inBounds R C src.1 src.2 = false) (h2 : Planar.inBounds R C tgt.1 tgt.2 = false) :
    distance R C g alg src tgt = 0 := by
  unfold distance; simp [h1, h2]

theorem rat_min_comm (a b : Rat) : min a b = min b a := by
  rw [Rat.min_def, Rat.min_def]
  by_cases h1 : a ≤ b <;> by_cases h2 : b ≤ a
  · have := Rat.le_antisymm h1 h2; subst this; rfl
  · simp [h1, h2]
  · simp [h1, h2]
  · exact absurd (Rat.le_total.resolve_left h1) h2

theorem corners_comm (a b : Idx) : corners a b = corners b a := by
  unfold corners; simp [Int.min_comm, Int.max_comm]

/-- algorithm 2 does not depend on the orientation of the pair -/
theorem distance_algorithm_2_symmetric (R C : Int) (g : Int → Int → Rat) (src tgt : Idx) :
    distance R C g 2 src tgt = distance R C g 2 tgt src := by
  unfold distance
  rw [Bool.or_comm (Planar.inBounds R C src.1 src.2)]
  split
  · rfl
  · simp only [show (2 : Nat) ≠ 1 by decide, if_false, if_true, corners_comm (gi src) (gi tgt)]
    rw [rat_min_comm, Rat.add_comm (sumRange (fun c => g (gi src).1 c) _ _), Rat.add_comm (sumRange (fun r => g r (gi src).2) _ _)]

/-! ## the tight box -/

/-- **tight box, inside**: a cell of the grid inside the bounding box of a matched pair is not multiplied -/
theorem count_tight_inside (R C : Int) (src tgt : Idx) (r c : Int)
    (hr : min (src.1 + 1) (tgt.1 + 1) ≤ r ∧ r ≤ max (src.1 + 1) (tgt.1 + 1))
    (hc : min (src.2 + 1) (tgt.2 + 1) ≤ c ∧ c ≤ max (src.2 + 1) (tgt.2 + 1))
    (hgr : 0 ≤ r ∧ r < (dim R C).nr) (hgc : 0 ≤ c ∧ c < (dim R C).nc) :
    count (dim R C) .t src tgt r c = 0 := by
  have e : count (dim R C) .t src tgt r c =
      inComplement (dim R C) (min (src.1 + 1) (tgt.1 + 1), min (src.2 + 1) (tgt.2 + 1))
        (max (src.1 + 1) (tgt.1 + 1), max (src.2 + 1) (tgt.2 + 1)) r c := rfl
  rw [e]; unfold inComplement; dsimp only
  repeat' split
  all_goals omega

/-- **tight box, outside**: every other cell of the grid is multiplied exactly once -/
theorem count_tight_outside (R C : Int) (src tgt : Idx) (r c : Int)
    (hout : ¬ ((min (src.1 + 1) (tgt.1 + 1) ≤ r ∧ r ≤ max (src.1 + 1) (tgt.1 + 1)) ∧
               (min (src.2 + 1) (tgt.2 + 1) ≤ c ∧ c ≤ max (src.2 + 1) (tgt.2 + 1))))
    (hgr : 0 ≤ r ∧ r < (dim R C).nr) (hgc : 0 ≤ c ∧ c < (dim R C).nc)
    (hs : 0 ≤ src.1 + 1 ∧ src.1 + 1 < (dim R C).nr ∧ 0 ≤ src.2 + 1 ∧ src.2 + 1 < (dim R C).nc)
    (ht : 0 ≤ tgt.1 + 1 ∧ tgt.1 + 1 < (dim R C).nr ∧ 0 ≤ tgt.2 + 1 ∧ tgt.2 + 1 < (dim R C).nc) :
    count (dim R C) .t src tgt r c = 1 := by
  have e : count (dim R C) .t src tgt r c =
      inComplement (dim R C) (min (src.1 + 1) (tgt.1 + 1), min (src.2 + 1) (tgt.2 + 1))
        (max (src.1 + 1) (tgt.1 + 1), max (src.2 + 1) (tgt.2 + 1)) r c := rfl
  rw [e]; unfold inComplement; dsimp only
  repeat' split
  all_goals omega

/-- the cell lies in the bounding box (grid coordinates) of the matched pair -/
def insideBox (p : Idx × Idx) (r c : Int) : Prop :=
  (min (p.1.1 + 1) (p.2.1 + 1) ≤ r ∧ r ≤ max (p.1.1 + 1) (p.2.1 + 1)) ∧
  (min (p.1.2 + 1) (p.2.2 + 1) ≤ c ∧ c ≤ max (p.1.2 + 1) (p.2.2 + 1))

instance (p : Idx × Idx) (r c : Int) : Decidable (insideBox p r c) := by unfold insideBox; infer_instance

/-- an index whose grid position lies on the grid (every real or virtual plaquette index does) -/
def onGrid (R C : Int) (i : Idx) : Prop :=
  0 ≤ i.1 + 1 ∧ i.1 + 1 < (dim R C).nr ∧ 0 ≤ i.2 + 1 ∧ i.2 + 1 < (dim R C).nc

/-- **the tight background in closed form**: with active matched pairs on the grid, a grid cell has been multiplied
    once for every pair whose bounding box does NOT contain it — so a site weighs
    `initial · factor ^ #{pairs whose box misses the site}` -/
theorem tight_total_count (R C : Int) (ps : List (Idx × Idx)) (r c : Int)
    (hact : ∀ p ∈ ps, active R C p = true) (hon : ∀ p ∈ ps, onGrid R C p.1 ∧ onGrid R C p.2)
    (hgr : 0 ≤ r ∧ r < (dim R C).nr) (hgc : 0 ≤ c ∧ c < (dim R C).nc) :
    totalCount R C .t ps r c = (ps.filter fun p => !decide (insideBox p r c)).length := by
  induction ps with
  | nil => simp [totalCount]
  | cons p ps ih =>
    have ih' := ih (fun q hq => hact q (List.mem_cons_of_mem _ hq)) (fun q hq => hon q (List.mem_cons_of_mem _ hq))
    have ha := hact p List.mem_cons_self
    have ho := hon p List.mem_cons_self
    have hsplit : totalCount R C .t (p :: ps) r c = count (dim R C) .t p.1 p.2 r c + totalCount R C .t ps r c := by
      unfold totalCount; simp [ha]
    rw [hsplit, ih']
    by_cases hi : insideBox p r c
    · rw [count_tight_inside R C p.1 p.2 r c hi.1 hi.2 hgr hgc]
      simp [List.filter_cons, hi]
    · rw [count_tight_outside R C p.1 p.2 r c hi hgr hgc ho.1 ho.2]
      simp [List.filter_cons, hi]; omega

/-- **first iteration = plain MWPM weights**: without matched pairs (the background of the first `mwpm` call of every
    decode) algorithm 1 weighs a pair of same-type plaquettes, `2a` rows and `2b` columns apart, `(a + b) · initial` —
    `initial` times the number of sites on the path, i.e. half the taxi-cab distance, the weight `PlanarMWPMDecoder`
    uses (C14) -/
theorem empty_background_distance_1 (R C : Int) (initial factor : Rat) (sh : Shape) (src tgt : Idx) (a b : Nat)
    (hb : (Planar.inBounds R C src.1 src.2 || Planar.inBounds R C tgt.1 tgt.2) = true)
    (hs : (src.1 + 1) % 2 ≠ (src.2 + 1) % 2) (ht : (tgt.1 + 1) % 2 ≠ (tgt.2 + 1) % 2)
    (hty : (src.1 + 1) % 2 = (tgt.1 + 1) % 2)
    (ha : max (src.1 + 1) (tgt.1 + 1) = min (src.1 + 1) (tgt.1 + 1) + (2 * a : Nat))
    (hbb : max (src.2 + 1) (tgt.2 + 1) = min (src.2 + 1) (tgt.2 + 1) + (2 * b : Nat)) :
    bgDistance R C initial factor sh [] 1 src tgt = ((a + b : Nat) : Rat) * initial := by
  unfold bgDistance
  rw [distance_alg1_eq, hb, cell_nil, ha, hbb]
  simp only [Bool.not_true, Bool.false_eq_true, if_false]
  have e : (fun c : Int => if (tgt.1 + 1) % 2 = c % 2 then initial else (0 : Rat)) =
      (fun c => if c % 2 = (tgt.1 + 1) % 2 then initial else 0) := by
    funext c; by_cases h : (tgt.1 + 1) % 2 = c % 2
    · rw [if_pos h, if_pos h.symm]
    · rw [if_neg h, if_neg (fun k => h k.symm)]
  rw [e, sumRange_parity initial (src.2 + 1) _ a (by omega), sumRange_parity initial (tgt.1 + 1) _ b (by omega)]
  simp [Rat.add_mul]

/-- with non-negative `initial` and `factor` every cell of every background is non-negative -/
theorem cell_nonneg (R C : Int) (initial factor : Rat) (sh : Shape) (ps : List (Idx × Idx)) (r c : Int)
    (hi : 0 ≤ initial) (hf : 0 ≤ factor) : 0 ≤ cell R C initial factor sh ps r c := by
  unfold cell
  split
  · exact Rat.mul_nonneg hi (pow_nonneg' factor hf _)
  · exact Rat.le_refl

/-- hence every edge weight handed to `gt.mwpm` is non-negative, for every algorithm -/
theorem distance_nonneg (R C : Int) (g : Int → Int → Rat) (alg : Nat) (src tgt : Idx) (hg : ∀ r c, 0 ≤ g r c) :
    0 ≤ distance R C g alg src tgt := by
  unfold distance
  split
  · exact Rat.le_refl
  · have s := fun (f : Int → Rat) (lo hi : Int) (h : ∀ x, 0 ≤ f x) => sumRange_nonneg f lo hi h
    simp only
    split
    · exact Rat.add_nonneg (s _ _ _ (fun r => hg r _)) (s _ _ _ (fun c => hg _ c))
    · split
      · exact le_min' _ _ _ (Rat.add_nonneg (s _ _ _ (fun r => hg r _)) (s _ _ _ (fun c => hg _ c)))
          (Rat.add_nonneg (s _ _ _ (fun c => hg _ c)) (s _ _ _ (fun r => hg r _)))
      · refine le_min' _ _ _ (le_min' _ _ _ (le_min' _ _ _ ?_ ?_) ?_) ?_
        · exact Rat.add_nonneg (s _ _ _ (fun r => hg r _)) (s _ _ _ (fun c => hg _ c))
        · exact Rat.add_nonneg (s _ _ _ (fun c => hg _ c)) (s _ _ _ (fun r => hg r _))
        · exact Rat.add_nonneg (Rat.add_nonneg (s _ _ _ (fun r => hg r _)) (s _ _ _ (fun c => hg _ c)))
            (s _ _ _ (fun r => hg r _))
        · exact Rat.add_nonneg (Rat.add_nonneg (s _ _ _ (fun c => hg _ c)) (s _ _ _ (fun r => hg r _)))
            (s _ _ _ (fun c => hg _ c))

/-- algorithm 1 depends on the orientation (3x3 lattice, one matched pair, factor 3) -/
theorem distance_algorithm_1_not_symmetric :
    bgDistance 3 3 1 3 .t [((1, 0), (1, 2))] 1 (0, 1) (3, 4) ≠ bgDistance 3 3 1 3 .t [((1, 0), (1, 2))] 1 (3, 4) (0, 1) := by
  decide +kernel

example : cell 2 2 1 3 .t [((1, 0), (1, 2))] 0 0 = 3 := by decide +kernel
example : cell 2 2 1 3 .t [((1, 0), (1, 2))] 2 2 = 1 := by decide +kernel

end Qec.C02.StepGrid
