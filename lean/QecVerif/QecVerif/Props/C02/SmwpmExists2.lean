/-
  C02 / C03 / C13 link, continued — closes the items left `STATED, NOT PROVED` in Props/C02/SmwpmExists.lean
  (EXISTENCE of the matchings the two symmetry-matching decoders need; model: Model/Smwpm.lean; helper lemmas:
  Lemmas/SmwpmExists2.lean).

  PROVED (all sizes, every number of time steps ≥ 1, every array of rows):
  1. `xdep_all_sizes`, `alldep_all_sizes` — on the rotated toric code the X-type (resp. all) generators XOR to the
     identity for ALL even `R, C ≥ 2` (every site lies in exactly two in-lattice plaquettes of each type: `cover`, the
     full-list form of C07's `dep_core`); hence `smwpm_toric_even_x_all_sizes`,
     `smwpm_toric_feasible_of_reachable_all_sizes` with no dependency hypothesis.
  2. INFINITE BIAS, `p ≠ 0` (row nodes are matched within rows, column nodes within columns):
     * `smwpm_toric_graph_has_pm_infinite_bias` under `LineEvenT` (every row and column of plaquettes holds an even
       number of defects, per group) — explicit `T.lineMatching`;
     * `smwpm_planar_graph_has_pm_infinite_bias` under `LineEvenP` (every line WITHOUT a virtual plaquette holds an even
       number of defects) — explicit `P.lineMatching`: a T-join of used virtual plaquettes over the ring of boundary
       lines (boundary plaquette of each odd interior line + the corners SW, NW, SE), all others twinned;
     * `smwpm_toric_line_even_of_yonly`, `smwpm_planar_line_even_of_yonly` — both conditions hold when the XOR of the
       rows (`q ∈ {0,1}`: every row) is the syndrome of a Y-ONLY error: the generators of such a line XOR to a Y-type
       operator (around every site the line holds as many X- as Z-type plaquettes), which commutes with every Y-only
       error;
     * `smwpm_*_never_fails_infinite_bias`, `smwpm_*_max_cardinality_succeeds_infinite_bias` — for every array
       `Ftp.reachable … (YOnly n) qc T rows` (any `q`) both matchings exist, for the explicit and for every
       maximum-cardinality choice, and the recovery has syndrome = XOR of the rows.
  3. `smwpm_toric_feasible_of_reachable_any_q` (finite bias, `p ≠ 0`: per-time-step counts for `q ∈ {0,1}` from
     `reachable_iff_zero/one`), `smwpm_toric_never_fails_finite_bias` (no parity / dependency hypothesis left);
     `smwpm_planar_feasible_p_zero`, `smwpm_toric_feasible_p_zero`, `smwpm_*_never_fails_p_zero` (`p = 0`: identity-only
     support ⇒ the rows XOR to zero ⇒ every plaquette is a defect at an even number of time steps; every row zero for
     `q ∈ {0,1}`).
  * `smwpm_*_never_fails_of_pm`, `smwpm_*_max_cardinality_of_pm` — from ANY perfect matching of the symmetry graph.
  * `line_planar_bounded`, `line_toric_bounded`, `exY_is_yonly` — kernel evaluation of the constructors on 4×4.

  PROVED ELSEWHERE (Props/C02/SmwpmEven.lean, all sizes): necessity of `LineEvenP` / `LineEvenT` at infinite bias
  (`smwpm_*_line_even_necessary`, `smwpm_*_pm_iff_infinite_bias`; `no_pm_single_x_bounded`: a single X error on the 4×4
  planar code — row 0 odd — has no perfect matching) and of `Feasible` / `FeasibleT` for `p = 0`
  (`smwpm_*_feasible_necessary_p_zero`, `smwpm_*_pm_iff_p_zero`).

  STATED, NOT PROVED:
  * that `gt.mwpm` returns a maximum-cardinality matching is C13's statement (hypothesis `IsMaxCardinality`).
-/
import QecVerif.Props.C02.SmwpmExists
import QecVerif.Props.C03
import QecVerif.Props.C07.RotatedToric
import QecVerif.Props.C07.RotatedPlanar
import QecVerif.Lemmas.SmwpmExists2
namespace Qec.C02.SmwpmExists2
open Qec Qec.Smwpm Qec.SmwpmL Qec.SmwpmX Qec.SmwpmX2 Qec.C02.SmwpmExists

/-! ## 1. the dependencies of the rotated toric generators, all even sizes -/

/-- **the X-type generators of the rotated toric code XOR to the identity**, for ALL even `R, C ≥ 2` (every site lies
    in exactly two X-type plaquettes: `cover`, the full-list form of C07's `dep_core`) -/
theorem xdep_all_sizes (R C : Int) (hS : C02.SmwpmToric.Size R C) : XDep R C :=
  xdep_all R C hS

/-- **all generators of the rotated toric code XOR to the identity**, for ALL even `R, C ≥ 2` -/
theorem alldep_all_sizes (R C : Int) (hS : C02.SmwpmToric.Size R C) : AllDep R C :=
  alldep_all R C hS

/-- **reachable arrays have an even number of X-type defects — all sizes, no dependency hypothesis**: the `assert`
    of the toric `_cluster_graph` holds for every perfect matching of the symmetry graph -/
theorem smwpm_toric_even_x_all_sizes (R C : Int) (hS : C02.SmwpmToric.Size R C)
    (rows : List BVec) (hrows : ∀ r ∈ rows, r.length = (RotatedToric.plaquetteIndices R C).length)
    (e : BVec)
    (hsyn : synd (RotatedToric.stabilizers R C) e = xorAll (RotatedToric.plaquetteIndices R C).length rows) :
    EvenX R C rows :=
  smwpm_toric_even_x R C hS (xdep_all_sizes R C hS) rows hrows e hsyn

/-- **reachable arrays are feasible at finite bias, `p ≠ 0`, `0 < q < 1` — all sizes, no dependency hypothesis** -/
theorem smwpm_toric_feasible_of_reachable_all_sizes (fl : Flags) (he : fl.etaNone = false) (hp : fl.pZero = false)
    (hq : fl.q01 = false) (R C : Int) (hS : C02.SmwpmToric.Size R C)
    (rows : List BVec) (hrows : ∀ r ∈ rows, r.length = (RotatedToric.plaquetteIndices R C).length)
    (e : BVec)
    (hsyn : synd (RotatedToric.stabilizers R C) e = xorAll (RotatedToric.plaquetteIndices R C).length rows) :
    FeasibleT fl R C rows :=
  smwpm_toric_feasible_of_reachable fl he hp hq R C hS (alldep_all_sizes R C hS) rows hrows e hsyn

/-! ## what a reachable array looks like (Props/C03.lean `reachable_iff_*`, uniformly in `q`) -/

/-- `measurement_error_probability in (0, 1)` as a flag of the decoder ↔ class of `q` in the run model -/
def qClassOk (fl : Flags) (qc : Ftp.QClass) : Prop := fl.q01 = true ↔ qc ≠ .mid

/-- **reachable arrays, any `q`**: `T` rows of the right length; their XOR is the syndrome of an error in the support;
    and for `q ∈ {0, 1}` every single row is the syndrome of an error in the support -/
theorem reachable_rows (n : Nat) (S : List BVec) (supp : BVec → Prop) (qc : Ftp.QClass) (nT : Nat) (rows : List BVec)
    (hT : 1 ≤ nT) (hS : ∀ s ∈ S, s.length = 2 * n)
    (h0 : supp (zeros (2 * n))) (hx : ∀ a b, supp a → supp b → supp (xorV a b))
    (hl : ∀ e, supp e → e.length = 2 * n) (h : Ftp.reachable n S supp qc nT rows) :
    rows.length = nT ∧ (∀ r ∈ rows, r.length = S.length) ∧ (∃ e, supp e ∧ synd S e = xorAll S.length rows) ∧
      (qc ≠ .mid → ∀ r ∈ rows, ∃ e, supp e ∧ synd S e = r) := by
  have hrow : (∀ r ∈ rows, ∃ e, supp e ∧ synd S e = r) →
      (∀ r ∈ rows, r.length = S.length) ∧ (∃ e, supp e ∧ synd S e = xorAll S.length rows) := by
    intro hr
    refine ⟨?_, synd_rows_xorAll n S supp hS h0 hx hl rows hr⟩
    intro r hr'
    obtain ⟨e, _, rfl⟩ := hr r hr'
    exact synd_length S e
  cases qc with
  | mid =>
    obtain ⟨h1, h2, h3⟩ := (C03.reachable_iff_mid n S supp nT rows hT hS h0 hx hl).mp h
    exact ⟨h1, h2, h3, fun hne => absurd rfl hne⟩
  | zero =>
    obtain ⟨h1, h2⟩ := (C03.reachable_iff_zero n S supp nT rows).mp h
    exact ⟨h1, (hrow h2).1, (hrow h2).2, fun _ => h2⟩
  | one =>
    obtain ⟨h1, h2⟩ := (C03.reachable_iff_one n S supp nT rows).mp h
    exact ⟨h1, (hrow h2).1, (hrow h2).2, fun _ => h2⟩

/-! ## rotated toric: any perfect matching of the symmetry graph leads to a recovery -/

/-- for ANY perfect matching `ms` of the toric symmetry graph and an even number of X-type defects, the cluster stage
    exists and `decode_ftp` returns a recovery whose syndrome is the XOR of the rows -/
theorem smwpm_toric_never_fails_of_pm (fl : Flags) (R C : Int) (hS : C02.SmwpmToric.Size R C)
    (rows : List BVec) (hrows : ∀ r ∈ rows, r.length = (RotatedToric.plaquetteIndices R C).length)
    (hx : EvenX R C rows) (ms : List (Node × Node))
    (h1 : Dec.isPerfectMatchingOfGraph (Smwpm.Toric.graphNodes R C rows) (Smwpm.Toric.graphEdges fl R C rows) ms = true) :
    Smwpm.Toric.matchingsOk fl R C rows ms (clusterMatchingOfT ms) = true ∧
    ∃ r, Smwpm.Toric.decode R C ms (clusterMatchingOfT ms) = .ok r ∧
      synd (RotatedToric.stabilizers R C) r = xorAll (RotatedToric.plaquetteIndices R C).length rows := by
  obtain ⟨cls, ns, hc, hn, h2⟩ := smwpm_toric_cluster_graph_has_pm fl R C rows hx _ h1
  have hok : Smwpm.Toric.matchingsOk fl R C rows ms (clusterMatchingOfT ms) = true := by
    unfold Smwpm.Toric.matchingsOk clusterMatchingOfT
    rw [h1, hc]; simp only [hn, Bool.true_and]
    exact h2
  exact ⟨hok, C02.SmwpmToric.smwpm_toric_syndrome fl R C hS rows hrows _ _ hok⟩

/-! ## 2. infinite bias, `p ≠ 0` — rotated toric -/

/-- **the existence condition at infinite bias** (rotated toric; sufficient at any bias): every row and every column
    of plaquettes holds an even number of defects — per time step when there are no time-like edges (`q ∈ {0, 1}`),
    over all time steps otherwise -/
def LineEvenT (fl : Flags) (R C : Int) (rows : List BVec) : Prop :=
  ∀ g ∈ T.groupsSpace fl.q01 rows.length, ∀ j : Int,
    ((T.usedSpace R C rows g).filter fun k => decide (k.2.2 = j)).length % 2 = 0 ∧
    ((T.usedSpace R C rows g).filter fun k => decide (k.2.1 = j)).length % 2 = 0

/-- **the toric symmetry graph has a perfect matching at infinite bias** (`p ≠ 0`; row nodes may only be matched
    within their row, column nodes within their column) — the explicit `T.lineMatching` — for all sizes, all `T`, all
    rows, under `LineEvenT` -/
theorem smwpm_toric_graph_has_pm_infinite_bias (fl : Flags) (R C : Int) (rows : List BVec)
    (hp : fl.pZero = false) (hl : LineEvenT fl R C rows) :
    Dec.isPerfectMatchingOfGraph (Smwpm.Toric.graphNodes R C rows) (Smwpm.Toric.graphEdges fl R C rows)
      (SmwpmX2.T.lineMatching fl R C rows) = true :=
  SmwpmX2.T.line_space fl R C rows hp hl

/-- **the condition holds for Y-only noise**: a Y on a site flips two plaquettes of each of two rows and two columns
    of the torus (the generators of a line XOR to a Y-type operator, `line_ybits`), so if the XOR of the rows — for
    `q ∈ {0, 1}`: every row — is the syndrome of a Y-only error, every line holds an even number of defects -/
theorem smwpm_toric_line_even_of_yonly (fl : Flags) (R C : Int) (hS : C02.SmwpmToric.Size R C)
    (rows : List BVec) (hrows : ∀ r ∈ rows, r.length = (RotatedToric.plaquetteIndices R C).length)
    (hmid : fl.q01 = false → ∃ e, YOnly (C07.RotatedToric.n R C) e ∧
      synd (RotatedToric.stabilizers R C) e = xorAll (RotatedToric.plaquetteIndices R C).length rows)
    (h01 : fl.q01 = true → ∀ r ∈ rows, ∃ e, YOnly (C07.RotatedToric.n R C) e ∧
      synd (RotatedToric.stabilizers R C) e = r) :
    LineEvenT fl R C rows := by
  have key : ∀ (sel : Int × Int → Bool), LineSel R C sel → ∀ g ∈ T.groupsSpace fl.q01 rows.length,
      ((T.usedSpace R C rows g).filter fun k => sel (sp k)).length % 2 = 0 := by
    intro sel hsel g hg
    unfold T.groupsSpace at hg
    by_cases hq : fl.q01 = true
    · rw [if_pos hq] at hg
      obtain ⟨t, ht, rfl⟩ := List.mem_map.mp hg
      have ht' := List.mem_range.mp ht
      show ((T.defectsAt R C rows t).filter fun k => sel (sp k)).length % 2 = 0
      rw [T.defectsAt_wX sel R C rows t]
      have hm : rows.getD t [] ∈ rows := by
        rw [List.getD_eq_getElem?_getD, List.getElem?_eq_getElem ht']; exact List.getElem_mem ht'
      obtain ⟨e, ⟨he, hey⟩, hsyn⟩ := h01 hq _ hm
      rw [← hsyn]
      exact toric_line_even R C hS sel hsel e he hey
    · rw [if_neg hq, List.mem_singleton] at hg
      subst hg
      show ((T.allDefects R C rows).filter fun k => sel (sp k)).length % 2 = 0
      obtain ⟨e, ⟨he, hey⟩, hsyn⟩ := hmid (by simpa using hq)
      rw [T.allDefects_wX sel R C rows hrows, ← hsyn]
      exact toric_line_even R C hS sel hsel e he hey
  intro g hg j
  exact ⟨key _ (selRow_line R C j) g hg, key _ (selCol_line R C j) g hg⟩

/-- **never fails at infinite bias** (rotated toric, `p ≠ 0`, Y-only step errors — the decoder's noise domain at
    `eta = None`), any `q`: for every array the simulation can produce both matchings exist and the modelled
    `decode_ftp` returns a recovery whose syndrome is the XOR of the rows -/
theorem smwpm_toric_never_fails_infinite_bias (fl : Flags) (qc : Ftp.QClass) (hq : qClassOk fl qc)
    (hp : fl.pZero = false) (R C : Int) (hS : C02.SmwpmToric.Size R C) (nT : Nat) (hT : 1 ≤ nT) (rows : List BVec)
    (hreach : Ftp.reachable (C07.RotatedToric.n R C) (RotatedToric.stabilizers R C)
      (YOnly (C07.RotatedToric.n R C)) qc nT rows) :
    Smwpm.Toric.matchingsOk fl R C rows (SmwpmX2.T.lineMatching fl R C rows)
      (clusterMatchingOfT (SmwpmX2.T.lineMatching fl R C rows)) = true ∧
    ∃ r, Smwpm.Toric.decode R C (SmwpmX2.T.lineMatching fl R C rows)
        (clusterMatchingOfT (SmwpmX2.T.lineMatching fl R C rows)) = .ok r ∧
      synd (RotatedToric.stabilizers R C) r = xorAll (RotatedToric.plaquetteIndices R C).length rows := by
  have hSl : (RotatedToric.stabilizers R C).length = (RotatedToric.plaquetteIndices R C).length := by
    simp [RotatedToric.stabilizers]
  obtain ⟨_, h2, h3, h4⟩ := reachable_rows _ _ _ qc nT rows hT
    (C07.RotatedToric.stabilizer_count R C hS).2.2.2.2.1 (yonly_zeros _) (yonly_xor _) (fun e he => he.1) hreach
  rw [hSl] at h2 h3
  obtain ⟨e, he, hsyn⟩ := h3
  have hx := smwpm_toric_even_x_all_sizes R C hS rows h2 e hsyn
  have hl := smwpm_toric_line_even_of_yonly fl R C hS rows h2 (fun _ => ⟨e, he, hsyn⟩)
    (fun hq1 => h4 (hq.mp hq1))
  exact smwpm_toric_never_fails_of_pm fl R C hS rows h2 hx _
    (smwpm_toric_graph_has_pm_infinite_bias fl R C rows hp hl)

/-! ## 2'. infinite bias, `p ≠ 0` — rotated planar -/

/-- for ANY perfect matching `ms` of the planar symmetry graph the cluster stage exists (Props/C02/SmwpmExists.lean)
    and `decode_ftp` returns a recovery whose syndrome is the XOR of the rows -/
theorem smwpm_planar_never_fails_of_pm (fl : Flags) (R C : Int) (hR : 3 ≤ R) (hC : 3 ≤ C)
    (rows : List BVec) (hT : 1 ≤ rows.length)
    (hrows : ∀ r ∈ rows, r.length = (RotatedPlanar.plaquetteIndices R C).length) (ms : List (Node × Node))
    (h1 : Dec.isPerfectMatchingOfGraph (graphNodes R C rows) (graphEdges fl R C rows) ms = true) :
    matchingsOk fl R C rows ms (clusterMatchingOf R C rows.length ms) = true ∧
    ∃ r, decode R C rows.length ms (clusterMatchingOf R C rows.length ms) = .ok r ∧
      synd (RotatedPlanar.stabilizers R C) r = xorAll (RotatedPlanar.plaquetteIndices R C).length rows := by
  obtain ⟨cls, ns, hc, hn, h2⟩ := smwpm_planar_cluster_graph_has_pm fl R C hR hC rows hT hrows _ h1
  have hok : matchingsOk fl R C rows ms (clusterMatchingOf R C rows.length ms) = true := by
    unfold matchingsOk clusterMatchingOf
    rw [h1, hc]; simp only [hn, Bool.true_and]
    exact h2
  exact ⟨hok, C02.Smwpm.smwpm_planar_syndrome fl R C hR hC rows hrows _ _ hok⟩

/-- **the existence condition at infinite bias** (rotated planar; sufficient at any bias): every line WITHOUT a virtual
    plaquette — interior rows `y` with neither `(-1, y)` nor `(C-1, y)` virtual (`y` even, `C` even), interior columns
    `x` with neither `(x, -1)` nor `(x, R-1)` virtual (`x` odd, `R` even) — holds an even number of defects, per time
    step when there are no time-like edges (`q ∈ {0, 1}`), over all time steps otherwise -/
def LineEvenP (fl : Flags) (R C : Int) (rows : List BVec) : Prop :=
  ∀ g ∈ T.groupsSpace fl.q01 rows.length, P.LinesOk R C (P.usedSpace R C rows g)

/-- **the planar symmetry graph has a perfect matching at infinite bias** (`p ≠ 0`) — the explicit `P.lineMatching`:
    defects are paired within their row (row nodes) and within their column (column nodes); a T-join of USED virtual
    plaquettes (the boundary plaquette of every odd interior line, and the corners SW, NW, SE) repairs the parities,
    every other virtual node is matched with its twin — for all `R, C ≥ 3`, all `T ≥ 1`, all rows, under `LineEvenP` -/
theorem smwpm_planar_graph_has_pm_infinite_bias (fl : Flags) (R C : Int) (hR : 3 ≤ R) (hC : 3 ≤ C)
    (rows : List BVec) (hT : 1 ≤ rows.length) (hp : fl.pZero = false) (hl : LineEvenP fl R C rows) :
    Dec.isPerfectMatchingOfGraph (graphNodes R C rows) (graphEdges fl R C rows) (P.lineMatching fl R C rows) = true :=
  P.line_space fl R C (by omega) (by omega) rows hT hp hl

/-- **the condition holds for Y-only noise** (rotated planar): a Y on a site flips both plaquettes of a line without
    virtual plaquettes that touch the site — the generators of such a line XOR to a Y-type operator (`planar_ybits`) —
    so if the XOR of the rows (for `q ∈ {0, 1}`: every row) is the syndrome of a Y-only error, `LineEvenP` holds -/
theorem smwpm_planar_line_even_of_yonly (fl : Flags) (R C : Int) (hR : 3 ≤ R) (hC : 3 ≤ C)
    (rows : List BVec) (hrows : ∀ r ∈ rows, r.length = (RotatedPlanar.plaquetteIndices R C).length)
    (hmid : fl.q01 = false → ∃ e, YOnly (C07.RotatedPlanar.n R C) e ∧
      synd (RotatedPlanar.stabilizers R C) e = xorAll (RotatedPlanar.plaquetteIndices R C).length rows)
    (h01 : fl.q01 = true → ∀ r ∈ rows, ∃ e, YOnly (C07.RotatedPlanar.n R C) e ∧
      synd (RotatedPlanar.stabilizers R C) e = r) :
    LineEvenP fl R C rows := by
  intro g hg
  apply P.linesOk_of_even R C (by omega) (by omega)
  intro sel hsel
  unfold T.groupsSpace at hg
  by_cases hq : fl.q01 = true
  · rw [if_pos hq] at hg
    obtain ⟨t, ht, rfl⟩ := List.mem_map.mp hg
    have ht' := List.mem_range.mp ht
    show ((defectsAt R C rows t).filter fun k => sel (sp k)).length % 2 = 0
    rw [P.defectsAt_wX sel R C rows t]
    have hm : rows.getD t [] ∈ rows := by
      rw [List.getD_eq_getElem?_getD, List.getElem?_eq_getElem ht']; exact List.getElem_mem ht'
    obtain ⟨e, ⟨he, hey⟩, hsyn⟩ := h01 hq _ hm
    rw [← hsyn]
    exact P.planar_line_even R C hC sel hsel e he hey
  · rw [if_neg hq, List.mem_singleton] at hg
    subst hg
    show ((P.allDefects R C rows).filter fun k => sel (sp k)).length % 2 = 0
    obtain ⟨e, ⟨he, hey⟩, hsyn⟩ := hmid (by simpa using hq)
    rw [P.allDefects_wX sel R C rows hrows, ← hsyn]
    exact P.planar_line_even R C hC sel hsel e he hey

/-- **never fails at infinite bias** (rotated planar, `p ≠ 0`, Y-only step errors — the decoder's noise domain at
    `eta = None`), any `q`: for every array the simulation can produce both matchings exist and the modelled
    `decode_ftp` returns a recovery whose syndrome is the XOR of the rows -/
theorem smwpm_planar_never_fails_infinite_bias (fl : Flags) (qc : Ftp.QClass) (hq : qClassOk fl qc)
    (hp : fl.pZero = false) (R C : Int) (hR : 3 ≤ R) (hC : 3 ≤ C) (nT : Nat) (hT : 1 ≤ nT) (rows : List BVec)
    (hreach : Ftp.reachable (C07.RotatedPlanar.n R C) (RotatedPlanar.stabilizers R C)
      (YOnly (C07.RotatedPlanar.n R C)) qc nT rows) :
    matchingsOk fl R C rows (P.lineMatching fl R C rows)
      (clusterMatchingOf R C rows.length (P.lineMatching fl R C rows)) = true ∧
    ∃ r, decode R C rows.length (P.lineMatching fl R C rows)
        (clusterMatchingOf R C rows.length (P.lineMatching fl R C rows)) = .ok r ∧
      synd (RotatedPlanar.stabilizers R C) r = xorAll (RotatedPlanar.plaquetteIndices R C).length rows := by
  have hSl : (RotatedPlanar.stabilizers R C).length = (RotatedPlanar.plaquetteIndices R C).length := by
    rw [RotatedPlanarCode.stabilizers_eq_map, List.length_map]
  obtain ⟨h1, h2, h3, h4⟩ := reachable_rows _ _ _ qc nT rows hT
    (C07.RotatedPlanar.stabilizer_count R C hR hC).2.1 (yonly_zeros _) (yonly_xor _) (fun e he => he.1) hreach
  rw [hSl] at h2 h3
  obtain ⟨e, he, hsyn⟩ := h3
  have hl := smwpm_planar_line_even_of_yonly fl R C hR hC rows h2 (fun _ => ⟨e, he, hsyn⟩)
    (fun hq1 => h4 (hq.mp hq1))
  exact smwpm_planar_never_fails_of_pm fl R C hR hC rows (by omega) h2 _
    (smwpm_planar_graph_has_pm_infinite_bias fl R C hR hC rows (by omega) hp hl)

/-! ## 3. per-time-step feasibility (`q ∈ {0, 1}`), `p = 0`, and "never fails" on reachable arrays -/

/-- **`FeasibleT` from reachability at finite bias, `p ≠ 0`, ANY `q`** (all sizes): the total number of defects is
    even when the XOR of the rows is a syndrome, and the number of defects of every single time step is even when every
    row is a syndrome (`q ∈ {0, 1}`: `reachable_iff_zero/one`) -/
theorem smwpm_toric_feasible_of_reachable_any_q (fl : Flags) (he : fl.etaNone = false) (hp : fl.pZero = false)
    (R C : Int) (hS : C02.SmwpmToric.Size R C)
    (rows : List BVec) (hrows : ∀ r ∈ rows, r.length = (RotatedToric.plaquetteIndices R C).length)
    (hmid : fl.q01 = false → ∃ e, synd (RotatedToric.stabilizers R C) e =
      xorAll (RotatedToric.plaquetteIndices R C).length rows)
    (h01 : fl.q01 = true → ∀ r ∈ rows, ∃ e, synd (RotatedToric.stabilizers R C) e = r) :
    FeasibleT fl R C rows := by
  by_cases hq : fl.q01 = true
  · unfold FeasibleT
    rw [hp, hq]
    simp only [Bool.false_eq_true, if_false, if_true]
    refine ⟨he, ?_⟩
    intro t ht
    have hm : rows.getD t [] ∈ rows := by
      rw [List.getD_eq_getElem?_getD, List.getElem?_eq_getElem ht]; exact List.getElem_mem ht
    obtain ⟨e, hsyn⟩ := h01 hq _ hm
    have h := T.defectsAt_wX (fun _ => true) R C rows t
    simp only [List.filter_true] at h
    rw [h, ← hsyn, RotatedToric.Lem.stabilizers_eq_map]
    exact T.wX_synd_even (fun _ => true) (2 * RotatedToricCode.nq R C) _ _
      (fun p _ => RotatedToricCode.stabOf_length R C p) (alldep_all R C hS) e
  · have hq' : fl.q01 = false := by simpa using hq
    obtain ⟨e, hsyn⟩ := hmid hq'
    exact smwpm_toric_feasible_of_reachable_all_sizes fl he hp hq' R C hS rows hrows e hsyn

/-- **`Feasible` for `p = 0`** (rotated planar): with `error_probability == 0` the step errors are the identity, so
    the XOR of the rows is zero (`reachable_iff_mid` with the identity-only support) — each measurement flip toggles
    the same plaquette at two time steps — and for `q ∈ {0, 1}` every row is zero -/
theorem smwpm_planar_feasible_p_zero (fl : Flags) (hp : fl.pZero = true) (R C : Int)
    (rows : List BVec) (hrows : ∀ r ∈ rows, r.length = (RotatedPlanar.plaquetteIndices R C).length)
    (hx : xorAll (RotatedPlanar.plaquetteIndices R C).length rows = zeros (RotatedPlanar.plaquetteIndices R C).length)
    (h01 : fl.q01 = true → ∀ r ∈ rows, r = zeros (RotatedPlanar.plaquetteIndices R C).length) :
    Feasible fl R C rows := by
  unfold Feasible
  rw [if_pos hp]
  exact ⟨planar_even_times R C rows hrows hx, fun hq => planar_no_defect R C rows _ (h01 hq)⟩

/-- **`FeasibleT` for `p = 0`** (rotated toric) -/
theorem smwpm_toric_feasible_p_zero (fl : Flags) (hp : fl.pZero = true) (R C : Int)
    (rows : List BVec) (hrows : ∀ r ∈ rows, r.length = (RotatedToric.plaquetteIndices R C).length)
    (hx : xorAll (RotatedToric.plaquetteIndices R C).length rows = zeros (RotatedToric.plaquetteIndices R C).length)
    (h01 : fl.q01 = true → ∀ r ∈ rows, r = zeros (RotatedToric.plaquetteIndices R C).length) :
    FeasibleT fl R C rows := by
  unfold FeasibleT
  rw [if_pos hp]
  exact ⟨toric_even_times R C rows hrows hx, fun hq => toric_no_defect R C rows _ (h01 hq)⟩

/-- the identity-only support of an error model with `error_probability == 0` -/
def IdOnly (n : Nat) (e : BVec) : Prop := e = zeros (2 * n)

theorem idOnly_props (n : Nat) : IdOnly n (zeros (2 * n)) ∧ (∀ a b, IdOnly n a → IdOnly n b → IdOnly n (xorV a b)) ∧
    (∀ e, IdOnly n e → e.length = 2 * n) := by
  refine ⟨rfl, ?_, ?_⟩
  · intro a b ha hb
    unfold IdOnly at ha hb ⊢
    rw [ha, hb, xorV_self, zeros_length]
  · intro e he; rw [he, zeros_length]

/-- **never fails for `p = 0`** (rotated planar, any bias, any `q`): for every array the simulation can produce without
    qubit errors both matchings exist and the modelled `decode_ftp` returns a recovery whose syndrome is the XOR of the
    rows -/
theorem smwpm_planar_never_fails_p_zero (fl : Flags) (qc : Ftp.QClass) (hq : qClassOk fl qc) (hp : fl.pZero = true)
    (R C : Int) (hR : 3 ≤ R) (hC : 3 ≤ C) (nT : Nat) (hT : 1 ≤ nT) (rows : List BVec)
    (hreach : Ftp.reachable (C07.RotatedPlanar.n R C) (RotatedPlanar.stabilizers R C)
      (IdOnly (C07.RotatedPlanar.n R C)) qc nT rows) :
    matchingsOk fl R C rows (canonicalMatching fl R C rows)
      (clusterMatchingOf R C rows.length (canonicalMatching fl R C rows)) = true ∧
    ∃ r, decode R C rows.length (canonicalMatching fl R C rows)
        (clusterMatchingOf R C rows.length (canonicalMatching fl R C rows)) = .ok r ∧
      synd (RotatedPlanar.stabilizers R C) r = xorAll (RotatedPlanar.plaquetteIndices R C).length rows := by
  have hSl : (RotatedPlanar.stabilizers R C).length = (RotatedPlanar.plaquetteIndices R C).length := by
    rw [RotatedPlanarCode.stabilizers_eq_map, List.length_map]
  obtain ⟨i0, ix, il⟩ := idOnly_props (C07.RotatedPlanar.n R C)
  obtain ⟨h1, h2, h3, h4⟩ := reachable_rows _ _ _ qc nT rows hT
    (C07.RotatedPlanar.stabilizer_count R C hR hC).2.1 i0 ix il hreach
  rw [hSl] at h2 h3
  obtain ⟨e, he, hsyn⟩ := h3
  rw [he, synd_zeros, hSl] at hsyn
  apply smwpm_planar_never_fails fl R C hR hC rows (by omega) h2
  apply smwpm_planar_feasible_p_zero fl hp R C rows h2 hsyn.symm
  intro hq1 r hr
  obtain ⟨e', he', hs'⟩ := h4 (hq.mp hq1) r hr
  rw [← hs', he', synd_zeros, hSl]

/-- **never fails for `p = 0`** (rotated toric) -/
theorem smwpm_toric_never_fails_p_zero (fl : Flags) (qc : Ftp.QClass) (hq : qClassOk fl qc) (hp : fl.pZero = true)
    (R C : Int) (hS : C02.SmwpmToric.Size R C) (nT : Nat) (hT : 1 ≤ nT) (rows : List BVec)
    (hreach : Ftp.reachable (C07.RotatedToric.n R C) (RotatedToric.stabilizers R C)
      (IdOnly (C07.RotatedToric.n R C)) qc nT rows) :
    Smwpm.Toric.matchingsOk fl R C rows (T.canonicalMatching fl R C rows)
      (clusterMatchingOfT (T.canonicalMatching fl R C rows)) = true ∧
    ∃ r, Smwpm.Toric.decode R C (T.canonicalMatching fl R C rows)
        (clusterMatchingOfT (T.canonicalMatching fl R C rows)) = .ok r ∧
      synd (RotatedToric.stabilizers R C) r = xorAll (RotatedToric.plaquetteIndices R C).length rows := by
  have hSl : (RotatedToric.stabilizers R C).length = (RotatedToric.plaquetteIndices R C).length := by
    simp [RotatedToric.stabilizers]
  obtain ⟨i0, ix, il⟩ := idOnly_props (C07.RotatedToric.n R C)
  obtain ⟨_, h2, h3, h4⟩ := reachable_rows _ _ _ qc nT rows hT
    (C07.RotatedToric.stabilizer_count R C hS).2.2.2.2.1 i0 ix il hreach
  rw [hSl] at h2 h3
  obtain ⟨e, he, hsyn⟩ := h3
  have hx := smwpm_toric_even_x_all_sizes R C hS rows h2 e hsyn
  rw [he, synd_zeros, hSl] at hsyn
  apply smwpm_toric_never_fails fl R C hS rows h2 _ hx
  apply smwpm_toric_feasible_p_zero fl hp R C rows h2 hsyn.symm
  intro hq1 r hr
  obtain ⟨e', he', hs'⟩ := h4 (hq.mp hq1) r hr
  rw [← hs', he', synd_zeros, hSl]

/-- **never fails at finite bias, `p ≠ 0`, ANY `q`, all sizes** (rotated toric): for every array the simulation can
    produce (any support closed under products, e.g. all Paulis) both matchings exist — no parity or dependency
    hypothesis is left — and the modelled `decode_ftp` returns a recovery whose syndrome is the XOR of the rows -/
theorem smwpm_toric_never_fails_finite_bias (fl : Flags) (qc : Ftp.QClass) (hq : qClassOk fl qc)
    (he : fl.etaNone = false) (hp : fl.pZero = false)
    (R C : Int) (hS : C02.SmwpmToric.Size R C) (nT : Nat) (hT : 1 ≤ nT) (rows : List BVec)
    (supp : BVec → Prop) (h0 : supp (zeros (2 * C07.RotatedToric.n R C)))
    (hx : ∀ a b, supp a → supp b → supp (xorV a b)) (hl : ∀ e, supp e → e.length = 2 * C07.RotatedToric.n R C)
    (hreach : Ftp.reachable (C07.RotatedToric.n R C) (RotatedToric.stabilizers R C) supp qc nT rows) :
    Smwpm.Toric.matchingsOk fl R C rows (T.canonicalMatching fl R C rows)
      (clusterMatchingOfT (T.canonicalMatching fl R C rows)) = true ∧
    ∃ r, Smwpm.Toric.decode R C (T.canonicalMatching fl R C rows)
        (clusterMatchingOfT (T.canonicalMatching fl R C rows)) = .ok r ∧
      synd (RotatedToric.stabilizers R C) r = xorAll (RotatedToric.plaquetteIndices R C).length rows := by
  have hSl : (RotatedToric.stabilizers R C).length = (RotatedToric.plaquetteIndices R C).length := by
    simp [RotatedToric.stabilizers]
  obtain ⟨_, h2, h3, h4⟩ := reachable_rows _ _ _ qc nT rows hT
    (C07.RotatedToric.stabilizer_count R C hS).2.2.2.2.1 h0 hx hl hreach
  rw [hSl] at h2 h3
  obtain ⟨e, _, hsyn⟩ := h3
  have hxe := smwpm_toric_even_x_all_sizes R C hS rows h2 e hsyn
  apply smwpm_toric_never_fails fl R C hS rows h2 _ hxe
  apply smwpm_toric_feasible_of_reachable_any_q fl he hp R C hS rows h2 (fun _ => ⟨e, hsyn⟩)
  intro hq1 r hr
  obtain ⟨e', _, hs'⟩ := h4 (hq.mp hq1) r hr
  exact ⟨e', hs'⟩

/-! ## every maximum-cardinality choice succeeds (what `gt.mwpm` returns: C13), from ANY perfect matching -/

/-- rotated planar: if the symmetry graph has some perfect matching `pm`, every maximum-cardinality matching of it and
    then of the cluster graph is perfect, the model never raises and the recovery has syndrome = XOR of the rows -/
theorem smwpm_planar_max_cardinality_of_pm (fl : Flags) (R C : Int) (hR : 3 ≤ R) (hC : 3 ≤ C)
    (rows : List BVec) (hT : 1 ≤ rows.length)
    (hrows : ∀ r ∈ rows, r.length = (RotatedPlanar.plaquetteIndices R C).length) (pm : List (Node × Node))
    (hpm : Dec.isPerfectMatchingOfGraph (graphNodes R C rows) (graphEdges fl R C rows) pm = true)
    (ms : List (Node × Node)) (hms : IsMaxCardinality (graphNodes R C rows) (graphEdges fl R C rows) ms) :
    ∃ cls ns, clusters ms = .ok cls ∧ clusterNodes R C rows.length cls = .ok ns ∧
      ∀ cms, IsMaxCardinality (List.range ns.length) (clusterEdges ns) cms →
        matchingsOk fl R C rows ms cms = true ∧
        ∃ r, decode R C rows.length ms cms = .ok r ∧
          synd (RotatedPlanar.stabilizers R C) r = xorAll (RotatedPlanar.plaquetteIndices R C).length rows := by
  have h1 := max_card_perfect _ _ _ ms hpm hms
  obtain ⟨cls, ns, hc, hn, h2⟩ := smwpm_planar_cluster_graph_has_pm fl R C hR hC rows hT hrows ms h1
  refine ⟨cls, ns, hc, hn, fun cms hcms => ?_⟩
  have h3 := max_card_perfect _ _ _ cms h2 hcms
  have hok : matchingsOk fl R C rows ms cms = true := by
    unfold matchingsOk
    rw [h1, hc]; simp only [hn, Bool.true_and]
    exact h3
  exact ⟨hok, C02.Smwpm.smwpm_planar_syndrome fl R C hR hC rows hrows _ _ hok⟩

/-- rotated toric, the same (with an even number of X-type defects) -/
theorem smwpm_toric_max_cardinality_of_pm (fl : Flags) (R C : Int) (hS : C02.SmwpmToric.Size R C)
    (rows : List BVec) (hrows : ∀ r ∈ rows, r.length = (RotatedToric.plaquetteIndices R C).length)
    (hx : EvenX R C rows) (pm : List (Node × Node))
    (hpm : Dec.isPerfectMatchingOfGraph (Smwpm.Toric.graphNodes R C rows) (Smwpm.Toric.graphEdges fl R C rows) pm = true)
    (ms : List (Node × Node))
    (hms : IsMaxCardinality (Smwpm.Toric.graphNodes R C rows) (Smwpm.Toric.graphEdges fl R C rows) ms) :
    ∃ cls ns, clusters ms = .ok cls ∧ Smwpm.Toric.clusterNodes cls = .ok ns ∧
      ∀ cms, IsMaxCardinality (List.range ns.length) (Smwpm.Toric.clusterEdges ns) cms →
        Smwpm.Toric.matchingsOk fl R C rows ms cms = true ∧
        ∃ r, Smwpm.Toric.decode R C ms cms = .ok r ∧
          synd (RotatedToric.stabilizers R C) r = xorAll (RotatedToric.plaquetteIndices R C).length rows := by
  have h1 := max_card_perfect _ _ _ ms hpm hms
  obtain ⟨cls, ns, hc, hn, h2⟩ := smwpm_toric_cluster_graph_has_pm fl R C rows hx ms h1
  refine ⟨cls, ns, hc, hn, fun cms hcms => ?_⟩
  have h3 := max_card_perfect _ _ _ cms h2 hcms
  have hok : Smwpm.Toric.matchingsOk fl R C rows ms cms = true := by
    unfold Smwpm.Toric.matchingsOk
    rw [h1, hc]; simp only [hn, Bool.true_and]
    exact h3
  exact ⟨hok, C02.SmwpmToric.smwpm_toric_syndrome fl R C hS rows hrows _ _ hok⟩

/-- **every maximum-cardinality choice succeeds at infinite bias** (rotated planar, `p ≠ 0`, Y-only noise, any `q`) -/
theorem smwpm_planar_max_cardinality_succeeds_infinite_bias (fl : Flags) (qc : Ftp.QClass) (hq : qClassOk fl qc)
    (hp : fl.pZero = false) (R C : Int) (hR : 3 ≤ R) (hC : 3 ≤ C) (nT : Nat) (hT : 1 ≤ nT) (rows : List BVec)
    (hreach : Ftp.reachable (C07.RotatedPlanar.n R C) (RotatedPlanar.stabilizers R C)
      (YOnly (C07.RotatedPlanar.n R C)) qc nT rows)
    (ms : List (Node × Node)) (hms : IsMaxCardinality (graphNodes R C rows) (graphEdges fl R C rows) ms) :
    ∃ cls ns, clusters ms = .ok cls ∧ clusterNodes R C rows.length cls = .ok ns ∧
      ∀ cms, IsMaxCardinality (List.range ns.length) (clusterEdges ns) cms →
        matchingsOk fl R C rows ms cms = true ∧
        ∃ r, decode R C rows.length ms cms = .ok r ∧
          synd (RotatedPlanar.stabilizers R C) r = xorAll (RotatedPlanar.plaquetteIndices R C).length rows := by
  have hSl : (RotatedPlanar.stabilizers R C).length = (RotatedPlanar.plaquetteIndices R C).length := by
    rw [RotatedPlanarCode.stabilizers_eq_map, List.length_map]
  obtain ⟨h1, h2, h3, h4⟩ := reachable_rows _ _ _ qc nT rows hT
    (C07.RotatedPlanar.stabilizer_count R C hR hC).2.1 (yonly_zeros _) (yonly_xor _) (fun e he => he.1) hreach
  rw [hSl] at h2 h3
  obtain ⟨e, he, hsyn⟩ := h3
  have hl := smwpm_planar_line_even_of_yonly fl R C hR hC rows h2 (fun _ => ⟨e, he, hsyn⟩)
    (fun hq1 => h4 (hq.mp hq1))
  exact smwpm_planar_max_cardinality_of_pm fl R C hR hC rows (by omega) h2 _
    (smwpm_planar_graph_has_pm_infinite_bias fl R C hR hC rows (by omega) hp hl) ms hms

/-- **every maximum-cardinality choice succeeds at infinite bias** (rotated toric, `p ≠ 0`, Y-only noise, any `q`) -/
theorem smwpm_toric_max_cardinality_succeeds_infinite_bias (fl : Flags) (qc : Ftp.QClass) (hq : qClassOk fl qc)
    (hp : fl.pZero = false) (R C : Int) (hS : C02.SmwpmToric.Size R C) (nT : Nat) (hT : 1 ≤ nT) (rows : List BVec)
    (hreach : Ftp.reachable (C07.RotatedToric.n R C) (RotatedToric.stabilizers R C)
      (YOnly (C07.RotatedToric.n R C)) qc nT rows)
    (ms : List (Node × Node))
    (hms : IsMaxCardinality (Smwpm.Toric.graphNodes R C rows) (Smwpm.Toric.graphEdges fl R C rows) ms) :
    ∃ cls ns, clusters ms = .ok cls ∧ Smwpm.Toric.clusterNodes cls = .ok ns ∧
      ∀ cms, IsMaxCardinality (List.range ns.length) (Smwpm.Toric.clusterEdges ns) cms →
        Smwpm.Toric.matchingsOk fl R C rows ms cms = true ∧
        ∃ r, Smwpm.Toric.decode R C ms cms = .ok r ∧
          synd (RotatedToric.stabilizers R C) r = xorAll (RotatedToric.plaquetteIndices R C).length rows := by
  have hSl : (RotatedToric.stabilizers R C).length = (RotatedToric.plaquetteIndices R C).length := by
    simp [RotatedToric.stabilizers]
  obtain ⟨_, h2, h3, h4⟩ := reachable_rows _ _ _ qc nT rows hT
    (C07.RotatedToric.stabilizer_count R C hS).2.2.2.2.1 (yonly_zeros _) (yonly_xor _) (fun e he => he.1) hreach
  rw [hSl] at h2 h3
  obtain ⟨e, he, hsyn⟩ := h3
  have hx := smwpm_toric_even_x_all_sizes R C hS rows h2 e hsyn
  have hl := smwpm_toric_line_even_of_yonly fl R C hS rows h2 (fun _ => ⟨e, he, hsyn⟩)
    (fun hq1 => h4 (hq.mp hq1))
  exact smwpm_toric_max_cardinality_of_pm fl R C hS rows h2 hx _
    (smwpm_toric_graph_has_pm_infinite_bias fl R C rows hp hl) ms hms

/-! ### the constructors evaluated (non-vacuity; the all-sizes theorems above do not depend on these)

  4×4 rotated planar code (rows 0 and 2, columns 1 have no virtual plaquette), infinite bias, `T = 2`: the syndromes of
  `Y(1,1)` and of `Y(0,2) Y(3,3)`; `q ∈ {0,1}` and `0 < q < 1`.  4×4 torus: `Y(1,1) Y(3,0)` and `Y(2,2)`. -/

def exY1 : BVec := [false, true, false, true, false, false, false, false, true, false, true, false, false, false, false]
def exY2 : BVec := [false, false, false, false, true, true, false, false, false, false, true, false, true, false, true]
/-- `Y` on the site `(1, 1)` of the 4×4 code (flat index 5) -/
def exYErr : BVec := (List.range 32).map fun j => j == 5 || j == 21

theorem exY_is_yonly : YOnly 16 exYErr ∧ synd (RotatedPlanar.stabilizers 4 4) exYErr = exY1 := by
  unfold YOnly; decide +kernel

theorem line_planar_bounded :
    [true, false].all (fun q =>
      matchingsOk ⟨true, q, false⟩ 4 4 [exY1, exY2] (P.lineMatching ⟨true, q, false⟩ 4 4 [exY1, exY2])
        (clusterMatchingOf 4 4 2 (P.lineMatching ⟨true, q, false⟩ 4 4 [exY1, exY2]))) = true := by decide +kernel

def exT1 : BVec :=
  [true, true, true, false, false, false, false, true, true, true, true, false, false, false, false, true]
def exT2 : BVec :=
  [false, false, true, false, false, true, false, false, false, false, false, true, true, false, false, false]

theorem line_toric_bounded :
    [true, false].all (fun q =>
      Smwpm.Toric.matchingsOk ⟨true, q, false⟩ 4 4 [exT1, exT2] (SmwpmX2.T.lineMatching ⟨true, q, false⟩ 4 4 [exT1, exT2])
        (clusterMatchingOfT (SmwpmX2.T.lineMatching ⟨true, q, false⟩ 4 4 [exT1, exT2]))) = true := by decide +kernel

end Qec.C02.SmwpmExists2
