/-
  C02 / C10 — the planar Y decoder (`PlanarYDecoder`), construction modelled in Model/PlanarY.lean and tied to the
  real class methods by harness/qv/c02_planary.py (driver ops `planary …`).

  PROVED here for ALL lattice sizes R, C ≥ 2:
  * `planary_fill_syndrome_down` / `_right` — `_snake_fill` from any site index: above the last row (left of the last
    column) the operator anticommutes with exactly the plaquette north (west) of its start — the telescoping of the
    bouncing rays, incl. the out-of-bounds start (identity);
  * `planary_destab_syndrome`  — the per-defect operator of the non-co-prime branch, `_partial_recovery(p)`:
    anticommutes with `p` and otherwise only with plaquettes of the boundary the code pushes to (last row if
    R ≥ C, last column if R < C);
  * `planary_residual_map_sound` — every entry of `_residual_syndrome_to_recovery_map` maps a syndrome to an operator
    with exactly that syndrome (dict in insertion order, `setdefault`);
  * `planary_residual_total_of_span` — the table is COMPLETE for the span of the boundary operators' syndromes: every
    non-zero XOR-combination of the syndromes of the snake-fills from the upper (left) boundary edges is a key
    (`itertools.combinations` of all lengths over the de-duplicated first-stage operators reaches every sub-list);
  * `planary_sample_syndrome_of_lookup` — `_sample_recovery`: whenever the residual syndrome vanishes or is a key,
    the returned operator has the requested syndrome;
  * `planary_residual_boundary` — non-co-prime branch, ANY error: error × combined partial recovery commutes with every
    plaquette off the boundary the code pushes to (both orientations);
  * `planary_residual_total`   — R ≥ C: for every Y-only error the residual syndrome is zero or IS a key of the table
    (never `KeyError`): uniqueness of a Y-only operator with given first row and no syndrome above the last row
    (row-by-row induction) ⇒ decomposition into the boundary operators ⇒ span ⇒ key;
  * `planary_sample_syndrome`  — hence for every R ≥ C ≥ 2 with gcd(R, C) ≠ 1 (multiples and constant-gcd shapes such
    as 6×4, 9×6, 10×8) and every syndrome of a Y-ONLY error the modelled `_sample_recovery` is returned, has length
    2n and reproduces the syndrome.
  BOUNDED kernel evaluations (separate module Props/C02/PlanarYBounded.lean, `decide +kernel`, not imported here
  because it takes minutes of kernel time): `planary_destab_syndrome_bounded`
  (co-prime `_destabilizer`, all plaquettes, 2 ≤ R, C ≤ 4), `planary_sample_syndrome_bounded` (ALL Y-only errors of
  2×2, 2×3), `planary_sample_syndrome_singles_bounded` (2 ≤ R, C ≤ 3 and 6×4), `ystabs_spec_bounded`,
  `ylogical_spec_bounded` (2 ≤ R, C ≤ 4), `ystabs_count_bounded` (2×2, 2×3, 3×2).  Larger sizes are covered by the
  harness tie + monitors (up to 10×8) on every run.
-/
import QecVerif.Props.C02
import QecVerif.Lemmas.PlanarYTotal
namespace Qec.C02.PlanarY
open Qec Qec.Planar Qec.Symp Qec.PlanarCode Qec.PlanarY Qec.PlanarYL

/-- **`_snake_fill(code, start, down=True)`**, all sizes, every site index `start` (in or out of bounds), every
    in-lattice plaquette `q` above the last row: anticommutes iff `q` is directly above `start` -/
theorem planary_fill_syndrome_down (R C : Int) (hR : 2 ≤ R) (hC : 2 ≤ C) (start q : Int × Int)
    (hs : (start.1 + start.2) % 2 = 0) (hq : q ∈ plaquetteIndices R C) (hlt : q.1 < maxRow R) :
    bsp (stabOp R C q) (snakeFill R C start true) = decide (q = (start.1 - 1, start.2)) :=
  fill_syndrome_down R C hR hC start q hs ((mem_plaquetteIndices R C q).mp hq) hlt

/-- **`_snake_fill(code, start, down=False)`**: left of the last column it anticommutes iff `q` is directly left of
    `start` -/
theorem planary_fill_syndrome_right (R C : Int) (hR : 2 ≤ R) (hC : 2 ≤ C) (start q : Int × Int)
    (hs : (start.1 + start.2) % 2 = 0) (hq : q ∈ plaquetteIndices R C) (hlt : q.2 < maxCol C) :
    bsp (stabOp R C q) (snakeFill R C start false) = decide (q = (start.1, start.2 - 1)) :=
  fill_syndrome_right R C hR hC start q hs ((mem_plaquetteIndices R C q).mp hq) hlt

/-- **`_partial_recovery(code, p)`**, all sizes: a Y-only operator of length 2n which, among the plaquettes that are not
    on the boundary the code pushes syndrome bits to (last row when R ≥ C, last column when R < C), anticommutes
    with exactly `p` -/
theorem planary_destab_syndrome (R C : Int) (hR : 2 ≤ R) (hC : 2 ≤ C) (p q : Int × Int)
    (hp : p ∈ plaquetteIndices R C) (hq : q ∈ plaquetteIndices R C)
    (hlt : if R < C then q.2 < maxCol C else q.1 < maxRow R) :
    bsp (stabOp R C q) (partialRecovery R C p) = decide (q = p) :=
  partial_bit R C hR hC p q ((mem_plaquetteIndices R C p).mp hp) ((mem_plaquetteIndices R C q).mp hq) hlt

/-- **the look-up table is sound**: each (key, value) of `_residual_syndrome_to_recovery_map(code)` has
    `key = bsp(value, stabilizers.T)` and `value` of length 2n -/
theorem planary_residual_map_sound (R C : Int) :
    ∀ e ∈ residualMap R C, e.1 = syndrome R C e.2 ∧ e.2.length = 2 * (nQubits R C).toNat :=
  residualMap_ok R C

/-- **the look-up table is complete on the span of the boundary operators**: a non-zero XOR-combination of the
    syndromes of the first-stage snake-fills is always found (never the `KeyError` branch) -/
theorem planary_residual_total_of_span (R C : Int) (ρ : BVec)
    (hρ : InSpan (plaquetteIndices R C).length ((boundaryOps R C).map (syndrome R C)) ρ) (hnz : ρ.any id = true) :
    ∃ v, lookup (residualMap R C) ρ = some v ∧ syndrome R C v = ρ := by
  rcases residual_found R C ρ hρ hnz with ⟨v, hv⟩
  refine ⟨v, hv, ?_⟩
  rcases lookup_some _ _ _ hv with ⟨e, he, he1, he2⟩
  have := (residualMap_ok R C e he).1
  rw [he1, he2] at this
  exact this.symm

/-- **`_sample_recovery` given the combined partial recovery**: if the residual syndrome is zero or a key of the
    table, the sample recovery is returned, has length 2n and reproduces the syndrome -/
theorem planary_sample_syndrome_of_lookup (R C : Int) (s rec : BVec) (hs : s.length = (plaquetteIndices R C).length)
    (hrec : rec.length = 2 * (nQubits R C).toNat) (hcp : combinedPartial R C s = .ok rec)
    (hfound : (xorV s (syndrome R C rec)).any id = true →
      ∃ v, lookup (residualMap R C) (xorV s (syndrome R C rec)) = some v) :
    ∃ r, sampleRecovery R C s = .ok r ∧ r.length = 2 * (nQubits R C).toNat ∧ syndrome R C r = s :=
  sample_of_partial R C s rec hs hrec hcp hfound

/-- a Y-only operator on n qubits in bsf: length 2n and x-half = z-half, bit by bit -/
def YOnly (R C : Int) (e : BVec) : Prop :=
  e.length = 2 * (nQubits R C).toNat ∧ ∀ f, f < (nQubits R C).toNat → e.getD ((nQubits R C).toNat + f) false = e.getD f false

/-- **the residual syndrome lives on one boundary** (non-co-prime branch, any error `e`, both orientations): after the
    XOR of the partial recoveries of all defects, the only plaquettes that can still be triggered lie in the last row
    (R ≥ C) / last column (R < C) -/
theorem planary_residual_boundary (R C : Int) (hR : 2 ≤ R) (hC : 2 ≤ C) (e : BVec)
    (he : e.length = 2 * (nQubits R C).toNat) (q : Int × Int) (hq : q ∈ plaquetteIndices R C)
    (hlt : if R < C then q.2 < maxCol C else q.1 < maxRow R) :
    bsp (xorV e (partialSum R C (syndrome R C e))) (stabOp R C q) = false :=
  residual_bit R C hR hC e he q ((mem_plaquetteIndices R C q).mp hq) hlt

/-- **`planary_residual_total`** (R ≥ C): for the syndrome of a Y-only error the residual look-up never misses -/
theorem planary_residual_total (R C : Int) (hR : 2 ≤ R) (hC : 2 ≤ C) (hRC : C ≤ R) (e : BVec) (he : YOnly R C e)
    (hnz : (xorV (syndrome R C e) (syndrome R C (partialSum R C (syndrome R C e)))).any id = true) :
    ∃ v, lookup (residualMap R C) (xorV (syndrome R C e) (syndrome R C (partialSum R C (syndrome R C e)))) = some v :=
  residual_total_down R C hR hC (by omega) e he hnz

/-- **`planary_sample_syndrome`** (all R ≥ C ≥ 2 that are not co-prime, every Y-only error): the modelled
    `_sample_recovery` on the error's syndrome is returned, has length 2n and has that syndrome -/
theorem planary_sample_syndrome (R C : Int) (hR : 2 ≤ R) (hC : 2 ≤ C) (hRC : C ≤ R) (hc : coprime R C = false)
    (e : BVec) (he : YOnly R C e) :
    ∃ r, sampleRecovery R C (syndrome R C e) = .ok r ∧ r.length = 2 * (nQubits R C).toNat ∧
      syndrome R C r = syndrome R C e :=
  sample_syndrome_down R C hR hC (by omega) hc e he

/-- the hypotheses are satisfiable on a lattice that consults the table: 6×4, error Y on qubit 0 -/
example : coprime 6 4 = false ∧ (4 : Int) ≤ 6 := by decide

end Qec.C02.PlanarY
