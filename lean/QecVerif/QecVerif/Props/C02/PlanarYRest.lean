/-
  C02 / C10 — the planar Y decoder (`PlanarYDecoder`, Model/PlanarY.lean), the statements Props/C02/PlanarY.lean left
  open.  Everything here is for ALL lattice sizes R, C ≥ 2 (no kernel evaluation).

  PROVED here:
  * `planary_residual_total_wide` / `planary_sample_syndrome_wide` — R < C, gcd(R, C) ≠ 1 (4×6, 8×10, …): the transposed
    decomposition (a Y-only operator without syndrome left of the last column is the XOR of the snake-fills to the
    right selected by its first column), so the residual look-up never misses and `_sample_recovery` reproduces the
    syndrome of every Y-only error;
  * `planary_sample_syndrome_noncoprime` — both orientations together: every R, C ≥ 2 with gcd(R, C) ≠ 1;
  * `planary_snake_corner_coprime` — the billiard lemma: on a co-prime lattice `_snake(code, (max_r, c0), se=False,
    full=False)` from a site of the last row is returned (no loop, no infinite-loop guard: the bouncing diagonal in the
    2R × 2C box reaches a corner after fewer than 2RC steps by the Chinese remainder theorem, a loop needs 4RC), is
    Y-only and anticommutes with exactly the plaquette to the right of its start;
  * `planary_destab_syndrome_coprime` — `_destabilizer(code, p)`: returned, Y-only, anticommutes with exactly `p`;
  * `planary_sample_syndrome_coprime` — co-prime R, C: for EVERY syndrome vector (of any error, Y-only or not)
    `_sample_recovery` is the XOR of the destabilizers of the defects, is Y-only and reproduces the syndrome; the
    look-up table is never consulted;
  * `planary_sample_syndrome_all` — hence for ALL R, C ≥ 2 and every Y-only error the sample recovery is returned, has
    length 2n and reproduces the syndrome;
  * `planary_ygenerator_spec` — the generators `_snake(code, (0, 2j))`, 0 < j < gcd(R, C): returned with `looped = True`
    (a corner would need gcd | j; the loop closes after at most 4RC steps), Y-only, commuting with every plaquette
    and with `logical_x`, `logical_z` (a closed loop meets the last column / row in pairs of sites around each bounce);
  * `ystabs_spec` — `_y_stabilizers(code)`: returned; 2^(gcd(R, C) − 1) PAIRWISE DISTINCT operators; each Y-only,
    commuting with every plaquette generator and with both logical operators;
  * `ystabs_pivots` — independence of the generators: the loop from `(0, 2b)` has Y on `(0, 2b − 2)` and on none of
    `(0, 2a − 2)`, a < b (phases of the two bouncing coordinates modulo 4·gcd), so the list of generators is
    triangular and all sub-list products differ;
  * `ylogical_spec` — `_y_logical(code) = _snake(code, (0, 0))`: returned (the SE snake from the corner site stops in a
    corner that is not the NW one: a return to it would have been preceded by a corner half-way; the discarded reverse
    half, `skip_first = True`, returns after two steps), Y-only, commuting with every plaquette, anticommuting with
    `logical_x` or `logical_z`;
  * `planary_decode_syndrome` — `decode` for all sizes and every Y-only error: never raises, and the recovery it returns
    (unless the coset probabilities tie) has length 2n and reproduces the syndrome.

  * `planary_ycentraliser_unique` — a Y-only operator commuting with every plaquette and without Y on the sites
    (0, 0), (0, 2), …, (0, 2·gcd − 2) is the identity: it is the XOR over a backward light cone of its first row
    reflected at the left / right walls (d'Alembert on the diagonals); the lower wall makes the reflected first row
    4R-periodic, the reflections 4C-periodic and symmetric, Bézout gives period 4·gcd;
  * `planary_ycentraliser_complete` — hence (pigeonhole on the 2^gcd top-bit patterns) EVERY Y-only operator commuting
    with all plaquettes is one of `_y_stabilizers(code)` or one of them times `_y_logical(code)`;
  * `ystabs_count` — `_y_stabilizers(code)` are ALL the Y-only operators commuting with every plaquette and both
    logical operators (the all-sizes form of `ystabs_count_bounded`);
  * `planary_sample_yonly` — `_sample_recovery` is Y-only on every lattice (every value of the look-up table is);
  * `planary_decode_cosets_exhaustive` — the two cosets whose probabilities `decode` compares, `{g·r1}` and `{g·r1·l}`,
    g ∈ `_y_stabilizers`, consist of Y-only operators with the error's syndrome and contain EVERY such operator.

  STATED, NOT PROVED:
  * nothing that Props/C02/PlanarY.lean listed remains open.  Outside C02 (belongs to C10): that the cosets are disjoint
    lists without repetitions as multisets of the two logical classes, hence that `_coset_probability` is the exact
    class probability under pure Y noise, and the optimality of the choice.
-/
import QecVerif.Props.C02.PlanarY
import QecVerif.Lemmas.PlanarYRest
import QecVerif.Lemmas.PlanarYRestCosets
namespace Qec.C02.PlanarYRest
open Qec Qec.Planar Qec.Symp Qec.PlanarCode Qec.PlanarY Qec.PlanarYL Qec.C02.PlanarY

/-- **`planary_residual_total`, R < C**: for the syndrome of a Y-only error the residual look-up never misses -/
theorem planary_residual_total_wide (R C : Int) (hR : 2 ≤ R) (hC : 2 ≤ C) (hRC : R < C) (e : BVec) (he : YOnly R C e)
    (hnz : (xorV (syndrome R C e) (syndrome R C (partialSum R C (syndrome R C e)))).any id = true) :
    ∃ v, lookup (residualMap R C) (xorV (syndrome R C e) (syndrome R C (partialSum R C (syndrome R C e)))) = some v :=
  residual_total_right R C hR hC hRC e he hnz

/-- **`planary_sample_syndrome`, R < C** (not co-prime, e.g. 4×6, 6×9, 8×10; every Y-only error) -/
theorem planary_sample_syndrome_wide (R C : Int) (hR : 2 ≤ R) (hC : 2 ≤ C) (_hRC : R < C) (hc : coprime R C = false)
    (e : BVec) (he : YOnly R C e) :
    ∃ r, sampleRecovery R C (syndrome R C e) = .ok r ∧ r.length = 2 * (nQubits R C).toNat ∧
      syndrome R C r = syndrome R C e :=
  sample_syndrome_nc R C hR hC hc e he

/-- **`planary_sample_syndrome` for ALL R, C ≥ 2 with gcd(R, C) ≠ 1** (both orientations), every Y-only error -/
theorem planary_sample_syndrome_noncoprime (R C : Int) (hR : 2 ≤ R) (hC : 2 ≤ C) (hc : coprime R C = false)
    (e : BVec) (he : YOnly R C e) :
    ∃ r, sampleRecovery R C (syndrome R C e) = .ok r ∧ r.length = 2 * (nQubits R C).toNat ∧
      syndrome R C r = syndrome R C e :=
  sample_syndrome_nc R C hR hC hc e he

/-- **the billiard lemma**: on a co-prime lattice the NW snake of `_destabilizer` from the site `(max_r, c0)` of the
    last row (`c0` even, in bounds) is returned, is Y-only, and among the in-lattice plaquettes anticommutes with
    exactly `(max_r, c0 + 1)` -/
theorem planary_snake_corner_coprime (R C : Int) (hR : 2 ≤ R) (hC : 2 ≤ C) (hc : coprime R C = true) (c0 : Int)
    (h0 : 0 ≤ c0) (h1 : c0 ≤ maxCol C) (h2 : c0 % 2 = 0) :
    ∃ v, snake R C (maxRow R, c0) false false false = .ok v ∧ YOnly R C v ∧
      ∀ q ∈ plaquetteIndices R C, bsp (stabOp R C q) v = decide (q = (maxRow R, c0 + 1)) := by
  rcases snake_nw_spec R C hR hC hc c0 h0 h1 h2 with ⟨v, hv, hy, hs⟩
  exact ⟨v, hv, hy, fun q hq => hs q ((mem_plaquetteIndices R C q).mp hq)⟩

/-- **`planary_destab_syndrome_coprime`**: `_destabilizer(code, p)` on a co-prime lattice is returned, is a Y-only
    operator of length 2n, and anticommutes with exactly the plaquette `p` -/
theorem planary_destab_syndrome_coprime (R C : Int) (hR : 2 ≤ R) (hC : 2 ≤ C) (hc : coprime R C = true)
    (p : Int × Int) (hp : p ∈ plaquetteIndices R C) :
    ∃ d, destabilizer R C p = .ok d ∧ YOnly R C d ∧
      ∀ q ∈ plaquetteIndices R C, bsp (stabOp R C q) d = decide (q = p) := by
  rcases destabilizer_spec R C hR hC hc p ((mem_plaquetteIndices R C p).mp hp) with ⟨d, hd, hy, hs⟩
  exact ⟨d, hd, hy, fun q hq => hs q ((mem_plaquetteIndices R C q).mp hq)⟩

/-- **`planary_sample_syndrome_coprime`**: on a co-prime lattice, for EVERY syndrome vector `s` the modelled
    `_sample_recovery` is returned, equals the combined destabilizers (no residual recovery), is Y-only of length 2n
    and has syndrome `s` -/
theorem planary_sample_syndrome_coprime (R C : Int) (hR : 2 ≤ R) (hC : 2 ≤ C) (hc : coprime R C = true) (s : BVec)
    (hs : s.length = (plaquetteIndices R C).length) :
    ∃ r, sampleRecovery R C s = .ok r ∧ combinedPartial R C s = .ok r ∧ YOnly R C r ∧ syndrome R C r = s := by
  rcases sample_coprime R C hR hC hc s hs with ⟨r, hr, _, hy, hsyn, hcp⟩
  exact ⟨r, hr, hcp, hy, hsyn⟩

/-- **`planary_sample_syndrome` for ALL lattices R, C ≥ 2** and every Y-only error: the sample recovery is returned,
    has length 2n and reproduces the error's syndrome -/
theorem planary_sample_syndrome_all (R C : Int) (hR : 2 ≤ R) (hC : 2 ≤ C) (e : BVec) (he : YOnly R C e) :
    ∃ r, sampleRecovery R C (syndrome R C e) = .ok r ∧ r.length = 2 * (nQubits R C).toNat ∧
      syndrome R C r = syndrome R C e := by
  cases hc : coprime R C with
  | false => exact sample_syndrome_nc R C hR hC hc e he
  | true =>
    rcases sample_coprime R C hR hC hc _ (syndrome_length R C e) with ⟨r, hr, hlen, _, hsyn, _⟩
    exact ⟨r, hr, hlen, hsyn⟩

/-- **a generator of the all-Y stabilizers**: `_snake(code, (0, 2j))`, 0 < j < gcd(R, C), is returned (it loops, so the
    reverse half is not evaluated), is Y-only and commutes with every plaquette generator and both logical operators -/
theorem planary_ygenerator_spec (R C : Int) (hR : 2 ≤ R) (hC : 2 ≤ C) (j : Nat) (hj1 : 1 ≤ j)
    (hj2 : j < Nat.gcd R.toNat C.toNat) :
    ∃ v, snake R C (0, 2 * (j : Int)) true true false = .ok v ∧ YOnly R C v ∧
      (∀ q ∈ plaquetteIndices R C, bsp (stabOp R C q) v = false) ∧
      bsp (logicalX R C) v = false ∧ bsp (logicalZ R C) v = false := by
  rcases snake_se_spec R C hR hC j hj1 hj2 with ⟨v, hv, hy, hs, hX, hZ⟩
  exact ⟨v, hv, hy, fun q hq => hs q ((mem_plaquetteIndices R C q).mp hq), hX, hZ⟩

/-- **`ystabs_spec`**, all sizes: `_y_stabilizers(code)` is returned and consists of 2^(gcd(R, C) − 1) pairwise distinct
    operators, each Y-only of length 2n, with trivial syndrome (commuting with every plaquette generator) and commuting
    with `logical_x` and `logical_z` -/
theorem ystabs_spec (R C : Int) (hR : 2 ≤ R) (hC : 2 ≤ C) :
    ∃ ys, yStabilizers R C = .ok ys ∧ ys.length = 2 ^ (Nat.gcd R.toNat C.toNat - 1) ∧ ys.Nodup ∧
      ∀ y ∈ ys, YOnly R C y ∧ (∀ q ∈ plaquetteIndices R C, bsp (stabOp R C q) y = false) ∧
        bsp (logicalX R C) y = false ∧ bsp (logicalZ R C) y = false := by
  rcases yStabilizers_spec R C hR hC with ⟨ys, hys, hlen, hall⟩
  rcases yStabilizers_nodup R C hR hC with ⟨ys', hys', hnd⟩
  have e : ys' = ys := Except.ok.inj (hys'.symm.trans hys)
  subst e
  refine ⟨ys', hys, hlen, hnd, fun y hy => ?_⟩
  rcases hall y hy with ⟨h1, h2, h3, h4⟩
  exact ⟨h1, fun q hq => h2 q ((mem_plaquetteIndices R C q).mp hq), h3, h4⟩

/-- **`ystabs_pivots`**: why the generators are independent — the generator from `(0, 2b)`, 0 < b < gcd(R, C), has Y on
    the site `(0, 2b − 2)` (visited exactly once, two steps before the loop closes) and on none of the sites
    `(0, 2a − 2)`, 1 ≤ a < b -/
theorem ystabs_pivots (R C : Int) (hR : 2 ≤ R) (hC : 2 ≤ C) (b : Nat) (hb1 : 1 ≤ b) (hb2 : b < Nat.gcd R.toNat C.toNat) :
    ∃ v, snake R C (0, 2 * (b : Int)) true true false = .ok v ∧
      operatorAt R C v 0 (2 * (b : Int) - 2) = P1.Y ∧
      ∀ a : Nat, 1 ≤ a → a < b → operatorAt R C v 0 (2 * (a : Int) - 2) = P1.I := by
  rcases gen_pivots R C hR hC b hb1 hb2 with ⟨v, hv, hy, hp1, hp0⟩
  have hgle : Nat.gcd R.toNat C.toNat ≤ C.toNat := Nat.le_of_dvd (by omega) (Nat.gcd_dvd_right _ _)
  have hfl : ∀ a : Nat, 1 ≤ a → a ≤ b → fl R C (0, 2 * (a : Int) - 2) < nq R C := by
    intro a ha hab
    exact fl_lt R C hR hC _ (by simp only; omega) (by rw [inBounds_iff]; simp only; omega)
  refine ⟨v, hv, ?_, ?_⟩
  · have := hy.1.2 _ (hfl b hb1 (Nat.le_refl _))
    show P1.ofBits (v.getD (fl R C (0, 2 * (b : Int) - 2)) false)
      (v.getD (nq R C + fl R C (0, 2 * (b : Int) - 2)) false) = P1.Y
    rw [this, hp1]; rfl
  · intro a ha hab
    have := hy.1.2 _ (hfl a ha (by omega))
    show P1.ofBits (v.getD (fl R C (0, 2 * (a : Int) - 2)) false)
      (v.getD (nq R C + fl R C (0, 2 * (a : Int) - 2)) false) = P1.I
    rw [this, hp0 a ha hab]; rfl

/-- **`ylogical_spec`**, all sizes: `_y_logical(code) = _snake(code, (0, 0))` is returned (the forward half stops in a
    corner, the discarded reverse half returns after two steps), is Y-only, commutes with every plaquette generator
    and anticommutes with `logical_x` or `logical_z` — a non-trivial logical operator -/
theorem ylogical_spec (R C : Int) (hR : 2 ≤ R) (hC : 2 ≤ C) :
    ∃ v, yLogical R C = .ok v ∧ YOnly R C v ∧ (∀ q ∈ plaquetteIndices R C, bsp (stabOp R C q) v = false) ∧
      (bsp (logicalX R C) v || bsp (logicalZ R C) v) = true := by
  rcases yLogical_spec R C hR hC with ⟨v, hv, hy, hs, hl⟩
  exact ⟨v, hv, hy, fun q hq => hs q ((mem_plaquetteIndices R C q).mp hq), hl⟩

/-- **`planary_decode_syndrome`**, all sizes, every Y-only error, exact scalars of any ordered type: the modelled
    `decode(code, syndrome)` returns (none of `_sample_recovery`, `_y_logical`, `_y_stabilizers` raises) and, unless the
    two coset probabilities tie (the code then calls `random.choice`; modelled as `none`), the recovery it returns has
    length 2n and reproduces the syndrome -/
theorem planary_decode_syndrome {α : Type} [Add α] [Zero α] [Mul α] [One α] [HPow α Nat α] [LT α] [DecidableLT α]
    [DecidableEq α] (R C : Int) (hR : 2 ≤ R) (hC : 2 ≤ C) (pI pY : α) (e : BVec) (he : YOnly R C e) :
    ∃ o, decode R C pI pY (syndrome R C e) = .ok o ∧
      ∀ r, o = some r → r.length = 2 * (nQubits R C).toNat ∧ syndrome R C r = syndrome R C e :=
  decode_spec R C hR hC pI pY e he

/-- **`planary_ycentraliser_unique`**: a Y-only operator commuting with every plaquette generator and carrying no Y on
    the sites `(0, 0), (0, 2), …, (0, 2·gcd(R, C) − 2)` is the identity -/
theorem planary_ycentraliser_unique (R C : Int) (hR : 2 ≤ R) (hC : 2 ≤ C) (y : BVec) (hy : YOnly R C y)
    (hz : ∀ q ∈ plaquetteIndices R C, bsp (stabOp R C q) y = false)
    (htop : ∀ i : Nat, i < Nat.gcd R.toNat C.toNat → operatorAt R C y 0 (2 * (i : Int)) = P1.I) :
    y = identity R C := by
  have hlen : y.length = 2 * nq R C := hy.1
  apply ycentraliser_unique R C hR hC y hy (fun q hq => by
    rw [bsp_comm _ _ (by rw [hlen, stabOp_length]) (by rw [hlen]; omega)]
    exact hz q ((mem_plaquetteIndices R C q).mpr hq))
  intro i hi
  have h := htop i hi
  have hgle : Nat.gcd R.toNat C.toNat ≤ C.toNat := Nat.le_of_dvd (by omega) (Nat.gcd_dvd_right _ _)
  have hf : fl R C (0, 2 * (i : Int)) < nq R C :=
    fl_lt R C hR hC _ (by simp only; omega) (by rw [inBounds_iff]; simp only; omega)
  have hh : y.getD (nq R C + fl R C (0, 2 * (i : Int))) false = y.getD (fl R C (0, 2 * (i : Int))) false :=
    hy.2 _ hf
  show y.getD (fl R C (0, 2 * (i : Int))) false = false
  have h' : P1.ofBits (y.getD (fl R C (0, 2 * (i : Int))) false)
      (y.getD (nq R C + fl R C (0, 2 * (i : Int))) false) = P1.I := h
  rw [hh] at h'
  cases hb : y.getD (fl R C (0, 2 * (i : Int))) false with
  | false => rfl
  | true => rw [hb] at h'; exact absurd h' (by decide)

/-- **`planary_ycentraliser_complete`**: every Y-only operator commuting with every plaquette generator is one of the
    all-Y stabilizers or one of them times the all-Y logical: the Y-only centraliser has exactly 2^gcd(R, C) elements -/
theorem planary_ycentraliser_complete (R C : Int) (hR : 2 ≤ R) (hC : 2 ≤ C) (y : BVec) (hy : YOnly R C y)
    (hz : ∀ q ∈ plaquetteIndices R C, bsp (stabOp R C q) y = false) :
    ∃ ys l, yStabilizers R C = .ok ys ∧ yLogical R C = .ok l ∧ (y ∈ ys ∨ ∃ s ∈ ys, y = xorV s l) :=
  ycentraliser_complete R C hR hC y ⟨hy, fun q hq => hz q ((mem_plaquetteIndices R C q).mpr hq)⟩

/-- **`ystabs_count`**, all sizes: `_y_stabilizers(code)` contains EVERY Y-only operator that commutes with all plaquette
    generators and both logical operators; with `ystabs_spec` (2^(gcd − 1) distinct such operators) this is the exact
    count of the Y-only elements of the stabilizer group -/
theorem ystabs_count (R C : Int) (hR : 2 ≤ R) (hC : 2 ≤ C) (y : BVec) (hy : YOnly R C y)
    (hz : ∀ q ∈ plaquetteIndices R C, bsp (stabOp R C q) y = false)
    (hX : bsp (logicalX R C) y = false) (hZ : bsp (logicalZ R C) y = false) :
    ∃ ys, yStabilizers R C = .ok ys ∧ y ∈ ys :=
  ystabs_complete R C hR hC y ⟨hy, fun q hq => hz q ((mem_plaquetteIndices R C q).mpr hq)⟩ hX hZ

/-- **`_sample_recovery` is Y-only** on every lattice, for every Y-only error (and reproduces the syndrome) -/
theorem planary_sample_yonly (R C : Int) (hR : 2 ≤ R) (hC : 2 ≤ C) (e : BVec) (he : YOnly R C e) :
    ∃ r, sampleRecovery R C (syndrome R C e) = .ok r ∧ YOnly R C r ∧ syndrome R C r = syndrome R C e :=
  sample_ysym R C hR hC e he

/-- **the cosets of `decode` are exhaustive**: with `r1 = _sample_recovery`, `l = _y_logical`, `ys = _y_stabilizers`, the
    lists `[g ^ r1 for g in ys]` and `[g ^ r1 ^ l for g in ys]` whose probabilities `decode` compares consist of Y-only
    operators with the error's syndrome, and every Y-only operator with that syndrome is in one of them -/
theorem planary_decode_cosets_exhaustive (R C : Int) (hR : 2 ≤ R) (hC : 2 ≤ C) (e : BVec) (he : YOnly R C e) :
    ∃ r1 l ys, sampleRecovery R C (syndrome R C e) = .ok r1 ∧ yLogical R C = .ok l ∧ yStabilizers R C = .ok ys ∧
      (∀ g ∈ ys, YOnly R C (xorV g r1) ∧ syndrome R C (xorV g r1) = syndrome R C e ∧
        YOnly R C (xorV g (xorV r1 l)) ∧ syndrome R C (xorV g (xorV r1 l)) = syndrome R C e) ∧
      ∀ e', YOnly R C e' → syndrome R C e' = syndrome R C e →
        e' ∈ ys.map (fun g => xorV g r1) ∨ e' ∈ ys.map (fun g => xorV g (xorV r1 l)) :=
  cosets_exhaustive R C hR hC e he

/-- the hypotheses are satisfiable: a wide non-co-prime lattice, co-prime lattices, a lattice with generators -/
example : coprime 4 6 = false ∧ (4 : Int) < 6 ∧ coprime 3 5 = true ∧ coprime 7 4 = true ∧
    1 < Nat.gcd (6 : Int).toNat (9 : Int).toNat := by decide

end Qec.C02.PlanarYRest
