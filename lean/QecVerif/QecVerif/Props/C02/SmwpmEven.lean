/-
  C02 / C03 — the symmetry-matching decoders (`RotatedToricSMWPMDecoder`, `RotatedPlanarSMWPMDecoder`; model:
  Model/Smwpm.lean): PARITY statements.

  A. the `assert len(defective_cluster_nodes) % 2 == 0` of `RotatedToricSMWPMDecoder._cluster_graph`
     (`Smwpm.Toric.clusterNodes`: `.error .oddDefective`).  `_clusters` closes the matched defect pairs into cycles
     (`clusters`), `_cluster_to_paths_and_defect` calls a cluster DEFECTIVE when it holds an odd number of X-type (and then
     an odd number of Z-type) indices (`nodesOfCluster`, `nDefective`).
     * `defective_clusters_parity` — combinatorial core, no lattice: clusters of even length that partition a list of
       defects have #defective ≡ #X-type defects ≡ #Z-type defects (mod 2);
     * `smwpm_toric_assert_iff` — for ANY perfect matching of the symmetry graph (all sizes, all `T`, all flags, every
       array of rows): the clusters exist, #defective ≡ #X-type defects ≡ #Z-type defects, and the `assert` fires IFF
       the total number of X-type defects (over all time steps) is odd;
     * `smwpm_toric_defects_parity_rows` — the total number of defect nodes (and of X-type / Z-type defect nodes) has
       the parity of the weight (X-type / Z-type weight) of the XOR of the rows: even weight ⇒ even number of nodes;
     * `smwpm_toric_defects_even_of_syndrome` — if the XOR of the rows is the syndrome of an error, the numbers of
       X-type, of Z-type and of all defects are even (every qubit lies in two plaquettes of each type: `xdep_all_sizes`,
       `alldep_all_sizes`, the full-list form of C07's dependency);
     * `smwpm_toric_assert_never_fires`, `smwpm_toric_assert_never_fires_reachable` — hence on every array whose XOR is a
       syndrome, in particular on every array the simulation can produce (`Ftp.reachable`, any `q`, any support closed
       under products, any bias), for every perfect matching of the symmetry graph, the number of defective clusters is
       even and `_cluster_graph` returns (the empty graph, or all nodes);
     * `assert_fires_bounded` — on an arbitrary bit array it can fire: 2×2 torus, one X-type and one Z-type defect.
  B. NECESSITY of the existence conditions of Props/C02/SmwpmExists.lean / SmwpmExists2.lean (all sizes, all `T`):
     * `smwpm_toric_line_even_necessary`, `smwpm_planar_line_even_necessary` — at infinite bias a perfect matching of
       the symmetry graph forces `LineEvenT` / `LineEvenP` (a row node has neighbours only in its row — and its twin
       if virtual —, so a line without virtual plaquettes is matched within itself); with the existence theorems:
       `smwpm_toric_pm_iff_infinite_bias`, `smwpm_planar_pm_iff_infinite_bias` (`p ≠ 0`);
     * `smwpm_toric_feasible_necessary_p_zero`, `smwpm_planar_feasible_necessary_p_zero` — for `p = 0` a perfect
       matching forces `FeasibleT` / `Feasible`; `smwpm_*_pm_iff_p_zero`.
-/
import QecVerif.Props.C02.SmwpmExists2
import QecVerif.Lemmas.SmwpmEven
namespace Qec.C02.SmwpmEven
open Qec Qec.Smwpm Qec.SmwpmL Qec.SmwpmX Qec.SmwpmX2 Qec.SmwpmEven Qec.C02.SmwpmExists Qec.C02.SmwpmExists2

/-! ## A. the `assert` of the toric `_cluster_graph` -/

/-- **combinatorial core** (no lattice): clusters of even length that partition a list of defects have
    #defective clusters ≡ #X-type defects ≡ #Z-type defects (mod 2) -/
theorem defective_clusters_parity (cls : List (List TIdx)) (defects : List TIdx)
    (heven : ∀ cl ∈ cls, cl.length % 2 = 0) (hpart : cls.flatten.Perm defects) :
    ∃ nsr, realNodes cls = .ok nsr ∧ nDefective nsr % 2 = (defects.filter isX).length % 2 ∧
      nDefective nsr % 2 = (defects.filter fun k => !isX k).length % 2 := by
  obtain ⟨nsr, h1, h2, h3⟩ := defective_parity cls heven
  refine ⟨nsr, h1, ?_, ?_⟩
  · rw [← (hpart.filter _).length_eq]; exact h2
  · rw [← (hpart.filter _).length_eq]; exact h3

example : ∃ nsr, realNodes [[(0,1,0),(0,1,1)], [(0,2,1),(0,3,1)]] = .ok nsr ∧ nDefective nsr = 2 := ⟨_, rfl, rfl⟩

/-- the total number of Z-type defects (over all time steps) is even -/
def EvenZ (R C : Int) (rows : List BVec) : Prop := ((T.allDefects R C rows).filter fun k => !isX k).length % 2 = 0

/-- **when the `assert` fires** (rotated toric, all sizes, all `T`, all flags, every array of rows): for ANY perfect
    matching of the symmetry graph `_clusters` succeeds, the `_ClusterNode`s exist, the number of defective clusters has
    the parity of the number of X-type defects and of the number of Z-type defects, and `_cluster_graph` hits its
    `assert` exactly when the number of X-type defects is odd -/
theorem smwpm_toric_assert_iff (fl : Flags) (R C : Int) (rows : List BVec) (ms : List (Node × Node))
    (hpm : Dec.isPerfectMatchingOfGraph (Smwpm.Toric.graphNodes R C rows) (Smwpm.Toric.graphEdges fl R C rows) ms = true) :
    ∃ cls nsr, clusters ms = .ok cls ∧ realNodes cls = .ok nsr ∧
      (nDefective nsr % 2 = 0 ↔ EvenX R C rows) ∧ (EvenX R C rows ↔ EvenZ R C rows) ∧
      (Smwpm.Toric.clusterNodes cls = .error .oddDefective ↔ ¬ EvenX R C rows) ∧
      (EvenX R C rows → Smwpm.Toric.clusterNodes cls = .ok (if nDefective nsr = 0 then [] else nsr)) := by
  obtain ⟨cls, hc, heven, hperm⟩ := T.flatten_perm fl R C rows ms hpm
  obtain ⟨nsr, h1, h2, h3⟩ := defective_clusters_parity cls _ heven hperm
  refine ⟨cls, nsr, hc, h1, ?_, ?_, ?_, ?_⟩
  · unfold EvenX; rw [h2]
  · unfold EvenX EvenZ; omega
  · rw [clusterNodes_eq cls nsr h1]
    unfold EvenX
    by_cases h0 : nDefective nsr = 0
    · rw [if_pos h0]
      constructor
      · intro h; cases h
      · intro h; omega
    · rw [if_neg h0]
      by_cases hodd : nDefective nsr % 2 ≠ 0
      · rw [if_pos hodd]
        exact ⟨fun _ => by omega, fun _ => rfl⟩
      · rw [if_neg hodd]
        constructor
        · intro h; cases h
        · intro h; omega
  · intro hx
    unfold EvenX at hx
    rw [clusterNodes_eq cls nsr h1]
    by_cases h0 : nDefective nsr = 0
    · rw [if_pos h0, if_pos h0]
    · rw [if_neg h0, if_neg h0, if_neg (by omega)]

set_option maxRecDepth 100000 in
example : Dec.isPerfectMatchingOfGraph (Smwpm.Toric.graphNodes 2 4 C02.SmwpmToric.exRows)
    (Smwpm.Toric.graphEdges ⟨false, true, false⟩ 2 4 C02.SmwpmToric.exRows) C02.SmwpmToric.exMs = true := by decide

/-- **defect nodes vs. the XOR of the rows**: the number of defect nodes of all time steps — all of them, the X-type
    ones, the Z-type ones — has the parity of the weight — total, X-type, Z-type — of the XOR of the rows; so an XOR of
    even weight means an even number of defect nodes -/
theorem smwpm_toric_defects_parity_rows (R C : Int) (rows : List BVec)
    (hrows : ∀ r ∈ rows, r.length = (RotatedToric.plaquetteIndices R C).length) :
    (T.allDefects R C rows).length % 2 = wt (xorAll (RotatedToric.plaquetteIndices R C).length rows) % 2 ∧
    ((T.allDefects R C rows).filter isX).length % 2 =
      T.wX T.isXp (RotatedToric.plaquetteIndices R C) (xorAll (RotatedToric.plaquetteIndices R C).length rows) % 2 ∧
    ((T.allDefects R C rows).filter fun k => !isX k).length % 2 =
      T.wX (fun p => !T.isXp p) (RotatedToric.plaquetteIndices R C)
        (xorAll (RotatedToric.plaquetteIndices R C).length rows) % 2 := by
  refine ⟨?_, T.allDefects_wX T.isXp R C rows hrows, T.allDefects_wX (fun p => !T.isXp p) R C rows hrows⟩
  have h := T.allDefects_wX (fun _ => true) R C rows hrows
  rw [List.filter_true] at h
  rw [h, wX_true]
  exact xorAll_length _ rows _ (by simp [zeros]) hrows

example : (T.allDefects 2 4 C02.SmwpmToric.exRows).length = 4 ∧
    wt (xorAll (RotatedToric.plaquetteIndices 2 4).length C02.SmwpmToric.exRows) = 4 := by decide

/-- **arrays whose XOR is a syndrome have an even number of X-type, of Z-type and of all defects** (all even sizes):
    every qubit lies in two X-type and two Z-type plaquettes of the torus -/
theorem smwpm_toric_defects_even_of_syndrome (R C : Int) (hS : C02.SmwpmToric.Size R C)
    (rows : List BVec) (hrows : ∀ r ∈ rows, r.length = (RotatedToric.plaquetteIndices R C).length) (e : BVec)
    (hsyn : synd (RotatedToric.stabilizers R C) e = xorAll (RotatedToric.plaquetteIndices R C).length rows) :
    EvenX R C rows ∧ EvenZ R C rows ∧ (T.allDefects R C rows).length % 2 = 0 := by
  have hx := smwpm_toric_even_x_all_sizes R C hS rows hrows e hsyn
  have ha := even_selected (fun _ => true) R C hS (alldep_all_sizes R C hS) rows hrows e hsyn
  simp only [List.filter_true] at ha
  refine ⟨hx, ?_, ha⟩
  have hsplit := filter_split isX (T.allDefects R C rows)
  unfold EvenX at hx
  unfold EvenZ
  omega

/-- **the `assert` never fires on an array whose XOR is the syndrome of an error** (rotated toric, all even sizes, all
    `T`, all flags, ANY perfect matching of the symmetry graph): the number of defective clusters is even and
    `_cluster_graph` returns the empty graph (no defective cluster) or all its nodes -/
theorem smwpm_toric_assert_never_fires (fl : Flags) (R C : Int) (hS : C02.SmwpmToric.Size R C)
    (rows : List BVec) (hrows : ∀ r ∈ rows, r.length = (RotatedToric.plaquetteIndices R C).length) (e : BVec)
    (hsyn : synd (RotatedToric.stabilizers R C) e = xorAll (RotatedToric.plaquetteIndices R C).length rows)
    (ms : List (Node × Node))
    (hpm : Dec.isPerfectMatchingOfGraph (Smwpm.Toric.graphNodes R C rows) (Smwpm.Toric.graphEdges fl R C rows) ms = true) :
    ∃ cls nsr, clusters ms = .ok cls ∧ realNodes cls = .ok nsr ∧ nDefective nsr % 2 = 0 ∧
      Smwpm.Toric.clusterNodes cls = .ok (if nDefective nsr = 0 then [] else nsr) := by
  obtain ⟨cls, nsr, h1, h2, h3, _, _, h6⟩ := smwpm_toric_assert_iff fl R C rows ms hpm
  have hx := (smwpm_toric_defects_even_of_syndrome R C hS rows hrows e hsyn).1
  exact ⟨cls, nsr, h1, h2, h3.mpr hx, h6 hx⟩

/-- the recovery recorded from qecsim for `exRows` has that syndrome: `exRows` is the syndrome of an error -/
def exErr : BVec :=
  [false, false, false, false, false, false, true, true, false, false, false, false, false, false, true, false]

set_option maxRecDepth 100000 in
example : C02.SmwpmToric.Size 2 4 ∧ synd (RotatedToric.stabilizers 2 4) exErr =
    xorAll (RotatedToric.plaquetteIndices 2 4).length C02.SmwpmToric.exRows := by
  constructor
  · unfold C02.SmwpmToric.Size C15.RotatedToric.Size; omega
  · decide

/-- **the `assert` never fires in a simulation** (rotated toric, all even sizes, `T ≥ 1`, any `q`, any support of the
    step errors that contains the identity and is closed under products, any bias / flags): for every array
    `run_once_ftp` can hand to the decoder and ANY perfect matching of the symmetry graph the number of defective
    clusters is even -/
theorem smwpm_toric_assert_never_fires_reachable (fl : Flags) (qc : Ftp.QClass)
    (R C : Int) (hS : C02.SmwpmToric.Size R C) (nT : Nat) (hT : 1 ≤ nT) (rows : List BVec)
    (supp : BVec → Prop) (h0 : supp (zeros (2 * C07.RotatedToric.n R C)))
    (hx : ∀ a b, supp a → supp b → supp (xorV a b)) (hl : ∀ e, supp e → e.length = 2 * C07.RotatedToric.n R C)
    (hreach : Ftp.reachable (C07.RotatedToric.n R C) (RotatedToric.stabilizers R C) supp qc nT rows)
    (ms : List (Node × Node))
    (hpm : Dec.isPerfectMatchingOfGraph (Smwpm.Toric.graphNodes R C rows) (Smwpm.Toric.graphEdges fl R C rows) ms = true) :
    ∃ cls nsr, clusters ms = .ok cls ∧ realNodes cls = .ok nsr ∧ nDefective nsr % 2 = 0 ∧
      Smwpm.Toric.clusterNodes cls = .ok (if nDefective nsr = 0 then [] else nsr) := by
  have hSl : (RotatedToric.stabilizers R C).length = (RotatedToric.plaquetteIndices R C).length := by
    simp [RotatedToric.stabilizers]
  obtain ⟨_, h2, h3, _⟩ := reachable_rows _ _ _ qc nT rows hT
    (C07.RotatedToric.stabilizer_count R C hS).2.2.2.2.1 h0 hx hl hreach
  rw [hSl] at h2 h3
  obtain ⟨e, _, hsyn⟩ := h3
  exact smwpm_toric_assert_never_fires fl R C hS rows h2 e hsyn ms hpm

set_option maxRecDepth 100000 in
/-- the hypotheses of `smwpm_toric_assert_never_fires_reachable` on the 2×4 torus, `T = 1`, all Paulis -/
example : Ftp.reachable (C07.RotatedToric.n 2 4) (RotatedToric.stabilizers 2 4)
    (fun e => e.length = 2 * C07.RotatedToric.n 2 4) .mid 1 C02.SmwpmToric.exRows := by
  have hS : C02.SmwpmToric.Size 2 4 := by unfold C02.SmwpmToric.Size C15.RotatedToric.Size; omega
  apply (C03.reachable_iff_mid _ _ _ 1 _ (by omega) (C07.RotatedToric.stabilizer_count 2 4 hS).2.2.2.2.1
    (by simp [zeros]) (fun a b ha hb => by unfold xorV; rw [List.length_zipWith, ha, hb]; omega) (fun e he => he)).mpr
  refine ⟨rfl, by decide, exErr, by decide, by decide⟩

/-! ### on an arbitrary bit array the `assert` can fire

  2×2 torus, one row with one X-type and one Z-type defect (not a syndrome: the numbers are odd), finite bias: the
  symmetry graph has a perfect matching, the single cluster is defective. -/

def oddRows : List BVec := [[true, false, true, false]]
def oddMs : List (Node × Node) :=
  [(((0,0,0),true),((0,1,0),true)), (((0,0,0),false),((0,1,0),false))]

set_option maxRecDepth 100000 in
theorem assert_fires_bounded :
    Dec.isPerfectMatchingOfGraph (Smwpm.Toric.graphNodes 2 2 oddRows)
      (Smwpm.Toric.graphEdges ⟨false, false, false⟩ 2 2 oddRows) oddMs = true ∧
    (∃ cls, clusters oddMs = .ok cls ∧ Smwpm.Toric.clusterNodes cls = .error .oddDefective) ∧
    ¬ EvenX 2 2 oddRows := by
  refine ⟨by decide, ⟨_, rfl, rfl⟩, by unfold EvenX; decide⟩


/-! ## B. necessity of the existence conditions

  A perfect matching of the symmetry graph pairs every node with a neighbour.  `_add_edge` only joins nodes of the same
  orientation that agree in everything the flags pin (line at infinite bias, time step for `q ∈ {0, 1}`, plaquette for
  `p = 0`); the only other edges are the twin edges of VIRTUAL plaquettes (planar).  Hence a class of nodes closed under
  `_add_edge` and free of virtual plaquettes is matched within itself and is even (`class_even_T`, `class_even_P`). -/

/-- **`LineEvenT` is necessary at infinite bias** (rotated toric, all sizes, all `T`, any `p`, `q`): if the symmetry
    graph has a perfect matching, every row and column of plaquettes holds an even number of defects (per time step
    when `q ∈ {0, 1}`) -/
theorem smwpm_toric_line_even_necessary (fl : Flags) (he : fl.etaNone = true) (R C : Int) (rows : List BVec)
    (ms : List (Node × Node))
    (hpm : Dec.isPerfectMatchingOfGraph (Smwpm.Toric.graphNodes R C rows) (Smwpm.Toric.graphEdges fl R C rows) ms = true) :
    LineEvenT fl R C rows := by
  intro g hg j
  exact ⟨Qec.SmwpmEven.T.line_even_of_pm fl he R C rows ms hpm g hg true j,
    Qec.SmwpmEven.T.line_even_of_pm fl he R C rows ms hpm g hg false j⟩

/-- **existence at infinite bias, `p ≠ 0`, rotated toric: exactly `LineEvenT`** -/
theorem smwpm_toric_pm_iff_infinite_bias (fl : Flags) (he : fl.etaNone = true) (hp : fl.pZero = false)
    (R C : Int) (rows : List BVec) :
    (∃ ms, Dec.isPerfectMatchingOfGraph (Smwpm.Toric.graphNodes R C rows) (Smwpm.Toric.graphEdges fl R C rows) ms = true) ↔
      LineEvenT fl R C rows :=
  ⟨fun ⟨ms, h⟩ => smwpm_toric_line_even_necessary fl he R C rows ms h,
   fun h => ⟨_, smwpm_toric_graph_has_pm_infinite_bias fl R C rows hp h⟩⟩

/-- the hypotheses on the 4×4 torus, `T = 2`, infinite bias (`line_toric_bounded`) -/
example : Dec.isPerfectMatchingOfGraph (Smwpm.Toric.graphNodes 4 4 [exT1, exT2])
    (Smwpm.Toric.graphEdges ⟨true, false, false⟩ 4 4 [exT1, exT2])
    (SmwpmX2.T.lineMatching ⟨true, false, false⟩ 4 4 [exT1, exT2]) = true := by
  have h := line_toric_bounded
  simp only [List.all_cons, List.all_nil, Bool.and_true, Bool.and_eq_true] at h
  have h2 := h.2
  unfold Smwpm.Toric.matchingsOk at h2
  rw [Bool.and_eq_true] at h2
  exact h2.1

/-- **`LineEvenP` is necessary at infinite bias** (rotated planar, all sizes, all `T`, any `p`, `q`): if the symmetry
    graph has a perfect matching, every line without a virtual plaquette holds an even number of defects -/
theorem smwpm_planar_line_even_necessary (fl : Flags) (he : fl.etaNone = true) (R C : Int) (hR : 3 ≤ R) (hC : 3 ≤ C)
    (rows : List BVec) (ms : List (Node × Node))
    (hpm : Dec.isPerfectMatchingOfGraph (graphNodes R C rows) (graphEdges fl R C rows) ms = true) :
    LineEvenP fl R C rows := by
  intro g hg
  constructor
  · intro y h0 h1 hl hr
    exact Qec.SmwpmEven.P.line_even_of_pm fl he R C (by omega) (by omega) rows ms hpm g hg true y
      (Qec.SmwpmEven.P.row_no_virtual R C y h0 h1 hl hr)
  · intro x h0 h1 hb ht
    exact Qec.SmwpmEven.P.line_even_of_pm fl he R C (by omega) (by omega) rows ms hpm g hg false x
      (Qec.SmwpmEven.P.col_no_virtual R C x h0 h1 hb ht)

/-- **existence at infinite bias, `p ≠ 0`, rotated planar: exactly `LineEvenP`** -/
theorem smwpm_planar_pm_iff_infinite_bias (fl : Flags) (he : fl.etaNone = true) (hp : fl.pZero = false)
    (R C : Int) (hR : 3 ≤ R) (hC : 3 ≤ C) (rows : List BVec) (hT : 1 ≤ rows.length) :
    (∃ ms, Dec.isPerfectMatchingOfGraph (graphNodes R C rows) (graphEdges fl R C rows) ms = true) ↔
      LineEvenP fl R C rows :=
  ⟨fun ⟨ms, h⟩ => smwpm_planar_line_even_necessary fl he R C hR hC rows ms h,
   fun h => ⟨_, smwpm_planar_graph_has_pm_infinite_bias fl R C hR hC rows hT hp h⟩⟩

/-- the hypotheses on the 4×4 code, `T = 2`, infinite bias (`line_planar_bounded`) -/
example : Dec.isPerfectMatchingOfGraph (graphNodes 4 4 [exY1, exY2]) (graphEdges ⟨true, false, false⟩ 4 4 [exY1, exY2])
    (SmwpmX2.P.lineMatching ⟨true, false, false⟩ 4 4 [exY1, exY2]) = true := by
  have h := line_planar_bounded
  simp only [List.all_cons, List.all_nil, Bool.and_true, Bool.and_eq_true] at h
  have h2 := h.2
  unfold matchingsOk at h2
  rw [Bool.and_eq_true] at h2
  exact h2.1

/-- the syndrome of a single `X` on the site `(1, 1)` of the 4×4 rotated planar code -/
def exSingleX : BVec :=
  [false, true, false, true, false, false, false, false, false, false, false, false, false, false, false]

/-- **the condition bites**: 4×4 rotated planar code, infinite bias, the syndrome of a single X error (one defect in
    row 0, which has no virtual plaquette): the symmetry graph has NO perfect matching (qecsim: 'Cluster is not a closed
    loop') -/
theorem no_pm_single_x_bounded :
    synd (RotatedPlanar.stabilizers 4 4) ((List.range 32).map fun j => j == 5) = exSingleX ∧
    ¬ ∃ ms, Dec.isPerfectMatchingOfGraph (graphNodes 4 4 [exSingleX])
      (graphEdges ⟨true, false, false⟩ 4 4 [exSingleX]) ms = true := by
  refine ⟨by decide +kernel, ?_⟩
  rintro ⟨ms, h⟩
  have hl := smwpm_planar_line_even_necessary ⟨true, false, false⟩ rfl 4 4 (by omega) (by omega) [exSingleX] ms h
  have h0 := (hl none (by decide)).1 0 (by omega) (by omega) (by decide) (by decide)
  revert h0
  decide +kernel

/-- **`FeasibleT` is necessary for `p = 0`** (rotated toric, all sizes, all `T`, any bias): a perfect matching forces
    every plaquette to be a defect at an even number of time steps — at none when `q ∈ {0, 1}` -/
theorem smwpm_toric_feasible_necessary_p_zero (fl : Flags) (hp : fl.pZero = true) (R C : Int) (rows : List BVec)
    (ms : List (Node × Node))
    (hpm : Dec.isPerfectMatchingOfGraph (Smwpm.Toric.graphNodes R C rows) (Smwpm.Toric.graphEdges fl R C rows) ms = true) :
    FeasibleT fl R C rows := by
  unfold FeasibleT
  rw [if_pos hp]
  exact Qec.SmwpmEven.T.time_even_of_pm fl hp R C rows ms hpm

/-- **existence for `p = 0`, rotated toric: exactly `FeasibleT`** -/
theorem smwpm_toric_pm_iff_p_zero (fl : Flags) (hp : fl.pZero = true) (R C : Int) (rows : List BVec) :
    (∃ ms, Dec.isPerfectMatchingOfGraph (Smwpm.Toric.graphNodes R C rows) (Smwpm.Toric.graphEdges fl R C rows) ms = true) ↔
      FeasibleT fl R C rows :=
  ⟨fun ⟨ms, h⟩ => smwpm_toric_feasible_necessary_p_zero fl hp R C rows ms h,
   fun h => ⟨_, smwpm_toric_graph_has_pm fl R C rows h⟩⟩

/-- **`Feasible` is necessary for `p = 0`** (rotated planar, all sizes, all `T`, any bias) -/
theorem smwpm_planar_feasible_necessary_p_zero (fl : Flags) (hp : fl.pZero = true) (R C : Int) (hR : 3 ≤ R) (hC : 3 ≤ C)
    (rows : List BVec) (ms : List (Node × Node))
    (hpm : Dec.isPerfectMatchingOfGraph (graphNodes R C rows) (graphEdges fl R C rows) ms = true) :
    Feasible fl R C rows := by
  unfold Feasible
  rw [if_pos hp]
  exact Qec.SmwpmEven.P.time_even_of_pm fl hp R C (by omega) (by omega) rows ms hpm

/-- **existence for `p = 0`, rotated planar: exactly `Feasible`** -/
theorem smwpm_planar_pm_iff_p_zero (fl : Flags) (hp : fl.pZero = true) (R C : Int) (hR : 3 ≤ R) (hC : 3 ≤ C)
    (rows : List BVec) :
    (∃ ms, Dec.isPerfectMatchingOfGraph (graphNodes R C rows) (graphEdges fl R C rows) ms = true) ↔
      Feasible fl R C rows :=
  ⟨fun ⟨ms, h⟩ => smwpm_planar_feasible_necessary_p_zero fl hp R C hR hC rows ms h,
   fun h => ⟨_, smwpm_planar_graph_has_pm fl R C hR hC rows h⟩⟩

/-- the hypotheses on the 3×3 code, `T = 2`, `p = 0` (`canonical_planar_p_zero_bounded`) -/
example : Dec.isPerfectMatchingOfGraph (graphNodes 3 3 [exRow, exRow]) (graphEdges ⟨false, false, true⟩ 3 3 [exRow, exRow])
    (canonicalMatching ⟨false, false, true⟩ 3 3 [exRow, exRow]) = true := by
  have h := canonical_planar_p_zero_bounded
  simp only [List.all_cons, List.all_nil, Bool.and_true, Bool.and_eq_true] at h
  have h2 := h.2
  unfold matchingsOk at h2
  rw [Bool.and_eq_true] at h2
  exact h2.1

/-- **the condition bites**: 3×3 rotated planar code, `p = 0`, one time step: an array with a defect has no perfect
    matching of the symmetry graph -/
theorem no_pm_p_zero_bounded :
    ¬ ∃ ms, Dec.isPerfectMatchingOfGraph (graphNodes 3 3 [exRow]) (graphEdges ⟨false, false, true⟩ 3 3 [exRow]) ms = true := by
  rintro ⟨ms, h⟩
  have hf := smwpm_planar_feasible_necessary_p_zero ⟨false, false, true⟩ rfl 3 3 (by omega) (by omega) [exRow] ms h
  unfold Feasible at hf
  rw [if_pos rfl] at hf
  have h0 := hf.1 ((RotatedPlanar.plaquetteIndices 3 3).getD 1 (0, 0))
  revert h0
  decide +kernel

/-- the toric `p = 0` hypotheses: 2×4 torus, the same row twice -/
example : FeasibleT ⟨false, false, true⟩ 2 4 (C02.SmwpmToric.exRows ++ C02.SmwpmToric.exRows) := by
  unfold FeasibleT
  rw [if_pos rfl]
  refine ⟨?_, fun h => by cases h⟩
  intro p
  by_cases hp : p ∈ RotatedToric.plaquetteIndices 2 4
  · revert p; decide +kernel
  · have : ∀ t, Smwpm.Toric.isDefect 2 4 (C02.SmwpmToric.exRows ++ C02.SmwpmToric.exRows) t p = false := by
      intro t
      cases hd : Smwpm.Toric.isDefect 2 4 (C02.SmwpmToric.exRows ++ C02.SmwpmToric.exRows) t p with
      | false => rfl
      | true => exact absurd (T.defect_inB 2 4 _ t p hd).1 hp
    simp [this]

end Qec.C02.SmwpmEven
