/-
  C02, instances — the cross-property hypotheses of Props/C02.lean DISCHARGED for ALL sizes, and the decoder
  theorems restated without them:

  * `planarL_spec : 2 ≤ R → 2 ≤ C → PlanarL.Spec R C`              from Props/C15/Planar.lean
        (`plaquetteIndices_spec`, `path_syndrome_vector`, `virtualPlaquette_spec`);
  * `toricL_spec : 2 ≤ R → 2 ≤ C → ToricL.Spec R C`                from Props/C15/Toric.lean
        (`plaquetteIndices_spec`, `path_syndrome_vector_real`);
  * `rotatedPlanarL_spec : 3 ≤ R → 3 ≤ C → RotatedPlanarL.Spec R C` from Props/C07/RotatedPlanar.lean
        (`plaquette_indices_spec`, `sample_run_destabiliser` = Lemmas/Lattice/RotatedPlanarCode `sample_run_syndrome`);
  * `color666L_spec : 3 ≤ L → L % 2 = 1 → Color666L.Spec L`         from Props/C07/Color666.lean
        (`plaquette_indices_spec`, `run_syndrome`).

  Hence, with only the size constraint of the code constructor left: `planar_sample_syndrome`,
  `planar_mwpm_syndrome`, `planar_graph_has_pm`, `planar_mwpm_total`, `planar_cmwpm_syndrome`,
  `toric_mwpm_syndrome`, `toric_graph_has_pm`, `rotated_planar_sample_syndrome`, `color666_sample_syndrome`
  (same names as in Props/C02.lean, in the namespace `Qec.C02.Instances`) — for every lattice size, every syndrome
  vector of the right length and ANY perfect matchings of the modelled graphs.
  The only hypothesis left in the toric statements is `toric_syndrome_even` (an even number of defects on each
  lattice): it holds for the syndrome of every error, which Props/C14/Chain.lean `chain_induces_matching_toric`
  proves (it is not a fact about arbitrary bit vectors `s`, so it stays a hypothesis on `s` here).
-/
import QecVerif.Props.C02
import QecVerif.Props.C15.Planar
import QecVerif.Props.C15.Toric
import QecVerif.Props.C07.RotatedPlanar
import QecVerif.Props.C07.Color666
namespace Qec.C02.Instances
open Qec Qec.Dec Qec.Pairing

/-! ### the Spec structures -/

/-- planar lattice, all R, C ≥ 2 (C15) -/
theorem planarL_spec (R C : Int) (hR : 2 ≤ R) (hC : 2 ≤ C) : PlanarL.Spec R C where
  plaquetteIndices_spec := C15.Planar.plaquetteIndices_spec R C hR hC
  path_syndrome_vector := fun a b ha hb hab => C15.Planar.path_syndrome_vector R C hR hC a b ha hb hab
  virtualPlaquette_spec := fun p hp => by
    obtain ⟨v, h1, h2, h3, _⟩ := C15.Planar.virtualPlaquette_spec R C hR hC p hp
    exact ⟨v, h1, h2, h3⟩

/-- toric lattice, all R, C ≥ 2 (C15) -/
theorem toricL_spec (R C : Int) (hR : 2 ≤ R) (hC : 2 ≤ C) : ToricL.Spec R C where
  indices_nodup := (C15.Toric.plaquetteIndices_spec R C).2.2.1
  path_syndrome_vector := fun a ha b hb hab =>
    C15.Toric.path_syndrome_vector_real R C hR hC a b
      (((C15.Toric.plaquetteIndices_spec R C).1 a).mp ha) (((C15.Toric.plaquetteIndices_spec R C).1 b).mp hb) hab

/-- rotated planar lattice, all R, C ≥ 3 (C07 run-to-boundary lemma) -/
theorem rotatedPlanarL_spec (R C : Int) (hR : 3 ≤ R) (hC : 3 ≤ C) : RotatedPlanarL.Spec R C where
  plaquetteIndices_nodup := (C07.RotatedPlanar.plaquette_indices_spec R C).1
  run_syndrome := fun p hp => (C07.RotatedPlanar.sample_run_destabiliser R C hR hC p hp).2

/-- colour 6.6.6 lattice, all odd L ≥ 3 (C07 run-to-boundary lemma) -/
theorem color666L_spec (L : Int) (hL : 3 ≤ L) (hodd : L % 2 = 1) : Color666L.Spec L where
  plaquetteIndices_nodup := (C07.Color666.plaquette_indices_spec L).1
  run_syndrome := fun x hx => C07.Color666.run_syndrome L hL hodd x hx

/-! ### the decoder theorems, no lattice hypothesis left -/

/-- planar MPS / RMPS `sample_recovery` reproduces the syndrome: all R, C ≥ 2, all syndromes -/
theorem planar_sample_syndrome (R C : Int) (hR : 2 ≤ R) (hC : 2 ≤ C) (s : BVec)
    (hs : s.length = (Planar.plaquetteIndices R C).length) :
    ∃ r, planarSampleRecovery R C s = .ok r ∧ r.length = 2 * PlanarL.nq R C ∧
      synd (Planar.stabilizers R C) r = s :=
  C02.planar_sample_syndrome R C (planarL_spec R C hR hC) s hs

/-- planar MWPM: for EVERY pair of perfect matchings of the two modelled graphs the recovery exists and has the
    syndrome: all R, C ≥ 2, all syndromes -/
theorem planar_mwpm_syndrome (R C : Int) (hR : 2 ≤ R) (hC : 2 ≤ C) (s : BVec)
    (hs : s.length = (Planar.plaquetteIndices R C).length)
    (mP mD : List ((Int × Int) × (Int × Int)))
    (hP : isPerfectMatchingOfGraph (planarNodes R C true (planarDefects R C s true))
      (planarEdges R C true (planarDefects R C s true)) mP = true)
    (hD : isPerfectMatchingOfGraph (planarNodes R C false (planarDefects R C s false))
      (planarEdges R C false (planarDefects R C s false)) mD = true) :
    ∃ r, planarMwpmRecovery R C mP mD = .ok r ∧ r.length = 2 * PlanarL.nq R C ∧
      synd (Planar.stabilizers R C) r = s :=
  C02.planar_mwpm_syndrome R C (planarL_spec R C hR hC) s hs mP mD hP hD

/-- the modelled planar graph always has a perfect matching -/
theorem planar_graph_has_pm (R C : Int) (hR : 2 ≤ R) (hC : 2 ≤ C) (s : BVec) (t : Bool) :
    ∃ m, isPerfectMatchingOfGraph (planarNodes R C t (planarDefects R C s t))
      (planarEdges R C t (planarDefects R C s t)) m = true :=
  C02.planar_graph_has_pm R C (planarL_spec R C hR hC) s t

/-- existence and correctness together -/
theorem planar_mwpm_total (R C : Int) (hR : 2 ≤ R) (hC : 2 ≤ C) (s : BVec)
    (hs : s.length = (Planar.plaquetteIndices R C).length) :
    ∃ mP mD r, planarMwpmRecovery R C mP mD = .ok r ∧ synd (Planar.stabilizers R C) r = s :=
  C02.planar_mwpm_total R C (planarL_spec R C hR hC) s hs

/-- planar converging MWPM (`max_iterations ≥ 1`) -/
theorem planar_cmwpm_syndrome (R C : Int) (hR : 2 ≤ R) (hC : 2 ≤ C) (s : BVec)
    (hs : s.length = (Planar.plaquetteIndices R C).length)
    (mP mD : List (CNode × CNode))
    (hP : isPerfectMatchingOfGraph (cmwpmNodes (planarDefects R C s true))
      (cmwpmEdges (planarDefects R C s true)) mP = true)
    (hD : isPerfectMatchingOfGraph (cmwpmNodes (planarDefects R C s false))
      (cmwpmEdges (planarDefects R C s false)) mD = true) :
    ∃ r, planarCmwpmRecovery R C mP mD = .ok r ∧ r.length = 2 * PlanarL.nq R C ∧
      synd (Planar.stabilizers R C) r = s :=
  C02.planar_cmwpm_syndrome R C (planarL_spec R C hR hC) s hs mP mD hP hD

/-- toric MWPM: all R, C ≥ 2, every syndrome with an even number of defects per lattice, ANY perfect matchings -/
theorem toric_mwpm_syndrome (R C : Int) (hR : 2 ≤ R) (hC : 2 ≤ C) (s : BVec)
    (hs : s.length = (Toric.indices R C).length)
    (toric_syndrome_even : (toricDefects R C s 0).length % 2 = 0 ∧ (toricDefects R C s 1).length % 2 = 0)
    (m0 m1 : List (Toric.Idx × Toric.Idx))
    (h0 : isPerfectMatchingOfGraph (toricNodes (toricDefects R C s 0)) (toricEdges (toricDefects R C s 0)) m0 = true)
    (h1 : isPerfectMatchingOfGraph (toricNodes (toricDefects R C s 1)) (toricEdges (toricDefects R C s 1)) m1 = true) :
    ∃ r, toricMwpmRecovery R C m0 m1 = .ok r ∧ r.length = 2 * ToricL.nq R C ∧
      synd (Toric.stabilizers R C) r = s :=
  C02.toric_mwpm_syndrome R C (toricL_spec R C hR hC) s hs toric_syndrome_even m0 m1 h0 h1

theorem toric_graph_has_pm (R C : Int) (hR : 2 ≤ R) (hC : 2 ≤ C) (s : BVec) (l : Int)
    (toric_syndrome_even : (toricDefects R C s l).length % 2 = 0) :
    ∃ m, isPerfectMatchingOfGraph (toricNodes (toricDefects R C s l)) (toricEdges (toricDefects R C s l)) m = true :=
  C02.toric_graph_has_pm R C (toricL_spec R C hR hC) s l toric_syndrome_even

/-- rotated planar MPS / RMPS `sample_recovery`: all R, C ≥ 3, all syndromes -/
theorem rotated_planar_sample_syndrome (R C : Int) (hR : 3 ≤ R) (hC : 3 ≤ C) (s : BVec)
    (hs : s.length = (RotatedPlanar.plaquetteIndices R C).length) :
    synd (RotatedPlanar.stabilizers R C) (rotatedPlanarSampleRecovery R C s) = s ∧
      (rotatedPlanarSampleRecovery R C s).length = 2 * RotatedPlanarL.nq R C :=
  C02.rotated_planar_sample_syndrome R C (rotatedPlanarL_spec R C hR hC) s hs

/-- colour 6.6.6 MPS `sample_recovery`: all odd L ≥ 3, all syndromes -/
theorem color666_sample_syndrome (L : Int) (hL : 3 ≤ L) (hodd : L % 2 = 1) (s : BVec)
    (hs : s.length = 2 * (Color666.plaquetteIndices L).length) :
    synd (Color666.stabilizers L) (color666SampleRecovery L s) = s ∧
      (color666SampleRecovery L s).length = 2 * Color666L.nq L :=
  C02.color666_sample_syndrome L (color666L_spec L hL hodd) s hs

/-! ### non-vacuity -/

/-- the 3×3 rotated planar code, a non-zero syndrome of the right length -/
example : ∃ s : BVec, s.length = (RotatedPlanar.plaquetteIndices 3 3).length ∧ s ≠ zeros s.length ∧
    synd (RotatedPlanar.stabilizers 3 3) (rotatedPlanarSampleRecovery 3 3 s) = s :=
  ⟨true :: List.replicate 7 false, by decide +kernel, by decide,
    (rotated_planar_sample_syndrome 3 3 (by decide) (by decide) _ (by decide +kernel)).1⟩

example : PlanarL.Spec 40 17 ∧ ToricL.Spec 12 31 ∧ RotatedPlanarL.Spec 9 8 ∧ Color666L.Spec 21 :=
  ⟨planarL_spec 40 17 (by decide) (by decide), toricL_spec 12 31 (by decide) (by decide),
    rotatedPlanarL_spec 9 8 (by decide) (by decide), color666L_spec 21 (by decide) (by decide)⟩

end Qec.C02.Instances
