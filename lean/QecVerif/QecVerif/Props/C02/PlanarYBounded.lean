/-
  C02 / C10 — `PlanarYDecoder` (Model/PlanarY.lean): BOUNDED kernel evaluations (`decide +kernel`: checked by
  the Lean kernel itself).  Every theorem here is a finite check of the model on the listed lattice sizes and is named
  `…_bounded`; the all-sizes statements are in Props/C02/PlanarY.lean.
-/
import QecVerif.Model.PlanarY
import QecVerif.Model.Coset
namespace Qec.C02.PlanarY
open Qec Qec.Planar Qec.PlanarY

/-- the syndrome with the single defect `p` -/
def unitSyndrome (R C : Int) (p : Int × Int) : BVec := (plaquetteIndices R C).map fun q => q == p

/-- every `_destabilizer(code, p)` is returned, has length 2n and anticommutes with exactly the plaquette `p` -/
def destabOkB (R C : Int) : Bool :=
  (plaquetteIndices R C).all fun p =>
    match destabilizer R C p with
    | .ok d => d.length == 2 * (nQubits R C).toNat && Coset.yOnly d && syndrome R C d == unitSyndrome R C p
    | .error _ => false

/-- the Y-only operator with Y exactly on the qubits flagged by `x` -/
def yError (x : BVec) : BVec := x ++ x

/-- `_sample_recovery` on the syndrome of the Y-only error `x ++ x` is returned, is Y-only and reproduces the syndrome -/
def sampleOkB (R C : Int) (x : BVec) : Bool :=
  let s := syndrome R C (yError x)
  match sampleRecovery R C s with
  | .ok r => r.length == 2 * (nQubits R C).toNat && Coset.yOnly r && syndrome R C r == s
  | .error _ => false

def unitVecs (n : Nat) : List BVec := (List.range n).map fun i => (List.range n).map fun j => i == j

def nodupB : List BVec → Bool
  | [] => true
  | x :: xs => !xs.contains x && nodupB xs

/-- `_y_stabilizers(code)`: 2^(gcd−1) pairwise distinct Y-only operators of length 2n commuting with every stabilizer
    generator and with both logical operators -/
def yStabsOkB (R C : Int) : Bool :=
  match yStabilizers R C with
  | .ok ys =>
    ys.length == 2 ^ (Nat.gcd R.toNat C.toNat - 1) && nodupB ys &&
    ys.all fun y => y.length == 2 * (nQubits R C).toNat && Coset.yOnly y && isZero (syndrome R C y) &&
      !bsp y (logicalX R C) && !bsp y (logicalZ R C)
  | .error _ => false

/-- the all-Y stabilizers are as many as the Y-only elements of the whole stabilizer group (brute-force enumeration
    of the 2^(n−1) group elements) -/
def yStabsCountB (R C : Int) : Bool :=
  match yStabilizers R C with
  | .ok ys => ys.length == Coset.yGroupSize (2 * (nQubits R C).toNat) (stabilizers R C)
  | .error _ => false

/-- `_y_logical(code)`: Y-only, commutes with every stabilizer generator, anticommutes with a logical operator -/
def yLogicalOkB (R C : Int) : Bool :=
  match yLogical R C with
  | .ok l => l.length == 2 * (nQubits R C).toNat && Coset.yOnly l && isZero (syndrome R C l) &&
      (bsp l (logicalX R C) || bsp l (logicalZ R C))
  | .error _ => false

def sizesUpTo (k : Nat) : List (Int × Int) :=
  (List.range (k - 1)).flatMap fun i => (List.range (k - 1)).map fun j => (((i + 2 : Nat) : Int), ((j + 2 : Nat) : Int))

def coprimeSizesUpTo (k : Nat) : List (Int × Int) := (sizesUpTo k).filter fun s => coprime s.1 s.2

set_option maxRecDepth 1000000 in
/-- for every co-prime lattice 2 ≤ R, C ≤ 4 and every plaquette the destabilizer of the code is a genuine destabilizer -/
theorem planary_destab_syndrome_bounded : (coprimeSizesUpTo 4).all (fun s => destabOkB s.1 s.2) = true := by
  decide +kernel

set_option maxRecDepth 1000000 in
/-- exhaustive over ALL Y-only errors of the 2×2 and 2×3 lattices -/
theorem planary_sample_syndrome_bounded :
    ([((2 : Int), (2 : Int)), (2, 3)]).all (fun s =>
      (Coset.allVecs (nQubits s.1 s.2).toNat).all (sampleOkB s.1 s.2)) = true := by
  decide +kernel

set_option maxRecDepth 1000000 in
/-- every single-qubit Y error on every lattice 2 ≤ R, C ≤ 3 and on 6×4 (all three regimes: co-prime, multiple,
    constant gcd; the latter consult the look-up table) -/
theorem planary_sample_syndrome_singles_bounded :
    (sizesUpTo 3 ++ [(6, 4)]).all (fun s => (unitVecs (nQubits s.1 s.2).toNat).all (sampleOkB s.1 s.2)) = true := by
  decide +kernel

set_option maxRecDepth 1000000 in
theorem ystabs_spec_bounded : (sizesUpTo 4).all (fun s => yStabsOkB s.1 s.2) = true := by
  decide +kernel

set_option maxRecDepth 1000000 in
theorem ystabs_count_bounded :
    ([((2 : Int), (2 : Int)), (2, 3), (3, 2)]).all (fun s => yStabsCountB s.1 s.2) = true := by
  decide +kernel

set_option maxRecDepth 1000000 in
theorem ylogical_spec_bounded : (sizesUpTo 4).all (fun s => yLogicalOkB s.1 s.2) = true := by
  decide +kernel

end Qec.C02.PlanarY
