/-
  C02 / C03 — the rotated TORIC symmetry-matching decoder (`RotatedToricSMWPMDecoder`), recovery construction
  modelled in Model/Smwpm.lean (`Smwpm.Toric`) with both matchings as universally quantified parameters.

  PROVED (all accepted sizes — rows, columns even and ≥ 2 —, every number of time steps, every syndrome array, every
  choice of the edge-deciding flags, ANY perfect matchings of the two modelled graphs):
  * `smwpm_toric_clusters_total` — for a perfect matching of the modelled symmetry graph `_clusters` never raises
    (and, by `smwpm_clusters_total`, yields even clusters covering every matched index once);
  * `smwpm_toric_syndrome`       — whenever the cluster graph exists (`matchingsOk`: an even number of defective
    clusters, i.e. the `assert` of `_cluster_graph` holds) the returned recovery has syndrome = XOR of the rows;
  * `smwpm_toric_syndrome_ideal` — one row: the syndrome itself.
  The endpoint lemma of `RotatedToricPauli.path` is C15's `path_syndrome_vector` (proved for all sizes).

  PROVED ELSEWHERE (Props/C02/SmwpmEven.lean): the number of defective clusters is even whenever the XOR of the rows is
  the syndrome of an error — `smwpm_toric_assert_never_fires(_reachable)`; the `assert` fires iff the number of X-type
  defects is odd (`smwpm_toric_assert_iff`), which happens for arbitrary bit arrays (`assert_fires_bounded`).

  STATED, NOT PROVED (in this file) — AUDIT: NOW PROVED elsewhere:
  * the t-parity outputs (`custom_values`, `success`) as functions of the matchings — their bookkeeping is
    Model/Ftp.lean / Props/C03.lean with the clusters as parameters.
      → Model/SmwpmTp.lean (`Smwpm.Toric.stageTps`, `decodeFtp`) + Props/C03/TParity.lean (`result_shape`,
        `stage_tparities_are_wrap_parities`, `cluster_match_order_irrelevant`,
        `custom_values_are_total_crossing_parities`, `success_iff`, `single_step_all_zero`).
-/
import QecVerif.Props.C02
import QecVerif.Props.C15.RotatedToric
import QecVerif.Lemmas.SmwpmToric
import QecVerif.Lemmas.Lattice.RotatedToricCode
namespace Qec.C02.SmwpmToric
open Qec Qec.Smwpm Qec.Dec Qec.SmwpmL Qec.SmwpmL.T Qec.Pairing

abbrev Size := C15.RotatedToric.Size

/-- the path operator between two plaquette indices (identity on the impossible error branch) -/
def pathT (R C : Int) (a b : Idx2) : BVec :=
  match RotatedToric.path R C (RotatedToric.identity R C) a b with
  | .ok v => v
  | .error _ => RotatedToric.identity R C

theorem modIndex_inB (R C : Int) (a : Idx2) (h : InB R C a) : RotatedToric.modIndex R C a = a := by
  rw [RotatedToric.Lem.modIndex_eq]
  unfold InB at h
  apply Prod.ext
  · exact Int.emod_eq_of_lt h.1 (by omega)
  · exact Int.emod_eq_of_lt h.2.2.1 (by omega)

theorem pathT_spec (R C : Int) (hS : Size R C) (a b : Idx2) (ha : InB R C a) (hb : InB R C b)
    (hty : RotatedToric.isZPlaquette a.1 a.2 = RotatedToric.isZPlaquette b.1 b.2) :
    Smwpm.Toric.pathOp R C a b = .ok (pathT R C a b) ∧ (pathT R C a b).length = 2 * RotatedToricCode.nq R C ∧
      synd (RotatedToric.stabilizers R C) (pathT R C a b) =
        (RotatedToric.plaquetteIndices R C).map fun p => (decide (p = a) != decide (p = b)) := by
  obtain ⟨v, hv, hs⟩ := C15.RotatedToric.path_syndrome_vector R C hS a b hty
  have hlen : v.length = 2 * RotatedToricCode.nq R C := by
    rw [RotatedToric.Lem.path_eq R C a b hty] at hv
    cases hv
    exact RotatedToricCode.siteop_length _ _ _ _
  unfold Smwpm.Toric.pathOp pathT
  rw [hv]
  refine ⟨rfl, hlen, ?_⟩
  rw [hs, modIndex_inB R C a ha, modIndex_inB R C b hb]

/-- the lattice interface of the pairing theorem for this decoder -/
def pathSpec (R C : Int) (hS : Size R C) : PathSpec Idx2 where
  n := RotatedToricCode.nq R C
  S := RotatedToric.stabilizers R C
  plaqs := RotatedToric.plaquetteIndices R C
  path := pathT R C
  ok a b := InB R C a ∧ InB R C b ∧ RotatedToric.isZPlaquette a.1 a.2 = RotatedToric.isZPlaquette b.1 b.2
  S_plaqs := by simp [RotatedToric.stabilizers]
  S_len := by
    intro s hs
    simp only [RotatedToric.stabilizers, List.mem_map] at hs
    obtain ⟨p, _, rfl⟩ := hs
    exact RotatedToricCode.siteop_length _ _ _ _
  path_len := fun a b h => (pathT_spec R C hS a b h.1 h.2.1 h.2.2).2.1
  path_synd := fun a b h => (pathT_spec R C hS a b h.1 h.2.1 h.2.2).2.2

/-- the pairs `path` accepts -/
def PathOKT (R C : Int) (x : TIdx × TIdx) : Prop := InB R C (sp x.1) ∧ InB R C (sp x.2) ∧ isX x.1 = isX x.2

theorem sameZ_of_isX (x : TIdx × TIdx) (h : isX x.1 = isX x.2) :
    RotatedToric.isZPlaquette (sp x.1).1 (sp x.1).2 = RotatedToric.isZPlaquette (sp x.2).1 (sp x.2).2 := by
  unfold isX RotatedPlanar.isXPlaquette at h
  show (!RotatedToric.isXPlaquette x.1.2.1 x.1.2.2) = (!RotatedToric.isXPlaquette x.2.2.1 x.2.2.2)
  unfold RotatedToric.isXPlaquette
  rw [h]

theorem applyPairs_ok (R C : Int) (hS : Size R C) (ps : List (TIdx × TIdx)) (h : ∀ x ∈ ps, PathOKT R C x)
    (v : BVec) :
    Smwpm.Toric.applyPairs R C ps v = .ok ((ps.map fun x => pathT R C (sp x.1) (sp x.2)).foldl xorV v) := by
  induction ps generalizing v with
  | nil => rfl
  | cons x ps ih =>
    obtain ⟨a, b⟩ := x
    obtain ⟨h1, h2, h3⟩ := h (a, b) (by simp)
    unfold Smwpm.Toric.applyPairs
    rw [(pathT_spec R C hS (sp a) (sp b) h1 h2 (sameZ_of_isX (a, b) h3)).1]
    simp only
    rw [ih (fun y hy => h y (by simp [hy]))]
    rfl

/-- `_clusters` never raises on a perfect matching of the modelled graph -/
theorem smwpm_toric_clusters_total (fl : Flags) (R C : Int) (rows : List BVec) (ms : List (Node × Node))
    (hpm : isPerfectMatchingOfGraph (Smwpm.Toric.graphNodes R C rows) (Smwpm.Toric.graphEdges fl R C rows) ms = true) :
    ∃ cls, clusters ms = .ok cls ∧ ∀ cl ∈ cls, cl.length % 2 = 0 := by
  have F := matchFacts fl R C rows ms hpm
  obtain ⟨row, col, hb, hgood, _, _⟩ := mates_good ms F.shape F.nodup F.twin
  obtain ⟨cls, hcl, _, heven⟩ := loop_spec (col.length + 1) col row [] hgood (by omega)
  rw [List.nil_append] at hcl
  exact ⟨cls, by unfold clusters; rw [hb]; exact hcl, heven⟩

/-- **syndrome reproduction** (C02 / C03 for `RotatedToricSMWPMDecoder`) -/
theorem smwpm_toric_syndrome (fl : Flags) (R C : Int) (hS : Size R C)
    (rows : List BVec) (hrows : ∀ r ∈ rows, r.length = (RotatedToric.plaquetteIndices R C).length)
    (ms : List (Node × Node)) (cms : List (Nat × Nat)) (hok : Smwpm.Toric.matchingsOk fl R C rows ms cms = true) :
    ∃ r, Smwpm.Toric.decode R C ms cms = .ok r ∧
      synd (RotatedToric.stabilizers R C) r = xorAll (RotatedToric.plaquetteIndices R C).length rows := by
  unfold Smwpm.Toric.matchingsOk at hok
  rw [Bool.and_eq_true] at hok
  obtain ⟨hpm, hok2⟩ := hok
  have F := matchFacts fl R C rows ms hpm
  obtain ⟨row, col, hb, hgood, hcol, hrow⟩ := mates_good ms F.shape F.nodup F.twin
  obtain ⟨cls, hcl, hcnt, heven⟩ := loop_spec (col.length + 1) col row [] hgood (by omega)
  rw [List.nil_append] at hcl
  have hclusters : clusters ms = .ok cls := by unfold clusters; rw [hb]; exact hcl
  rw [hclusters] at hok2; simp only at hok2
  have hkey : ∀ k v, dget col k = some v → T.IsNode R C rows k := by
    intro k v hd
    have := (hcol k v).mp hd
    have hin : (k, false) ∈ ends ms := by
      rcases this.2 with h | h
      · exact (mem_ends ms _).mpr ⟨_, h, Or.inl rfl⟩
      · exact (mem_ends ms _).mpr ⟨_, h, Or.inr rfl⟩
    exact (F.node k false).mp hin
  have hmem : ∀ k ∈ cls.flatten, T.IsNode R C rows k := by
    intro k hk
    have h1 : 0 < cnt cls.flatten k := List.countP_pos_iff.mpr ⟨k, hk, by simp⟩
    rw [hcnt] at h1
    unfold ind at h1
    cases hd : dget col k with
    | none => rw [hd] at h1; simp at h1
    | some v => exact hkey k v hd
  obtain ⟨ps, nsr, yd, hps, hnsr, hpsok, hnsrok, hc1, hc2, hc3⟩ := clusters_spec cls heven
  have hflat : ∀ p, cntS cls.flatten p = (List.range rows.length).countP fun t => Smwpm.Toric.isDefect R C rows t p := by
    intro p
    rw [cntS_eq_sum cls.flatten p rows.length (fun k hk _ => by
      obtain ⟨_, t, h1, h2, _⟩ := hmem k hk; exact ⟨t, h1, h2⟩)]
    rw [← sum_indicator_countP]
    congr 1
    apply List.map_congr_left
    intro t ht
    rw [List.mem_range] at ht
    rw [hcnt]
    unfold ind
    by_cases hd : Smwpm.Toric.isDefect R C rows t p = true
    · rw [if_pos hd]
      have hpb : InB R C p := by
        unfold Smwpm.Toric.isDefect at hd
        have hm : p ∈ RotatedToric.syndromeToPlaquettes R C (rows.getD t []) := of_decide_eq_true hd
        have := Pairing.pick_subset (RotatedToric.plaquetteIndices R C) (rows.getD t []) p hm
        have := (RotatedToric.Lem.inBounds_iff R C p.1 p.2).mp ((RotatedToric.Lem.mem_plaquetteIndices R C p).mp this)
        unfold InB; omega
      have hnode : T.IsNode R C rows ((t : Int), p.1, p.2) := ⟨hpb, t, rfl, ht, hd⟩
      have hin := (F.node _ false).mpr hnode
      obtain ⟨m, hm, hmk⟩ := (mem_ends ms _).mp hin
      have hnt := F.noTwin m hm
      have hor : m.1.2 = m.2.2 := by
        rcases F.shape m hm with h | h
        · exact h
        · exact absurd h hnt
      have : ∃ v, P ms false ((t : Int), p.1, p.2) v := by
        rcases hmk with h | h
        · refine ⟨m.2.1, ?_, Or.inl ?_⟩
          · intro hh; apply hnt; rw [← h]; exact hh
          · have e2 : m.2 = (m.2.1, false) := by
              have : m.2.2 = false := by rw [← hor, ← h]
              rw [← this]
            rw [← e2, h]; exact hm
        · refine ⟨m.1.1, ?_, Or.inr ?_⟩
          · intro hh; apply hnt; rw [← h]; exact hh.symm
          · have e1 : m.1 = (m.1.1, false) := by
              have : m.1.2 = false := by rw [hor, ← h]
              rw [← this]
            rw [← e1, h]; exact hm
      obtain ⟨v, hv⟩ := this
      rw [(hcol _ v).mpr hv]; rfl
    · rw [if_neg hd]
      cases hdg : dget col ((t : Int), p.1, p.2) with
      | none => rfl
      | some v =>
        exfalso
        obtain ⟨_, t', h1, _, h3⟩ := hkey _ v hdg
        simp only at h1
        have : t' = t := by omega
        rw [this] at h3
        exact hd h3
  have hM : ∀ k ∈ cls.flatten, InB R C (sp k) := fun k hk => (hmem k hk).1
  -- the cluster nodes: the real nodes, or none
  have hnodes : ∃ ns, Smwpm.Toric.clusterNodes cls = .ok ns ∧ (∀ n ∈ ns, NodeOK cls.flatten n) ∧
      ∀ p, sumW ns p % 2 = cntS yd p % 2 := by
    unfold Smwpm.Toric.clusterNodes
    rw [hnsr]; simp only
    by_cases h0 : nDefective nsr = 0
    · rw [if_pos h0]
      exact ⟨[], rfl, by simp, fun p => by rw [hc3 h0]; rfl⟩
    · rw [if_neg h0]
      by_cases h1 : nDefective nsr % 2 ≠ 0
      · exfalso
        unfold Smwpm.Toric.clusterNodes at hok2
        rw [hnsr] at hok2; simp only at hok2
        rw [if_neg h0, if_pos h1] at hok2
        simp at hok2
      · rw [if_neg h1]
        exact ⟨nsr, rfl, hnsrok, hc2⟩
  obtain ⟨ns, hns, hnsok, hnsw⟩ := hnodes
  rw [hns] at hok2; simp only at hok2
  have hk : ∀ n ∈ ns, n.kind ≠ .extra := by
    intro n hn h
    rcases (hnsok n hn).1 with h' | h' <;> rw [h] at h' <;> cases h'
  obtain ⟨qs, hqs, hqsfrom, hqscnt⟩ := stage2_spec ns hk cms hok2
  have hpsPath : ∀ x ∈ ps, PathOKT R C x := fun x hx => by
    obtain ⟨h1, h2, h3⟩ := hpsok x hx
    exact ⟨hM _ h2, hM _ h3, h1⟩
  have hqsPath : ∀ x ∈ qs, PathOKT R C x := fun x hx => by
    obtain ⟨a, b, ha, hb, _, _, hx'⟩ := hqsfrom x hx
    obtain ⟨_, a1, a2, a3, a4⟩ := hnsok a ha
    obtain ⟨_, b1, b2, b3, b4⟩ := hnsok b hb
    rcases hx' with rfl | rfl
    · exact ⟨hM _ a3, hM _ b3, by simp only; rw [a1, b1]⟩
    · exact ⟨hM _ a4, hM _ b4, by simp only; rw [a2, b2]⟩
  have hr1 := applyPairs_ok R C hS ps hpsPath (RotatedToric.identity R C)
  have hr2 := applyPairs_ok R C hS qs hqsPath (RotatedToric.identity R C)
  refine ⟨xorV (xorV (RotatedToric.identity R C)
      ((ps.map fun x => pathT R C (sp x.1) (sp x.2)).foldl xorV (RotatedToric.identity R C)))
      ((qs.map fun x => pathT R C (sp x.1) (sp x.2)).foldl xorV (RotatedToric.identity R C)), ?_, ?_⟩
  · unfold Smwpm.Toric.decode
    rw [hclusters]; simp only
    unfold Smwpm.Toric.recovery
    rw [hps]; simp only
    rw [hr1]; simp only
    rw [hns]; simp only
    unfold Smwpm.Toric.clusterRecovery
    rw [hqs]; simp only
    rw [hr2]
  · let L := pathSpec R C hS
    let g : TIdx × TIdx → Idx2 × Idx2 := fun x => (sp x.1, sp x.2)
    have hokL : ∀ (l : List (TIdx × TIdx)), (∀ x ∈ l, PathOKT R C x) → ∀ y ∈ l.map g, L.ok y.1 y.2 := by
      intro l hl y hy
      rw [List.mem_map] at hy
      obtain ⟨x, hx, rfl⟩ := hy
      obtain ⟨h1, h2, h3⟩ := hl x hx
      exact ⟨h1, h2, sameZ_of_isX x h3⟩
    have hfold : ∀ (l : List (TIdx × TIdx)),
        (l.map fun x => pathT R C (sp x.1) (sp x.2)).foldl xorV (RotatedToric.identity R C) =
          xorAll (2 * L.n) ((l.map g).map fun x => L.path x.1 x.2) := by
      intro l; unfold xorAll; rw [List.map_map]; rfl
    have hlen : ∀ (l : List (TIdx × TIdx)), (∀ x ∈ l, PathOKT R C x) →
        ((l.map fun x => pathT R C (sp x.1) (sp x.2)).foldl xorV (RotatedToric.identity R C)).length =
          2 * RotatedToricCode.nq R C := by
      intro l hl
      apply foldl_xorV_length _ _ _ (RotatedToricCode.identity_length R C)
      intro r hr
      rw [List.mem_map] at hr
      obtain ⟨x, hx, rfl⟩ := hr
      obtain ⟨h1, h2, h3⟩ := hl x hx
      exact (pathT_spec R C hS _ _ h1 h2 (sameZ_of_isX x h3)).2.1
    have hsum := foldl_synd (RotatedToricCode.nq R C) (RotatedToric.stabilizers R C)
      [(ps.map fun x => pathT R C (sp x.1) (sp x.2)).foldl xorV (RotatedToric.identity R C),
       (qs.map fun x => pathT R C (sp x.1) (sp x.2)).foldl xorV (RotatedToric.identity R C)]
      (RotatedToric.identity R C) (RotatedToricCode.identity_length R C) L.S_len (by
        intro e he
        simp only [List.mem_cons, List.not_mem_nil, or_false] at he
        rcases he with rfl | rfl
        · exact hlen ps hpsPath
        · exact hlen qs hqsPath)
    simp only [List.map_cons, List.map_nil, List.foldl_cons, List.foldl_nil] at hsum
    rw [← hsum, hfold ps, hfold qs]
    have p1 : synd (RotatedToric.stabilizers R C) (xorAll (2 * L.n) ((ps.map g).map fun x => L.path x.1 x.2)) =
        (RotatedToric.plaquetteIndices R C).map fun p => decide (Dec.occ (ps.map g) p % 2 = 1) :=
      pairing L (ps.map g) (hokL ps hpsPath)
    have p2 : synd (RotatedToric.stabilizers R C) (xorAll (2 * L.n) ((qs.map g).map fun x => L.path x.1 x.2)) =
        (RotatedToric.plaquetteIndices R C).map fun p => decide (Dec.occ (qs.map g) p % 2 = 1) :=
      pairing L (qs.map g) (hokL qs hqsPath)
    have e1 : ∀ l : List (TIdx × TIdx), ∀ p, Dec.occ (l.map g) p = cntS (ends l) p :=
      fun l p => count_ends_sp l p
    have hz : synd (RotatedToric.stabilizers R C) (RotatedToric.identity R C) =
        (RotatedToric.plaquetteIndices R C).map fun _ => false := by
      have : RotatedToric.identity R C = zeros (2 * RotatedToricCode.nq R C) := rfl
      have hl : (RotatedToric.stabilizers R C).length = (RotatedToric.plaquetteIndices R C).length := L.S_plaqs
      rw [this, synd_zeros, hl]; simp [zeros]
    rw [p1, p2, hz, xorV_map_map, xorV_map_map, T.xorAll_rows R C rows hrows]
    apply List.map_congr_left
    intro p _
    apply parity3
    rw [e1, e1, hqscnt p, ← hflat p, ← hc1 p]
    have := hnsw p
    omega

/-- ideal mode (`decode`: one time step, the row is the syndrome) -/
theorem smwpm_toric_syndrome_ideal (fl : Flags) (R C : Int) (hS : Size R C)
    (s : BVec) (hs : s.length = (RotatedToric.plaquetteIndices R C).length)
    (ms : List (Node × Node)) (cms : List (Nat × Nat)) (hok : Smwpm.Toric.matchingsOk fl R C [s] ms cms = true) :
    ∃ r, Smwpm.Toric.decode R C ms cms = .ok r ∧ synd (RotatedToric.stabilizers R C) r = s := by
  obtain ⟨r, h1, h2⟩ := smwpm_toric_syndrome fl R C hS [s]
    (by intro r hr; rw [List.mem_singleton] at hr; rw [hr]; exact hs) ms cms hok
  refine ⟨r, h1, ?_⟩
  rw [h2]
  simp only [xorAll, List.foldl_cons, List.foldl_nil]
  exact xorV_zeros_left _ s hs

/-! ### the hypotheses are satisfiable on a concrete non-trivial input

  2×4 torus, syndrome `00111001` (two clusters, both defective ⇒ the cluster stage is used), finite bias, ideal
  mode; matchings and recovery as recorded from a run of qecsim. -/

def exRows : List BVec := [[false, false, true, true, true, false, false, true]]
def exMs : List (Node × Node) :=
  [(((0,1,0),false),((0,1,1),false)), (((0,1,1),true),((0,1,0),true)),
   (((0,2,1),true),((0,3,1),true)), (((0,3,1),false),((0,2,1),false))]
def exCms : List (Nat × Nat) := [(0,1)]

set_option maxRecDepth 100000 in
example : Smwpm.Toric.matchingsOk ⟨false, true, false⟩ 2 4 exRows exMs exCms = true := by decide

example : Smwpm.Toric.decode 2 4 exMs exCms =
    .ok [false, false, false, false, false, false, true, true, false, false, false, false, false, false, true, false] := by
  rfl

end Qec.C02.SmwpmToric
