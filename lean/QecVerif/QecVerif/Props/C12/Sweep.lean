/-
  C12 — the ALGEBRAIC core of the numeric clauses (state preserved, isometries, norm, truncation error = discarded
  weight), over ℝ, for every chain length, all physical and bond dimensions.

  Trust boundary.  The factors of every decomposition are arbitrary matrices constrained only by the LAPACK contract,
  which appears as an explicit hypothesis: `stack A = c • (Q * R)`, `Qᵀ * Q = 1` (QR, `c` = the scalar divided out of
  `R`), `stack A = c • (U * diagonal σ * W)`, `Uᵀ * U = 1`, `W * Wᵀ = 1` (thin SVD, `c` = `max_s`).  The harness
  checks these contracts (through their consequences) numerically on every run; floating-point rounding is outside
  these theorems.

  Modelling.  A site is a family `A : Fin d → Matrix (Fin l) (Fin r) ℝ` (physical index first; for an MPO the
  physical index is the pair (E, W) flattened).  `stack A` is the code's `matrix`, rows indexed by the PAIR
  (left bond, physical) — the row-major flattening of that pair is numpy's `reshape`.  A chain is `Qec.Sweep.Chain`,
  its tensor is `Chain.eval` (one matrix over the boundary bonds per physical configuration), `Chain.norm2` /
  `Chain.dist2` are the squared Frobenius norm / distance of the represented tensors.
  `right_canonical_form` is `reverse ∘ left_canonical_form ∘ reverse` (proved for the shape model in Props/C12.lean), so
  the truncating sweep of `truncate` is the left sweep `TSweep` below run on the reversed — right-canonical — chain.
-/
import QecVerif.Lemmas.Sweep
namespace Qec.C12.Sweep
open Matrix Qec.Sweep Qec.Sweep.Chain

/-- C12 "canonical forms represent the same tensor", one step: if the reshaped site factors as `M = Q * R`, replacing
    `(A_i, A_{i+1})` by `(Q reshaped, R * A_{i+1})` leaves every two-site product unchanged. -/
theorem sweep_step_preserves {d d' l m r k : ℕ} (A : Fin d → Matrix (Fin l) (Fin m) ℝ)
    (B : Fin d' → Matrix (Fin m) (Fin r) ℝ) (Q : Matrix (Fin l × Fin d) (Fin k) ℝ) (R : Matrix (Fin k) (Fin m) ℝ)
    (hfac : stack A = Q * R) (s : Fin d) (t : Fin d') : unstack Q s * (R * B t) = A s * B t := by
  rw [← Matrix.mul_assoc, ← unstack_mul, ← hfac, unstack_stack]

/-- C12 "consist of isometries away from the orthogonality centre", one step: `Qᵀ Q = 1` makes the new site a left
    isometry, `Σ_s A'[s]ᵀ A'[s] = 1`. -/
theorem sweep_step_isometry {d l k : ℕ} (Q : Matrix (Fin l × Fin d) (Fin k) ℝ) (hiso : Qᵀ * Q = 1) :
    ∑ s, (unstack Q s)ᵀ * unstack Q s = 1 :=
  isLeftIso_unstack Q hiso

/-- the same two facts for the mirrored step of `right_canonical_form` (matrix rows = (right bond, physical), i.e. the
    reshaped site of the reversed chain): the product with the LEFT neighbour is unchanged and the new site is a right
    isometry. -/
theorem rsweep_step {d d' l m r k : ℕ} (B : Fin d' → Matrix (Fin l) (Fin m) ℝ) (A : Fin d → Matrix (Fin m) (Fin r) ℝ)
    (Q : Matrix (Fin r × Fin d) (Fin k) ℝ) (R : Matrix (Fin k) (Fin m) ℝ)
    (hfac : stack (fun s => (A s)ᵀ) = Q * R) (hiso : Qᵀ * Q = 1) :
    (∀ t s, (B t * Rᵀ) * (unstack Q s)ᵀ = B t * A s) ∧ ∑ s, (unstack Q s)ᵀ * ((unstack Q s)ᵀ)ᵀ = 1 := by
  refine ⟨fun t s => ?_, ?_⟩
  · have h : unstack Q s * R = (A s)ᵀ := by rw [← unstack_mul, ← hfac, unstack_stack]
    rw [Matrix.mul_assoc, ← transpose_mul, h, transpose_transpose]
  · have h : ∑ s, (unstack Q s)ᵀ * unstack Q s = 1 := isLeftIso_unstack Q hiso
    simpa only [transpose_transpose] using h

/-- C12 "left canonical form represents the same tensor as its input times the returned norm", whole sweep, any
    length: an exact sweep (`LSweep`: every step replaces `M = c • (Q * R)`, `Qᵀ Q = 1`, by `Q` and pushes `R` right;
    `nrm` = product of the `c`) leaves the tensor equal to `nrm` times the new one; so does absorbing `nrm` into the
    last site (`normalise=False`). -/
theorem sweep_preserves_state {d : ℕ} {ds : List ℕ} {l r : ℕ} {C C' : Chain (d :: ds) l r} {nrm : ℝ}
    (h : LSweep C nrm C') :
    (∀ c, C.eval c = nrm • C'.eval c) ∧ (∀ c, (C'.scaleLast nrm).eval c = C.eval c) :=
  ⟨h.eval_eq, fun c => by rw [eval_scaleLast, h.eval_eq c]⟩

/-- C12 "consist of isometries away from the orthogonality centre", whole sweep: every site but the last of the
    result is a left isometry. -/
theorem sweep_isometry {ds : List ℕ} {l r : ℕ} {C C' : Chain ds l r} {nrm : ℝ} (h : LSweep C nrm C') :
    C'.LeftCanButLast :=
  h.leftCanButLast

/-- the squared norm of a chain whose sites but the last are left isometries is the squared Frobenius norm of its
    last site; hence after a sweep `‖input‖² = nrm² · ‖last site‖²`. -/
theorem lcf_norm {d : ℕ} {ds : List ℕ} {l r : ℕ} {C C' : Chain (d :: ds) l r} {nrm : ℝ} (h : LSweep C nrm C') :
    C'.norm2 = C'.lastFrob2 ∧ C.norm2 = nrm ^ 2 * C'.lastFrob2 := by
  have h1 := norm2_of_leftCanButLast C' h.leftCanButLast (by simp)
  refine ⟨h1, ?_⟩
  rw [← h1]
  unfold norm2
  rw [← sumCfg_mul_left]
  exact sumCfg_congr _ fun c => by rw [h.eval_eq c, frob2_smul]

/-- C12 "a normalised result has unit norm" and "… times the returned norm": dividing the last site by its
    Frobenius norm `ln ≠ 0` gives a chain of squared norm 1, and the input is `nrm * ln` times it. -/
theorem lcf_normalised {d : ℕ} {ds : List ℕ} {l r : ℕ} {C C' : Chain (d :: ds) l r} {nrm ln : ℝ}
    (h : LSweep C nrm C') (hln : ln ^ 2 = C'.lastFrob2) (h0 : ln ≠ 0) :
    (C'.scaleLast ln⁻¹).norm2 = 1 ∧ (∀ c, C.eval c = (nrm * ln) • (C'.scaleLast ln⁻¹).eval c) ∧
      C.norm2 = (nrm * ln) ^ 2 := by
  have h1 := lcf_norm h
  refine ⟨?_, fun c => ?_, by rw [h1.2, ← hln]; ring⟩
  · have : (C'.scaleLast ln⁻¹).norm2 = (ln⁻¹) ^ 2 * C'.norm2 := by
      unfold norm2
      rw [← sumCfg_mul_left]
      exact sumCfg_congr _ fun c => by rw [eval_scaleLast, frob2_smul]
    rw [this, h1.1, ← hln]
    field_simp
  · rw [eval_scaleLast, h.eval_eq c, smul_smul, mul_assoc, mul_inv_cancel₀ h0, mul_one]

/-- C12 "distance … bounded by the discarded Schmidt weight", one matrix: for a thin SVD `M = U diag(σ) W`
    (`Uᵀ U = 1`, `W Wᵀ = 1`) keeping the first `k` triples — literally `u[:, :k] · diag(s[:k]) · v[:k, :]` —
    gives `‖M − M_k‖_F² = Σ_{j ≥ k} σ_j²`. -/
theorem truncation_error_eq {p q n k : ℕ} (hk : k ≤ n) (U : Matrix (Fin p) (Fin n) ℝ) (σv : Fin n → ℝ)
    (W : Matrix (Fin n) (Fin q) ℝ) (hU : Uᵀ * U = 1) (hW : W * Wᵀ = 1) :
    frob2 (U * diagonal σv * W -
        U.submatrix id (Fin.castLE hk) * diagonal (σv ∘ Fin.castLE hk) * W.submatrix (Fin.castLE hk) id) =
      ∑ j : Fin n, if (j : ℕ) < k then 0 else σv j ^ 2 := by
  classical
  rw [submatrix_svd U σv W _ (Fin.castLE_injective hk), frob2_svd_sub U σv W hU hW]
  refine Finset.sum_congr rfl fun j _ => ?_
  have : j ∈ Set.range (Fin.castLE hk) ↔ (j : ℕ) < k := by
    constructor
    · rintro ⟨x, rfl⟩; exact x.2
    · intro h; exact ⟨⟨j, h⟩, by ext; rfl⟩
  simp only [this]

/-- C12 truncation, mixed canonical form: with a left-canonical prefix `P` and a right-canonical suffix `S`, the
    squared distance of two STATES that differ only in the centre site is the squared distance of the centre sites;
    and the squared norm of the state is that of the centre. -/
theorem truncation_state_error {ds es : List ℕ} {d l m n r : ℕ} (P : Chain ds l m) (hP : P.LeftCan)
    (S : Chain es n r) (hS : S.RightCan) (A A' : Fin d → Matrix (Fin m) (Fin n) ℝ) :
    dist2 (P.append (.cons A S)) (P.append (.cons A' S)) = frob2 (stack A - stack A') ∧
      (P.append (.cons A S)).norm2 = frob2 (stack A) := by
  rw [dist2_append_of_leftCan P hP, dist2_cons_of_rightCan A A' S hS, norm2_append_of_leftCan P hP,
    norm2_cons_of_rightCan A S hS, frob2_stack, ← frob2_stack]
  exact ⟨rfl, rfl⟩

/-- C12 "distance from the original (after the returned norm) is bounded by the discarded Schmidt weight", whole
    truncating sweep, any length, any mix of QR (masked-off) and truncating SVD steps.  `truncate` runs the sweep
    `TSweep` on the reversed left-canonical chain, i.e. on a chain whose tail is right-canonical (`TailRightCan`; that
    the first sweep delivers this is `sweep_isometry` mirrored).  Then the squared distance between the input tensor
    and `nrm` times the output tensor EQUALS the accumulated discarded weight
    `w = Σ_steps (Π earlier scalars)² · Σ_discarded σ²` — the per-step errors are mutually orthogonal and add in
    quadrature — so in particular it is bounded by it; and all sites but the last of the output are left isometries
    (for the reversed chain: right isometries). -/
theorem truncation_error_bound {d : ℕ} {ds : List ℕ} {l r : ℕ} {C C' : Chain (d :: ds) l r} {nrm w : ℝ}
    (h : TSweep C nrm C' w) (hC : C.TailRightCan) :
    dist2 C (C'.scaleLast nrm) = w ∧ dist2 C (C'.scaleLast nrm) ≤ w ∧ 0 ≤ w ∧ C'.LeftCanButLast := by
  have h1 : dist2 C (C'.scaleLast nrm) = w := by
    rw [← h.error_eq hC]
    unfold dist2
    exact sumCfg_congr _ fun c => by rw [eval_scaleLast]
  exact ⟨h1, le_of_eq h1, h1 ▸ dist2_nonneg _ _, h.leftCanButLast⟩

/-- the single truncation step of `truncation_error_bound` spelled out: SVD `M = c • (U diag σ W)` of the first site,
    keep the first `k` triples, everything to the right exact (an `LSweep`, e.g. the empty one): the squared error of
    the state is `c² Σ_{j ≥ k} σ_j²`, the discarded weight of that one step. -/
theorem truncation_error_step {d d' : ℕ} {ds : List ℕ} {l m r n k : ℕ} (hk : k ≤ n)
    (A : Fin d → Matrix (Fin l) (Fin m) ℝ) (C : Chain (d' :: ds) m r) (U : Matrix (Fin l × Fin d) (Fin n) ℝ)
    (σv : Fin n → ℝ) (W : Matrix (Fin n) (Fin m) ℝ) (c : ℝ) (hfac : stack A = c • (U * diagonal σv * W))
    (hU : Uᵀ * U = 1) (hW : W * Wᵀ = 1) (hC : C.RightCan) :
    dist2 (.cons A C)
        (.cons (unstack (U.submatrix id (Fin.castLE hk)))
          (C.mulLeft (c • (diagonal (σv ∘ Fin.castLE hk) * W.submatrix (Fin.castLE hk) id)))) =
      c ^ 2 * ∑ j : Fin n, if (j : ℕ) < k then 0 else σv j ^ 2 := by
  classical
  have key := step_error A (unstack (c • (U.submatrix id (Fin.castLE hk) *
      (diagonal (σv ∘ Fin.castLE hk) * W.submatrix (Fin.castLE hk) id))))
    (unstack (U.submatrix id (Fin.castLE hk))) (diagonal (σv ∘ Fin.castLE hk) * W.submatrix (Fin.castLE hk) id) c 1 0
    (isLeftIso_unstack _ (submatrix_iso U hU _ (Fin.castLE_injective hk)))
    (fun s => by simp only [unstack_smul, unstack_mul]) ?_ C hC
    (fun cf => diagonal (σv ∘ Fin.castLE hk) * W.submatrix (Fin.castLE hk) id * C.eval cf)
    (by simp [frob2_zero, sumCfg_zero])
  · have hs : ∀ N : Matrix (Fin l × Fin d) (Fin m) ℝ, stack (fun s => A s - unstack N s) = stack A - N :=
      fun _ => rfl
    rw [← frob2_stack, hs, hfac, ← Matrix.mul_assoc, submatrix_svd U σv W _ (Fin.castLE_injective hk), ← smul_sub,
      frob2_smul, frob2_svd_sub U σv W hU hW, mul_zero, add_zero] at key
    have hr : ∀ j : Fin n, j ∈ Set.range (Fin.castLE hk) ↔ (j : ℕ) < k := fun j =>
      ⟨by rintro ⟨x, rfl⟩; exact x.2, fun h => ⟨⟨j, h⟩, by ext; rfl⟩⟩
    simp only [hr] at key
    rw [← key]
    unfold dist2
    show ∑ s, sumCfg _ (fun cf => frob2 (A s * C.eval cf - _ * (C.mulLeft _).eval cf)) = _
    refine Finset.sum_congr rfl fun s _ => sumCfg_congr _ fun cf => ?_
    rw [eval_mulLeft, mul_one, Matrix.smul_mul, Matrix.mul_smul]
  · have hs : ∀ N : Matrix (Fin l × Fin d) (Fin m) ℝ, stack (fun s => A s - unstack N s) = stack A - N :=
      fun _ => rfl
    rw [← stackT_mul_stack', hs, stack_unstack, hfac, ← Matrix.mul_assoc,
      submatrix_svd U σv W _ (Fin.castLE_injective hk), ← smul_sub, transpose_smul, Matrix.smul_mul,
      svd_discard_orth U σv W hU, smul_zero]

/-- C12 "truncating … returns an MPS whose distance from the original (after the returned norm) is bounded by the
    discarded Schmidt weight" for `truncate` as a whole (its non-shortcut branch), any length:
    `lcf_mps, norm = left_canonical_form(mps, qr=True, normalise=True)` is an exact sweep `LSweep C n1 C1` followed by
    division of the last site by its norm `ln`, `norm = n1 * ln`; `right_canonical_form(lcf_mps, chi, tol, mask)` is
    `reverse` of a truncating left sweep `TSweep` of the reversed chain whose accumulated scalar `n2` is absorbed
    into its last site; the result `O` is given through its defining equation (it is the reverse of that chain).
    Then `‖ψ_in − norm · ψ_out‖² = norm² · w` with `w` the accumulated discarded weight — the quantity the harness
    compares against — and `‖ψ_in‖ = norm`.  No contract of the second sweep's input is assumed: it is derived from
    the first sweep (`tailRightCan_reverse`). -/
theorem truncate_contract {d : ℕ} {ds : List ℕ} {l r : ℕ} {C C1 O : Chain (d :: ds) l r} {n1 ln n2 w : ℝ}
    {C3 : Chain (rev (d :: ds)) r l} (h1 : LSweep C n1 C1) (hln : ln ^ 2 = C1.lastFrob2) (h0 : ln ≠ 0)
    (h2 : TSweep (C1.scaleLast ln⁻¹).reverse n2 C3 w)
    (hO : ∀ c, (C3.scaleLast n2).eval c.reverse = (O.eval c)ᵀ) :
    sumCfg (d :: ds) (fun c => frob2 (C.eval c - (n1 * ln) • O.eval c)) = (n1 * ln) ^ 2 * w ∧
      C.norm2 = (n1 * ln) ^ 2 ∧ 0 ≤ w := by
  have hN := lcf_normalised h1 hln h0
  have hT : (C1.scaleLast ln⁻¹).reverse.TailRightCan :=
    tailRightCan_reverse _ (leftCanButLast_scaleLast _ _ h1.leftCanButLast)
  have e := h2.error_eq hT
  rw [sumCfg_reverse] at e
  have hterm : ∀ c : Cfg (d :: ds),
      frob2 ((C1.scaleLast ln⁻¹).reverse.eval c.reverse - n2 • C3.eval c.reverse) =
        frob2 ((C1.scaleLast ln⁻¹).eval c - O.eval c) := by
    intro c
    rw [eval_reverse, ← eval_scaleLast' n2 C3 (rev_cons_ne_nil d ds), hO c, ← transpose_sub, frob2_transpose]
  simp only [hterm] at e
  refine ⟨?_, hN.2.2, ?_⟩
  · rw [← e, ← sumCfg_mul_left]
    exact sumCfg_congr _ fun c => by rw [hN.2.1 c, ← smul_sub, frob2_smul]
  · rw [← e]; exact sumCfg_nonneg _ _ fun _ => frob2_nonneg _

/-! non-vacuity: an explicit 2×2 QR (rotation by the 3-4-5 angle, one physical value), and a two-site sweep using it -/

noncomputable def exQ : Matrix (Fin 2 × Fin 1) (Fin 2) ℝ := fun p j => !![3/5, -4/5; 4/5, 3/5] p.1 j
noncomputable def exR : Matrix (Fin 2) (Fin 2) ℝ := !![5, 1; 0, 2]
noncomputable def exA : Fin 1 → Matrix (Fin 2) (Fin 2) ℝ := fun _ => !![3, -1; 4, 2]

example : stack exA = exQ * exR ∧ exQᵀ * exQ = 1 := by
  constructor
  · ext p j
    obtain ⟨a, s⟩ := p
    rw [Matrix.mul_apply, Fin.sum_univ_two]
    fin_cases a <;> fin_cases j <;> norm_num [stack, exA, exQ, exR]
  · ext i j
    rw [Matrix.mul_apply, Fintype.sum_prod_type, Fin.sum_univ_two]
    fin_cases i <;> fin_cases j <;> norm_num [exQ, Matrix.one_apply]

example (B : Fin 2 → Matrix (Fin 2) (Fin 1) ℝ) (hfac : stack exA = exQ * exR) (hiso : exQᵀ * exQ = 1) :
    LSweep (.cons exA (.cons B .nil)) (1 * 1) (.cons (unstack exQ) (.cons (fun t => exR * B t) .nil)) :=
  LSweep.step exA (.cons B .nil) exQ exR 1 1 _ (by rw [one_smul]; exact hfac) hiso (LSweep.last _)

/-! non-vacuity of the truncation theorems: the two-site chain `diag(2,1) · 1` truncated to bond 1 loses exactly `1` -/

noncomputable def exU : Matrix (Fin 2 × Fin 1) (Fin 2) ℝ := fun p j => if p.1 = j then 1 else 0
noncomputable def exσ : Fin 2 → ℝ := ![2, 1]
noncomputable def exD : Fin 1 → Matrix (Fin 2) (Fin 2) ℝ := fun _ => diagonal exσ
noncomputable def exB : Fin 1 → Matrix (Fin 2) (Fin 2) ℝ := fun _ => 1

example : exUᵀ * exU = 1 ∧ stack exD = (1 : ℝ) • (exU * diagonal exσ * (1 : Matrix (Fin 2) (Fin 2) ℝ)) ∧
    ∃ C' w, TSweep (.cons exD (.cons exB .nil)) (1 * 1) C' w ∧ w = 1 ∧
      (Chain.cons exD (.cons exB .nil)).TailRightCan := by
  have hU : exUᵀ * exU = 1 := by
    ext i j
    rw [Matrix.mul_apply, Fintype.sum_prod_type, Fin.sum_univ_two]
    fin_cases i <;> fin_cases j <;> simp [exU]
  have hfac : stack exD = (1 : ℝ) • (exU * diagonal exσ * (1 : Matrix (Fin 2) (Fin 2) ℝ)) := by
    rw [one_smul, Matrix.mul_one]
    ext p j
    obtain ⟨a, s⟩ := p
    rw [Matrix.mul_apply, Fin.sum_univ_two]
    fin_cases a <;> fin_cases j <;> simp [stack, exD, exU, exσ]
  have := TSweep.svd exD (.cons exB .nil) exU exσ 1 1 (Fin.castLE (by norm_num : 1 ≤ 2))
      (Fin.castLE_injective _) 1 _ 0 hfac hU (by simp) (TSweep.last _)
  refine ⟨hU, hfac, _, _, this, ?_, ?_⟩
  · simp [Fin.sum_univ_two, exσ]
  · exact ⟨by simp [IsRightIso, exB], trivial⟩

/-
STATED, NOT PROVED:

  model_link: that the step sequence of the code (QR iff `qr ∨ ¬mask[row]`, kept rank, zero shortcut — the shape
    model of Props/C12.lean) is a derivation of `LSweep` / `TSweep` is argued in the docstrings, not proved: the two
    models are separate.  The zero-state branch (`ln = 0` or a zero scalar) is covered by the shape model only.
  floating point: none of the above says anything about rounding: that LAPACK's factors satisfy the hypotheses to
    ~1e-15 and that residuals stay small through the sweep is observed by harness/qv/props/c12.py, not proved.
-/

end Qec.C12.Sweep
