/-
  C12 — the LINK between the two models of `left_canonical_form` / `right_canonical_form` / `truncate`:
  the shape / control-flow model (Model/MpsShape.lean; theorems in Props/C12.lean) is the SHADOW of the algebraic sweep
  (Lemmas/Sweep.lean `LSweep` / `TSweep`; theorems in Props/C12/Sweep.lean).

  * `shapeOf : Chain ds l r → List Shape` (Lemmas/SweepShape.lean) erases a real matrix chain to the shape model's input:
    site `A : Fin d → Matrix (Fin l) (Fin m) ℝ` ↦ `(N, E, S, W) = (l, d, m, 1)` (the code's `matrix` of that tensor is
    `(N·E·W) × S = (l·d) × m`, the `stack A` of the algebraic model).
  * `LSweep` / `TSweep` are `Prop`s (a derivation carries no data one could compute with), so "a derivation in which the
    kept ranks follow the code's rule, with the oracle lists read off it" is formalised as a derivation of the DECORATED
    relation `RSweep p mk row C nrm C' w orc tr` (Lemmas/SweepShape.lean): the same three rules as `TSweep`, each with
    the code's side conditions — QR step iff `p.qr || !mask[row]`; QR keeps `k = min(rows, cols)`, its scalar `c ≠ 0`
    is the oracle entry `Orc.qr c`; SVD has raw singular values `sig` (`sig[j] = c·σ_j`, `sig[0] = c ≠ 0`, oracle entry
    `Orc.svd sig`) and keeps the PREFIX of length `k = min(min(rows, cols), #keptSigmas chi tol sig)`, where at least
    one singular value is kept (`#keptSigmas ≠ 0`, hypothesis `hkept` of the SVD rule: since fix bea8d12 a step whose
    tol discards EVERY normalised singular value — tol ≥ 1 — is the code's zero exit, not a step with kept rank 0; up
    to then "kept rank ≥ 1" was implicit in the rule, the code raised IndexError there) — and with the oracle list
    `orc` and the trace `tr` as outputs.

  PROVED (all chain lengths, all bond and physical dimensions, all parameters):
  * `rsweep_is_tsweep`, `rsweep_is_lsweep` — forgetting the decorations gives a `TSweep` (an `LSweep` with discarded
    weight 0 when every step is QR), so every theorem of Props/C12/Sweep.lean applies to such a derivation.
  * `sweep_shadow` — the shape model's loop on `shapeOf C` with oracle `orc` returns `shapeOf C'`, trace `tr`, no zero
    flag, no error, and consumes exactly `orc` (plus the last-site norm when `normalise`).
  * `lcf_shadow` — the same for `left_canonical_form` on the `None`-padded list.
  * `rcf_shadow` — `right_canonical_form` is the shadow of the sweep of the REVERSED chain, reversed back.
  * `truncate_shadow` — `truncate` (non-shortcut branch): QR sweep with `normalise`, then truncating sweep of the
    reversed normalised chain: the model returns `shapeOf` of the reversed result, both traces, and the oracle
    `orc1 ++ [last ln] ++ orc2` is consumed exactly.
  * `truncate_linked` — for such a pair of derivations BOTH hold: the shape model's answer (above) and the algebraic
    contract `‖ψ_in − norm·ψ_out‖² = norm²·w`, `‖ψ_in‖ = norm` (`Sweep.truncate_contract`).
  * `qr_run_has_derivation` — converse, QR sweeps: for every run of the shape model's loop on `shapeOf C` that ends
    without zero flag there IS a derivation `RSweep` from `C` with exactly that oracle, trace and output shapes,
    GIVEN thin QR factorisations of the occurring shapes (`QRProvider`: every `(l·d) × m` matrix is `c • (Q R)` with
    `Q` of `min(l·d, m)` orthonormal columns, for the non-zero scalar `c` the oracle reports).

  NOW PROVED in Props/C12/Link2.lean (helpers Lemmas/SweepLink2.lean; this file is unchanged apart from this block):
  * `svd_run_has_derivation` — the converse for runs with SVD steps — `Link2.svd_run_has_derivation` (loop),
    `Link2.svd_lcf_run_has_derivation` (padded `lcf`), `Link2.svd_rcf_run_has_derivation` (`rcf`, through the reversal),
    `Link2.svd_truncate_run_has_derivation` (`truncate`, both sweeps).
    It is not a provider-style statement: the oracle's `sig` must BE the singular values of the matrix met at that step
    (which depends on the factors chosen before); the per-step hypothesis "the matrix met has an SVD whose values are
    the oracle's list" is threaded through the chain as the inductive predicate `SweepLink2.SvdCons` (for every choice
    of earlier factors), next to `QRProvider`.
  * zero branches — `SweepLink2.zeroChain` is `zeros_like` in the chain model and evaluates to `0 • ψ`
    (`Link2.zeros_like_represents_zero`, `zeros_like_eq_zero_smul`, `zero_flag_returns_zero_state`); derivations that END
    in a zero exit (`r_norm = 0`, `max_s = 0`, tol discards all — kept rank 0 —, `ln = 0`) are `SweepLink2.ZSweep`, their
    shadow is `zeros_like` + flag (`Link2.zero_exit_shadow`), and when nothing was discarded before the exit the state
    itself is 0 (`Link2.zero_exit_exact`, `zero_exit_exact_qr`).
  * E, W of an MPO — merging the physical legs (`SweepLink2.flat`) commutes with the loop, `lcf`, `rcf`, `truncate`
    (`Link2.mpo_sweep_flat`, `mpo_lcf_flat`, `mpo_truncate_flat`), so two MPOs with equal bonds and equal `E·W` have the
    same control flow (`Link2.mpo_same_control_flow`) and an MPO with `E·W = d` is the shadow of the same derivation
    (`Link2.mpo_lcf_shadow`).

  STATED, NOT PROVED:
  * that the oracle's `last ln` of `truncate` is the norm of the last site (`hnorm` of `truncate_linked`) is a numeric
    fact about the oracle, no consequence of a run of the shape model; see the header of Link2.lean.
  * `LSweep` / `TSweep` derivations with irrational scalars `c` have no oracle to read off (`Orc` holds rationals — the
    code's floats); `RSweep` asks `(rn : ℝ) = c`.  The shape model itself only tests `rn = 0`.
  * `QRProvider` itself (existence of a thin QR factorisation of every real matrix) and the existence part of `SvdCons`
    are hypotheses, not proved here.
-/
import QecVerif.Lemmas.SweepShape
import QecVerif.Props.C12
import QecVerif.Props.C12.Sweep
namespace Qec.C12.Link
open Matrix Qec.Sweep Qec.Sweep.Chain Qec.Mps Qec.MpsLemmas Qec.SweepShape

/-- a sweep that follows the code's rule is a truncating sweep of the algebraic model -/
theorem rsweep_is_tsweep {p : Params} {mk : ℕ → Bool} {ds : List ℕ} {l r : ℕ} {row : ℕ} {C C' : Chain ds l r}
    {nrm w : ℝ} {orc : List Orc} {tr : List Step} (h : RSweep p mk row C nrm C' w orc tr) :
    TSweep C nrm C' w ∧ nrm ≠ 0 :=
  ⟨h.toTSweep, h.nrm_ne_zero⟩

/-- … and an exact sweep, discarding nothing, when every step is a QR step (`qr=True` or all sites masked off) -/
theorem rsweep_is_lsweep {p : Params} {mk : ℕ → Bool} (hq : ∀ row, (p.qr || !(mk row)) = true) {ds : List ℕ}
    {l r : ℕ} {row : ℕ} {C C' : Chain ds l r} {nrm w : ℝ} {orc : List Orc} {tr : List Step}
    (h : RSweep p mk row C nrm C' w orc tr) : LSweep C nrm C' ∧ w = 0 :=
  ⟨h.toLSweep hq, h.weight_zero hq⟩

/-- **the shape model's loop is the shadow of the sweep.**  `fin` = the oracle entries read at the last site
    (`FinOk`: none, or with `normalise` the non-zero norm of the last tensor) -/
theorem sweep_shadow {p : Params} {mk : ℕ → Bool} {d : ℕ} {ds : List ℕ} {l r : ℕ} {row : ℕ}
    {C C' : Chain (d :: ds) l r} {nrm w : ℝ} {orc : List Orc} {tr : List Step}
    (h : RSweep p mk row C nrm C' w orc tr) (fin : List Orc) (hfin : FinOk p fin) (rest : List Orc) :
    ∃ cur more, shapeOf C = cur :: more ∧
      sweep p mk row cur more (orc ++ (fin ++ rest)) = .ok ⟨.done (shapeOf C'), tr, rest⟩ :=
  h.shadow fin hfin rest

/-- **`left_canonical_form` of the shape model is the shadow of the sweep**, on a list padded with `a` leading and `b`
    trailing `None`s (the sweep starts at position `a`): with the derivation's oracle the model returns the shapes of the
    swept chain in the same padding, zero flag off, the derivation's trace, and leaves exactly the unread entries -/
theorem lcf_shadow (p : Params) (a b : ℕ) {ds : List ℕ} {l r : ℕ} {C C' : Chain ds l r} {nrm w : ℝ}
    {orc : List Orc} {tr : List Step} (h : RSweep p (maskAt p.mask) a C nrm C' w orc tr) (fin : List Orc)
    (hfin : FinOk p fin) (rest : List Orc) (h1 : (p.chiOn && p.qr) = false) (h2 : (p.tolOn && p.qr) = false)
    (h3 : maskLenBad p.mask (List.replicate a none ++ ((shapeOf C).map some ++ List.replicate b none)) = false) :
    lcf p (List.replicate a none ++ ((shapeOf C).map some ++ List.replicate b none)) (orc ++ (fin ++ rest))
      = .ok ⟨List.replicate a none ++ ((shapeOf C').map some ++ List.replicate b none), false, tr, rest⟩ := by
  obtain ⟨cur, more, hsh, hsw⟩ := h.shadow fin hfin rest
  rw [hsh] at h3 ⊢
  exact lcf_padded p a b cur more _ _ (shapeOf C') h1 h2 h3 hsw rfl

/-- the unpadded case -/
theorem lcf_shadow_unpadded (p : Params) {ds : List ℕ} {l r : ℕ} {C C' : Chain ds l r} {nrm w : ℝ}
    {orc : List Orc} {tr : List Step} (h : RSweep p (maskAt p.mask) 0 C nrm C' w orc tr) (fin : List Orc)
    (hfin : FinOk p fin) (rest : List Orc) (h1 : (p.chiOn && p.qr) = false) (h2 : (p.tolOn && p.qr) = false)
    (h3 : maskLenBad p.mask ((shapeOf C).map some) = false) :
    lcf p ((shapeOf C).map some) (orc ++ (fin ++ rest)) = .ok ⟨(shapeOf C').map some, false, tr, rest⟩ := by
  have := lcf_shadow p 0 0 h fin hfin rest h1 h2 (by simpa using h3)
  simpa using this

/-- **`right_canonical_form` is the shadow of the sweep of the reversed chain**: a derivation from `C.reverse` (mask
    reversed, as the code does) to `C3` makes the model return the shapes of `C3.reverse`; the trace rows are re-indexed
    to the un-reversed positions -/
theorem rcf_shadow (p : Params) {ds : List ℕ} {l r : ℕ} {C : Chain ds l r} {C3 : Chain (Sweep.rev ds) r l}
    {nrm w : ℝ} {orc : List Orc} {tr : List Step}
    (h : RSweep { p with mask := p.mask.map List.reverse } (maskAt (p.mask.map List.reverse)) 0 C.reverse nrm C3 w
      orc tr) (fin : List Orc) (hfin : FinOk p fin) (rest : List Orc)
    (h1 : (p.chiOn && p.qr) = false) (h2 : (p.tolOn && p.qr) = false)
    (h3 : maskLenBad p.mask ((shapeOf C).map some) = false) :
    rcf p ((shapeOf C).map some) (orc ++ (fin ++ rest))
      = .ok ⟨(shapeOf C3.reverse).map some, false,
          tr.map fun s => { s with row := ((shapeOf C).map some).length - 1 - s.row }, rest⟩ := by
  have h3' : maskLenBad (p.mask.map List.reverse) ((shapeOf C.reverse).map some) = false := by
    rw [← rev_shapeOf]
    cases hm : p.mask with
    | none => rfl
    | some lm =>
      rw [hm] at h3
      simpa [maskLenBad, rev_length] using h3
  have := lcf_shadow_unpadded { p with mask := p.mask.map List.reverse } h fin hfin rest h1 h2 h3'
  unfold rcf
  rw [rev_shapeOf, this]
  simp only [rev_shapeOf]

/-- **`truncate` is the shadow of "QR sweep, normalise, truncating sweep of the reversed chain"** (its non-shortcut
    branch, `truncGuard = true`): the model returns the shapes of the reversed result of the second sweep, norm flag
    non-zero, both traces, and consumes exactly `orc1 ++ [last ln] ++ orc2` -/
theorem truncate_shadow (chi : Option ℕ) (tol : Option ℚ) (mask : Option (List Bool)) {ds : List ℕ} {l r : ℕ}
    {C C1 : Chain ds l r} {C3 : Chain (Sweep.rev ds) r l} {n1 w1 n2 w : ℝ} {orc1 orc2 : List Orc}
    {tr1 tr2 : List Step} (ln : ℚ) (hln : ln ≠ 0)
    (hg : truncGuard chi tol mask ((shapeOf C).map some) = true)
    (hm : maskLenBad mask ((shapeOf C).map some) = false)
    (hs1 : RSweep { qr := true, normalise := true } (maskAt none) 0 C n1 C1 w1 orc1 tr1)
    (hs2 : RSweep { chi := chi, tol := tol, mask := mask.map List.reverse } (maskAt (mask.map List.reverse)) 0
      (C1.scaleLast ((ln : ℝ))⁻¹).reverse n2 C3 w orc2 tr2) (rest : List Orc) :
    truncate chi tol mask ((shapeOf C).map some) (orc1 ++ ([.last ln] ++ (orc2 ++ rest)))
      = .ok ⟨(shapeOf C3.reverse).map some, false, false, tr1,
          tr2.map fun s => { s with row := ((shapeOf C).map some).length - 1 - s.row }, rest⟩ := by
  have e1 := lcf_shadow_unpadded { qr := true, normalise := true } hs1 [.last ln]
    (Or.inr ⟨rfl, ln, hln, rfl⟩) (orc2 ++ rest) rfl rfl rfl
  have hlen : ((shapeOf C1).map some).length = ((shapeOf C).map some).length := by
    rw [List.length_map, List.length_map, shapeOf_length, shapeOf_length]
  have hm1 : maskLenBad mask ((shapeOf (C1.scaleLast ((ln : ℝ))⁻¹)).map some) = false := by
    rw [shapeOf_scaleLast]
    cases mask with
    | none => rfl
    | some lm => simpa [maskLenBad, shapeOf_length] using hm
  have e2 := rcf_shadow { chi := chi, tol := tol, mask := mask } (C := C1.scaleLast ((ln : ℝ))⁻¹) hs2 []
    (Or.inl ⟨rfl, rfl⟩) rest (by simp [Params.chiOn, Bool.and_false]) (by simp [Params.tolOn, Bool.and_false]) hm1
  rw [shapeOf_scaleLast, List.nil_append, hlen] at e2
  unfold truncate
  rw [hg]
  simp only [Bool.not_true, Bool.false_eq_true, if_false, e1, e2]

/-- **both models at once** for `truncate`: for a pair of derivations that follow the code's rule (first sweep exact
    with `normalise`, `ln` = norm of its last site; second sweep = truncating sweep of the reversed normalised chain,
    its scalar absorbed into the last site, `O` = that chain reversed), the shape model returns the shapes of the
    result AND the algebraic contract of Props/C12/Sweep.lean holds: `‖ψ_in − norm·ψ_out‖² = norm²·w`, `‖ψ_in‖ = norm`
    with `norm = n1 · ln` -/
theorem truncate_linked (chi : Option ℕ) (tol : Option ℚ) (mask : Option (List Bool)) {d : ℕ} {ds : List ℕ}
    {l r : ℕ} {C C1 O : Chain (d :: ds) l r} {C3 : Chain (Sweep.rev (d :: ds)) r l} {n1 w1 n2 w : ℝ}
    {orc1 orc2 : List Orc} {tr1 tr2 : List Step} (ln : ℚ) (hln : ln ≠ 0)
    (hg : truncGuard chi tol mask ((shapeOf C).map some) = true)
    (hm : maskLenBad mask ((shapeOf C).map some) = false)
    (hs1 : RSweep { qr := true, normalise := true } (maskAt none) 0 C n1 C1 w1 orc1 tr1)
    (hnorm : (ln : ℝ) ^ 2 = C1.lastFrob2)
    (hs2 : RSweep { chi := chi, tol := tol, mask := mask.map List.reverse } (maskAt (mask.map List.reverse)) 0
      (C1.scaleLast ((ln : ℝ))⁻¹).reverse n2 C3 w orc2 tr2)
    (hO : ∀ c, (C3.scaleLast n2).eval c.reverse = (O.eval c)ᵀ) (rest : List Orc) :
    (∃ tr2', truncate chi tol mask ((shapeOf C).map some) (orc1 ++ ([.last ln] ++ (orc2 ++ rest)))
        = .ok ⟨(shapeOf C3.reverse).map some, false, false, tr1, tr2', rest⟩) ∧
      sumCfg (d :: ds) (fun c => frob2 (C.eval c - (n1 * (ln : ℝ)) • O.eval c)) = (n1 * (ln : ℝ)) ^ 2 * w ∧
      C.norm2 = (n1 * (ln : ℝ)) ^ 2 ∧ 0 ≤ w := by
  have hln' : (ln : ℝ) ≠ 0 := by exact_mod_cast hln
  have hL := (rsweep_is_lsweep (p := { qr := true, normalise := true }) (mk := maskAt none) (fun _ => rfl) hs1).1
  exact ⟨⟨_, truncate_shadow chi tol mask ln hln hg hm hs1 hs2 rest⟩,
    Sweep.truncate_contract hL hnorm hln' hs2.toTSweep hO⟩

/-- **converse, QR sweeps**: every run of the shape model's loop on the shapes of a chain `C` in which every step is
    a QR step and which ends without the zero flag is the shadow of a derivation from `C` — with the run's oracle
    entries, trace and output shapes — provided thin QR factorisations exist (`QRProvider`) -/
theorem qr_run_has_derivation (prov : QRProvider) (p : Params) (mk : ℕ → Bool)
    (hq : ∀ row, (p.qr || !(mk row)) = true) {ds : List ℕ} {l r : ℕ} (C : Chain ds l r) (row : ℕ) (cur : Shape)
    (more : List Shape) (orc : List Orc) (sr : SweepRes) (out : List Shape) (hsh : shapeOf C = cur :: more)
    (hrun : sweep p mk row cur more orc = .ok sr) (hflow : sr.flow = .done out) :
    ∃ (nrm w : ℝ) (C' : Chain ds l r) (orc' fin : List Orc), orc = orc' ++ (fin ++ sr.rest) ∧ FinOk p fin ∧
      RSweep p mk row C nrm C' w orc' sr.trace ∧ shapeOf C' = out ∧ LSweep C nrm C' :=
  by
    obtain ⟨nrm, w, C', orc', fin, h1, h2, h3, h4⟩ := exists_rsweep_of_run prov p mk hq C row cur more orc sr out hsh
      hrun hflow
    exact ⟨nrm, w, C', orc', fin, h1, h2, h3, h4, h3.toLSweep hq⟩

/-! ### non-vacuity
  (1) the two-site QR sweep of Props/C12/Sweep.lean (3-4-5 rotation) follows the code's rule with `qr=True`, oracle
      `[qr 1]`; the shape model run on its shapes with that oracle returns the shapes of the result;
  (2) an SVD step: the two-site chain `diag(2,1) · 1` with `chi = 1`: raw singular values `[2, 1]`, `c = max_s = 2`,
      normalised `σ = (1, 1/2)`, kept rank `min(min(2, 2), #[2]) = 1`. -/

example (B : Fin 2 → Matrix (Fin 2) (Fin 1) ℝ) :
    RSweep { qr := true } (maskAt none) 0 (.cons Sweep.exA (.cons B .nil)) (1 * 1)
      (.cons (unstack Sweep.exQ) (.cons (fun t => Sweep.exR * B t) .nil)) (1 ^ 2 * 0) [.qr 1]
      [⟨0, true, 2 * 1 * 1, 2, some 2⟩] := by
  have hfac : stack Sweep.exA = Sweep.exQ * Sweep.exR := by
    ext p j
    obtain ⟨a, s⟩ := p
    rw [Matrix.mul_apply, Fin.sum_univ_two]
    fin_cases a <;> fin_cases j <;> norm_num [stack, Sweep.exA, Sweep.exQ, Sweep.exR]
  have hiso : Sweep.exQᵀ * Sweep.exQ = 1 := by
    ext i j
    rw [Matrix.mul_apply, Fintype.sum_prod_type, Fin.sum_univ_two]
    fin_cases i <;> fin_cases j <;> norm_num [Sweep.exQ, Matrix.one_apply]
  exact RSweep.qr 0 Sweep.exA (.cons B .nil) Sweep.exQ Sweep.exR 1 1 _ 0 1 [] [] rfl (by decide) (by norm_num)
    one_ne_zero (by rw [one_smul]; exact hfac) hiso (RSweep.last 1 _)

example : (lcf { qr := true } [some ⟨2, 1, 2, 1⟩, some ⟨2, 2, 1, 1⟩] [.qr 1]).toOption.map (·.tensors)
    = some [some ⟨2, 1, 2, 1⟩, some ⟨2, 2, 1, 1⟩] := by rfl

noncomputable def exσ' : Fin 2 → ℝ := ![1, 1 / 2]

example : ∃ C' w, RSweep { chi := some 1 } (maskAt none) 0 (.cons Sweep.exD (.cons Sweep.exB .nil)) (2 * 1) C' w
    [.svd [2, 1]] [⟨0, false, 2 * 1 * 1, 2, some 1⟩] := by
  have hU : Sweep.exUᵀ * Sweep.exU = 1 := by
    ext i j
    rw [Matrix.mul_apply, Fintype.sum_prod_type, Fin.sum_univ_two]
    fin_cases i <;> fin_cases j <;> simp [Sweep.exU]
  have hfac : stack Sweep.exD = (2 : ℝ) • (Sweep.exU * diagonal exσ' * (1 : Matrix (Fin 2) (Fin 2) ℝ)) := by
    rw [Matrix.mul_one]
    ext p j
    obtain ⟨a, s⟩ := p
    rw [Matrix.smul_apply, Matrix.mul_apply, Fin.sum_univ_two]
    fin_cases a <;> fin_cases j <;> simp [stack, Sweep.exD, Sweep.exU, Sweep.exσ, exσ']
  have hsig : ∀ j : Fin 2, ((([2, 1] : List ℚ).getD j 0 : ℚ) : ℝ) = 2 * exσ' j := by
    intro j; fin_cases j <;> simp [exσ']
  exact ⟨_, _, RSweep.svd 0 Sweep.exD (.cons Sweep.exB .nil) Sweep.exU exσ' 1 2 (by norm_num : 1 ≤ 2) 1 _ 0 [2, 1] []
    [] rfl rfl hsig (by norm_num) (by norm_num) (by rfl) (by decide) hfac hU (by simp) (RSweep.last 1 _)⟩

example : (lcf { chi := some 1 } [some ⟨2, 1, 2, 1⟩, some ⟨2, 1, 2, 1⟩] [.svd [2, 1]]).toOption.map (·.tensors)
    = some [some ⟨2, 1, 1, 1⟩, some ⟨1, 1, 2, 1⟩] := by rfl

end Qec.C12.Link
