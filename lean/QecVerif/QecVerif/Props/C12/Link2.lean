/-
  C12 — second part of the LINK between the shape / control-flow model (Model/MpsShape.lean) and the algebraic chain
  model (Lemmas/Sweep.lean): the three statements Props/C12/Link.lean listed under `STATED, NOT PROVED`.
  Helpers: Lemmas/SweepLink2.lean.

  A. ZERO BRANCHES.  `zeroChain ds` is `zeros_like` in the chain model (all sites zero, all bonds 1).  A derivation that
     follows the code's rule and ENDS IN ONE OF THE CODE'S ZERO EXITS is a `ZSweep` (exits: `r_norm = 0`, `max_s = 0`,
     tol discards every singular value — kept rank 0 —, `last_row_norm = 0`).
  B. E, W OF AN MPO.  `flat` merges the physical legs (E, W) into one leg of dimension E·W; the shape model commutes
     with it, so its control flow sees E·W only, and an MPO whose merged shapes are `shapeOf C` is covered by the
     shadow theorems of Link.lean.
  C. CONVERSE FOR RUNS WITH SVD STEPS: every zero-free run of the model (loop, `left_canonical_form`,
     `right_canonical_form`) on the shapes of a chain is the shadow of a derivation, given `QRProvider` and the per-step
     hypothesis `SvdCons` ("the matrix met at every SVD step has an SVD whose values are the oracle's list").

     `svd_truncate_run_has_derivation` does the same for `truncate` (both sweeps; `SvdCons` for the second sweep is asked
     for every result of the first, which is only obtained existentially).

  STATED, NOT PROVED:
  * that the oracle's `last ln` of `truncate` IS the norm of the last site (`ln² = C1.lastFrob2`, hypothesis `hnorm` of
    `Link.truncate_linked`) is a numeric fact about the oracle, not a consequence of the run: it stays a hypothesis of
    the contract, the converse delivers the two derivations it is about.
  * `QRProvider` and the existence part of `SvdCons` (LAPACK's factorisations exist) remain hypotheses; that the
    singular values met are INDEPENDENT of the earlier factor choices (`RᵀR` is determined by the matrix), which would
    reduce `SvdCons` to one chosen path, is not proved.
-/
import QecVerif.Lemmas.SweepLink2
import QecVerif.Props.C12.Link
namespace Qec.C12.Link2
open Matrix Qec.Sweep Qec.Sweep.Chain Qec.Mps Qec.MpsLemmas Qec.SweepShape Qec.SweepLink2

/-! ### A. zero branches -/

/-- **`zeros_like` represents `0 • ψ`**: the model's `zeros_like` of the shapes of ANY chain `C` is the shape list of
    the chain `zeroChain` (zero site families, every bond 1, physical dimensions kept), and that chain evaluates to
    the zero tensor, i.e. to `0 • ψ` for the state `ψ` of `C` — entrywise for arbitrary boundary bonds (`zeros_like`
    sets the boundary bonds to 1 too) -/
theorem zeros_like_represents_zero {d : ℕ} {ds : List ℕ} {l r : ℕ} (C : Chain (d :: ds) l r) :
    zerosLike ((shapeOf C).map some) = (shapeOf (zeroChain (d :: ds))).map some ∧
      (∀ c, (zeroChain (d :: ds)).eval c = 0) ∧
      (∀ c i j i' j', (zeroChain (d :: ds)).eval c i j = ((0 : ℝ) • C.eval c) i' j') := by
  refine ⟨?_, fun c => eval_zeroChain c, fun c i j i' j' => ?_⟩
  · rw [shapeOf_zeroChain C]
    simp [zerosLike]
  · rw [eval_zeroChain c, zero_smul]; rfl

/-- … as an equation between states when the boundary bonds are 1 (an MPS / MPO as qecsim builds them) -/
theorem zeros_like_eq_zero_smul {d : ℕ} {ds : List ℕ} (C : Chain (d :: ds) 1 1) (c : Cfg (d :: ds)) :
    (zeroChain (d :: ds)).eval c = (0 : ℝ) • C.eval c := by
  rw [eval_zeroChain c, zero_smul]

/-- **every run of the model's `left_canonical_form` that raises the zero flag returns a representation of `0 • ψ`**
    (whatever the oracle; padded with `a` leading / `b` trailing `None`s): the tensors are the shapes of `zeroChain` in
    the same padding, whose state is `0 • ψ` -/
theorem zero_flag_returns_zero_state (p : Params) (a b : ℕ) {d : ℕ} {ds : List ℕ} (C : Chain (d :: ds) 1 1)
    (orc : List Orc) (res : Res)
    (hrun : lcf p (List.replicate a none ++ ((shapeOf C).map some ++ List.replicate b none)) orc = .ok res)
    (hz : res.zero = true) :
    res.tensors = List.replicate a none ++ ((shapeOf (zeroChain (d :: ds))).map some ++ List.replicate b none) ∧
      ∀ c, (zeroChain (d :: ds)).eval c = (0 : ℝ) • C.eval c := by
  refine ⟨?_, zeros_like_eq_zero_smul C⟩
  rw [(Qec.C12.zero_gives_zeros p _ orc res hrun).1 hz, zerosLike_padded, shapeOf_zeroChain C]

/-- **shadow of a zero-exit derivation**: for a derivation from `C` that follows the code's rule and ends in one of
    its zero exits, the model's `left_canonical_form` returns `zeros_like` (= the shapes of `zeroChain`), zero flag ON,
    the derivation's trace (whose last step has `kept = none`), and reads nothing after the exit -/
theorem zero_exit_shadow (p : Params) (a b : ℕ) {ds : List ℕ} {l r : ℕ} {C : Chain ds l r} {ex : Bool}
    {orc : List Orc} {tr : List Step} (h : ZSweep p (maskAt p.mask) a C ex orc tr) (rest : List Orc)
    (h1 : (p.chiOn && p.qr) = false) (h2 : (p.tolOn && p.qr) = false)
    (h3 : maskLenBad p.mask (List.replicate a none ++ ((shapeOf C).map some ++ List.replicate b none)) = false) :
    lcf p (List.replicate a none ++ ((shapeOf C).map some ++ List.replicate b none)) (orc ++ rest)
      = .ok ⟨List.replicate a none ++ ((shapeOf (zeroChain ds)).map some ++ List.replicate b none), true, tr, rest⟩ := by
  obtain ⟨cur, more, hsh, hsw⟩ := h.shadow rest
  rw [shapeOf_zeroChain C]
  rw [hsh] at h3 ⊢
  exact lcf_padded_zero p a b cur more _ _ h1 h2 h3 hsw rfl

/-- **a zero exit that discarded nothing is exact**: if the derivation ends in `r_norm = 0`, `max_s = 0` (all singular
    values 0, LAPACK's descending order) or `last_row_norm = 0` and no SVD step before it discarded a singular triple,
    then the state itself is zero: `ψ = 0 = 0 • zeros`, so `(zeros_like, norm 0)` is the exact canonical form.
    (The remaining exit — tol discards every normalised singular value, kept rank 0 — and exits after a truncating step
    return `0 • ψ` for a `ψ` that need not vanish: `zero_flag_returns_zero_state`.) -/
theorem zero_exit_exact {p : Params} {mk : ℕ → Bool} {ds : List ℕ} {l r : ℕ} {row : ℕ} {C : Chain ds l r}
    {orc : List Orc} {tr : List Step} (h : ZSweep p mk row C true orc tr) : ∀ c, C.eval c = 0 :=
  h.state_zero rfl

/-- … in particular for every all-QR sweep (`qr=True`, or all sites masked off), e.g. the first sweep of `truncate`:
    there the zero flag (norm 0) is raised only for the zero state -/
theorem zero_exit_exact_qr {p : Params} {mk : ℕ → Bool} (hq : ∀ row, (p.qr || !(mk row)) = true) {ds : List ℕ}
    {l r : ℕ} {row : ℕ} {C : Chain ds l r} {ex : Bool} {orc : List Orc} {tr : List Step}
    (h : ZSweep p mk row C ex orc tr) : ∀ c, C.eval c = 0 :=
  h.state_zero (h.exact_of_qr hq)

/-! non-vacuity: the two-site chain with a zero first site, `qr=True`: the R factor is 0, the oracle reads `qr 0`;
    the model run on its shapes returns `zeros_like` and the flag -/

example (B : Fin 2 → Matrix (Fin 2) (Fin 1) ℝ) :
    ZSweep { qr := true } (maskAt none) 0
      (.cons (fun _ : Fin 1 => (0 : Matrix (Fin 2) (Fin 2) ℝ)) (.cons B .nil)) true [.qr 0]
      [⟨0, true, 2 * 1 * 1, 2, none⟩] :=
  ZSweep.qrZero 0 _ _ (0 : Matrix (Fin 2 × Fin 1) (Fin 2) ℝ) (0 : Matrix (Fin 2) (Fin 2) ℝ) rfl
    (by ext p j; simp [stack]) frob2_zero

example : (lcf { qr := true } [some ⟨2, 1, 2, 1⟩, some ⟨2, 2, 1, 1⟩] [.qr 0]).toOption.map
    (fun r => (r.tensors, r.zero)) = some ([some ⟨1, 1, 1, 1⟩, some ⟨1, 2, 1, 1⟩], true) := by rfl

/-- a `tolZero` exit (inexact): singular values `[2, 1]`, tol = 1: no normalised value exceeds 1 -/
example (A : Fin 1 → Matrix (Fin 2) (Fin 2) ℝ) (B : Fin 2 → Matrix (Fin 2) (Fin 1) ℝ) :
    ZSweep { tol := some 1 } (maskAt none) 0 (.cons A (.cons B .nil)) false [.svd [2, 1]]
      [⟨0, false, 2 * 1 * 1, 2, none⟩] :=
  ZSweep.tolZero 0 A _ [2, 1] rfl (by decide) (by norm_num [keptSigmas])

/-! ### B. E, W of an MPO -/

/-- **the model's loop sees `E·W` only**: merging the physical legs of every tensor (`flat`: `(N, E, S, W) ↦
    (N, E·W, S, 1)`) commutes with the loop — same error, same zero flag, same trace (rows `N·E·W`, cols, kept ranks),
    same oracle consumption; the output shapes are the merged output shapes -/
theorem mpo_sweep_flat (p : Params) (mk : ℕ → Bool) (more : List Shape) (row : ℕ) (cur : Shape) (orc : List Orc) :
    sweep p mk row (flat cur) (more.map flat) orc = (sweep p mk row cur more orc).map flatSweepRes :=
  sweep_flat p mk more row cur orc

/-- the same for `left_canonical_form`, `right_canonical_form` and `truncate` (sparse lists included) -/
theorem mpo_lcf_flat (p : Params) (m : Mps) (orc : List Orc) :
    lcf p (m.map (Option.map flat)) orc = (lcf p m orc).map flatRes ∧
      rcf p (m.map (Option.map flat)) orc = (rcf p m orc).map flatRes :=
  ⟨lcf_flat p m orc, rcf_flat p m orc⟩

theorem mpo_truncate_flat (chi : Option ℕ) (tol : Option ℚ) (mask : Option (List Bool)) (m : Mps) (orc : List Orc) :
    truncate chi tol mask (m.map (Option.map flat)) orc = (truncate chi tol mask m orc).map flatTruncRes :=
  truncate_flat chi tol mask m orc

/-- **two MPOs with the same bonds and the same products `E·W` have the same control flow**: same error or, on
    success, the same zero flag, trace and unread oracle entries, and output tensors that agree after merging -/
theorem mpo_same_control_flow (p : Params) (m m' : Mps) (orc : List Orc)
    (h : m.map (Option.map flat) = m'.map (Option.map flat)) :
    (lcf p m orc).map flatRes = (lcf p m' orc).map flatRes ∧
      (rcf p m orc).map flatRes = (rcf p m' orc).map flatRes ∧
      ∀ chi tol mask, (truncate chi tol mask m orc).map flatTruncRes = (truncate chi tol mask m' orc).map flatTruncRes := by
  refine ⟨?_, ?_, fun chi tol mask => ?_⟩
  · rw [← lcf_flat, ← lcf_flat, h]
  · rw [← rcf_flat, ← rcf_flat, h]
  · rw [← truncate_flat, ← truncate_flat, h]

/-- **an MPO with `E·W = d` is the shadow of the same derivation**: if the merged shapes of the tensor list `m` are
    `shapeOf C` (bonds of `C`, `E·W` = the physical dimension), then for a derivation `C ⟶ C'` that follows the code's
    rule the model's `left_canonical_form` on `m` succeeds with zero flag off, the derivation's trace, exactly the
    derivation's oracle consumed, and output tensors whose merged shapes are `shapeOf C'` -/
theorem mpo_lcf_shadow (p : Params) {ds : List ℕ} {l r : ℕ} {C C' : Chain ds l r} {nrm w : ℝ}
    {orc : List Orc} {tr : List Step} (m : List Shape) (hm : m.map flat = shapeOf C)
    (h : RSweep p (maskAt p.mask) 0 C nrm C' w orc tr) (fin : List Orc)
    (hfin : FinOk p fin) (rest : List Orc) (h1 : (p.chiOn && p.qr) = false) (h2 : (p.tolOn && p.qr) = false)
    (h3 : maskLenBad p.mask (m.map some) = false) :
    ∃ res, lcf p (m.map some) (orc ++ (fin ++ rest)) = .ok res ∧
      res.tensors.map (Option.map flat) = (shapeOf C').map some ∧ res.zero = false ∧ res.trace = tr ∧
      res.rest = rest := by
  have h3' : maskLenBad p.mask ((shapeOf C).map some) = false := by
    rw [← hm]
    cases hmask : p.mask with
    | none => rfl
    | some lm => rw [hmask] at h3; simpa [maskLenBad] using h3
  have e := Qec.C12.Link.lcf_shadow_unpadded p h fin hfin rest h1 h2 h3'
  have hmm : (m.map some).map (Option.map flat) = (shapeOf C).map some := by
    rw [← hm, List.map_map, List.map_map]; rfl
  rw [← hmm, lcf_flat] at e
  cases hl : lcf p (m.map some) (orc ++ (fin ++ rest)) with
  | error err => rw [hl] at e; cases e
  | ok res =>
    rw [hl] at e
    simp only [Except.map, flatRes, Except.ok.injEq] at e
    refine ⟨res, rfl, ?_, ?_, ?_, ?_⟩
    · exact congrArg Res.tensors e
    · exact congrArg Res.zero e
    · exact congrArg Res.trace e
    · exact congrArg Res.rest e

/-! non-vacuity: the MPO shapes `(2,1,2,1), (2,1,1,2)` merge to the shapes of the two-site chain of Link.lean
    (`d = 1, 2`); two splittings of `E·W = 4` run identically -/

example (B : Fin 2 → Matrix (Fin 2) (Fin 1) ℝ) :
    ([⟨2, 1, 2, 1⟩, ⟨2, 1, 1, 2⟩] : List Shape).map flat = shapeOf (.cons Sweep.exA (.cons B .nil)) := rfl

example : ([some ⟨1, 2, 2, 2⟩, some ⟨2, 4, 1, 1⟩] : Mps).map (Option.map flat)
    = ([some ⟨1, 4, 2, 1⟩, some ⟨2, 1, 1, 4⟩] : Mps).map (Option.map flat) := rfl

example : (lcf {} [some ⟨1, 2, 2, 2⟩, some ⟨2, 4, 1, 1⟩] [.svd [3, 1]]).toOption.map (·.trace)
    = (lcf {} [some ⟨1, 4, 2, 1⟩, some ⟨2, 1, 1, 4⟩] [.svd [3, 1]]).toOption.map (·.trace) := by rfl

/-! ### C. converse for runs with SVD steps

  `SvdCons p mk row C orc` (Lemmas/SweepLink2.lean) is the per-step hypothesis threaded through the chain: at every
  oracle entry `svd sig` the matrix met — WHATEVER factors were chosen at the steps before — has an SVD whose values are
  `sig` (`IsSvd`), and this continues to hold after the step for every such SVD (with the kept rank the code computes)
  and after a QR step for every thin QR factorisation with the oracle's scalar.  It asks nothing about kept ranks,
  shapes, the trace or how many entries are read: those come from the run. -/

/-- **converse, runs with SVD steps** (generalises `Link.qr_run_has_derivation`): every run of the shape model's loop
    on the shapes of a chain `C` that ends without the zero flag is the shadow of a derivation from `C` that follows
    the code's rule — with exactly the run's oracle entries, trace and output shapes —, hence a truncating sweep of the
    algebraic model with non-zero norm, GIVEN thin QR factorisations (`QRProvider`) and that at every SVD step the
    matrix met has an SVD whose values are the oracle's list (`SvdCons`) -/
theorem svd_run_has_derivation (prov : QRProvider) (p : Params) (mk : ℕ → Bool) {ds : List ℕ} {l r : ℕ}
    (C : Chain ds l r) (row : ℕ) (cur : Shape) (more : List Shape) (orc : List Orc) (sr : SweepRes)
    (out : List Shape) (hsh : shapeOf C = cur :: more) (hrun : sweep p mk row cur more orc = .ok sr)
    (hflow : sr.flow = .done out) (hcons : SvdCons p mk row C orc) :
    ∃ (nrm w : ℝ) (C' : Chain ds l r) (orc' fin : List Orc), orc = orc' ++ (fin ++ sr.rest) ∧ FinOk p fin ∧
      RSweep p mk row C nrm C' w orc' sr.trace ∧ shapeOf C' = out ∧ TSweep C nrm C' w ∧ nrm ≠ 0 := by
  obtain ⟨nrm, w, C', orc', fin, h1, h2, h3, h4⟩ :=
    exists_rsweep_of_svd_run prov p mk C row cur more orc sr out hsh hrun hflow hcons
  exact ⟨nrm, w, C', orc', fin, h1, h2, h3, h4, h3.toTSweep, h3.nrm_ne_zero⟩

/-- **the same for `left_canonical_form`** on a list padded with `a` leading and `b` trailing `None`s: a successful run
    without the zero flag returns the padded shapes of the result `C'` of a derivation with the run's trace and oracle -/
theorem svd_lcf_run_has_derivation (prov : QRProvider) (p : Params) (a b : ℕ) {ds : List ℕ} {l r : ℕ}
    (C : Chain ds l r) (hne : ds ≠ []) (orc : List Orc) (res : Res)
    (hrun : lcf p (List.replicate a none ++ ((shapeOf C).map some ++ List.replicate b none)) orc = .ok res)
    (hz : res.zero = false) (hcons : SvdCons p (maskAt p.mask) a C orc) :
    ∃ (nrm w : ℝ) (C' : Chain ds l r) (orc' fin : List Orc), orc = orc' ++ (fin ++ res.rest) ∧ FinOk p fin ∧
      RSweep p (maskAt p.mask) a C nrm C' w orc' res.trace ∧
      res.tensors = List.replicate a none ++ ((shapeOf C').map some ++ List.replicate b none) ∧
      TSweep C nrm C' w ∧ nrm ≠ 0 := by
  obtain ⟨cur, more, hsh⟩ := shapeOf_ne_nil C hne
  rw [hsh] at hrun
  obtain ⟨sr, hsw, ⟨_, hz'⟩ | ⟨out, hf, rfl⟩⟩ := lcf_padded_inv p a b cur more orc res hrun
  · rw [hz] at hz'; cases hz'
  · obtain ⟨nrm, w, C', orc', fin, h1, h2, h3, h4, h5, h6⟩ :=
      svd_run_has_derivation prov p (maskAt p.mask) C a cur more orc sr out hsh hsw hf hcons
    exact ⟨nrm, w, C', orc', fin, h1, h2, h3, by rw [h4], h5, h6⟩

/-- **… and for `right_canonical_form`, through the reversal**: a successful run without the zero flag on the shapes of
    `C` is the shadow of a derivation from the REVERSED chain (mask reversed, as the code does) to some `C3`; the model
    returns the shapes of `C3.reverse` -/
theorem svd_rcf_run_has_derivation (prov : QRProvider) (p : Params) {ds : List ℕ} {l r : ℕ} (C : Chain ds l r)
    (hne : ds ≠ []) (orc : List Orc) (res : Res) (hrun : rcf p ((shapeOf C).map some) orc = .ok res)
    (hz : res.zero = false)
    (hcons : SvdCons { p with mask := p.mask.map List.reverse } (maskAt (p.mask.map List.reverse)) 0 C.reverse orc) :
    ∃ (nrm w : ℝ) (C3 : Chain (Sweep.rev ds) r l) (orc' fin : List Orc) (tr : List Step),
      orc = orc' ++ (fin ++ res.rest) ∧ FinOk p fin ∧
      RSweep { p with mask := p.mask.map List.reverse } (maskAt (p.mask.map List.reverse)) 0 C.reverse nrm C3 w orc'
        tr ∧
      res.trace = tr.map (fun s => { s with row := ((shapeOf C).map some).length - 1 - s.row }) ∧
      res.tensors = (shapeOf C3.reverse).map some ∧ TSweep C.reverse nrm C3 w ∧ nrm ≠ 0 := by
  have hne' : Sweep.rev ds ≠ [] := by
    cases ds with
    | nil => exact absurd rfl hne
    | cons d ds => exact rev_cons_ne_nil d ds
  unfold rcf at hrun
  rw [rev_shapeOf] at hrun
  cases hl : lcf { p with mask := p.mask.map List.reverse } ((shapeOf C.reverse).map some) orc with
  | error e => rw [hl] at hrun; cases hrun
  | ok r1 =>
    rw [hl] at hrun
    simp only [Except.ok.injEq] at hrun
    subst hrun
    have hl' : lcf { p with mask := p.mask.map List.reverse }
        (List.replicate 0 none ++ ((shapeOf C.reverse).map some ++ List.replicate 0 none)) orc = .ok r1 := by
      simpa using hl
    obtain ⟨nrm, w, C3, orc', fin, h1, h2, h3, h4, h5, h6⟩ :=
      svd_lcf_run_has_derivation prov { p with mask := p.mask.map List.reverse } 0 0 C.reverse hne' orc r1 hl' hz
        hcons
    refine ⟨nrm, w, C3, orc', fin, r1.trace, h1, h2, h3, rfl, ?_, h5, h6⟩
    show Mps.rev r1.tensors = _
    rw [h4]
    simp only [List.replicate_zero, List.nil_append, List.append_nil]
    rw [rev_shapeOf]

/-- **converse for `truncate`** (non-shortcut branch, both sweeps): a run of the model's `truncate` on the shapes of `C`
    that does not return its input, whose first sweep raised no zero flag and whose second sweep's trace shows no zero
    exit, is the shadow of a PAIR of derivations as in `Link.truncate_shadow` — an all-QR normalising sweep `C ⟶ C1`
    (oracle `orc1`, then `last ln`, `ln ≠ 0`) and a sweep of the reversed normalised chain `(C1 / ln).reverse ⟶ C3`
    (oracle `orc2`) —, the model returns the shapes of `C3.reverse`.  Hypotheses: `QRProvider`, and `SvdCons` for the
    second sweep FOR EVERY result `C1` of a first sweep with the run's oracle and trace (the chain the second sweep
    starts from is only obtained existentially). -/
theorem svd_truncate_run_has_derivation (prov : QRProvider) (chi : Option ℕ) (tol : Option ℚ)
    (mask : Option (List Bool)) {ds : List ℕ} {l r : ℕ} (C : Chain ds l r) (hne : ds ≠ []) (orc : List Orc)
    (res : TruncRes) (hrun : truncate chi tol mask ((shapeOf C).map some) orc = .ok res)
    (hsame : res.same = false) (hz : res.zero = false) (hz2 : ∀ st ∈ res.trace2, st.kept ≠ none)
    (hcons : ∀ (C1 : Chain ds l r) (n1 w1 : ℝ) (orc1 orc2 : List Orc) (ln : ℚ),
      orc = orc1 ++ ([.last ln] ++ orc2) → ln ≠ 0 →
      RSweep { qr := true, normalise := true } (maskAt none) 0 C n1 C1 w1 orc1 res.trace1 →
      SvdCons { chi := chi, tol := tol, mask := mask.map List.reverse } (maskAt (mask.map List.reverse)) 0
        (C1.scaleLast ((ln : ℝ))⁻¹).reverse orc2) :
    ∃ (C1 : Chain ds l r) (C3 : Chain (Sweep.rev ds) r l) (n1 w1 n2 w : ℝ) (orc1 orc2 : List Orc) (ln : ℚ)
      (tr2 : List Step), orc = orc1 ++ ([.last ln] ++ (orc2 ++ res.rest)) ∧ ln ≠ 0 ∧
      RSweep { qr := true, normalise := true } (maskAt none) 0 C n1 C1 w1 orc1 res.trace1 ∧ LSweep C n1 C1 ∧
      RSweep { chi := chi, tol := tol, mask := mask.map List.reverse } (maskAt (mask.map List.reverse)) 0
        (C1.scaleLast ((ln : ℝ))⁻¹).reverse n2 C3 w orc2 tr2 ∧
      res.trace2 = tr2.map (fun s => { s with row := ((shapeOf C).map some).length - 1 - s.row }) ∧
      res.tensors = (shapeOf C3.reverse).map some := by
  have hg : truncGuard chi tol mask ((shapeOf C).map some) = true := by
    cases hg : truncGuard chi tol mask ((shapeOf C).map some) with
    | true => rfl
    | false =>
      rw [(Qec.C12.truncate_id_when_small chi tol mask _ orc).1 hg] at hrun
      cases hrun
      cases hsame
  unfold truncate at hrun
  rw [hg] at hrun
  simp only [Bool.not_true, Bool.false_eq_true, if_false] at hrun
  cases h1 : lcf { qr := true, normalise := true } ((shapeOf C).map some) orc with
  | error e => rw [h1] at hrun; cases hrun
  | ok r1 =>
    rw [h1] at hrun
    simp only at hrun
    cases h2 : rcf { chi := chi, tol := tol, mask := mask } r1.tensors r1.rest with
    | error e => rw [h2] at hrun; cases hrun
    | ok r2 =>
      rw [h2] at hrun
      simp only [Except.ok.injEq] at hrun
      subst hrun
      simp only at hz hz2 hcons ⊢
      obtain ⟨cur, more, hsh⟩ := shapeOf_ne_nil C hne
      have h1' : lcf { qr := true, normalise := true }
          (List.replicate 0 none ++ ((cur :: more).map some ++ List.replicate 0 none)) orc = .ok r1 := by
        rw [hsh] at h1; simpa using h1
      obtain ⟨sr, hsw, ⟨_, hz'⟩ | ⟨out, hf, rfl⟩⟩ := lcf_padded_inv _ 0 0 cur more orc r1 h1'
      · rw [hz] at hz'; cases hz'
      · obtain ⟨n1, w1, C1, orc1, fin, horc, hfin, hrs1, hout, hls⟩ :=
          Qec.C12.Link.qr_run_has_derivation prov { qr := true, normalise := true } (maskAt none) (fun _ => rfl) C 0
            cur more orc sr out hsh hsw hf
        rcases hfin with ⟨hn, _⟩ | ⟨_, ln, hln, rfl⟩
        · cases hn
        · simp only at h2 hcons hrs1
          have hcons' := hcons C1 n1 w1 orc1 sr.rest ln horc hln hrs1
          have h2' : rcf { chi := chi, tol := tol, mask := mask }
              ((shapeOf (C1.scaleLast ((ln : ℝ))⁻¹)).map some) sr.rest = .ok r2 := by
            rw [shapeOf_scaleLast, hout]
            simpa using h2
          have hz2' : r2.zero = false := by
            cases hzz : r2.zero with
            | false => rfl
            | true =>
              obtain ⟨st, hst, hk⟩ := rcf_zero_has_none (p := { chi := chi, tol := tol, mask := mask }) rfl h2' hzz
              exact absurd hk (hz2 st hst)
          obtain ⟨n2, w, C3, orc2, fin2, tr2, horc2, hfin2, hrs2, htr2, hten, _, _⟩ :=
            svd_rcf_run_has_derivation prov { chi := chi, tol := tol, mask := mask } (C1.scaleLast ((ln : ℝ))⁻¹) hne
              sr.rest r2 h2' hz2' hcons'
          rcases hfin2 with ⟨_, rfl⟩ | ⟨hn, _⟩
          · refine ⟨C1, C3, n1, w1, n2, w, orc1, orc2, ln, tr2, ?_, hln, hrs1, hls, hrs2, ?_, hten⟩
            · rw [horc, horc2]; simp
            · rw [htr2, shapeOf_scaleLast, List.length_map, List.length_map, shapeOf_length, shapeOf_length]
          · cases hn

/-! non-vacuity of `SvdCons`: the two-site chain `diag(2,1) · 1` of Link.lean with oracle `[svd [2, 1]]`: the first site
    has the SVD `U · diag(2,1) · 1` (normalised values `(1, 1/2)`), after the step the last site is reached; and the
    model's run on its shapes that the theorem speaks about (chi = 1) -/

example : SvdCons { chi := some 1 } (maskAt none) 0 (.cons Sweep.exD (.cons Sweep.exB .nil)) [.svd [2, 1]] := by
  have hU : Sweep.exUᵀ * Sweep.exU = 1 := by
    ext i j
    rw [Matrix.mul_apply, Fintype.sum_prod_type, Fin.sum_univ_two]
    fin_cases i <;> fin_cases j <;> simp [Sweep.exU]
  have hfac : stack Sweep.exD
      = (2 : ℝ) • (Sweep.exU * diagonal Qec.C12.Link.exσ' * (1 : Matrix (Fin 2) (Fin 2) ℝ)) := by
    rw [Matrix.mul_one]
    ext p j
    obtain ⟨a, s⟩ := p
    rw [Matrix.smul_apply, Matrix.mul_apply, Fin.sum_univ_two]
    fin_cases a <;> fin_cases j <;> simp [stack, Sweep.exD, Sweep.exU, Sweep.exσ, Qec.C12.Link.exσ']
  have hsig : ∀ j : Fin 2, ((([2, 1] : List ℚ).getD j 0 : ℚ) : ℝ) = 2 * Qec.C12.Link.exσ' j := by
    intro j; fin_cases j <;> simp [Qec.C12.Link.exσ']
  refine SvdCons.svd 0 Sweep.exD (.cons Sweep.exB .nil) [2, 1] []
    ⟨Sweep.exU, Qec.C12.Link.exσ', (1 : Matrix (Fin 2) (Fin 2) ℝ), ?_, ?_, hU, by simp⟩ ?_
  · intro j
    have := hsig j
    simpa using this
  · simpa using hfac
  · intro U σv W _ k hkn _
    exact SvdCons.last _ _ _

example : (sweep { chi := some 1 } (maskAt none) 0 ⟨2, 1, 2, 1⟩ [⟨2, 1, 2, 1⟩] [.svd [2, 1]]).toOption.map
    (fun sr => sr.trace) = some [⟨0, false, 2, 2, some 1⟩] := by rfl

/-- a run of the model's `truncate` meeting the run hypotheses of `svd_truncate_run_has_derivation` (input not
    returned, no zero flag in either sweep): chi = 1 on two sites with bond 2 -/
example : (truncate (some 1) none none [some ⟨2, 1, 2, 1⟩, some ⟨2, 1, 2, 1⟩] [.qr 1, .last 1, .svd [2, 1]]).toOption.map
    (fun r => (r.same, r.zero, r.trace2.map (·.kept), r.tensors))
      = some (false, false, [some 1], [some ⟨2, 1, 1, 1⟩, some ⟨1, 1, 2, 1⟩]) := by rfl

end Qec.C12.Link2
