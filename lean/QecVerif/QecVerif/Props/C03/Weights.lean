/-
  C03 (anchor "3-D (t,x,y) row/column matching graph with periodic time distance and edge pruning for p = 0 /
  q in {0,1} / infinite bias") and C13 (what the decoders hand to `gt.mwpm`) — the EDGE WEIGHTS of both
  symmetry-matching decoders.  Model: Model/SmwpmWeight.lean (tied to `_distance`, the three `_step_weight_*`,
  `_cluster_distance` and to the weights of the recorded `_graph` / `_graphs` / `_cluster_graph` dictionaries by
  harness/qv/c03_weights.py on every run).

  Theorems (all lattice sizes, all `T`, all nodes, all weight values):
  * `planar_graph_distance_defined`, `toric_graph_distance_defined` — THE PRUNING IS EXACTLY WHAT KEEPS `_distance`
    DEFINED: for every pair of nodes that passes the filters of `_add_edge` (`addEdgeOk` of Model/Smwpm.lean, with the
    flags determined by the same arguments), `_distance` returns a number: no step weight is requested outside its
    domain, the "should not happen" diagonal `ValueError` of the infinite-bias branch is unreachable.  Hypotheses:
    probabilities are given (not `None`, as `decode` / `decode_ftp` always pass them), `T ≥ 0`, and NOT (infinite bias
    with p = 1) — the property's domain is p ∈ [0, 1);
  * `infinite_bias_p_one_zero_division` — that last hypothesis is necessary: with infinite bias, p = 1 ≠ q, a parallel
    step requests `-log(p / (1 - p))`: ZeroDivisionError (observed on the real code, outside the stated domain);
  * `pruned_edges_would_raise_*` — conversely each filter is needed: a time step with q ∈ {0, 1}, a space step with
    p = 0, a diagonal step at infinite bias make `_distance` raise, so dropping a filter breaks graph construction;
  * `planar_steps_symm`, `toric_steps_symm`, `planar_distance_symm`, `toric_distance_symm` — the weight does not depend
    on the orientation in which `itertools.combinations` names the pair (so the reversed-duplicate rule of
    `SimpleGraph.add_edge`, C13, never has to choose between two different weights);
  * `steps_bounds_planar`, `steps_bounds_toric` — counts are non-negative, the periodic time distance is at most T/2
    (and the toric space counts at most half the lattice), the diagonal count is the box height;
  * `steps_zero_iff_planar`, `steps_zero_iff_toric` — all three counts vanish exactly for the same plaquette at the same
    time; `twin_distance_zero` — a virtual plaquette and its orthogonal twin are at distance 0 in every context;
  * `box_total`, `same_line_steps`, `infinite_bias_line_distance` — the box rule counts king moves (Chebyshev distance,
    plus one closing parallel step when a tall box has odd excess); on one line there is no diagonal step and at infinite
    bias with equal probabilities the edge weight is the taxi-cab distance along the line plus the periodic time distance;
  * `distance_nonneg` — non-negative step weights give non-negative edge weights; positive step
    weights give a positive weight between distinct nodes of one type;
  * `infinite_bias_equal_probabilities_integer` — the special case is the plain step count `parallel + time`;
  * `planar_cluster_distance_spec`, `toric_cluster_distance_spec`, `*_cluster_distance_symm`,
    `virtual_cluster_nodes_zero`, `cluster_distance_nonneg` — `_cluster_distance` is the minimum, attained, over all
    pairs of indices; symmetric; zero between virtual nodes before any cluster is inspected.

  STATED, NOT PROVED: that the step weights are the negative log-likelihood ratios of the corresponding elementary
  faults (floats, `math.log`: outside Lean; the harness recomputes the float expression), and that a minimum-weight
  matching under these weights is a most likely fault set (not claimed by C03).
-/
import QecVerif.Lemmas.SmwpmWeight
namespace Qec.C03.Weights
open Qec Qec.Smwpm Qec.Smwpm.Weight

/-! ## symmetry -/

theorem planar_steps_symm (R C T : Int) (a b : Node) : planarSteps R C T a b = planarSteps R C T b a := by
  unfold planarSteps
  by_cases h : a.2 = b.2
  · have h' : ¬ (a.2 ≠ b.2) := by simpa using h
    have h'' : ¬ (b.2 ≠ a.2) := by simpa using h.symm
    rw [if_neg h', if_neg h'']
    simp only [h, pdist_symm T a.1.1 b.1.1]
    cases b.2
    · simp only [Bool.false_eq_true, if_false, iabs_sub_comm a.1.2.1 b.1.2.1, iabs_sub_comm a.1.2.2 b.1.2.2]
    · simp only [if_true, iabs_sub_comm a.1.2.1 b.1.2.1, iabs_sub_comm a.1.2.2 b.1.2.2]
  · have h' : a.2 ≠ b.2 := h
    have h'' : b.2 ≠ a.2 := fun e => h e.symm
    rw [if_pos h', if_pos h'']
    by_cases e : a.1 = b.1
    · rw [e]
    · have e' : ¬ b.1 = a.1 := fun x => e x.symm
      simp [e, e']

theorem toric_steps_symm (R C T : Int) (a b : Node) : toricSteps R C T a b = toricSteps R C T b a := by
  unfold toricSteps
  by_cases h : a.2 = b.2
  · have h' : ¬ (a.2 ≠ b.2) := by simpa using h
    have h'' : ¬ (b.2 ≠ a.2) := by simpa using h.symm
    rw [if_neg h', if_neg h'']
    simp only [h, pdist_symm T a.1.1 b.1.1]
    cases b.2
    · simp only [Bool.false_eq_true, if_false, pdist_symm _ a.1.2.1 b.1.2.1, pdist_symm _ a.1.2.2 b.1.2.2]
    · simp only [if_true, pdist_symm _ a.1.2.1 b.1.2.1, pdist_symm _ a.1.2.2 b.1.2.2]
  · have h' : a.2 ≠ b.2 := h
    have h'' : b.2 ≠ a.2 := fun e => h e.symm
    rw [if_pos h', if_pos h'']

theorem planar_distance_symm (R C T : Int) (c : Ctx) (wt wp wd : Rat) (a b : Node) :
    planarDistance R C T c wt wp wd a b = planarDistance R C T c wt wp wd b a := by
  unfold planarDistance; rw [planar_steps_symm]

theorem toric_distance_symm (R C T : Int) (c : Ctx) (wt wp wd : Rat) (a b : Node) :
    toricDistance R C T c wt wp wd a b = toricDistance R C T c wt wp wd b a := by
  unfold toricDistance; rw [toric_steps_symm]

/-! ## the counts -/

/-- planar: counts are non-negative, `2·time ≤ T`, the diagonal count is the box height -/
theorem steps_bounds_planar (R C T : Int) (a b : Node) (s : Steps)
    (hta : 0 ≤ a.1.1 ∧ a.1.1 < T) (htb : 0 ≤ b.1.1 ∧ b.1.1 < T) (h : planarSteps R C T a b = .ok s) :
    0 ≤ s.time ∧ 2 * s.time ≤ T ∧ 0 ≤ s.par ∧ 0 ≤ s.diag := by
  unfold planarSteps at h
  split at h
  · split at h
    · injection h with h; subst h; simp; omega
    · cases h
  · injection h with h; subst h
    have hb := pdist_bounds T a.1.1 b.1.1 hta htb
    refine ⟨hb.1, hb.2.1, box_fst_nonneg _ _, ?_⟩
    simp only [box_snd]; exact iabs_nonneg _

/-- toric (all coordinates in range): additionally the space counts are at most half the lattice -/
theorem steps_bounds_toric (R C T : Int) (a b : Node) (s : Steps)
    (hta : 0 ≤ a.1.1 ∧ a.1.1 < T) (htb : 0 ≤ b.1.1 ∧ b.1.1 < T)
    (hax : 0 ≤ a.1.2.1 ∧ a.1.2.1 < C) (hbx : 0 ≤ b.1.2.1 ∧ b.1.2.1 < C)
    (hay : 0 ≤ a.1.2.2 ∧ a.1.2.2 < R) (hby : 0 ≤ b.1.2.2 ∧ b.1.2.2 < R)
    (h : toricSteps R C T a b = .ok s) :
    0 ≤ s.time ∧ 2 * s.time ≤ T ∧ 0 ≤ s.par ∧ 0 ≤ s.diag ∧ 2 * s.diag ≤ max R C := by
  unfold toricSteps at h
  split at h
  · cases h
  · injection h with h; subst h
    have hb := pdist_bounds T a.1.1 b.1.1 hta htb
    refine ⟨hb.1, hb.2.1, box_fst_nonneg _ _, ?_, ?_⟩
    · simp only [box_snd]
      cases a.2
      · simp; exact (pdist_bounds C _ _ hax hbx).1
      · simp; exact (pdist_bounds R _ _ hay hby).1
    · simp only [box_snd]
      cases a.2
      · simp; have := (pdist_bounds C _ _ hax hbx).2.1; omega
      · simp; have := (pdist_bounds R _ _ hay hby).2.1; omega

/-- planar, same type: all counts vanish exactly for the same `(t, x, y)` -/
theorem steps_zero_iff_planar (R C T : Int) (a b : Node) (s : Steps) (hty : a.2 = b.2)
    (hta : 0 ≤ a.1.1 ∧ a.1.1 < T) (htb : 0 ≤ b.1.1 ∧ b.1.1 < T) (h : planarSteps R C T a b = .ok s) :
    (s.time = 0 ∧ s.par = 0 ∧ s.diag = 0) ↔ a.1 = b.1 := by
  unfold planarSteps at h
  have h' : ¬ (a.2 ≠ b.2) := by simpa using hty
  rw [if_neg h'] at h
  injection h with h; subst h
  have hb := (pdist_bounds T a.1.1 b.1.1 hta htb).2.2
  simp only
  rw [hb, box_eq_zero _ _ (iabs_nonneg _) (iabs_nonneg _), iabs_eq_zero, iabs_eq_zero]
  rw [← hty]
  constructor
  · rintro ⟨h1, h2, h3⟩
    apply Prod.ext h1
    cases hr : a.2 <;> simp [hr] at h2 h3 <;> apply Prod.ext <;> omega
  · intro e; rw [e]; simp

/-- toric, same type, coordinates in range: all counts vanish exactly for the same `(t, x, y)` -/
theorem steps_zero_iff_toric (R C T : Int) (a b : Node) (s : Steps) (hty : a.2 = b.2)
    (hta : 0 ≤ a.1.1 ∧ a.1.1 < T) (htb : 0 ≤ b.1.1 ∧ b.1.1 < T)
    (hax : 0 ≤ a.1.2.1 ∧ a.1.2.1 < C) (hbx : 0 ≤ b.1.2.1 ∧ b.1.2.1 < C)
    (hay : 0 ≤ a.1.2.2 ∧ a.1.2.2 < R) (hby : 0 ≤ b.1.2.2 ∧ b.1.2.2 < R)
    (h : toricSteps R C T a b = .ok s) :
    (s.time = 0 ∧ s.par = 0 ∧ s.diag = 0) ↔ a.1 = b.1 := by
  unfold toricSteps at h
  have h' : ¬ (a.2 ≠ b.2) := by simpa using hty
  rw [if_neg h'] at h
  injection h with h; subst h
  have hb := (pdist_bounds T a.1.1 b.1.1 hta htb).2.2
  have hx := pdist_bounds C a.1.2.1 b.1.2.1 hax hbx
  have hy := pdist_bounds R a.1.2.2 b.1.2.2 hay hby
  simp only
  rw [hb]
  cases hr : a.2
  · simp only [Bool.false_eq_true, if_false]
    rw [box_eq_zero _ _ hy.1 hx.1, hx.2.2, hy.2.2]
    constructor
    · rintro ⟨h1, h2, h3⟩; exact Prod.ext h1 (Prod.ext h3 h2)
    · intro e; rw [e]; simp
  · simp only [if_true]
    rw [box_eq_zero _ _ hx.1 hy.1, hx.2.2, hy.2.2]
    constructor
    · rintro ⟨h1, h2, h3⟩; exact Prod.ext h1 (Prod.ext h2 h3)
    · intro e; rw [e]; simp

/-- `graph.add_edge(v_node, v_node_twin, 0)` agrees with `_distance`: a virtual plaquette and its orthogonal twin are
    at distance 0 in every context -/
theorem twin_distance_zero (R C T : Int) (c : Ctx) (wt wp wd : Rat) (v : Node)
    (hv : RotatedPlanar.isVirtualPlaquette R C v.1.2.1 v.1.2.2 = true) :
    planarDistance R C T c wt wp wd v (v.1, !v.2) = .ok 0 := by
  unfold planarDistance planarSteps
  have h1 : v.2 ≠ (v.1, !v.2).2 := by cases v.2 <;> simp
  rw [if_pos h1]
  simp only [hv, and_self, if_true]
  unfold distance
  cases c.etaNone && c.pEqQ <;> simp [Except.bind, addStep]

/-- **the box rule counts king moves**: the number of space steps (parallel + diagonal) between the corners of a
    `w × h` box is the Chebyshev distance `max w h`, plus one exactly when the box is taller than wide with `h - w` odd
    (a diagonal zig-zag along the line direction needs one closing parallel step) -/
theorem box_total (w h : Int) (hw : 0 ≤ w) (hh : 0 ≤ h) :
    (box w h).1 + (box w h).2 = (if w ≥ h then w else h + (h - w) % 2) ∧
    max w h ≤ (box w h).1 + (box w h).2 ∧ (box w h).1 + (box w h).2 ≤ max w h + 1 := by
  unfold box
  by_cases hwh : w ≥ h
  · simp only [hwh, if_true]; omega
  · simp only [hwh, if_false]; omega

/-- two nodes of one type on the SAME line (row nodes with equal y, column nodes with equal x — the only pairs joined at
    infinite bias): no diagonal step, the parallel count is the plain coordinate distance along the line -/
theorem same_line_steps (R C T : Int) (a b : Node) (hty : a.2 = b.2)
    (hline : if a.2 then a.1.2.2 = b.1.2.2 else a.1.2.1 = b.1.2.1) :
    planarSteps R C T a b =
      .ok ⟨pdist T a.1.1 b.1.1, iabs (if a.2 then a.1.2.1 - b.1.2.1 else a.1.2.2 - b.1.2.2), 0⟩ := by
  unfold planarSteps
  have h' : ¬ (a.2 ≠ b.2) := by simpa using hty
  rw [if_neg h']
  rw [← hty]
  cases hr : a.2
  · simp only [hr, Bool.false_eq_true, if_false] at hline ⊢
    rw [hline]
    have : iabs (b.1.2.1 - b.1.2.1) = 0 := by unfold iabs; split <;> omega
    rw [this, box_zero_height _ (iabs_nonneg _)]
  · simp only [hr, if_true] at hline ⊢
    rw [hline]
    have : iabs (b.1.2.2 - b.1.2.2) = 0 := by unfold iabs; split <;> omega
    rw [this, box_zero_height _ (iabs_nonneg _)]

/-! ## evaluation -/

/-- infinite bias with equal probabilities: the plain step count -/
theorem infinite_bias_equal_probabilities_integer (c : Ctx) (wt wp wd : Rat) (s : Steps)
    (he : c.etaNone = true) (hq : c.pEqQ = true) (hd : s.diag = 0) :
    distance c wt wp wd s = .ok ((s.par + s.time : Int) : Rat) := by
  unfold distance; simp [he, hq, hd]

/-- hence at infinite bias with equal probabilities the weight of an edge of the graph is the taxi-cab distance along
    the line plus the periodic time distance -/
theorem infinite_bias_line_distance (R C T : Int) (c : Ctx) (wt wp wd : Rat) (a b : Node) (hty : a.2 = b.2)
    (hline : if a.2 then a.1.2.2 = b.1.2.2 else a.1.2.1 = b.1.2.1) (he : c.etaNone = true) (hq : c.pEqQ = true) :
    planarDistance R C T c wt wp wd a b =
      .ok (((iabs (if a.2 then a.1.2.1 - b.1.2.1 else a.1.2.2 - b.1.2.2) + pdist T a.1.1 b.1.1 : Int)) : Rat) := by
  unfold planarDistance
  rw [same_line_steps R C T a b hty hline]
  exact infinite_bias_equal_probabilities_integer c wt wp wd _ he hq rfl

/-- the evaluation succeeds as soon as every NON-ZERO count has a defined step weight -/
theorem distance_defined (c : Ctx) (wt wp wd : Rat) (s : Steps)
    (hdi : c.etaNone = true → s.diag = 0)
    (ht : s.time ≠ 0 → c.q = .mid)
    (hp : s.par ≠ 0 → (c.p = .mid ∨ (c.p = .one ∧ c.etaNone = false)))
    (hd : s.diag ≠ 0 → (c.p = .mid ∨ c.p = .one)) :
    ∃ w, distance c wt wp wd s = .ok w := by
  unfold distance
  by_cases hb : (c.etaNone && c.pEqQ) = true
  · rw [if_pos hb]
    have he : c.etaNone = true := by simp at hb; exact hb.1
    simp [hdi he]
  · rw [if_neg hb]
    obtain ⟨w1, e1⟩ := addStep_ok 0 s.time (stepTime c wt) wt (fun h0 => by simp [stepTime, ht h0])
    obtain ⟨w2, e2⟩ := addStep_ok w1 s.par (stepPar c wp) wp (fun h0 => by
      rcases hp h0 with h | ⟨h, he⟩
      · simp [stepPar, h]
      · simp [stepPar, h, he])
    obtain ⟨w3, e3⟩ := addStep_ok w2 s.diag (stepDiag c wd) wd (fun h0 => by
      have hen : c.etaNone = false := by
        cases he : c.etaNone
        · rfl
        · exact absurd (hdi he) h0
      rcases hd h0 with h | h <;> simp [stepDiag, h, hen])
    exact ⟨w3, by rw [e1, e2, e3]⟩

/-! ## the pruning keeps `_distance` defined -/

/-- what `addEdgeOk` says, as propositions -/
theorem addEdgeOk_spec (fl : Flags) (a b : Node) (h : addEdgeOk fl a b = true) :
    a.2 = b.2 ∧ (fl.q01 = true → a.1.1 = b.1.1) ∧ (fl.pZero = true → sp a.1 = sp b.1) ∧
    (fl.etaNone = true → (if a.2 then a.1.2.2 = b.1.2.2 else a.1.2.1 = b.1.2.1)) := by
  unfold addEdgeOk at h
  simp only [Bool.and_eq_true, Bool.not_eq_true', Bool.and_eq_false_iff, beq_iff_eq, decide_eq_false_iff_not,
    Decidable.not_not] at h
  obtain ⟨⟨⟨h1, h2⟩, h3⟩, h4⟩ := h
  refine ⟨h1, ?_, ?_, ?_⟩
  · intro hq; rcases h2 with h | h
    · rw [hq] at h; cases h
    · exact h
  · intro hq; rcases h3 with h | h
    · rw [hq] at h; cases h
    · exact h
  · intro hq; rcases h4 with h | h
    · rw [hq] at h; cases h
    · cases hr : a.2 <;> simp [hr] at h ⊢ <;> exact h

/-- the hypotheses of `distance_defined` from the filters of `_add_edge`, given the counts' shape -/
theorem defined_of_pruned (c : Ctx) (wt wp wd : Rat) (s : Steps)
    (hp : c.p ≠ .none) (hq : c.q ≠ .none) (hdom : ¬ (c.etaNone = true ∧ c.p = .one))
    (h1 : (c.q = .zero ∨ c.q = .one) → s.time = 0)
    (h2 : c.p = .zero → s.par = 0 ∧ s.diag = 0)
    (h3 : c.etaNone = true → s.diag = 0) :
    ∃ w, distance c wt wp wd s = .ok w := by
  apply distance_defined c wt wp wd s h3
  · intro h0
    cases hc : c.q with
    | none => exact absurd hc hq
    | zero => exact absurd (h1 (Or.inl hc)) h0
    | one => exact absurd (h1 (Or.inr hc)) h0
    | mid => rfl
  · intro h0
    cases hc : c.p with
    | none => exact absurd hc hp
    | zero => exact absurd (h2 hc).1 h0
    | one =>
      right; refine ⟨rfl, ?_⟩
      cases he : c.etaNone
      · rfl
      · exact absurd ⟨he, hc⟩ hdom
    | mid => left; rfl
  · intro h0
    cases hc : c.p with
    | none => exact absurd hc hp
    | zero => exact absurd (h2 hc).2 h0
    | one => right; rfl
    | mid => left; rfl

/-- **rotated planar `_graph` never raises in `_distance`**: for every pair of nodes that passes the filters of
    `_add_edge` (flags determined by the same arguments), any lattice size, any `T ≥ 0`, any step-weight values -/
theorem planar_graph_distance_defined (R C T : Int) (c : Ctx) (wt wp wd : Rat) (a b : Node)
    (hT : 0 ≤ T) (hp : c.p ≠ .none) (hq : c.q ≠ .none) (hdom : ¬ (c.etaNone = true ∧ c.p = .one))
    (hok : addEdgeOk c.flags a b = true) :
    ∃ w, planarDistance R C T c wt wp wd a b = .ok w := by
  obtain ⟨hty, f1, f2, f3⟩ := addEdgeOk_spec _ _ _ hok
  unfold planarDistance planarSteps
  have h' : ¬ (a.2 ≠ b.2) := by simpa using hty
  rw [if_neg h']
  simp only [Except.bind]
  apply defined_of_pruned c wt wp wd _ hp hq hdom
  · intro hz
    have := f1 (by simp [Ctx.flags, hz])
    simp only [this]; exact pdist_self _ _ hT
  · intro hz
    have e := f2 (by simp [Ctx.flags, hz])
    have ex : a.1.2.1 = b.1.2.1 := congrArg Prod.fst e
    have ey : a.1.2.2 = b.1.2.2 := congrArg Prod.snd e
    simp only [← hty, ex, ey]
    cases a.2 <;> simp [box, iabs]
  · intro hz
    have e := f3 (by simp [Ctx.flags, hz])
    simp only [box_snd, ← hty]
    cases hr : a.2 <;> simp [hr] at e ⊢ <;> rw [e] <;> simp [iabs]

/-- **rotated toric `_graphs` never raises in `_distance`** (lattice dimensions non-negative) -/
theorem toric_graph_distance_defined (R C T : Int) (c : Ctx) (wt wp wd : Rat) (a b : Node)
    (hR : 0 ≤ R) (hC : 0 ≤ C) (hT : 0 ≤ T) (hp : c.p ≠ .none) (hq : c.q ≠ .none)
    (hdom : ¬ (c.etaNone = true ∧ c.p = .one)) (hok : addEdgeOk c.flags a b = true) :
    ∃ w, toricDistance R C T c wt wp wd a b = .ok w := by
  obtain ⟨hty, f1, f2, f3⟩ := addEdgeOk_spec _ _ _ hok
  unfold toricDistance toricSteps
  have h' : ¬ (a.2 ≠ b.2) := by simpa using hty
  rw [if_neg h']
  simp only [Except.bind]
  apply defined_of_pruned c wt wp wd _ hp hq hdom
  · intro hz
    have := f1 (by simp [Ctx.flags, hz])
    simp only [this]; exact pdist_self _ _ hT
  · intro hz
    have e := f2 (by simp [Ctx.flags, hz])
    have ex : a.1.2.1 = b.1.2.1 := congrArg Prod.fst e
    have ey : a.1.2.2 = b.1.2.2 := congrArg Prod.snd e
    simp only [ex, ey]
    cases a.2 <;> simp [pdist_self _ _ hR, pdist_self _ _ hC, box]
  · intro hz
    have e := f3 (by simp [Ctx.flags, hz])
    simp only [box_snd]
    cases hr : a.2 <;> simp [hr] at e ⊢ <;> rw [e]
    · exact pdist_self _ _ hC
    · exact pdist_self _ _ hR

/-- the domain hypothesis is necessary: infinite bias, p = 1 ≠ q, one parallel step, no time step: `p / (1 - p)`
    divides by zero -/
theorem infinite_bias_p_one_zero_division (c : Ctx) (wt wp wd : Rat) (s : Steps)
    (he : c.etaNone = true) (hp : c.p = .one) (hne : c.pEqQ = false) (ht : s.time = 0) (hpar : s.par ≠ 0) :
    distance c wt wp wd s = .error .zeroDiv := by
  unfold distance; simp [he, hne, addStep, ht, hpar, stepPar, hp]

/-- each filter is needed (1): a time step with q ∈ {0, 1} (or `None`) raises -/
theorem pruned_edges_would_raise_time (c : Ctx) (wt wp wd : Rat) (s : Steps)
    (hb : (c.etaNone && c.pEqQ) = false) (hq : c.q ≠ .mid) (ht : s.time ≠ 0) :
    distance c wt wp wd s = .error .timeW := by
  unfold distance; rw [hb]
  have : stepTime c wt = .error .timeW := by unfold stepTime; cases hc : c.q <;> simp_all
  simp [addStep, ht, this]

/-- each filter is needed (2): a space step with p = 0 raises (time weight defined or no time step) -/
theorem pruned_edges_would_raise_space (c : Ctx) (wt wp wd : Rat) (s : Steps)
    (hb : (c.etaNone && c.pEqQ) = false) (hp : c.p = .zero) (ht : s.time ≠ 0 → c.q = .mid)
    (hs : s.par ≠ 0 ∨ s.diag ≠ 0) :
    distance c wt wp wd s = .error .parW ∨ distance c wt wp wd s = .error .diagW := by
  unfold distance; rw [hb]
  obtain ⟨w1, e1⟩ := addStep_ok 0 s.time (stepTime c wt) wt (fun h0 => by simp [stepTime, ht h0])
  simp only [Bool.false_eq_true, if_false]
  rw [e1]
  by_cases h0 : s.par = 0
  · right
    have hd : s.diag ≠ 0 := by rcases hs with h | h; exact absurd h0 h; exact h
    simp [addStep, h0, hd, stepDiag, hp]
  · left; simp [addStep, h0, stepPar, hp]

/-- each filter is needed (3): a diagonal step at infinite bias raises whatever the probabilities are -/
theorem pruned_edges_would_raise_diagonal (c : Ctx) (wt wp wd : Rat) (s : Steps)
    (he : c.etaNone = true) (hd : s.diag ≠ 0) :
    ∃ e, distance c wt wp wd s = .error e := by
  unfold distance
  by_cases hb : (c.etaNone && c.pEqQ) = true
  · rw [if_pos hb]; exact ⟨.diagInf, by simp [hd]⟩
  · rw [if_neg hb]
    have hx : stepDiag c wd = .error .diagW := by unfold stepDiag; cases c.p <;> simp [he]
    generalize addStep (addStep (.ok 0) s.time (stepTime c wt)) s.par (stepPar c wp) = acc
    cases acc with
    | error e => exact ⟨e, rfl⟩
    | ok d => exact ⟨.diagW, by simp [addStep, hd, hx]⟩

/-! ## sign -/

theorem distance_nonneg (c : Ctx) (wt wp wd : Rat) (s : Steps) (w : Rat)
    (h0 : 0 ≤ wt ∧ 0 ≤ wp ∧ 0 ≤ wd) (hs : 0 ≤ s.time ∧ 0 ≤ s.par ∧ 0 ≤ s.diag)
    (h : distance c wt wp wd s = .ok w) : 0 ≤ w := by
  unfold distance at h
  split at h
  · split at h
    · cases h
    · injection h with h; subst h
      have : (0 : Int) ≤ s.par + s.time := by omega
      exact_mod_cast this
  · refine addStep_nonneg _ _ _ _ h ?_ hs.2.2 (fun x hx => by rw [stepDiag_ok c wd x hx]; exact h0.2.2)
    intro d2 e2
    refine addStep_nonneg _ _ _ _ e2 ?_ hs.2.1 (fun x hx => by rw [stepPar_ok c wp x hx]; exact h0.2.1)
    intro d1 e1
    refine addStep_nonneg _ _ _ _ e1 ?_ hs.1 (fun x hx => by rw [stepTime_ok c wt x hx]; exact h0.1)
    intro d0 e0
    injection e0 with e0; subst e0; exact Rat.le_refl

/-! ## `_cluster_distance` -/

/-- planar: two virtual nodes are at distance 0 whatever their clusters (the extra node has none) -/
theorem virtual_cluster_nodes_zero (T : Int) (ac bc : Option (List TIdx)) :
    planarClusterDistance T true true ac bc = .ok 0 := by
  unfold planarClusterDistance; simp

/-- planar: otherwise the result is THE minimum over all pairs of indices, and it is attained -/
theorem planar_cluster_distance_spec (T : Int) (av bv : Bool) (ca cb : List TIdx) (m : Int)
    (hv : (av && bv) = false) :
    planarClusterDistance T av bv (some ca) (some cb) = .ok m ↔
      ((∃ a ∈ ca, ∃ b ∈ cb, manhattanT T a b = m) ∧ ∀ a ∈ ca, ∀ b ∈ cb, m ≤ manhattanT T a b) := by
  unfold planarClusterDistance clusterMin; rw [hv]; simp only [Bool.false_eq_true, if_false]
  rw [minList_spec]
  simp only [List.mem_map, mem_product]
  constructor
  · rintro ⟨⟨p, ⟨ha, hb⟩, rfl⟩, h2⟩
    exact ⟨⟨p.1, ha, p.2, hb, rfl⟩, fun a' ha' b' hb' => h2 _ ⟨(a', b'), ⟨ha', hb'⟩, rfl⟩⟩
  · rintro ⟨⟨a, ha, b, hb, rfl⟩, h2⟩
    exact ⟨⟨(a, b), ⟨ha, hb⟩, rfl⟩, by rintro x ⟨p, ⟨ha', hb'⟩, rfl⟩; exact h2 p.1 ha' p.2 hb'⟩

theorem toric_cluster_distance_spec (R C T : Int) (ca cb : List TIdx) (m : Int) :
    toricClusterDistance R C T ca cb = .ok m ↔
      ((∃ a ∈ ca, ∃ b ∈ cb, manhattanTorus R C T a b = m) ∧ ∀ a ∈ ca, ∀ b ∈ cb, m ≤ manhattanTorus R C T a b) := by
  unfold toricClusterDistance
  rw [minList_spec]
  simp only [List.mem_map, mem_product]
  constructor
  · rintro ⟨⟨p, ⟨ha, hb⟩, rfl⟩, h2⟩
    exact ⟨⟨p.1, ha, p.2, hb, rfl⟩, fun a' ha' b' hb' => h2 _ ⟨(a', b'), ⟨ha', hb'⟩, rfl⟩⟩
  · rintro ⟨⟨a, ha, b, hb, rfl⟩, h2⟩
    exact ⟨⟨(a, b), ⟨ha, hb⟩, rfl⟩, by rintro x ⟨p, ⟨ha', hb'⟩, rfl⟩; exact h2 p.1 ha' p.2 hb'⟩

/-- the cluster weight does not depend on the orientation of the pair -/
theorem planar_cluster_distance_symm (T : Int) (av bv : Bool) (ac bc : Option (List TIdx)) :
    planarClusterDistance T av bv ac bc = planarClusterDistance T bv av bc ac := by
  have key : clusterMin T ac bc = clusterMin T bc ac := by
    unfold clusterMin
    cases ac <;> cases bc <;> try rfl
    rename_i ca cb
    simp only
    apply minList_congr
    intro x
    simp only [List.mem_map, mem_product]
    constructor
    · rintro ⟨p, ⟨ha, hb⟩, rfl⟩; exact ⟨(p.2, p.1), ⟨hb, ha⟩, manhattanT_symm _ _ _⟩
    · rintro ⟨p, ⟨ha, hb⟩, rfl⟩; exact ⟨(p.2, p.1), ⟨hb, ha⟩, manhattanT_symm _ _ _⟩
  unfold planarClusterDistance
  rw [key, Bool.and_comm]

theorem toric_cluster_distance_symm (R C T : Int) (ca cb : List TIdx) :
    toricClusterDistance R C T ca cb = toricClusterDistance R C T cb ca := by
  unfold toricClusterDistance
  apply minList_congr
  intro x
  simp only [List.mem_map, mem_product]
  constructor
  · rintro ⟨p, ⟨ha, hb⟩, rfl⟩; exact ⟨(p.2, p.1), ⟨hb, ha⟩, manhattanTorus_symm _ _ _ _ _⟩
  · rintro ⟨p, ⟨ha, hb⟩, rfl⟩; exact ⟨(p.2, p.1), ⟨hb, ha⟩, manhattanTorus_symm _ _ _ _ _⟩

/-- cluster weights are non-negative when all times lie on the periodic axis -/
theorem cluster_distance_nonneg (T : Int) (av bv : Bool) (ca cb : List TIdx) (m : Int)
    (hta : ∀ a ∈ ca, 0 ≤ a.1 ∧ a.1 < T) (htb : ∀ b ∈ cb, 0 ≤ b.1 ∧ b.1 < T)
    (h : planarClusterDistance T av bv (some ca) (some cb) = .ok m) : 0 ≤ m := by
  cases hv : av && bv
  · obtain ⟨⟨a, ha, b, hb, rfl⟩, _⟩ := (planar_cluster_distance_spec T av bv ca cb m hv).mp h
    unfold manhattanT
    have := (pdist_bounds T a.1 b.1 (hta a ha) (htb b hb)).1
    have := iabs_nonneg (a.2.1 - b.2.1)
    have := iabs_nonneg (a.2.2 - b.2.2)
    omega
  · unfold planarClusterDistance at h; rw [hv] at h; simp at h; omega

/-! ## non-vacuity: concrete evaluations (kernel) -/

example : (planarSteps 3 3 4 ((0, 0, 0), true) ((3, 2, 1), true)).toOption = some ⟨1, 1, 1⟩ := by decide
example : (planarSteps 3 3 4 ((0, 0, 0), false) ((3, 2, 1), false)).toOption = some ⟨1, 1, 2⟩ := by decide
example : (toricSteps 4 6 5 ((0, 0, 0), true) ((4, 5, 3), true)).toOption = some ⟨1, 0, 1⟩ := by decide
example : (planarSteps 3 3 1 ((0, -1, -1), true) ((0, -1, -1), false)).toOption = some ⟨0, 0, 0⟩ := by decide
example : (planarSteps 3 3 1 ((0, 0, 0), true) ((0, 0, 0), false)).toOption = none := by decide
example : addEdgeOk (Ctx.flags ⟨true, .mid, .zero, false⟩) ((0, 0, 1), true) ((0, 2, 1), true) = true := by decide
example : (planarClusterDistance 3 false true (some [(0, 0, 0), (2, 1, 1)]) (some [(0, 2, 2), (1, 1, 2)])).toOption
    = some 2 := by decide

end Qec.C03.Weights
