/-
  C03 — the time-parity (t-parity) outputs of `RotatedToricSMWPMDecoder.decode_ftp` — `success`, `custom_values` —
  AS FUNCTIONS OF THE TWO MATCHINGS, and what `app._run_once` reports for the run (Model/SmwpmTp.lean:
  `Smwpm.Toric.stageTps`, `decodeFtp`, `decodeIdeal`, `runFtp`; tied to the real decoder and the real
  `app.run_once_ftp` on every rotated-toric FTP decode of the harness by the driver ops `smwpm tftp` / `smwpm trun`).

  Vocabulary.  `Fused ms cms xp zp cxp czp`: `xp` / `zp` are the X / Z pairs of `(t, x, y)` indices fused inside the
  clusters of the first matching `ms` (the two `zip(path[::2], path[1::2])` loops of `_recovery_tparities`), `cxp` /
  `czp` the X / Z pairs fused for the cluster matches `cms` (`_cluster_recovery_tparities`).  A pair `wraps` when
  `_tparity(T, a_t, b_t) = 1`: going round through the plane between `t = T − 1` and `t = 0` is strictly shorter than
  staying in the bulk.  `flipsX` / `flipsZ`: the number of flipped X- / Z-plaquette measurements of the LAST time step
  (`step_measurement_errors[-1]`: the measurement errors that connect `t = T − 1` with `t = 0`).

  PROVED (all lattice sizes, all `T`, any matchings — no perfect-matching hypothesis unless stated):
  (i)   `result_shape` — whenever `decode_ftp` returns: exactly two custom values, each 0 or 1; `success` is `None` or
        `False`; `custom_values ≠ (0, 0)` ⇔ `success = False`; the four stage parities are bits; the recovery is
        `Toric.decode` (the field C03's first sentence is about).  `run_reports` — the run data carries the same
        two-element vector and the logical commutations of `recovery ⊕ error`.
  (ii)  `stage_tparities_are_wrap_parities` — each stage t-parity is the parity of the number of time-wrapping fused
        pairs; `recovery_x_tp`, `recovery_z_tp` are the parities of the number of wrapping X / Z pairs of both stages;
        `tparity_only_through_wrapping_pairs` — the t-parity of a list of fused pairs depends only on the MULTISET of
        its wrapping members (any reordering, any extra non-wrapping pairs), not on the orientation of a pair, and only
        on the time coordinates modulo `T` (never on the space coordinates);
        `cluster_match_order_irrelevant` — reordering the cluster matches and naming the two nodes of any match in
        the other order (what networkx does from run to run) changes neither the stage parities nor `success` /
        `custom_values` (the RECOVERY may change: `path(a, b) ≠ path(b, a)`);
        `custom_values_are_total_crossing_parities` — when the parity is tested (`itp` off, `T ≠ 1`) the two custom
        values are `(#wrapping X pairs + #flipped X measurements at the last step) mod 2` and the same for Z;
        `success_iff` — the run is a success ⇔ `recovery ⊕ error` commutes with every stabilizer AND with every
        logical AND (`itp` or `T = 1` or both total time-like crossing counts are even): exactly the code
        (`success = resolved_success if decoding.success is None else decoding.success`).
  (iii) `single_step_all_zero` — `T = 1`: all four stage parities are 0, `decode_ftp` returns
        `(success=None, custom_values=(0, 0))` whatever `itp` and `step_measurement_errors` (even `None`) are, the
        `assert` of `decode` never fires, and the run reports the two-element all-zero vector;
        `single_step_run` — the same from perfect matchings of the graphs of the one row a single-step fault-tolerant
        run produces (any measurement flips: they cancel on the periodic axis), with `success` ⇔ logicals commute;
        `no_wrap_no_flip_all_zero` — any `T`: no wrapping pair and no flipped measurement at the last step (e.g. zero
        measurement-error probability) ⇒ `(0, 0)`, `success = None`;
        `ftp_result_total` — for perfect matchings and supplied `step_measurement_errors`, `decode_ftp` never raises.

        `first_matching_order_irrelevant` — the FIRST matching is a Python set as well: for a perfect matching of the
        symmetry graph, any reordering of its pairs and any renaming of a pair the other way round leaves
        `_clusters(matches)` — hence the fused pairs, the stage parities, the recovery and the whole `DecodeResult` —
        unchanged (the code looks the mates up by key and sorts the column mates; Lemmas/SmwpmOrder.lean).

  STATED, NOT PROVED:
  * the identification of the total crossing parity with the time-like homology class of the space-time chain
    `recovery + error + measurement errors` (the model has no space-time chain complex).
-/
import QecVerif.Props.C03.Smwpm
import QecVerif.Lemmas.SmwpmTp
import QecVerif.Lemmas.SmwpmOrder
namespace Qec.C03.TParity
open Qec Qec.Ftp Qec.Smwpm Qec.Smwpm.Toric Qec.SmwpmTpL Qec.SmwpmOrder

/-! ## (i) shapes -/

/-- **(i)** whenever the modelled `decode_ftp` returns (any `T`, any matchings): two custom values, both bits;
    `success ∈ {None, False}`; non-zero custom values ⇔ `success = False`; the recovery is `Toric.decode`; the four
    stage t-parities are bits. -/
theorem result_shape (R C : Int) (T : Nat) (itp : Bool) (ms : List (Node × Node)) (cms : List (Nat × Nat))
    (sm : Option (List BVec)) (res : Result) (h : decodeFtp R C T itp ms cms sm = .ok res) :
    res.cv.length = 2 ∧ (∀ v ∈ res.cv, v ≤ 1) ∧ (res.success = none ∨ res.success = some false) ∧
    (res.cv ≠ [0, 0] ↔ res.success = some false) ∧ Smwpm.Toric.decode R C ms cms = .ok res.recovery ∧
    ∃ s, stageTps T ms cms = .ok s ∧ s.sx ≤ 1 ∧ s.sz ≤ 1 ∧ s.cx ≤ 1 ∧ s.cz ≤ 1 := by
  obtain ⟨r, s, h1, h2, h3⟩ := decodeFtp_unpack R C T itp ms cms sm res h
  obtain ⟨xp, zp, cxp, czp, _, ha, hb, hc, hd⟩ := fused_of_stageTps T ms cms s h2
  have b1 := tpFold_bit T xp 0 _ (by omega) ha
  have b2 := tpFold_bit T zp 0 _ (by omega) hb
  have b3 := tpFold_bit T cxp 0 _ (by omega) hc
  have b4 := tpFold_bit T czp 0 _ (by omega) hd
  obtain ⟨e1, e2, e3, e4, e5⟩ := finalize_spec R C itp T r _ _ sm res h3
  refine ⟨e2, ?_, e4, e3, by rw [e1]; exact h1, s, h2, b1, b2, b3, b4⟩
  apply e5
  · simp only [recoveryTps, Nat.zero_xor]; exact xor_le_one _ _ b1 b3
  · simp only [recoveryTps, Nat.zero_xor]; exact xor_le_one _ _ b2 b4

/-- **(i), run level**: `app._run_once` never fails on the returned `DecodeResult`; the run data carries the
    decoder's two-element vector unchanged and the logical commutations of `recovery ⊕ error`. -/
theorem run_reports (R C : Int) (T : Nat) (itp : Bool) (ms : List (Node × Node)) (cms : List (Nat × Nat))
    (sm : Option (List BVec)) (res : Result) (h : decodeFtp R C T itp ms cms sm = .ok res)
    (S L : List BVec) (n : Nat) (es : List BVec) :
    ∃ out a b, runFtp S L n es res = .ok out ∧ out.cv = some [a, b] ∧ res.cv = [a.toNat, b.toNat] ∧
      (a = 0 ∨ a = 1) ∧ (b = 0 ∨ b = 1) ∧ out.errorWeight = bsfWtMat es ∧
      out.lc = some (bvecToInts (synd L (xorV res.recovery (xorAll (2 * n) es)))) := by
  obtain ⟨hl, hb, _⟩ := result_shape R C T itp ms cms sm res h
  rw [runFtp_eq]
  match hcv : res.cv, hl with
  | [a, b], _ =>
    rw [hcv] at hb
    have ha := hb a (by simp)
    have hb' := hb b (by simp)
    refine ⟨_, (a : Int), (b : Int), rfl, ?_, by simp, by omega, by omega, rfl, rfl⟩
    simp

/-! ## (ii) the t-parity is the parity of the number of time-wrapping fused pairs -/

/-- **(ii-a)** for `T ≥ 1`: whenever the recovery construction returns, the fused pairs exist, `_tparity` never
    raises, each of the four stage outputs is the parity of the number of time-wrapping pairs of its list, and
    `recovery_x_tp` / `recovery_z_tp` (`0 ^ symmetry ^ cluster`) are the parities of the number of wrapping X / Z pairs
    of both stages together. -/
theorem stage_tparities_are_wrap_parities (R C : Int) (T : Nat) (hT : 1 ≤ T) (ms : List (Node × Node))
    (cms : List (Nat × Nat)) (r : BVec) (hd : Smwpm.Toric.decode R C ms cms = .ok r) :
    ∃ xp zp cxp czp, Fused ms cms xp zp cxp czp ∧
      stageTps T ms cms = .ok ⟨wrapCount T xp % 2, wrapCount T zp % 2, wrapCount T cxp % 2, wrapCount T czp % 2⟩ ∧
      recoveryTps ⟨wrapCount T xp % 2, wrapCount T zp % 2, wrapCount T cxp % 2, wrapCount T czp % 2⟩ =
        (wrapCount T (xp ++ cxp) % 2, wrapCount T (zp ++ czp) % 2) := by
  obtain ⟨xp, zp, cxp, czp, hf⟩ := fused_of_decode R C ms cms r hd
  exact ⟨xp, zp, cxp, czp, hf, stageTps_of_fused T (by omega) ms cms xp zp cxp czp hf,
    recoveryTps_tpsOf T xp zp cxp czp⟩

/-- **(ii-b)** the accumulated t-parity `tparity ^= _tparity(T, a_t, b_t)` of a list of fused pairs (`T ≥ 1`)
    1. is the parity of the number of its time-wrapping members,
    2. is the same for two lists whose wrapping members form the same multiset (any order, any non-wrapping extras),
    3. does not depend on the orientation of the pairs,
    4. depends only on the time coordinates modulo `T` (in particular not on the space coordinates). -/
theorem tparity_only_through_wrapping_pairs (T : Int) (hT : 1 ≤ T) (ps qs : List (Smwpm.TIdx × Smwpm.TIdx)) :
    tpFold T ps 0 = some ((ps.filter (wraps T)).length % 2) ∧
    ((ps.filter (wraps T)).Perm (qs.filter (wraps T)) → tpFold T ps 0 = tpFold T qs 0) ∧
    tpFold T (ps.map Prod.swap) 0 = tpFold T ps 0 ∧
    ∀ f : Smwpm.TIdx × Smwpm.TIdx → Smwpm.TIdx × Smwpm.TIdx,
      (∀ p, (f p).1.1 % T = p.1.1 % T ∧ (f p).2.1 % T = p.2.1 % T) → tpFold T (ps.map f) 0 = tpFold T ps 0 := by
  refine ⟨?_, ?_, ?_, ?_⟩
  · rw [tpFold_zero T hT, wrapCount_filter_length]
  · intro hp
    rw [tpFold_zero T hT, tpFold_zero T hT, ← wrapCount_filter T ps, ← wrapCount_filter T qs,
      wrapCount_perm T _ _ hp]
  · rw [tpFold_zero T hT, tpFold_zero T hT, wrapCount_map_swap]
  · intro f hf
    rw [tpFold_zero T hT, tpFold_zero T hT]
    congr 2
    induction ps with
    | nil => rfl
    | cons p ps ih =>
      rw [List.map_cons, wrapCount_cons, wrapCount_cons, ih, wraps_congr T (f p) p (hf p).1 (hf p).2]

/-- **(ii-c)** the second matching is a Python set of pairs of identity-hashed objects: networkx returns its pairs
    in an address-dependent order and names the two nodes of a pair in either order.  Neither changes the stage
    t-parities, nor `success` / `custom_values` of the result (`T ≥ 1`; `cms₁` any reordering of `cms`, `bs` marks
    the matches whose orientation is flipped).  The recovery may differ (`path(a, b) ≠ path(b, a)`). -/
theorem cluster_match_order_irrelevant (R C : Int) (T : Nat) (hT : 1 ≤ T) (itp : Bool) (ms : List (Node × Node))
    (cms cms₁ : List (Nat × Nat)) (hp : cms.Perm cms₁) (bs : List Bool) (sm : Option (List BVec)) :
    (∀ s, stageTps T ms cms = .ok s → stageTps T ms (flipSome bs cms₁) = .ok s) ∧
    ∀ res res', decodeFtp R C T itp ms cms sm = .ok res → decodeFtp R C T itp ms (flipSome bs cms₁) sm = .ok res' →
      res'.success = res.success ∧ res'.cv = res.cv := by
  have key : ∀ s, stageTps T ms cms = .ok s → stageTps T ms (flipSome bs cms₁) = .ok s := by
    intro s hs
    obtain ⟨xp, zp, cxp, czp, hf, _⟩ := fused_of_stageTps T ms cms s hs
    have e := stageTps_of_fused T (by omega) ms cms xp zp cxp czp hf
    rw [hs] at e
    obtain ⟨cls, ns, h1, h2, h3, h4⟩ := hf
    obtain ⟨p1, hp1, a1, b1⟩ := allMatchXZ_perm ns cms cms₁ hp _ h4
    obtain ⟨p2, hp2, a2, b2⟩ := allMatchXZ_flip T ns bs cms₁ p1 hp1
    have hf' : Fused ms (flipSome bs cms₁) xp zp p2.1 p2.2 := ⟨cls, ns, h1, h2, h3, hp2⟩
    rw [stageTps_of_fused T (by omega) ms _ xp zp p2.1 p2.2 hf']
    cases e
    unfold tpsOf
    rw [a2, b2, ← wrapCount_perm T _ _ a1, ← wrapCount_perm T _ _ b1]
  refine ⟨key, ?_⟩
  intro res res' h h'
  obtain ⟨r, s, _, h2, h3⟩ := decodeFtp_unpack R C T itp ms cms sm res h
  obtain ⟨r', s', _, h2', h3'⟩ := decodeFtp_unpack R C T itp ms _ sm res' h'
  rw [key s h2] at h2'
  cases h2'
  have := finalize_recovery_indep R C itp T r r' _ _ sm res h3
  rw [this] at h3'
  cases h3'
  exact ⟨rfl, rfl⟩

/-- **(ii-c′)** the FIRST matching is a Python set of pairs as well (`_matching` returns the union of the `gt.mwpm`
    results): for a perfect matching `ms` of the modelled symmetry graph (any size, any rows, any flags), any reordering
    `ms₁` of its pairs with the pairs marked in `bs` named the other way round gives the same clusters, hence the same
    stage t-parities, the same recovery and the same `DecodeResult` (or the same exception). -/
theorem first_matching_order_irrelevant (fl : Flags) (R C : Int) (rows : List BVec) (T : Nat) (itp : Bool)
    (ms ms₁ : List (Node × Node)) (hp : ms.Perm ms₁) (bs : List Bool) (cms : List (Nat × Nat))
    (sm : Option (List BVec))
    (hpm : Dec.isPerfectMatchingOfGraph (Smwpm.Toric.graphNodes R C rows) (Smwpm.Toric.graphEdges fl R C rows) ms
      = true) :
    clusters (flipPairs bs ms₁) = clusters ms ∧
    stageTps T (flipPairs bs ms₁) cms = stageTps T ms cms ∧
    Smwpm.Toric.decode R C (flipPairs bs ms₁) cms = Smwpm.Toric.decode R C ms cms ∧
    decodeFtp R C T itp (flipPairs bs ms₁) cms sm = decodeFtp R C T itp ms cms sm := by
  have F := SmwpmL.T.matchFacts fl R C rows ms hpm
  have hcl := clusters_perm_flip ms ms₁ hp bs F.shape F.nodup F.twin
  have h1 : stageTps T (flipPairs bs ms₁) cms = stageTps T ms cms := by unfold stageTps; rw [hcl]
  have h2 : Smwpm.Toric.decode R C (flipPairs bs ms₁) cms = Smwpm.Toric.decode R C ms cms := by
    unfold Smwpm.Toric.decode; rw [hcl]
  refine ⟨hcl, h1, h2, ?_⟩
  unfold decodeFtp
  rw [h1, h2]

/-- **(ii-d)** when the time parity is tested the custom values are the TOTAL time-like crossing parities:
    wrapping fused pairs of the recovery construction plus flipped measurements of the last time step (those connect
    `t = T − 1` with `t = 0`), per plaquette type; otherwise (`itp`, or a single time step) they are `(0, 0)`. -/
theorem custom_values_are_total_crossing_parities (R C : Int) (T : Nat) (hT : 1 ≤ T) (itp : Bool)
    (ms : List (Node × Node)) (cms : List (Nat × Nat)) (meas : List BVec) (hne : meas ≠ []) (res : Result)
    (h : decodeFtp R C T itp ms cms (some meas) = .ok res)
    (xp zp cxp czp : List (Smwpm.TIdx × Smwpm.TIdx)) (hf : Fused ms cms xp zp cxp czp) :
    res.cv = if itp = true ∨ T = 1 then [0, 0] else
      [(wrapCount T (xp ++ cxp) + flipsX R C (meas.getLast hne)) % 2,
       (wrapCount T (zp ++ czp) + flipsZ R C (meas.getLast hne)) % 2] := by
  obtain ⟨r, s, _, h2, h3⟩ := decodeFtp_unpack R C T itp ms cms (some meas) res h
  rw [stageTps_of_fused T (by omega) ms cms xp zp cxp czp hf] at h2
  cases h2
  rw [recoveryTps_tpsOf] at h3
  by_cases hs : itp = true ∨ T = 1
  · rw [if_pos hs]
    rw [finalize_skip R C itp T r _ _ _ (by rcases hs with h' | h'; exact Or.inl h'; exact Or.inr (by omega))] at h3
    cases h3; rfl
  · rw [if_neg hs]
    have hitp : itp = false := by cases itp <;> simp_all
    subst hitp
    have hT1 : (T : Int) ≠ 1 := by intro h'; exact hs (Or.inr (by omega))
    rw [finalize_tested_cv R C T r _ _ meas hne hT1 res h3, xor_mod_two, xor_mod_two]

/-- **(ii-e) `success` of the run, exactly as the code computes it**: the run is a success ⇔ `recovery ⊕ error`
    commutes with every stabilizer AND with every logical AND the decoder declared no time-like failure
    (`custom_values = (0, 0)`), i.e. `itp`, or a single time step, or both total time-like crossing counts are
    even. -/
theorem success_iff (R C : Int) (T : Nat) (hT : 1 ≤ T) (itp : Bool) (ms : List (Node × Node))
    (cms : List (Nat × Nat)) (meas : List BVec) (hne : meas ≠ []) (res : Result)
    (h : decodeFtp R C T itp ms cms (some meas) = .ok res)
    (xp zp cxp czp : List (Smwpm.TIdx × Smwpm.TIdx)) (hf : Fused ms cms xp zp cxp czp)
    (S L : List BVec) (n : Nat) (es : List BVec) :
    ∃ out, runFtp S L n es res = .ok out ∧
      (out.success = true ↔
        (∀ s ∈ S, bsp (xorV res.recovery (xorAll (2 * n) es)) s = false) ∧
        (∀ l ∈ L, bsp (xorV res.recovery (xorAll (2 * n) es)) l = false) ∧ res.cv = [0, 0]) ∧
      (res.cv = [0, 0] ↔ itp = true ∨ T = 1 ∨
        ((wrapCount T (xp ++ cxp) + flipsX R C (meas.getLast hne)) % 2 = 0 ∧
         (wrapCount T (zp ++ czp) + flipsZ R C (meas.getLast hne)) % 2 = 0)) := by
  obtain ⟨_, _, hsu, hiff, _⟩ := result_shape R C T itp ms cms (some meas) res h
  have hcv := custom_values_are_total_crossing_parities R C T hT itp ms cms meas hne res h xp zp cxp czp hf
  refine ⟨_, runFtp_eq S L n es res, ?_, ?_⟩
  · rcases hsu with hs | hs
    · have hz : res.cv = [0, 0] := by
        by_cases hz : res.cv = [0, 0]
        · exact hz
        · have := hiff.mp hz; rw [hs] at this; cases this
      simp only [hs, hz, Bool.and_eq_true, isZero_synd_iff, and_true]
    · have hz : res.cv ≠ [0, 0] := hiff.mpr hs
      simp [hs, hz]
  · rw [hcv]
    by_cases hs : itp = true ∨ T = 1
    · rw [if_pos hs]
      constructor
      · intro _; rcases hs with h' | h'
        · exact Or.inl h'
        · exact Or.inr (Or.inl h')
      · intro _; rfl
    · rw [if_neg hs]
      constructor
      · intro h'
        injection h' with h1 h2
        injection h2 with h2 _
        exact Or.inr (Or.inr ⟨h1, h2⟩)
      · intro h'
        rcases h' with h' | h' | ⟨h1, h2⟩
        · exact (hs (Or.inl h')).elim
        · exact (hs (Or.inr h')).elim
        · rw [h1, h2]

/-! ## (iii) a single time step / no time-like crossing -/

/-- **(iii-a) a single time step**: whenever the recovery construction returns `r`, all four stage parities are 0
    and `decode_ftp` returns `DecodeResult(success=None, recovery=r, custom_values=(0, 0))` — whatever `itp` is and
    even when `step_measurement_errors` is `None` or empty; the `assert` of `decode` does not fire; and
    `app._run_once` reports the two-element all-zero vector with `success` = "commutes with every stabilizer and
    logical". -/
theorem single_step_all_zero (R C : Int) (itp : Bool) (ms : List (Node × Node)) (cms : List (Nat × Nat))
    (sm : Option (List BVec)) (r : BVec) (hd : Smwpm.Toric.decode R C ms cms = .ok r) :
    stageTps 1 ms cms = .ok ⟨0, 0, 0, 0⟩ ∧
    decodeFtp R C 1 itp ms cms sm = .ok { success := none, recovery := r, cv := [0, 0] } ∧
    decodeIdeal R C itp ms cms = .ok (some r) ∧
    ∀ (S L : List BVec) (n : Nat) (es : List BVec), ∃ out,
      runFtp S L n es { success := none, recovery := r, cv := [0, 0] } = .ok out ∧ out.cv = some [0, 0] ∧
      (out.success = true ↔ (∀ s ∈ S, bsp (xorV r (xorAll (2 * n) es)) s = false) ∧
        ∀ l ∈ L, bsp (xorV r (xorAll (2 * n) es)) l = false) := by
  obtain ⟨xp, zp, cxp, czp, hf⟩ := fused_of_decode R C ms cms r hd
  have hs : stageTps 1 ms cms = .ok ⟨0, 0, 0, 0⟩ := by
    rw [stageTps_of_fused 1 (by omega) ms cms xp zp cxp czp hf]
    unfold tpsOf
    simp only [wrapCount_one]
  have hdec : ∀ sm', decodeFtp R C 1 itp ms cms sm' = .ok { success := none, recovery := r, cv := [0, 0] } :=
    fun sm' => decodeFtp_pack R C 1 itp ms cms sm' _ r _ hd hs (finalize_skip R C itp _ r _ _ sm' (Or.inr rfl))
  refine ⟨hs, hdec sm, ?_, ?_⟩
  · unfold decodeIdeal; rw [hdec none]; rfl
  · intro S L n es
    refine ⟨_, runFtp_eq S L n es _, rfl, ?_⟩
    simp only [Bool.and_eq_true, isZero_synd_iff]

/-- **(iii-b) a single-step fault-tolerant run** (`run_once_ftp` / `run_ftp` with `time_steps = 1`; the one the
    seeded change C03-q3 re-routed to `decode`): for every accepted size, every step error `e`, every measurement
    flip pattern `m` (it cancels on the periodic time axis), every flag setting and ANY perfect matchings of the
    modelled graphs of the one row the simulation produces, `decode_ftp` returns
    `(success=None, recovery=r, custom_values=(0, 0))` with `r ⊕ e` in the code space, and the run reports the
    two-element all-zero vector with `success` ⇔ `r ⊕ e` commutes with the logicals. -/
theorem single_step_run (fl : Flags) (R C : Int) (hR : 2 ≤ R) (hC : 2 ≤ C) (hRe : R % 2 = 0) (hCe : C % 2 = 0)
    (itp : Bool) (e m : BVec) (he : e.length = 2 * C07.RotatedToric.n R C)
    (hm : m.length = (RotatedToric.plaquetteIndices R C).length)
    (ms : List (Node × Node)) (cms : List (Nat × Nat))
    (hok : Smwpm.Toric.matchingsOk fl R C (syndromeRows (RotatedToric.stabilizers R C) [e] [m]) ms cms = true)
    (L : List BVec) :
    ∃ r out, decodeFtp R C 1 itp ms cms (some [m]) = .ok { success := none, recovery := r, cv := [0, 0] } ∧
      (∀ s ∈ RotatedToric.stabilizers R C, bsp (xorV r e) s = false) ∧
      runFtp (RotatedToric.stabilizers R C) L (C07.RotatedToric.n R C) [e]
        { success := none, recovery := r, cv := [0, 0] } = .ok out ∧
      out.cv = some [0, 0] ∧ (out.success = true ↔ ∀ l ∈ L, bsp (xorV r e) l = false) := by
  obtain ⟨r, hdec, _, _, _, hcs⟩ := C03.Smwpm.ftp_rotated_toric_returns_to_codespace fl R C hR hC hRe hCe 1
    (by omega) [e] [m] rfl rfl (by intro x hx; rw [List.mem_singleton] at hx; rw [hx]; exact he)
    (by intro x hx; rw [List.mem_singleton] at hx; rw [hx]; exact hm) ms cms hok
  have hx : xorAll (2 * C07.RotatedToric.n R C) [e] = e := by
    simp only [xorAll, List.foldl_cons, List.foldl_nil]
    exact xorV_zeros_left _ e he
  rw [hx] at hcs
  obtain ⟨_, h2, _, h4⟩ := single_step_all_zero R C itp ms cms (some [m]) r hdec
  obtain ⟨out, ho, hcv, hsu⟩ := h4 (RotatedToric.stabilizers R C) L (C07.RotatedToric.n R C) [e]
  rw [hx] at hsu
  exact ⟨r, out, h2, hcs, ho, hcv, hsu.trans ⟨fun h => h.2, fun h => ⟨hcs, h⟩⟩⟩

/-- **(iii-c) no time-like crossing**: any `T ≥ 1`; if no fused pair wraps around the time boundary and no
    measurement of the last time step is flipped (zero measurement-error probability: `_run_once` then hands over
    all-zero `step_measurement_errors`), the result is `(success=None, custom_values=(0, 0))`. -/
theorem no_wrap_no_flip_all_zero (R C : Int) (T : Nat) (hT : 1 ≤ T) (itp : Bool) (ms : List (Node × Node))
    (cms : List (Nat × Nat)) (meas : List BVec) (hne : meas ≠ []) (res : Result)
    (h : decodeFtp R C T itp ms cms (some meas) = .ok res)
    (xp zp cxp czp : List (Smwpm.TIdx × Smwpm.TIdx)) (hf : Fused ms cms xp zp cxp czp)
    (hw : ∀ p ∈ xp ++ cxp ++ (zp ++ czp), wraps T p = false)
    (hflip : RotatedToric.syndromeToPlaquettes R C (meas.getLast hne) = []) :
    res.cv = [0, 0] ∧ res.success = none := by
  have hcv := custom_values_are_total_crossing_parities R C T hT itp ms cms meas hne res h xp zp cxp czp hf
  obtain ⟨_, _, hsu, hiff, _⟩ := result_shape R C T itp ms cms (some meas) res h
  have w0 : ∀ l : List (Smwpm.TIdx × Smwpm.TIdx), (∀ p ∈ l, wraps T p = false) → wrapCount T l = 0 := by
    intro l hl
    unfold wrapCount
    rw [List.countP_eq_zero]
    intro p hp; rw [hl p hp]; simp
  have hz : res.cv = [0, 0] := by
    rw [hcv]
    split
    · rfl
    · rw [w0 _ (fun p hp => hw p (List.mem_append_left _ hp)), w0 _ (fun p hp => hw p (List.mem_append_right _ hp))]
      unfold flipsX flipsZ
      rw [hflip]; rfl
  refine ⟨hz, ?_⟩
  rcases hsu with hs | hs
  · exact hs
  · exact ((hiff.mpr hs) hz).elim

/-- **`decode_ftp` never raises** on what the simulation hands over: all accepted sizes, `T ≥ 1` rows of the right
    length, ANY perfect matchings of the modelled graphs, `step_measurement_errors` supplied (the simulation always
    passes `T ≥ 1` of them) — a `DecodeResult` comes back whose recovery has the syndrome XOR of the rows. -/
theorem ftp_result_total (fl : Flags) (R C : Int) (hR : 2 ≤ R) (hC : 2 ≤ C) (hRe : R % 2 = 0) (hCe : C % 2 = 0)
    (itp : Bool) (rows : List BVec) (hT : 1 ≤ rows.length)
    (hrows : ∀ r ∈ rows, r.length = (RotatedToric.plaquetteIndices R C).length)
    (ms : List (Node × Node)) (cms : List (Nat × Nat))
    (hok : Smwpm.Toric.matchingsOk fl R C rows ms cms = true) (meas : List BVec) (hne : meas ≠ []) :
    ∃ res, decodeFtp R C rows.length itp ms cms (some meas) = .ok res ∧
      synd (RotatedToric.stabilizers R C) res.recovery = xorAll (RotatedToric.plaquetteIndices R C).length rows := by
  obtain ⟨r, hdec, hsyn⟩ := C02.SmwpmToric.smwpm_toric_syndrome fl R C ⟨hR, hC, hRe, hCe⟩ rows hrows ms cms hok
  obtain ⟨xp, zp, cxp, czp, hf⟩ := fused_of_decode R C ms cms r hdec
  have hs := stageTps_of_fused rows.length (by omega) ms cms xp zp cxp czp hf
  obtain ⟨res, hres⟩ := finalize_total R C itp rows.length r (recoveryTps (tpsOf rows.length xp zp cxp czp)).1
    (recoveryTps (tpsOf rows.length xp zp cxp czp)).2 meas hne
  refine ⟨res, decodeFtp_pack R C _ itp ms cms _ res r _ hdec hs hres, ?_⟩
  rw [(finalize_spec R C itp _ r _ _ _ res hres).1]
  exact hsyn

/-! ## non-vacuity

  Two decodes recorded from real runs of the 2×2 rotated toric code with `T = 3` (driver op `smwpm tftp`).

  A (`p = 0`, flags `001`): rows `1000 / 0001 / 1001` from identity step errors and measurement flips
  `0001 / 0000 / 1001`.  The first matching pairs each defect with its copy at another time: the X defect of plaquette 3
  (`t = 1, 2`) stays in the bulk, the Z defect of plaquette 0 (`t = 2, 0`) is matched THROUGH the time boundary.  No
  defective cluster.  Stage parities `(0, 1, 0, 0)`; the last-step flips `1001` add one X and one Z crossing: custom
  values `(1, 0)`, `success = False`.

  B (flags `000`): rows `0101 / 0000 / 0110`, flips `0110 / 0110 / 0000`.  Two defective clusters, one at `t = 0` and
  one at `t = 2`, fused by the second matching `{(0, 1)}` through the time boundary: stage parities `(0, 0, 1, 1)`,
  no flip at the last step, custom values `(1, 1)`, `success = False`. -/

def exMs : List (Node × Node) :=
  [(((1,0,1),true),((2,0,1),true)), (((2,0,0),false),((0,0,0),false)),
   (((2,0,0),true),((0,0,0),true)), (((2,0,1),false),((1,0,1),false))]
def exMeas : List BVec :=
  [[false,false,false,true], [false,false,false,false], [true,false,false,true]]
def exRows : List BVec :=
  [[true,false,false,false], [false,false,false,true], [true,false,false,true]]
def exRes : Result := { success := some false, recovery := List.replicate 8 false, cv := [1, 0] }

def exMsB : List (Node × Node) :=
  [(((0,0,1),true),((0,1,1),true)), (((0,1,1),false),((0,0,1),false)),
   (((2,1,0),false),((2,1,1),false)), (((2,1,0),true),((2,1,1),true))]
def exMeasB : List BVec :=
  [[false,true,true,false], [false,true,true,false], [false,false,false,false]]
def exRowsB : List BVec :=
  [[false,true,false,true], [false,false,false,false], [false,true,true,false]]
def exResB : Result :=
  { success := some false, recovery := [false,false,false,false,false,true,false,false], cv := [1, 1] }

example : syndromeRows (RotatedToric.stabilizers 2 2) (List.replicate 3 (List.replicate 8 false)) exMeas = exRows := by
  decide +kernel
example : Smwpm.Toric.matchingsOk ⟨false, false, true⟩ 2 2 exRows exMs [] = true := by decide +kernel
example : stageTps 3 exMs [] = .ok ⟨0, 1, 0, 0⟩ := by decide +kernel
example : decodeFtp 2 2 3 false exMs [] (some exMeas) = .ok exRes := by decide +kernel
/-- with `itp` the same matchings give no time-like failure -/
example : decodeFtp 2 2 3 true exMs [] (some exMeas) =
    .ok { success := none, recovery := List.replicate 8 false, cv := [0, 0] } := by decide +kernel
/-- without `step_measurement_errors` the tested tail raises -/
example : decodeFtp 2 2 3 false exMs [] none = .error .noStepMeas := by decide +kernel
/-- the run: no error, identity recovery — commutes with everything, yet the run is a (time-like) failure -/
example : runFtp (RotatedToric.stabilizers 2 2) (RotatedToric.logicalXs 2 2 ++ RotatedToric.logicalZs 2 2) 8
    (List.replicate 3 (List.replicate 8 false)) exRes =
    .ok { errorWeight := 0, success := false, lc := some [0, 0, 0, 0], cv := some [1, 0] } := by decide +kernel

example : Smwpm.Toric.matchingsOk ⟨false, false, false⟩ 2 2 exRowsB exMsB [(0, 1)] = true := by decide +kernel
example : stageTps 3 exMsB [(0, 1)] = .ok ⟨0, 0, 1, 1⟩ := by decide +kernel
example : decodeFtp 2 2 3 false exMsB [(0, 1)] (some exMeasB) = .ok exResB := by decide +kernel

/-- `result_shape`, `run_reports` applied to A -/
example : exRes.cv.length = 2 ∧ (∀ v ∈ exRes.cv, v ≤ 1) ∧ (exRes.cv ≠ [0, 0] ↔ exRes.success = some false) :=
  have h := result_shape 2 2 3 false exMs [] (some exMeas) exRes (by decide +kernel)
  ⟨h.1, h.2.1, h.2.2.2.1⟩
example := run_reports 2 2 3 false exMs [] (some exMeas) exRes (by decide +kernel)
  (RotatedToric.stabilizers 2 2) (RotatedToric.logicalXs 2 2 ++ RotatedToric.logicalZs 2 2) 8
  (List.replicate 3 (List.replicate 8 false))

/-- the fused pairs of A and B; `stage_tparities_are_wrap_parities` applies to both -/
example : Fused exMs [] [((1,0,1),(2,0,1))] [((0,0,0),(2,0,0))] [] [] :=
  ⟨[[(0,0,0),(2,0,0)], [(1,0,1),(2,0,1)]], [], by decide +kernel, rfl, by decide +kernel, rfl⟩
example : wraps 3 ((0,0,0),(2,0,0)) = true ∧ wraps 3 ((1,0,1),(2,0,1)) = false := by decide
example := stage_tparities_are_wrap_parities 2 2 3 (by omega) exMs [] (List.replicate 8 false) (by decide +kernel)
example := stage_tparities_are_wrap_parities 2 2 3 (by omega) exMsB [(0, 1)] exResB.recovery (by decide +kernel)

/-- `tparity_only_through_wrapping_pairs`: `T = 3`; the pair `0 → 2` wraps, `1 → 2` does not; dropping the bulk
    pair, moving in space / by multiples of `T` in time and flipping do not change the parity -/
example : tpFold 3 [((0,0,0),(2,0,0)), ((1,0,1),(2,0,1))] 0 = some 1 ∧
    tpFold 3 [((1,5,5),(2,7,7)), ((5,1,1),(0,3,2))] 0 = some 1 := by decide
example : tpFold 3 [((0,0,0),(2,0,0)), ((1,0,1),(2,0,1))] 0 = tpFold 3 [((0,0,0),(2,0,0))] 0 :=
  (tparity_only_through_wrapping_pairs 3 (by omega) [((0,0,0),(2,0,0)), ((1,0,1),(2,0,1))] [((0,0,0),(2,0,0))]).2.1
    (by decide)

/-- `cluster_match_order_irrelevant` on B: the match named the other way round gives ANOTHER recovery but the same
    `(success, custom_values)` -/
example : flipSome [true] [(0, 1)] = [(1, 0)] := rfl
example : decodeFtp 2 2 3 false exMsB [(1, 0)] (some exMeasB) =
    .ok { exResB with recovery := [false,false,false,false,false,false,true,false] } := by decide +kernel
example : ∀ res', decodeFtp 2 2 3 false exMsB (flipSome [true] [(0, 1)]) (some exMeasB) = .ok res' →
    res'.success = exResB.success ∧ res'.cv = exResB.cv := fun res' h' =>
  (cluster_match_order_irrelevant 2 2 3 (by omega) false exMsB [(0, 1)] [(0, 1)] (List.Perm.refl _) [true]
    (some exMeasB)).2 exResB res' (by decide +kernel) h'

/-- `first_matching_order_irrelevant` on B: the pairs in reverse order, the first and third named the other way round -/
example : Dec.isPerfectMatchingOfGraph (Smwpm.Toric.graphNodes 2 2 exRowsB)
    (Smwpm.Toric.graphEdges ⟨false, false, false⟩ 2 2 exRowsB) exMsB = true := by decide +kernel
example : flipPairs [true, false, true] exMsB.reverse =
    [(((2,1,1),true),((2,1,0),true)), (((2,1,0),false),((2,1,1),false)),
     (((0,0,1),false),((0,1,1),false)), (((0,0,1),true),((0,1,1),true))] := by decide
example : decodeFtp 2 2 3 false (flipPairs [true, false, true] exMsB.reverse) [(0, 1)] (some exMeasB) = .ok exResB :=
  ((first_matching_order_irrelevant ⟨false, false, false⟩ 2 2 exRowsB 3 false exMsB exMsB.reverse
    (List.reverse_perm _).symm [true, false, true] [(0, 1)] (some exMeasB) (by decide +kernel)).2.2.2).trans
    (by decide +kernel)

/-- `custom_values_are_total_crossing_parities`, `success_iff` on A: one flipped X measurement at the last step; one
    wrapping Z pair + one flipped Z measurement at the last step -/
example : flipsX 2 2 (exMeas.getLast (by decide)) = 1 ∧ flipsZ 2 2 (exMeas.getLast (by decide)) = 1 := by
  decide +kernel
example := custom_values_are_total_crossing_parities 2 2 3 (by omega) false exMs [] exMeas (by decide) exRes
  (by decide +kernel) [((1,0,1),(2,0,1))] [((0,0,0),(2,0,0))] [] []
  ⟨[[(0,0,0),(2,0,0)], [(1,0,1),(2,0,1)]], [], by decide +kernel, rfl, by decide +kernel, rfl⟩
example := success_iff 2 2 3 (by omega) false exMs [] exMeas (by decide) exRes
  (by decide +kernel) [((1,0,1),(2,0,1))] [((0,0,0),(2,0,0))] [] []
  ⟨[[(0,0,0),(2,0,0)], [(1,0,1),(2,0,1)]], [], by decide +kernel, rfl, by decide +kernel, rfl⟩ (RotatedToric.stabilizers 2 2) (RotatedToric.logicalXs 2 2 ++ RotatedToric.logicalZs 2 2) 8
  (List.replicate 3 (List.replicate 8 false))

/-- `single_step_all_zero` / `single_step_run`: 2×4 torus, `X` on qubit 0, measurement flips on plaquettes 1 and 5
    (they cancel): one row with two defects -/
def exMs1 : List (Node × Node) :=
  [(((0,3,1),true),((0,0,0),true)), (((0,0,0),false),((0,3,1),false))]
def exM1 : BVec := [false, true, false, false, false, true, false, false]

example : syndromeRows (RotatedToric.stabilizers 2 4) [true :: List.replicate 15 false] [exM1] =
    [[true, false, false, true, false, false, false, false]] := by decide +kernel
def exR1 : BVec := List.replicate 4 false ++ true :: List.replicate 11 false
example := single_step_all_zero 2 4 false exMs1 [] none exR1 (by decide +kernel)
example := single_step_run ⟨false, false, false⟩ 2 4 (by decide) (by decide) (by decide) (by decide) false
  (true :: List.replicate 15 false) exM1 (by decide +kernel) (by decide +kernel) exMs1 [] (by decide +kernel)
  (RotatedToric.logicalXs 2 4 ++ RotatedToric.logicalZs 2 4)

/-- `no_wrap_no_flip_all_zero`: A's matchings with all-zero measurement errors and the wrapping X pair removed
    (only the bulk X pair left): no crossing -/
def exMsN : List (Node × Node) := [(((1,0,1),true),((2,0,1),true)), (((2,0,1),false),((1,0,1),false))]
example : decodeFtp 2 2 3 false exMsN [] (some (List.replicate 3 (List.replicate 4 false))) =
    .ok { success := none, recovery := List.replicate 8 false, cv := [0, 0] } := by decide +kernel
example := no_wrap_no_flip_all_zero 2 2 3 (by omega) false exMsN [] (List.replicate 3 (List.replicate 4 false))
  (by decide) { success := none, recovery := List.replicate 8 false, cv := [0, 0] } (by decide +kernel)
  [((1,0,1),(2,0,1))] [] [] []
  ⟨[[(1,0,1),(2,0,1)]], [], by decide +kernel, rfl, by decide +kernel, rfl⟩
  (by decide) (by decide +kernel)

/-- `ftp_result_total` on A -/
example := ftp_result_total ⟨false, false, true⟩ 2 2 (by decide) (by decide) (by decide) (by decide) false exRows
  (by decide) (by decide +kernel) exMs [] (by decide +kernel) exMeas (by decide)

end Qec.C03.TParity
