/-
  C03 — the property itself for the two fault-tolerant (symmetry-matching) decoders, obtained by composing

  (i)  `C03.target_is_rows_xor` (Props/C03.lean, about `Model/RunOnce.lean` / `Model/Ftp.lean`): for every number of
       time steps, all step errors and every pattern of time-periodic measurement flips, the XOR of the rows
       `syndromeRows S es meas` that `_run_once` hands to the decoder is the syndrome of the total error, and
       `ftpOk` ⇔ `recovery ⊕ total error` commutes with every stabilizer;
  (ii) `C02.Smwpm.smwpm_planar_syndrome` / `C02.SmwpmToric.smwpm_toric_syndrome` (about `Model/Smwpm.lean`): for every
       size, every list of rows of the right length and ANY perfect matchings of the two modelled graphs, the modelled
       `decode_ftp` returns a recovery whose syndrome is the XOR of the rows;

  with the shapes supplied by C07 (`stabilizer_count`: every stabilizer row has `2 n` bits) and by
  Lemmas/SmwpmFtp.lean (`decode_length`: the returned recovery has `2 n` bits).

  PROVED (all sizes, all `T ≥ 1`, all step errors, all measurement-flip patterns, all flag settings, ANY matchings
  that are perfect matchings of the modelled graphs built from the rows the simulation produces):
  * `ftp_rotated_planar_returns_to_codespace` — `RotatedPlanarSMWPMDecoder.decode_ftp`, R, C ≥ 3;
  * `ftp_rotated_toric_returns_to_codespace`  — `RotatedToricSMWPMDecoder.decode_ftp`, R, C even and ≥ 2;
  * `ideal_rotated_planar_returns_to_codespace`, `ideal_rotated_toric_returns_to_codespace` — one time step, no
    measurement flips (`decode`: the single row is the syndrome of the error).
  Each says: the model returns a recovery `r` of `2 n` bits, `ftpOk` holds, `synd S r = synd S (total error)` and
  `r ⊕ total error` commutes with every stabilizer.

  The only hypothesis besides sizes and shapes is `matchingsOk`: "what `gt.mwpm` returned are perfect matchings of the
  modelled symmetry graph and cluster graph" (C13's statement about the matcher; checked on every recorded matching by
  the harness through the driver).

  STATED, NOT PROVED (in this file) — AUDIT: both items are NOW PROVED elsewhere, nothing is left open here:
  * existence of such matchings for every array the simulation can produce (for the toric decoder this includes
    "the number of defective clusters is even", the `assert` of `_cluster_graph`); outside the decoders' stated noise
    domain there may be none and qecsim raises.
      → PROVED, all sizes / `T` / every `Ftp.reachable` array, canonical and every maximum-cardinality choice:
        finite bias `p ≠ 0`: Props/C02/SmwpmExists.lean `smwpm_planar_never_fails`,
        `smwpm_planar_max_cardinality_succeeds`, Props/C02/SmwpmExists2.lean `smwpm_toric_never_fails_finite_bias`
        (any `q`), `smwpm_toric_max_cardinality_of_pm`; infinite bias (Y-only support):
        `smwpm_planar_never_fails_infinite_bias`, `smwpm_toric_never_fails_infinite_bias`,
        `smwpm_*_max_cardinality_succeeds_infinite_bias`; `p = 0`: `smwpm_planar_never_fails_p_zero`,
        `smwpm_toric_never_fails_p_zero`; the toric `assert`: Props/C02/SmwpmEven.lean `smwpm_toric_assert_iff`,
        `smwpm_toric_assert_never_fires_reachable`; outside the domain there is provably none:
        `smwpm_*_pm_iff_infinite_bias`, `smwpm_*_pm_iff_p_zero`, `no_pm_single_x_bounded`.
  * the `success` / `custom_values` fields of the rotated-toric `DecodeResult` as functions of the matchings (their
    bookkeeping given the clusters is `finalize_spec` / `time_parities_are_bits` of Props/C03.lean; the recovery
    field, which is all the first sentence of this property speaks about, is `Smwpm.Toric.decode`).
      → PROVED: Model/SmwpmTp.lean (`Smwpm.Toric.decodeFtp`, `runFtp`) + Props/C03/TParity.lean `result_shape`,
        `stage_tparities_are_wrap_parities`, `custom_values_are_total_crossing_parities`, `success_iff`,
        `single_step_all_zero`, `single_step_run`, `ftp_result_total` (tied to the real decoder by the driver ops
        `smwpm tftp` / `smwpm trun`).
-/
import QecVerif.Props.C03
import QecVerif.Props.C02.Smwpm
import QecVerif.Props.C02.SmwpmToric
import QecVerif.Props.C07.RotatedPlanar
import QecVerif.Props.C07.RotatedToric
import QecVerif.Lemmas.SmwpmFtp
namespace Qec.C03.Smwpm
open Qec Qec.Ftp Qec.Smwpm

/-! ## rotated planar -/

/-- **C03 for `RotatedPlanarSMWPMDecoder`**: for all `R, C ≥ 3`, all `T ≥ 1`, all step errors `es` and all
    measurement-flip patterns `meas` (time-periodic: `m[t-1] ⊕ s[t] ⊕ m[t]`), all flag settings and ANY matchings that
    are perfect matchings of the modelled graphs for the rows `_run_once` produces, the modelled `decode_ftp` returns
    a recovery `r` of `2 n` bits that passes the monitor, has the syndrome of the total error, and whose product with
    the total error commutes with every stabilizer. -/
theorem ftp_rotated_planar_returns_to_codespace (fl : Flags) (R C : Int) (hR : 3 ≤ R) (hC : 3 ≤ C)
    (T : Nat) (hT : 1 ≤ T) (es meas : List BVec) (hes : es.length = T) (hms : meas.length = T)
    (hE : ∀ e ∈ es, e.length = 2 * C07.RotatedPlanar.n R C)
    (hM : ∀ m ∈ meas, m.length = (RotatedPlanar.plaquetteIndices R C).length)
    (ms : List (Node × Node)) (cms : List (Nat × Nat))
    (hok : matchingsOk fl R C (syndromeRows (RotatedPlanar.stabilizers R C) es meas) ms cms = true) :
    ∃ r, decode R C T ms cms = .ok r ∧ r.length = 2 * C07.RotatedPlanar.n R C ∧
      ftpOk (RotatedPlanar.stabilizers R C) (syndromeRows (RotatedPlanar.stabilizers R C) es meas) r = true ∧
      synd (RotatedPlanar.stabilizers R C) r =
        synd (RotatedPlanar.stabilizers R C) (xorAll (2 * C07.RotatedPlanar.n R C) es) ∧
      ∀ s ∈ RotatedPlanar.stabilizers R C,
        bsp (xorV r (xorAll (2 * C07.RotatedPlanar.n R C) es)) s = false := by
  have hSl : (RotatedPlanar.stabilizers R C).length = (RotatedPlanar.plaquetteIndices R C).length := by
    rw [RotatedPlanarCode.stabilizers_eq_map, List.length_map]
  have hS : ∀ s ∈ RotatedPlanar.stabilizers R C, s.length = 2 * C07.RotatedPlanar.n R C :=
    (C07.RotatedPlanar.stabilizer_count R C hR hC).2.1
  have hml : ∀ m ∈ meas, m.length = (RotatedPlanar.stabilizers R C).length := fun m hm => by rw [hSl]; exact hM m hm
  have hm : meas.length = es.length := by rw [hms, hes]
  have hrows : ∀ r ∈ syndromeRows (RotatedPlanar.stabilizers R C) es meas,
      r.length = (RotatedPlanar.plaquetteIndices R C).length := fun r hr => by
    rw [← hSl]; exact syndromeRows_mem_length _ es meas hm hml r hr
  obtain ⟨r, hdec, hsyn⟩ := C02.Smwpm.smwpm_planar_syndrome fl R C hR hC _ hrows ms cms hok
  rw [syndromeRows_length, hes] at hdec
  have hr : r.length = 2 * C07.RotatedPlanar.n R C := SmwpmL.decode_length R C T ms cms r hdec
  obtain ⟨hx, h1, h2⟩ := target_is_rows_xor (C07.RotatedPlanar.n R C) (RotatedPlanar.stabilizers R C) es meas r
    (by omega) hm hml hS hE hr
  have hsyn' : synd (RotatedPlanar.stabilizers R C) r =
      synd (RotatedPlanar.stabilizers R C) (xorAll (2 * C07.RotatedPlanar.n R C) es) := by
    rw [hsyn, ← hSl, hx]
  have hftp := h1.mpr hsyn'
  exact ⟨r, hdec, hr, hftp, hsyn', h2.mp hftp⟩

/-- **ideal mode** (`decode`: one time step, no measurement flips — the single row is the syndrome of the error) -/
theorem ideal_rotated_planar_returns_to_codespace (fl : Flags) (R C : Int) (hR : 3 ≤ R) (hC : 3 ≤ C)
    (e : BVec) (he : e.length = 2 * C07.RotatedPlanar.n R C)
    (ms : List (Node × Node)) (cms : List (Nat × Nat))
    (hok : matchingsOk fl R C [synd (RotatedPlanar.stabilizers R C) e] ms cms = true) :
    ∃ r, decode R C 1 ms cms = .ok r ∧ r.length = 2 * C07.RotatedPlanar.n R C ∧
      synd (RotatedPlanar.stabilizers R C) r = synd (RotatedPlanar.stabilizers R C) e ∧
      ∀ s ∈ RotatedPlanar.stabilizers R C, bsp (xorV r e) s = false := by
  have hSl : (RotatedPlanar.stabilizers R C).length = (RotatedPlanar.plaquetteIndices R C).length := by
    rw [RotatedPlanarCode.stabilizers_eq_map, List.length_map]
  have hS : ∀ s ∈ RotatedPlanar.stabilizers R C, s.length = 2 * C07.RotatedPlanar.n R C :=
    (C07.RotatedPlanar.stabilizer_count R C hR hC).2.1
  obtain ⟨r, hdec, hsyn⟩ := C02.Smwpm.smwpm_planar_syndrome_ideal fl R C hR hC _
    (by rw [synd_length, hSl]) ms cms hok
  have hr : r.length = 2 * C07.RotatedPlanar.n R C := SmwpmL.decode_length R C 1 ms cms r hdec
  refine ⟨r, hdec, hr, hsyn, ?_⟩
  rw [← isZero_synd_iff, codespace_iff (C07.RotatedPlanar.n R C) _ r e hr he hS]
  exact hsyn

/-! ## rotated toric -/

/-- **C03 for `RotatedToricSMWPMDecoder`** (the `recovery` of the returned `DecodeResult`): the same statement for
    all accepted sizes (rows, columns even and ≥ 2). -/
theorem ftp_rotated_toric_returns_to_codespace (fl : Flags) (R C : Int) (hR : 2 ≤ R) (hC : 2 ≤ C)
    (hRe : R % 2 = 0) (hCe : C % 2 = 0)
    (T : Nat) (hT : 1 ≤ T) (es meas : List BVec) (hes : es.length = T) (hms : meas.length = T)
    (hE : ∀ e ∈ es, e.length = 2 * C07.RotatedToric.n R C)
    (hM : ∀ m ∈ meas, m.length = (RotatedToric.plaquetteIndices R C).length)
    (ms : List (Node × Node)) (cms : List (Nat × Nat))
    (hok : Toric.matchingsOk fl R C (syndromeRows (RotatedToric.stabilizers R C) es meas) ms cms = true) :
    ∃ r, Toric.decode R C ms cms = .ok r ∧ r.length = 2 * C07.RotatedToric.n R C ∧
      ftpOk (RotatedToric.stabilizers R C) (syndromeRows (RotatedToric.stabilizers R C) es meas) r = true ∧
      synd (RotatedToric.stabilizers R C) r =
        synd (RotatedToric.stabilizers R C) (xorAll (2 * C07.RotatedToric.n R C) es) ∧
      ∀ s ∈ RotatedToric.stabilizers R C,
        bsp (xorV r (xorAll (2 * C07.RotatedToric.n R C) es)) s = false := by
  have hSl : (RotatedToric.stabilizers R C).length = (RotatedToric.plaquetteIndices R C).length := by
    simp [RotatedToric.stabilizers]
  have hS : ∀ s ∈ RotatedToric.stabilizers R C, s.length = 2 * C07.RotatedToric.n R C :=
    (C07.RotatedToric.stabilizer_count R C ⟨hR, hC, hRe, hCe⟩).2.2.2.2.1
  have hml : ∀ m ∈ meas, m.length = (RotatedToric.stabilizers R C).length := fun m hm => by rw [hSl]; exact hM m hm
  have hm : meas.length = es.length := by rw [hms, hes]
  have hrows : ∀ r ∈ syndromeRows (RotatedToric.stabilizers R C) es meas,
      r.length = (RotatedToric.plaquetteIndices R C).length := fun r hr => by
    rw [← hSl]; exact syndromeRows_mem_length _ es meas hm hml r hr
  obtain ⟨r, hdec, hsyn⟩ :=
    C02.SmwpmToric.smwpm_toric_syndrome fl R C ⟨hR, hC, hRe, hCe⟩ _ hrows ms cms hok
  have hr : r.length = 2 * C07.RotatedToric.n R C := SmwpmL.T.decode_length R C ms cms r hdec
  obtain ⟨hx, h1, h2⟩ := target_is_rows_xor (C07.RotatedToric.n R C) (RotatedToric.stabilizers R C) es meas r
    (by omega) hm hml hS hE hr
  have hsyn' : synd (RotatedToric.stabilizers R C) r =
      synd (RotatedToric.stabilizers R C) (xorAll (2 * C07.RotatedToric.n R C) es) := by
    rw [hsyn, ← hSl, hx]
  have hftp := h1.mpr hsyn'
  exact ⟨r, hdec, hr, hftp, hsyn', h2.mp hftp⟩

/-- **ideal mode** for the rotated toric decoder -/
theorem ideal_rotated_toric_returns_to_codespace (fl : Flags) (R C : Int) (hR : 2 ≤ R) (hC : 2 ≤ C)
    (hRe : R % 2 = 0) (hCe : C % 2 = 0)
    (e : BVec) (he : e.length = 2 * C07.RotatedToric.n R C)
    (ms : List (Node × Node)) (cms : List (Nat × Nat))
    (hok : Toric.matchingsOk fl R C [synd (RotatedToric.stabilizers R C) e] ms cms = true) :
    ∃ r, Toric.decode R C ms cms = .ok r ∧ r.length = 2 * C07.RotatedToric.n R C ∧
      synd (RotatedToric.stabilizers R C) r = synd (RotatedToric.stabilizers R C) e ∧
      ∀ s ∈ RotatedToric.stabilizers R C, bsp (xorV r e) s = false := by
  have hSl : (RotatedToric.stabilizers R C).length = (RotatedToric.plaquetteIndices R C).length := by
    simp [RotatedToric.stabilizers]
  have hS : ∀ s ∈ RotatedToric.stabilizers R C, s.length = 2 * C07.RotatedToric.n R C :=
    (C07.RotatedToric.stabilizer_count R C ⟨hR, hC, hRe, hCe⟩).2.2.2.2.1
  obtain ⟨r, hdec, hsyn⟩ := C02.SmwpmToric.smwpm_toric_syndrome_ideal fl R C ⟨hR, hC, hRe, hCe⟩ _
    (by rw [synd_length, hSl]) ms cms hok
  have hr : r.length = 2 * C07.RotatedToric.n R C := SmwpmL.T.decode_length R C ms cms r hdec
  refine ⟨r, hdec, hr, hsyn, ?_⟩
  rw [← isZero_synd_iff, codespace_iff (C07.RotatedToric.n R C) _ r e hr he hS]
  exact hsyn

/-! ## the hypotheses are satisfiable: `T = 2`, a qubit error AND a measurement flip

  3×3 rotated planar code, finite bias, `0 < q < 1` (time-like edges exist).  Step errors: `X` on qubit 0, then the
  identity; the measurement of plaquette `(1, 0)` (position 5) is flipped at `t = 0`, so that defect shows in both
  rows (`m[t-1] ⊕ s[t] ⊕ m[t]` on the periodic time axis).  The symmetry matching pairs the two copies of the flipped
  plaquette in time and the genuine defect `(0, 0)` with the virtual plaquette `(0, -1)`; every other virtual node with
  its twin.  One defective cluster ⇒ the cluster stage is used (extra node + corners).  The recovery is `X` on
  qubit 0. -/

def exEs : List BVec := [true :: List.replicate 17 false, List.replicate 18 false]
def exMeas : List BVec := [[false, false, false, false, false, true, false, false], List.replicate 8 false]
def exMs : List (Node × Node) :=
  [(((0,-1,2),false),((0,-1,2),true)), (((1,-1,2),false),((1,-1,2),true)), (((0,-1,1),false),((0,-1,1),true)),
   (((1,-1,1),false),((1,-1,1),true)), (((0,-1,-1),false),((0,-1,-1),true)), (((1,-1,-1),false),((1,-1,-1),true)),
   (((1,0,-1),false),((1,0,-1),true)), (((0,1,2),false),((0,1,2),true)), (((1,1,2),false),((1,1,2),true)),
   (((0,2,2),false),((0,2,2),true)), (((1,2,2),false),((1,2,2),true)), (((0,2,0),false),((0,2,0),true)),
   (((1,2,0),false),((1,2,0),true)), (((0,2,-1),false),((0,2,-1),true)), (((1,2,-1),false),((1,2,-1),true)),
   (((0,0,-1),false),((0,0,0),false)), (((0,0,-1),true),((0,0,0),true)),
   (((0,1,0),false),((1,1,0),false)), (((0,1,0),true),((1,1,0),true))]
def exCms : List (Nat × Nat) := [(0,2),(1,3),(4,5),(6,7),(8,9)]

example : syndromeRows (RotatedPlanar.stabilizers 3 3) exEs exMeas =
    [[false, true, false, false, false, true, false, false],
     [false, false, false, false, false, true, false, false]] := by decide +kernel

example : matchingsOk ⟨false, false, false⟩ 3 3 (syndromeRows (RotatedPlanar.stabilizers 3 3) exEs exMeas)
    exMs exCms = true := by decide +kernel

example : decode 3 3 2 exMs exCms = .ok (true :: List.replicate 17 false) := by decide +kernel

/-- the theorem applied to the example: every hypothesis is discharged by evaluation -/
example : ∃ r, decode 3 3 2 exMs exCms = .ok r ∧ r.length = 18 ∧
    ftpOk (RotatedPlanar.stabilizers 3 3) (syndromeRows (RotatedPlanar.stabilizers 3 3) exEs exMeas) r = true ∧
    synd (RotatedPlanar.stabilizers 3 3) r = synd (RotatedPlanar.stabilizers 3 3) (xorAll 18 exEs) ∧
    ∀ s ∈ RotatedPlanar.stabilizers 3 3, bsp (xorV r (xorAll 18 exEs)) s = false :=
  ftp_rotated_planar_returns_to_codespace ⟨false, false, false⟩ 3 3 (by decide) (by decide) 2 (by decide)
    exEs exMeas rfl rfl (by decide +kernel) (by decide +kernel) exMs exCms (by decide +kernel)

/-! 2×4 rotated toric code, `T = 2`: `X` on qubit 0 in the first step, the measurement of plaquette 5 flipped at
    `t = 0`.  No defective cluster ⇒ empty cluster graph. -/

def exEsT : List BVec := [true :: List.replicate 15 false, List.replicate 16 false]
def exMsT : List (Node × Node) :=
  [(((0,3,1),true),((0,0,0),true)), (((0,3,0),true),((1,3,0),true)),
   (((0,0,0),false),((0,3,1),false)), (((0,3,0),false),((1,3,0),false))]

example : syndromeRows (RotatedToric.stabilizers 2 4) exEsT exMeas =
    [[true, false, false, true, false, true, false, false],
     [false, false, false, false, false, true, false, false]] := by decide +kernel

example : ∃ r, Toric.decode 2 4 exMsT [] = .ok r ∧ r.length = 16 ∧
    ftpOk (RotatedToric.stabilizers 2 4) (syndromeRows (RotatedToric.stabilizers 2 4) exEsT exMeas) r = true ∧
    synd (RotatedToric.stabilizers 2 4) r = synd (RotatedToric.stabilizers 2 4) (xorAll 16 exEsT) ∧
    ∀ s ∈ RotatedToric.stabilizers 2 4, bsp (xorV r (xorAll 16 exEsT)) s = false :=
  ftp_rotated_toric_returns_to_codespace ⟨false, false, false⟩ 2 4 (by decide) (by decide) (by decide) (by decide)
    2 (by decide) exEsT exMeas rfl rfl (by decide +kernel) (by decide +kernel) exMsT [] (by decide +kernel)

end Qec.C03.Smwpm
