import QecVerif.Props.C07.Basic
import QecVerif.Props.C07.Planar
import QecVerif.Props.C07.Toric
import QecVerif.Props.C07.RotatedToric
import QecVerif.Props.C07.RotatedPlanar
import QecVerif.Props.C07.Color666
import QecVerif.Props.C07.Normaliser
