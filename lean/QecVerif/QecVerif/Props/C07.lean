import QecVerif.Props.C07.Basic
import QecVerif.Props.C07.Planar
