import QecVerif.Props.C07.Basic
