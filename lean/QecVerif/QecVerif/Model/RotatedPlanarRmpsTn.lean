/-
  C10 — the rotated planar ROTATED MPS decoder's tensor NETWORK, mirroring
  `qecsim.models.rotatedplanar._rotatedplanarrmpsdecoder.RotatedPlanarRMPSDecoder.TNC` (`h_node_value`, `v_node_value`,
  `create_q_node` with its 2 x 10 hand-written shape cases, `create_tn` with `_xy_to_rc_index`, `_compass_direction`)
  and the evaluation of `_coset_probabilities` (`mps2d.contract(tn, stop=-1)`, then `inner_product` with the last
  column).

  * scalars are `Int` numerators over the common power-of-two denominator `D` of the four floats of `prob_dist` (as
    for the other networks): the bare node `q_node` is filled with dictionary look-ups (`h_node_value`), the deltas are
    the integer `tsr.delta`;
  * the network has shape `R x C` (`np.empty(code.size)`), ONE tensor per qubit and no stabilizer tensor: the site
    `(x, y)` sits at `(r, c) = (max_y - y, x)`; `create_tn` writes while iterating over the sites, the model reads cell
    `(r, c)` through the inverse map `(x, y) = (c, R - 1 - r)` (a bijection between sites and cells);
  * `create_q_node(prob_dist, f, h_node, even_column, compass_direction)`:
    - the shape table (`qShapes`): the bare shape `q_shape = (n, e, s, w)` (legs towards the NE, SE, SW, NW plaquette)
      and the four 3-leg delta shapes `n_shape = (n, I, j)`, `e_shape = (e, J, k)`, `s_shape = (s, K, l)`,
      `w_shape = (w, L, i)`: the bulk value by `even_column`, then the modifications of the compass direction, entry by
      entry as written (the v-node has no `'sw'` case: `raise ValueError`, modelled by `none`, which would leave a
      `None` site; `Props/C10/RotatedPlanarRmpsNetwork.lean` proves the network has no such site);
    - the entry (`qEntry`): `np.einsum('nesw,nIj,eJk,sKl,wLi->iIjJKkLl', q_node, n_delta, e_delta, s_delta, w_delta)
      .reshape((|i||I|, |j||J|, |K||k|, |L||l|))` as the literal 4-fold sum over `n, e, s, w` of the product of the five
      entries, the leg indices decoded in C order (`N = i·|I| + I`, …);
  * h-node = site with `is_z_plaquette((x, y))`; `even_column = not (x % 2)`;
    `v_node_value(f, n, e, s, w) = h_node_value(f, e, s, w, n)`; `h_node_value`, `tsr.delta` and the compass look-ups
    are those of the planar / rotated planar MPS models, re-used.

  Imports nothing outside core (linked into `qvdriver`).
-/
import QecVerif.Model.RotatedPlanarTn
namespace Qec.RotatedPlanarRmpsTn
open Qec Qec.Tensor Qec.Coset Qec.PlanarTn Qec.RotatedPlanarTn

abbrev Sh3 := Nat × Nat × Nat
abbrev Sh4 := Nat × Nat × Nat × Nat

/-- the five shapes of `create_q_node` -/
structure Shapes where
  q : Sh4
  n : Sh3
  e : Sh3
  s : Sh3
  w : Sh3
deriving DecidableEq, Repr

/-- the bulk shapes: `if even_column: … else: …` (the same for h- and v-nodes) -/
def bulk (even : Bool) : Shapes :=
  if even then ⟨(2, 2, 2, 2), (2, 2, 2), (2, 1, 2), (2, 2, 2), (2, 1, 2)⟩
  else ⟨(2, 2, 2, 2), (2, 2, 1), (2, 2, 2), (2, 2, 1), (2, 2, 2)⟩

/-- the `if h_node:` branch: modifications for the compass direction -/
def hShapes (even : Bool) : RowDir → ColDir → Shapes
  | .n, .mid => { bulk even with q := (2, 2, 2, 1), n := (2, 1, 2), w := (1, 1, 1) }                      -- 'n'
  | .n, .e => { bulk even with q := (1, 2, 2, 1), n := (1, 1, 1), e := (2, 1, 2), w := (1, 1, 1) }        -- 'ne'
  | .mid, .e => { bulk even with q := (1, 2, 2, 2), n := (1, 1, 1), e := (2, 1, 2) }                      -- 'e'
  | .s, .e => { bulk even with q := (1, 1, 2, 2), n := (1, 1, 1), e := (1, 1, 1), s := (2, 1, 2) }        -- 'se'
  | .s, .mid => { bulk even with q := (2, 1, 2, 2), e := (1, 1, 1), s := (2, 1, 2) }                      -- 's'
  | .s, .w => { bulk even with q := (2, 1, 1, 2), e := (1, 1, 1), s := (1, 1, 1), w := (2, 1, 2) }        -- 'sw'
  | .mid, .w => { bulk even with q := (2, 2, 1, 2), s := (1, 1, 1), w := (2, 1, 2) }                      -- 'w'
  | .n, .w => { bulk even with q := (2, 2, 1, 1), n := (2, 1, 2), s := (1, 1, 1), w := (1, 1, 1) }        -- 'nw'
  | .mid, .mid => bulk even                                                                              -- bulk

/-- the `else:` (v-node) branch; `'sw'` raises ValueError (`none`) -/
def vShapes (even : Bool) : RowDir → ColDir → Option Shapes
  | .n, .mid => some { bulk even with q := (1, 2, 2, 2), n := (1, 1, 1), w := (2, 2, 1) }                 -- 'n'
  | .n, .e => some { bulk even with q := (1, 1, 2, 2), n := (1, 1, 1), e := (1, 1, 1), w := (2, 2, 1) }   -- 'ne'
  | .mid, .e => some { bulk even with q := (2, 1, 2, 2), n := (2, 2, 1), e := (1, 1, 1) }                 -- 'e'
  | .s, .e => some { bulk even with q := (2, 1, 1, 2), n := (2, 2, 1), e := (1, 1, 1), s := (1, 1, 1) }   -- 'se'
  | .s, .mid => some { bulk even with q := (2, 2, 1, 2), e := (2, 2, 1), s := (1, 1, 1) }                 -- 's'
  | .s, .w => none                                                                                       -- 'sw'
  | .mid, .w => some { bulk even with q := (2, 2, 2, 1), s := (2, 2, 1), w := (1, 1, 1) }                 -- 'w'
  | .n, .w => some { bulk even with q := (1, 2, 2, 1), n := (1, 1, 1), s := (2, 2, 1), w := (1, 1, 1) }   -- 'nw'
  | .mid, .mid => some (bulk even)                                                                       -- bulk

/-- the shape table of `create_q_node(…, h_node, even_column, compass_direction)` -/
def qShapes (isH even : Bool) (rd : RowDir) (cd : ColDir) : Option Shapes :=
  if isH then some (hShapes even rd cd) else vShapes even rd cd

/-- entry of `tsr.delta(shape)` for a 3-leg shape -/
def delta3 (sh : Sh3) (a b c : Nat) : Int := deltaEntry (sh.1, sh.2.1, sh.2.2, 1) a b c 0

/-- the combined shape `(w_shape[2]·n_shape[1], n_shape[2]·e_shape[1], e_shape[2]·s_shape[1], s_shape[2]·w_shape[1])` -/
def Shapes.shape (S : Shapes) : Sh4 :=
  (S.w.2.2 * S.n.2.1, S.n.2.2 * S.e.2.1, S.e.2.2 * S.s.2.1, S.s.2.2 * S.w.2.1)

/-- entry `[N, E, S, W]` of `einsum('nesw,nIj,eJk,sKl,wLi->iIjJKkLl', q, δn, δe, δs, δw).reshape(shape)`:
    north leg `(i I)`, east `(j J)`, south `(K k)`, west `(L l)`, most significant first -/
def qEntry (S : Shapes) (bare : Nat → Nat → Nat → Nat → Int) (N E So W : Nat) : Int :=
  let i := N / S.n.2.1
  let I := N % S.n.2.1
  let j := E / S.e.2.1
  let J := E % S.e.2.1
  let K := So / S.e.2.2
  let k := So % S.e.2.2
  let L := W / S.s.2.2
  let l := W % S.s.2.2
  sumRange S.q.1 fun n => sumRange S.q.2.1 fun e => sumRange S.q.2.2.1 fun s => sumRange S.q.2.2.2 fun w =>
    bare n e s w * delta3 S.n n I j * delta3 S.e e J k * delta3 S.s s K l * delta3 S.w w L i

/-- `TNC.create_q_node(prob_dist, f, h_node, even_column, compass_direction)`; `none` = ValueError -/
def qNode (d : Dist Int) (f : P1) (isH even : Bool) (rd : RowDir) (cd : ColDir) : Option T4 :=
  (qShapes isH even rd cd).map fun S =>
    ofShape S.shape (qEntry S (if isH then hNodeValue d f else vNodeValue d f))

/-- the site `create_tn` writes to cell `(r, c)`: the q-node of the site `(x, y) = (c, R - 1 - r)` -/
def node (R C : Int) (d : Dist Int) (sample : BVec) (r c : Nat) : Site :=
  let x : Int := (c : Int)
  let y : Int := RotatedPlanar.maxSiteY R - (r : Int)
  qNode d (opAt R C sample x y) (RotatedPlanar.isZPlaquette x y) (decide (c % 2 = 0)) (qRowDir R y) (qColDir C x)

/-- `TNC.create_tn(prob_dist, sample_pauli)` for the `R x C` rotated planar code; `sample` is
    `sample_pauli.to_bsf()` -/
def rprmpsTn (R C : Int) (d : Dist Int) (sample : BVec) : Net :=
  let nr := R.toNat
  let nc := C.toNat
  { nrows := nr, ncols := nc,
    a := Array.ofFn (n := nr * nc) fun ix => node R C d sample (ix.val / nc) (ix.val % nc) }

/-- the plain full contraction `mps2d.contract(tn)` (left to right, no truncation) -/
def tnValue (R C : Int) (d : Dist Int) (sample : BVec) : Except Err Result :=
  contract (rprmpsTn R C d sample) none false none none none none

/-- … of `mps2d.transpose(tn)` -/
def tnValueR (R C : Int) (d : Dist Int) (sample : BVec) : Except Err Result :=
  contract (rprmpsTn R C d sample).transpose none false none none none none

/-- one coset value as `_coset_probabilities` evaluates it: `bra, mult = mps2d.contract(tnI, stop=-1)` (all columns
    but the last, left to right, no truncation), then `inner_product(bra, tnK[:, -1]) * mult` -/
def cosetValue (tnI tnK : Net) : Except Err Int :=
  match contract tnI none false none (some (-1)) none none with
  | .error e => .error e
  | .ok (.part (some bra) mult) =>
    match innerProduct bra (tnK.col (tnK.ncols - 1)) with
    | .error e => .error e
    | .ok ip => .ok (ip * mult)
  | .ok _ => .error .type

/-- the value the decoder computes for the coset of `sample` itself; mode 'c' (`byRow = false`) or, on the transposed
    network, mode 'r' -/
def tnValueD (R C : Int) (d : Dist Int) (byRow : Bool) (sample : BVec) : Except Err Int :=
  let tn := if byRow then (rprmpsTn R C d sample).transpose else rprmpsTn R C d sample
  cosetValue tn tn

/-! ### the procedure of `RotatedPlanarRMPSDecoder._coset_probabilities`: bras shared between pairs of cosets
    (executed by `PlanarTn.runPlan`, see Model/PlanarTn.lean) -/

/-- mode 'c': "I,Z and X,Y cosets differ only in the last column (logical Z)" — `bra_i` from `tns[0]` serves slots 0
    (ket `tns[0]`) and 3 (ket `tns[3]`); the bra from `tns[1]` serves slots 1 (ket `tns[1]`) and 2 (ket `tns[2]`) -/
def planCols : PlanarTn.Plan := [(0, [(0, 0), (3, 3)]), (1, [(1, 1), (2, 2)])]

/-- mode 'r', on the transposed networks: "I,X and Z,Y cosets differ only in the last row (logical X)" — `bra_i` from
    `tns[0]` serves slots 0 and 1; the bra from `tns[3]` serves slots 3 and 2 (in that order) -/
def planRows : PlanarTn.Plan := [(0, [(0, 0), (1, 1)]), (3, [(3, 3), (2, 2)])]

/-- `tns = [create_tn(prob_dist, sp) for sp in sample_paulis]`, sample Paulis
    `f, f.logical_x(), f.logical_x().logical_z(), f.logical_z()` -/
def tnsOf (R C : Int) (d : Dist Int) (f : BVec) : List Net :=
  (recoveries4 (RotatedPlanar.logicalX R C) (RotatedPlanar.logicalZ R C) f).map (rprmpsTn R C d)

/-- `coset_ps_col` of `RotatedPlanarRMPSDecoder._coset_probabilities` (mode 'c'; `chi = tol = None`) -/
def cosetValuesC (R C : Int) (d : Dist Int) (f : BVec) : Except Err (List Int) :=
  PlanarTn.runPlan (tnsOf R C d f) planCols

/-- `coset_ps_row` (mode 'r'): `tns = [mps2d.transpose(tn) for tn in tns]`, then the row pairing -/
def cosetValuesR (R C : Int) (d : Dist Int) (f : BVec) : Except Err (List Int) :=
  PlanarTn.runPlan ((tnsOf R C d f).map Net.transpose) planRows

/-- mode 'a': by column, then by row, then `sum(coset_p) / len(coset_p)` per coset -/
def cosetValuesA (R C : Int) (d : Dist Int) (f : BVec) : Except Err (List Rat) :=
  match cosetValuesC R C d f with
  | .error e => .error e
  | .ok c =>
    match cosetValuesR R C d f with
    | .error e => .error e
    | .ok r => .ok (PlanarTn.averageValues c r)

end Qec.RotatedPlanarRmpsTn
