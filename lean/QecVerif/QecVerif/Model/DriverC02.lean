import QecVerif.Model.Wire
namespace Qec.Drv
open Qec Qec.Wire

/-- driver ops of property C02 (first protocol token `c02`) -/
def c02 : List String → Option String
  | _ => none

end Qec.Drv
