import QecVerif.Model.Wire
import QecVerif.Model.DriverLattice
import QecVerif.Model.DriverLatticeToric
import QecVerif.Model.Decoders
namespace Qec.Drv
open Qec Qec.Wire Qec.Dec

namespace C02

def showPair (p : Idx2 × Idx2) : String := s!"{showIdx p.1}>{showIdx p.2}"
def showPairs (l : List (Idx2 × Idx2)) : String := if l.isEmpty then "_" else ";".intercalate (l.map showPair)
def showWEdges (l : List (Idx2 × Idx2 × Nat)) : String :=
  if l.isEmpty then "_" else ";".intercalate (l.map fun e => s!"{showIdx e.1}>{showIdx e.2.1}@{e.2.2}")
def showWEdges3 (l : List (Toric.Idx × Toric.Idx × Nat)) : String :=
  if l.isEmpty then "_" else ";".intercalate (l.map fun e => s!"{showIdx3 e.1}>{showIdx3 e.2.1}@{e.2.2}")

/-- CMWPM graph nodes: `d:r,c` the defect's node, `v:r,c` the private virtual node of the defect `(r,c)` -/
def parseCNode? (s : String) : Option CNode :=
  match s.splitOn ":" with
  | ["d", i] => (parseIdx? i).map fun i => (false, i)
  | ["v", i] => (parseIdx? i).map fun i => (true, i)
  | _ => none
def showCNode (x : CNode) : String := (if x.1 then "v:" else "d:") ++ showIdx x.2
def parseCPairs? (s : String) : Option (List (CNode × CNode)) :=
  if s == "_" then some [] else
  (s.splitOn ";").mapM fun p =>
    match p.splitOn ">" with
    | [a, b] => do let a ← parseCNode? a; let b ← parseCNode? b; pure (a, b)
    | _ => none
def showCPairs (l : List (CNode × CNode)) : String :=
  if l.isEmpty then "_" else ";".intercalate (l.map fun p => s!"{showCNode p.1}>{showCNode p.2}")

/-- `s:r;s:r;…` -/
def parseCases? (s : String) : Option (List (BVec × BVec)) :=
  if s == "_" then some [] else
  (s.splitOn ";").mapM fun p =>
    match p.splitOn ":" with
    | [a, b] => do let a ← parseBits? a; let b ← parseBits? b; pure (a, b)
    | _ => none

def parseSize2? (r c : String) : Option (Int × Int) := do
  let r ← parseInt? r; let c ← parseInt? c
  if r < 2 || c < 2 then none else pure (r, c)

end C02
open C02

/-- driver ops of property C02 (first protocol token `c02`) -/
def c02 : List String → Option String
  -- verified monitor on the real decoder's outputs: one verdict bit per (syndrome, recovery) pair
  | ["monitor", n, S, cases] => do
      let n ← parseNat? n; let S ← parseMat? S; let cs ← parseCases? cases
      pure (showBits (cs.map fun c => recoveryOkN n S c.1 c.2))
  | ["planar.graph", r, c, s] => do
      let (r, c) ← parseSize2? r c; let s ← parseBits? s
      let p := planarWeightedEdges r c true (planarDefects r c s true)
      let d := planarWeightedEdges r c false (planarDefects r c s false)
      pure s!"P={showWEdges p} D={showWEdges d}"
  | ["planar.mwpm", r, c, s, mp, md] => do
      let (r, c) ← parseSize2? r c; let s ← parseBits? s; let mp ← parsePairs? mp; let md ← parsePairs? md
      let dp := planarDefects r c s true; let dd := planarDefects r c s false
      let okP := isPerfectMatchingOfGraph (planarNodes r c true dp) (planarEdges r c true dp) mp
      let okD := isPerfectMatchingOfGraph (planarNodes r c false dd) (planarEdges r c false dd) md
      pure s!"{showExB (planarMwpmRecovery r c mp md)} pm={showBool okP}{showBool okD}"
  | ["planar.cmwpm.graph", r, c, s] => do
      let (r, c) ← parseSize2? r c; let s ← parseBits? s
      pure s!"P={showCPairs (cmwpmEdges (planarDefects r c s true))} D={showCPairs (cmwpmEdges (planarDefects r c s false))}"
  | ["planar.cmwpm", r, c, s, mp, md] => do
      let (r, c) ← parseSize2? r c; let s ← parseBits? s; let mp ← parseCPairs? mp; let md ← parseCPairs? md
      let dp := planarDefects r c s true; let dd := planarDefects r c s false
      let okP := isPerfectMatchingOfGraph (cmwpmNodes dp) (cmwpmEdges dp) mp
      let okD := isPerfectMatchingOfGraph (cmwpmNodes dd) (cmwpmEdges dd) md
      pure s!"{showExB (planarCmwpmRecovery r c mp md)} pm={showBool okP}{showBool okD} P={showPairs (cmwpmMatches r c mp)} D={showPairs (cmwpmMatches r c md)}"
  | ["planar.cmwpm0", r, c] => do
      let (r, c) ← parseSize2? r c
      pure (showExB (planarCmwpmNull r c))
  | ["toric.graph", r, c, s] => do
      let (r, c) ← parseSize2? r c; let s ← parseBits? s
      pure s!"P={showWEdges3 (toricWeightedEdges r c (toricDefects r c s 0))} D={showWEdges3 (toricWeightedEdges r c (toricDefects r c s 1))}"
  | ["toric.mwpm", r, c, s, m0, m1] => do
      let (r, c) ← parseSize2? r c; let s ← parseBits? s; let m0 ← parsePairs3? m0; let m1 ← parsePairs3? m1
      let d0 := toricDefects r c s 0; let d1 := toricDefects r c s 1
      let ok0 := isPerfectMatchingOfGraph (toricNodes d0) (toricEdges d0) m0
      let ok1 := isPerfectMatchingOfGraph (toricNodes d1) (toricEdges d1) m1
      pure s!"{showExB (toricMwpmRecovery r c m0 m1)} pm={showBool ok0}{showBool ok1}"
  | ["planar.sample", r, c, s] => do
      let (r, c) ← parseSize2? r c; let s ← parseBits? s
      pure (showExB (planarSampleRecovery r c s))
  | ["rplanar.sample", r, c, s] => do
      let r ← parseInt? r; let c ← parseInt? c; let s ← parseBits? s
      if r < 3 || c < 3 then none else pure (showBits (rotatedPlanarSampleRecovery r c s))
  | ["color.sample", l, s] => do
      let l ← parseInt? l; let s ← parseBits? s
      if l < 3 || l % 2 == 0 then none else pure (showBits (color666SampleRecovery l s))
  | ["coset", sample, lx, lz, rec] => do
      let sample ← parseBits? sample; let lx ← parseBits? lx; let lz ← parseBits? lz; let rec ← parseBits? rec
      pure (match cosetOf sample lx lz rec with | some p => String.singleton p.toChar | none => "none")
  | ["naive", mq, n, S, s] => do
      let mq ← parseOptNat? mq; let n ← parseNat? n; let S ← parseMat? S; let s ← parseBits? s
      pure (match naiveDecodeFull mq n S s with
        | .valueError => "ValueError" | .pyNone => "None" | .recovery r => "ok " ++ showBits r)
  | ["naiveall", mq, n, S, ss] => do
      let mq ← parseOptNat? mq; let n ← parseNat? n; let S ← parseMat? S
      let ss ← (ss.splitOn ";").mapM parseBits?
      pure (";".intercalate ((naiveDecodeFullAll mq n S ss).map fun o => match o with
        | .valueError => "ValueError" | .pyNone => "None" | .recovery r => "ok " ++ showBits r))
  | _ => none

end Qec.Drv
