/-
  C04 — `qecsim.app._run`: the while loop, the per-run aggregation and the final statistics.
  One run's outcome is an input (`RunOut`, see C01); outcomes arrive as a list (the script the
  harness feeds the real loop through a scripted decoder / error model).
-/
import QecVerif.Model.RunOnce
namespace Qec

structure LoopState where
  nRun : Nat := 0
  nSuccess : Nat := 0
  nFail : Nat := 0
  lcSum : Option (List Int) := none
  cvSum : Option (List Int) := none
  weights : List Nat := []        -- in run order
  deriving DecidableEq, Repr

inductive LoopErr
  | mismatchLc (run : Nat) | mismatchCv (run : Nat)   -- QecsimError raised during run `run` (1-based)
  | needMore                                           -- script exhausted while the guard still holds
  deriving DecidableEq, Repr

/-- the `while` guard -/
def guard (maxRuns maxFail : Option Nat) (s : LoopState) : Bool :=
  (match maxRuns with | none => true | some r => decide (s.nRun < r)) &&
  (match maxFail with | none => true | some f => decide (s.nFail < f))

def addVec (a b : List Int) : List Int := List.zipWith (· + ·) a b

/-- one array key of the loop body; `first` = this is run 1.  `none` = mismatch -/
def stepArray (first : Bool) (sum val : Option (List Int)) : Option (Option (List Int)) :=
  let sum := if first then (match val with | some v => some (v.map fun _ => (0 : Int)) | none => sum) else sum
  match sum, val with
  | none, none => some none
  | some s, some v => if s.length ≠ v.length then none else some (some (addVec s v))
  | _, _ => none

/-- loop body after `_run_once` returned `o` -/
def body (s : LoopState) (o : RunOut) : Except LoopErr LoopState :=
  let nRun := s.nRun + 1
  let first := nRun == 1
  match stepArray first s.lcSum o.lc with
  | none => .error (.mismatchLc nRun)
  | some lc =>
    match stepArray first s.cvSum o.cv with
    | none => .error (.mismatchCv nRun)
    | some cv =>
      .ok { nRun := nRun
            nSuccess := if o.success then s.nSuccess + 1 else s.nSuccess
            nFail := if o.success then s.nFail else s.nFail + 1
            lcSum := lc, cvSum := cv
            weights := s.weights ++ [o.errorWeight] }

/-- the loop, structurally recursive on the script -/
def loopFrom (maxRuns maxFail : Option Nat) : LoopState → List RunOut → Except LoopErr LoopState
  | s, [] => if guard maxRuns maxFail s then .error .needMore else .ok s
  | s, o :: rest =>
    if guard maxRuns maxFail s then
      match body s o with
      | .error e => .error e
      | .ok s' => loopFrom maxRuns maxFail s' rest
    else .ok s

/-- `max_runs = 1` when both limits are None -/
def effectiveMaxRuns (maxRuns maxFail : Option Nat) : Option Nat :=
  match maxRuns, maxFail with | none, none => some 1 | r, _ => r

def runLoop (maxRuns maxFail : Option Nat) (outs : List RunOut) : Except LoopErr LoopState :=
  loopFrom (effectiveMaxRuns maxRuns maxFail) maxFail {} outs

structure Aggregate where
  nRun : Nat
  nSuccess : Nat
  nFail : Nat
  lc : Option (List Int)
  cv : Option (List Int)
  ewTotal : Nat
  pvar : Rat                 -- population variance, exact
  lfr : Rat                  -- n_fail / n_run
  per : Rat                  -- error_weight_total / n / T / n_run
  deriving DecidableEq, Repr

def sumNat (l : List Nat) : Nat := l.foldl (· + ·) 0

/-- `statistics.pvariance` over exact rationals: Σ (x − μ)² / N -/
def pvariance (xs : List Nat) : Rat :=
  let n : Rat := xs.length
  let mu : Rat := (sumNat xs : Nat) / n
  (xs.foldl (fun (acc : Rat) (x : Nat) => acc + ((x : Rat) - mu) * ((x : Rat) - mu)) 0) / n

def aggregate (n T : Nat) (s : LoopState) : Aggregate :=
  let tot := sumNat s.weights
  { nRun := s.nRun, nSuccess := s.nSuccess, nFail := s.nFail, lc := s.lcSum, cv := s.cvSum
    ewTotal := tot
    pvar := pvariance s.weights
    lfr := (s.nFail : Rat) / (s.nRun : Rat)
    per := (tot : Rat) / (n : Rat) / (T : Rat) / (s.nRun : Rat) }

def run (n T : Nat) (maxRuns maxFail : Option Nat) (outs : List RunOut) : Except LoopErr Aggregate :=
  (runLoop maxRuns maxFail outs).map (aggregate n T)

end Qec
