/-
  C10 — the colour 6.6.6 MPS decoder's tensor NETWORK, mirroring
  `qecsim.models.color._color666mpsdecoder.Color666MPSDecoder.TNC` (`create_s_node` = `tsr.delta` of the four shapes,
  `q_node_value`, `create_q_node` with its `_node_shapes` table, the `einsum` merge of the upper and lower qubit and the
  reduction of the dimension-16 legs by `delta((4,4,4)).reshape((4,16))`, `create_tn`) and the way
  `_coset_probabilities` evaluates it (`mps2d.contract(tn, start=-1, stop=0, step=-1)`, then `inner_product` with the
  first column).

  * scalars are `Int`: the harness sends the numerators of the four floats of `prob_dist` over a common power-of-two
    denominator `D`.  An entry of a qubit tensor is the PRODUCT of the probabilities of the (one or two) qubits merged
    into it, i.e. an integer over `D^k`, `k` = number of qubits of the cell (`cellDegree`); the real entry is the float
    product `p1 * p2` — the correctly rounded value of that rational — which is what the harness compares with;
    stabilizer nodes are integer deltas;
  * the network has shape `size x (bound + 1)`; `create_tn` walks down every Pauli column `c` (rows `r = c … bound`),
    starts at network row `c // 3`, and emits one node per plaquette, per pair of vertically adjacent sites and per
    unpaired site.  In closed form (checked tensor by tensor against the real code on every run): lattice index `(r, c)`
    lands in network cell `(⌊(2r - c) / 3⌋, c)`; cell `(i, c)` with `3i + c` odd holds the plaquette `((3i+c+1)/2, c)`,
    with `3i + c` even the sites `((3i+c)/2, c)` (upper) and `((3i+c)/2 + 1, c)` (lower); a cell none of whose lattice
    indices is in bounds stays `None` (`np.empty(dtype=object)`);
  * leg order `(n, e, s, w)`; all bonds have dimension 4 (index 0, 1, 2, 3 = I, X, Y, Z: one leg carries the X-type AND
    the Z-type stabilizer of a plaquette) or 1 (dummy).

  Imports nothing outside core (linked into `qvdriver`).
-/
import QecVerif.Model.Tensor
import QecVerif.Model.PlanarTn
import QecVerif.Model.Lattice.Color666
import QecVerif.Model.Coset
namespace Qec.Color666Tn
open Qec Qec.Tensor Qec.Coset

abbrev Shape := Nat × Nat × Nat × Nat

/-- compass direction of `create_s_node` (`None` = bulk) -/
inductive SDir | n | s | w | bulk
deriving DecidableEq, Repr

/-- `create_s_node._node_shape` -/
def sNodeShape : SDir → Shape
  | .n => (1, 4, 4, 4)
  | .s => (4, 4, 1, 4)
  | .w => (4, 4, 4, 1)
  | .bulk => (4, 4, 4, 4)

/-- `create_s_node(direction)` = `tt.tsr.delta(shape)` -/
def sNode (dir : SDir) : T4 := PlanarTn.ofShape (sNodeShape dir) (PlanarTn.deltaEntry (sNodeShape dir))

/-- compass direction of `create_q_node` (`None` = bulk) -/
inductive QDir | n | ne | e | se | s | sw | w | nw | bulk
deriving DecidableEq, Repr

/-- `create_q_node._node_shapes`: shapes of the upper and of the lower qubit tensor (`None` = no qubit) -/
def qNodeShapes : QDir → Option Shape × Option Shape
  | .n => (some (1, 4, 1, 4), some (1, 4, 4, 4))
  | .ne => (none, some (1, 1, 4, 4))
  | .e => (some (1, 1, 1, 4), none)
  | .se => (some (4, 1, 1, 4), none)
  | .s => (some (4, 4, 1, 4), some (1, 4, 1, 4))
  | .sw => (some (4, 1, 1, 1), none)
  | .w => (some (4, 4, 1, 1), some (1, 4, 4, 1))
  | .nw => (some (1, 4, 1, 1), some (1, 4, 4, 1))
  | .bulk => (some (4, 4, 1, 4), some (1, 4, 4, 4))

/-- x-bit of `index_to_op[i]` (`0, 1, 2, 3 → I, X, Y, Z`) -/
def ixBit (i : Nat) : Nat := if i = 1 ∨ i = 2 then 1 else 0
/-- z-bit of `index_to_op[i]` -/
def izBit (i : Nat) : Nat := if i = 2 ∨ i = 3 then 1 else 0

/-- `q_node_value(prob_dist, f, n, e, s, w)`: `op = (f + op[n] + op[e] + op[s] + op[w]) % 2`, then
    `op_to_pr[bsf_to_pauli(op)]` -/
def qNodeValue (d : Dist Int) (f : P1) (n e s w : Nat) : Int :=
  let x := (f.xBit.toNat + ixBit n + ixBit e + ixBit s + ixBit w) % 2
  let z := (f.zBit.toNat + izBit n + izBit e + izBit s + izBit w) % 2
  d.at (x == 1) (z == 1)

/-- the dummy tensor `np.ones((1, 1, 1, 1))` -/
def onesT : T4 := T4.ofFn 1 1 1 1 fun _ _ _ _ => 1

/-- one of the two tensors of `create_q_node` before merging: the qubit tensor of `f` with the table's shape, or the
    dummy tensor when both are `None` (any other combination fails the `assert`, see `qNodeOk`) -/
def qPart (d : Dist Int) : Option Shape → Option P1 → T4
  | some sh, some f => PlanarTn.ofShape sh (qNodeValue d f)
  | _, _ => onesT

/-- `assert (shape is None) == (f is None)` for both tensors -/
def qNodeOk (fs : Option P1 × Option P1) (dir : QDir) : Bool :=
  ((qNodeShapes dir).1.isNone == fs.1.isNone) && ((qNodeShapes dir).2.isNone == fs.2.isNone)

/-- `np.einsum('nesw,sESW->neESwW', a, b).reshape((a.n, a.e * b.e, b.s, a.w * b.w))` -/
def merge (a b : T4) : T4 :=
  T4.ofFn a.n (a.e * b.e) b.s (a.w * b.w) fun i j k l =>
    sumRange a.s fun x => a.get i (j / b.e) x (l / b.w) * b.get x (j % b.e) k (l % b.w)

/-- entry of `tt.tsr.delta((4, 4, 4))` -/
def delta3 (a b c : Nat) : Int := if b = a ∧ c = a then 1 else 0

/-- `if node.shape[1] == 16: node = np.einsum('nesw,Ee->nEsw', node, delta((4,4,4)).reshape((4,16)))` -/
def reduceE (t : T4) : T4 :=
  if t.e = 16 then
    T4.ofFn t.n 4 t.s t.w fun i j k l => sumRange 16 fun x => t.get i x k l * delta3 j (x / 4) (x % 4)
  else t

/-- `if node.shape[3] == 16: node = np.einsum('nesw,Ww->nesW', node, delta((4,4,4)).reshape((4,16)))` -/
def reduceW (t : T4) : T4 :=
  if t.w = 16 then
    T4.ofFn t.n t.e t.s 4 fun i j k l => sumRange 16 fun x => t.get i j k x * delta3 l (x / 4) (x % 4)
  else t

/-- `create_q_node(prob_dist, fs, direction)` -/
def qNode (d : Dist Int) (fs : Option P1 × Option P1) (dir : QDir) : T4 :=
  reduceW (reduceE (merge (qPart d (qNodeShapes dir).1 fs.1) (qPart d (qNodeShapes dir).2 fs.2)))

/-- direction of the stabilizer node of plaquette `(r, c)` (the `if` chain of `create_tn`) -/
def sDir (B r c : Int) : SDir :=
  if c = 0 then .w else if r = c then .n else if r = B then .s else .bulk

/-- direction of the qubit node whose first site is `(r, c)` (the `if` chain of `create_tn`) -/
def qDir (B r c : Int) : QDir :=
  if c = 0 then
    if r = 0 then .nw else if r = B then .sw else .w
  else if r = c then
    if c = B then .e else if c % 3 = 2 then .ne else .n
  else if r = B - 1 then .s
  else if r = B then .se
  else .bulk

/-- the Pauli pair `create_tn` passes to `create_q_node` in the branch of direction `dir`; `f1` = operator on the first
    site `(r, c)` of the node, `f2` = operator on `(r + 1, c)` or `None` -/
def qFs (dir : QDir) (f1 : P1) (f2 : Option P1) : Option P1 × Option P1 :=
  match dir with
  | .nw => (some f1, f2)
  | .sw => (some f1, none)
  | .w => (some f1, f2)
  | .e => (some f1, none)
  | .ne => (none, some f1)
  | .n => (some f1, f2)
  | .s => (some f1, f2)
  | .se => (some f1, none)
  | .bulk => (some f1, f2)

/-- `f2` of `create_tn`: the operator on `(r + 1, c)` if that index is in bounds and a site, else `None` -/
def f2At (L : Int) (sample : BVec) (r c : Int) : Option P1 :=
  if Color666.inBounds L (r + 1) c && Color666.isSite (r + 1) c then some (Color666.operatorAt L sample (r + 1) c)
  else none

/-- what `create_tn` puts into network cell `(i, c)`: `none` = the cell stays `None`; otherwise `inl dir` = stabilizer
    node, `inr (dir, fs)` = qubit node.  In a qubit cell the node starts at the upper index `(3i+c)/2` when that is inside
    the lattice, else at the lower one (top of a column with `c % 3 = 2`). -/
def cellKind (L : Int) (sample : BVec) (i c : Nat) : Option (SDir ⊕ (QDir × (Option P1 × Option P1))) :=
  let B := Color666.bound L
  let s : Int := 3 * (i : Int) + (c : Int)
  if s % 2 = 1 then
    let r := (s + 1) / 2
    if (c : Int) ≤ r ∧ r ≤ B then some (.inl (sDir B r c)) else none
  else
    let up := s / 2
    let r1 := if (c : Int) ≤ up then up else up + 1
    if (c : Int) ≤ r1 ∧ r1 ≤ B then
      some (.inr (qDir B r1 c, qFs (qDir B r1 c) (Color666.operatorAt L sample r1 c) (f2At L sample r1 c)))
    else none

/-- the tensor of network cell `(i, c)` -/
def cell (L : Int) (d : Dist Int) (sample : BVec) (i c : Nat) : Site :=
  match cellKind L sample i c with
  | none => none
  | some (.inl dir) => some (sNode dir)
  | some (.inr (dir, fs)) => some (qNode d fs dir)

/-- number of qubits merged into cell `(i, c)` (0 for stabilizer nodes and `None`): the entries of the cell are integers
    over `D ^ cellDegree` -/
def cellDegree (L : Int) (sample : BVec) (i c : Nat) : Nat :=
  match cellKind L sample i c with
  | some (.inr (_, fs)) => fs.1.isSome.toNat + fs.2.isSome.toNat
  | _ => 0

/-- no `assert` of `create_q_node` fails -/
def assertsOk (L : Int) (sample : BVec) : Bool :=
  (List.range L.toNat).all fun i => (List.range (Color666.bound L + 1).toNat).all fun c =>
    match cellKind L sample i c with
    | some (.inr (dir, fs)) => qNodeOk fs dir
    | _ => true

/-- `TNC.create_tn(prob_dist, sample_pauli)` for the colour code of size `L`; `sample` is `sample_pauli.to_bsf()` -/
def colorTn (L : Int) (d : Dist Int) (sample : BVec) : Net :=
  let nrows := L.toNat
  let ncols := (Color666.bound L + 1).toNat
  { nrows := nrows, ncols := ncols,
    a := Array.ofFn (n := nrows * ncols) fun ix => cell L d sample (ix.val / ncols) (ix.val % ncols) }

/-- one coset probability as `_coset_probabilities` evaluates it: the ket is the right-to-left contraction of all
    columns but the first of the network `tnI` of the sample itself
    (`mps2d.contract(tns[0], chi, tol, start=-1, stop=0, step=-1)`), the bra is the first column of the network `tnK`
    of the variant: `inner_product(tnK[:, 0], ket) * mult` -/
def cosetValue (tnI tnK : Net) : Except Err Int :=
  match contract tnI none false (some (-1)) (some 0) (some (-1)) none with
  | .error e => .error e
  | .ok (.part (some ket) mult) =>
    match innerProduct (tnK.col 0) ket with
    | .error e => .error e
    | .ok ip => .ok (ip * mult)
  | .ok _ => .error .type

/-- the value the decoder computes for the coset of `sample` itself -/
def tnValue (L : Int) (d : Dist Int) (sample : BVec) : Except Err Int :=
  cosetValue (colorTn L d sample) (colorTn L d sample)

/-- the four sample Paulis of `_coset_probabilities`: `f, f·X̄, f·X̄·Z̄, f·Z̄` -/
def variants (L : Int) (sample : BVec) : List BVec :=
  recoveries4 (Color666.logicalX L) (Color666.logicalZ L) sample

/-- the four coset probabilities of `_coset_probabilities` (order I, X̄, Ȳ, Z̄) -/
def tnValues (L : Int) (d : Dist Int) (sample : BVec) : List (Except Err Int) :=
  (variants L sample).map fun g => cosetValue (colorTn L d sample) (colorTn L d g)

/-- the full default contraction `mps2d.contract(tn)` of the network (not what the decoder does; same value) -/
def tnFull (L : Int) (d : Dist Int) (sample : BVec) : Except Err Result :=
  contract (colorTn L d sample) none false none none none none

end Qec.Color666Tn
