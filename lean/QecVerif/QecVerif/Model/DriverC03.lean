import QecVerif.Model.Wire
namespace Qec.Drv
open Qec Qec.Wire

/-- driver ops of property C03 (first protocol token `c03`) -/
def c03 : List String → Option String
  | _ => none

end Qec.Drv
