import QecVerif.Model.Wire
import QecVerif.Model.Ftp
namespace Qec.Drv
open Qec Qec.Wire Qec.Ftp

namespace C03W

def parseT3? (s : String) : Option TIdx :=
  match s.splitOn "," with
  | [a, b, c] => do let a ← a.toInt?; let b ← b.toInt?; let c ← c.toInt?; pure (a, b, c)
  | _ => none

/-- clusters: `.` = none; clusters joined by `|`, indices by `;`, coordinates by `,` -/
def parseClusters? (s : String) : Option (List (List TIdx)) :=
  if s == "." then some [] else (s.splitOn "|").mapM fun c => (c.splitOn ";").mapM parseT3?

/-- cluster matches: `.` = none; matches joined by `|`; one match = `ax>az>bx>bz` -/
def parseMatches? (s : String) : Option (List ((TIdx × TIdx) × (TIdx × TIdx))) :=
  if s == "." then some [] else
  (s.splitOn "|").mapM fun m =>
    match m.splitOn ">" with
    | [a, b, c, d] => do
        let a ← parseT3? a; let b ← parseT3? b; let c ← parseT3? c; let d ← parseT3? d; pure ((a, b), (c, d))
    | _ => none

/-- `step_measurement_errors`: `N` = None, `.` = empty list, else rows joined by `/` -/
def parseOptMat? (s : String) : Option (Option (List BVec)) :=
  if s == "N" then some none else (parseMat? s).map some

def showResult : Except Err Result → String
  | .error .noStepMeas => "QecsimError:nostepmeas"
  | .ok r => s!"su={showOpt showBool r.success} rec={showBits r.recovery} cv={showNatList r.cv}"

def showStage : Option Stage → String
  | none => "raise"
  | some s => s!"op={showBits s.op} x={s.x} z={s.z}"

end C03W
open C03W

/-- driver ops of property C03 (first protocol token `c03`) -/
def c03 : List String → Option String
  -- `_tparity(T, a, b)`
  | ["tp", t, a, b] => do
      let t ← parseInt? t; let a ← parseInt? a; let b ← parseInt? b
      pure (match tparity t a b with | none => "ZeroDivisionError" | some v => toString v)
  -- `_measurement_error_tparities(code(R, C), m)`
  | ["mtp", r, c, m] => do
      let r ← parseInt? r; let c ← parseInt? c; let m ← parseBits? m
      let p := measurementTparities r c m; pure s!"{p.1},{p.2}"
  -- tail of the rotated-toric `decode_ftp` from the recorded stage outputs
  | ["fin", r, c, itp, t, sop, sx, sz, cop, cx, cz, meas] => do
      let r ← parseInt? r; let c ← parseInt? c; let itp ← parseBool? itp; let t ← parseInt? t
      let sop ← parseBits? sop; let sx ← parseNat? sx; let sz ← parseNat? sz
      let cop ← parseBits? cop; let cx ← parseNat? cx; let cz ← parseNat? cz
      let meas ← parseOptMat? meas
      pure (showResult (composeToric r c itp t ⟨sop, sx, sz⟩ ⟨cop, cx, cz⟩ meas))
  -- rotated-planar `decode_ftp` from the recorded stage outputs
  | ["pl", n, sop, cop] => do
      let n ← parseNat? n; let sop ← parseBits? sop; let cop ← parseBits? cop
      pure (showBits (composePlanar n sop cop))
  -- `_recovery_tparities` from the recorded clusters
  | ["rtp", r, c, t, cl] => do
      let r ← parseInt? r; let c ← parseInt? c; let t ← parseInt? t; let cl ← parseClusters? cl
      pure (showStage (recoveryTparities r c t cl))
  -- `_cluster_recovery_tparities` from the recorded cluster matches
  | ["crtp", r, c, t, ms] => do
      let r ← parseInt? r; let c ← parseInt? c; let t ← parseInt? t; let ms ← parseMatches? ms
      pure (showStage (clusterRecoveryTparities r c t ms))
  -- the monitor on a real decoder output: synd S rec == xor of all rows
  | ["mon", s, rows, rec] => do
      let s ← parseMat? s; let rows ← parseMat? rows; let rec ← parseBits? rec
      pure (showBool (ftpOk s rows rec))
  -- witness for `reachable`: step errors and flips that make the simulation produce `rows`
  | ["wit", n, s, t, rows, e] => do
      let n ← parseNat? n; let s ← parseMat? s; let t ← parseNat? t; let rows ← parseMat? rows; let e ← parseBits? e
      let es := witnessErrors n t e
      let meas := witnessMeas s es rows
      let got := (decoderInput n s es meas true).syndrome
      pure s!"es={showMat es} meas={showMat meas} same={showBool (got == rows)}"
  | _ => none

end Qec.Drv
