/-
  C03 — the TIME-PARITY bookkeeping and the `DecodeResult` of `RotatedToricSMWPMDecoder.decode_ftp` as functions of
  the two MATCHINGS (the parameters of Model/Smwpm.lean), and what `app._run_once` makes of that result.

  Mirrored (`_rotatedtoricsmwpmdecoder.py`):
  * `_recovery_tparities`: per cluster `x_path, z_path, _ = _cluster_to_paths_and_defect(cluster)`; the two loops
    `for a, b in zip(x_path[::2], x_path[1::2]): … x_tparity ^= _tparity(T, a_t, b_t)` and the same over `z_path`
    with `z_tparity` — `clusterXZ`, `allClusterXZ`, `tpFold`;
  * `_cluster_recovery_tparities`: per match `x_tparity ^= _tparity(T, a.x_index.t, b.x_index.t)`,
    `z_tparity ^= _tparity(T, a.z_index.t, b.z_index.t)` — `matchXZ`, `allMatchXZ`, `tpFold`;
  * `decode_ftp`: `recovery_x_tp = 0 ^ symmetry_x ^ cluster_x` (same for z), then the "TEST T-PARITY" tail
    (`Ftp.finalize`: `itp or time_steps == 1` ⇒ `custom_values = (0, 0)`, else XOR with
    `_measurement_error_tparities(step_measurement_errors[-1])`, `success=False` iff non-zero) — `decodeFtp`;
  * `app._run_once` on the returned `DecodeResult` (C01's `resolve`): `success = resolved if success is None else
    success` — `toAnswer`, `runFtp`.

  The recovery field is `Toric.decode` of Model/Smwpm.lean (unchanged).  Parameters: the two matchings (`ms`: what
  `_matching(graphs)` returned, `cms`: what `_matching([cluster_graph])` returned, over creation indices), the decoder
  attribute `itp`, `time_steps` (`T`; `app` passes the number of rows) and the keyword `step_measurement_errors`.

  Not mirrored: the ORDER in which different exceptions would surface when several are pending (outside the decoder's
  domain): here the errors of the recovery construction come first, then `ZeroDivisionError` of `_tparity`
  (`time_steps == 0` with a non-empty matching: unreachable, graph nodes have `t ∈ range(time_steps)`), then the
  `QecsimError` of the tail.
  No imports outside core/Std + other Model files (this file is linked into the driver).
-/
import QecVerif.Model.Smwpm
namespace Qec.Smwpm.Toric
open Qec Qec.Dec

/-- the pairs fused inside one cluster, X pairs and Z pairs apart (the two `zip` loops) -/
def clusterXZ (cl : List TIdx) : Except Err (List (TIdx × TIdx) × List (TIdx × TIdx)) :=
  match splitCluster cl with
  | .error e => .error e
  | .ok (xs, zs, _) => .ok (pairUp xs, pairUp zs)

def allClusterXZ : List (List TIdx) → Except Err (List (TIdx × TIdx) × List (TIdx × TIdx))
  | [] => .ok ([], [])
  | cl :: cls =>
    match clusterXZ cl with
    | .error e => .error e
    | .ok p =>
      match allClusterXZ cls with
      | .error e => .error e
      | .ok q => .ok (p.1 ++ q.1, p.2 ++ q.2)

/-- the X pair and the Z pair fused for one cluster match -/
def matchXZ (ns : List ClNode) (m : Nat × Nat) : Except Err ((TIdx × TIdx) × (TIdx × TIdx)) :=
  match ns[m.1]?, ns[m.2]? with
  | some a, some b => .ok ((a.x, b.x), (a.z, b.z))
  | _, _ => .error .badNode

def allMatchXZ (ns : List ClNode) : List (Nat × Nat) → Except Err (List (TIdx × TIdx) × List (TIdx × TIdx))
  | [] => .ok ([], [])
  | m :: ms =>
    match matchXZ ns m with
    | .error e => .error e
    | .ok p =>
      match allMatchXZ ns ms with
      | .error e => .error e
      | .ok q => .ok (p.1 :: q.1, p.2 :: q.2)

/-- `tparity ^= _tparity(T, a_t, b_t)` over a list of fused pairs, from `acc`; `none` = ZeroDivisionError -/
def tpFold (T : Int) : List (TIdx × TIdx) → Nat → Option Nat
  | [], acc => some acc
  | p :: ps, acc =>
    match Ftp.tparity T p.1.1 p.2.1 with
    | none => none
    | some v => tpFold T ps (acc ^^^ v)

/-- what `decode_ftp` can raise -/
inductive FErr
  | dec (e : Err)     -- raised by the recovery construction (Model/Smwpm.lean)
  | zeroDiv           -- `_tparity` with `time_steps == 0`
  | noStepMeas        -- QecsimError('Failed to test t-parity. step_measurement_errors not provided.')
  deriving DecidableEq, Repr

/-- the four t-parities `decode_ftp` XORs together: `(symmetry x, symmetry z, cluster x, cluster z)` -/
structure StageTps where
  sx : Nat
  sz : Nat
  cx : Nat
  cz : Nat
  deriving DecidableEq, Repr

/-- the t-parity outputs of `_recovery_tparities(code, T, _clusters(matches))` and
    `_cluster_recovery_tparities(code, T, cluster_matches)` as functions of the two matchings -/
def stageTps (T : Int) (ms : List (Node × Node)) (cms : List (Nat × Nat)) : Except FErr StageTps :=
  match clusters ms with
  | .error e => .error (.dec e)
  | .ok cls =>
    match allClusterXZ cls with
    | .error e => .error (.dec e)
    | .ok sp =>
      match clusterNodes cls with
      | .error e => .error (.dec e)
      | .ok ns =>
        match allMatchXZ ns cms with
        | .error e => .error (.dec e)
        | .ok cp =>
          match tpFold T sp.1 0, tpFold T sp.2 0, tpFold T cp.1 0, tpFold T cp.2 0 with
          | some a, some b, some c, some d => .ok ⟨a, b, c, d⟩
          | _, _, _, _ => .error .zeroDiv

/-- `recovery_x_tp`, `recovery_z_tp` just before "TEST T-PARITY": `0 ^ symmetry ^ cluster` -/
def recoveryTps (s : StageTps) : Nat × Nat := ((0 ^^^ s.sx) ^^^ s.cx, (0 ^^^ s.sz) ^^^ s.cz)

/-- **`RotatedToricSMWPMDecoder(itp).decode_ftp(code, T, syndrome, step_measurement_errors=stepMeas)`** given what
    the two `_matching` calls returned -/
def decodeFtp (R C : Int) (T : Nat) (itp : Bool) (ms : List (Node × Node)) (cms : List (Nat × Nat))
    (stepMeas : Option (List BVec)) : Except FErr Ftp.Result :=
  match decode R C ms cms with
  | .error e => .error (.dec e)
  | .ok r =>
    match stageTps T ms cms with
    | .error e => .error e
    | .ok s =>
      match Ftp.finalize R C itp T r (recoveryTps s).1 (recoveryTps s).2 stepMeas with
      | .error _ => .error .noStepMeas
      | .ok res => .ok res

/-- `RotatedToricSMWPMDecoder.decode`: `decode_ftp` with `time_steps = 1`, `step_measurement_errors = None`; the
    `assert decoding.success is None and np.all(decoding.custom_values == 0)`; returns the bare recovery.
    `none` = AssertionError -/
def decodeIdeal (R C : Int) (itp : Bool) (ms : List (Node × Node)) (cms : List (Nat × Nat)) :
    Except FErr (Option BVec) :=
  match decodeFtp R C 1 itp ms cms none with
  | .error e => .error e
  | .ok res => .ok (if res.success = none && res.cv.all (· == 0) then some res.recovery else none)

/-- the `DecodeResult` as `app._run_once` sees it (`logical_commutations=None`) -/
def toAnswer (res : Ftp.Result) : Answer :=
  .result res.success none (some res.recovery) (some (res.cv.map Int.ofNat))

/-- **`app._run_once('ftp', …)`** after the decoder returned `res`: the run data (C01's `resolve`) -/
def runFtp (S L : List BVec) (n : Nat) (es : List BVec) (res : Ftp.Result) : Except RunErr RunOut :=
  resolve S L es (xorAll (2 * n) es) (toAnswer res)

end Qec.Smwpm.Toric
