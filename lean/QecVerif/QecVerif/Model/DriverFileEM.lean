import QecVerif.Model.Wire
import QecVerif.Model.FileEM
namespace Qec.Drv
open Qec Qec.Wire Qec.FileEM

def hexDecode? (s : String) : Option String :=
  if s == "-" then some "" else do
    let bytes ← hexToBytes? s.toList
    pure (String.ofList (bytes.map fun b => Char.ofNat b))

/-- text as code points: six hex digits per character ("-" = empty) -/
def textDecode? (s : String) : Option (List Char) :=
  if s == "-" then some [] else do
    let bytes ← hexToBytes? s.toList
    let rec go : List Nat → Option (List Char)
      | a :: b :: c :: r => (go r).map fun t => Char.ofNat (a * 65536 + b * 256 + c) :: t
      | [] => some []
      | _ => none
    go bytes

def parseHVal? (s : String) : Option HVal :=
  match s.toList with
  | ['n'] => some .null
  | 'r' :: rest => (parseRat? (String.ofList rest)).map .num
  | 's' :: rest => some (.str (String.ofList rest))
  | 'o' :: rest => some (.other (String.ofList rest))
  | _ => none

def showHVal : HVal → String
  | .null => "n" | .num r => "r" ++ showRat r | .str s => "s" ++ s | .other r => "o" ++ r

def parseTok? (s : String) : Option Tok :=
  match s.toList with
  | ['B'] => some .bad
  | ['I'] => some .invalid
  | 'E' :: rest =>
      match (String.ofList rest).splitOn "," with
      | [h, l] => do
          let bytes ← hexToBytes? (if h == "-" then [] else h.toList)
          let l ← l.toNat?
          pure (.entry bytes l)
      | _ => none
  | 'O' :: rest =>
      let body := String.ofList rest
      if body == "" then some (.obj []) else do
        let kvs ← (body.splitOn ";").mapM fun kv =>
          match kv.splitOn "=" with
          | [k, v] => do let k ← hexDecode? k; let v ← parseHVal? v; pure (k, v)
          | _ => none
        pure (.obj kvs)
  | _ => none

def parseLine? (s : String) : Option Line :=
  match s.splitOn ":" with
  | [raw, tok] => do
      let raw ← hexDecode? raw
      let tok ← parseTok? tok
      pure { raw := raw.toList, tok := tok }
  | _ => none

def showErr : Err → String
  | .eof => "EOFError" | .value => "ValueError" | .type => "TypeError" | .rejected => "Rejected"

inductive Call | gen (n : Nat) (p : Rat) | dist (p : Rat) | label | extra (k : String)

def parseCall? (s : String) : Option Call :=
  match s.toList with
  | 'g' :: rest =>
      match (String.ofList rest).splitOn ":" with
      | [n, p] => do let n ← n.toNat?; let p ← parseRat? p; pure (.gen n p)
      | _ => none
  | 'd' :: rest => (parseRat? (String.ofList rest)).map .dist
  | ['l'] => some .label
  | 'x' :: rest => (hexDecode? (String.ofList rest)).map .extra
  | _ => none

def runCalls : FileEM.Model → List Call → List String
  | _, [] => []
  | m, .gen n p :: cs =>
      let (r, m') := generate m n p
      -- every refusal other than end-of-file is canonicalised to `Rejected` (the exception class of a
      -- malformed body value is an accident of numpy/bytes internals)
      (match r with | .ok e => showBits e | .error .eof => "EOFError" | .error _ => "Rejected") :: runCalls m' cs
  | m, .dist p :: cs => (match probDist m p with | .ok d => showHVal d | .error e => showErr e) :: runCalls m cs
  | m, .label :: cs => showHVal m.label :: runCalls m cs
  | m, .extra k :: cs =>
      (match m.extras.find? (·.1 == k) with | some kv => showHVal kv.2 | none => "AttributeError") :: runCalls m cs

def c18 : List String → Option String
  | ["run", start, lines, calls] => do
      let start ← (if start == "X" then some none else (parseInt? start).map some)
      let lines ← (if lines == "." then some [] else (lines.splitOn "|").mapM parseLine?)
      let calls ← (if calls == "." then some [] else (calls.splitOn ",").mapM parseCall?)
      match openModel lines start with
      | .error e => pure ("open=" ++ showErr e)
      | .ok m => pure ("open=ok " ++ "|".intercalate (runCalls m calls))
  | ["comment", raw] => do let raw ← hexDecode? raw; pure (showBool (isCommentOrBlank raw.toList))
  -- the whole file text (code points), split into lines by the model; one token per line
  | ["runtext", start, text, toks, calls] => do
      let start ← (if start == "X" then some none else (parseInt? start).map some)
      let text ← textDecode? text
      let toks ← (if toks == "." then some [] else (toks.splitOn "|").mapM parseTok?)
      let raws := splitLines text
      if raws.length != toks.length then none else
      let lines := (raws.zip toks).map fun (r, t) => ({ raw := r, tok := t } : Line)
      let calls ← (if calls == "." then some [] else (calls.splitOn ",").mapM parseCall?)
      match openModel lines start with
      | .error e => pure ("open=" ++ showErr e)
      | .ok m => pure ("open=ok " ++ "|".intercalate (runCalls m calls))
  | ["commenttext", raw] => do let raw ← textDecode? raw; pure (showBool (isCommentOrBlank raw))
  | ["splittext", text] => do
      let text ← textDecode? text
      pure (toString (splitLines text).length ++ ":" ++ ",".intercalate ((splitLines text).map fun l => toString l.length))
  | _ => none

end Qec.Drv
