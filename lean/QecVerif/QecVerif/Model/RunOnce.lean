/-
  C01 — `qecsim.app._run_once`, `run_once`, `run_once_ftp` (argument validation included).
  The error model, the rng and the decoder are parameters: their scripted outputs are inputs.
-/
import QecVerif.Model.GF2
namespace Qec

inductive Mode | ideal | ftp deriving DecidableEq, Repr

/-- what the decoder returns -/
inductive Answer
  | bareNone                      -- a non-DecodeResult `None`
  | bare (r : BVec)               -- a bare recovery
  | result (success : Option Bool) (lc : Option (List Int)) (recovery : Option BVec) (cv : Option (List Int))
  deriving Repr

structure RunOut where
  errorWeight : Nat
  success : Bool
  lc : Option (List Int)
  cv : Option (List Int)
  deriving DecidableEq, Repr

/-- what `_run_once` hands to the decoder -/
structure DecoderInput where
  syndrome : List BVec           -- ideal: one row (passed as 1-d); ftp: T rows
  error : BVec                   -- XOR of the step errors
  stepMeas : List BVec           -- the measurement errors actually used
  rngChoiceCalls : Nat           -- how many times rng.choice was called
  deriving DecidableEq, Repr

inductive RunErr
  | qecsim                      -- DecodeResult(recovery=None): QecsimError
  | valueTimeSteps | valueP | valueQ
  deriving DecidableEq, Repr

def bvecToInts (b : BVec) : List Int := b.map fun x => if x then 1 else 0

/-- Python's `list[t-1]` for `t ∈ range(T)`: index −1 is the last element -/
def prevIdx (T t : Nat) : Nat := if t = 0 then T - 1 else t - 1

/-- measurement errors actually used: the scripted flips when `q` is truthy, zeros otherwise -/
def usedMeas (qTruthy : Bool) (m : Nat) (scripted : List BVec) (T : Nat) : List BVec :=
  if qTruthy then scripted else List.replicate T (zeros m)

/-- syndrome rows: `m[t-1] ^ s[t] ^ m[t]` -/
def syndromeRows (S : List BVec) (stepErrors meas : List BVec) : List BVec :=
  let T := stepErrors.length
  (List.range T).map fun t =>
    xorV (xorV (meas.getD (prevIdx T t) []) (synd S (stepErrors.getD t []))) (meas.getD t [])

def decoderInput (n : Nat) (S : List BVec) (stepErrors scriptedMeas : List BVec) (qTruthy : Bool) : DecoderInput :=
  let T := stepErrors.length
  let meas := usedMeas qTruthy S.length scriptedMeas T
  { syndrome := syndromeRows S stepErrors meas
    error := xorAll (2 * n) stepErrors
    stepMeas := meas
    rngChoiceCalls := if qTruthy then T else 0 }

/-- the verdict part of `_run_once` -/
def resolve (S L : List BVec) (stepErrors : List BVec) (error : BVec) (ans : Answer) : Except RunErr RunOut :=
  let ew := bsfWtMat stepErrors
  match ans with
  | .bareNone => .error .qecsim
  | .bare r =>
      let recovered := xorV r error
      let cs := isZero (synd S recovered)
      let lcs := synd L recovered
      .ok { errorWeight := ew, success := cs && isZero lcs, lc := some (bvecToInts lcs), cv := none }
  | .result success lc recovery cv =>
      match recovery with
      | none => .ok { errorWeight := ew, success := success.getD false, lc := lc, cv := cv }
      | some r =>
          let recovered := xorV r error
          let cs := isZero (synd S recovered)
          let lcs := synd L recovered
          let resolved := cs && isZero lcs
          .ok { errorWeight := ew
                success := match success with | none => resolved | some s => s
                lc := match lc with | none => some (bvecToInts lcs) | some v => some v
                cv := cv }

def runOnceCore (n : Nat) (S L : List BVec) (stepErrors scriptedMeas : List BVec) (qTruthy : Bool)
    (ans : Answer) : DecoderInput × Except RunErr RunOut :=
  let di := decoderInput n S stepErrors scriptedMeas qTruthy
  (di, resolve S L stepErrors di.error ans)

/-- `0 <= p <= 1` on exact rationals (floats are rationals; NaN is handled by the harness as
    "not in range") -/
def probOk (p : Rat) : Bool := decide (0 ≤ p) && decide (p ≤ 1)

/-- the measurement-probability default: `None ↦ 0.0 if T == 1 else p` -/
def resolveQ (T : Int) (p : Rat) (q : Option Rat) : Rat :=
  match q with | some q => q | none => if T = 1 then 0 else p

/-- argument validation of `run_once_ftp` (time steps, then p, then q) -/
def validateOnceFtp (T : Int) (p : Rat) (q : Option Rat) : Except RunErr Rat :=
  if ¬ (T ≥ 1) then .error .valueTimeSteps
  else if !probOk p then .error .valueP
  else if !(match q with | none => true | some q => probOk q) then .error .valueQ
  else .ok (resolveQ T p q)

/-- argument validation of `run_ftp` (p, then time steps, then q) -/
def validateRunFtp (T : Int) (p : Rat) (q : Option Rat) : Except RunErr Rat :=
  if !probOk p then .error .valueP
  else if ¬ (T ≥ 1) then .error .valueTimeSteps
  else if !(match q with | none => true | some q => probOk q) then .error .valueQ
  else .ok (resolveQ T p q)

/-- argument validation of `run_once` / `run` -/
def validateIdeal (p : Rat) : Except RunErr Rat :=
  if !probOk p then .error .valueP else .ok 0

end Qec
