/-
  C02 / C13 / C14 — the EDGE WEIGHTS of `PlanarCMWPMDecoder`: `StepGrid` (`_planarcmwpmdecoder.py:203-573`):
  `set_background` (the grid of site weights: `initial` on sites, multiplied by `factor` outside the box of every
  matched pair, four box shapes 't' / 'r' / 'f' / 'l') and `distance` (three path algorithms 1 / 2 / 4).

  Mirrored literally:
  * grid shape `(bounds[0] + 3, bounds[1] + 3)` = `(2R + 1, 2C + 1)`; `_grid[::2, ::2] = _grid[1::2, 1::2] = initial`;
  * `_syndrome_to_grid_index` (+1, +1), `_box_corners`, the clamped `_multiply_box` and `_multiply_box_complement`
    (top rows `[:min_r]`, bottom rows `[max_r + 1:]`, left / right columns of the rows in between), `_box_tight`,
    `_box_rounded`, `_box_fitted`, `_box_loose`; a pair of two virtual indices is skipped;
  * `distance`: 0 when both indices are virtual, else `_distance_1` / `_distance_2` / `_distance_4` as sums of slices.

  A cell is multiplied once per slice that contains it: `count` is that number of slices for one matched pair, and the
  cell value is `initial · factor ^ (sum of counts)`.  Arithmetic is exact (`Rat`); the real grid is float64 (the
  harness restricts to backgrounds whose products are exact in binary64 or compares within 1e-12).  All slice bounds
  that occur are ≥ 0 (grid indices are ≥ 0, corners ≥ −1, `min_r = max(0, ·)`), so no negative-index wrap-around of
  numpy slices is involved.
-/
import QecVerif.Model.Lattice.Planar
namespace Qec.StepGrid
open Qec

abbrev Idx := Int × Int
inductive Shape | t | r | f | l deriving DecidableEq, Repr

structure Dim where
  nr : Int
  nc : Int

def dim (R C : Int) : Dim := ⟨2 * R + 1, 2 * C + 1⟩

/-- `_syndrome_to_grid_index` -/
def gi (i : Idx) : Idx := (i.1 + 1, i.2 + 1)

/-- `_box_corners` of two grid indices: `(min_r, min_c), (max_r, max_c)` -/
def corners (a b : Idx) : Idx × Idx := ((min a.1 b.1, min a.2 b.2), (max a.1 b.1, max a.2 b.2))

/-- is cell `(r, c)` in the slice of `_multiply_box(tl, br)`? -/
def inBox (d : Dim) (tl br : Idx) (r c : Int) : Bool :=
  let minr := max 0 tl.1; let maxr := min (d.nr - 1) br.1
  let minc := max 0 tl.2; let maxc := min (d.nc - 1) br.2
  decide (minr ≤ r ∧ r < maxr + 1 ∧ minc ≤ c ∧ c < maxc + 1)

/-- number of slices of `_multiply_box_complement(tl, br)` that contain cell `(r, c)` -/
def inComplement (d : Dim) (tl br : Idx) (r c : Int) : Nat :=
  let minr := max 0 tl.1; let maxr := min (d.nr - 1) br.1
  let minc := max 0 tl.2; let maxc := min (d.nc - 1) br.2
  (if r < minr then 1 else 0) + (if maxr + 1 ≤ r then 1 else 0) +
  (if minr ≤ r ∧ r < maxr + 1 ∧ c < minc then 1 else 0) + (if minr ≤ r ∧ r < maxr + 1 ∧ maxc + 1 ≤ c then 1 else 0)

def b2n (b : Bool) : Nat := if b then 1 else 0

/-- how often `set_background` multiplies cell `(r, c)` by `factor` for ONE matched pair (syndrome indices) -/
def count (d : Dim) (sh : Shape) (src tgt : Idx) (r c : Int) : Nat :=
  let s := gi src; let t := gi tgt
  let cs := corners s t
  let minr := cs.1.1; let minc := cs.1.2; let maxr := cs.2.1; let maxc := cs.2.2
  match sh with
  | .t => inComplement d (minr, minc) (maxr, maxc) r c
  | .l => inComplement d (minr - 1, minc - 1) (maxr + 1, maxc + 1) r c
  | .r =>
    inComplement d (minr - 1, minc - 1) (maxr + 1, maxc + 1) r c +
    (if minr = maxr then
      b2n (inBox d (minr - 1, minc - 1) (maxr + 1, minc) r c) + b2n (inBox d (minr - 1, maxc) (maxr + 1, maxc + 1) r c)
    else if minc = maxc then
      b2n (inBox d (minr - 1, minc - 1) (minr, maxc + 1) r c) + b2n (inBox d (maxr, minc - 1) (maxr + 1, maxc + 1) r c)
    else
      b2n (inBox d (minr - 1, minc - 1) (minr, minc) r c) + b2n (inBox d (maxr, maxc) (maxr + 1, maxc + 1) r c) +
      b2n (inBox d (minr - 1, maxc) (minr, maxc + 1) r c) + b2n (inBox d (maxr, minc - 1) (maxr + 1, minc) r c))
  | .f =>
    inComplement d (minr - 1, minc - 1) (maxr + 1, maxc + 1) r c +
    (if minr = maxr then
      b2n (inBox d (minr - 1, minc - 1) (maxr + 1, minc) r c) + b2n (inBox d (minr - 1, maxc) (maxr + 1, maxc + 1) r c)
    else if minc = maxc then
      b2n (inBox d (minr - 1, minc - 1) (minr, maxc + 1) r c) + b2n (inBox d (maxr, minc - 1) (maxr + 1, maxc + 1) r c)
    else if (if s.1 < t.1 ∨ (s.1 = t.1 ∧ s.2 ≤ t.2) then s else t) = (minr, minc) then   -- `min(src_i, tgt_i) == (min_r, min_c)`
      b2n (inBox d (minr - 1, minc - 1) (minr, minc) r c) + b2n (inBox d (maxr, maxc) (maxr + 1, maxc + 1) r c)
    else
      b2n (inBox d (minr - 1, maxc) (minr, maxc + 1) r c) + b2n (inBox d (maxr, minc - 1) (maxr + 1, minc) r c))

/-- a matched pair contributes unless both indices are virtual (out of bounds) -/
def active (R C : Int) (p : Idx × Idx) : Bool := Planar.inBounds R C p.1.1 p.1.2 || Planar.inBounds R C p.2.1 p.2.2

/-- total number of multiplications of cell `(r, c)` -/
def totalCount (R C : Int) (sh : Shape) (pairs : List (Idx × Idx)) (r c : Int) : Nat :=
  (pairs.map fun p => if active R C p then count (dim R C) sh p.1 p.2 r c else 0).sum

/-- the grid after `set_background(pairs, factor, initial, shape)`: value of cell `(r, c)` -/
def cell (R C : Int) (initial factor : Rat) (sh : Shape) (pairs : List (Idx × Idx)) (r c : Int) : Rat :=
  if r % 2 = c % 2 then initial * factor ^ totalCount R C sh pairs r c else 0

/-- the whole grid, row by row -/
def grid (R C : Int) (initial factor : Rat) (sh : Shape) (pairs : List (Idx × Idx)) : List (List Rat) :=
  (List.range (2 * R + 1).toNat).map fun (r : Nat) =>
    (List.range (2 * C + 1).toNat).map fun (c : Nat) => cell R C initial factor sh pairs r c

/-- `np.sum(grid[lo:hi, col])` / `np.sum(grid[row, lo:hi])` for `0 ≤ lo` -/
def sumRange (f : Int → Rat) (lo hi : Int) : Rat :=
  ((List.range (hi - lo).toNat).map fun (k : Nat) => f (lo + k)).sum

/-- `distance(src_i, tgt_i, algorithm)`; `g r c` is the grid -/
def distance (R C : Int) (g : Int → Int → Rat) (alg : Nat) (src tgt : Idx) : Rat :=
  if !(Planar.inBounds R C src.1 src.2 || Planar.inBounds R C tgt.1 tgt.2) then 0 else
  let s := gi src; let t := gi tgt
  let cs := corners s t
  let minr := cs.1.1; let minc := cs.1.2; let maxr := cs.2.1; let maxc := cs.2.2
  let d1 := sumRange (fun r => g r s.2) minr maxr + sumRange (fun c => g t.1 c) minc maxc
  let d2 := sumRange (fun c => g s.1 c) minc maxc + sumRange (fun r => g r t.2) minr maxr
  if alg = 1 then d1
  else if alg = 2 then min d1 d2
  else
    let midr := (minr + maxr) / 2
    let d3 := sumRange (fun r => g r s.2) minr midr + sumRange (fun c => g midr c) minc maxc +
              sumRange (fun r => g r t.2) midr maxr
    let midc := (minc + maxc) / 2
    let d4 := sumRange (fun c => g s.1 c) minc midc + sumRange (fun r => g r midc) minr maxr +
              sumRange (fun c => g t.1 c) midc maxc
    min (min (min d1 d2) d3) d4

/-- distance over the background of `pairs` -/
def bgDistance (R C : Int) (initial factor : Rat) (sh : Shape) (pairs : List (Idx × Idx)) (alg : Nat)
    (src tgt : Idx) : Rat :=
  distance R C (cell R C initial factor sh pairs) alg src tgt

end Qec.StepGrid
