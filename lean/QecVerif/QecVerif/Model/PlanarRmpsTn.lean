/-
  C10 — the planar ROTATED MPS decoder's tensor network and its optimised contraction, mirroring
  `qecsim.models.planar._planarrmpsdecoder.PlanarRMPSDecoder` (`TNC.h_node_value`, `v_node_value`, `create_h_node`,
  `create_v_node`, `create_tn`; `_coset_probabilities._logical_x`, `._logical_z`, `._tn_contract_optimized`).

  * scalars are `Int` numerators over a common power-of-two denominator `D` (as in Model/PlanarTn.lean): every entry
    of a node is one of the four given probabilities or 0, so `entry_real = entry_model / D` exactly;
  * `create_tn`: the network has shape `(R+C-1) x (R+C-1)`; the qubit at lattice index `(r, c)` (h-node: both even,
    v-node: both odd) is stored at `_rotate_q_index (r, c) = ((r+c)/2, R-1 + (c-r)/2)`; the model inverts that map:
    cell `(a, b)` holds the qubit `(r, c) = (a - b + R - 1, a + b - R + 1)` when that index is in bounds, else `None`
    (`np.empty(dtype=object)`);
  * `create_h_node` / `create_v_node`: the bare node `nesw` (shape from the compass-direction table, entries
    `h_node_value` / `v_node_value`) is multiplied with `tsr.delta((2,2,2))` tensors and reshaped to four legs.  An
    einsum with delta tensors is an equality constraint, so the model evaluates it directly: a LEG LAYOUT
    (`hLayout` / `vLayout`, read off the einsum output strings and the reshape, most significant letter first) says
    which copies of which of the bare indices `n, e, s, w` make up each leg; the entry is the bare value when all
    copies of every letter agree, else 0.  The tensor-by-tensor comparison with the real `create_tn` on every harness
    run is what ties this evaluation to the real einsum / reshape.
  * `_logical_x` / `_logical_z` (major / minor diagonal) as site lists; `_tn_contract_optimized` as `optimized`:
    `left_stop = min(code.size) - 1`, `right_stop = tns[0].shape[1] - min(code.size)`, the shared `bra_i` / `ket_i`
    partial contractions of `tns[0]`, `np.column_stack((bra_i, tns[j][:, left_stop:right_stop + 1], ket_i))`, the
    mask slice `mask[:, left_stop - 1:right_stop + 2]`, the full right-to-left contraction and the multipliers.

  Imports nothing outside core (linked into `qvdriver`).
-/
import QecVerif.Model.PlanarTn
namespace Qec.PlanarRmpsTn
open Qec Qec.Tensor Qec.Coset Qec.PlanarTn

/-- the four indices of the bare node -/
inductive Letter | n | e | s | w
deriving DecidableEq, Repr

/-- four legs (N, E, S, W of the rotated network), each a list of copies of bare indices, most significant first -/
abbrev Layout := List Letter × List Letter × List Letter × List Letter

/-- `create_h_node`: the einsum output / reshape of each compass direction.
    'n':  `nesw,sKl->neKlw`  → (.n)(..)(eK)(lw);   'ne': reshape → (.n)(.e)(..)(sw);
    'e':  `nesw,wLi->inesL`  → (in)(.e)(..)(sL);   'se': `nesw->wnes` → (wn)(.e)(.s)(..);
    's':  `nesw,nIj->wIjes`  → (wI)(je)(.s)(..);   'sw': reshape → (..)(ne)(.s)(.w);
    'w':  `nesw,eJk->nJksw`  → (..)(nJ)(ks)(.w);   'nw': reshape → (.n)(..)(es)(.w);
    default: `nesw,nIj,eJk,sKl,wLi->iIjJkKlL` → (iI)(jJ)(kK)(lL)
    with the delta identifications n=I=j, e=J=k, s=K=l, w=L=i -/
def hLayout : RowDir → ColDir → Layout
  | .n, .mid => ([.n], [], [.e, .s], [.s, .w])
  | .n, .e => ([.n], [.e], [], [.s, .w])
  | .mid, .e => ([.w, .n], [.e], [], [.s, .w])
  | .s, .e => ([.w, .n], [.e], [.s], [])
  | .s, .mid => ([.w, .n], [.n, .e], [.s], [])
  | .s, .w => ([], [.n, .e], [.s], [.w])
  | .mid, .w => ([], [.n, .e], [.e, .s], [.w])
  | .n, .w => ([.n], [], [.e, .s], [.w])
  | .mid, .mid => ([.w, .n], [.n, .e], [.e, .s], [.s, .w])

/-- `create_v_node`: `nesw,nIj,eJk,sKl,wLi->IiJjKkLl` → (Ii)(Jj)(Kk)(Ll) -/
def vLayout : Layout := ([.n, .w], [.e, .n], [.s, .e], [.w, .s])

/-- dimension of a bare index -/
def ldim (sh : Nat × Nat × Nat × Nat) : Letter → Nat
  | .n => sh.1 | .e => sh.2.1 | .s => sh.2.2.1 | .w => sh.2.2.2

/-- dimension of a leg: product of the dimensions of its letters -/
def legDim (sh : Nat × Nat × Nat × Nat) (leg : List Letter) : Nat := (leg.map (ldim sh)).foldl (· * ·) 1

/-- C-order decoding of a leg index into the values of its letters -/
def legBits (sh : Nat × Nat × Nat × Nat) : List Letter → Nat → List (Letter × Nat)
  | [], _ => []
  | a :: rest, x => (a, x / legDim sh rest % ldim sh a) :: legBits sh rest x

/-- value of a letter among the decoded copies: the first copy (0 when there is none) -/
def valOf (bits : List (Letter × Nat)) (a : Letter) : Nat :=
  match bits.find? (fun p => p.1 == a) with
  | some p => p.2
  | none => 0

/-- all copies of every letter agree -/
def consistent (bits : List (Letter × Nat)) : Bool := bits.all fun p => p.2 == valOf bits p.1

/-- entry of a node with the given bare shape, layout and bare value function at leg indices `(i, j, k, l)` -/
def nodeEntry (sh : Nat × Nat × Nat × Nat) (lay : Layout) (bare : Nat → Nat → Nat → Nat → Int) (i j k l : Nat) : Int :=
  let bits := legBits sh lay.1 i ++ legBits sh lay.2.1 j ++ legBits sh lay.2.2.1 k ++ legBits sh lay.2.2.2 l
  if consistent bits then bare (valOf bits .n) (valOf bits .e) (valOf bits .s) (valOf bits .w) else 0

def mkNode (sh : Nat × Nat × Nat × Nat) (lay : Layout) (bare : Nat → Nat → Nat → Nat → Int) : T4 :=
  T4.ofFn (legDim sh lay.1) (legDim sh lay.2.1) (legDim sh lay.2.2.1) (legDim sh lay.2.2.2) (nodeEntry sh lay bare)

/-- `TNC.create_h_node(prob_dist, f, compass_direction)` -/
def hNode (d : Dist Int) (f : P1) (rd : RowDir) (cd : ColDir) : T4 :=
  mkNode (nodeShape rd cd) (hLayout rd cd) (hNodeValue d f)

/-- `TNC.create_v_node(prob_dist, f)` -/
def vNode (d : Dist Int) (f : P1) : T4 := mkNode (2, 2, 2, 2) vLayout (vNodeValue d f)

/-- `_rotate_q_index((r, c), code)` for a site index (r, c of equal parity, so the float divisions are exact) -/
def rotate (R : Int) (r c : Int) : Int × Int := ((r + c) / 2, R - 1 + (c - r) / 2)

/-- the lattice index stored at network cell `(a, b)` (the inverse of `rotate`) -/
def unrotate (R : Int) (a b : Nat) : Int × Int := ((a : Int) - (b : Int) + (R - 1), (a : Int) + (b : Int) - (R - 1))

/-- the site `create_tn` leaves at network cell `(a, b)`: the h-node (even lattice index; compass direction from
    `{0: 'n', bounds[0]: 's'}` / `{0: 'w', bounds[1]: 'e'}`) or v-node (odd lattice index) of the qubit stored there,
    or `None` when no in-bounds qubit is mapped to the cell -/
def siteAt (R C : Int) (d : Dist Int) (sample : BVec) (a b : Nat) : Site :=
  let rc := unrotate R a b
  if Planar.inBounds R C rc.1 rc.2 then
    let r := rc.1.toNat
    let c := rc.2.toNat
    let op := Planar.operatorAt R C sample rc.1 rc.2
    if r % 2 = 0 then some (hNode d op (rowDir (2 * R - 1).toNat r) (colDir (2 * C - 1).toNat c))
    else some (vNode d op)
  else none

/-- `TNC.create_tn(prob_dist, sample_pauli)` for the `R x C` planar code -/
def rmpsTn (R C : Int) (d : Dist Int) (sample : BVec) : Net :=
  let k := (R + C - 1).toNat
  { nrows := k, ncols := k,
    a := Array.ofFn (n := k * k) fun ix => siteAt R C d sample (ix.val / k) (ix.val % k) }

/-! ### the diagonal logicals of `_coset_probabilities` -/

/-- `zip(range(max_row + 1), range(max_col + 1))` -/
def diagSites (R C : Int) : List (Int × Int) :=
  (List.range (min (Planar.maxRow R) (Planar.maxCol C) + 1).toNat).map fun (i : Nat) => ((i : Int), (i : Int))

/-- `((max_row - r, c) for r, c in site_indices)` when not major -/
def flipMinor (R : Int) (major : Bool) (l : List (Int × Int)) : List (Int × Int) :=
  if major then l else l.map fun rc => (Planar.maxRow R - rc.1, rc.2)

/-- site indices of `_logical_x(pauli, major)`: the diagonal, then down the rightmost column -/
def logicalXSites (R C : Int) (major : Bool) : List (Int × Int) :=
  flipMinor R major (diagSites R C ++
    (pyRange (Planar.maxCol C + 2) (Planar.maxRow R + 1) 2).map fun r => (r, Planar.maxCol C))

/-- site indices of `_logical_z(pauli, major)`: the diagonal, then across the bottom row -/
def logicalZSites (R C : Int) (major : Bool) : List (Int × Int) :=
  flipMinor R major (diagSites R C ++
    (pyRange (Planar.maxRow R + 2) (Planar.maxCol C + 1) 2).map fun c => (Planar.maxRow R, c))

def applyLogicalX (R C : Int) (major : Bool) (f : BVec) : BVec := Planar.sites R C P1.X f (logicalXSites R C major)
def applyLogicalZ (R C : Int) (major : Bool) (f : BVec) : BVec := Planar.sites R C P1.Z f (logicalZSites R C major)

/-- the four samples `sample, X(sample), Z(X(sample)), Z(sample)` whose networks `_coset_probabilities` builds -/
def samples4 (R C : Int) (major : Bool) (f : BVec) : List BVec :=
  [f, applyLogicalX R C major f, applyLogicalZ R C major (applyLogicalX R C major f), applyLogicalZ R C major f]

/-- the four networks of one mode: `create_tn` of the four samples, transposed for the contraction by row -/
def tns4 (R C : Int) (d : Dist Int) (major : Bool) (f : BVec) : List Net :=
  (samples4 R C major f).map fun g => if major then rmpsTn R C d g else (rmpsTn R C d g).transpose

/-! ### `_tn_contract_optimized` -/

/-- `np.column_stack` of 1-d object arrays of length `nrows` -/
def columnStack (nrows : Nat) (cols : List MPS) : Net :=
  { nrows := nrows, ncols := cols.length,
    a := Array.ofFn (n := nrows * cols.length) fun ix =>
      (cols.getD (ix.val % cols.length) []).getD (ix.val / cols.length) none }

/-- `mask[:, a:b]` for `0 ≤ a ≤ b ≤ ncols` -/
def maskSliceCols (m : Mask) (a b : Nat) : Mask :=
  { nrows := m.nrows, ncols := b - a,
    a := Array.ofFn (n := m.nrows * (b - a)) fun ix => m.a.getD (ix.val / (b - a) * m.ncols + a + ix.val % (b - a)) false }

/-- `left_stop = min(code.size) - 1` -/
def leftStop (R C : Int) : Nat := (min R C - 1).toNat
/-- `right_stop = tns[0].shape[1] - min(code.size)` -/
def rightStop (R C : Int) (tn0 : Net) : Nat := ((tn0.ncols : Int) - min R C).toNat

/-- `np.column_stack((bra_i, tns[j][:, left_stop:right_stop + 1], ket_i))` -/
def partialTn (ls rs : Nat) (bra ket : MPS) (tnj : Net) : Net :=
  columnStack tnj.nrows (bra :: ((List.range' ls (rs + 1 - ls)).map tnj.col ++ [ket]))

/-- one coset of `_tn_contract_optimized`: `contract(partial_tn, mask=partial_mask, step=-1) * bra_i_mult *
    ket_i_mult` -/
def cosetValue (ls rs : Nat) (chi : Option Int) (tol : Bool) (bra ket : MPS) (bm km : Int) (mask : Option Mask)
    (tnj : Net) : Except Err Int :=
  match contract (partialTn ls rs bra ket tnj) chi tol none none (some (-1))
      (mask.map fun m => maskSliceCols m (ls - 1) (rs + 2)) with
  | .ok (.scalar v) => .ok (v * bm * km)
  | .ok (.part _ _) => .error .type
  | .error e => .error e

/-- `_tn_contract_optimized(code, coset_ps, tns, mask)` for `tns = tn0 :: …`; returns `left_stop`, `right_stop` and
    the coset values (a partial contraction that came back as a scalar cannot be unpacked: TypeError) -/
def optimized (R C : Int) (chi : Option Int) (tol : Bool) (tns : List Net) (mask : Option Mask) :
    Except Err (Nat × Nat × List Int) :=
  match tns with
  | [] => .error .type
  | tn0 :: _ =>
    let ls := leftStop R C
    let rs := rightStop R C tn0
    match contract tn0 chi tol none (some (ls : Int)) none mask with
    | .ok (.part (some bra) bm) =>
      match contract tn0 chi tol (some (-1)) (some (rs : Int)) (some (-1)) mask with
      | .ok (.part (some ket) km) =>
        match tns.mapM (cosetValue ls rs chi tol bra ket bm km mask) with
        | .ok vs => .ok (ls, rs, vs)
        | .error e => .error e
      | .ok _ => .error .type
      | .error e => .error e
    | .ok _ => .error .type
    | .error e => .error e

/-- the coset values of one contraction mode of `_coset_probabilities` (`major = true`: by column, mode 'c';
    `false`: by row, mode 'r'), no truncation, no mask -/
def cosetValues (R C : Int) (d : Dist Int) (major : Bool) (f : BVec) : Except Err (Nat × Nat × List Int) :=
  optimized R C none false (tns4 R C d major f) none

/-- plain full contraction of the network of one sample (`mps2d.contract(create_tn(...))`) -/
def tnValue (R C : Int) (d : Dist Int) (sample : BVec) : Except Err Result :=
  contract (rmpsTn R C d sample) none false none none none none

end Qec.PlanarRmpsTn
