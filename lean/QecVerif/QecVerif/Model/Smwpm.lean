/-
  C02 / C03 — the RECOVERY CONSTRUCTION of `RotatedPlanarSMWPMDecoder` (`_rotatedplanarsmwpmdecoder.py`) with both
  matchings as PARAMETERS.

  Mirrored (in the order of `decode_ftp`):
  * `_plaquette_indices`, `_graph` (which nodes, which edges; the weights are irrelevant to C02/C03 and not
    modelled): `graphNodes`, `graphEdges`;
  * `_clusters(matches)`: `buildMates`, `minEntry` (= `OrderedDict(sorted(col_mates.items())).popitem(last=False)`),
    `walk` (the inner `while True: try … except KeyError: break`), `clustersLoop`;
  * `_cluster_to_paths_and_defect`, `_path_operator`, `_recovery`;
  * `_cluster_corner_indices`, `_cluster_graph` (nodes in CREATION order, edges over creation indices),
    `_cluster_recovery`;
  * the final `identity ^ _recovery ^ _cluster_recovery`: `decode`.

  Parameters supplied by the harness (recorded from the real code):
  * `matches`  — what `gt.mwpm(graph)` returned for the symmetry graph (pairs of nodes `((t, x, y), is_row)`);
  * `cmatches` — what `gt.mwpm(cluster_graph)` returned, as pairs of CREATION INDICES of `_ClusterNode` objects
    (the objects are compared by identity in qecsim, so an index is the faithful name of a node);
  * the three facts about the numeric parameters that decide which edges exist (`Flags`).
  `time_steps` is `rows.length` (that is what `app.run_once_ftp` / `decode` pass).

  Python dicts are association lists with distinct keys (`dset` keeps that), `del d[k]` / `d.pop(k)` are `dget` +
  `ddel`; a `KeyError` inside the `try` is the `none` branch of the corresponding `dget`.
-/
import QecVerif.Model.Decoders
import QecVerif.Model.Ftp
namespace Qec.Smwpm
open Qec Qec.Dec

/-- `(t, x, y)` -/
abbrev TIdx := Int × Int × Int
/-- `((t, x, y), is_row)` -/
abbrev Node := TIdx × Bool

def sp (i : TIdx) : Idx2 := (i.2.1, i.2.2)

inductive Err
  | crossMatch      -- ValueError('Matching unsupported between rows and columns …')
  | notClosed       -- QecsimError('Cluster is not a closed loop.')
  | oddLength       -- QecsimError('Cluster length is not even.')
  | rowLeft         -- QecsimError('Some row matches unclustered after all column matches clustered.')
  | nonFused        -- QecsimError('Cluster has non-fused non-Y defect.')
  | pathBounds      -- AssertionError in `_path_operator`
  | pathType        -- ValueError('Path undefined between plaquettes of different types …')
  | badNode         -- a cluster match names an object that is not a node / unpacking `None`
  | oddDefective    -- AssertionError: odd number of defective clusters (rotated toric `_cluster_graph`)
  deriving DecidableEq, Repr

/-! ## `_graph` -/

/-- what decides which edges exist: `eta is None`; `measurement_error_probability in (0, 1)`;
    `error_probability == 0` -/
structure Flags where
  etaNone : Bool
  q01 : Bool
  pZero : Bool
  deriving DecidableEq, Repr

/-- the lines of `_plaquette_indices(code)` (`byRow`) or of its transpose: rows `y = max_site_y … -1`, each with
    `x = -1 … max_site_x`; columns `x = -1 … max_site_x`, each with `y = max_site_y … -1` -/
def planarLines (R C : Int) (byRow : Bool) : List (List Idx2) :=
  if byRow then
    (List.range (R + 1).toNat).map fun (j : Nat) =>
      (List.range (C + 1).toNat).map fun (i : Nat) => ((i : Int) - 1, R - 1 - (j : Int))
  else
    (List.range (C + 1).toNat).map fun (i : Nat) =>
      (List.range (R + 1).toNat).map fun (j : Nat) => ((i : Int) - 1, R - 1 - (j : Int))

/-- `(x, y) in syndrome_indices[t]` -/
def isDefect (R C : Int) (rows : List BVec) (t : Nat) (xy : Idx2) : Bool :=
  decide (xy ∈ RotatedPlanar.syndromeToPlaquettes R C (rows.getD t []))

/-- `line_nodes` of one line -/
def lineNodes (R C : Int) (rows : List BVec) (byRow : Bool) (line : List Idx2) : List Node :=
  line.flatMap fun xy => (List.range rows.length).filterMap fun (t : Nat) =>
    if RotatedPlanar.isVirtualPlaquette R C xy.1 xy.2 || isDefect R C rows t xy
    then some (((t : Int), xy.1, xy.2), byRow) else none

/-- all nodes handed to `_add_edge` / `graph.add_edge` in one pass -/
def passNodes (R C : Int) (rows : List BVec) (byRow : Bool) : List Node :=
  (planarLines R C byRow).flatMap (lineNodes R C rows byRow)

/-- the filters of `_add_edge` -/
def addEdgeOk (fl : Flags) (a b : Node) : Bool :=
  (a.2 == b.2) &&
  !(fl.q01 && decide (a.1.1 ≠ b.1.1)) &&
  !(fl.pZero && decide (sp a.1 ≠ sp b.1)) &&
  !(fl.etaNone && (if a.2 then decide (a.1.2.2 ≠ b.1.2.2) else decide (a.1.2.1 ≠ b.1.2.1)))

/-- `graph.add_edge(v_node, v_node_twin, 0)` for every virtual node of the pass -/
def twinEdges (R C : Int) (rows : List BVec) (byRow : Bool) : List (Node × Node) :=
  ((passNodes R C rows byRow).filter fun v => RotatedPlanar.isVirtualPlaquette R C v.1.2.1 v.1.2.2).map
    fun v => (v, (v.1, !v.2))

/-- one `_add_to_graph(by_row)` pass: infinite bias → `combinations(line_nodes, 2)` per line; finite bias →
    `combinations(lattice_nodes, 2)` -/
def passEdges (fl : Flags) (R C : Int) (rows : List BVec) (byRow : Bool) : List (Node × Node) :=
  twinEdges R C rows byRow ++
  (if fl.etaNone then
    (planarLines R C byRow).flatMap fun line => (pairsOf (lineNodes R C rows byRow line)).filter fun p =>
      addEdgeOk fl p.1 p.2
  else (pairsOf (passNodes R C rows byRow)).filter fun p => addEdgeOk fl p.1 p.2)

/-- the keys of the graph (before `SimpleGraph.add_edge` drops reversed duplicates: the twin edges are added once
    per orientation) -/
def graphEdges (fl : Flags) (R C : Int) (rows : List BVec) : List (Node × Node) :=
  passEdges fl R C rows true ++ passEdges fl R C rows false

/-- the nodes: every virtual plaquette and every syndrome defect at every time step, once as a row node and once
    as a column node -/
def graphNodes (R C : Int) (rows : List BVec) : List Node :=
  passNodes R C rows true ++ passNodes R C rows false

/-! ## `_clusters` -/

abbrev Dict := List (TIdx × TIdx)

def dget (d : Dict) (k : TIdx) : Option TIdx := (d.find? fun e => decide (e.1 = k)).map (·.2)
def ddel (d : Dict) (k : TIdx) : Dict := d.filter fun e => !decide (e.1 = k)
/-- `d[k] = v` -/
def dset (d : Dict) (k v : TIdx) : Dict :=
  if (dget d k).isSome then d.map fun e => if e.1 = k then (k, v) else e else d ++ [(k, v)]

/-- the loop building `row_mates`, `col_mates` (returned as `(row, col)`) -/
def buildMates : List (Node × Node) → Dict → Dict → Except Err (Dict × Dict)
  | [], row, col => .ok (row, col)
  | (a, b) :: ms, row, col =>
    if a.1 = b.1 then buildMates ms row col
    else if a.2 ≠ b.2 then .error .crossMatch
    else if a.2 then buildMates ms (dset (dset row a.1 b.1) b.1 a.1) col
    else buildMates ms row (dset (dset col a.1 b.1) b.1 a.1)

/-- Python tuple order on `(t, x, y)` -/
def tlt (a b : TIdx) : Bool :=
  decide (a.1 < b.1) || (decide (a.1 = b.1) && (decide (a.2.1 < b.2.1) || (decide (a.2.1 = b.2.1) && decide (a.2.2 < b.2.2))))

/-- order on dict items `(key, value)` -/
def elt (a b : TIdx × TIdx) : Bool := tlt a.1 b.1 || (decide (a.1 = b.1) && tlt a.2 b.2)

/-- first item of `OrderedDict(sorted(col_mates.items()))` -/
def minEntry : Dict → Option (TIdx × TIdx)
  | [] => none
  | e :: es =>
    match minEntry es with
    | none => some e
    | some m => if elt m e then some m else some e

/-- the inner `while True` loop; returns the cluster and the two dicts at the `break`.  Every `none` branch is the
    `KeyError` of the corresponding statement. -/
def walk : Nat → List TIdx → TIdx → Dict → Dict → List TIdx × Dict × Dict
  | 0, cl, _, col, row => (cl, col, row)
  | f + 1, cl, next, col, row =>
    let cl1 := cl ++ [next]                          -- cluster.append(next_index)
    match dget col next with                         -- del col_mates[next_index]
    | none => (cl1, col, row)
    | some _ =>
      let col1 := ddel col next
      match dget row next with                       -- next_index = row_mates.pop(next_index)
      | none => (cl1, col1, row)
      | some m =>
        let row1 := ddel row next
        let cl2 := cl1 ++ [m]                        -- cluster.append(next_index)
        match dget row1 m with                       -- del row_mates[next_index]
        | none => (cl2, col1, row1)
        | some _ =>
          let row2 := ddel row1 m
          match dget col1 m with                     -- next_index = col_mates.pop(next_index)
          | none => (cl2, col1, row2)
          | some n2 => walk f cl2 n2 (ddel col1 m) row2

/-- the outer `while col_mates` loop -/
def clustersLoop : Nat → Dict → Dict → List (List TIdx) → Except Err (List (List TIdx))
  | 0, _, _, acc => .ok acc
  | f + 1, col, row, acc =>
    match minEntry col with
    | none => if row.isEmpty then .ok acc else .error .rowLeft
    | some e =>
      let w := walk (col.length + 1) [e.1] e.2 (ddel col e.1) row
      if w.1.getLast? ≠ some e.1 then .error .notClosed
      else if w.1.dropLast.length % 2 = 1 then .error .oddLength
      else clustersLoop f w.2.1 w.2.2 (acc ++ [w.1.dropLast])

/-- `_clusters(matches)` -/
def clusters (ms : List (Node × Node)) : Except Err (List (List TIdx)) :=
  match buildMates ms [] [] with
  | .error e => .error e
  | .ok rc => clustersLoop (rc.2.length + 1) rc.2 rc.1 []

/-! ## `_cluster_to_paths_and_defect`, `_path_operator`, `_recovery` -/

def isX (i : TIdx) : Bool := RotatedPlanar.isXPlaquette i.2.1 i.2.2

/-- X indices, Z indices and the Y-defect (final X and Z index) when their numbers are odd -/
def splitCluster (cl : List TIdx) : Except Err (List TIdx × List TIdx × Option (TIdx × TIdx)) :=
  let xs := cl.filter isX
  let zs := cl.filter fun i => !isX i
  if xs.length % 2 ≠ zs.length % 2 then .error .nonFused
  else if xs.length % 2 = 1 then
    match xs.getLast?, zs.getLast? with
    | some dx, some dz => .ok (xs.dropLast, zs.dropLast, some (dx, dz))
    | _, _ => .error .nonFused
  else .ok (xs, zs, none)

/-- `zip(path[::2], path[1::2])` -/
def pairUp : List TIdx → List (TIdx × TIdx)
  | a :: b :: rest => (a, b) :: pairUp rest
  | _ => []

/-- `_start_end_site_coordinate` -/
def startEnd (a b : Int) : Int × Int :=
  if a < b then (a + 1, b) else if a > b then (a, b + 1) else (max b 0, max b 0)

def step1 (e n : Int) : Int := if e - n > 0 then n + 1 else if e - n < 0 then n - 1 else n

/-- the `while True` loop of `_path_operator` -/
def walkSites : Nat → Idx2 → Idx2 → List Idx2
  | 0, cur, _ => [cur]
  | f + 1, cur, e => if cur = e then [cur] else cur :: walkSites f (step1 e.1 cur.1, step1 e.2 cur.2) e

def pathSites (a b : Idx2) : List Idx2 :=
  let sx := startEnd a.1 b.1
  let sy := startEnd a.2 b.2
  walkSites (max (sx.2 - sx.1).natAbs (sy.2 - sy.1).natAbs) (sx.1, sy.1) (sx.2, sy.2)

def okIndex (R C : Int) (a : Idx2) : Bool :=
  RotatedPlanar.inPlaquetteBounds R C a.1 a.2 || RotatedPlanar.isVirtualPlaquette R C a.1 a.2

/-- the path operator as a bsf vector (no error cases) -/
def pathOpT (R C : Int) (a b : Idx2) : BVec :=
  if a = b then RotatedPlanar.identity R C
  else RotatedPlanar.sites R C (if RotatedPlanar.isZPlaquette a.1 a.2 then P1.X else P1.Z) (RotatedPlanar.identity R C)
    (pathSites a b)

/-- `_path_operator(code, a_index, b_index)` -/
def pathOp (R C : Int) (a b : Idx2) : Except Err BVec :=
  if !(okIndex R C a && okIndex R C b) then .error .pathBounds
  else if RotatedPlanar.isZPlaquette a.1 a.2 ≠ RotatedPlanar.isZPlaquette b.1 b.2 then .error .pathType
  else .ok (pathOpT R C a b)

/-- `recovery ^= path(a, b)` for a list of pairs of `(t, x, y)` indices (time is dropped) -/
def applyPairs (R C : Int) : List (TIdx × TIdx) → BVec → Except Err BVec
  | [], v => .ok v
  | (a, b) :: ps, v =>
    match pathOp R C (sp a) (sp b) with
    | .error e => .error e
    | .ok o => applyPairs R C ps (xorV v o)

/-- the pairs fused inside one cluster: successive X indices, then successive Z indices -/
def clusterPairs (cl : List TIdx) : Except Err (List (TIdx × TIdx)) :=
  match splitCluster cl with
  | .error e => .error e
  | .ok (xs, zs, _) => .ok (pairUp xs ++ pairUp zs)

def allClusterPairs : List (List TIdx) → Except Err (List (TIdx × TIdx))
  | [] => .ok []
  | cl :: cls =>
    match clusterPairs cl with
    | .error e => .error e
    | .ok ps =>
      match allClusterPairs cls with
      | .error e => .error e
      | .ok qs => .ok (ps ++ qs)

/-- `_recovery(code, clusters)` -/
def recovery (R C : Int) (cls : List (List TIdx)) : Except Err BVec :=
  match allClusterPairs cls with
  | .error e => .error e
  | .ok ps => applyPairs R C ps (RotatedPlanar.identity R C)

/-! ## `_cluster_graph`, `_cluster_recovery` -/

inductive CKind | defective | neutral | corner | extra
  deriving DecidableEq, Repr

/-- a `_ClusterNode`: `x_index`, `z_index` (dummies for the extra node, whose indices are `None`) -/
structure ClNode where
  kind : CKind
  x : TIdx
  z : TIdx
  deriving DecidableEq, Repr

def ClNode.virt (n : ClNode) : Bool := n.kind = .corner || n.kind = .extra

/-- `_cluster_corner_indices`: `[sw, nw, ne, se]` as `((Xx, Xy), (Zx, Zy))` -/
def cornerIndices (R C : Int) : List (Idx2 × Idx2) :=
  let mx := C - 1
  let my := R - 1
  let sw : Idx2 × Idx2 := ((0, -1), (-1, -1))
  let nw : Idx2 × Idx2 := if my % 2 ≠ 0 then ((0, my), (-1, my)) else ((-1, my), (-1, my - 1))
  let ne : Idx2 × Idx2 := if mx % 2 = my % 2 then ((mx - 1, my), (mx, my)) else ((mx, my), (mx, my - 1))
  let se : Idx2 × Idx2 := if mx % 2 ≠ 0 then ((mx - 1, -1), (mx, -1)) else ((mx, -1), (mx, 0))
  [sw, nw, ne, se]

/-- the `_ClusterNode`s created for one cluster: one defective node, or two neutral nodes, or none -/
def nodesOfCluster (cl : List TIdx) : Except Err (List ClNode) :=
  match splitCluster cl with
  | .error e => .error e
  | .ok (_, _, some (dx, dz)) => .ok [⟨.defective, dx, dz⟩]
  | .ok (x0 :: _, z0 :: _, none) => .ok [⟨.neutral, x0, z0⟩, ⟨.neutral, x0, z0⟩]
  | .ok (_, _, none) => .ok []

def realNodes : List (List TIdx) → Except Err (List ClNode)
  | [] => .ok []
  | cl :: cls =>
    match nodesOfCluster cl with
    | .error e => .error e
    | .ok ns =>
      match realNodes cls with
      | .error e => .error e
      | .ok ms => .ok (ns ++ ms)

def cornerNodes (R C : Int) (T : Nat) : List ClNode :=
  (cornerIndices R C).flatMap fun c => (List.range T).map fun (t : Nat) =>
    ⟨.corner, ((t : Int), c.1.1, c.1.2), ((t : Int), c.2.1, c.2.2)⟩

def nDefective (ns : List ClNode) : Nat := ns.countP fun n => n.kind = .defective

/-- the `_ClusterNode` objects of the cluster graph in CREATION order: per cluster, then the extra node (odd number
    of defective clusters), then the corner nodes.  Empty when there is no defective cluster (empty graph). -/
def clusterNodes (R C : Int) (T : Nat) (cls : List (List TIdx)) : Except Err (List ClNode) :=
  match realNodes cls with
  | .error e => .error e
  | .ok ns =>
    if nDefective ns = 0 then .ok []
    else .ok (ns ++ (if nDefective ns % 2 = 1 then [⟨.extra, (0, 0, 0), (0, 0, 0)⟩] else []) ++ cornerNodes R C T)

/-- edges of the cluster graph over creation indices: corner–extra, and every pair of non-extra nodes -/
def clusterEdgeOk (ns : List ClNode) (i j : Nat) : Bool :=
  match ns[i]?, ns[j]? with
  | some a, some b =>
    if a.kind = .extra then b.kind = .corner
    else if b.kind = .extra then a.kind = .corner
    else true
  | _, _ => false

def clusterEdges (ns : List ClNode) : List (Nat × Nat) :=
  (pairsOf (List.range ns.length)).filter fun p => clusterEdgeOk ns p.1 p.2

/-- the pairs of `(t, x, y)` indices fused by `_cluster_recovery` for one match -/
def matchPairs (ns : List ClNode) (m : Nat × Nat) : Except Err (List (TIdx × TIdx)) :=
  match ns[m.1]?, ns[m.2]? with
  | some a, some b =>
    if a.virt && b.virt then .ok []
    else if a.kind = .extra || b.kind = .extra then .error .badNode
    else .ok [(a.x, b.x), (a.z, b.z)]
  | _, _ => .error .badNode

def allMatchPairs (ns : List ClNode) : List (Nat × Nat) → Except Err (List (TIdx × TIdx))
  | [] => .ok []
  | m :: ms =>
    match matchPairs ns m with
    | .error e => .error e
    | .ok ps =>
      match allMatchPairs ns ms with
      | .error e => .error e
      | .ok qs => .ok (ps ++ qs)

/-- `_cluster_recovery(code, cluster_matches)` -/
def clusterRecovery (R C : Int) (ns : List ClNode) (cms : List (Nat × Nat)) : Except Err BVec :=
  match allMatchPairs ns cms with
  | .error e => .error e
  | .ok ps => applyPairs R C ps (RotatedPlanar.identity R C)

/-! ## `decode_ftp` -/

/-- all pairs fused by the decoder, given both matchings -/
def decodePairs (R C : Int) (T : Nat) (ms : List (Node × Node)) (cms : List (Nat × Nat)) :
    Except Err (List (TIdx × TIdx)) :=
  match clusters ms with
  | .error e => .error e
  | .ok cls =>
    match allClusterPairs cls with
    | .error e => .error e
    | .ok ps =>
      match clusterNodes R C T cls with
      | .error e => .error e
      | .ok ns =>
        match allMatchPairs ns cms with
        | .error e => .error e
        | .ok qs => .ok (ps ++ qs)

/-- `decode_ftp`: `identity ^ _recovery(clusters) ^ _cluster_recovery(cluster_matches)` -/
def decode (R C : Int) (T : Nat) (ms : List (Node × Node)) (cms : List (Nat × Nat)) : Except Err BVec :=
  match clusters ms with
  | .error e => .error e
  | .ok cls =>
    match recovery R C cls with
    | .error e => .error e
    | .ok r1 =>
      match clusterNodes R C T cls with
      | .error e => .error e
      | .ok ns =>
        match clusterRecovery R C ns cms with
        | .error e => .error e
        | .ok r2 => .ok (xorV (xorV (RotatedPlanar.identity R C) r1) r2)

/-- the hypothesis of the theorems: both recorded matchings are perfect matchings of the modelled graphs -/
def matchingsOk (fl : Flags) (R C : Int) (rows : List BVec) (ms : List (Node × Node)) (cms : List (Nat × Nat)) : Bool :=
  isPerfectMatchingOfGraph (graphNodes R C rows) (graphEdges fl R C rows) ms &&
  (match clusters ms with
   | .error _ => false
   | .ok cls =>
     match clusterNodes R C rows.length cls with
     | .error _ => false
     | .ok ns => isPerfectMatchingOfGraph (List.range ns.length) (clusterEdges ns) cms)

/-! ## `RotatedToricSMWPMDecoder` (`_rotatedtoricsmwpmdecoder.py`)

  Shared verbatim with the planar decoder (same Python text; `is_x_plaquette` is the same formula on both codes):
  `_clusters` (`clusters`), `_cluster_to_paths_and_defect` (`splitCluster`), the pairing of successive X / Z indices
  (`allClusterPairs`), the `_ClusterNode`s made per cluster (`realNodes`).  Different: the lattice is periodic — no
  virtual nodes, no twin edges, `_graphs` yields one graph per line (infinite bias) or one graph for all nodes (finite
  bias) and `_matching` unites the matchings; paths are `RotatedToricPauli.path`; the cluster graph has no corner /
  extra nodes and asserts an even number of defective clusters; no match is skipped in the cluster stage.
  The t-parity bookkeeping and the result constructor are Model/Ftp.lean (C03). -/
namespace Toric

/-- lines of `_plaquette_indices`: rows `y = max_y … 0`, each `x = 0 … max_x`; columns are the transpose -/
def lines (R C : Int) (byRow : Bool) : List (List Idx2) :=
  if byRow then
    (List.range R.toNat).map fun (j : Nat) => (List.range C.toNat).map fun (i : Nat) => ((i : Int), R - 1 - (j : Int))
  else
    (List.range C.toNat).map fun (i : Nat) => (List.range R.toNat).map fun (j : Nat) => ((i : Int), R - 1 - (j : Int))

def isDefect (R C : Int) (rows : List BVec) (t : Nat) (xy : Idx2) : Bool :=
  decide (xy ∈ RotatedToric.syndromeToPlaquettes R C (rows.getD t []))

def lineNodes (R C : Int) (rows : List BVec) (byRow : Bool) (line : List Idx2) : List Node :=
  line.flatMap fun xy => (List.range rows.length).filterMap fun (t : Nat) =>
    if isDefect R C rows t xy then some (((t : Int), xy.1, xy.2), byRow) else none

def passNodes (R C : Int) (rows : List BVec) (byRow : Bool) : List Node :=
  (lines R C byRow).flatMap (lineNodes R C rows byRow)

def graphNodes (R C : Int) (rows : List BVec) : List Node :=
  passNodes R C rows true ++ passNodes R C rows false

/-- union of the keys of the graphs `_graphs` yields -/
def graphEdges (fl : Flags) (R C : Int) (rows : List BVec) : List (Node × Node) :=
  if fl.etaNone then
    [true, false].flatMap fun byRow => (lines R C byRow).flatMap fun line =>
      (pairsOf (lineNodes R C rows byRow line)).filter fun p => addEdgeOk fl p.1 p.2
  else (pairsOf (graphNodes R C rows)).filter fun p => addEdgeOk fl p.1 p.2

/-- `new_pauli().path(a, b).to_bsf()` -/
def pathOp (R C : Int) (a b : Idx2) : Except Err BVec :=
  match RotatedToric.path R C (RotatedToric.identity R C) a b with
  | .ok v => .ok v
  | .error _ => .error .pathType

def applyPairs (R C : Int) : List (TIdx × TIdx) → BVec → Except Err BVec
  | [], v => .ok v
  | (a, b) :: ps, v =>
    match pathOp R C (sp a) (sp b) with
    | .error e => .error e
    | .ok o => applyPairs R C ps (xorV v o)

/-- the `_ClusterNode`s in creation order; empty graph without a defective cluster; `assert` on an odd number -/
def clusterNodes (cls : List (List TIdx)) : Except Err (List ClNode) :=
  match realNodes cls with
  | .error e => .error e
  | .ok ns =>
    if nDefective ns = 0 then .ok []
    else if nDefective ns % 2 ≠ 0 then .error .oddDefective
    else .ok ns

/-- every pair of nodes is an edge -/
def clusterEdges (ns : List ClNode) : List (Nat × Nat) := pairsOf (List.range ns.length)

def matchPairs (ns : List ClNode) (m : Nat × Nat) : Except Err (List (TIdx × TIdx)) :=
  match ns[m.1]?, ns[m.2]? with
  | some a, some b => .ok [(a.x, b.x), (a.z, b.z)]
  | _, _ => .error .badNode

def allMatchPairs (ns : List ClNode) : List (Nat × Nat) → Except Err (List (TIdx × TIdx))
  | [] => .ok []
  | m :: ms =>
    match matchPairs ns m with
    | .error e => .error e
    | .ok ps =>
      match allMatchPairs ns ms with
      | .error e => .error e
      | .ok qs => .ok (ps ++ qs)

/-- the operator of `_recovery_tparities(code, T, clusters)` -/
def recovery (R C : Int) (cls : List (List TIdx)) : Except Err BVec :=
  match allClusterPairs cls with
  | .error e => .error e
  | .ok ps => applyPairs R C ps (RotatedToric.identity R C)

/-- the operator of `_cluster_recovery_tparities(code, T, cluster_matches)` -/
def clusterRecovery (R C : Int) (ns : List ClNode) (cms : List (Nat × Nat)) : Except Err BVec :=
  match allMatchPairs ns cms with
  | .error e => .error e
  | .ok ps => applyPairs R C ps (RotatedToric.identity R C)

/-- the `recovery` of the `DecodeResult` returned by `decode_ftp` -/
def decode (R C : Int) (ms : List (Node × Node)) (cms : List (Nat × Nat)) : Except Err BVec :=
  match clusters ms with
  | .error e => .error e
  | .ok cls =>
    match recovery R C cls with
    | .error e => .error e
    | .ok r1 =>
      match clusterNodes cls with
      | .error e => .error e
      | .ok ns =>
        match clusterRecovery R C ns cms with
        | .error e => .error e
        | .ok r2 => .ok (xorV (xorV (RotatedToric.identity R C) r1) r2)

def matchingsOk (fl : Flags) (R C : Int) (rows : List BVec) (ms : List (Node × Node)) (cms : List (Nat × Nat)) : Bool :=
  isPerfectMatchingOfGraph (graphNodes R C rows) (graphEdges fl R C rows) ms &&
  (match clusters ms with
   | .error _ => false
   | .ok cls =>
     match clusterNodes cls with
     | .error _ => false
     | .ok ns => isPerfectMatchingOfGraph (List.range ns.length) (clusterEdges ns) cms)

end Toric

end Qec.Smwpm
