import QecVerif.Model.Wire
import QecVerif.Model.Stream
namespace Qec.Drv
open Qec Qec.Wire Qec.Stream

namespace C17w

/-- comma separated rationals, `_` for the empty list -/
def parseRatList? (s : String) : Option (List Rat) :=
  if s == "_" then some [] else (s.splitOn ",").mapM parseRat?

def showRatList (l : List Rat) : String :=
  if l.isEmpty then "_" else ",".intercalate (l.map showRat)

/-- a stream prefix `den:k1,k2,…` (all uniforms share the denominator, numpy doubles: 2^53) -/
def parseStream? (s : String) : Option (Array Rat) :=
  match s.splitOn ":" with
  | [d, ks] => do
      let d ← d.toNat?
      if d = 0 then none else
      let ks ← parseIntList? ks
      pure (ks.map fun k => mkRat k d).toArray
  | _ => none

def toStream (a : Array Rat) : UStream := fun i => a.getD i 0

def showPStr (p : PStr) : String := if p.isEmpty then "_" else String.ofList (p.map P1.toChar)

def parsePStr? (s : String) : Option PStr :=
  if s == "_" then some [] else s.toList.mapM P1.ofChar?

def showStep (ef : BVec × BVec) : String := showBits ef.1 ++ "|" ++ showBits ef.2
def showRun (r : List (BVec × BVec)) : String := if r.isEmpty then "." else ",".intercalate (r.map showStep)
def showRuns (rs : List (List (BVec × BVec))) : String :=
  if rs.isEmpty then "-" else ";".intercalate (rs.map showRun)

/-- the uniforms a whole `runMany` compares against each cdf: positions of error draws and of flip
    draws are interleaved, so range-check every consumed uniform against both alphabets' sizes -/
def runInRange (n m : Nat) (cdfE : List Rat) (q : Rat) (cdfM : List Rat) (s : UStream) (T R : Nat) : Bool :=
  let stepLen := n + (if q = 0 then 0 else m)
  (List.range (R * T)).all fun k =>
    inRange cdfE (draws s (k * stepLen) n) && (q == 0 || inRange cdfM (draws s (k * stepLen + n) m))

end C17w
open C17w

/-- driver ops of property C17 (first protocol token `c17`) -/
def c17 : List String → Option String
  -- searchsorted(cdf, u, 'right'): the scan and the count form
  | ["idx", cdf, u] => do
      let cdf ← parseRatList? cdf; let u ← parseRat? u
      pure s!"{choiceIdx cdf u} {cdf.countP (· ≤ u)}"
  -- exact normalised cumulative sum of a distribution
  | ["cdf", dist] => do
      let dist ← parseRatList? dist
      pure (showRatList (cdfOf dist))
  -- SimpleErrorModel.generate: with the float cdf numpy computed, and with the exact cdf of dist
  | ["gen", n, dist, cdf, us, pos] => do
      let n ← parseNat? n; let dist ← parseRatList? dist; let cdf ← parseRatList? cdf
      let a ← parseStream? us; let pos ← parseNat? pos
      if pos + n > a.size then pure "stream-exhausted" else
      let s := toStream a
      if !(inRange cdf (draws s pos n)) || !(inRange (cdfOf dist) (draws s pos n)) then pure "IndexError" else
      pure s!"ok {showBits (generate n cdf s pos)} {showBits (generateD n dist s pos)} {pos + n}"
  -- the intermediate Pauli string
  | ["pauli", n, cdf, us, pos] => do
      let n ← parseNat? n; let cdf ← parseRatList? cdf
      let a ← parseStream? us; let pos ← parseNat? pos
      if pos + n > a.size then pure "stream-exhausted" else
      let s := toStream a
      if !(inRange cdf (draws s pos n)) then pure "IndexError" else
      pure s!"ok {showPStr (generatePauli n cdf s pos)}"
  | ["tobsf", p] => do
      let p ← parsePStr? p; pure (showBits (toBsf p))
  -- one step's measurement flips
  | ["meas", m, q, cdfM, us, pos] => do
      let m ← parseNat? m; let q ← parseRat? q; let cdfM ← parseRatList? cdfM
      let a ← parseStream? us; let pos ← parseNat? pos
      if pos + m > a.size then pure "stream-exhausted" else
      let s := toStream a
      if q ≠ 0 && (!(inRange cdfM (draws s pos m)) || !(inRange (cdfOf (measDist q)) (draws s pos m))) then
        pure "IndexError" else
      let f := measFlips m q cdfM s pos
      let g := measFlipsQ m q s pos
      pure s!"ok {showBits f.1} {f.2} {showBits g.1} {g.2}"
  -- R runs of T steps from one stream; q may be N (default rule)
  | ["run", r, t, n, m, p, q, dist, cdfE, cdfM, us] => do
      let r ← parseNat? r; let t ← parseNat? t; let n ← parseNat? n; let m ← parseNat? m
      let p ← parseRat? p; let q ← parseOptRat? q
      let dist ← parseRatList? dist; let cdfE ← parseRatList? cdfE; let cdfM ← parseRatList? cdfM
      let a ← parseStream? us
      let qq := resolveQ q t p
      let need := r * t * (n + (if qq = 0 then 0 else m))
      if need > a.size then pure "stream-exhausted" else
      let s := toStream a
      if !(runInRange n m cdfE qq cdfM s t r) || !(runInRange n m (cdfOf dist) qq (cdfOf (measDist qq)) s t r) then
        pure "IndexError" else
      let f := runMany n m cdfE qq cdfM s t r 0
      let g := runMany n m (cdfOf dist) qq (cdfOf (measDist qq)) s t r 0
      pure s!"ok q={showRat qq} {showRuns f.1} {f.2} {showRuns g.1} {g.2}"
  | _ => none

end Qec.Drv
