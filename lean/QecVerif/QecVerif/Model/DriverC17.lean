import QecVerif.Model.Wire
namespace Qec.Drv
open Qec Qec.Wire

/-- driver ops of property C17 (first protocol token `c17`) -/
def c17 : List String → Option String
  | _ => none

end Qec.Drv
