/-
  C02 / C10 — `qecsim.models.planar.PlanarYDecoder`: the construction of the sample recovery and of the all-Y
  stabilizers / logical, mirroring `_planarydecoder.py` statement by statement.

  * `itertools.cycle(itertools.chain(range…, range…, range…))` becomes an explicit list (`cycDown`, `cycUp`) indexed
    modulo its length (`cyc`); `zip` with a finite `range` becomes a `List.range … |>.map`.
  * `PlanarPauli.site('Y', index)` toggles both halves iff the index is in bounds (`Planar.site`); every index the
    snakes visit has the parity of the start index, which is a site index at every call site of the decoder (the real
    `site` raises IndexError on a plaquette index; the model is only meaningful for site starts).
  * sets (`syndrome_to_plaquette_indices`, the symmetric difference in `_destabilizer`) are lists: they are only ever
    folded with XOR, which is order-independent.
  * the dict `_residual_syndrome_to_recovery_map` is an association list in INSERTION order with `setdefault`
    semantics (first entry for a syndrome wins); `pack`/`unpack` are bijections on vectors of one length and are dropped;
    chunking (`CHUNK_LEN`) does not change the result.
  * `_snake(..., full=True)`: the code computes `operator ^ cls._snake(…opposite direction…)` and DISCARDS the result
    (`^`, not `^=`).  The model mirrors that: the reverse snake is evaluated (it may raise) but not applied.
  * errors: `.error "ValueError"` (`_destabilizer` on a non-co-prime code), `.error "QecsimError"` (infinite-loop guard).
  * `decode`: the two coset probabilities are compared; a tie is `random.choice` and is returned as `none`.

  Imports nothing outside core (linked into `qvdriver`).
-/
import QecVerif.Model.Lattice.Planar
namespace Qec.PlanarY
open Qec Qec.Planar

/-- `range(a, b)` -/
def rangeUp (a b : Int) : List Int := (List.range (b - a).toNat).map fun (i : Nat) => a + (i : Int)
/-- `range(a, b, -1)` -/
def rangeDown (a b : Int) : List Int := (List.range (a - b).toNat).map fun (i : Nat) => a - (i : Int)

/-- `chain(range(s, -2, -1), range(0, hi + 2), range(hi, s, -1))`: from `s` down to just beyond the lower bound,
    up to just beyond `hi`, and back down to just before `s` -/
def cycDown (s hi : Int) : List Int := rangeDown s (-2) ++ (rangeUp 0 (hi + 2) ++ rangeDown hi s)
/-- `chain(range(s, hi + 2), range(hi, -2, -1), range(0, s))` -/
def cycUp (s hi : Int) : List Int := rangeUp s (hi + 2) ++ (rangeDown hi (-2) ++ rangeUp 0 s)

/-- element `k` of `itertools.cycle(l)` -/
def cyc (l : List Int) (k : Nat) : Int := l.getD (k % l.length) 0

/-- the indices one seed of `_snake_fill` visits: `zip(range(seed_r, max_r + 1), cycle(…))` (down) or
    `zip(cycle(…), range(seed_c, max_c + 1))` (right) -/
def raySites (R C : Int) (seed : Int × Int) (down : Bool) : List (Int × Int) :=
  if down then
    let cs := cycDown seed.2 (maxCol C)
    (List.range (maxRow R + 1 - seed.1).toNat).map fun (j : Nat) => (seed.1 + (j : Int), cyc cs j)
  else
    let rs := cycDown seed.1 (maxRow R)
    (List.range (maxCol C + 1 - seed.2).toNat).map fun (j : Nat) => (cyc rs j, seed.2 + (j : Int))

/-- the seeds of `_snake_fill`: `zip(range(start_r, max_r + 1), range(start_c, max_c + 1))` -/
def fillSeeds (R C : Int) (start : Int × Int) : List (Int × Int) :=
  (List.range (min (maxRow R + 1 - start.1).toNat (maxCol C + 1 - start.2).toNat)).map fun (k : Nat) =>
    (start.1 + (k : Int), start.2 + (k : Int))

/-- every index `_snake_fill` applies Y to, in order (out-of-bounds ones are ignored by `site`) -/
def snakeFillSites (R C : Int) (start : Int × Int) (down : Bool) : List (Int × Int) :=
  if inBounds R C start.1 start.2 then (fillSeeds R C start).flatMap fun seed => raySites R C seed down else []

/-- `_snake_fill(code, start_index, down)` -/
def snakeFill (R C : Int) (start : Int × Int) (down : Bool) : BVec :=
  sites R C P1.Y (identity R C) (snakeFillSites R C start down)

/-- the `for next_index in index_it` loop of `_snake`; `k` = number of indices consumed = `count`;
    result: the indices Y was applied to (reversed) and `looped`; `.error` = the infinite-loop guard fired -/
def snakeGo (start : Int × Int) (se skipFirst : Bool) (rows cols : List Int) (maxCount : Nat) :
    Nat → Nat → Option (Int × Int) → Option (Int × Int) → List (Int × Int) → Except String (List (Int × Int) × Bool)
  | 0, _, _, _, _ => .error "QecsimError"
  | fuel + 1, k, prev, cur, acc =>
    let next : Int × Int := (cyc rows k, cyc cols k)
    let back : Int × Int := if se then (next.1 - 1, next.2 - 1) else (next.1 + 1, next.2 + 1)
    if next == start && cur == some back then .ok (acc, true)
    else if prev == some next then .ok (acc, false)
    else
      let acc' := if skipFirst && cur.isNone then acc else next :: acc
      if k + 1 > maxCount then .error "QecsimError"
      else snakeGo start se skipFirst rows cols maxCount fuel (k + 1) cur (some next) acc'

/-- one direction of `_snake`: the indices Y is applied to and whether the snake looped -/
def snakeDir (R C : Int) (start : Int × Int) (se skipFirst : Bool) : Except String (List (Int × Int) × Bool) :=
  let rows := if se then cycUp start.1 (maxRow R) else cycDown start.1 (maxRow R)
  let cols := if se then cycUp start.2 (maxCol C) else cycDown start.2 (maxCol C)
  let maxCount := (nQubits R C).toNat * 100
  match snakeGo start se skipFirst rows cols maxCount (maxCount + 1) 0 none none [] with
  | .error e => .error e
  | .ok (acc, looped) => .ok (acc.reverse, looped)

/-- `_snake(code, start_index, se, full, skip_first)`; the reverse half is evaluated and discarded, as in the code -/
def snake (R C : Int) (start : Int × Int) (se full skipFirst : Bool) : Except String BVec :=
  if !inBounds R C start.1 start.2 then .ok (identity R C)
  else match snakeDir R C start se skipFirst with
    | .error e => .error e
    | .ok (l, looped) =>
      let op := sites R C P1.Y (identity R C) l
      if full && !looped then
        match snakeDir R C start (!se) true with
        | .error e => .error e
        | .ok _ => .ok op          -- `operator ^ cls._snake(...)`: result dropped
      else .ok op

/-- `bsp(op, code.stabilizers.T)` -/
def syndrome (R C : Int) (op : BVec) : BVec := synd (stabilizers R C) op

/-- `_partial_recovery(code, syndrome_index)` -/
def partialRecovery (R C : Int) (p : Int × Int) : BVec :=
  if !inBounds R C p.1 p.2 then identity R C
  else if R < C then snakeFill R C (p.1, p.2 + 1) false
  else snakeFill R C (p.1 + 1, p.2) true

/-- set symmetric difference with a singleton (order irrelevant: only folded with XOR) -/
def symmDiff1 (l : List (Int × Int)) (p : Int × Int) : List (Int × Int) :=
  if l.contains p then l.filter (· != p) else l ++ [p]

def coprime (R C : Int) : Bool := Nat.gcd R.toNat C.toNat == 1

/-- `_destabilizer(code, syndrome_index)` -/
def destabilizer (R C : Int) (p : Int × Int) : Except String BVec :=
  if !coprime R C then .error "ValueError"
  else if !inBounds R C p.1 p.2 then .ok (identity R C)
  else
    let d0 := snakeFill R C (p.1 + 1, p.2) true
    let rest := symmDiff1 (syndromeToPlaquettes R C (syndrome R C d0)) p
    rest.foldlM (fun d q => (snake R C (q.1, q.2 - 1) false false false).map (xorV d)) d0

/-! ### the residual look-up table -/

/-- the first-stage operators: snake-fill-right from each edge of the left boundary (rows < columns), else
    snake-fill-down from each edge of the upper boundary -/
def boundaryOps (R C : Int) : List BVec :=
  if R < C then (List.range R.toNat).map fun (i : Nat) => snakeFill R C (2 * (i : Int), 0) false
  else (List.range C.toNat).map fun (i : Nat) => snakeFill R C (0, 2 * (i : Int)) true

/-- `_add`: `residual_map.setdefault(syndrome, recovery)` for each recovery, skipping trivial syndromes on request -/
def addEntries (S : List BVec) (m : List (BVec × BVec)) (ops : List BVec) (skipTrivial : Bool) : List (BVec × BVec) :=
  ops.foldl (fun m o =>
    let s := synd S o
    if skipTrivial && isZero s then m
    else if m.any (fun e => e.1 == s) then m
    else m ++ [(s, o)]) m

/-- `chain.from_iterable(combinations(xs, n) for n in range(1, len(xs) + 1))` -/
def allCombinations {α} (xs : List α) : List (List α) :=
  (List.range xs.length).flatMap fun n => Qec.combinations xs (n + 1)

/-- `np.sum(operator_set, axis=0) % 2` -/
def xorSet (m : Nat) (set : List BVec) : BVec := set.foldl xorV (zeros m)

/-- `_residual_syndrome_to_recovery_map(code)`: (syndrome, recovery) pairs in insertion order -/
def residualMap (R C : Int) : List (BVec × BVec) :=
  let S := stabilizers R C
  let m1 := addEntries S [] (boundaryOps R C) true
  let operators := m1.map (·.2)
  let m2 := addEntries S m1 ((allCombinations operators).map (xorSet (2 * (nQubits R C).toNat))) true
  addEntries S m2 [identity R C] false

/-- dict look-up; `none` = KeyError -/
def lookup (m : List (BVec × BVec)) (s : BVec) : Option BVec := (m.find? fun e => e.1 == s).map (·.2)

/-- `_residual_recovery`: KeyError ⇒ warning + identity -/
def residualRecoveryIn (R C : Int) (m : List (BVec × BVec)) (s : BVec) : BVec := (lookup m s).getD (identity R C)

/-- the combined partial recovery: XOR of the destabilizers (co-prime) / partial recoveries of the defects -/
def combinedPartial (R C : Int) (s : BVec) : Except String BVec :=
  (syndromeToPlaquettes R C s).foldlM (fun rec p =>
    if coprime R C then (destabilizer R C p).map (xorV rec) else .ok (xorV rec (partialRecovery R C p))) (identity R C)

/-- `_sample_recovery` with the look-up table passed in (the driver builds it once per lattice, lazily) -/
def sampleRecoveryWith (R C : Int) (m : Unit → List (BVec × BVec)) (s : BVec) : Except String BVec :=
  match combinedPartial R C s with
  | .error e => .error e
  | .ok rec =>
    let residual := xorV s (syndrome R C rec)
    if residual.any id then .ok (xorV rec (residualRecoveryIn R C (m ()) residual)) else .ok rec

/-- `_sample_recovery(code, syndrome)` -/
def sampleRecovery (R C : Int) (s : BVec) : Except String BVec :=
  sampleRecoveryWith R C (fun _ => residualMap R C) s

/-! ### all-Y stabilizers and logical -/

/-- the generators: `_snake(code, (0, c))` for `c in range(2, 2 * gcd, 2)` -/
def yGenerators (R C : Int) : Except String (List BVec) :=
  (List.range (Nat.gcd R.toNat C.toNat - 1)).mapM fun (i : Nat) => snake R C (0, 2 * ((i : Int) + 1)) true true false

/-- `_y_stabilizers(code)`: products of all non-empty combinations of the generators, then the identity -/
def yStabilizers (R C : Int) : Except String (List BVec) :=
  match yGenerators R C with
  | .error e => .error e
  | .ok gens => .ok ((allCombinations gens).map (xorSet (2 * (nQubits R C).toNat)) ++ [identity R C])

/-- `_y_logical(code)` -/
def yLogical (R C : Int) : Except String BVec := snake R C (0, 0) true true false

/-! ### coset probabilities and the decision -/

/-- number of Y in an all-I/Y operator: `np.sum(coset[:, :n], axis=1)` -/
def nY (v : BVec) : Nat := count1 (xHalf v)

/-- `_coset_probability(prob_dist, coset)`: `Σ_rows p_y^{n_y} p_i^{n - n_y}` (exact scalars) -/
def cosetProbability {α : Type} [Add α] [Zero α] [Mul α] [One α] [HPow α Nat α] (pI pY : α) (coset : List BVec) : α :=
  (coset.map fun v => pY ^ nY v * pI ^ (v.length / 2 - nY v)).sum

/-- `decode` given the two coset probabilities: `none` = tie (the code then calls `random.choice`) -/
def choose {α : Type} [LT α] [DecidableLT α] [DecidableEq α] (p1 p2 : α) (r1 r2 : BVec) : Option BVec :=
  if p1 = p2 then none else if p2 < p1 then some r1 else some r2

/-- `decode(code, syndrome)` with exact scalars -/
def decode {α : Type} [Add α] [Zero α] [Mul α] [One α] [HPow α Nat α] [LT α] [DecidableLT α] [DecidableEq α]
    (R C : Int) (pI pY : α) (s : BVec) : Except String (Option BVec) :=
  match sampleRecovery R C s, yLogical R C, yStabilizers R C with
  | .ok r1, .ok l, .ok ys =>
    let r2 := xorV r1 l
    .ok (choose (cosetProbability pI pY (ys.map fun g => xorV g r1)) (cosetProbability pI pY (ys.map fun g => xorV g r2)) r1 r2)
  | .error e, _, _ => .error e
  | _, .error e, _ => .error e
  | _, _, .error e => .error e

end Qec.PlanarY
