import QecVerif.Model.Wire
namespace Qec.Drv
open Qec Qec.Wire

/-- driver ops of property C19 (first protocol token `c19`) -/
def c19 : List String → Option String
  | _ => none

end Qec.Drv
