import QecVerif.Model.Wire
import QecVerif.Model.Cli
namespace Qec.Drv
open Qec Qec.Wire Qec.Cli

namespace C19

def hexVal? (c : Char) : Option Nat :=
  if '0' ≤ c ∧ c ≤ '9' then some (c.toNat - '0'.toNat)
  else if 'a' ≤ c ∧ c ≤ 'f' then some (c.toNat - 'a'.toNat + 10)
  else none

def unhexGo : List Char → Option (List Char)
  | [] => some []
  | a :: b :: rest => do
      let x ← hexVal? a
      let y ← hexVal? b
      let t ← unhexGo rest
      pure (Char.ofNat (16 * x + y) :: t)
  | _ => none

/-- "-" = empty text; otherwise two lower-case hex digits per (latin-1) character -/
def unhex? (s : String) : Option (List Char) :=
  if s == "-" then some [] else unhexGo s.toList

def hexDigit (n : Nat) : Char :=
  if n < 10 then Char.ofNat ('0'.toNat + n) else Char.ofNat ('a'.toNat + n - 10)

def hex (l : List Char) : String :=
  if l.isEmpty then "-" else
  String.ofList (l.flatMap fun c => [hexDigit (c.toNat / 16 % 16), hexDigit (c.toNat % 16)])

def parseReg? (s : String) : Option (List (List Char)) :=
  if s == "_" then some [] else some ((s.splitOn ",").map (·.toList))

def parseArgTok? : String → Option ArgTok
  | "tuple" => some .tuple | "iter" => some .iter | "scalar" => some .scalar
  | "notliteral" => some .notLiteral | "syntax" => some .syntaxErr | _ => none

def parseCtorTok? : String → Option CtorTok
  | "ok" => some .ok | "raises" => some .raises | _ => none

def parseFloatTok? (s : String) : Option FloatTok :=
  if s == "bad" then some .bad else if s == "nan" then some .nan
  else if s == "inf" then some .posInf else if s == "-inf" then some .negInf
  else (parseRat? s).map .fin

def parseIntTok? (s : String) : Option IntTok :=
  if s == "bad" then some .bad else s.toInt?.map .val

def parseOpt? {α} (f : String → Option α) (s : String) : Option (Option α) :=
  if s == "N" then some none else (f s).map some

def parseFloatList? (s : String) : Option (List FloatTok) :=
  if s == "_" then some [] else (s.splitOn ",").mapM parseFloatTok?

def parseRole? : String → Option Role
  | "code" => some .code | "ts" => some .timeSteps | "em" => some .errorModel | "dec" => some .decoder
  | "probs" => some .probs | "f" => some .maxFailures | "r" => some .maxRuns | "m" => some .measProb
  | "o" => some .output | "s" => some .seed | _ => none

def showRole : Role → String
  | .code => "code" | .timeSteps => "ts" | .errorModel => "em" | .decoder => "dec" | .probs => "probs"
  | .maxFailures => "f" | .maxRuns => "r" | .measProb => "m" | .output => "o" | .seed => "s"

def parseOrder? (s : String) : Option (List Role) :=
  if s == "_" then some [] else (s.splitOn ",").mapM parseRole?

def parseTarget? : String → Option Target
  | "stdout" => some .stdout | "path" => some .path | _ => none

def parseFs? : String → Option Fs
  | "exists" => some .exists | "creatable" => some .creatable | "notcreatable" => some .notCreatable | _ => none

def parseSpec? (reg spec : String) : Option SpecIn :=
  match spec.splitOn ":" with
  | [h, a, c] => do
      let reg ← parseReg? reg
      let text ← unhex? h
      let a ← parseArgTok? a
      let c ← parseCtorTok? c
      pure ⟨reg, text, a, c⟩
  | _ => none

def showErr : Option ConvErr → String
  | none => "ok" | some .format => "format" | some .unknownName => "unknown"
  | some .parseArgs => "parse" | some .construct => "construct"

def showEv : Ev → String
  | .eval r => "eval:" ++ showRole r
  | .ctor r => "ctor:" ++ showRole r

def showEvs (l : List Ev) : String := if l.isEmpty then "_" else ",".intercalate (l.map showEv)

def showOptRat : Option Rat → String
  | none => "N" | some q => showRat q
def showOptInt : Option Int → String
  | none => "N" | some n => toString n

def showCall (c : SimCall) : String :=
  ":".intercalate [showRat c.p, showOptInt c.timeSteps, showOptRat c.measProb, showOptInt c.maxRuns,
    showOptInt c.maxFailures, showOptInt c.seed]

def showCalls (l : List SimCall) : String := if l.isEmpty then "_" else ";".intercalate (l.map showCall)

/-- the payload is abstract: "P" stands for the JSON text of the data -/
def showWrite {α} (w : WriteOut α) : String :=
  "so=" ++ showBool w.stdout.isSome ++
  " file=" ++ (match w.file with | .untouched => "u" | .created _ => "c" | .createdPartial => "p") ++
  " log=" ++ showBool w.logged.isSome ++ " exit=" ++ toString w.exit ++ " tb=" ++ showBool w.traceback

end C19
open C19

/-- driver ops of property C19 (first protocol token `c19`) -/
def c19 : List String → Option String
  | ["split", h] => do
      let s ← unhex? h
      match splitSpec s with
      | none => pure "nomatch"
      | some (n, none) => pure (hex n ++ " N")
      | some (n, some a) => pure (hex n ++ " " ++ hex a)
  | ["conv", reg, h, a, c] => do
      let sp ← parseSpec? reg (h ++ ":" ++ a ++ ":" ++ c)
      let r := convOf sp
      pure (showErr r.err ++ " e" ++ showBool r.evalCalled ++ " c" ++ showBool r.ctorCalled)
  | ["prob", t] => do
      let t ← parseFloatTok? t
      pure (match probOk t with | some q => "ok " ++ showRat q | none => "rej")
  | ["int", m, t] => do
      let m ← m.toInt?
      let t ← parseIntTok? t
      pure (match intMinOk m t with | some n => "ok " ++ toString n | none => "rej")
  | ["write", t, fs, ser] => do
      let t ← parseTarget? t
      let fs ← parseFs? fs
      let ser ← parseBool? ser
      pure (showWrite (writeData t fs ser ()))
  | ["merge", files, t, fs, ser] => do
      let files ← if files == "_" then some [] else (files.splitOn ",").mapM fun
        | "missing" => some FileTok.missing | "dir" => some FileTok.isDir
        | "badjson" => some FileTok.badJson | "ok" => some FileTok.ok | _ => none
      let t ← parseTarget? t
      let fs ← parseFs? fs
      let ser ← parseBool? ser
      pure (match mergeCmd files t fs ser () with
        | .usage => "usage" | .badJson => "badjson" | .ran w => "ran " ++ showWrite w)
  | ["cmd", kind, order, regC, spC, regE, spE, regD, spD, ts, probs, f, r, s, m, t, fs, ser] => do
      let ftp ← (match kind with | "run" => some false | "ftp" => some true | _ => none)
      let order ← parseOrder? order
      let code ← parseSpec? regC spC
      let em ← parseSpec? regE spE
      let dec ← parseSpec? regD spD
      let ts ← parseOpt? parseIntTok? ts
      let probs ← parseFloatList? probs
      let f ← parseOpt? parseIntTok? f
      let r ← parseOpt? parseIntTok? r
      let s ← parseOpt? parseIntTok? s
      let m ← parseOpt? parseFloatTok? m
      let t ← parseTarget? t
      let fs ← parseFs? fs
      let ser ← parseBool? ser
      let i : CmdIn := { ftp := ftp, code := code, em := em, dec := dec, timeSteps := ts, probs := probs,
                         maxFailures := f, maxRuns := r, seed := s, measProb := m, target := t }
      pure (match cmd (fun c => c) i order fs ser with
        | .usage ev => "usage ev=" ++ showEvs ev
        | .ran ev calls w => "ran ev=" ++ showEvs ev ++ " calls=" ++ showCalls calls ++ " " ++ showWrite w)
  | _ => none

end Qec.Drv
