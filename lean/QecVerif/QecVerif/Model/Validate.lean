/-
  C20 — `StabilizerCode.validate`, `logicals`, `DecodeResult.__init__`
-/
import QecVerif.Model.GF2
namespace Qec

inductive ValidateErr
  | stabilizers   -- 'Stabilizers do not mutually commute.'
  | stabLogicals  -- 'Stabilizers do not commute with logicals.'
  | logicals      -- 'Logicals do not commute as expected.'
  | hsplit        -- numpy ValueError: odd number of logicals cannot be split in two
  deriving DecidableEq, Repr

def allZeroMat (M : List BVec) : Bool := M.all isZero

/-- `np.vstack((logical_xs, logical_zs))` -/
def stackLogicals (lx lz : List BVec) : List BVec := lx ++ lz

/-- `i1, i2 = np.hsplit(np.identity(m), 2); np.hstack((i2, i1))` for even m:
    entry (i, j) is 1 iff  i = (j + m/2) mod m -/
def twistedIdentity (m : Nat) : List BVec :=
  (List.range m).map fun i => (List.range m).map fun j => decide (i = (j + m / 2) % m)

def validate (S lx lz : List BVec) : Except ValidateErr Unit :=
  let L := stackLogicals lx lz
  if !allZeroMat (bspMat S S) then .error .stabilizers
  else if !allZeroMat (bspMat S L) then .error .stabLogicals
  else if L.length % 2 ≠ 0 then .error .hsplit
  else if bspMat L L ≠ twistedIdentity L.length then .error .logicals
  else .ok ()

/-- `DecodeResult(success, logical_commutations, recovery, custom_values)`: constructible iff
    success or recovery is given -/
def decodeResultOk (successGiven recoveryGiven : Bool) : Bool := successGiven || recoveryGiven

end Qec
