/-
  `qecsim.models.basic`: BasicCode defaults, FiveQubitCode, SteaneCode
-/
import QecVerif.Model.Pauli
namespace Qec.Basic

def ps (s : String) : PStr := s.toList.filterMap P1.ofChar?

structure Code where
  stabilizers : List BVec
  logicalXs : List BVec
  logicalZs : List BVec
  n : Nat
  k : Nat
  d : Option Nat

def fiveQubit : Code :=
  { stabilizers := ["XZZXI", "IXZZX", "XIXZZ", "ZXIXZ"].map (toBsf ∘ ps)
    logicalXs := ["XXXXX"].map (toBsf ∘ ps), logicalZs := ["ZZZZZ"].map (toBsf ∘ ps), n := 5, k := 1, d := some 3 }

def steane : Code :=
  { stabilizers := ["IIIXXXX", "IXXIIXX", "XIXIXIX", "IIIZZZZ", "IZZIIZZ", "ZIZIZIZ"].map (toBsf ∘ ps)
    logicalXs := ["XXXXXXX"].map (toBsf ∘ ps), logicalZs := ["ZZZZZZZ"].map (toBsf ∘ ps), n := 7, k := 1, d := some 3 }

/-- `BasicCode(stabs, lxs, lzs)` with `n_k_d=None`: n = length of the first stabilizer (0 if none),
    k = number of logical Xs, d = None -/
def basicDefaultNkd (stabs lxs : List PStr) : Nat × Nat × Option Nat :=
  ((stabs.head?.map List.length).getD 0, lxs.length, none)

end Qec.Basic
