/-
  F3 colour 6.6.6 — `qecsim.models.color.Color666Code` / `Color666Pauli`, mirroring the code's index
  conventions.  Python `//` and `%` with the positive literal divisors 2, 3, 4, 12 coincide with Lean's
  `Int` `/`, `%` (floor division / non-negative remainder).

  The lattice is the triangular region `0 ≤ c ≤ r ≤ bound`, `bound = 3 * (size - 1) // 2`; an index
  `(r, c)` is a plaquette iff `c % 3 == 2 - r % 3`, otherwise a site (qubit).
-/
import QecVerif.Model.Lattice.Common
namespace Qec.Color666

/-- constructor: `operator.index(size) < 3 → ValueError`, then `size % 2 == 0 → ValueError`;
    a non-index type → TypeError (raised by `operator.index`, which is evaluated first) -/
def ctor (size : PyVal) : Except CtorErr Int :=
  match size.index? with
  | none => .error .type
  | some s =>
    if s < 3 then .error .value
    else if s % 2 == 0 then .error .value
    else .ok s

/-- `bound = 3 * (size - 1) // 2` -/
def bound (L : Int) : Int := 3 * (L - 1) / 2

/-- `is_plaquette`: `c % 3 == 2 - r % 3` -/
def isPlaquette (r c : Int) : Bool := c % 3 == 2 - r % 3
def isSite (r c : Int) : Bool := !isPlaquette r c

/-- `is_in_bounds`: `0 <= c <= r <= bound` -/
def inBounds (L r c : Int) : Bool := decide (0 ≤ c) && decide (c ≤ r) && decide (r ≤ bound L)

/-- `n_k_d = ((3 * size ** 2 + 1) // 4, 1, size)` -/
def nQubits (L : Int) : Int := (3 * L * L + 1) / 4
def nkd (L : Int) : Int × Int × Int := (nQubits L, 1, L)

/-- `_flatten_site_index` (only meaningful for in-bounds sites).  The code evaluates
    `int(((2 * r + 1) ** 2 / 3 + 1) // 4 + (2 * c + (2 - r % 3)) // 3)` where `/` is float true division;
    `((2r+1)² / 3 + 1) // 4 = ⌊((2r+1)² + 3) / 12⌋` exactly (the odd square is `1` or `9` mod 12, so the
    quotient by 3 is either an exact integer or has fractional part 1/3 — far from a rounding boundary). -/
def flatten (r c : Int) : Int := ((2 * r + 1) * (2 * r + 1) + 3) / 12 + (2 * c + (2 - r % 3)) / 3

/-- `site(operator, (r, c))` for a site index: toggles iff in bounds -/
def site (L : Int) (op : P1) (v : BVec) (rc : Int × Int) : BVec :=
  if inBounds L rc.1 rc.2 then applyOp (nQubits L).toNat op v (flatten rc.1 rc.2).toNat else v

def sites (L : Int) (op : P1) (v : BVec) (l : List (Int × Int)) : BVec := l.foldl (site L op) v

def identity (L : Int) : BVec := zeros (2 * (nQubits L).toNat)

/-- `operator(index)` read-back for an in-bounds site (the code raises IndexError otherwise) -/
def operatorAt (L : Int) (v : BVec) (r c : Int) : P1 :=
  let f := (flatten r c).toNat
  P1.ofBits (v.getD f false) (v.getD ((nQubits L).toNat + f) false)

/-- the six neighbouring sites of a plaquette, in the code's order -/
def plaquetteSites (r c : Int) : List (Int × Int) :=
  [(r - 1, c - 1), (r - 1, c), (r, c - 1), (r, c + 1), (r + 1, c), (r + 1, c + 1)]

/-- `plaquette(operator, index)`: IndexError if not a plaquette index (all six neighbours of a plaquette
    index are site indices, so the inner `site` call cannot raise) -/
def plaquette (L : Int) (op : P1) (v : BVec) (r c : Int) : Except IdxErr BVec :=
  if !isPlaquette r c then .error .index
  else .ok (sites L op v (plaquetteSites r c))

/-- `_plaquette_indices`: `itertools.product(range(bound + 1), repeat=2)` order (row major), filtered -/
def plaquetteIndices (L : Int) : List (Int × Int) :=
  let all := (List.range (bound L + 1).toNat).flatMap fun (r : Nat) =>
    (List.range (bound L + 1).toNat).map fun (c : Nat) => ((r : Int), (c : Int))
  all.filter fun rc => inBounds L rc.1 rc.2 && isPlaquette rc.1 rc.2

/-- `stabilizers`: all X-type plaquettes (in index order) followed by all Z-type plaquettes -/
def stabilizers (L : Int) : List BVec :=
  ((plaquetteIndices L).map fun rc => sites L P1.X (identity L) (plaquetteSites rc.1 rc.2)) ++
  ((plaquetteIndices L).map fun rc => sites L P1.Z (identity L) (plaquetteSites rc.1 rc.2))

/-- `logical_x` / `logical_z`: the operator on every site of column 0, rows `0 … bound` -/
def logicalSites (L : Int) : List (Int × Int) :=
  ((List.range (bound L + 1).toNat).map fun (i : Nat) => ((i : Int), (0 : Int))).filter fun rc => isSite rc.1 rc.2
def logicalX (L : Int) : BVec := sites L P1.X (identity L) (logicalSites L)
def logicalZ (L : Int) : BVec := sites L P1.Z (identity L) (logicalSites L)

/-- `virtual_plaquette_index` -/
def virtualPlaquette (L : Int) (r c : Int) : Except IdxErr (Int × Int) :=
  if !isPlaquette r c then .error .index
  else if r % 3 == 0 then .ok (r, -1)
  else if r % 3 == 1 then .ok (bound L + 1, c)
  else .ok (r, r + 1)

/-- `syndrome_to_plaquette_indices`: `hsplit` the syndrome in two halves; the plaquettes whose bit is set in
    the first (X-stabilizer) half and in the second (Z-stabilizer) half, each as a list in index order -/
def syndromeToPlaquettes (L : Int) (s : BVec) : List (Int × Int) × List (Int × Int) :=
  let h := s.length / 2
  let pick (t : BVec) := ((plaquetteIndices L).zip t).filterMap fun p => if p.2 then some p.1 else none
  (pick (s.take h), pick (s.drop h))

end Qec.Color666
