/-
  F3 common — toggling bits of a binary symplectic vector, Python-valued constructor arguments
-/
import QecVerif.Model.GF2
import QecVerif.Model.Pauli
namespace Qec

/-- `v[i] ^= 1` -/
def toggle (v : BVec) (i : Nat) : BVec := v.modify i not

/-- apply operator `op` at flat qubit index `f` of an n-qubit bsf: X toggles `f`, Z toggles `n+f`, Y both -/
def applyOp (n : Nat) (op : P1) (v : BVec) (f : Nat) : BVec :=
  let v := if op.xBit then toggle v f else v
  if op.zBit then toggle v (n + f) else v

/-- a small universe of Python values a constructor may be called with -/
inductive PyVal
  | int (v : Int)        -- int / numpy integer: `operator.index` works
  | bool (b : Bool)      -- bool is an index in Python (True = 1)
  | float (num : Int) (den : Nat)   -- any float: `operator.index` raises TypeError
  | str                  -- TypeError
  | pynone               -- None: TypeError
  deriving DecidableEq, Repr

/-- `operator.index(v)`: `none` = TypeError -/
def PyVal.index? : PyVal → Option Int
  | .int v => some v
  | .bool b => some (if b then 1 else 0)
  | _ => none

inductive CtorErr | value | type deriving DecidableEq, Repr

inductive IdxErr | index deriving DecidableEq, Repr   -- IndexError

end Qec
