/-
  F3 toric — `qecsim.models.toric.ToricCode` / `ToricPauli`, mirroring the code's index conventions.
  Indices are 3-tuples `(lattice, row, column)`; every index is first reduced with
  `np.mod(index, (2, rows, cols))` (floor-mod; for the positive moduli 2, rows, cols this is `Int.emod`,
  which is what `%` on `Int` denotes).
-/
import QecVerif.Model.Lattice.Common
namespace Qec.Toric

abbrev Idx := Int × Int × Int

/-- constructor: `operator.index(rows) < 2 or operator.index(columns) < 2 → ValueError`;
    non-index type → TypeError (rows is examined first; `or` short-circuits) -/
def ctor (rows cols : PyVal) : Except CtorErr (Int × Int) :=
  match rows.index? with
  | none => .error .type
  | some r =>
    if r < 2 then .error .value
    else match cols.index? with
      | none => .error .type
      | some c => if c < 2 then .error .value else .ok (r, c)

def primalIndex : Int := 0
def dualIndex : Int := 1

def nQubits (R C : Int) : Int := 2 * R * C
def nkd (R C : Int) : Int × Int × Int := (nQubits R C, 2, min R C)

/-- `np.mod(index, self.code.shape)` with `shape = (2, rows, cols)` -/
def norm (R C : Int) (i : Idx) : Idx := (i.1 % 2, i.2.1 % R, i.2.2 % C)

/-- position of the (normalised) index in `xs.flatten()` for the C-ordered array of shape `(2, R, C)` -/
def flatten (R C : Int) (i : Idx) : Int :=
  let j := norm R C i
  j.1 * (R * C) + j.2.1 * C + j.2.2

/-- `site(operator, index)`: never fails, the index is reduced modulo the shape -/
def site (R C : Int) (op : P1) (v : BVec) (i : Idx) : BVec :=
  applyOp (nQubits R C).toNat op v (flatten R C i).toNat

def sites (R C : Int) (op : P1) (v : BVec) (l : List Idx) : BVec := l.foldl (site R C op) v

def identity (R C : Int) : BVec := zeros (2 * (nQubits R C).toNat)

/-- `operator(index)` of the Pauli with bsf `v`: reads `xs[index]`, `zs[index]` at the normalised index -/
def operator (R C : Int) (v : BVec) (i : Idx) : P1 :=
  let f := (flatten R C i).toNat
  P1.ofBits (v.getD f false) (v.getD ((nQubits R C).toNat + f) false)

/-- the four sites of `plaquette(index)` in the code's order (arguments of the four `site` calls,
    computed from the normalised index) -/
def plaquetteSites (R C : Int) (i : Idx) : List Idx :=
  let j := norm R C i
  let la := j.1; let r := j.2.1; let c := j.2.2
  [(la, r, c), (la, r + 1, c), (la + 1, r + la, c - la), (la + 1, r + la, c - la + 1)]

/-- operator of a plaquette: Z on the primal lattice (index 0), X on the dual -/
def plaquetteOp (R C : Int) (i : Idx) : P1 := if (norm R C i).1 == primalIndex then P1.Z else P1.X

/-- `plaquette(index)`: never fails -/
def plaquette (R C : Int) (v : BVec) (i : Idx) : BVec :=
  sites R C (plaquetteOp R C i) v (plaquetteSites R C i)

/-- `np.ndindex((2, R, C))` order: lattice, then row, then column -/
def indices (R C : Int) : List Idx :=
  (List.range 2).flatMap fun (l : Nat) =>
    (List.range R.toNat).flatMap fun (r : Nat) =>
      (List.range C.toNat).map fun (c : Nat) => ((l : Int), (r : Int), (c : Int))

def stabilizers (R C : Int) : List BVec :=
  (indices R C).map fun i => plaquette R C (identity R C) i

/-- `logical_x1`: `xs[0, :, C // 2] ^= 1` -/
def logicalX1Sites (R C : Int) : List Idx := (List.range R.toNat).map fun (r : Nat) => (primalIndex, (r : Int), C / 2)
/-- `logical_x2`: `xs[1, R // 2, :] ^= 1` -/
def logicalX2Sites (R C : Int) : List Idx := (List.range C.toNat).map fun (c : Nat) => (dualIndex, R / 2, (c : Int))
/-- `logical_z1`: `zs[0, R // 2, :] ^= 1` -/
def logicalZ1Sites (R C : Int) : List Idx := (List.range C.toNat).map fun (c : Nat) => (primalIndex, R / 2, (c : Int))
/-- `logical_z2`: `zs[1, :, C // 2] ^= 1` -/
def logicalZ2Sites (R C : Int) : List Idx := (List.range R.toNat).map fun (r : Nat) => (dualIndex, (r : Int), C / 2)

def logicalX1 (R C : Int) : BVec := sites R C P1.X (identity R C) (logicalX1Sites R C)
def logicalX2 (R C : Int) : BVec := sites R C P1.X (identity R C) (logicalX2Sites R C)
def logicalZ1 (R C : Int) : BVec := sites R C P1.Z (identity R C) (logicalZ1Sites R C)
def logicalZ2 (R C : Int) : BVec := sites R C P1.Z (identity R C) (logicalZ2Sites R C)
def logicalXs (R C : Int) : List BVec := [logicalX1 R C, logicalX2 R C]
def logicalZs (R C : Int) : List BVec := [logicalZ1 R C, logicalZ2 R C]

/-- `translation(a, b)`: shortest signed steps modulo the periods; ties (even sizes, half-way) go
    south / east (`steps_south <= steps_north`); IndexError iff the lattices differ modulo 2 -/
def translation (R C : Int) (a b : Idx) : Except IdxErr (Int × Int) :=
  let a' := norm R C a; let b' := norm R C b
  if a'.1 != b'.1 then .error .index
  else
    let stepsNorth := (a'.2.1 - b'.2.1) % R
    let stepsSouth := (b'.2.1 - a'.2.1) % R
    let stepsWest := (a'.2.2 - b'.2.2) % C
    let stepsEast := (b'.2.2 - a'.2.2) % C
    let rowSteps := if stepsSouth ≤ stepsNorth then stepsSouth else -stepsNorth
    let colSteps := if stepsEast ≤ stepsWest then stepsEast else -stepsWest
    .ok (rowSteps, colSteps)

/-- the arguments of the `site` calls made by `path` for the translation `(rs, cs)` from `a`
    (`a` is normalised first): the four `while` loops, with the lattice switch in between -/
def pathSites (R C : Int) (a : Idx) (rs cs : Int) : List Idx :=
  let a' := norm R C a
  let l := a'.1; let r := a'.2.1; let c := a'.2.2
  let rowPart : List Idx :=
    if rs < 0 then (List.range rs.natAbs).map fun (i : Nat) => (l, r - (i : Int), c)
    else (List.range rs.natAbs).map fun (i : Nat) => (l, r + 1 + (i : Int), c)
  -- `c_l, c_r, c_c = c_l + 1, c_r + c_l, c_c - c_l` (right-hand side uses the old `c_l`)
  let l2 := l + 1; let r2 := r + rs + l; let c2 := c - l
  let colPart : List Idx :=
    if cs < 0 then (List.range cs.natAbs).map fun (i : Nat) => (l2, r2, c2 - (i : Int))
    else (List.range cs.natAbs).map fun (i : Nat) => (l2, r2, c2 + 1 + (i : Int))
  rowPart ++ colPart

/-- operator of a path: X between primal plaquettes, Z between dual ones -/
def pathOp (R C : Int) (a : Idx) : P1 := if (norm R C a).1 == primalIndex then P1.X else P1.Z

/-- `path(a, b)` applied to `v` -/
def path (R C : Int) (v : BVec) (a b : Idx) : Except IdxErr BVec :=
  match translation R C a b with
  | .error e => .error e
  | .ok (rs, cs) => .ok (sites R C (pathOp R C a) v (pathSites R C a rs cs))

/-- `ToricMWPMDecoder.distance` -/
def distance (R C : Int) (a b : Idx) : Except IdxErr Nat :=
  (translation R C a b).map fun t => t.1.natAbs + t.2.natAbs

/-- `syndrome_to_plaquette_indices`: the plaquettes whose syndrome bit is set (as a list in index order) -/
def syndromeToPlaquettes (R C : Int) (s : BVec) : List Idx :=
  ((indices R C).zip s).filterMap fun p => if p.2 then some p.1 else none

/-- recovery of the MWPM decoder given the matching: fold `path` over the mates -/
def applyMates (R C : Int) (mates : List (Idx × Idx)) : Except IdxErr BVec :=
  mates.foldlM (fun v ab => path R C v ab.1 ab.2) (identity R C)

end Qec.Toric
