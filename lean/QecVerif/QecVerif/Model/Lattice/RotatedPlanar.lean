/-
  F3 rotated planar — `qecsim.models.rotatedplanar.RotatedPlanarCode` / `RotatedPlanarPauli`, mirroring the
  code's index conventions: indices are `(x, y)` with x the COLUMN and y the ROW; every integer pair is both a
  site index and a plaquette index (the plaquette `(x, y)` has its south-west corner at site `(x, y)`).
  Python `%` with the positive divisor 2 coincides with Lean's `Int` `%`.
  `R` = rows, `C` = columns throughout (the code's `size = (rows, columns)`).
-/
import QecVerif.Model.Lattice.Common
namespace Qec.RotatedPlanar

/-- constructor: `operator.index(rows) < 3 or operator.index(columns) < 3 → ValueError`;
    non-index type → TypeError (rows is examined first; `or` short-circuits, so a too small `rows`
    gives ValueError even when `columns` is not an index) -/
def ctor (rows cols : PyVal) : Except CtorErr (Int × Int) :=
  match rows.index? with
  | none => .error .type
  | some r =>
    if r < 3 then .error .value
    else match cols.index? with
      | none => .error .type
      | some c => if c < 3 then .error .value else .ok (r, c)

/-- `is_x_plaquette((x, y))` : `(x - y) % 2 == 1` -/
def isXPlaquette (x y : Int) : Bool := (x - y) % 2 == 1
/-- `is_z_plaquette` -/
def isZPlaquette (x y : Int) : Bool := !isXPlaquette x y

/-- `site_bounds = (cols - 1, rows - 1)` -/
def maxSiteX (C : Int) : Int := C - 1
def maxSiteY (R : Int) : Int := R - 1

/-- `is_in_site_bounds` -/
def inSiteBounds (R C x y : Int) : Bool :=
  decide (0 ≤ x) && decide (x ≤ maxSiteX C) && decide (0 ≤ y) && decide (y ≤ maxSiteY R)

/-- `is_in_plaquette_bounds`: the parity dependent boundary plaquettes, as written in the code -/
def inPlaquetteBounds (R C x y : Int) : Bool :=
  let msx := maxSiteX C
  let msy := maxSiteY R
  let minX : Int := if y % 2 == 0 then -1 else 0
  let maxX : Int :=
    if msx % 2 == 0 then (if y % 2 == 0 then msx - 1 else msx)
    else (if y % 2 == 0 then msx else msx - 1)
  let minY : Int := if x % 2 == 0 then 0 else -1
  let maxY : Int :=
    if msy % 2 == 0 then (if x % 2 == 0 then msy else msy - 1)
    else (if x % 2 == 0 then msy - 1 else msy)
  decide (minX ≤ x) && decide (x ≤ maxX) && decide (minY ≤ y) && decide (y ≤ maxY)

/-- `is_virtual_plaquette` -/
def isVirtualPlaquette (R C x y : Int) : Bool :=
  (x == -1 || x == maxSiteX C || y == -1 || y == maxSiteY R) && !inPlaquetteBounds R C x y

def nQubits (R C : Int) : Int := R * C
def nkd (R C : Int) : Int × Int × Int := (nQubits R C, 1, min R C)

/-- `_flatten_site_index` (asserts `is_in_site_bounds`): `x + y * cols` -/
def flatten (_R C x y : Int) : Int := x + y * C

/-- `site(operator, (x, y))`: toggles iff in site bounds (never raises) -/
def site (R C : Int) (op : P1) (v : BVec) (xy : Int × Int) : BVec :=
  if inSiteBounds R C xy.1 xy.2 then applyOp (nQubits R C).toNat op v (flatten R C xy.1 xy.2).toNat else v

def sites (R C : Int) (op : P1) (v : BVec) (l : List (Int × Int)) : BVec := l.foldl (site R C op) v

def identity (R C : Int) : BVec := zeros (2 * (nQubits R C).toNat)

/-- the four corner sites of a plaquette in the code's order SW, NW, NE, SE -/
def plaquetteSites (x y : Int) : List (Int × Int) := [(x, y), (x, y + 1), (x + 1, y + 1), (x + 1, y)]

/-- `plaquette(index)`: Z on z-plaquettes, X on x-plaquettes; a NO-OP (not an error) out of plaquette bounds -/
def plaquette (R C : Int) (v : BVec) (x y : Int) : BVec :=
  if inPlaquetteBounds R C x y then
    sites R C (if isZPlaquette x y then P1.Z else P1.X) v (plaquetteSites x y)
  else v

/-- `_plaquette_indices`: y outer `-1 .. max_site_y + 1`, x inner `-1 .. max_site_x + 1`, in plaquette bounds;
    z-plaquettes first, then x-plaquettes -/
def plaquetteIndices (R C : Int) : List (Int × Int) :=
  let all := (List.range (maxSiteY R + 3).toNat).flatMap fun (j : Nat) =>
    (List.range (maxSiteX C + 3).toNat).map fun (i : Nat) => ((i : Int) - 1, (j : Int) - 1)
  let pl := all.filter fun xy => inPlaquetteBounds R C xy.1 xy.2
  pl.filter (fun xy => isZPlaquette xy.1 xy.2) ++ pl.filter (fun xy => !isZPlaquette xy.1 xy.2)

def stabilizers (R C : Int) : List BVec :=
  (plaquetteIndices R C).map fun xy => plaquette R C (identity R C) xy.1 xy.2

/-- `logical_x`: X on the bottom row `y = 0` -/
def logicalXSites (_R C : Int) : List (Int × Int) :=
  (List.range (maxSiteX C + 1).toNat).map fun (i : Nat) => ((i : Int), 0)
/-- `logical_z`: Z on the last column `x = max_site_x` -/
def logicalZSites (R C : Int) : List (Int × Int) :=
  (List.range (maxSiteY R + 1).toNat).map fun (j : Nat) => (maxSiteX C, (j : Int))
def logicalX (R C : Int) : BVec := sites R C P1.X (identity R C) (logicalXSites R C)
def logicalZ (R C : Int) : BVec := sites R C P1.Z (identity R C) (logicalZSites R C)

/-- `syndrome_to_plaquette_indices`: the plaquettes whose syndrome bit is set (as a list in index order) -/
def syndromeToPlaquettes (R C : Int) (s : BVec) : List (Int × Int) :=
  ((plaquetteIndices R C).zip s).filterMap fun p => if p.2 then some p.1 else none

end Qec.RotatedPlanar
