/-
  F3 rotated toric — `qecsim.models.rotatedtoric.RotatedToricCode` / `RotatedToricPauli`, mirroring the
  code's index conventions.

  * the code size is `(rows, columns)`; indices are `(x, y)` with `x` running over COLUMNS and `y` over ROWS
    (`bounds = (columns - 1, rows - 1)`); every integer pair is both a site index and a plaquette index
    (plaquette `(x, y)` has the sites `(x, y), (x, y+1), (x+1, y+1), (x+1, y)`), and everything is periodic:
    `site` reduces its index with `_mod_index` before `_flatten_site_index`, so there is no IndexError for
    sites/plaquettes at all;  `_flatten_site_index` itself asserts in-bounds.
  * `R`, `C` below are rows, columns (both positive and even for every constructible code).  Python `%` with
    the positive moduli `2`, `R`, `C` coincides with Lean's `Int` `%` (`Int.emod`, result in `[0, m)`).
-/
import QecVerif.Model.Lattice.Common
namespace Qec.RotatedToric

/-- constructor: `operator.index(rows) < 2 or operator.index(columns) < 2 → ValueError` (minimum size), then
    `rows % 2 or columns % 2 → ValueError` (must be even); a non-index type → TypeError.  Evaluation order:
    rows type, rows minimum (short-circuit: columns not examined), columns type, columns minimum, parity. -/
def ctor (rows cols : PyVal) : Except CtorErr (Int × Int) :=
  match rows.index? with
  | none => .error .type
  | some r =>
    if r < 2 then .error .value
    else match cols.index? with
      | none => .error .type
      | some c =>
        if c < 2 then .error .value
        else if r % 2 != 0 || c % 2 != 0 then .error .value
        else .ok (r, c)

/-- `is_x_plaquette((x, y))`: `(x - y) % 2 == 1` -/
def isXPlaquette (x y : Int) : Bool := (x - y) % 2 == 1
/-- `is_z_plaquette`: `not is_x_plaquette` -/
def isZPlaquette (x y : Int) : Bool := !isXPlaquette x y

/-- `bounds = (max_x, max_y) = (columns - 1, rows - 1)` -/
def maxX (C : Int) : Int := C - 1
def maxY (R : Int) : Int := R - 1
def inBounds (R C x y : Int) : Bool :=
  decide (0 ≤ x) && decide (x ≤ maxX C) && decide (0 ≤ y) && decide (y ≤ maxY R)

def nQubits (R C : Int) : Int := R * C
def nkd (R C : Int) : Int × Int × Int := (nQubits R C, 2, min R C)

/-- `_flatten_site_index((x, y)) = x + y * (max_x + 1)` (asserts in-bounds; only meaningful there) -/
def flatten (_R C x y : Int) : Int := x + y * (maxX C + 1)

/-- `_mod_index((x, y)) = (x % (max_x + 1), y % (max_y + 1))` -/
def modIndex (R C : Int) (i : Int × Int) : Int × Int := (i.1 % (maxX C + 1), i.2 % (maxY R + 1))

/-- `site(operator, (x, y))`: index reduced modulo the lattice, then toggled (always in bounds) -/
def site (R C : Int) (op : P1) (v : BVec) (i : Int × Int) : BVec :=
  let m := modIndex R C i
  applyOp (nQubits R C).toNat op v (flatten R C m.1 m.2).toNat

def sites (R C : Int) (op : P1) (v : BVec) (l : List (Int × Int)) : BVec := l.foldl (site R C op) v

def identity (R C : Int) : BVec := zeros (2 * (nQubits R C).toNat)

/-- the four sites of plaquette `(x, y)` in the code's order -/
def plaquetteSites (x y : Int) : List (Int × Int) := [(x, y), (x, y + 1), (x + 1, y + 1), (x + 1, y)]

def plaquetteOp (x y : Int) : P1 := if isZPlaquette x y then P1.Z else P1.X

/-- `plaquette(index)`: Z on z-plaquettes, X on x-plaquettes; never raises -/
def plaquette (R C : Int) (v : BVec) (x y : Int) : BVec :=
  sites R C (plaquetteOp x y) v (plaquetteSites x y)

/-- `_plaquette_indices`: `for y in range(max_y + 1): for x in range(max_x + 1)`, z-plaquettes first then x -/
def plaquetteIndices (R C : Int) : List (Int × Int) :=
  let all := (List.range (maxY R + 1).toNat).flatMap fun (y : Nat) =>
    (List.range (maxX C + 1).toNat).map fun (x : Nat) => ((x : Int), (y : Int))
  all.filter (fun i => isZPlaquette i.1 i.2) ++ all.filter (fun i => !isZPlaquette i.1 i.2)

def stabilizers (R C : Int) : List BVec :=
  (plaquetteIndices R C).map fun i => plaquette R C (identity R C) i.1 i.2

/-- column `x = 0`: `(0, y) for y in range(max_y + 1)` -/
def westColumn (R : Int) : List (Int × Int) := (List.range (maxY R + 1).toNat).map fun (y : Nat) => (0, (y : Int))
/-- row `y = 0`: `(x, 0) for x in range(max_x + 1)` -/
def southRow (C : Int) : List (Int × Int) := (List.range (maxX C + 1).toNat).map fun (x : Nat) => ((x : Int), 0)

def logicalX1 (R C : Int) : BVec := sites R C P1.X (identity R C) (westColumn R)
def logicalX2 (R C : Int) : BVec := sites R C P1.X (identity R C) (southRow C)
def logicalZ1 (R C : Int) : BVec := sites R C P1.Z (identity R C) (southRow C)
def logicalZ2 (R C : Int) : BVec := sites R C P1.Z (identity R C) (westColumn R)
def logicalXs (R C : Int) : List BVec := [logicalX1 R C, logicalX2 R C]
def logicalZs (R C : Int) : List BVec := [logicalZ1 R C, logicalZ2 R C]

/-- `translation(a, b)`: IndexError for plaquettes of different type; indices reduced modulo
    `(dim_x, dim_y) = (columns, rows)`; per axis the shorter way round, the POSITIVE direction on a tie
    (`steps_east <= steps_west`, `steps_north <= steps_south`) -/
def translation (R C : Int) (a b : Int × Int) : Except IdxErr (Int × Int) :=
  if isZPlaquette a.1 a.2 != isZPlaquette b.1 b.2 then .error .index
  else
    let ax := a.1 % C; let ay := a.2 % R
    let bx := b.1 % C; let by' := b.2 % R
    let north := (by' - ay) % R
    let south := (ay - by') % R
    let east := (bx - ax) % C
    let west := (ax - bx) % C
    let xs := if east ≤ west then east else -west
    let ys := if north ≤ south then north else -south
    .ok (xs, ys)

/-- state of the `while x_steps or y_steps` loop of `path` -/
structure PathState where
  xs : Int
  ys : Int
  cx : Int
  cy : Int
  acc : List (Int × Int)

/-- one iteration of the loop body: a positive step moves first; a negative step moves only when
    `path_indices` is already non-empty (the first site of a south/west move is the plaquette's own index) -/
def pathStep (s : PathState) : PathState :=
  let (cx, xs) :=
    if s.xs > 0 then (s.cx + 1, s.xs - 1)
    else if s.xs < 0 then ((if s.acc.isEmpty then s.cx else s.cx - 1), s.xs + 1)
    else (s.cx, s.xs)
  let (cy, ys) :=
    if s.ys > 0 then (s.cy + 1, s.ys - 1)
    else if s.ys < 0 then ((if s.acc.isEmpty then s.cy else s.cy - 1), s.ys + 1)
    else (s.cy, s.ys)
  { xs := xs, ys := ys, cx := cx, cy := cy, acc := s.acc ++ [(cx, cy)] }

/-- `path_indices` for the translation `(xs, ys)` from `a`: the loop runs exactly `max |xs| |ys|` times
    (each iteration moves every non-zero counter one towards zero) -/
def pathSites (a : Int × Int) (xs ys : Int) : List (Int × Int) :=
  ((List.range (max xs.natAbs ys.natAbs)).foldl (fun s _ => pathStep s)
    { xs := xs, ys := ys, cx := a.1, cy := a.2, acc := [] : PathState }).acc

/-- coordinate after iteration `i` (0-based) of a counter starting at `s`:
    positive: `min (i+1) s` increments; negative: `min i (|s|-1)` decrements; zero: none -/
def coordAt (c s : Int) (i : Nat) : Int :=
  if s > 0 then c + min ((i : Int) + 1) s
  else if s < 0 then c - min (i : Int) (-s - 1)
  else c

/-- closed form of `pathSites` (diagonal part first, then straight along the longer axis) -/
def pathSitesClosed (a : Int × Int) (xs ys : Int) : List (Int × Int) :=
  (List.range (max xs.natAbs ys.natAbs)).map fun i => (coordAt a.1 xs i, coordAt a.2 ys i)

/-- `path(a, b)` applied to `v`: nothing if `a == b` (as tuples, before `translation`); X between
    z-plaquettes, Z between x-plaquettes -/
def path (R C : Int) (v : BVec) (a b : Int × Int) : Except IdxErr BVec :=
  if a == b then .ok v
  else match translation R C a b with
    | .error e => .error e
    | .ok (xs, ys) => .ok (sites R C (if isZPlaquette a.1 a.2 then P1.X else P1.Z) v (pathSites a xs ys))

/-- `path_indices` of `path(a, b)` (empty if `a == b`) -/
def pathIndices (R C : Int) (a b : Int × Int) : Except IdxErr (List (Int × Int)) :=
  if a == b then .ok []
  else (translation R C a b).map fun t => pathSites a t.1 t.2

def pathIndicesClosed (R C : Int) (a b : Int × Int) : Except IdxErr (List (Int × Int)) :=
  if a == b then .ok []
  else (translation R C a b).map fun t => pathSitesClosed a t.1 t.2

/-- `syndrome_to_plaquette_indices`: the plaquettes whose syndrome bit is set (as a list in index order) -/
def syndromeToPlaquettes (R C : Int) (s : BVec) : List (Int × Int) :=
  ((plaquetteIndices R C).zip s).filterMap fun p => if p.2 then some p.1 else none

/-- recovery of the SMWPM decoder given the matched pairs (`_recovery_tparities`,
    `_cluster_recovery_tparities`: `operator ^= new_pauli().path(a, b).to_bsf()`): fold `path` over the mates -/
def applyMates (R C : Int) (mates : List ((Int × Int) × (Int × Int))) : Except IdxErr BVec :=
  mates.foldlM (fun v ab => path R C v ab.1 ab.2) (identity R C)

end Qec.RotatedToric
