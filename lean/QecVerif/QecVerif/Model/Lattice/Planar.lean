/-
  F3 planar — `qecsim.models.planar.PlanarCode` / `PlanarPauli`, mirroring the code's index
  conventions.  Python `//` and `%` with the positive divisor 2 coincide with Lean's `Int` `/`, `%`.
-/
import QecVerif.Model.Lattice.Common
namespace Qec.Planar

/-- constructor: `operator.index(rows) < 2 or operator.index(columns) < 2 → ValueError`;
    non-index type → TypeError (rows is examined first; `or` short-circuits) -/
def ctor (rows cols : PyVal) : Except CtorErr (Int × Int) :=
  match rows.index? with
  | none => .error .type
  | some r =>
    if r < 2 then .error .value
    else match cols.index? with
      | none => .error .type
      | some c => if c < 2 then .error .value else .ok (r, c)

def isPlaquette (r c : Int) : Bool := (r + c) % 2 == 1
def isSite (r c : Int) : Bool := !isPlaquette r c
def isPrimal (r c : Int) : Bool := (isPlaquette r c && r % 2 == 1) || (isSite r c && r % 2 == 0)
def isDual (r c : Int) : Bool := !isPrimal r c
def maxRow (R : Int) : Int := 2 * R - 2
def maxCol (C : Int) : Int := 2 * C - 2
def inBounds (R C r c : Int) : Bool := decide (0 ≤ r) && decide (r ≤ maxRow R) && decide (0 ≤ c) && decide (c ≤ maxCol C)

def nQubits (R C : Int) : Int := R * C + (R - 1) * (C - 1)
def nkd (R C : Int) : Int × Int × Int := (nQubits R C, 1, min R C)

/-- `_flatten_site_index` (only meaningful for in-bounds sites) -/
def flatten (R C r c : Int) : Int := r / 2 * (C - c % 2) + c / 2 + r % 2 * R * C

/-- `site(operator, (r, c))` for a site index: toggles iff in bounds -/
def site (R C : Int) (op : P1) (v : BVec) (rc : Int × Int) : BVec :=
  if inBounds R C rc.1 rc.2 then applyOp (nQubits R C).toNat op v (flatten R C rc.1 rc.2).toNat else v

def sites (R C : Int) (op : P1) (v : BVec) (l : List (Int × Int)) : BVec := l.foldl (site R C op) v

def identity (R C : Int) : BVec := zeros (2 * (nQubits R C).toNat)

/-- `operator(index)` read-back for an in-bounds site -/
def operatorAt (R C : Int) (v : BVec) (r c : Int) : P1 :=
  let f := (flatten R C r c).toNat
  P1.ofBits (v.getD f false) (v.getD ((nQubits R C).toNat + f) false)

/-- the four neighbouring sites of a plaquette, in the code's order N, S, W, E -/
def plaquetteSites (r c : Int) : List (Int × Int) := [(r - 1, c), (r + 1, c), (r, c - 1), (r, c + 1)]

/-- `plaquette(index)`: Z on primal, X on dual plaquettes; IndexError if not a plaquette index -/
def plaquette (R C : Int) (v : BVec) (r c : Int) : Except IdxErr BVec :=
  if !isPlaquette r c then .error .index
  else .ok (sites R C (if isPrimal r c then P1.Z else P1.X) v (plaquetteSites r c))

/-- `np.ndindex` order, primal plaquettes first then dual -/
def plaquetteIndices (R C : Int) : List (Int × Int) :=
  let all := (List.range (maxRow R + 1).toNat).flatMap fun (r : Nat) =>
    (List.range (maxCol C + 1).toNat).map fun (c : Nat) => ((r : Int), (c : Int))
  let pl := all.filter fun rc => isPlaquette rc.1 rc.2
  pl.filter (fun rc => isPrimal rc.1 rc.2) ++ pl.filter (fun rc => !isPrimal rc.1 rc.2)

def stabilizers (R C : Int) : List BVec :=
  (plaquetteIndices R C).map fun rc =>
    sites R C (if isPrimal rc.1 rc.2 then P1.Z else P1.X) (identity R C) (plaquetteSites rc.1 rc.2)

/-- `logical_x`: X on the last column, even rows -/
def logicalXSites (R C : Int) : List (Int × Int) := (List.range R.toNat).map fun (i : Nat) => (2 * (i : Int), maxCol C)
/-- `logical_z`: Z on the last row, even columns -/
def logicalZSites (R C : Int) : List (Int × Int) := (List.range C.toNat).map fun (i : Nat) => (maxRow R, 2 * (i : Int))
def logicalX (R C : Int) : BVec := sites R C P1.X (identity R C) (logicalXSites R C)
def logicalZ (R C : Int) : BVec := sites R C P1.Z (identity R C) (logicalZSites R C)

/-- `translation(a, b)` -/
def translation (R C : Int) (a b : Int × Int) : Except IdxErr (Int × Int) :=
  if !isPlaquette a.1 a.2 then .error .index
  else if !isPlaquette b.1 b.2 then .error .index
  else if isPrimal a.1 a.2 != isPrimal b.1 b.2 then .error .index
  else if !inBounds R C a.1 a.2 && !inBounds R C b.1 b.2 then .ok (0, 0)
  else .ok ((b.1 - a.1) / 2, (b.2 - a.2) / 2)

/-- the sites visited by `path` for a translation `(rs, cs)` from `a`: the four `while` loops -/
def pathSites (a : Int × Int) (rs cs : Int) : List (Int × Int) :=
  let rowPart : List (Int × Int) :=
    if rs < 0 then (List.range rs.natAbs).map fun (i : Nat) => (a.1 - 1 - 2 * (i : Int), a.2)
    else (List.range rs.natAbs).map fun (i : Nat) => (a.1 + 1 + 2 * (i : Int), a.2)
  let cr := a.1 + 2 * rs
  let colPart : List (Int × Int) :=
    if cs < 0 then (List.range cs.natAbs).map fun (i : Nat) => (cr, a.2 - 1 - 2 * (i : Int))
    else (List.range cs.natAbs).map fun (i : Nat) => (cr, a.2 + 1 + 2 * (i : Int))
  rowPart ++ colPart

/-- `path(a, b)` applied to `v`: X on the primal lattice, Z on the dual -/
def path (R C : Int) (v : BVec) (a b : Int × Int) : Except IdxErr BVec :=
  match translation R C a b with
  | .error e => .error e
  | .ok (rs, cs) => .ok (sites R C (if isPrimal a.1 a.2 then P1.X else P1.Z) v (pathSites a rs cs))

/-- `virtual_plaquette_index` -/
def virtualPlaquette (R C : Int) (r c : Int) : Except IdxErr (Int × Int) :=
  if !isPlaquette r c then .error .index
  else if isPrimal r c then
    let pmin : Int := 1; let pmax : Int := 2 * R - 3
    if (r - pmin).natAbs ≤ (pmax - r).natAbs then .ok (pmin - 2, c) else .ok (pmax + 2, c)
  else
    let dmin : Int := 1; let dmax : Int := 2 * C - 3
    if (c - dmin).natAbs ≤ (dmax - c).natAbs then .ok (r, dmin - 2) else .ok (r, dmax + 2)

/-- `PlanarMWPMDecoder.distance` -/
def distance (R C : Int) (a b : Int × Int) : Except IdxErr Nat :=
  (translation R C a b).map fun t => t.1.natAbs + t.2.natAbs

/-- `syndrome_to_plaquette_indices`: the plaquettes whose syndrome bit is set (as a list in index order) -/
def syndromeToPlaquettes (R C : Int) (s : BVec) : List (Int × Int) :=
  ((plaquetteIndices R C).zip s).filterMap fun p => if p.2 then some p.1 else none

/-- recovery of the MWPM decoders given the matching: fold `path` over the mates -/
def applyMates (R C : Int) (mates : List ((Int × Int) × (Int × Int))) : Except IdxErr BVec :=
  mates.foldlM (fun v ab => path R C v ab.1 ab.2) (identity R C)

end Qec.Planar
