import QecVerif.Model.Pauli
import QecVerif.Model.Wire
namespace Qec.Drv
open Qec Qec.Wire

def parsePStr? (s : String) : Option PStr :=
  if s == "_" then some [] else s.toList.mapM P1.ofChar?
def showPStr (p : PStr) : String := if p.isEmpty then "_" else String.ofList (p.map P1.toChar)

def c09 : List String → Option String
  | ["tobsf", p] => do let p ← parsePStr? p; pure (showBits (toBsf p))
  | ["ofbsf", b] => do let b ← parseBits? b; pure (showPStr (ofBsf b))
  | ["bsp", a, b] => do let a ← parseBits? a; let b ← parseBits? b; pure (showBool (bsp a b))
  | ["anti", p, q] => do let p ← parsePStr? p; let q ← parsePStr? q; pure (showBool (antiStr p q))
  | ["synd", m, e] => do let m ← parseMat? m; let e ← parseBits? e; pure (showBits (synd m e))
  | ["bspmat", a, b] => do let a ← parseMat? a; let b ← parseMat? b; pure (showMat (bspMat a b))
  | ["bsfwt", b] => do let b ← parseBits? b; pure (toString (bsfWt b))
  | ["bsfwtmat", m] => do let m ← parseMat? m; pure (toString (bsfWtMat m))
  | ["pauliwt", p] => do let p ← parsePStr? p; pure (toString (pauliWt p))
  | ["ipauli", n, lo, hi] => do
      let n ← parseNat? n; let lo ← parseNat? lo; let hi ← parseNat? hi
      match ipauli n lo hi with
      | none => pure "AssertionError"
      | some l => pure ("ok " ++ " ".intercalate (l.map showPStr))
  -- length of the sequence plus its elements at the given positions ("-" beyond the end): the same `ipauli` the
  -- theorems are about, for ranges whose full sequence is too long for the wire
  | ["ipauliat", n, lo, hi, ks] => do
      let n ← parseNat? n; let lo ← parseNat? lo; let hi ← parseNat? hi; let ks ← parseNatList? ks
      match ipauli n lo hi with
      | none => pure "AssertionError"
      | some l =>
        let arr := l.toArray
        pure ("ok " ++ toString arr.size ++ " " ++ " ".intercalate (ks.map fun k =>
          match arr[k]? with | some p => showPStr p | none => "-"))
  | ["pack", b] => do
      let b ← parseBits? b
      let (bytes, len) := pack b
      pure (bytesToHex bytes ++ " " ++ toString len)
  | ["unpack", h, len] => do
      let len ← parseNat? len
      let bytes ← hexToBytes? (if h == "_" then [] else h.toList)
      pure (showBits (unpack (bytes, len)))
  | _ => none

end Qec.Drv
