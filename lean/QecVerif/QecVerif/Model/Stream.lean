/-
  F4 / C17 — the random part of `SimpleErrorModel.generate` and of `app._run_once`, with the
  generator factored out.

  External parameter (documented contract, re-checked by the harness on every run):
  `numpy.random.Generator.choice(a, size=k, p=p)` (numpy 2.x, PCG64) is

      cdf = p.cumsum(); cdf /= cdf[-1]
      u   = rng.random(k)                       -- k consecutive doubles of the stream, each in [0,1)
      idx = cdf.searchsorted(u, side='right')
      a[idx]

  so the generator is seen as a stream `s : Nat → Rat` of uniforms (every double is a dyadic
  rational) together with a position; `choice` consumes exactly `k` consecutive entries.

  Every function that draws takes the cdf it compares against as an argument: the harness passes
  the cdf that numpy computed in floating point (as exact rationals), the theorems instantiate it
  with the exact normalised cumulative sum `cdfOf dist`.
  No imports outside core: this file is linked into the compiled driver.
-/
import QecVerif.Model.Pauli
namespace Qec.Stream

/-- the uniform stream: `s i` is the i-th double `rng.random` returns -/
abbrev UStream := Nat → Rat

/-- `p.cumsum()` with a running total -/
def cumsumFrom (acc : Rat) : List Rat → List Rat
  | [] => []
  | p :: ps => (acc + p) :: cumsumFrom (acc + p) ps

/-- `p.cumsum()` -/
def cumsum (ps : List Rat) : List Rat := cumsumFrom 0 ps

/-- `cdf = p.cumsum(); cdf /= cdf[-1]` over ℚ -/
def cdfOf (dist : List Rat) : List Rat :=
  let cs := cumsum dist
  cs.map (· / cs.getLastD 1)

/-- `cdf.searchsorted(u, side='right')` on a non-decreasing `cdf`: the first index whose entry
    exceeds `u` (= the number of entries `≤ u`, see `Lemmas/Stream.lean: choiceIdx_eq_countP`) -/
def choiceIdx : List Rat → Rat → Nat
  | [], _ => 0
  | c :: cs, u => if u < c then 0 else choiceIdx cs u + 1

/-- the alphabet handed to `rng.choice` by `SimpleErrorModel.generate`, in the code's order -/
def letters : List P1 := [P1.I, P1.X, P1.Y, P1.Z]

/-- `a[idx]` for `a = ('I','X','Y','Z')`.  An index ≥ 4 would be an IndexError inside numpy; it
    cannot occur when `u < cdf[-1]` (`choiceIdx_lt_length`); the driver checks `inRange`
    and answers `IndexError` instead of using the filler value. -/
def pauliOfIdx (k : Nat) : P1 := letters.getD k P1.I

/-- the Pauli one uniform is mapped to -/
def pauliOf (cdf : List Rat) (u : Rat) : P1 := pauliOfIdx (choiceIdx cdf u)

/-- `rng.random(k)` at position `pos` -/
def draws (s : UStream) (pos k : Nat) : List Rat := (List.range k).map fun i => s (pos + i)

/-- the string `''.join(rng.choice(('I','X','Y','Z'), size=n, p=dist))` -/
def generatePauli (n : Nat) (cdf : List Rat) (s : UStream) (pos : Nat) : PStr :=
  (draws s pos n).map (pauliOf cdf)

/-- `SimpleErrorModel.generate`: the string converted by `pauli_to_bsf`; consumes `n` uniforms -/
def generate (n : Nat) (cdf : List Rat) (s : UStream) (pos : Nat) : BVec :=
  toBsf (generatePauli n cdf s pos)

/-- `a[idx]` for `a = (0, 1)` -/
def bitOfIdx (k : Nat) : Bool := [false, true].getD k false

/-- one measurement flip -/
def flipOf (cdf : List Rat) (u : Rat) : Bool := bitOfIdx (choiceIdx cdf u)

/-- the distribution `_run_once` passes for measurement flips: `p=(1 - q, q)` -/
def measDist (q : Rat) : List Rat := [1 - q, q]

/-- one step's measurement errors and the new stream position:
    `if q: rng.choice((0, 1), size=m, p=(1 - q, q)) else: zeros(m)` — no draw when `q` is falsy -/
def measFlips (m : Nat) (q : Rat) (cdfM : List Rat) (s : UStream) (pos : Nat) : BVec × Nat :=
  if q = 0 then (zeros m, pos) else ((draws s pos m).map (flipOf cdfM), pos + m)

/-- the loop of `_run_once`: per step first the step error (n draws), then that step's flips -/
def runSteps (n m : Nat) (cdfE : List Rat) (q : Rat) (cdfM : List Rat) (s : UStream) :
    (T : Nat) → (pos : Nat) → List (BVec × BVec) × Nat
  | 0, pos => ([], pos)
  | T + 1, pos =>
      let e := generate n cdfE s pos
      let fp := measFlips m q cdfM s (pos + n)
      let rest := runSteps n m cdfE q cdfM s T fp.2
      ((e, fp.1) :: rest.1, rest.2)

/-- the default of `run_once_ftp` / `run_ftp`:
    `if q is None: q = 0.0 if time_steps == 1 else error_probability` -/
def resolveQ (q : Option Rat) (T : Nat) (p : Rat) : Rat :=
  match q with
  | some q => q
  | none => if T = 1 then 0 else p

/-- `R` consecutive runs (`_run` with `max_runs = R`) drawing from one generator -/
def runMany (n m : Nat) (cdfE : List Rat) (q : Rat) (cdfM : List Rat) (s : UStream) (T : Nat) :
    (R : Nat) → (pos : Nat) → List (List (BVec × BVec)) × Nat
  | 0, pos => ([], pos)
  | R + 1, pos =>
      let r := runSteps n m cdfE q cdfM s T pos
      let rest := runMany n m cdfE q cdfM s T R r.2
      (r.1 :: rest.1, rest.2)

/-- every uniform among `us` selects an index inside the alphabet (no IndexError) -/
def inRange (cdf : List Rat) (us : List Rat) : Bool := us.all fun u => choiceIdx cdf u < cdf.length

/-! the exact-rational instances the theorems are about -/

/-- `generate` with the exact cdf of `dist` -/
def generateD (n : Nat) (dist : List Rat) (s : UStream) (pos : Nat) : BVec :=
  generate n (cdfOf dist) s pos

/-- `measFlips` with the exact cdf of `(1 - q, q)` -/
def measFlipsQ (m : Nat) (q : Rat) (s : UStream) (pos : Nat) : BVec × Nat :=
  measFlips m q (cdfOf (measDist q)) s pos

end Qec.Stream
