/-
  driver ops of the `StepGrid` model (first protocol token `stepgrid`)
-/
import QecVerif.Model.Wire
import QecVerif.Model.StepGrid
namespace Qec.Drv
open Qec Qec.Wire Qec.StepGrid

namespace StepGridW

def parseIdx? (s : String) : Option Idx :=
  match s.splitOn "," with
  | [a, b] => do let a ← a.toInt?; let b ← b.toInt?; pure (a, b)
  | _ => none

/-- matched pairs: `.` = none; `r,c>r,c` joined by `|` -/
def parsePairs? (s : String) : Option (List (Idx × Idx)) :=
  if s == "." then some [] else
  (s.splitOn "|").mapM fun m =>
    match m.splitOn ">" with
    | [a, b] => do let a ← parseIdx? a; let b ← parseIdx? b; pure (a, b)
    | _ => none

def parseShape? : String → Option Shape
  | "t" => some .t | "r" => some .r | "f" => some .f | "l" => some .l | _ => none

end StepGridW
open StepGridW

def stepgrid : List String → Option String
  -- the grid after `set_background`: rows joined by `|`, cells `num/den` joined by `,`
  | ["grid", r, c, ini, fac, sh, ps] => do
      let r ← parseInt? r; let c ← parseInt? c; let ini ← parseRat? ini; let fac ← parseRat? fac
      let sh ← parseShape? sh; let ps ← parsePairs? ps
      pure ("|".intercalate ((grid r c ini fac sh ps).map fun row => ",".intercalate (row.map showRat)))
  -- `distance(src, tgt, algorithm)` over that background
  | ["dist", r, c, ini, fac, sh, ps, alg, a, b] => do
      let r ← parseInt? r; let c ← parseInt? c; let ini ← parseRat? ini; let fac ← parseRat? fac
      let sh ← parseShape? sh; let ps ← parsePairs? ps; let alg ← parseNat? alg
      let a ← parseIdx? a; let b ← parseIdx? b
      if alg = 1 ∨ alg = 2 ∨ alg = 4 then pure (showRat (bgDistance r c ini fac sh ps alg a b)) else none
  | _ => none

end Qec.Drv
