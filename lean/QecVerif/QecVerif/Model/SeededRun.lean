/-
  C06 (i) — `qecsim.app._run` with the random generator made explicit.

  `_run` builds ONE generator from `random_seed` (app.py: SeedSequence → default_rng) and hands
  it to every `_run_once`; inside `_run_once` it is consumed only by
    * `error_model.generate(code, p, rng)`            — `n` uniforms per time step
      (SimpleErrorModel: one `rng.choice(size=n_qubits, p=…)` = `rng.random(n)` + inverse CDF),
    * `rng.choice((0,1), size=m, p=(1-q,q))`          — `m` uniforms per time step, executed
      iff `measurement_error_probability` is truthy,
  and by nothing else (the decoder does not receive it).

  Externals (parameters, supplied by the harness / universally quantified in the theorems):
    * the stream `σ : Nat → U` of raw uniforms (`U` abstract: the model never looks inside one);
    * `gen  : List U → BVec`  what `generate` makes of its `n` uniforms (arbitrary function —
      C17 owns the inverse-CDF map; nothing here depends on it);
    * `flip : List U → BVec`  what the measurement `choice` makes of its `m` uniforms;
    * `decode : DecoderInput → Answer`  a deterministic decoder (C01's `Answer`).
  The loop needs fuel because `max_failures` alone does not bound the number of runs; running
  out of fuel is an explicit error, never a default.
-/
import QecVerif.Model.RunLoop
namespace Qec.Seeded
open Qec

/-- the `len` stream elements from position `pos` on -/
def window {U : Type} (σ : Nat → U) (pos len : Nat) : List U :=
  (List.range len).map fun i => σ (pos + i)

structure Params (U : Type) where
  n : Nat                       -- qubits: `code.n_k_d[0]`
  T : Nat                       -- time steps
  qTruthy : Bool                -- `if measurement_error_probability:`
  S : List BVec                 -- code.stabilizers (rows)
  L : List BVec                 -- code.logicals (rows)
  gen : List U → BVec
  flip : List U → BVec
  decode : DecoderInput → Answer

variable {U : Type}

/-- syndrome length -/
def Params.m (P : Params U) : Nat := P.S.length
/-- uniforms consumed by one time step -/
def Params.dps (P : Params U) : Nat := P.n + (if P.qTruthy then P.m else 0)
/-- uniforms consumed by one run -/
def Params.dpr (P : Params U) : Nat := P.T * P.dps

/-- one time step of `_run_once`: (step error, measurement error) and the new stream position -/
def step (P : Params U) (σ : Nat → U) (pos : Nat) : (BVec × BVec) × Nat :=
  let e := P.gen (window σ pos P.n)
  let pos1 := pos + P.n
  if P.qTruthy then ((e, P.flip (window σ pos1 P.m)), pos1 + P.m)
  else ((e, zeros P.m), pos1)

/-- `for _ in range(time_steps)` with the position threaded through -/
def steps (P : Params U) (σ : Nat → U) : Nat → Nat → List (BVec × BVec) × Nat
  | 0, pos => ([], pos)
  | t + 1, pos =>
    let r := step P σ pos
    let rs := steps P σ t r.2
    (r.1 :: rs.1, rs.2)

/-- everything observable about one run -/
structure RunRecord where
  stepErrors : List BVec
  stepMeas : List BVec
  input : DecoderInput
  out : Except RunErr RunOut

/-- `_run_once` from stream position `pos` -/
def runOnce (P : Params U) (σ : Nat → U) (pos : Nat) : RunRecord × Nat :=
  let r := steps P σ P.T pos
  let es := r.1.map (·.1)
  let ms := r.1.map (·.2)
  let di := decoderInput P.n P.S es ms P.qTruthy
  ({ stepErrors := es, stepMeas := ms, input := di
     out := resolve P.S P.L es di.error (P.decode di) }, r.2)

inductive Err
  | run (k : Nat) (e : RunErr)      -- `_run_once` raised during run `k` (1-based)
  | loop (e : LoopErr)              -- C04's array mismatch
  | fuel                            -- guard still true after `fuel` runs
  deriving DecidableEq, Repr

structure Final where
  state : LoopState
  pos : Nat                          -- stream position when the loop stopped
  records : List RunRecord           -- one per run, in run order

/-- the `while` loop of `_run`, the stream position threaded through the runs -/
def loop (P : Params U) (σ : Nat → U) (mr mf : Option Nat) :
    Nat → LoopState → Nat → List RunRecord → Except Err Final
  | 0, s, pos, acc => if guard mr mf s then .error .fuel else .ok ⟨s, pos, acc⟩
  | fuel + 1, s, pos, acc =>
    if guard mr mf s then
      let r := runOnce P σ pos
      match r.1.out with
      | .error e => .error (.run (s.nRun + 1) e)
      | .ok o =>
        match body s o with
        | .error e => .error (.loop e)
        | .ok s' => loop P σ mr mf fuel s' r.2 (acc ++ [r.1])
    else .ok ⟨s, pos, acc⟩

/-- `_run` seeded: the generator starts at position 0 -/
def runLoopSeeded (P : Params U) (σ : Nat → U) (mr mf : Option Nat) (fuel : Nat) : Except Err Final :=
  loop P σ (effectiveMaxRuns mr mf) mf fuel {} 0 []

/-- the returned aggregate (no wall time in it by construction) together with the trace -/
def run (P : Params U) (σ : Nat → U) (mr mf : Option Nat) (fuel : Nat) : Except Err (Aggregate × Final) :=
  (runLoopSeeded P σ mr mf fuel).map fun F => (aggregate P.n P.T F.state, F)

/-- the record of run number `k` (0-based) in closed form: it starts at position `k * dpr` -/
def runAt (P : Params U) (σ : Nat → U) (k : Nat) : RunRecord := (runOnce P σ (k * P.dpr)).1

/-- the outcomes of the runs that returned one -/
def okOuts (rs : List RunRecord) : List RunOut :=
  rs.filterMap fun r => match r.out with | .ok o => some o | .error _ => none

end Qec.Seeded
