/-
  C05 — `qecsim.app.merge`.
  A raw record is what the caller passes (possibly legacy: fields absent; possibly JSON-decoded:
  lists for tuples).  Numeric key fields are exact rationals (Python compares 1 == 1.0; floats
  are dyadic rationals).
-/
namespace Qec

/-- presence of an array field in a raw record -/
inductive ArrField
  | absent                        -- key missing (legacy record)
  | null                          -- None
  | arr (isList : Bool) (v : List Int)
  deriving DecidableEq, Repr

structure RawRec where
  code : String
  nkd : List (Option Int)         -- (n, k, d) with d possibly None
  nkdIsList : Bool                -- JSON-decoded: list instead of tuple
  errorModel : String
  decoder : String
  p : Rat
  T : Option Int                  -- absent in legacy records
  q : Option Rat                  -- absent in legacy records
  nRun : Int
  nSuccess : Int
  nFail : Int
  ewTotal : Int
  wall : Rat
  lc : ArrField
  cv : ArrField
  deriving DecidableEq, Repr

structure Key where
  code : String
  nkd : List (Option Int)
  errorModel : String
  decoder : String
  p : Rat
  T : Int
  q : Rat
  deriving DecidableEq, Repr

structure Sums where
  nRun : Int
  nFail : Int
  nSuccess : Int
  ewTotal : Int
  wall : Rat
  deriving DecidableEq, Repr

structure Group where
  key : Key
  sums : Sums
  lc : Option (List Int)
  cv : Option (List Int)
  deriving DecidableEq, Repr

inductive MergeErr | value | zeroDivision deriving DecidableEq, Repr

/-- defaults for legacy records + list→tuple normalisation -/
def keyOf (r : RawRec) : Key :=
  { code := r.code, nkd := r.nkd, errorModel := r.errorModel, decoder := r.decoder, p := r.p
    T := r.T.getD 1, q := r.q.getD 0 }

def arrOf : ArrField → Option (List Int)
  | .absent => none | .null => none | .arr _ v => some v

def sumsOf (r : RawRec) : Sums :=
  { nRun := r.nRun, nFail := r.nFail, nSuccess := r.nSuccess, ewTotal := r.ewTotal, wall := r.wall }

def Sums.add (a b : Sums) : Sums :=
  { nRun := a.nRun + b.nRun, nFail := a.nFail + b.nFail, nSuccess := a.nSuccess + b.nSuccess
    ewTotal := a.ewTotal + b.ewTotal, wall := a.wall + b.wall }

/-- combine an existing array sum with a new value; `none` = mismatch (ValueError) -/
def addArr (sum val : Option (List Int)) : Option (Option (List Int)) :=
  match sum, val with
  | none, none => some none
  | some s, some v => if s.length ≠ v.length then none else some (some (List.zipWith (· + ·) s v))
  | _, _ => none

/-- insert one record into the insertion-ordered group list -/
def insertRec (r : RawRec) : List Group → Except MergeErr (List Group)
  | [] => .ok [{ key := keyOf r, sums := sumsOf r, lc := arrOf r.lc, cv := arrOf r.cv }]
  | g :: gs =>
    if g.key = keyOf r then
      match addArr g.lc (arrOf r.lc), addArr g.cv (arrOf r.cv) with
      | some lc, some cv => .ok ({ key := g.key, sums := (sumsOf r).add g.sums, lc := lc, cv := cv } :: gs)
      | _, _ => .error .value
    else
      match insertRec r gs with
      | .ok gs' => .ok (g :: gs')
      | .error e => .error e

def foldRecs : List RawRec → List Group → Except MergeErr (List Group)
  | [], gs => .ok gs
  | r :: rs, gs =>
    match insertRec r gs with
    | .ok gs' => foldRecs rs gs'
    | .error e => .error e

/-- `_add_rate_statistics` divides by n_run, n and time_steps -/
def rateOk (g : Group) : Bool :=
  g.sums.nRun ≠ 0 && g.key.T ≠ 0 && (match g.key.nkd with | some n :: _ => n ≠ 0 | _ => true)

def lfr (g : Group) : Rat := (g.sums.nFail : Rat) / (g.sums.nRun : Rat)
def per (g : Group) : Rat :=
  match g.key.nkd with
  | some n :: _ => (g.sums.ewTotal : Rat) / (n : Rat) / (g.key.T : Rat) / (g.sums.nRun : Rat)
  | _ => 0

/-- `merge(*data_list)` -/
def merge (lists : List (List RawRec)) : Except MergeErr (List Group) :=
  match foldRecs lists.flatten [] with
  | .error e => .error e
  | .ok gs => if gs.all rateOk then .ok gs else .error .zeroDivision

/-- a merged group re-read as an input record (what feeding a merge result back means) -/
def Group.toRaw (g : Group) : RawRec :=
  { code := g.key.code, nkd := g.key.nkd, nkdIsList := false, errorModel := g.key.errorModel
    decoder := g.key.decoder, p := g.key.p, T := some g.key.T, q := some g.key.q
    nRun := g.sums.nRun, nSuccess := g.sums.nSuccess, nFail := g.sums.nFail, ewTotal := g.sums.ewTotal
    wall := g.sums.wall
    lc := match g.lc with | none => .null | some v => .arr false v
    cv := match g.cv with | none => .null | some v => .arr false v }

end Qec
