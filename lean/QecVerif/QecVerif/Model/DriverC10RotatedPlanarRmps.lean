import QecVerif.Model.Wire
import QecVerif.Model.Coset
import QecVerif.Model.RotatedPlanarRmpsTn
import QecVerif.Model.DriverC11
namespace Qec.Drv
open Qec Qec.Wire Qec.Coset

namespace C10Rprmps

def dist4? (a b c d : String) : Option (Dist Int) := do
  pure ⟨← parseInt? a, ← parseInt? b, ← parseInt? c, ← parseInt? d⟩

/-- `R C f aI aX aY aZ` with `R, C ≥ 3` (as `RotatedPlanarCode` demands) and `f` a bsf of the code's `2n` bits -/
def tnArgs? (sR sC sf a b c d : String) : Option (Int × Int × BVec × Dist Int) := do
  let R ← parseNat? sR
  let C ← parseNat? sC
  let f ← parseBits? sf
  let dist ← dist4? a b c d
  if R < 3 || C < 3 || f.length != 2 * (RotatedPlanar.nQubits R C).toNat then none else
  pure ((R : Int), (C : Int), f, dist)

def pauli? (s : String) : Option P1 :=
  if s == "I" then some .I else if s == "X" then some .X else if s == "Y" then some .Y
  else if s == "Z" then some .Z else none

/-- compass direction string (`-` for the bulk) -/
def dir? (s : String) : Option (PlanarTn.RowDir × PlanarTn.ColDir) :=
  match s with
  | "-" => some (.mid, .mid) | "n" => some (.n, .mid) | "ne" => some (.n, .e) | "e" => some (.mid, .e)
  | "se" => some (.s, .e) | "s" => some (.s, .mid) | "sw" => some (.s, .w) | "w" => some (.mid, .w)
  | "nw" => some (.n, .w) | _ => none

end C10Rprmps

open C10Rprmps in
/-- driver ops of the RotatedPlanarRMPSDecoder network (first protocol token `c10rprmps`); scalars are integer
    numerators over a common denominator `D`.

    * `qnode h even dir f aI aX aY aZ` → `ok n.e.s.w:entries` / `ValueError`: `create_q_node` for `h_node = h`,
      `even_column = even` (`1`/`0`), compass direction `dir` (`-` for the bulk) and the Pauli `f`;
    * `tn R C f aI aX aY aZ` → `ok RxC sites`: the network `rprmpsTn` (Model/RotatedPlanarRmpsTn.lean) in the C11 wire
      format (row-major, `N` for a site whose `create_q_node` raises);
    * `tncompat R C f …` → `1`/`0`: C11's `compatible`;
    * `tnvalue R C f …` / `tnvaluer R C f …` → `ok s v`: the model of `mps2d.contract` applied to the network / to its
      `mps2d.transpose`;
    * `tnvalued m R C f …` (`m` = `c` or `r`) → `ok v`: the evaluation `_coset_probabilities` performs in that mode
      (`contract(tn, stop=-1)`, `inner_product` with the last column);
    * `tnexact R C f …` → `ok v`: the literal sum over all bond-index assignments (refused above 2^22 terms);
    * `tncoset R C f …` → `n`: `cosetProb` of `f` for the model's `RotatedPlanar.stabilizers R C`. 
    * `tnvalues R C mode f …` (mode c | r | a) → `ok trace v0,v1,v2,v3`: the PROCEDURE of
      `RotatedPlanarRMPSDecoder._coset_probabilities` (`RotatedPlanarRmpsTn.cosetValuesC / R / A`: bras shared between
      pairs of cosets); `trace` = the calls in execution order (`t` = the four `mps2d.transpose`,
      `c<net>:start:stop:step` = a `mps2d.contract` on `tns[net]`, `i<net>` = an `inner_product` with the last column of
      `tns[net]`); integers over `D^n` (modes c, r) or rationals `p/q` (mode a). -/
def c10rprmps : List String → Option String
  | ["qnode", sh, se, sd, sf, a, b, c, d] => do
      let isH ← parseNat? sh
      let ev ← parseNat? se
      let (rd, cd) ← dir? sd
      let f ← pauli? sf
      let dist ← dist4? a b c d
      pure (match RotatedPlanarRmpsTn.qNode dist f (isH != 0) (ev != 0) rd cd with
        | some t => "ok " ++ C11.showT4 t
        | none => "ValueError")
  | ["tn", sR, sC, sf, a, b, c, d] => do
      let (R, C, f, dist) ← tnArgs? sR sC sf a b c d
      let tn := RotatedPlanarRmpsTn.rprmpsTn R C dist f
      pure s!"ok {tn.nrows}x{tn.ncols} {C11.showMPS tn.a.toList}"
  | ["tncompat", sR, sC, sf, a, b, c, d] => do
      let (R, C, f, dist) ← tnArgs? sR sC sf a b c d
      pure (showBool (Tensor.compatible (RotatedPlanarRmpsTn.rprmpsTn R C dist f)))
  | ["tnvalue", sR, sC, sf, a, b, c, d] => do
      let (R, C, f, dist) ← tnArgs? sR sC sf a b c d
      pure (C11.showRes C11.showResult (RotatedPlanarRmpsTn.tnValue R C dist f))
  | ["tnvaluer", sR, sC, sf, a, b, c, d] => do
      let (R, C, f, dist) ← tnArgs? sR sC sf a b c d
      pure (C11.showRes C11.showResult (RotatedPlanarRmpsTn.tnValueR R C dist f))
  | ["tnvalued", sm, sR, sC, sf, a, b, c, d] => do
      let (R, C, f, dist) ← tnArgs? sR sC sf a b c d
      let byRow ← if sm == "c" then some false else if sm == "r" then some true else none
      pure (C11.showRes toString (RotatedPlanarRmpsTn.tnValueD R C dist byRow f))
  | ["tnexact", sR, sC, sf, a, b, c, d] => do
      let (R, C, f, dist) ← tnArgs? sR sC sf a b c d
      let tn := RotatedPlanarRmpsTn.rprmpsTn R C dist f
      if Tensor.nAssignments tn > 4194304 then none else
      pure (match Tensor.exactValue tn with | some v => "ok " ++ toString v | none => "undefined")
  | ["tncoset", sR, sC, sf, a, b, c, d] => do
      let (R, C, f, dist) ← tnArgs? sR sC sf a b c d
      pure (toString (cosetProb dist (RotatedPlanar.stabilizers R C) f))
  | ["tnvalues", sR, sC, mode, sf, a, b, c, d] => do
      let (R, C, f, dist) ← tnArgs? sR sC sf a b c d
      let showE {α : Type} (sh : α → String) (tr : String) (r : Except Tensor.Err (List α)) : String :=
        match r with
        | .ok vs => s!"ok {tr} " ++ ",".intercalate (vs.map sh)
        | .error e => C11.showErr e
      let showQ (q : Rat) : String := s!"{q.num}/{q.den}"
      let trC := PlanarTn.planTrace RotatedPlanarRmpsTn.planCols
      let trR := "t," ++ PlanarTn.planTrace RotatedPlanarRmpsTn.planRows
      match mode with
      | "c" => pure (showE (toString : Int → String) trC (RotatedPlanarRmpsTn.cosetValuesC R C dist f))
      | "r" => pure (showE (toString : Int → String) trR (RotatedPlanarRmpsTn.cosetValuesR R C dist f))
      | "a" => pure (showE showQ (trC ++ "," ++ trR) (RotatedPlanarRmpsTn.cosetValuesA R C dist f))
      | _ => none
  | _ => none

end Qec.Drv
