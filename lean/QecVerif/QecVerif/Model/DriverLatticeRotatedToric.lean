import QecVerif.Model.DriverLattice
import QecVerif.Model.Lattice.RotatedToric
namespace Qec.Drv
open Qec Qec.Wire

/-- driver ops of the rotatedtoric family; sizes are `rows cols`, indices are `x,y` -/
def rotatedtoric : List String → Option String
  | ["ctor", r, c] => do
      let r ← parsePyVal? r; let c ← parsePyVal? c; pure (showCtor (RotatedToric.ctor r c))
  | ["nkd", r, c] => do
      let r ← parseInt? r; let c ← parseInt? c
      let (n, k, d) := RotatedToric.nkd r c; pure s!"{n} {k} {d}"
  | ["stabs", r, c] => do
      let r ← parseInt? r; let c ← parseInt? c; pure (showMat (RotatedToric.stabilizers r c))
  | ["lx", r, c] => do let r ← parseInt? r; let c ← parseInt? c; pure (showMat (RotatedToric.logicalXs r c))
  | ["lz", r, c] => do let r ← parseInt? r; let c ← parseInt? c; pure (showMat (RotatedToric.logicalZs r c))
  | ["plaqidx", r, c] => do
      let r ← parseInt? r; let c ← parseInt? c; pure (showIdxList (RotatedToric.plaquetteIndices r c))
  | ["bounds", r, c] => do
      let r ← parseInt? r; let c ← parseInt? c; pure (showIdx (RotatedToric.maxX c, RotatedToric.maxY r))
  | ["flat", r, c, i] => do
      let r ← parseInt? r; let c ← parseInt? c; let i ← parseIdx? i
      pure (if RotatedToric.inBounds r c i.1 i.2 then toString (RotatedToric.flatten r c i.1 i.2)
            else "AssertionError")
  | ["kinds", i] => do
      let i ← parseIdx? i
      pure s!"{showBool (RotatedToric.isXPlaquette i.1 i.2)}{showBool (RotatedToric.isZPlaquette i.1 i.2)}"
  | ["inb", r, c, i] => do
      let r ← parseInt? r; let c ← parseInt? c; let i ← parseIdx? i
      pure (showBool (RotatedToric.inBounds r c i.1 i.2))
  | ["mod", r, c, i] => do
      let r ← parseInt? r; let c ← parseInt? c; let i ← parseIdx? i
      pure (showIdx (RotatedToric.modIndex r c i))
  | ["site", r, c, op, i] => do
      let r ← parseInt? r; let c ← parseInt? c; let i ← parseIdx? i
      let op ← (match op.toList with | [ch] => P1.ofChar? ch | _ => none)
      pure (showBits (RotatedToric.site r c op (RotatedToric.identity r c) i))
  | ["sites", r, c, op, v, l] => do
      let r ← parseInt? r; let c ← parseInt? c; let op ← parseOp1? op; let v ← parseBits? v; let l ← parseIdxList? l
      if v.length != 2 * (RotatedToric.nQubits r c).toNat then none
      else pure (showBits (RotatedToric.sites r c op v l))
  | ["plaq", r, c, i] => do
      let r ← parseInt? r; let c ← parseInt? c; let i ← parseIdx? i
      pure (showBits (RotatedToric.plaquette r c (RotatedToric.identity r c) i.1 i.2))
  | ["trans", r, c, a, b] => do
      let r ← parseInt? r; let c ← parseInt? c; let a ← parseIdx? a; let b ← parseIdx? b
      match RotatedToric.translation r c a b with
      | .ok t => pure (showIdx t) | .error _ => pure "IndexError"
  | ["path", r, c, a, b] => do
      let r ← parseInt? r; let c ← parseInt? c; let a ← parseIdx? a; let b ← parseIdx? b
      pure (showExB (RotatedToric.path r c (RotatedToric.identity r c) a b))
  | ["pathsites", r, c, a, b] => do
      let r ← parseInt? r; let c ← parseInt? c; let a ← parseIdx? a; let b ← parseIdx? b
      match RotatedToric.pathIndices r c a b with
      | .ok l => pure (showIdxList l) | .error _ => pure "IndexError"
  | ["pathsitescf", r, c, a, b] => do
      let r ← parseInt? r; let c ← parseInt? c; let a ← parseIdx? a; let b ← parseIdx? b
      match RotatedToric.pathIndicesClosed r c a b with
      | .ok l => pure (showIdxList l) | .error _ => pure "IndexError"
  | ["s2p", r, c, s] => do
      let r ← parseInt? r; let c ← parseInt? c; let s ← parseBits? s
      pure (showIdxList (RotatedToric.syndromeToPlaquettes r c s))
  | ["mates", r, c, m] => do
      let r ← parseInt? r; let c ← parseInt? c; let m ← parsePairs? m
      pure (showExB (RotatedToric.applyMates r c m))
  | _ => none

end Qec.Drv
