/-
  Driver ops for Model/PlanarY.lean (first protocol token `planary`).

    planary cyc <down|up> s hi k           -> the first k entries of the cycle, comma separated
    planary fillsites R C r,c <0|1>        -> indices `_snake_fill` visits (down = 1), `r,c;…`
    planary snakefill R C r,c <0|1>        -> bits
    planary snake R C r,c se full skip     -> bits | ValueError | QecsimError
    planary partial R C r,c                -> bits
    planary destab R C r,c                 -> bits | ValueError | QecsimError
    planary boundaryops R C                -> matrix
    planary residualmap R C                -> `<size> key>value|key>value|…` in insertion order
    planary sample R C <matrix of syndromes> -> recoveries joined by `/` (each bits | error name)
    planary partialsum R C <syndrome>      -> combined partial recovery
    planary ystabs R C                     -> matrix | error name
    planary ylogical R C                   -> bits | error name
    planary decode R C pI pY <syndrome>    -> bits | tie | error name   (pI, pY integers: numerators over one denominator)
-/
import QecVerif.Model.Wire
import QecVerif.Model.PlanarY
namespace Qec.Drv
open Qec Qec.Wire Qec.PlanarY

namespace PlanarYW

def parseIdx? (s : String) : Option (Int × Int) :=
  match s.splitOn "," with
  | [a, b] => do let a ← a.toInt?; let b ← b.toInt?; pure (a, b)
  | _ => none

def showIdxList (l : List (Int × Int)) : String :=
  if l.isEmpty then "_" else ";".intercalate (l.map fun p => s!"{p.1},{p.2}")

def showEx : Except String BVec → String
  | .ok v => showBits v | .error e => e

def showExMat : Except String (List BVec) → String
  | .ok v => showMat v | .error e => e

end PlanarYW
open PlanarYW

def planary : List String → Option String
  | ["cyc", dir, s, hi, k] => do
      let s ← parseInt? s; let hi ← parseInt? hi; let k ← parseNat? k
      let l ← if dir == "down" then some (cycDown s hi) else if dir == "up" then some (cycUp s hi) else none
      pure (showIntList ((List.range k).map (cyc l)))
  | ["fillsites", r, c, i, d] => do
      let r ← parseInt? r; let c ← parseInt? c; let i ← parseIdx? i; let d ← parseBool? d
      pure (showIdxList (snakeFillSites r c i d))
  | ["snakefill", r, c, i, d] => do
      let r ← parseInt? r; let c ← parseInt? c; let i ← parseIdx? i; let d ← parseBool? d
      pure (showBits (snakeFill r c i d))
  | ["snake", r, c, i, se, full, skip] => do
      let r ← parseInt? r; let c ← parseInt? c; let i ← parseIdx? i
      let se ← parseBool? se; let full ← parseBool? full; let skip ← parseBool? skip
      pure (showEx (snake r c i se full skip))
  | ["partial", r, c, i] => do
      let r ← parseInt? r; let c ← parseInt? c; let i ← parseIdx? i
      pure (showBits (partialRecovery r c i))
  | ["destab", r, c, i] => do
      let r ← parseInt? r; let c ← parseInt? c; let i ← parseIdx? i
      pure (showEx (destabilizer r c i))
  | ["boundaryops", r, c] => do
      let r ← parseInt? r; let c ← parseInt? c; pure (showMat (boundaryOps r c))
  | ["residualmap", r, c] => do
      let r ← parseInt? r; let c ← parseInt? c
      let m := residualMap r c
      pure (toString m.length ++ " " ++ "|".intercalate (m.map fun e => showBits e.1 ++ ">" ++ showBits e.2))
  | ["sample", r, c, ss] => do
      let r ← parseInt? r; let c ← parseInt? c; let ss ← parseMat? ss
      let t : Thunk (List (BVec × BVec)) := Thunk.mk fun _ => residualMap r c
      pure ("/".intercalate (ss.map fun s => showEx (sampleRecoveryWith r c (fun _ => t.get) s)))
  | ["partialsum", r, c, s] => do
      let r ← parseInt? r; let c ← parseInt? c; let s ← parseBits? s
      pure (showEx (combinedPartial r c s))
  | ["ystabs", r, c] => do
      let r ← parseInt? r; let c ← parseInt? c; pure (showExMat (yStabilizers r c))
  | ["ylogical", r, c] => do
      let r ← parseInt? r; let c ← parseInt? c; pure (showEx (yLogical r c))
  | ["decode", r, c, pI, pY, s] => do
      let r ← parseInt? r; let c ← parseInt? c; let pI ← parseInt? pI; let pY ← parseInt? pY; let s ← parseBits? s
      pure (match decode r c pI pY s with
        | .ok (some v) => showBits v
        | .ok none => "tie"
        | .error e => e)
  | _ => none

end Qec.Drv
