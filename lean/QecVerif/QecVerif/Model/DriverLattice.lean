import QecVerif.Model.Wire
import QecVerif.Model.Lattice.Planar
namespace Qec.Drv
open Qec Qec.Wire

def parseIdx? (s : String) : Option (Int × Int) :=
  match s.splitOn "," with
  | [a, b] => do let a ← a.toInt?; let b ← b.toInt?; pure (a, b)
  | _ => none
def showIdx (p : Int × Int) : String := s!"{p.1},{p.2}"
def showIdxList (l : List (Int × Int)) : String := if l.isEmpty then "_" else ";".intercalate (l.map showIdx)

def parseIdx3? (s : String) : Option (Int × Int × Int) :=
  match s.splitOn "," with
  | [a, b, c] => do let a ← a.toInt?; let b ← b.toInt?; let c ← c.toInt?; pure (a, b, c)
  | _ => none
def showIdx3 (p : Int × Int × Int) : String := s!"{p.1},{p.2.1},{p.2.2}"
def showIdx3List (l : List (Int × Int × Int)) : String :=
  if l.isEmpty then "_" else ";".intercalate (l.map showIdx3)

/-- PyVal tokens: i<int>, bT/bF, f<num>/<den>, s, n -/
def parsePyVal? (s : String) : Option PyVal :=
  match s.toList with
  | 'i' :: rest => (String.ofList rest).toInt?.map .int
  | ['b', 'T'] => some (.bool true)
  | ['b', 'F'] => some (.bool false)
  | 'f' :: rest =>
      match (String.ofList rest).splitOn "/" with
      | [a, b] => do let a ← a.toInt?; let b ← b.toNat?; pure (.float a b)
      | _ => none
  | ['s'] => some .str
  | ['n'] => some .pynone
  | _ => none

def showCtor {α} : Except CtorErr α → String
  | .ok _ => "ok" | .error .value => "ValueError" | .error .type => "TypeError"

def showExB : Except IdxErr BVec → String
  | .ok v => showBits v | .error _ => "IndexError"

/-- index lists on the wire: `a,b;c,d;...` or `_` (empty) -/
def parseIdxList? (s : String) : Option (List (Int × Int)) :=
  if s == "_" then some [] else (s.splitOn ";").mapM parseIdx?
def parseIdx3List? (s : String) : Option (List (Int × Int × Int)) :=
  if s == "_" then some [] else (s.splitOn ";").mapM parseIdx3?
def parseOp1? (op : String) : Option P1 :=
  match op.toList with | [ch] => P1.ofChar? ch | _ => none

/-- ONE multi-index call `site(op, i1, i2, ...)` on a Pauli holding `v` for the families whose `site` refuses indices of
the wrong kind: the indices are applied in order; the first index that is not a site index raises IndexError and leaves
the indices before it applied (reply `IndexError:<bits>`); out-of-lattice site indices have no effect and the indices
after them are still applied -/
def sitesCall (isSite : Int × Int → Bool) (step : BVec → Int × Int → BVec) (v : BVec) (l : List (Int × Int)) : String :=
  let pre := l.takeWhile isSite
  let out := pre.foldl step v
  if pre.length == l.length then showBits out else s!"IndexError:{showBits out}"

def parsePairs? (s : String) : Option (List ((Int × Int) × (Int × Int))) :=
  if s == "_" then some [] else
  (s.splitOn ";").mapM fun p =>
    match p.splitOn ">" with
    | [a, b] => do let a ← parseIdx? a; let b ← parseIdx? b; pure (a, b)
    | _ => none

def planar : List String → Option String
  | ["ctor", r, c] => do let r ← parsePyVal? r; let c ← parsePyVal? c; pure (showCtor (Planar.ctor r c))
  | ["nkd", r, c] => do
      let r ← parseInt? r; let c ← parseInt? c
      let (n, k, d) := Planar.nkd r c; pure s!"{n} {k} {d}"
  | ["stabs", r, c] => do let r ← parseInt? r; let c ← parseInt? c; pure (showMat (Planar.stabilizers r c))
  | ["lx", r, c] => do let r ← parseInt? r; let c ← parseInt? c; pure (showBits (Planar.logicalX r c))
  | ["lz", r, c] => do let r ← parseInt? r; let c ← parseInt? c; pure (showBits (Planar.logicalZ r c))
  | ["plaqidx", r, c] => do
      let r ← parseInt? r; let c ← parseInt? c; pure (showIdxList (Planar.plaquetteIndices r c))
  | ["flat", r, c, i] => do
      let r ← parseInt? r; let c ← parseInt? c; let i ← parseIdx? i
      pure (if Planar.isSite i.1 i.2 && Planar.inBounds r c i.1 i.2 then toString (Planar.flatten r c i.1 i.2)
            else "AssertionError")
  | ["kinds", i] => do
      let i ← parseIdx? i
      pure s!"{showBool (Planar.isPlaquette i.1 i.2)}{showBool (Planar.isSite i.1 i.2)}{showBool (Planar.isPrimal i.1 i.2)}{showBool (Planar.isDual i.1 i.2)}"
  | ["inb", r, c, i] => do
      let r ← parseInt? r; let c ← parseInt? c; let i ← parseIdx? i; pure (showBool (Planar.inBounds r c i.1 i.2))
  | ["site", r, c, op, i] => do
      let r ← parseInt? r; let c ← parseInt? c; let i ← parseIdx? i
      let op ← (match op.toList with | [ch] => P1.ofChar? ch | _ => none)
      pure (if Planar.isSite i.1 i.2 then showBits (Planar.site r c op (Planar.identity r c) i) else "IndexError")
  | ["sites", r, c, op, v, l] => do
      let r ← parseInt? r; let c ← parseInt? c; let op ← parseOp1? op; let v ← parseBits? v; let l ← parseIdxList? l
      if v.length != 2 * (Planar.nQubits r c).toNat then none
      else pure (sitesCall (fun i => Planar.isSite i.1 i.2) (Planar.site r c op) v l)
  | ["opat", r, c, v, i] => do
      let r ← parseInt? r; let c ← parseInt? c; let v ← parseBits? v; let i ← parseIdx? i
      pure (if Planar.isSite i.1 i.2 && Planar.inBounds r c i.1 i.2
            then String.singleton (Planar.operatorAt r c v i.1 i.2).toChar else "IndexError")
  | ["plaq", r, c, i] => do
      let r ← parseInt? r; let c ← parseInt? c; let i ← parseIdx? i
      pure (showExB (Planar.plaquette r c (Planar.identity r c) i.1 i.2))
  | ["trans", r, c, a, b] => do
      let r ← parseInt? r; let c ← parseInt? c; let a ← parseIdx? a; let b ← parseIdx? b
      match Planar.translation r c a b with
      | .ok t => pure (showIdx t) | .error _ => pure "IndexError"
  | ["path", r, c, a, b] => do
      let r ← parseInt? r; let c ← parseInt? c; let a ← parseIdx? a; let b ← parseIdx? b
      pure (showExB (Planar.path r c (Planar.identity r c) a b))
  | ["dist", r, c, a, b] => do
      let r ← parseInt? r; let c ← parseInt? c; let a ← parseIdx? a; let b ← parseIdx? b
      match Planar.distance r c a b with
      | .ok d => pure (toString d) | .error _ => pure "IndexError"
  | ["virt", r, c, i] => do
      let r ← parseInt? r; let c ← parseInt? c; let i ← parseIdx? i
      match Planar.virtualPlaquette r c i.1 i.2 with
      | .ok t => pure (showIdx t) | .error _ => pure "IndexError"
  | ["s2p", r, c, s] => do
      let r ← parseInt? r; let c ← parseInt? c; let s ← parseBits? s
      pure (showIdxList (Planar.syndromeToPlaquettes r c s))
  | ["mates", r, c, m] => do
      let r ← parseInt? r; let c ← parseInt? c; let m ← parsePairs? m
      pure (showExB (Planar.applyMates r c m))
  | _ => none

end Qec.Drv
