import QecVerif.Model.Wire
namespace Qec.Drv
open Qec Qec.Wire

/-- driver ops of property C16 (first protocol token `c16`) -/
def c16 : List String → Option String
  | _ => none

end Qec.Drv
