import QecVerif.Model.Wire
import QecVerif.Model.ErrorModels
namespace Qec.Drv
open Qec Qec.Wire Qec.EM

namespace C16

def showDist (d : Dist) : String :=
  "ok " ++ showRat d.pI ++ " " ++ showRat d.pX ++ " " ++ showRat d.pY ++ " " ++ showRat d.pZ

def showV3 (v : V3) : String := showRat v.x ++ "," ++ showRat v.y ++ "," ++ showRat v.z

def parseAxis? (s : String) : Option Axis :=
  if s == "X" then some .X else if s == "Y" then some .Y else if s == "Z" then some .Z else none

def showAxis : Axis → String
  | .X => "X" | .Y => "Y" | .Z => "Z"

/-- scalar value: `i:<int>` `b:0|1` `f:<rat>` `nan` `+inf` `-inf` `s:<chars>` `N` -/
def parsePS? (s : String) : Option PS :=
  if s == "nan" then some .nan else if s == "+inf" then some .pinf else if s == "-inf" then some .ninf
  else if s == "N" then some .none
  else if s.startsWith "i:" then (s.drop 2).toString.toInt?.map PS.int
  else if s == "b:1" then some (.bool true) else if s == "b:0" then some (.bool false)
  else if s.startsWith "f:" then (parseRat? (s.drop 2).toString).map PS.flt
  else if s.startsWith "s:" then some (.str (s.drop 2).toString)
  else none

/-- value: scalar, or `[v;v;…]` (`[]` empty) -/
def parsePV? (s : String) : Option PV :=
  if s == "[]" then some (.seq []) else
  if s.startsWith "[" && s.endsWith "]" then
    ((((s.drop 1).toString.dropEnd 1).toString.splitOn ";").mapM parsePS?).map PV.seq
  else (parsePS? s).map PV.s

def showErr : CtorErr → String
  | .value => "ValueError" | .type => "TypeError"

def showNum : Num → String
  | .fin q => showRat q | .nan => "nan" | .pinf => "+inf" | .ninf => "-inf"

end C16
open C16

/-- driver ops of property C16 (first protocol token `c16`)
    dist dep|bf|pf|bpf <p>             → ok pI pX pY pZ          (exact rationals)
    dist bd <bias> <X|Y|Z> <p>         → ok pI pX pY pZ
    dist slice <l0> <l1> <l2> <pos> <p>→ ok pI pX pY pZ | QecsimError
    slice.info <l0> <l1> <l2> <pos>    → ok lim=<v3> ratio=<v3>|E neglim=<v3>|E
    yxres <p> <bias> <px> <py> <pz>    → ok r1 r2 r3 disc        (residuals of the defining equations)
    yxexact <bias> <p>                 → ok pI pX pY pZ | irrational
    ctor bd <val> <val> | ctor byx <val> | ctor slice <val> <val>
                                       → ok … | ValueError | TypeError | unmodelled -/
def c16 : List String → Option String
  | ["dist", m, p] => do
      let p ← parseRat? p
      if m == "dep" then pure (showDist (depolarizing p))
      else if m == "bf" then pure (showDist (bitFlip p))
      else if m == "pf" then pure (showDist (phaseFlip p))
      else if m == "bpf" then pure (showDist (bitPhaseFlip p))
      else none
  | ["dist", "bd", b, ax, p] => do
      let b ← parseRat? b; let ax ← parseAxis? ax; let p ← parseRat? p
      pure (showDist (biasedDepolarizing b ax p))
  | ["dist", "slice", l0, l1, l2, pos, p] => do
      let l0 ← parseRat? l0; let l1 ← parseRat? l1; let l2 ← parseRat? l2
      let pos ← parseRat? pos; let p ← parseRat? p
      match centerSlice? ⟨l0, l1, l2⟩ pos p with
      | some d => pure (showDist d)
      | none => pure "QecsimError"
  | ["slice.info", l0, l1, l2, pos] => do
      let l0 ← parseRat? l0; let l1 ← parseRat? l1; let l2 ← parseRat? l2
      let pos ← parseRat? pos
      let lim := normalize ⟨l0, l1, l2⟩
      let sh : Option V3 → String := fun o => match o with | some v => showV3 v | none => "E"
      pure ("ok lim=" ++ showV3 lim ++ " ratio=" ++ sh (ratio? lim pos) ++ " neglim=" ++ sh (negLim? lim))
  | ["yxres", p, b, px, py, pz] => do
      let p ← parseRat? p; let b ← parseRat? b
      let px ← parseRat? px; let py ← parseRat? py; let pz ← parseRat? pz
      let (r1, r2, r3) := biasedYXResidual p b (px, py, pz)
      pure ("ok " ++ showRat r1 ++ " " ++ showRat r2 ++ " " ++ showRat r3 ++ " " ++ showRat (yxDisc b p))
  | ["yxexact", b, p] => do
      let b ← parseRat? b; let p ← parseRat? p
      match biasedYX? b p with
      | some d => pure (showDist d)
      | none => pure "irrational"
  | ["ctor", "bd", b, ax] => do
      let b ← parsePV? b; let ax ← parsePV? ax
      match ctorBiasedDepolarizing b ax with
      | .ok (q, a) => pure ("ok " ++ showRat q ++ " " ++ showAxis a)
      | .error e => pure (showErr e)
  | ["ctor", "byx", b] => do
      let b ← parsePV? b
      match ctorBiasedYX b with
      | .ok q => pure ("ok " ++ showRat q)
      | .error e => pure (showErr e)
  | ["ctor", "slice", l, pos] => do
      let l ← parsePV? l; let pos ← parsePV? pos
      match ctorCenterSlice l pos with
      | none => pure "unmodelled"
      | some (.error e) => pure (showErr e)
      | some (.ok a) => pure ("ok " ++ ",".intercalate (a.lim.map showNum) ++ " " ++ showRat a.pos ++
          " dom=" ++ showBool (limInDomain a.lim))
  | _ => none

end Qec.Drv
