/-
  C18 — `qecsim.models.generic.FileErrorModel` (and its `_JSONLines` reader).
  `json.loads` is external: every non-comment line comes with the token the harness' `json.loads`
  produced for it.  Comment / blank detection (`^\s*(//.*)?$`, Unicode `\s`) and the splitting of the file text
  into lines (universal newlines) are modelled on the raw text (code points).
-/
import QecVerif.Model.Pauli
namespace Qec.FileEM

/-- header value: a number (exact rational of the JSON number), JSON null, or anything else (opaque) -/
inductive HVal
  | num (r : Rat)
  | null
  | str (s : String)          -- a JSON string (opaque text, hex-coded by the harness)
  | other (repr : String)     -- list / object / bool: opaque canonical rendering
  deriving DecidableEq, Repr

inductive Tok
  | obj (kvs : List (String × HVal))   -- JSON object, keys in document order (duplicates already collapsed)
  | entry (bytes : List Nat) (len : Nat)  -- well-formed body entry ["hex", len]
  | bad                                  -- any other JSON value (number, string, malformed list)
  | invalid                              -- json.loads raises (JSONDecodeError ⊂ ValueError)
  deriving DecidableEq, Repr

structure Line where
  raw : List Char          -- the raw line text (ASCII), without the trailing newline
  tok : Tok                -- token for non-comment lines (ignored for comment/blank lines)
  deriving Repr

/-- `\s` of a Python `str` pattern: the `str.isspace` code points (ASCII blanks, FS/GS/RS/US, NEL, NBSP and the
    Unicode space / line / paragraph separators) -/
def isSpace (c : Char) : Bool :=
  let n := c.toNat
  (0x09 ≤ n && n ≤ 0x0d) || (0x1c ≤ n && n ≤ 0x20) || n == 0x85 || n == 0xa0 || n == 0x1680 ||
  (0x2000 ≤ n && n ≤ 0x200a) || n == 0x2028 || n == 0x2029 || n == 0x202f || n == 0x205f || n == 0x3000

/-- the lines `for line in open(filename)` yields (text mode, universal newlines), without their terminator:
    a line ends at `\n`, `\r\n` or a lone `\r` and at nothing else (form feed, vertical tab, FS/GS/RS, NEL,
    U+2028, U+2029 are ordinary characters of a line); text after the last terminator is a last line -/
def splitLinesAux : List Char → List Char → List (List Char)
  | cur, [] => if cur.isEmpty then [] else [cur.reverse]
  | cur, c :: t =>
    if c == '\n' then cur.reverse :: splitLinesAux [] t
    else if c == '\r' then
      match t with
      | c' :: t' => if c' == '\n' then cur.reverse :: splitLinesAux [] t' else cur.reverse :: splitLinesAux [] (c' :: t')
      | [] => [cur.reverse]
    else splitLinesAux (c :: cur) t
termination_by _ l => l.length

def splitLines (text : List Char) : List (List Char) := splitLinesAux [] text

/-- `^\s*(//.*)?$` on a line without its newline (`.` does not match a newline; none is present) -/
def isCommentOrBlank (raw : List Char) : Bool :=
  match raw.dropWhile isSpace with
  | [] => true
  | '/' :: '/' :: _ => true
  | _ => false

inductive Err | eof | value | type | rejected deriving DecidableEq, Repr

structure Reader where
  buffer : List Tok        -- push-back stack (top = head)
  rest : List Line
  deriving Repr

/-- `_JSONLines.pull`: returns the outcome and the reader state afterwards.  A line whose JSON is
    invalid has already been consumed from the stream when `json.loads` raises; at end of file the
    stream stays exhausted. -/
def pull (rd : Reader) : Except Err Tok × Reader :=
  match rd.buffer with
  | t :: b => (.ok t, { rd with buffer := b })
  | [] =>
    let rec go : List Line → Except Err Tok × Reader
      | [] => (.error .eof, { buffer := [], rest := [] })
      | l :: ls =>
        if isCommentOrBlank l.raw then go ls
        else match l.tok with
          | .invalid => (.error .value, { buffer := [], rest := ls })
          | t => (.ok t, { buffer := [], rest := ls })
    go rd.rest

def push (rd : Reader) (t : Tok) : Reader := { rd with buffer := t :: rd.buffer }

structure Model where
  rd : Reader
  p : Rat
  label : HVal
  dist : Option HVal          -- `header.pop('probability_distribution', None)`
  extras : List (String × HVal)
  deriving Repr

/-- header accumulation: pull objects until a non-object, which is pushed back.
    Fuel = number of lines + 1 (each iteration consumes at least one line). -/
def readHeader : Nat → Reader → List (String × HVal) → Except Err (Reader × List (String × HVal))
  | 0, _, _ => .error .eof
  | f + 1, rd, hdr =>
    match pull rd with
    | (.error e, _) => .error e
    | (.ok (.obj kvs), rd') =>
      if kvs.any (fun kv => hdr.any (fun h => h.1 == kv.1)) then .error .value
      else readHeader f rd' (hdr ++ kvs)
    | (.ok t, rd') => .ok (push rd' t, hdr)

def popKey (k : String) (h : List (String × HVal)) : Option HVal × List (String × HVal) :=
  ((h.find? (·.1 == k)).map (·.2), h.filter (·.1 != k))

def skip : Nat → Reader → Except Err Reader
  | 0, rd => .ok rd
  | n + 1, rd => match pull rd with
    | (.error e, _) => .error e
    | (.ok _, rd') => skip n rd'

def isAlpha (c : Char) : Bool := ('a' ≤ c && c ≤ 'z') || ('A' ≤ c && c ≤ 'Z')
def isWord (c : Char) : Bool := isAlpha c || ('0' ≤ c && c ≤ '9') || c == '_'
/-- `^[a-zA-Z]\w*$` (ASCII) -/
def attrNameOk (k : String) : Bool :=
  match k.toList with
  | [] => false
  | c :: cs => isAlpha c && cs.all isWord

/-- attribute names a fresh `FileErrorModel` already has and that pass the name rule -/
def takenNames : List String := ["generate", "label", "probability_distribution"]

/-- start argument: an index ≥ 0 (`none` = not an index → TypeError) -/
def openModel (lines : List Line) (start : Option Int) : Except Err Model :=
  match start with
  | none => .error .type
  | some st =>
    if st < 0 then .error .value else
    match readHeader (lines.length + 1) { buffer := [], rest := lines } [] with
    | .error e => .error e
    | .ok (rd, hdr) =>
      let (pv, hdr) := popKey "probability" hdr
      match pv with
      | none => .error .value                       -- KeyError → ValueError
      | some (.null) => .error .type                -- float(None)
      | some (.other _) => .error .type             -- float([..]) / float({..}); bools are sent as num
      | some (.str _) => .error .value              -- float('text') (generator uses non-numeric text)
      | some (.num p) =>
        let (lv, hdr) := popKey "label" hdr
        match lv with
        | none => .error .value
        | some label =>
          let (dv, hdr) := popKey "probability_distribution" hdr
          match skip st.toNat rd with
          | .error e => .error e
          | .ok rd' =>
            -- extras: each key must match the name rule and must not shadow an existing attribute
            let rec chk : List (String × HVal) → List String → Bool
              | [], _ => true
              | kv :: r, seen => attrNameOk kv.1 && !(takenNames.contains kv.1) && !(seen.contains kv.1) &&
                                 chk r (kv.1 :: seen)
            if chk hdr [] then .ok { rd := rd', p := p, label := label, dist := dv, extras := hdr }
            else .error .value

/-- `generate(code, probability)`: n = number of qubits.  Returns the error and the new state. -/
def generate (m : Model) (n : Nat) (p : Rat) : Except Err BVec × Model :=
  if p ≠ m.p then (.error .value, m)
  else match pull m.rd with
    | (.error e, rd') => (.error e, { m with rd := rd' })
    | (.ok (.entry bytes len), rd') =>
        let e := unpack (bytes, len)
        if e.length ≠ 2 * n then (.error .value, { m with rd := rd' }) else (.ok e, { m with rd := rd' })
    | (.ok _, rd') => (.error .rejected, { m with rd := rd' })

/-- `probability_distribution(probability)`: truthiness of the header value decides -/
def HVal.truthy : HVal → Bool
  | .num r => r ≠ 0 | .null => false
  | .str s => s != "-" && s != ""            -- strings travel hex-coded; "-" is the empty string
  | .other r => r != "5b5d" && r != "7b7d"   -- hex of "[]" and "{}" (bools travel as numbers)

def probDist (m : Model) (p : Rat) : Except Err HVal :=
  if p ≠ m.p then .error .value
  else match m.dist with
    | some d => if d.truthy then .ok d else .error .value
    | none => .error .value

end Qec.FileEM
