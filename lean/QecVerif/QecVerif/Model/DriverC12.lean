import QecVerif.Model.Wire
namespace Qec.Drv
open Qec Qec.Wire

/-- driver ops of property C12 (first protocol token `c12`) -/
def c12 : List String → Option String
  | _ => none

end Qec.Drv
