import QecVerif.Model.Wire
import QecVerif.Model.MpsShape
namespace Qec.Drv
open Qec Qec.Wire Qec.Mps

/-
  driver ops of property C12 (first protocol token `c12`)
    c12 startstop <mps>                                   → ok a,b | ValueError:gap
    c12 zeros <mps> | c12 rev <mps>                       → ok <mps>
    c12 bond <mps>                                        → ok <n>
    c12 lcf|rcf <chi|N> <tol|N> <qr> <norm> <mask|N> <mps> <orc>
                                                          → ok z=<0|1> t=<mps> tr=<trace> left=<n> | <error>
    c12 trunc <chi|N> <tol|N> <mask|N> <mps> <orc>        → ok same=<0|1> z=<0|1> t=<mps> tr1=… tr2=… left=<n> | <error>
  <mps>  : sites joined by ';' , a site is 'N' or 'n,e,s,w' ; '_' = empty list
  <orc>  : entries joined by ';' : Q<rat> | S<rat>,<rat>,… | L<rat> ; '_' = empty
  <trace>: steps joined by ';' : row:Q|S:rows:cols:kept|Z ; '_' = empty
           (Z = the step raised the zero flag: |R|_F = 0, σ₀ = 0, or — SVD with tol on — no σ/σ₀ exceeds tol)
-/

namespace C12

def parseSite? (s : String) : Option Site :=
  if s == "N" then some none else
  match (s.splitOn ",").mapM (·.toNat?) with
  | some [n, e, s', w] => some (some ⟨n, e, s', w⟩)
  | _ => none

def parseMps? (s : String) : Option Mps :=
  if s == "_" then some [] else (s.splitOn ";").mapM parseSite?

def showSite : Site → String
  | none => "N"
  | some t => s!"{t.n},{t.e},{t.s},{t.w}"

def showMps (m : Mps) : String :=
  if m.isEmpty then "_" else ";".intercalate (m.map showSite)

def parseOrc1? (s : String) : Option Orc :=
  match s.toList with
  | 'Q' :: r => (parseRat? (String.ofList r)).map .qr
  | 'L' :: r => (parseRat? (String.ofList r)).map .last
  | 'S' :: r =>
      let body := String.ofList r
      if body == "" then some (.svd []) else ((body.splitOn ",").mapM parseRat?).map .svd
  | _ => none

def parseOrc? (s : String) : Option (List Orc) :=
  if s == "_" then some [] else (s.splitOn ";").mapM parseOrc1?

def showStep (s : Step) : String :=
  let k := match s.kept with | some k => toString k | none => "Z"
  s!"{s.row}:{if s.isQr then "Q" else "S"}:{s.rows}:{s.cols}:{k}"

def showTrace (t : List Step) : String :=
  if t.isEmpty then "_" else ";".intercalate (t.map showStep)

def showErr : Err → String
  | .assertion => "AssertionError"
  | .gap => "ValueError:gap"
  | .bond => "ValueError:bond"
  | .oracle => "bad-oracle"

def showRes : Except Err Res → String
  | .error e => showErr e
  | .ok r => s!"ok z={showBool r.zero} t={showMps r.tensors} tr={showTrace r.trace} left={r.rest.length}"

def showTrunc : Except Err TruncRes → String
  | .error e => showErr e
  | .ok r => s!"ok same={showBool r.same} z={showBool r.zero} t={showMps r.tensors} tr1={showTrace r.trace1} tr2={showTrace r.trace2} left={r.rest.length}"

def parseMask? (s : String) : Option (Option (List Bool)) := parseOptBits? s

end C12

open C12 in
/-- driver ops of property C12 (first protocol token `c12`) -/
def c12 : List String → Option String
  | ["startstop", m] => do
      let m ← parseMps? m
      pure (match startStop m with
            | .ok (a, b) => s!"ok {a},{b}"
            | .error e => showErr e)
  | ["zeros", m] => do
      let m ← parseMps? m
      pure ("ok " ++ showMps (zerosLike m))
  | ["rev", m] => do
      let m ← parseMps? m
      pure ("ok " ++ showMps (rev m))
  | ["bond", m] => do
      let m ← parseMps? m
      pure s!"ok {bondDim m}"
  | [op, chi, tol, qr, nrm, mask, m, orc] => do
      let chi ← parseOptNat? chi
      let tol ← parseOptRat? tol
      let qr ← parseBool? qr
      let nrm ← parseBool? nrm
      let mask ← parseMask? mask
      let m ← parseMps? m
      let orc ← parseOrc? orc
      let p : Params := { chi := chi, tol := tol, qr := qr, normalise := nrm, mask := mask }
      if op == "lcf" then pure (showRes (lcf p m orc))
      else if op == "rcf" then pure (showRes (rcf p m orc))
      else none
  | ["trunc", chi, tol, mask, m, orc] => do
      let chi ← parseOptNat? chi
      let tol ← parseOptRat? tol
      let mask ← parseMask? mask
      let m ← parseMps? m
      let orc ← parseOrc? orc
      pure (showTrunc (truncate chi tol mask m orc))
  | _ => none

end Qec.Drv
