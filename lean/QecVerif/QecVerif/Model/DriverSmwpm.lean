import QecVerif.Model.Wire
import QecVerif.Model.Smwpm
import QecVerif.Model.SmwpmTp
import QecVerif.Model.SmwpmWeight
namespace Qec.Drv
open Qec Qec.Wire Qec.Smwpm Qec.Dec

namespace SmwpmW

def parseT3? (s : String) : Option TIdx :=
  match s.splitOn "," with
  | [a, b, c] => do let a ← a.toInt?; let b ← b.toInt?; let c ← c.toInt?; pure (a, b, c)
  | _ => none

def parseIdx2? (s : String) : Option Idx2 :=
  match s.splitOn "," with
  | [a, b] => do let a ← a.toInt?; let b ← b.toInt?; pure (a, b)
  | _ => none

/-- node `t,x,y,r` -/
def parseNode? (s : String) : Option Node :=
  match s.splitOn "," with
  | [a, b, c, r] => do
      let a ← a.toInt?; let b ← b.toInt?; let c ← c.toInt?; let r ← parseBool? r; pure ((a, b, c), r)
  | _ => none

/-- matches: `.` = none; `node>node` joined by `|` -/
def parseMatches? (s : String) : Option (List (Node × Node)) :=
  if s == "." then some [] else
  (s.splitOn "|").mapM fun m =>
    match m.splitOn ">" with
    | [a, b] => do let a ← parseNode? a; let b ← parseNode? b; pure (a, b)
    | _ => none

/-- cluster matches over creation indices: `.` = none; `i>j` joined by `|` -/
def parseCMatches? (s : String) : Option (List (Nat × Nat)) :=
  if s == "." then some [] else
  (s.splitOn "|").mapM fun m =>
    match m.splitOn ">" with
    | [a, b] => do let a ← a.toNat?; let b ← b.toNat?; pure (a, b)
    | _ => none

def parseClusters? (s : String) : Option (List (List TIdx)) :=
  if s == "." then some [] else (s.splitOn "|").mapM fun c => (c.splitOn ";").mapM parseT3?

def parseFlags? (s : String) : Option Flags :=
  match s.toList with
  | [a, b, c] => do
      let a ← parseBool? (String.singleton a); let b ← parseBool? (String.singleton b)
      let c ← parseBool? (String.singleton c); pure ⟨a, b, c⟩
  | _ => none

def showT3 (i : TIdx) : String := s!"{i.1},{i.2.1},{i.2.2}"
def showNode (n : Node) : String := s!"{showT3 n.1},{showBool n.2}"

def nodeLe (a b : Node) : Bool :=
  tlt a.1 b.1 || (decide (a.1 = b.1) && (!a.2 || b.2))

def edgeLe (a b : Node × Node) : Bool :=
  (nodeLe a.1 b.1 && !(a.1 == b.1)) || (a.1 == b.1 && nodeLe a.2 b.2)

def canonEdge (e : Node × Node) : Node × Node := if nodeLe e.1 e.2 then e else (e.2, e.1)

def dedupSorted {α} [BEq α] : List α → List α
  | a :: b :: rest => if a == b then dedupSorted (b :: rest) else a :: dedupSorted (b :: rest)
  | l => l

def showNodes (l : List Node) : String :=
  if l.isEmpty then "." else ";".intercalate ((dedupSorted (l.mergeSort nodeLe)).map showNode)

def showEdges (l : List (Node × Node)) : String :=
  if l.isEmpty then "." else
  "|".intercalate ((dedupSorted ((l.map canonEdge).mergeSort edgeLe)).map fun e => s!"{showNode e.1}>{showNode e.2}")

def showErr : Err → String
  | .crossMatch => "raise:crossMatch" | .notClosed => "raise:notClosed" | .oddLength => "raise:oddLength"
  | .rowLeft => "raise:rowLeft" | .nonFused => "raise:nonFused" | .pathBounds => "raise:pathBounds"
  | .pathType => "raise:pathType" | .badNode => "raise:badNode" | .oddDefective => "raise:oddDefective"

def showClusters (cls : List (List TIdx)) : String :=
  if cls.isEmpty then "." else "|".intercalate (cls.map fun c => ";".intercalate (c.map showT3))

def showKind : CKind → String
  | .defective => "d" | .neutral => "n" | .corner => "c" | .extra => "e"

def showCNode (n : ClNode) : String :=
  if n.kind = .extra then "e" else s!"{showKind n.kind}:{showT3 n.x}:{showT3 n.z}"

def showCNodes (ns : List ClNode) : String := if ns.isEmpty then "." else ";".intercalate (ns.map showCNode)

def showCEdges (es : List (Nat × Nat)) : String :=
  if es.isEmpty then "." else "|".intercalate (es.map fun e => s!"{e.1}>{e.2}")

def showEx {α} (f : α → String) : Except Err α → String
  | .error e => showErr e
  | .ok a => f a

/-- `step_measurement_errors`: `N` = None, `.` = empty list, else rows joined by `/` -/
def parseOptMat? (s : String) : Option (Option (List BVec)) :=
  if s == "N" then some none else (parseMat? s).map some

def showFErr : Toric.FErr → String
  | .dec e => showErr e | .zeroDiv => "ZeroDivisionError" | .noStepMeas => "QecsimError:nostepmeas"

def showResult (r : Ftp.Result) : String :=
  s!"su={showOpt showBool r.success} rec={showBits r.recovery} cv={showNatList r.cv}"

def showRunOut : Except RunErr RunOut → String
  | .error _ => "raise"
  | .ok o => s!"{o.errorWeight}:{showBool o.success}:{showOptIntList o.lc}:{showOptIntList o.cv}"

/-! ### edge weights (Model/SmwpmWeight.lean) -/
open Qec.Smwpm.Weight in
def parsePC? : Char → Option PC
  | 'n' => some .none | 'z' => some .zero | 'o' => some .one | 'm' => some .mid | _ => none

/-- context `e p q z`: eta-is-None bit, class of p, class of q, `p == q` bit — e.g. `1mm1` -/
def parseCtx? (s : String) : Option Weight.Ctx :=
  match s.toList with
  | [e, p, q, z] => do
      let e ← parseBool? (String.singleton e); let p ← parsePC? p; let q ← parsePC? q
      let z ← parseBool? (String.singleton z); pure ⟨e, p, q, z⟩
  | _ => none

def showDErr : Weight.DErr → String
  | .orthogonal => "raise:ValueError:orthogonal" | .diagInf => "raise:ValueError:diagInf"
  | .timeW => "raise:ValueError:timeW" | .parW => "raise:ValueError:parW" | .diagW => "raise:ValueError:diagW"
  | .zeroDiv => "raise:ZeroDivisionError" | .noCluster => "raise:ValueError:noCluster"
  | .emptyMin => "raise:ValueError:emptyMin"

def showSteps : Except Weight.DErr Weight.Steps → String
  | .error e => showDErr e
  | .ok s => s!"{s.time},{s.par},{s.diag}"

def showRatE : Except Weight.DErr Rat → String
  | .error e => showDErr e
  | .ok r => s!"{r.num}/{r.den}"

def showIntE : Except Weight.DErr Int → String
  | .error e => showDErr e
  | .ok r => s!"{r}"

/-- optional cluster: `N` = None, `.` = empty list, else `t,x,y;…` -/
def parseOptCluster? (s : String) : Option (Option (List TIdx)) :=
  if s == "N" then some none else if s == "." then some (some []) else ((s.splitOn ";").mapM parseT3?).map some

end SmwpmW
open SmwpmW

/-- driver ops of the rotated planar SMWPM model (first protocol token `smwpm`) -/
def smwpm : List String → Option String
  -- nodes of the symmetry graph (sorted, distinct)
  | ["nodes", r, c, rows] => do
      let r ← parseInt? r; let c ← parseInt? c; let rows ← parseMat? rows
      pure (showNodes (graphNodes r c rows))
  -- edges of the symmetry graph (unordered pairs, sorted, distinct)
  | ["edges", fl, r, c, rows] => do
      let fl ← parseFlags? fl; let r ← parseInt? r; let c ← parseInt? c; let rows ← parseMat? rows
      pure (showEdges (graphEdges fl r c rows))
  -- `_clusters(matches)`
  | ["clusters", ms] => do
      let ms ← parseMatches? ms
      pure (showEx showClusters (clusters ms))
  -- `_path_operator(code, a, b)`
  | ["path", r, c, a, b] => do
      let r ← parseInt? r; let c ← parseInt? c; let a ← parseIdx2? a; let b ← parseIdx2? b
      pure (showEx showBits (pathOp r c a b))
  -- `_recovery(code, clusters)`
  | ["rec1", r, c, cls] => do
      let r ← parseInt? r; let c ← parseInt? c; let cls ← parseClusters? cls
      pure (showEx showBits (recovery r c cls))
  -- `_cluster_corner_indices(code)`
  | ["corners", r, c] => do
      let r ← parseInt? r; let c ← parseInt? c
      pure (";".intercalate ((cornerIndices r c).map fun p => s!"{p.1.1},{p.1.2}:{p.2.1},{p.2.2}"))
  -- `_ClusterNode`s of `_cluster_graph` in creation order
  | ["cnodes", r, c, t, cls] => do
      let r ← parseInt? r; let c ← parseInt? c; let t ← parseNat? t; let cls ← parseClusters? cls
      pure (showEx showCNodes (clusterNodes r c t cls))
  -- edges of `_cluster_graph` over creation indices
  | ["cedges", r, c, t, cls] => do
      let r ← parseInt? r; let c ← parseInt? c; let t ← parseNat? t; let cls ← parseClusters? cls
      pure (showEx (fun ns => showCEdges (clusterEdges ns)) (clusterNodes r c t cls))
  -- `_cluster_recovery(code, cluster_matches)`
  | ["rec2", r, c, t, cls, cms] => do
      let r ← parseInt? r; let c ← parseInt? c; let t ← parseNat? t; let cls ← parseClusters? cls
      let cms ← parseCMatches? cms
      pure (match clusterNodes r c t cls with
        | .error e => showErr e
        | .ok ns => showEx showBits (clusterRecovery r c ns cms))
  -- whole `decode_ftp` from the two recorded matchings; `pm` = both are perfect matchings of the modelled graphs
  | ["decode", fl, r, c, rows, ms, cms] => do
      let fl ← parseFlags? fl; let r ← parseInt? r; let c ← parseInt? c; let rows ← parseMat? rows
      let ms ← parseMatches? ms; let cms ← parseCMatches? cms
      pure s!"pm={showBool (matchingsOk fl r c rows ms cms)} {showEx (fun v => "rec=" ++ showBits v) (decode r c rows.length ms cms)}"
  -- `_distance`: step counts and the evaluation with the three step weights given as integers
  | ["dist", r, c, t, ctx, wt, wp, wd, a, b] => do
      let r ← parseInt? r; let c ← parseInt? c; let t ← parseInt? t; let ctx ← parseCtx? ctx
      let wt ← parseInt? wt; let wp ← parseInt? wp; let wd ← parseInt? wd
      let a ← parseNode? a; let b ← parseNode? b
      pure s!"st={showSteps (Weight.planarSteps r c t a b)} d={showRatE (Weight.planarDistance r c t ctx wt wp wd a b)}"
  | ["tdist", r, c, t, ctx, wt, wp, wd, a, b] => do
      let r ← parseInt? r; let c ← parseInt? c; let t ← parseInt? t; let ctx ← parseCtx? ctx
      let wt ← parseInt? wt; let wp ← parseInt? wp; let wd ← parseInt? wd
      let a ← parseNode? a; let b ← parseNode? b
      pure s!"st={showSteps (Weight.toricSteps r c t a b)} d={showRatE (Weight.toricDistance r c t ctx wt wp wd a b)}"
  -- the `_add_edge` filter with the flags derived from the same context
  | ["edgeok", ctx, a, b] => do
      let ctx ← parseCtx? ctx; let a ← parseNode? a; let b ← parseNode? b
      pure (showBool (addEdgeOk ctx.flags a b))
  -- `_cluster_distance`
  | ["cdist", t, av, bv, ca, cb] => do
      let t ← parseInt? t; let av ← parseBool? av; let bv ← parseBool? bv
      let ca ← parseOptCluster? ca; let cb ← parseOptCluster? cb
      pure (showIntE (Weight.planarClusterDistance t av bv ca cb))
  | ["tcdist", r, c, t, ca, cb] => do
      let r ← parseInt? r; let c ← parseInt? c; let t ← parseInt? t
      let ca ← parseOptCluster? ca; let cb ← parseOptCluster? cb
      match ca, cb with
      | some ca, some cb => pure (showIntE (Weight.toricClusterDistance r c t ca cb))
      | _, _ => none
  -- rotated toric decoder
  | ["tnodes", r, c, rows] => do
      let r ← parseInt? r; let c ← parseInt? c; let rows ← parseMat? rows
      pure (showNodes (Toric.graphNodes r c rows))
  | ["tedges", fl, r, c, rows] => do
      let fl ← parseFlags? fl; let r ← parseInt? r; let c ← parseInt? c; let rows ← parseMat? rows
      pure (showEdges (Toric.graphEdges fl r c rows))
  | ["trec1", r, c, cls] => do
      let r ← parseInt? r; let c ← parseInt? c; let cls ← parseClusters? cls
      pure (showEx showBits (Toric.recovery r c cls))
  | ["tcnodes", cls] => do
      let cls ← parseClusters? cls
      pure (showEx showCNodes (Toric.clusterNodes cls))
  | ["tcedges", cls] => do
      let cls ← parseClusters? cls
      pure (showEx (fun ns => showCEdges (Toric.clusterEdges ns)) (Toric.clusterNodes cls))
  | ["trec2", r, c, cls, cms] => do
      let r ← parseInt? r; let c ← parseInt? c; let cls ← parseClusters? cls; let cms ← parseCMatches? cms
      pure (match Toric.clusterNodes cls with
        | .error e => showErr e
        | .ok ns => showEx showBits (Toric.clusterRecovery r c ns cms))
  | ["tdecode", fl, r, c, rows, ms, cms] => do
      let fl ← parseFlags? fl; let r ← parseInt? r; let c ← parseInt? c; let rows ← parseMat? rows
      let ms ← parseMatches? ms; let cms ← parseCMatches? cms
      pure s!"pm={showBool (Toric.matchingsOk fl r c rows ms cms)} {showEx (fun v => "rec=" ++ showBits v) (Toric.decode r c ms cms)}"
  -- t-parity outputs of both stages and the `DecodeResult` of the rotated toric `decode_ftp` from the two recorded
  -- matchings: `pm=… tp=sx,sz,cx,cz su=… rec=… cv=…`
  | ["tftp", fl, r, c, itp, rows, ms, cms, meas] => do
      let fl ← parseFlags? fl; let r ← parseInt? r; let c ← parseInt? c; let itp ← parseBool? itp
      let rows ← parseMat? rows; let ms ← parseMatches? ms; let cms ← parseCMatches? cms; let meas ← parseOptMat? meas
      let tp := match Toric.stageTps rows.length ms cms with
        | .error e => showFErr e
        | .ok s => s!"{s.sx},{s.sz},{s.cx},{s.cz}"
      let res := match Toric.decodeFtp r c rows.length itp ms cms meas with
        | .error e => showFErr e
        | .ok x => showResult x
      pure s!"pm={showBool (Toric.matchingsOk fl r c rows ms cms)} tp={tp} {res}"
  -- the whole fault-tolerant run: rows from the step errors and flips (C01 `syndromeRows`), the rotated toric
  -- `decode_ftp` from the two recorded matchings, then `app._run_once`'s verdict:
  -- `rows=… pm=… <DecodeResult> run=weight:success:logical_commutations:custom_values`
  | ["trun", fl, r, c, itp, es, meas, ms, cms] => do
      let fl ← parseFlags? fl; let r ← parseInt? r; let c ← parseInt? c; let itp ← parseBool? itp
      let es ← parseMat? es; let meas ← parseMat? meas; let ms ← parseMatches? ms; let cms ← parseCMatches? cms
      let S := RotatedToric.stabilizers r c
      let rows := syndromeRows S es meas
      let (res, run) := match Toric.decodeFtp r c rows.length itp ms cms (some meas) with
        | .error e => (showFErr e, "raise")
        | .ok x => (showResult x,
            showRunOut (Toric.runFtp S (RotatedToric.logicalXs r c ++ RotatedToric.logicalZs r c) (RotatedToric.nQubits r c).toNat es x))
      pure s!"rows={showMat rows} pm={showBool (Toric.matchingsOk fl r c rows ms cms)} {res} run={run}"
  | _ => none

end Qec.Drv
