import QecVerif.Model.Wire
import QecVerif.Model.Coset
import QecVerif.Model.PlanarRmpsTn
import QecVerif.Model.DriverC11
namespace Qec.Drv
open Qec Qec.Wire Qec.Coset

namespace C10Rmps

def showInts (l : List Int) : String := ",".intercalate (l.map toString)

def dist4? (a b c d : String) : Option (Dist Int) := do
  pure ⟨← parseInt? a, ← parseInt? b, ← parseInt? c, ← parseInt? d⟩

/-- `R C f aI aX aY aZ` with `R, C ≥ 2` (as `PlanarCode` demands) and `f` a bsf of the code's `2n` bits -/
def tnArgs? (sR sC sf a b c d : String) : Option (Int × Int × BVec × Dist Int) := do
  let R ← parseNat? sR
  let C ← parseNat? sC
  let f ← parseBits? sf
  let dist ← dist4? a b c d
  if R < 2 || C < 2 || f.length != 2 * (Planar.nQubits R C).toNat then none else
  pure ((R : Int), (C : Int), f, dist)

/-- contraction mode: `c` = by column (major diagonal), `r` = by row (minor diagonal, transposed networks) -/
def major? (s : String) : Option Bool := if s == "c" then some true else if s == "r" then some false else none

end C10Rmps

open C10Rmps in
/-- driver ops of the PlanarRMPSDecoder network (first protocol token `c10rmps`); scalars are integer numerators over
    a common denominator `D`.

    * `tn R C f aI aX aY aZ` → `ok KxK sites`: the network `rmpsTn` (Model/PlanarRmpsTn.lean) in the C11 wire format
      (`N` for a `None` site);
    * `tnvalue R C f aI aX aY aZ` → `ok s v`: the model of `mps2d.contract` (default arguments) applied to it;
    * `tnexact R C f aI aX aY aZ` → `ok v`: the literal sum over all bond-index assignments (refused above 2^20 terms);
    * `tncoset R C f aI aX aY aZ` → `n`: `cosetProb` of `f` for the model's `Planar.stabilizers R C`;
    * `samples R C m f` → the four samples of `_coset_probabilities` in mode `m` (`f`, `X f`, `Z X f`, `Z f` with the
      diagonal logicals), joined by `/`;
    * `opt R C m f aI aX aY aZ` → `ok ls rs v0,v1,v2,v3`: `_tn_contract_optimized` on the four networks of mode `m`:
      `left_stop`, `right_stop` and the four coset values;
    * `optcoset R C m f aI aX aY aZ` → `n0,n1,n2,n3`: `cosetProb` of the four samples (the right-hand side of the
      theorem `planarRmps_optimized_value`). -/
def c10rmps : List String → Option String
  | ["tn", sR, sC, sf, a, b, c, d] => do
      let (R, C, f, dist) ← tnArgs? sR sC sf a b c d
      let tn := PlanarRmpsTn.rmpsTn R C dist f
      pure s!"ok {tn.nrows}x{tn.ncols} {C11.showMPS tn.a.toList}"
  | ["tnvalue", sR, sC, sf, a, b, c, d] => do
      let (R, C, f, dist) ← tnArgs? sR sC sf a b c d
      pure (C11.showRes C11.showResult (PlanarRmpsTn.tnValue R C dist f))
  | ["tnexact", sR, sC, sf, a, b, c, d] => do
      let (R, C, f, dist) ← tnArgs? sR sC sf a b c d
      let tn := PlanarRmpsTn.rmpsTn R C dist f
      if Tensor.nAssignments tn > 1048576 then none else
      pure (match Tensor.exactValue tn with | some v => "ok " ++ toString v | none => "undefined")
  | ["tncoset", sR, sC, sf, a, b, c, d] => do
      let (R, C, f, dist) ← tnArgs? sR sC sf a b c d
      pure (toString (cosetProb dist (Planar.stabilizers R C) f))
  | ["samples", sR, sC, sm, sf] => do
      let (R, C, f, _) ← tnArgs? sR sC sf "1" "0" "0" "0"
      let major ← major? sm
      pure ("/".intercalate ((PlanarRmpsTn.samples4 R C major f).map showBits))
  | ["opt", sR, sC, sm, sf, a, b, c, d] => do
      let (R, C, f, dist) ← tnArgs? sR sC sf a b c d
      let major ← major? sm
      pure (C11.showRes (fun (r : Nat × Nat × List Int) => s!"{r.1} {r.2.1} {showInts r.2.2}")
        (PlanarRmpsTn.cosetValues R C dist major f))
  | ["optcoset", sR, sC, sm, sf, a, b, c, d] => do
      let (R, C, f, dist) ← tnArgs? sR sC sf a b c d
      let major ← major? sm
      pure (showInts ((PlanarRmpsTn.samples4 R C major f).map (cosetProb dist (Planar.stabilizers R C))))
  | _ => none

end Qec.Drv
