/-
  Model of `qecsim.graphtools` (src/qecsim/graphtools/__init__.py, blossom5.weight_to_int_fn) for property C13.

  * `Graph`            : `SimpleGraph(dict)` as an insertion-ordered association list keyed by ORDERED node pairs.
                         Nodes are small naturals on the wire (the harness numbers the decoders' node objects in
                         insertion order and keeps the real objects on the Python side); weights are exact rationals
                         (`Fraction(weight)` of the Python int/float).
  * `addEdge`          : `SimpleGraph.add_edge`: `self.pop((b, a), None); self[(a, b)] = w` with Python dict semantics
                         (`pop` deletes the key; `__setitem__` overwrites in place or appends at the end).
  * `mwpm`, `mwpmNetworkx` : the wrapper logic.  EXTERNAL (parameters, not modelled): `blossom5.available()` (a Bool),
                         and `networkx.algorithms.max_weight_matching(G, maxcardinality)` — Edmonds' blossom algorithm
                         lives in networkx, outside /repo; it is the parameter `oracle`.  `nxInput` is what the wrapper
                         hands to it: the edge list with NEGATED weights, and `maxcardinality = True`.
  * `minPM`            : a verified exact optimum: minimum total weight over all perfect matchings of a node list, by
                         "pair the first node with each later node that is a neighbour, recurse on the rest" (fuelled by
                         the node count).  Used by the harness as the oracle for the real matching's weight.
  * `isPerfectMatching`, `matchingWeight` : the checker that the driver evaluates on the REAL `gt.mwpm` output.
  * `weightToInt`      : branch logic + rounding of `blossom5.weight_to_int_fn`; `infty()` (C library) and the two float
                         operations (`infty()/10/max`, `weight*scaling`) are inputs.
  Imports nothing outside core (linked into the driver).
-/
namespace Qec.Matching

abbrev Node := Nat
abbrev Edge := Node × Node
/-- `SimpleGraph` contents in dict order -/
abbrev Graph := List (Edge × Rat)

/-- `dict.pop(k, None)` -/
def popKey (g : Graph) (k : Edge) : Graph := g.filter fun e => e.1 != k

/-- `dict.__setitem__`: overwrite in place when the key exists, else append -/
def setKey (g : Graph) (k : Edge) (w : Rat) : Graph :=
  if g.any (fun e => e.1 == k) then g.map (fun e => if e.1 == k then (k, w) else e) else g ++ [(k, w)]

/-- `SimpleGraph.add_edge(node_a, node_b, weight)` -/
def addEdge (g : Graph) (a b : Node) (w : Rat) : Graph := setKey (popKey g (b, a)) (a, b) w

/-- an insertion sequence applied to an empty `SimpleGraph` -/
def build (ops : List (Node × Node × Rat)) : Graph := ops.foldl (fun g o => addEdge g o.1 o.2.1 o.2.2) []

/-- `dict.get(k)` -/
def lookup (g : Graph) (k : Edge) : Option Rat := (g.find? fun e => e.1 == k).map (·.2)

/-- weight of the undirected edge {a,b}: the entry stored under `(a,b)`, else the one under `(b,a)` -/
def edgeW (g : Graph) (a b : Node) : Option Rat :=
  match lookup g (a, b) with
  | some w => some w
  | none => lookup g (b, a)

/-- nodes of the graph (duplicate-free) -/
def nodesOf (g : Graph) : List Node := g.foldr (fun e acc => List.insert e.1.1 (List.insert e.1.2 acc)) []

/-- `(a, b, -w) for (a, b), w in graph.items()` -/
def negated (g : Graph) : Graph := g.map fun e => (e.1, -e.2)

/-- arguments the wrapper passes to `nx.algorithms.max_weight_matching`: edges for `add_weighted_edges_from` and the
    `maxcardinality` flag -/
def nxInput (g : Graph) : Graph × Bool := (negated g, true)

/-- `mwpm_networkx(graph)` with the networkx routine as the parameter `oracle` -/
def mwpmNetworkx (oracle : Graph → Bool → List Edge) (g : Graph) : List Edge :=
  if g.isEmpty then [] else oracle (nxInput g).1 (nxInput g).2

/-- `mwpm_blossom5(graph)` up to the C library call (parameter `clib`, receives integer-weighted edges) -/
def mwpmBlossom5 (toInt : Rat → Int) (clib : List (Edge × Int) → List Edge) (g : Graph) : List Edge :=
  if g.isEmpty then [] else clib (g.map fun e => (e.1, toInt e.2))

/-- `mwpm(graph)`: backend dispatch on `blossom5.available()` -/
def mwpm (available : Bool) (blossom nxm : Graph → List Edge) (g : Graph) : List Edge :=
  if available then blossom g else nxm g

/-! ### verified optimum -/

def optMin : Option Rat → Option Rat → Option Rat
  | none, y => y
  | some x, none => some x
  | some x, some y => some (if x ≤ y then x else y)

def optAdd : Option Rat → Option Rat → Option Rat
  | some x, some y => some (x + y)
  | _, _ => none

/-- minimum total weight of a perfect matching of the nodes `ns` (duplicate-free) under the edge-weight function `w`
    (`none` = no edge); `none` when no perfect matching exists.  `fuel ≥ ns.length` suffices. -/
def minPMAux (w : Node → Node → Option Rat) : Nat → List Node → Option Rat
  | _, [] => some 0
  | 0, _ :: _ => none
  | f + 1, a :: rest =>
      rest.foldl (fun acc b => optMin acc (optAdd (w a b) (minPMAux w f (rest.erase b)))) none

def minPM (ns : List Node) (w : Node → Node → Option Rat) : Option Rat := minPMAux w ns.length ns

/-- the oracle applied to a `SimpleGraph` -/
def minPMGraph (g : Graph) : Option Rat := minPM (nodesOf g) (edgeW g)

/-! ### checker -/

def endpoints (m : List Edge) : List Node := m.flatMap fun p => [p.1, p.2]

/-- every pair of `m` is an edge of `g` (either stored orientation) and every node of `g` occurs exactly once among the
    endpoints -/
def isPerfectMatching (g : Graph) (m : List Edge) : Bool :=
  m.all (fun p => (edgeW g p.1 p.2).isSome) && (nodesOf g).all (fun v => (endpoints m).count v == 1)

def pairW (w : Node → Node → Option Rat) (p : Edge) : Rat := (w p.1 p.2).getD 0

def weightBy (w : Node → Node → Option Rat) : List Edge → Rat
  | [] => 0
  | p :: m => pairW w p + weightBy w m

/-- total weight of the pairs of `m` in `g` (pairs that are not edges count 0) -/
def matchingWeight (g : Graph) (m : List Edge) : Rat := weightBy (edgeW g) m

/-! ### blossom5.weight_to_int_fn -/

/-- `int(Decimal(x).to_integral_value(ROUND_HALF_UP))`: nearest integer, ties away from zero -/
def roundHalfAway (x : Rat) : Int :=
  if 0 ≤ x then (x + 1 / 2).floor else -((-x + 1 / 2).floor)

inductive W2I where
  | zero      -- `lambda wt: 0`
  | ident     -- `lambda wt: wt`
  | scaled    -- `_weight_to_int`
  deriving DecidableEq, Repr

/-- which function `weight_to_int_fn(weights)` returns; `allInt` = `all(isinstance(wt, int) for wt in weights)`,
    `infty` = `blossom5.infty()` -/
def weightToIntKind (infty : Rat) (allInt : Bool) (weights : List Rat) : W2I :=
  let nz := (weights.filter (· != 0)).map fun x => if 0 ≤ x then x else -x
  match nz with
  | [] => .zero
  | x :: xs =>
    let mx := xs.foldl (fun a b => if a ≤ b then b else a) x
    if mx < infty / 10 && allInt then .ident else .scaled

/-- the returned function applied to `wt`; `prod` is the float product `wt * scaling` (exact value of the float) -/
def weightToInt (infty : Rat) (allInt : Bool) (weights : List Rat) (wt prod : Rat) : Option Int :=
  match weightToIntKind infty allInt weights with
  | .zero => some 0
  | .ident => if wt.den = 1 then some wt.num else none
  | .scaled => some (roundHalfAway prod)

end Qec.Matching
