import QecVerif.Model.Wire
import QecVerif.Model.Matching
import QecVerif.Model.Blossom5
namespace Qec.Drv
open Qec Qec.Wire Qec.Matching

/-
  wire formats of C13
    ops / graph : entries `a,b,n/d` joined by `;` (`_` = empty); for a graph the order is dict order
    mates       : pairs `a,b` joined by `;` (`_` = empty)
    rat list    : `n/d` joined by `;` (`_` = empty)
    int edges   : entries `a,b,w` (w an integer) joined by `;` (`_` = empty), in list order   (Blossom V wrapper ops)
    nat list    : `3,1,2` (`_` = empty): a node listing (`list(set(...))` as observed) / the array `mates_array`

  Blossom V wrapper ops (`b5ids`, `b5objs`, `b5gt`, `b5mwpm`) run Model/Blossom5.lean — `mwpmIds`, `mwpmObjs`,
  `mwpmBlossom5` and the dispatch `Matching.mwpm` — with `clib` instantiated by a TABLE LOOK-UP: the harness supplies
  the array `mates_array` the (stand-in) C routine left behind; the table answers with it exactly when it is consulted
  with the arguments `(n_nodes, edge arrays)` printed in the reply, so the printed arrays are those the MODEL hands to
  its `clib` parameter (`args=ok`; checked by a second run with a probe table).  Reply:
      a=<nodes_a> b=<nodes_b> w=<weights> n=<n_nodes> args=ok assert=ok ids=<id pairs> mates=<node pairs>
      assert=fail                                      (the `assert` of `mwpm_ids`)
      empty                                            (`if not graph: return set()` of `mwpm_blossom5`)
      w2i-none                                         (non-integer weight under the identity rule: cannot arise)
  pairs are printed in sorted order (they are sets), each pair as the model built it.
-/
namespace C13

def parseEntry? (s : String) : Option (Node × Node × Rat) :=
  match s.splitOn "," with
  | [a, b, w] => do
      let a ← a.toNat?
      let b ← b.toNat?
      let w ← parseRat? w
      pure (a, b, w)
  | _ => none

def parseOps? (s : String) : Option (List (Node × Node × Rat)) :=
  if s == "_" then some [] else (s.splitOn ";").mapM parseEntry?

def parseGraph? (s : String) : Option Graph :=
  (parseOps? s).map fun l => l.map fun o => ((o.1, o.2.1), o.2.2)

def parsePair? (s : String) : Option Edge :=
  match s.splitOn "," with
  | [a, b] => do
      let a ← a.toNat?
      let b ← b.toNat?
      pure (a, b)
  | _ => none

def parseMates? (s : String) : Option (List Edge) :=
  if s == "_" then some [] else (s.splitOn ";").mapM parsePair?

def parseRats? (s : String) : Option (List Rat) :=
  if s == "_" then some [] else (s.splitOn ";").mapM parseRat?

def showGraph (g : Graph) : String :=
  if g.isEmpty then "_" else
  ";".intercalate (g.map fun e => toString e.1.1 ++ "," ++ toString e.1.2 ++ "," ++ showRat e.2)

def showCheck (g : Graph) (m : List Edge) : String :=
  "pm=" ++ showBool (isPerfectMatching g m) ++ " w=" ++ showRat (matchingWeight g m) ++
    " min=" ++ showOpt showRat (minPMGraph g)

/-! #### Blossom V wrapper (Model/Blossom5.lean) -/

def parseIEdge? (s : String) : Option Blossom5.IEdge :=
  match s.splitOn "," with
  | [a, b, w] => do
      let a ← a.toNat?
      let b ← b.toNat?
      let w ← w.toInt?
      pure (a, b, w)
  | _ => none

def parseIEdges? (s : String) : Option (List Blossom5.IEdge) :=
  if s == "_" then some [] else (s.splitOn ";").mapM parseIEdge?

def pairLe (p q : Nat × Nat) : Bool := p.1 < q.1 || (p.1 == q.1 && p.2 ≤ q.2)

def showPairs (l : List (Nat × Nat)) : String :=
  if l.isEmpty then "_" else
  ";".intercalate ((l.mergeSort pairLe).map fun p => toString p.1 ++ "," ++ toString p.2)

/-- One run of the modelled wrapper.  `run clib` = the modelled function with everything but the C routine fixed;
    `es` = the id edges expected at the C boundary, `mates` = the array the C routine left behind.  `clib` is the
    look-up table `(n_nodes, es) ↦ mates` (any other argument ↦ `[]`); `args` reports whether `run` consults its
    `clib` with exactly `(n_nodes, es)`: a probe table answers `[0]` there and `[1]` elsewhere, so that the pair built
    from slot 0 is `diag` = (node 0, node 0) exactly when the arguments are the printed ones. -/
def b5Report (run : Blossom5.Clib → Option (List (Nat × Nat))) (diag : Nat × Nat) (es : List Blossom5.IEdge)
    (mates : List Nat) : String :=
  let n := (Blossom5.nodeIds es).length
  let table : Blossom5.Clib := fun n' es' => if n' == n && es' == es then mates else []
  let probe : Blossom5.Clib := fun n' es' => if n' == n && es' == es then [0] else [1]
  match run table, Blossom5.mwpmIds table es with
  | some ms, some is =>
      let seen := n == 0 || (match run probe with | some l => l.contains diag | none => false)
      "a=" ++ showNatList (es.map (·.1)) ++ " b=" ++ showNatList (es.map (·.2.1)) ++
        " w=" ++ showIntList (es.map (·.2.2)) ++ " n=" ++ toString n ++
        " args=" ++ (if seen then "ok" else "DIFFER") ++ " assert=ok ids=" ++ showPairs is ++ " mates=" ++ showPairs ms
  | _, _ => "assert=fail"

/-- `node_to_id` applied to an edge list, as `blossom5.mwpm` does it -/
def idEdges (nodes : List Node) (edges : List Blossom5.IEdge) : List Blossom5.IEdge :=
  edges.map fun e => (nodes.idxOf e.1, nodes.idxOf e.2.1, e.2.2)

/-- `graphtools.mwpm_blossom5(graph)`; `prods` = the float products `weight * scaling`, parallel to the graph -/
def b5Gt (infty : Rat) (allInt : Bool) (nodes : List Node) (g : Graph) (prods : List Rat) (mates : List Nat) :
    String :=
  let prod : Rat → Rat := fun w => match (g.zip prods).find? (fun x => x.1.2 == w) with
    | some x => x.2 | none => 0
  let run := fun clib => Blossom5.mwpmBlossom5 infty allInt prod nodes clib g
  if g.isEmpty then (if run (fun _ _ => [1]) == some [] then "empty" else "not-empty")
  else
    let ws := g.map (·.2)
    match Blossom5.allSome (g.map fun e => (weightToInt infty allInt ws e.2 (prod e.2)).map fun z => (e.1.1, e.1.2, z)) with
    | none => if (run (fun _ _ => [])).isNone then "w2i-none" else "w2i-DIFFER"
    | some edges => b5Report run (nodes.getD 0 0, nodes.getD 0 0) (idEdges nodes edges) mates

end C13
open C13

/-- driver ops of property C13 (first protocol token `c13`) -/
def c13 : List String → Option String
  | ["build", ops] => do
      let ops ← parseOps? ops
      pure (showGraph (build ops))
  | ["nxin", g] => do
      let g ← parseGraph? g
      -- what `mwpm_networkx` does: empty graph ⇒ empty set without calling networkx; else the oracle's arguments
      if g.isEmpty then pure "empty"
      else pure (showGraph (nxInput g).1 ++ " mc=" ++ showBool (nxInput g).2)
  | ["check", g, m] => do
      let g ← parseGraph? g
      let m ← parseMates? m
      pure (showCheck g m)
  | ["checkops", ops, m] => do
      let ops ← parseOps? ops
      let m ← parseMates? m
      pure (showCheck (build ops) m)
  | ["minpm", g] => do
      let g ← parseGraph? g
      pure (showOpt showRat (minPMGraph g))
  | ["nodes", g] => do
      let g ← parseGraph? g
      pure (showNatList (nodesOf g))
  | ["w2i", infty, allInt, ws, wt, prod] => do
      let infty ← parseRat? infty
      let allInt ← parseBool? allInt
      let ws ← parseRats? ws
      let wt ← parseRat? wt
      let prod ← parseRat? prod
      let kind := match weightToIntKind infty allInt ws with
        | .zero => "zero" | .ident => "ident" | .scaled => "scaled"
      pure (kind ++ " " ++ showOpt toString (weightToInt infty allInt ws wt prod))
  -- blossom5.mwpm_ids(edges)
  | ["b5ids", es, mates] => do
      let es ← parseIEdges? es
      let mates ← parseNatList? mates
      pure (b5Report (fun clib => Blossom5.mwpmIds clib es) (0, 0) es mates)
  -- blossom5.mwpm(edges), nodes = the observed listing list(set(...))
  | ["b5objs", nodes, edges, mates] => do
      let nodes ← parseNatList? nodes
      let edges ← parseIEdges? edges
      let mates ← parseNatList? mates
      pure (b5Report (fun clib => Blossom5.mwpmObjs nodes clib edges) (nodes.getD 0 0, nodes.getD 0 0)
        (idEdges nodes edges) mates)
  -- graphtools.mwpm_blossom5(graph)
  | ["b5gt", infty, allInt, nodes, g, prods, mates] => do
      let infty ← parseRat? infty
      let allInt ← parseBool? allInt
      let nodes ← parseNatList? nodes
      let g ← parseGraph? g
      let prods ← parseRats? prods
      let mates ← parseNatList? mates
      if prods.length != g.length then none
      else pure (b5Gt infty allInt nodes g prods mates)
  -- graphtools.mwpm(graph): dispatch on blossom5.available()
  | ["b5mwpm", avail, infty, allInt, nodes, g, prods, mates] => do
      let avail ← parseBool? avail
      let infty ← parseRat? infty
      let allInt ← parseBool? allInt
      let nodes ← parseNatList? nodes
      let g ← parseGraph? g
      let prods ← parseRats? prods
      let mates ← parseNatList? mates
      if prods.length != g.length then none
      else
        -- which backend `Matching.mwpm` hands the graph to (marker matchings)
        let toB5 := Matching.mwpm avail (fun _ => [(1, 1)]) (fun _ => [(0, 0)]) g == [(1, 1)]
        if toB5 then pure ("dispatch=blossom5 " ++ b5Gt infty allInt nodes g prods mates)
        else pure "dispatch=networkx"
  | _ => none

end Qec.Drv
