import QecVerif.Model.Wire
namespace Qec.Drv
open Qec Qec.Wire

/-- driver ops of property C13 (first protocol token `c13`) -/
def c13 : List String → Option String
  | _ => none

end Qec.Drv
