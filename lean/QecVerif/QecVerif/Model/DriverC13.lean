import QecVerif.Model.Wire
import QecVerif.Model.Matching
namespace Qec.Drv
open Qec Qec.Wire Qec.Matching

/-
  wire formats of C13
    ops / graph : entries `a,b,n/d` joined by `;` (`_` = empty); for a graph the order is dict order
    mates       : pairs `a,b` joined by `;` (`_` = empty)
    rat list    : `n/d` joined by `;` (`_` = empty)
-/
namespace C13

def parseEntry? (s : String) : Option (Node × Node × Rat) :=
  match s.splitOn "," with
  | [a, b, w] => do
      let a ← a.toNat?
      let b ← b.toNat?
      let w ← parseRat? w
      pure (a, b, w)
  | _ => none

def parseOps? (s : String) : Option (List (Node × Node × Rat)) :=
  if s == "_" then some [] else (s.splitOn ";").mapM parseEntry?

def parseGraph? (s : String) : Option Graph :=
  (parseOps? s).map fun l => l.map fun o => ((o.1, o.2.1), o.2.2)

def parsePair? (s : String) : Option Edge :=
  match s.splitOn "," with
  | [a, b] => do
      let a ← a.toNat?
      let b ← b.toNat?
      pure (a, b)
  | _ => none

def parseMates? (s : String) : Option (List Edge) :=
  if s == "_" then some [] else (s.splitOn ";").mapM parsePair?

def parseRats? (s : String) : Option (List Rat) :=
  if s == "_" then some [] else (s.splitOn ";").mapM parseRat?

def showGraph (g : Graph) : String :=
  if g.isEmpty then "_" else
  ";".intercalate (g.map fun e => toString e.1.1 ++ "," ++ toString e.1.2 ++ "," ++ showRat e.2)

def showCheck (g : Graph) (m : List Edge) : String :=
  "pm=" ++ showBool (isPerfectMatching g m) ++ " w=" ++ showRat (matchingWeight g m) ++
    " min=" ++ showOpt showRat (minPMGraph g)

end C13
open C13

/-- driver ops of property C13 (first protocol token `c13`) -/
def c13 : List String → Option String
  | ["build", ops] => do
      let ops ← parseOps? ops
      pure (showGraph (build ops))
  | ["nxin", g] => do
      let g ← parseGraph? g
      -- what `mwpm_networkx` does: empty graph ⇒ empty set without calling networkx; else the oracle's arguments
      if g.isEmpty then pure "empty"
      else pure (showGraph (nxInput g).1 ++ " mc=" ++ showBool (nxInput g).2)
  | ["check", g, m] => do
      let g ← parseGraph? g
      let m ← parseMates? m
      pure (showCheck g m)
  | ["checkops", ops, m] => do
      let ops ← parseOps? ops
      let m ← parseMates? m
      pure (showCheck (build ops) m)
  | ["minpm", g] => do
      let g ← parseGraph? g
      pure (showOpt showRat (minPMGraph g))
  | ["nodes", g] => do
      let g ← parseGraph? g
      pure (showNatList (nodesOf g))
  | ["w2i", infty, allInt, ws, wt, prod] => do
      let infty ← parseRat? infty
      let allInt ← parseBool? allInt
      let ws ← parseRats? ws
      let wt ← parseRat? wt
      let prod ← parseRat? prod
      let kind := match weightToIntKind infty allInt ws with
        | .zero => "zero" | .ident => "ident" | .scaled => "scaled"
      pure (kind ++ " " ++ showOpt toString (weightToInt infty allInt ws wt prod))
  | _ => none

end Qec.Drv
