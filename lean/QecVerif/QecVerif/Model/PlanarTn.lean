/-
  C10 — the planar MPS decoder's tensor NETWORK, mirroring
  `qecsim.models.planar._planarmpsdecoder.PlanarMPSDecoder.TNC` (`node_shape`, `create_s_node` = `tsr.delta`,
  `h_node_value`, `v_node_value`, `create_h_node`, `create_v_node`, `create_tn`).

  * scalars are `Int`: the harness sends the numerators of the four floats of `prob_dist` over a common power-of-two
    denominator `D` (as for the `cosets` op); every entry of an h/v node is ONE of the four given probabilities
    (a dictionary look-up, no arithmetic), so `entry_real = entry_model / D` holds exactly, float for float;
    stabilizer nodes are integer deltas (`np.ones(shape, dtype=int)`), compared as they are;
  * the network has shape `(2R-1) x (2C-1)`, lattice coordinates = network coordinates, NO `None` site
    (`create_tn` fills every cell; padding occurs only in the rotated / colour decoders, which are not modelled);
  * leg order of every tensor is `(n, e, s, w)`; boundary legs are dummy (dimension 1), chosen by the
    compass-direction string built from the two dictionaries `row_to_direction = {0: 'n', nrows-1: 's'}`,
    `col_to_direction = {0: 'w', ncols-1: 'e'}` (a Python dict literal keeps the LAST value of a repeated key;
    `PlanarCode` guarantees R, C ≥ 2 so the keys are distinct, but the look-up order is mirrored anyway);
  * `v_node_value(f, n, e, s, w) = h_node_value(f, e, s, w, n)` (the rotated leg order of the real code).

  Imports nothing outside core (linked into `qvdriver`).
-/
import QecVerif.Model.Tensor
import QecVerif.Model.Lattice.Planar
import QecVerif.Model.Coset
namespace Qec.PlanarTn
open Qec Qec.Tensor Qec.Coset

/-- row part of the compass direction: `row_to_direction.get(row, '')` -/
inductive RowDir | mid | n | s
deriving DecidableEq, Repr
/-- column part of the compass direction: `col_to_direction.get(col, '')` -/
inductive ColDir | mid | w | e
deriving DecidableEq, Repr

/-- `{0: 'n', nrows - 1: 's'}.get(row, '')` -/
def rowDir (nrows row : Nat) : RowDir :=
  if row = nrows - 1 then .s else if row = 0 then .n else .mid

/-- `{0: 'w', ncols - 1: 'e'}.get(col, '')` -/
def colDir (ncols col : Nat) : ColDir :=
  if col = ncols - 1 then .e else if col = 0 then .w else .mid

/-- `TNC.node_shape(direction)`: the dictionary, entry by entry (`direction = rowpart + colpart`) -/
def nodeShape : RowDir → ColDir → Nat × Nat × Nat × Nat
  | .n, .mid => (1, 2, 2, 2)      -- 'n'
  | .n, .e => (1, 1, 2, 2)        -- 'ne'
  | .mid, .e => (2, 1, 2, 2)      -- 'e'
  | .s, .e => (2, 1, 1, 2)        -- 'se'
  | .s, .mid => (2, 2, 1, 2)      -- 's'
  | .s, .w => (2, 2, 1, 1)        -- 'sw'
  | .mid, .w => (2, 2, 2, 1)      -- 'w'
  | .n, .w => (1, 2, 2, 1)        -- 'nw'
  | .mid, .mid => (2, 2, 2, 2)    -- default

/-- entry of `tsr.delta(shape)` at index `(i, j, k, l)`: 1 when all non-dummy indices (legs of dimension ≠ 1) are
    equal — or there is none —, else 0 -/
def deltaEntry (sh : Nat × Nat × Nat × Nat) (i j k l : Nat) : Int :=
  let ndi := ([(sh.1, i), (sh.2.1, j), (sh.2.2.1, k), (sh.2.2.2, l)].filter fun p => p.1 != 1).map (·.2)
  match ndi with
  | [] => 1
  | x :: _ => if ndi.any (· != x) then 0 else 1

/-- `TNC.h_node_value(prob_dist, f, n, e, s, w)`: `op = (f + n*Z + e*X + s*Z + w*X) % 2` as a one-qubit bsf
    `[x, z]`, then `op_to_pr[bsf_to_pauli(op)]` -/
def hNodeValue (d : Dist Int) (f : P1) (n e s w : Nat) : Int :=
  let x := (f.xBit.toNat + n * 0 + e * 1 + s * 0 + w * 1) % 2
  let z := (f.zBit.toNat + n * 1 + e * 0 + s * 1 + w * 0) % 2
  d.at (x == 1) (z == 1)

/-- `TNC.v_node_value(prob_dist, f, n, e, s, w) = h_node_value(prob_dist, f, e, s, w, n)` -/
def vNodeValue (d : Dist Int) (f : P1) (n e s w : Nat) : Int := hNodeValue d f e s w n

def ofShape (sh : Nat × Nat × Nat × Nat) (f : Nat → Nat → Nat → Nat → Int) : T4 :=
  T4.ofFn sh.1 sh.2.1 sh.2.2.1 sh.2.2.2 f

/-- `TNC.create_s_node(direction)` -/
def sNode (rd : RowDir) (cd : ColDir) : T4 := ofShape (nodeShape rd cd) (deltaEntry (nodeShape rd cd))
/-- `TNC.create_h_node(prob_dist, f, direction)` -/
def hNode (d : Dist Int) (f : P1) (rd : RowDir) (cd : ColDir) : T4 := ofShape (nodeShape rd cd) (hNodeValue d f)
/-- `TNC.create_v_node(prob_dist, f, direction)` -/
def vNode (d : Dist Int) (f : P1) (rd : RowDir) (cd : ColDir) : T4 := ofShape (nodeShape rd cd) (vNodeValue d f)

/-- the node `create_tn` puts at `(row, col)` of a network of shape `nrows x ncols` -/
def node (R C : Int) (d : Dist Int) (sample : BVec) (nrows ncols row col : Nat) : T4 :=
  let rd := rowDir nrows row
  let cd := colDir ncols col
  if row % 2 = 0 ∧ col % 2 = 0 then hNode d (Planar.operatorAt R C sample row col) rd cd
  else if row % 2 = 1 ∧ col % 2 = 1 then vNode d (Planar.operatorAt R C sample row col) rd cd
  else sNode rd cd

/-- `TNC.create_tn(prob_dist, sample_pauli)` for the `R x C` planar code; `sample` is `sample_pauli.to_bsf()` -/
def planarTn (R C : Int) (d : Dist Int) (sample : BVec) : Net :=
  let nrows := (2 * R - 1).toNat
  let ncols := (2 * C - 1).toNat
  { nrows := nrows, ncols := ncols,
    a := Array.ofFn (n := nrows * ncols) fun ix =>
      some (node R C d sample nrows ncols (ix.val / ncols) (ix.val % ncols)) }

/-- the exact value of the planar network by the model of `mps2d.contract` with default arguments
    (left to right, no truncation) -/
def tnValue (R C : Int) (d : Dist Int) (sample : BVec) : Except Err Result :=
  contract (planarTn R C d sample) none false none none none none

/-! ### the procedure of `_coset_probabilities`: partially contracted bras SHARED between pairs of cosets

  `PlanarMPSDecoder._coset_probabilities` (and, with other pairings, `RotatedPlanarRMPSDecoder._coset_probabilities`)
  does not contract the four networks `tns = [create_tn(prob_dist, p) for p in (f, f·X̄, f·X̄·Z̄, f·Z̄)]` one by one:
  per GROUP it computes `bra, mult = mps2d.contract(tns[b], stop=-1)` once (all columns but the last, left to right)
  and then, for each member `(slot, k)` of the group, `coset_ps[slot] = mps.inner_product(bra, tns[k][:, -1]) * mult`.
  A `Plan` lists the groups in execution order; `runPlan` executes it (no truncation, no mask: `chi = tol = None`,
  `stp = None`).  Not modelled: the `except (ValueError, LinAlgError)` fall-back that leaves a group's slots at 0.0
  (the theorems show that the modelled procedure raises nothing) and the float `nan -> inf` replacement. -/

/-- the `stop` argument of the shared partial contraction -/
def braStop : Int := -1

/-- `bra, mult = mps2d.contract(tn, stop=-1)`: a result that is not a `(bra, mult)` pair cannot be unpacked (TypeError) -/
def sharedBra (tnB : Net) : Except Err (MPS × Int) :=
  match contract tnB none false none (some braStop) none none with
  | .error e => .error e
  | .ok (.part (some bra) mult) => .ok (bra, mult)
  | .ok _ => .error .type

/-- `mps.inner_product(bra, tnK[:, -1]) * mult` -/
def ketValue (bm : MPS × Int) (tnK : Net) : Except Err Int :=
  match innerProduct bm.1 (tnK.col (tnK.ncols - 1)) with
  | .error e => .error e
  | .ok ip => .ok (ip * bm.2)

/-- groups in execution order: `(index of the network the bra is contracted from, [(coset slot, index of the network
    whose last column is the ket)])` -/
abbrev Plan := List (Nat × List (Nat × Nat))

def emptyNet : Net := { nrows := 0, ncols := 0, a := #[] }

/-- one `try:` block: the shared bra, then the slots of the group in order -/
def runGroup (tns : List Net) (g : Nat × List (Nat × Nat)) : Except Err (List (Nat × Int)) :=
  match sharedBra (tns.getD g.1 emptyNet) with
  | .error e => .error e
  | .ok bm => g.2.mapM fun sk =>
      match ketValue bm (tns.getD sk.2 emptyNet) with
      | .error e => .error e
      | .ok v => .ok (sk.1, v)

/-- `coset_ps = [0.0, 0.0, 0.0, 0.0]`, then every group's assignments `coset_ps[slot] = …` in order -/
def runPlan (tns : List Net) (plan : Plan) : Except Err (List Int) :=
  match plan.mapM (runGroup tns) with
  | .error e => .error e
  | .ok rs => .ok (rs.flatten.foldl (fun acc p => acc.set p.1 p.2) [0, 0, 0, 0])

/-- the bookkeeping of a plan as the harness records it from outside: per group `c<net>:None:<stop>:None` (the
    `mps2d.contract` call: network index, start, stop, step) followed by `i<net>` per `inner_product` (network index of
    the ket column), joined by `,` -/
def planTrace (plan : Plan) : String :=
  ",".intercalate (plan.flatMap fun g =>
    s!"c{g.1}:None:{braStop}:None" :: g.2.map fun sk => s!"i{sk.2}")

/-- mode 'c' of `PlanarMPSDecoder`: "I,X and Z,Y cosets differ only in the last column (logical X)" — `bra_i` from
    `tns[0]` serves slots 0 (ket `tns[0]`) and 1 (ket `tns[1]`); `bra_z` from `tns[3]` serves slots 2 (ket `tns[2]`)
    and 3 (ket `tns[3]`) -/
def planC : Plan := [(0, [(0, 0), (1, 1)]), (3, [(2, 2), (3, 3)])]

/-- mode 'r' of `PlanarMPSDecoder`, on the transposed networks: "I,Z and X,Y cosets differ only in the last row
    (logical Z)" — `bra_i` from `tns[0]` serves slots 0 and 3; `bra_x` from `tns[1]` serves slots 1 and 2 -/
def planR : Plan := [(0, [(0, 0), (3, 3)]), (1, [(1, 1), (2, 2)])]

/-- `tns = [create_tn(prob_dist, p) for p in sample_paulis]` with the sample Paulis
    `f, f.logical_x(), f.logical_x().logical_z(), f.logical_z()` -/
def tns4 (R C : Int) (d : Dist Int) (f : BVec) : List Net :=
  (recoveries4 (Planar.logicalX R C) (Planar.logicalZ R C) f).map (planarTn R C d)

/-- `coset_ps_col` of `PlanarMPSDecoder._coset_probabilities` (mode 'c'; `chi = tol = stp = None`) -/
def cosetValuesC (R C : Int) (d : Dist Int) (f : BVec) : Except Err (List Int) :=
  runPlan (tns4 R C d f) planC

/-- `coset_ps_row` (mode 'r'): `tns = [mps2d.transpose(tn) for tn in tns]`, then the row pairing -/
def cosetValuesR (R C : Int) (d : Dist Int) (f : BVec) : Except Err (List Int) :=
  runPlan ((tns4 R C d f).map Net.transpose) planR

/-- mode 'a': `[sum(coset_p) / len(coset_p) for coset_p in zip(coset_ps_col, coset_ps_row)]` -/
def averageValues (c r : List Int) : List Rat := List.zipWith (fun a b => (((0 + a + b : Int) : Rat)) / 2) c r

/-- mode 'a' of `PlanarMPSDecoder._coset_probabilities`: by column, then by row, then the averages -/
def cosetValuesA (R C : Int) (d : Dist Int) (f : BVec) : Except Err (List Rat) :=
  match cosetValuesC R C d f with
  | .error e => .error e
  | .ok c =>
    match cosetValuesR R C d f with
    | .error e => .error e
    | .ok r => .ok (averageValues c r)

end Qec.PlanarTn
