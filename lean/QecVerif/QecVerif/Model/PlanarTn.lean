/-
  C10 — the planar MPS decoder's tensor NETWORK, mirroring
  `qecsim.models.planar._planarmpsdecoder.PlanarMPSDecoder.TNC` (`node_shape`, `create_s_node` = `tsr.delta`,
  `h_node_value`, `v_node_value`, `create_h_node`, `create_v_node`, `create_tn`).

  * scalars are `Int`: the harness sends the numerators of the four floats of `prob_dist` over a common power-of-two
    denominator `D` (as for the `cosets` op); every entry of an h/v node is ONE of the four given probabilities
    (a dictionary look-up, no arithmetic), so `entry_real = entry_model / D` holds exactly, float for float;
    stabilizer nodes are integer deltas (`np.ones(shape, dtype=int)`), compared as they are;
  * the network has shape `(2R-1) x (2C-1)`, lattice coordinates = network coordinates, NO `None` site
    (`create_tn` fills every cell; padding occurs only in the rotated / colour decoders, which are not modelled);
  * leg order of every tensor is `(n, e, s, w)`; boundary legs are dummy (dimension 1), chosen by the
    compass-direction string built from the two dictionaries `row_to_direction = {0: 'n', nrows-1: 's'}`,
    `col_to_direction = {0: 'w', ncols-1: 'e'}` (a Python dict literal keeps the LAST value of a repeated key;
    `PlanarCode` guarantees R, C ≥ 2 so the keys are distinct, but the look-up order is mirrored anyway);
  * `v_node_value(f, n, e, s, w) = h_node_value(f, e, s, w, n)` (the rotated leg order of the real code).

  Imports nothing outside core (linked into `qvdriver`).
-/
import QecVerif.Model.Tensor
import QecVerif.Model.Lattice.Planar
import QecVerif.Model.Coset
namespace Qec.PlanarTn
open Qec Qec.Tensor Qec.Coset

/-- row part of the compass direction: `row_to_direction.get(row, '')` -/
inductive RowDir | mid | n | s
deriving DecidableEq, Repr
/-- column part of the compass direction: `col_to_direction.get(col, '')` -/
inductive ColDir | mid | w | e
deriving DecidableEq, Repr

/-- `{0: 'n', nrows - 1: 's'}.get(row, '')` -/
def rowDir (nrows row : Nat) : RowDir :=
  if row = nrows - 1 then .s else if row = 0 then .n else .mid

/-- `{0: 'w', ncols - 1: 'e'}.get(col, '')` -/
def colDir (ncols col : Nat) : ColDir :=
  if col = ncols - 1 then .e else if col = 0 then .w else .mid

/-- `TNC.node_shape(direction)`: the dictionary, entry by entry (`direction = rowpart + colpart`) -/
def nodeShape : RowDir → ColDir → Nat × Nat × Nat × Nat
  | .n, .mid => (1, 2, 2, 2)      -- 'n'
  | .n, .e => (1, 1, 2, 2)        -- 'ne'
  | .mid, .e => (2, 1, 2, 2)      -- 'e'
  | .s, .e => (2, 1, 1, 2)        -- 'se'
  | .s, .mid => (2, 2, 1, 2)      -- 's'
  | .s, .w => (2, 2, 1, 1)        -- 'sw'
  | .mid, .w => (2, 2, 2, 1)      -- 'w'
  | .n, .w => (1, 2, 2, 1)        -- 'nw'
  | .mid, .mid => (2, 2, 2, 2)    -- default

/-- entry of `tsr.delta(shape)` at index `(i, j, k, l)`: 1 when all non-dummy indices (legs of dimension ≠ 1) are
    equal — or there is none —, else 0 -/
def deltaEntry (sh : Nat × Nat × Nat × Nat) (i j k l : Nat) : Int :=
  let ndi := ([(sh.1, i), (sh.2.1, j), (sh.2.2.1, k), (sh.2.2.2, l)].filter fun p => p.1 != 1).map (·.2)
  match ndi with
  | [] => 1
  | x :: _ => if ndi.any (· != x) then 0 else 1

/-- `TNC.h_node_value(prob_dist, f, n, e, s, w)`: `op = (f + n*Z + e*X + s*Z + w*X) % 2` as a one-qubit bsf
    `[x, z]`, then `op_to_pr[bsf_to_pauli(op)]` -/
def hNodeValue (d : Dist Int) (f : P1) (n e s w : Nat) : Int :=
  let x := (f.xBit.toNat + n * 0 + e * 1 + s * 0 + w * 1) % 2
  let z := (f.zBit.toNat + n * 1 + e * 0 + s * 1 + w * 0) % 2
  d.at (x == 1) (z == 1)

/-- `TNC.v_node_value(prob_dist, f, n, e, s, w) = h_node_value(prob_dist, f, e, s, w, n)` -/
def vNodeValue (d : Dist Int) (f : P1) (n e s w : Nat) : Int := hNodeValue d f e s w n

def ofShape (sh : Nat × Nat × Nat × Nat) (f : Nat → Nat → Nat → Nat → Int) : T4 :=
  T4.ofFn sh.1 sh.2.1 sh.2.2.1 sh.2.2.2 f

/-- `TNC.create_s_node(direction)` -/
def sNode (rd : RowDir) (cd : ColDir) : T4 := ofShape (nodeShape rd cd) (deltaEntry (nodeShape rd cd))
/-- `TNC.create_h_node(prob_dist, f, direction)` -/
def hNode (d : Dist Int) (f : P1) (rd : RowDir) (cd : ColDir) : T4 := ofShape (nodeShape rd cd) (hNodeValue d f)
/-- `TNC.create_v_node(prob_dist, f, direction)` -/
def vNode (d : Dist Int) (f : P1) (rd : RowDir) (cd : ColDir) : T4 := ofShape (nodeShape rd cd) (vNodeValue d f)

/-- the node `create_tn` puts at `(row, col)` of a network of shape `nrows x ncols` -/
def node (R C : Int) (d : Dist Int) (sample : BVec) (nrows ncols row col : Nat) : T4 :=
  let rd := rowDir nrows row
  let cd := colDir ncols col
  if row % 2 = 0 ∧ col % 2 = 0 then hNode d (Planar.operatorAt R C sample row col) rd cd
  else if row % 2 = 1 ∧ col % 2 = 1 then vNode d (Planar.operatorAt R C sample row col) rd cd
  else sNode rd cd

/-- `TNC.create_tn(prob_dist, sample_pauli)` for the `R x C` planar code; `sample` is `sample_pauli.to_bsf()` -/
def planarTn (R C : Int) (d : Dist Int) (sample : BVec) : Net :=
  let nrows := (2 * R - 1).toNat
  let ncols := (2 * C - 1).toNat
  { nrows := nrows, ncols := ncols,
    a := Array.ofFn (n := nrows * ncols) fun ix =>
      some (node R C d sample nrows ncols (ix.val / ncols) (ix.val % ncols)) }

/-- the exact value of the planar network by the model of `mps2d.contract` with default arguments
    (left to right, no truncation) -/
def tnValue (R C : Int) (d : Dist Int) (sample : BVec) : Except Err Result :=
  contract (planarTn R C d sample) none false none none none none

end Qec.PlanarTn
