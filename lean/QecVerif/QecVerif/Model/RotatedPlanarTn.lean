/-
  C10 — the rotated planar MPS decoder's tensor NETWORK, mirroring
  `qecsim.models.rotatedplanar._rotatedplanarmpsdecoder.RotatedPlanarMPSDecoder.TNC` (`h_node_value`, `v_node_value`,
  `create_h_node`, `create_v_node`, `create_s_node` with their three `_shape` dictionaries, `create_tn` with
  `_rotate_q_index`, `_rotate_p_index`, `_compass_q_direction`, `_compass_p_direction`).

  * scalars are `Int` numerators over the common power-of-two denominator `D` of the four floats of `prob_dist`
    (as for the planar network): every entry of an h/v node is ONE of the four given probabilities (a dictionary
    look-up), stabilizer nodes are the integer `tsr.delta`;
  * the network is the lattice rotated by 45 degrees: shape `(R+C-1) x (R+C-1)`; the site `(x, y)` sits at
    `(r, c) = ((C-1) + (R-1) - x - y, (R-1) - y + x)`, the plaquette `(x, y)` one row above its south-west site,
    `(r, c) = ((C-1) + (R-1) - x - y - 1, (R-1) - y + x)`; all other cells stay `None` (`np.empty(dtype=object)`).
    `create_tn` WRITES the cells while iterating over the code indices; the model READS the network cell by cell
    through the inverse of that index map (`cellX`, `cellY`, `cellPar`): the two maps are bijections between the
    in-bounds sites / plaquettes and the written cells, no cell is written twice (q-cells have `c - r + C - 1` even,
    s-cells odd).  The harness compares the whole real array, `None`s included, with the model on every run;
  * leg order of every tensor is `(n, e, s, w)` of the ROTATED network = `(ne, se, sw, nw)` of the lattice; legs
    towards a missing neighbour are dummy (dimension 1), chosen by the compass-direction string
    (`{max_y: 'n', 0: 's'}.get(y, '') + {0: 'w', max_x: 'e'}.get(x, '')` for sites, `-1` instead of `0` for
    plaquettes; a Python dict literal keeps the LAST value of a repeated key, mirrored by the look-up order although
    `RotatedPlanarCode` guarantees R, C ≥ 3) and three DIFFERENT dictionaries for h-, v- and s-nodes (the v-node has no
    `'sw'` entry, the s-node only `'n' 'e' 's' 'w'`; missing keys give `(2, 2, 2, 2)`);
  * h-node = site `(x, y)` with `is_z_plaquette((x, y))`, v-node otherwise;
    `v_node_value(f, n, e, s, w) = h_node_value(f, e, s, w, n)`; `h_node_value`, `v_node_value` and `tsr.delta` are
    the planar decoder's (`Model/PlanarTn.lean`), re-used.

  Imports nothing outside core (linked into `qvdriver`).
-/
import QecVerif.Model.Tensor
import QecVerif.Model.PlanarTn
import QecVerif.Model.Lattice.RotatedPlanar
import QecVerif.Model.Coset
namespace Qec.RotatedPlanarTn
open Qec Qec.Tensor Qec.Coset Qec.PlanarTn

/-- `_compass_q_direction`, row part: `{code.site_bounds[1]: 'n', 0: 's'}.get(y, '')` -/
def qRowDir (R y : Int) : RowDir := if y = 0 then .s else if y = RotatedPlanar.maxSiteY R then .n else .mid
/-- `_compass_q_direction`, column part: `{0: 'w', code.site_bounds[0]: 'e'}.get(x, '')` -/
def qColDir (C x : Int) : ColDir := if x = RotatedPlanar.maxSiteX C then .e else if x = 0 then .w else .mid
/-- `_compass_p_direction`, row part: `{code.site_bounds[1]: 'n', -1: 's'}.get(y, '')` -/
def pRowDir (R y : Int) : RowDir := if y = -1 then .s else if y = RotatedPlanar.maxSiteY R then .n else .mid
/-- `_compass_p_direction`, column part: `{-1: 'w', code.site_bounds[0]: 'e'}.get(x, '')` -/
def pColDir (C x : Int) : ColDir := if x = RotatedPlanar.maxSiteX C then .e else if x = -1 then .w else .mid

/-- `create_h_node._shape(direction)` -/
def hShape : RowDir → ColDir → Nat × Nat × Nat × Nat
  | .n, .mid => (2, 2, 2, 1)      -- 'n'
  | .n, .e => (1, 2, 2, 1)        -- 'ne'
  | .mid, .e => (1, 2, 2, 2)      -- 'e'
  | .s, .e => (1, 1, 2, 2)        -- 'se'
  | .s, .mid => (2, 1, 2, 2)      -- 's'
  | .s, .w => (2, 1, 1, 2)        -- 'sw'
  | .mid, .w => (2, 2, 1, 2)      -- 'w'
  | .n, .w => (2, 2, 1, 1)        -- 'nw'
  | .mid, .mid => (2, 2, 2, 2)    -- default

/-- `create_v_node._shape(direction)` (no `'sw'` entry: default) -/
def vShape : RowDir → ColDir → Nat × Nat × Nat × Nat
  | .n, .mid => (1, 2, 2, 2)      -- 'n'
  | .n, .e => (1, 1, 2, 2)        -- 'ne'
  | .mid, .e => (2, 1, 2, 2)      -- 'e'
  | .s, .e => (2, 1, 1, 2)        -- 'se'
  | .s, .mid => (2, 2, 1, 2)      -- 's'
  | .s, .w => (2, 2, 2, 2)        -- 'sw': not in the dictionary
  | .mid, .w => (2, 2, 2, 1)      -- 'w'
  | .n, .w => (1, 2, 2, 1)        -- 'nw'
  | .mid, .mid => (2, 2, 2, 2)    -- default

/-- `create_s_node._shape(direction)` (only the four one-letter keys) -/
def sShape : RowDir → ColDir → Nat × Nat × Nat × Nat
  | .n, .mid => (1, 2, 2, 1)      -- 'n'
  | .mid, .e => (1, 1, 2, 2)      -- 'e'
  | .s, .mid => (2, 1, 1, 2)      -- 's'
  | .mid, .w => (2, 2, 1, 1)      -- 'w'
  | _, _ => (2, 2, 2, 2)          -- default (also 'ne', 'se', 'sw', 'nw')

/-- `sample_pauli.operator((x, y))`: `'IXZY'[xs[f] + 2·zs[f]]` at the flat index `f = x + y·cols` -/
def opAt (R C : Int) (v : BVec) (x y : Int) : P1 :=
  let f := (RotatedPlanar.flatten R C x y).toNat
  P1.ofBits (v.getD f false) (v.getD ((RotatedPlanar.nQubits R C).toNat + f) false)

/-- inverse of `_rotate_q_index` / `_rotate_p_index`: the lattice `x` of the site (plaquette) written to cell
    `(r, c)`: `c - r = 2x - (C-1)` for a site, `2x + 1 - (C-1)` for a plaquette -/
def cellX (_R C : Int) (r c : Nat) : Int := ((c : Int) - (r : Int) + (C - 1)) / 2
/-- … and its `y`: `r + c = 2(R-1) + (C-1) - 2y` for a site, `… - 2y - 1` for a plaquette -/
def cellY (R C : Int) (r c : Nat) : Int := (2 * (R - 1) + (C - 1) - (r : Int) - (c : Int)) / 2
/-- 0 on the cells that can hold a q-node, 1 on the cells that can hold an s-node -/
def cellPar (_R C : Int) (r c : Nat) : Int := ((c : Int) - (r : Int) + (C - 1)) % 2

/-- the site of the network at `(r, c)` as `create_tn` leaves it -/
def node (R C : Int) (d : Dist Int) (sample : BVec) (r c : Nat) : Site :=
  let x := cellX R C r c
  let y := cellY R C r c
  if cellPar R C r c = 0 then
    if RotatedPlanar.inSiteBounds R C x y then
      some (if RotatedPlanar.isZPlaquette x y
        then ofShape (hShape (qRowDir R y) (qColDir C x)) (hNodeValue d (opAt R C sample x y))
        else ofShape (vShape (qRowDir R y) (qColDir C x)) (vNodeValue d (opAt R C sample x y)))
    else none
  else
    if RotatedPlanar.inPlaquetteBounds R C x y then
      some (ofShape (sShape (pRowDir R y) (pColDir C x)) (deltaEntry (sShape (pRowDir R y) (pColDir C x))))
    else none

/-- `TNC.create_tn(prob_dist, sample_pauli)` for the `R x C` rotated planar code; `sample` is
    `sample_pauli.to_bsf()` -/
def rplanarTn (R C : Int) (d : Dist Int) (sample : BVec) : Net :=
  let k := (R + C - 1).toNat
  { nrows := k, ncols := k,
    a := Array.ofFn (n := k * k) fun ix => node R C d sample (ix.val / k) (ix.val % k) }

/-- mode 'c': `mps2d.contract(tn)` with default arguments (left to right, no truncation) -/
def tnValue (R C : Int) (d : Dist Int) (sample : BVec) : Except Err Result :=
  contract (rplanarTn R C d sample) none false none none none none

/-- mode 'r': `mps2d.contract(mps2d.transpose(tn))` -/
def tnValueR (R C : Int) (d : Dist Int) (sample : BVec) : Except Err Result :=
  contract (rplanarTn R C d sample).transpose none false none none none none

/-! ### the procedure of `RotatedPlanarMPSDecoder._coset_probabilities`: this decoder shares NOTHING between cosets —
    four plain `mps2d.contract(tns[i])` calls per mode -/

/-- `coset_ps[i] = mps2d.contract(tns[i])`: a full contraction returns a scalar (a `(mps, mult)` pair could not be
    processed as a number: TypeError) -/
def fullValue (tn : Net) : Except Err Int :=
  match contract tn none false none none none none with
  | .error e => .error e
  | .ok (.scalar v) => .ok v
  | .ok _ => .error .type

/-- `tns = [create_tn(prob_dist, sp) for sp in sample_paulis]` -/
def tnsOf (R C : Int) (d : Dist Int) (f : BVec) : List Net :=
  (recoveries4 (RotatedPlanar.logicalX R C) (RotatedPlanar.logicalZ R C) f).map (rplanarTn R C d)

/-- `coset_ps_col` (mode 'c') -/
def cosetValuesC (R C : Int) (d : Dist Int) (f : BVec) : Except Err (List Int) := (tnsOf R C d f).mapM fullValue

/-- `coset_ps_row` (mode 'r'): `tns = [mps2d.transpose(tn) for tn in tns]` first -/
def cosetValuesR (R C : Int) (d : Dist Int) (f : BVec) : Except Err (List Int) :=
  ((tnsOf R C d f).map Net.transpose).mapM fullValue

/-- mode 'a': by column, then by row, then `sum(coset_p) / len(coset_p)` per coset -/
def cosetValuesA (R C : Int) (d : Dist Int) (f : BVec) : Except Err (List Rat) :=
  match cosetValuesC R C d f with
  | .error e => .error e
  | .ok c =>
    match cosetValuesR R C d f with
    | .error e => .error e
    | .ok r => .ok (PlanarTn.averageValues c r)

/-- the bookkeeping as the harness records it: four full contractions `c<i>:None:None:None` -/
def fullTrace : String := ",".intercalate ((List.range 4).map fun i => s!"c{i}:None:None:None")

end Qec.RotatedPlanarTn
