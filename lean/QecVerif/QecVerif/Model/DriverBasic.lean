import QecVerif.Model.Wire
import QecVerif.Model.Basic
namespace Qec.Drv
open Qec Qec.Wire

def showCode (c : Basic.Code) : String :=
  s!"{showMat c.stabilizers} {showMat c.logicalXs} {showMat c.logicalZs} {c.n} {c.k} {showOpt toString c.d}"

def basic : List String → Option String
  | ["five"] => some (showCode Basic.fiveQubit)
  | ["steane"] => some (showCode Basic.steane)
  | _ => none

end Qec.Drv
