/-
  C03 / C13 — the EDGE WEIGHTS of the symmetry-matching graphs: `_distance`, `_step_weight_time / _parallel /
  _diagonal` (which argument classes raise), `_cluster_distance` of `RotatedPlanarSMWPMDecoder` and
  `RotatedToricSMWPMDecoder` (`_rotatedplanarsmwpmdecoder.py:313-503, 836-861`,
  `_rotatedtoricsmwpmdecoder.py:258-443, 743-762`).

  What is mirrored:
  * the three integer step counts of `_distance` (`delta_time` on the periodic time axis, `delta_parallel`,
    `delta_diagonal` from the box rule; x / y swapped for column nodes; both lattice axes periodic in the toric
    code): `planarSteps`, `toricSteps`;
  * the orthogonal case (zero between a virtual plaquette and its twin in the planar code, `ValueError` otherwise);
  * the evaluation `distance`: the integer special case `eta is None and p == q` (with its "should not happen"
    `ValueError` for a diagonal step) and the weighted sum, each step weight being requested ONLY when its count is
    non-zero, in the order time, parallel, diagonal — so that the first undefined weight decides the exception;
  * which arguments make a step weight undefined (`None`, 0, 1 for time; `None`, 0 for parallel / diagonal; infinite
    bias for diagonal) and the one arithmetic trap (`p / (1 - p)` at `p = 1` with infinite bias:
    `ZeroDivisionError`);
  * `_cluster_distance` (minimum over all pairs of indices of two clusters of the Manhattan distance, time periodic;
    all three axes periodic in the toric code; zero between two virtual nodes and `ValueError` for a cluster-less
    node in the planar code).

  The VALUES of the step weights are floats (`-log(q / (1 - q))`, …) and stay outside Lean: they are the parameters
  `wt wp wd` (any `Rat`), the harness recomputes the float expression with the same association order.

  `Ctx` carries what the control flow depends on: `eta is None`, the class of `error_probability` and of
  `measurement_error_probability` (`None`, 0, 1, strictly between) and the outcome of the Python comparison
  `error_probability == measurement_error_probability`.
-/
import QecVerif.Model.Smwpm
namespace Qec.Smwpm.Weight
open Qec Qec.Smwpm

def iabs (x : Int) : Int := if x < 0 then -x else x

/-- `min(abs(a - b), dim - abs(a - b))` -/
def pdist (dim a b : Int) : Int := min (iabs (a - b)) (dim - iabs (a - b))

/-- the box rule of `_distance`: `(delta_parallel, delta_diagonal)` for a `w × h` box -/
def box (w h : Int) : Int × Int := if w ≥ h then (w - h, h) else ((h - w) % 2, h)

structure Steps where
  time : Int
  par : Int
  diag : Int
  deriving DecidableEq, Repr

/-- exception classes of `_distance` and the step weights -/
inductive DErr
  | orthogonal   -- ValueError('Distance undefined between orthogonals …')
  | diagInf      -- ValueError('Diagonal distance undefined for infinite bias …')
  | timeW        -- ValueError('Time step weight undefined …')
  | parW         -- ValueError('Parallel step weight undefined …')
  | diagW        -- ValueError('Diagonal step weight undefined …')
  | zeroDiv      -- ZeroDivisionError: `p / (1 - p)` at p = 1
  | noCluster    -- ValueError('Distance undefined between nodes without clusters.')
  | emptyMin     -- ValueError: min() of an empty sequence
  deriving DecidableEq, Repr

/-- `RotatedPlanarSMWPMDecoder._distance`: the step counts -/
def planarSteps (R C T : Int) (a b : Node) : Except DErr Steps :=
  if a.2 ≠ b.2 then
    if a.1 = b.1 ∧ RotatedPlanar.isVirtualPlaquette R C a.1.2.1 a.1.2.2 = true
        ∧ RotatedPlanar.isVirtualPlaquette R C b.1.2.1 b.1.2.2 = true
    then .ok ⟨0, 0, 0⟩ else .error .orthogonal
  else
    let ax := if a.2 then a.1.2.1 else a.1.2.2
    let ay := if a.2 then a.1.2.2 else a.1.2.1
    let bx := if b.2 then b.1.2.1 else b.1.2.2
    let by' := if b.2 then b.1.2.2 else b.1.2.1
    let pd := box (iabs (ax - bx)) (iabs (ay - by'))
    .ok ⟨pdist T a.1.1 b.1.1, pd.1, pd.2⟩

/-- `RotatedToricSMWPMDecoder._distance`: the step counts (`code.size = (R, C)`: `dim_y, dim_x = R, C` for rows) -/
def toricSteps (R C T : Int) (a b : Node) : Except DErr Steps :=
  if a.2 ≠ b.2 then .error .orthogonal
  else
    let ax := if a.2 then a.1.2.1 else a.1.2.2
    let ay := if a.2 then a.1.2.2 else a.1.2.1
    let bx := if a.2 then b.1.2.1 else b.1.2.2
    let by' := if a.2 then b.1.2.2 else b.1.2.1
    let dimy := if a.2 then R else C
    let dimx := if a.2 then C else R
    let pd := box (pdist dimx ax bx) (pdist dimy ay by')
    .ok ⟨pdist T a.1.1 b.1.1, pd.1, pd.2⟩

/-- the class of a probability argument: `None`, `0`, `1`, strictly between -/
inductive PC | none | zero | one | mid
  deriving DecidableEq, Repr

structure Ctx where
  etaNone : Bool
  p : PC
  q : PC
  /-- `error_probability == measurement_error_probability` -/
  pEqQ : Bool
  deriving DecidableEq, Repr

/-- the comparison is consistent with the classes -/
def Ctx.wf (c : Ctx) : Prop :=
  (c.pEqQ = true → c.p = c.q) ∧ (c.p = c.q → c.p ≠ .mid → c.pEqQ = true)

/-- the `Flags` of `_add_edge` determined by the same arguments -/
def Ctx.flags (c : Ctx) : Flags :=
  ⟨c.etaNone, decide (c.q = .zero ∨ c.q = .one), decide (c.p = .zero)⟩

/-- `_step_weight_time(q)` -/
def stepTime (c : Ctx) (wt : Rat) : Except DErr Rat :=
  match c.q with
  | .mid => .ok wt
  | _ => .error .timeW

/-- `_step_weight_parallel(eta, p)` -/
def stepPar (c : Ctx) (wp : Rat) : Except DErr Rat :=
  match c.p with
  | .none | .zero => .error .parW
  | .one => if c.etaNone then .error .zeroDiv else .ok wp
  | .mid => .ok wp

/-- `_step_weight_diagonal(eta, p)` -/
def stepDiag (c : Ctx) (wd : Rat) : Except DErr Rat :=
  match c.p with
  | .none | .zero => .error .diagW
  | _ => if c.etaNone then .error .diagW else .ok wd

/-- `if delta: distance += delta * step_weight(...)`: the step weight is requested only for a non-zero count -/
def addStep (acc : Except DErr Rat) (n : Int) (w : Except DErr Rat) : Except DErr Rat :=
  match acc with
  | .error e => .error e
  | .ok d =>
    if n ≠ 0 then
      match w with
      | .error e => .error e
      | .ok x => .ok (d + n * x)
    else .ok d

/-- the evaluation part of `_distance` (time, then parallel, then diagonal: the first undefined weight raises) -/
def distance (c : Ctx) (wt wp wd : Rat) (s : Steps) : Except DErr Rat :=
  if c.etaNone && c.pEqQ then
    if s.diag ≠ 0 then .error .diagInf else .ok ((s.par + s.time : Int) : Rat)
  else
    addStep (addStep (addStep (.ok 0) s.time (stepTime c wt)) s.par (stepPar c wp)) s.diag (stepDiag c wd)

def planarDistance (R C T : Int) (c : Ctx) (wt wp wd : Rat) (a b : Node) : Except DErr Rat :=
  (planarSteps R C T a b).bind (distance c wt wp wd)

def toricDistance (R C T : Int) (c : Ctx) (wt wp wd : Rat) (a b : Node) : Except DErr Rat :=
  (toricSteps R C T a b).bind (distance c wt wp wd)

/-! ## `_cluster_distance` -/

/-- minimum of a list of integers (`min(generator)`; empty → ValueError) -/
def minList : List Int → Except DErr Int
  | [] => .error .emptyMin
  | x :: xs => .ok (xs.foldl min x)

def manhattanT (T : Int) (a b : TIdx) : Int :=
  pdist T a.1 b.1 + iabs (a.2.1 - b.2.1) + iabs (a.2.2 - b.2.2)

def manhattanTorus (R C T : Int) (a b : TIdx) : Int :=
  pdist T a.1 b.1 + pdist C a.2.1 b.2.1 + pdist R a.2.2 b.2.2

/-- all pairs in the order of `itertools.product(a, b)` -/
def product {α β} (as : List α) (bs : List β) : List (α × β) := as.flatMap fun a => bs.map fun b => (a, b)

/-- the non-virtual part of the planar `_cluster_distance`: a node without a cluster raises -/
def clusterMin (T : Int) (ac bc : Option (List TIdx)) : Except DErr Int :=
  match ac, bc with
  | some ca, some cb => minList ((product ca cb).map fun p => manhattanT T p.1 p.2)
  | _, _ => .error .noCluster

/-- planar `_cluster_distance(time_steps, a_node, b_node)`: `virt` = `is_virtual`, cluster `none` = `None` -/
def planarClusterDistance (T : Int) (aVirt bVirt : Bool) (ac bc : Option (List TIdx)) : Except DErr Int :=
  if aVirt && bVirt then .ok 0 else clusterMin T ac bc

/-- toric `_cluster_distance(code, time_steps, a_node, b_node)` -/
def toricClusterDistance (R C T : Int) (ca cb : List TIdx) : Except DErr Int :=
  minList ((product ca cb).map fun p => manhattanTorus R C T p.1 p.2)

end Qec.Smwpm.Weight
