import QecVerif.Model.Wire
namespace Qec.Drv
open Qec Qec.Wire

/-- driver ops of property C10 (first protocol token `c10`) -/
def c10 : List String → Option String
  | _ => none

end Qec.Drv
