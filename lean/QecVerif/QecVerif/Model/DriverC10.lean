import QecVerif.Model.Wire
import QecVerif.Model.Coset
import QecVerif.Model.PlanarTn
import QecVerif.Model.DriverC11
namespace Qec.Drv
open Qec Qec.Wire Qec.Coset

private def showInts (l : List Int) : String := ",".intercalate (l.map toString)

private def dist4? (a b c d : String) : Option (Dist Int) := do
  pure ⟨← parseInt? a, ← parseInt? b, ← parseInt? c, ← parseInt? d⟩

private def sameLen (m : Nat) (rows : List BVec) : Bool := rows.all fun r => r.length == m

/-- arguments of the planar-network ops: `R C f aI aX aY aZ` with `R, C ≥ 2` (as `PlanarCode` demands) and `f` a bsf of
    the code's `2n` bits -/
private def tnArgs? (sR sC sf a b c d : String) : Option (Int × Int × BVec × Dist Int) := do
  let R ← parseNat? sR
  let C ← parseNat? sC
  let f ← parseBits? sf
  let dist ← dist4? a b c d
  if R < 2 || C < 2 || f.length != 2 * (Planar.nQubits R C).toNat then none else
  pure ((R : Int), (C : Int), f, dist)

/-- driver ops of property C10 (first protocol token `c10`).  The scalar type is `Int`: the harness sends the
    numerators of the four probabilities over a common denominator `D` and divides the replies by `D^n`.

    * `cosets S L f aI aX aY aZ`  (L = two rows X̄ / Z̄) → `n0,n1,n2,n3 cls other`: the four coset sums in the
      decoders' order I, X̄, Ȳ, Z̄, the arg-max index and the largest of the other three;
    * `ycosets S ly f aI aX aY aZ` → `n0,n1 cls ysize`: Y-only coset sums of `f` and `f ⊕ ly`, arg-max, and the
      number of Y-only elements of the stabilizer group;
    * `syndprob S s m aI aX aY aZ` → `n`: Σ over all errors of length m with syndrome s;
    * `success S m aI aX aY aZ T`  (T = rows `syndrome recovery` pairs flattened: syndrome/recovery/…)
      → `n`: success probability of the table decoder (recovery `zeros` for syndromes not in T);
    * `tn R C f aI aX aY aZ` → `ok (2R-1)x(2C-1) sites`: the planar MPS decoder's network `planarTn` (Model/PlanarTn.lean),
      every tensor as `n.e.s.w:entries` (numpy C order, integer numerators over `D`; deltas as they are), row-major,
      joined by `;` (the C11 wire format);
    * `tnvalue R C f aI aX aY aZ` → `ok s v`: the model of `mps2d.contract` (C11, exact) applied to that network;
    * `tnexact R C f aI aX aY aZ` → `ok v`: the literal sum over all bond-index assignments (`exactValue`; 2^bonds
      terms, refused above 16 bonds);
    * `tncoset R C f aI aX aY aZ` → `n`: `cosetProb` of `f` for the MODEL's `Planar.stabilizers R C` (the spec the
      theorem `planar_tn_value` talks about; the `cosets` op uses the real code's matrices instead);
    * `tnvalues R C mode f aI aX aY aZ` (mode c | r | a) → `ok trace v0,v1,v2,v3`: the PROCEDURE of
      `PlanarMPSDecoder._coset_probabilities` (`PlanarTn.cosetValuesC / R / A`: bras shared between pairs of cosets);
      `trace` = the calls in execution order (`t` = the four `mps2d.transpose`, `c<net>:start:stop:step` = a
      `mps2d.contract` on `tns[net]`, `i<net>` = an `inner_product` with the last column of `tns[net]`), the values are
      integers over `D^n` (modes c, r) or rationals `p/q` over `D^n` (mode a). -/
def c10 : List String → Option String
  | ["cosets", sS, sL, sf, a, b, c, d] => do
      let S ← parseMat? sS
      let L ← parseMat? sL
      let f ← parseBits? sf
      let dist ← dist4? a b c d
      match L with
      | [lx, lz] =>
          if !(sameLen f.length S && sameLen f.length L) || f.length % 2 != 0 then none else
          let ps := cosetProbs4 dist S lx lz f
          let cls := argMax ps
          pure s!"{showInts ps} {cls} {maxOther ps cls}"
      | _ => none
  | ["ycosets", sS, sly, sf, a, b, c, d] => do
      let S ← parseMat? sS
      let ly ← parseBits? sly
      let f ← parseBits? sf
      let dist ← dist4? a b c d
      if !(sameLen f.length S) || ly.length != f.length || f.length % 2 != 0 then none else
      let ps := [yCosetProb dist S f, yCosetProb dist S (xorV f ly)]
      pure s!"{showInts ps} {argMax ps} {yGroupSize f.length S}"
  | ["ycheck", sS, sly, sf, a, b, c, d] => do
      -- `1` iff the Y-only coset sums equal the full coset sums for f and f ⊕ ly (expected when pX = pZ = 0)
      let S ← parseMat? sS
      let ly ← parseBits? sly
      let f ← parseBits? sf
      let dist ← dist4? a b c d
      if !(sameLen f.length S) || ly.length != f.length || f.length % 2 != 0 then none else
      pure (showBool (yCosetProb dist S f == cosetProb dist S f
        && yCosetProb dist S (xorV f ly) == cosetProb dist S (xorV f ly)))
  | ["syndprob", sS, ss, sm, a, b, c, d] => do
      let S ← parseMat? sS
      let s ← parseBits? ss
      let m ← parseNat? sm
      let dist ← dist4? a b c d
      if !(sameLen m S) || s.length != S.length || m % 2 != 0 || m > 20 then none else
      pure (toString (syndProb dist S m s))
  | ["success", sS, sm, a, b, c, d, sT] => do
      let S ← parseMat? sS
      let m ← parseNat? sm
      let dist ← dist4? a b c d
      let T ← parseMat? sT
      if !(sameLen m S) || m % 2 != 0 || m > 14 || T.length % 2 != 0 then none else
      let rec pairs : List BVec → List (BVec × BVec)
        | s :: r :: t => (s, r) :: pairs t
        | _ => []
      let tbl := pairs T
      let dec : BVec → BVec := fun s => ((tbl.find? fun p => p.1 == s).map (·.2)).getD (zeros m)
      pure (toString (successProb dist S m dec))
  | ["tn", sR, sC, sf, a, b, c, d] => do
      let (R, C, f, dist) ← tnArgs? sR sC sf a b c d
      let tn := PlanarTn.planarTn R C dist f
      pure s!"ok {tn.nrows}x{tn.ncols} {C11.showMPS tn.a.toList}"
  | ["tnvalue", sR, sC, sf, a, b, c, d] => do
      let (R, C, f, dist) ← tnArgs? sR sC sf a b c d
      pure (C11.showRes C11.showResult (PlanarTn.tnValue R C dist f))
  | ["tnexact", sR, sC, sf, a, b, c, d] => do
      let (R, C, f, dist) ← tnArgs? sR sC sf a b c d
      let tn := PlanarTn.planarTn R C dist f
      if Tensor.nAssignments tn > 65536 then none else
      pure (match Tensor.exactValue tn with | some v => "ok " ++ toString v | none => "undefined")
  | ["tncoset", sR, sC, sf, a, b, c, d] => do
      let (R, C, f, dist) ← tnArgs? sR sC sf a b c d
      pure (toString (cosetProb dist (Planar.stabilizers R C) f))
  | ["tnvalues", sR, sC, mode, sf, a, b, c, d] => do
      let (R, C, f, dist) ← tnArgs? sR sC sf a b c d
      let showE {α : Type} (sh : α → String) (tr : String) (r : Except Tensor.Err (List α)) : String :=
        match r with
        | .ok vs => s!"ok {tr} " ++ ",".intercalate (vs.map sh)
        | .error e => C11.showErr e
      let showQ (q : Rat) : String := s!"{q.num}/{q.den}"
      let trC := PlanarTn.planTrace PlanarTn.planC
      let trR := "t," ++ PlanarTn.planTrace PlanarTn.planR
      match mode with
      | "c" => pure (showE (toString : Int → String) trC (PlanarTn.cosetValuesC R C dist f))
      | "r" => pure (showE (toString : Int → String) trR (PlanarTn.cosetValuesR R C dist f))
      | "a" => pure (showE showQ (trC ++ "," ++ trR) (PlanarTn.cosetValuesA R C dist f))
      | _ => none
  | _ => none

end Qec.Drv
