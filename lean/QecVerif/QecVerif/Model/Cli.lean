/-
  Model of the decision logic of the qecsim command line (src/qecsim/cli.py).

  What is modelled (mirrors the code as it is):
  * `splitSpec`  — `_ConstructorParamType.convert`'s regex
        (?P<name>[\w.]+)(?:\(\s*(?P<args>.*?),?\s*\))?        (re.fullmatch, re.VERBOSE, no DOTALL)
    as a scanner over ASCII characters.  `\w` = alphanumeric or '_', `\s` = the ten ASCII characters
    Python's `re` counts as whitespace (9..13, 28..32), `.` = anything but '\n'.
  * `convert`    — the callback: format check, registry lookup, `ast.literal_eval(args + ',')` only
    when the captured argument text is non-empty, star-call of the constructor.
  * `probOk`, `intMinOk` — the click validators: probabilities in [0,1] (callbacks of cli.py), and
    `click.IntRange(min=1)` (TIME_STEPS, -f, -r) / `click.IntRange(min=0)` (-s).
  * `process`    — click processes the parameters one after the other (in command-line order for the
    supplied ones) and stops at the first failure with a usage error (exit status 2).
  * `cmd`        — run / run-ftp: after all parameters are accepted, one `app.run` / `app.run_ftp` call per
    probability, in order, with the very options given; then `_write_data`.
  * `writeData`  — the output protocol.
  * `mergeCmd`   — merge: `click.Path(exists=True, dir_okay=False)` arguments, `json.load`, `app.merge`,
    `_write_data`.

  External things are parameters supplied by the harness as tokens:
  * `ArgTok`   — what `ast.literal_eval(args + ',')` did with the captured text (stdlib);
  * `CtorTok`  — whether the registered constructor raised on the evaluated arguments (other properties);
  * `FloatTok` / `IntTok` — what Python's `float(text)` / `int(text)` made of an argument (click's FLOAT / INT);
  * `Fs`       — the state of the output path as `open(path, 'x')` sees it (OS);
  * `ser`      — whether `json.dumps` accepts the aggregate (json);
  * the simulation itself (`sim : SimCall → ρ`) and `app.merge`.
-/
namespace Qec.Cli

/-! ### 1. the `name(args)` scanner -/

/-- `\w` restricted to ASCII -/
def isWordChar (c : Char) : Bool := c.isAlphanum || c == '_'
/-- `[\w.]` -/
def isNameChar (c : Char) : Bool := isWordChar c || c == '.'
/-- `\s` restricted to ASCII (Python: 9..13, 28..32) -/
def isSpace (c : Char) : Bool :=
  c == ' ' || (9 ≤ c.toNat && c.toNat ≤ 13) || (28 ≤ c.toNat && c.toNat ≤ 31)

/-- drop one leading comma (used on the reversed text: one trailing comma) -/
def dropComma : List Char → List Char
  | ',' :: t => t
  | l => l

/-- text between the parentheses ↦ captured `constructor_args`:
    leading whitespace skipped greedily, then the shortest text such that the remainder is `,?\s*` -/
def stripArgs (body : List Char) : List Char :=
  (dropComma ((body.dropWhile isSpace).reverse.dropWhile isSpace)).reverse

/-- the regex: `none` = no match; `some (name, none)` = bare name; `some (name, some args)` -/
def splitSpec (s : List Char) : Option (List Char × Option (List Char)) :=
  let name := s.takeWhile isNameChar
  if name.isEmpty then none else
  match s.dropWhile isNameChar with
  | [] => some (name, none)
  | '(' :: r =>
    match r.reverse with
    | ')' :: bodyRev =>
      let args := stripArgs bodyRev.reverse
      if args.contains '\n' then none else some (name, some args)
    | _ => none
  | _ => none

/-! ### 2. the convert callback -/

/-- outcome of `ast.literal_eval(args + ',')` (classified by the harness) -/
inductive ArgTok
  | tuple       -- a literal tuple (the normal case)
  | iter        -- a literal that is not a tuple but can be star-unpacked (list, str, bytes, set, dict): `f([3,5]#)`
  | scalar      -- a literal that cannot be star-unpacked (int, float, None, …): `f(3#)`
  | notLiteral  -- ValueError: malformed node or string (names, calls, operators, …)
  | syntaxErr   -- SyntaxError (or any other exception of the parser)
  deriving DecidableEq, Repr

/-- does the constructor accept the evaluated arguments -/
inductive CtorTok | ok | raises
  deriving DecidableEq, Repr

/-- the four `self.fail` sites of `convert` -/
inductive ConvErr | format | unknownName | parseArgs | construct
  deriving DecidableEq, Repr

structure ConvRes where
  err : Option ConvErr      -- `none` = a model instance is returned
  evalCalled : Bool         -- `ast.literal_eval` was called
  ctorCalled : Bool         -- the registered constructor was invoked
  deriving DecidableEq, Repr

def ctorStep (evalCalled : Bool) : CtorTok → ConvRes
  | .ok => ⟨none, evalCalled, true⟩
  | .raises => ⟨some .construct, evalCalled, true⟩

def convert (reg : List (List Char)) (text : List Char) (a : ArgTok) (c : CtorTok) : ConvRes :=
  match splitSpec text with
  | none => ⟨some .format, false, false⟩
  | some (name, args) =>
    if reg.contains name then
      match args with
      | none => ctorStep false c
      | some [] => ctorStep false c              -- `if constructor_args:` is false for ''
      | some (_ :: _) =>
        match a with
        | .notLiteral => ⟨some .parseArgs, true, false⟩
        | .syntaxErr => ⟨some .parseArgs, true, false⟩
        | .scalar => ⟨some .construct, true, false⟩   -- `constructor(*3)` raises before the call
        | .tuple => ctorStep true c
        | .iter => ctorStep true c
    else ⟨some .unknownName, false, false⟩

/-! ### 3. validators -/

/-- Python `float(text)` -/
inductive FloatTok
  | bad | nan | posInf | negInf
  | fin (q : Rat)
  deriving DecidableEq, Repr

/-- Python `int(text)` -/
inductive IntTok
  | bad
  | val (n : Int)
  deriving DecidableEq, Repr

/-- `_validate_error_probability`: `0 <= value <= 1` (false for nan) -/
def probOk : FloatTok → Option Rat
  | .fin q => if 0 ≤ q ∧ q ≤ 1 then some q else none
  | _ => none

/-- `click.IntRange(min=m)` -/
def intMinOk (m : Int) : IntTok → Option Int
  | .val n => if m ≤ n then some n else none
  | .bad => none

/-- an option that may be absent -/
def optOk {α β} (f : α → Option β) : Option α → Option (Option β)
  | none => some none
  | some a => (f a).map some

/-! ### 4. parameter processing -/

inductive Role | code | timeSteps | errorModel | decoder | probs | maxFailures | maxRuns | measProb | output | seed
  deriving DecidableEq, Repr

structure SpecIn where
  reg : List (List Char)
  text : List Char
  arg : ArgTok
  ctor : CtorTok
  deriving Repr

inductive Target | stdout | path
  deriving DecidableEq, Repr

structure CmdIn where
  ftp : Bool
  code : SpecIn
  em : SpecIn
  dec : SpecIn
  timeSteps : Option IntTok      -- run-ftp only; `none` = argument missing
  probs : List FloatTok          -- nargs=-1, required
  maxFailures : Option IntTok
  maxRuns : Option IntTok
  seed : Option IntTok
  measProb : Option FloatTok     -- run-ftp only
  target : Target
  deriving Repr

/-- the events the property cares about, in the order they happen -/
inductive Ev
  | eval (r : Role)     -- literal_eval called on the argument text of parameter `r`
  | ctor (r : Role)     -- registered constructor invoked for parameter `r`
  deriving DecidableEq, Repr

def convEvents (r : Role) (c : ConvRes) : List Ev :=
  (if c.evalCalled then [Ev.eval r] else []) ++ (if c.ctorCalled then [Ev.ctor r] else [])

def specOf (i : CmdIn) : Role → Option SpecIn
  | .code => some i.code
  | .errorModel => some i.em
  | .decoder => some i.dec
  | _ => none

def convOf (s : SpecIn) : ConvRes := convert s.reg s.text s.arg s.ctor

/-- is parameter `r` accepted -/
def roleOk (i : CmdIn) : Role → Bool
  | .code => (convOf i.code).err.isNone
  | .errorModel => (convOf i.em).err.isNone
  | .decoder => (convOf i.dec).err.isNone
  | .timeSteps => if i.ftp then (match i.timeSteps with | some t => (intMinOk 1 t).isSome | none => false) else true
  | .probs => !i.probs.isEmpty && i.probs.all fun p => (probOk p).isSome
  | .maxFailures => (optOk (intMinOk 1) i.maxFailures).isSome
  | .maxRuns => (optOk (intMinOk 1) i.maxRuns).isSome
  | .seed => (optOk (intMinOk 0) i.seed).isSome
  | .measProb => if i.ftp then (optOk probOk i.measProb).isSome else true
  | .output => true

def roleEvents (i : CmdIn) (r : Role) : List Ev :=
  match specOf i r with
  | some s => convEvents r (convOf s)
  | none => []

/-- process the parameters in the given order; stop at the first rejected one -/
def process (i : CmdIn) : List Role → Bool × List Ev
  | [] => (true, [])
  | r :: rs =>
    if roleOk i r then
      let rest := process i rs
      (rest.1, roleEvents i r ++ rest.2)
    else (false, roleEvents i r)

/-! ### 5. output protocol -/

/-- the output path as `open(path, 'x')` sees it -/
inductive Fs | exists | creatable | notCreatable
  deriving DecidableEq, Repr

inductive FileEffect (α : Type) where
  | untouched                -- nothing created, nothing modified
  | created (content : α)    -- new file holding exactly the payload
  | createdPartial           -- new file left behind without the payload (json.dump raised)
  deriving DecidableEq, Repr

structure WriteOut (α : Type) where
  stdout : Option α
  file : FileEffect α
  logged : Option α          -- `logger.error('recovered data: …')`
  exit : Nat
  traceback : Bool
  deriving DecidableEq, Repr

/-- `_write_data(output, data)`; `ser` = `json.dumps(data)` succeeds -/
def writeData {α} (t : Target) (fs : Fs) (ser : Bool) (payload : α) : WriteOut α :=
  match t with
  | .stdout =>
    if ser then ⟨some payload, .untouched, none, 0, false⟩ else ⟨none, .untouched, none, 1, true⟩
  | .path =>
    match fs with
    | .creatable =>
      if ser then ⟨none, .created payload, none, 0, false⟩ else ⟨none, .createdPartial, none, 1, true⟩
    | _ =>
      if ser then ⟨none, .untouched, some payload, 1, false⟩ else ⟨none, .untouched, none, 1, true⟩

/-! ### 6. the run / run-ftp commands -/

/-- one call of `app.run` / `app.run_ftp` -/
structure SimCall where
  p : Rat
  timeSteps : Option Int       -- `none` for `run`
  measProb : Option Rat
  maxRuns : Option Int
  maxFailures : Option Int
  seed : Option Int
  deriving DecidableEq, Repr

def optVal {α β} (f : α → Option β) (o : Option α) : Option β := o.bind f

/-- the calls made once every parameter is accepted: one per probability, in order -/
def simCalls (i : CmdIn) : List SimCall :=
  i.probs.filterMap fun pt => (probOk pt).map fun p =>
    { p := p
      timeSteps := if i.ftp then optVal (intMinOk 1) i.timeSteps else none
      measProb := if i.ftp then optVal probOk i.measProb else none
      maxRuns := optVal (intMinOk 1) i.maxRuns
      maxFailures := optVal (intMinOk 1) i.maxFailures
      seed := optVal (intMinOk 0) i.seed }

inductive CmdOut (ρ : Type) where
  | usage (events : List Ev)                                        -- exit status 2, nothing simulated
  | ran (events : List Ev) (calls : List SimCall) (w : WriteOut (List ρ))
  deriving Repr

def CmdOut.calls {ρ} : CmdOut ρ → List SimCall
  | .usage _ => []
  | .ran _ c _ => c

def CmdOut.events {ρ} : CmdOut ρ → List Ev
  | .usage e => e
  | .ran e _ _ => e

def CmdOut.exit {ρ} : CmdOut ρ → Nat
  | .usage _ => 2
  | .ran _ _ w => w.exit

def cmd {ρ} (sim : SimCall → ρ) (i : CmdIn) (order : List Role) (fs : Fs) (ser : Bool) : CmdOut ρ :=
  let pr := process i order
  if pr.1 then
    let calls := simCalls i
    .ran pr.2 calls (writeData i.target fs ser (calls.map sim))
  else .usage pr.2

/-! ### 7. merge -/

/-- an input file of `merge` -/
inductive FileTok | missing | isDir | badJson | ok
  deriving DecidableEq, Repr

inductive MergeOut (α : Type) where
  | usage                       -- exit 2 (click.Path(exists=True, dir_okay=False))
  | badJson                     -- ClickException, exit 1, nothing merged, nothing written
  | ran (w : WriteOut α)
  deriving DecidableEq, Repr

def mergeCmd {α} (files : List FileTok) (t : Target) (fs : Fs) (ser : Bool) (merged : α) : MergeOut α :=
  if files.isEmpty || files.any (fun f => f == .missing || f == .isDir) then .usage
  else if files.any (· == .badJson) then .badJson
  else .ran (writeData t fs ser merged)

end Qec.Cli
