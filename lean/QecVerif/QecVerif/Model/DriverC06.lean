import QecVerif.Model.Wire
namespace Qec.Drv
open Qec Qec.Wire

/-- driver ops of property C06 (first protocol token `c06`) -/
def c06 : List String → Option String
  | _ => none

end Qec.Drv
