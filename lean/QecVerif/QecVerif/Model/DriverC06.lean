import QecVerif.Model.Wire
import QecVerif.Model.DriverApp
import QecVerif.Model.SeededRun
import QecVerif.Model.Memo
namespace Qec.Drv
open Qec Qec.Wire

/-! ### seeded run.
  A raw uniform arrives already classified by the harness: symbol `2*pauli + flip`
  (`pauli ∈ 0..3` = index of I,X,Y,Z under the error model's distribution, `flip ∈ 0..1` = its
  class under `(1-q, q)`), so the stream is independent of which call consumes which position. -/

def c06Gen (w : List Nat) : BVec :=
  (w.map fun u => let c := u / 2; c == 1 || c == 2) ++ (w.map fun u => let c := u / 2; c == 2 || c == 3)

def c06Flip (w : List Nat) : BVec := w.map fun u => u % 2 == 1

def parseStream? (s : String) : Option (Array Nat) :=
  if s == "_" then some #[] else
  (s.toList.mapM fun c => if '0' ≤ c ∧ c ≤ '7' then some (c.toNat - '0'.toNat) else none).map List.toArray

def parseTable? (s : String) : Option (List (String × Answer)) :=
  if s == "." then some [] else
  (s.splitOn "|").mapM fun e =>
    match e.splitOn "=" with
    | [k, a] => (parseAnswer? a).map fun a => (k, a)
    | _ => none

def tableDecode (tbl : List (String × Answer)) (di : DecoderInput) : Answer :=
  match tbl.find? (fun e => e.1 == showMat di.syndrome) with
  | some e => e.2
  | none => .bareNone

def showSeededErr : Seeded.Err → String
  | .run k e => s!"{showRunErr e}:run:{k}"
  | .loop e => showLoopErr e
  | .fuel => "fuel"

def showRecOut (r : Seeded.RunRecord) : String :=
  match r.out with | .ok o => showRunOut o | .error e => showRunErr e

/-! ### memo table -/
def parsePair? (s : String) : Option (Nat × Nat) :=
  match s.splitOn "." with
  | [a, b] => do let a ← a.toNat?; let b ← b.toNat?; pure (a, b)
  | _ => none

def memoF (a : Nat × Nat) : Nat := 1000 * a.1 + a.2

def parseMemoOp? (full : Bool) (s : String) : Option (Memo.Op (Nat × Nat) (Nat × Nat) Nat) :=
  match s.splitOn "." with
  | ["c", a, b] => do let a ← a.toNat?; let b ← b.toNat?; pure (.call (a, b))
  | ["m", a, b] => do
      let a ← a.toNat?; let b ← b.toNat?
      pure (.mutate (if full then (a, b) else (a, 0)) (fun v => v ^^^ 1))
  | _ => none

def showAnswers (l : List (Nat × Bool)) : String :=
  if l.isEmpty then "_" else ",".intercalate (l.map fun (v, h) => s!"{v}:{showBool h}")

def c06 : List String → Option String
  | ["run", n, t, q, mr, mf, fuel, s, l, stream, table] => do
      let n ← parseNat? n; let t ← parseNat? t; let q ← parseBool? q
      let mr ← parseOptNat? mr; let mf ← parseOptNat? mf; let fuel ← parseNat? fuel
      let s ← parseMat? s; let l ← parseMat? l
      let stream ← parseStream? stream; let tbl ← parseTable? table
      let P : Seeded.Params Nat :=
        { n := n, T := t, qTruthy := q, S := s, L := l, gen := c06Gen, flip := c06Flip, decode := tableDecode tbl }
      let σ : Nat → Nat := fun i => stream.getD i 0
      match Seeded.run P σ mr mf fuel with
      | .error e => pure (showSeededErr e)
      | .ok (a, F) =>
          let errs := showMat (F.records.flatMap (·.stepErrors))
          let meas := showMat (F.records.flatMap (·.stepMeas))
          let outs := if F.records.isEmpty then "." else "|".intercalate (F.records.map showRecOut)
          pure s!"{showAgg a} pos={F.pos} errs={errs} meas={meas} outs={outs}"
  | ["memo", cap, mode, args] => do
      let cap ← parseOptNat? cap
      let args ← if args == "_" then some [] else (args.splitOn ",").mapM parsePair?
      if mode == "full" then
        let r := Memo.runHistory (Key := Nat × Nat) id memoF cap [] args
        pure s!"{showAnswers r.1} size={r.2.length}"
      else if mode == "fst" then
        let r := Memo.runHistory (Key := Nat) Prod.fst memoF cap [] args
        pure s!"{showAnswers r.1} size={r.2.length}"
      else none
  | ["memoops", cap, ops] => do
      let cap ← parseOptNat? cap
      let ops ← if ops == "_" then some [] else (ops.splitOn ",").mapM (parseMemoOp? true)
      let r := Memo.runOps (Key := Nat × Nat) id memoF cap [] ops
      pure s!"{showNatList r.1} size={r.2.length}"
  | _ => none

end Qec.Drv
