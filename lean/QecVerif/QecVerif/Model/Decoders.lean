/-
  C02 — the decoders whose recovery is a composition of lattice paths, with the MATCHING AS A PARAMETER.

  What is a parameter (oracle input supplied by the harness, never computed here):
  * `mates` — whatever `qecsim.graphtools.mwpm(graph)` returned (networkx `max_weight_matching` in this
    environment; Blossom V when its C library is present).  The model only needs it to be a perfect
    matching of the modelled graph (`isPerfectMatchingOfGraph`) — exactly C13's statement.
  * which coset the tensor-network stage of an MPS decoder picks (`timesLogical` is applied to an arbitrary
    sub-list of the logicals).

  Python sets/frozensets are modelled as lists in plaquette-index order; every use is order-independent
  (XOR of paths; the harness canonicalises graphs by sorting).

  `vpT`, `colorRunSites` totalise `virtual_plaquette_index` (IndexError only for a non-plaquette index): the
  defects fed to them come from `plaquetteIndices`, which contains plaquette indices only, so the fall-back
  branch is dead code in the model exactly as the `raise` is in qecsim.
-/
import QecVerif.Model.Lattice.Planar
import QecVerif.Model.Lattice.Toric
import QecVerif.Model.Lattice.RotatedPlanar
import QecVerif.Model.Lattice.Color666
namespace Qec.Dec
open Qec

abbrev Idx2 := Int × Int

/-! ### the verified monitor -/

/-- the recovery reproduces the syndrome: `bsp(recovery, stabilizers.T) == syndrome` -/
def recoveryOk (S : List BVec) (s r : BVec) : Bool := synd S r == s

/-- … and is a binary operator of the right length (2n) -/
def recoveryOkN (n : Nat) (S : List BVec) (s r : BVec) : Bool := r.length == 2 * n && recoveryOk S s r

/-! ### generic matching vocabulary -/

/-- `itertools.combinations(l, 2)` -/
def pairsOf {α} : List α → List (α × α)
  | [] => []
  | x :: xs => xs.map (fun y => (x, y)) ++ pairsOf xs

/-- a Python `set(...)` built from a list: first occurrences dropped, last kept (order irrelevant) -/
def dedup {α} [DecidableEq α] : List α → List α
  | [] => []
  | x :: xs => if x ∈ dedup xs then dedup xs else x :: dedup xs

/-- all endpoints of a list of pairs -/
def ends {α} (m : List (α × α)) : List α := m.flatMap fun p => [p.1, p.2]

def isEdge {α} [DecidableEq α] (edges : List (α × α)) (a b : α) : Bool :=
  edges.contains (a, b) || edges.contains (b, a)

/-- `m` is a perfect matching of the graph `(nodes, edges)`: every pair is an edge (in either orientation),
    every node is an endpoint of exactly one pair, and nothing else is an endpoint -/
def isPerfectMatchingOfGraph {α} [DecidableEq α] (nodes : List α) (edges : List (α × α)) (m : List (α × α)) : Bool :=
  m.all (fun p => isEdge edges p.1 p.2) &&
  nodes.all (fun v => (ends m).count v == 1) &&
  (ends m).all (fun v => nodes.contains v)

/-! ### planar MWPM (`_planarmwpmdecoder.py`) -/

/-- `primal_extra_vindex = (-9, -10)`, `dual_extra_vindex = (-10, -9)` -/
def extraV (primal : Bool) : Idx2 := if primal then (-9, -10) else (-10, -9)

/-- `[i for i in syndrome_indices if code.is_primal(i)]` (resp. `is_dual`) -/
def planarDefects (R C : Int) (s : BVec) (primal : Bool) : List Idx2 :=
  (Planar.syndromeToPlaquettes R C s).filter fun i => Planar.isPrimal i.1 i.2 == primal

/-- `code.virtual_plaquette_index(index)` for a plaquette index -/
def vpT (R C : Int) (d : Idx2) : Idx2 :=
  match Planar.virtualPlaquette R C d.1 d.2 with
  | .ok v => v
  | .error _ => d

/-- `self.distance(code, a, b)` for same-type plaquette indices -/
def distT (R C : Int) (a b : Idx2) : Nat :=
  match Planar.distance R C a b with
  | .ok d => d
  | .error _ => 0

/-- the set `vindices` after the odd-total rule: nearest virtual plaquettes of the defects (as a set) plus the
    extra well-off-boundary node iff `(len(indices) + len(vindices)) % 2` -/
def planarVNodes (R C : Int) (primal : Bool) (ds : List Idx2) : List Idx2 :=
  let vs := dedup (ds.map (vpT R C))
  if (ds.length + vs.length) % 2 = 1 then vs ++ [extraV primal] else vs

/-- node set of the graph handed to `gt.mwpm` (= the nodes occurring in its edges) -/
def planarNodes (R C : Int) (primal : Bool) (ds : List Idx2) : List Idx2 := ds ++ planarVNodes R C primal ds

/-- edges of that graph: defect–own virtual, all defect pairs, all virtual pairs -/
def planarEdges (R C : Int) (primal : Bool) (ds : List Idx2) : List (Idx2 × Idx2) :=
  ds.map (fun d => (d, vpT R C d)) ++ pairsOf ds ++ pairsOf (planarVNodes R C primal ds)

/-- the same with the weights the code attaches (distance; 0 between virtual nodes) -/
def planarWeightedEdges (R C : Int) (primal : Bool) (ds : List Idx2) : List (Idx2 × Idx2 × Nat) :=
  ds.map (fun d => (d, vpT R C d, distT R C d (vpT R C d))) ++
  (pairsOf ds).map (fun p => (p.1, p.2, distT R C p.1 p.2)) ++
  (pairsOf (planarVNodes R C primal ds)).map (fun p => (p.1, p.2, 0))

/-- recovery: `recovery_pauli.path(a, b)` for every mate of the primal graph, then of the dual graph -/
def planarMwpmRecovery (R C : Int) (matesP matesD : List (Idx2 × Idx2)) : Except IdxErr BVec :=
  Planar.applyMates R C (matesP ++ matesD)

/-! ### planar CMWPM (`_planarcmwpmdecoder.py`): identity-hashed `_Node` objects -/

/-- a graph node of `StepGrid.mwpm`: `(false, d)` is the `_Node` of the defect `d`; `(true, d)` is the private
    `_Node` holding the virtual plaquette of the defect `d` (several of them may carry the same index) -/
abbrev CNode := Bool × Idx2

def cnodeIndex (R C : Int) (x : CNode) : Idx2 := if x.1 then vpT R C x.2 else x.2

def cmwpmNodes (ds : List Idx2) : List CNode := ds.map (fun d => (false, d)) ++ ds.map (fun d => (true, d))

/-- `chain(combinations(nodes, 2), combinations(vnodes, 2), zip(nodes, vnodes))` -/
def cmwpmEdges (ds : List Idx2) : List (CNode × CNode) :=
  pairsOf (ds.map fun d => ((false, d) : CNode)) ++ pairsOf (ds.map fun d => ((true, d) : CNode)) ++
  ds.map fun d => ((false, d), (true, d))

/-- Python tuple order on `(r, c)` -/
def lexLe (a b : Idx2) : Bool := decide (a.1 < b.1) || (a.1 == b.1 && decide (a.2 ≤ b.2))
/-- `tuple(sorted((a, b)))` -/
def sortPair (p : Idx2 × Idx2) : Idx2 × Idx2 := if lexLe p.1 p.2 then p else (p.2, p.1)

/-- `frozenset(tuple(sorted((a.index, b.index))) for a, b in mates if in_bounds(a.index) or in_bounds(b.index))` -/
def cmwpmMatches (R C : Int) (mates : List (CNode × CNode)) : List (Idx2 × Idx2) :=
  dedup (((mates.map fun p => (cnodeIndex R C p.1, cnodeIndex R C p.2)).filter fun p =>
    Planar.inBounds R C p.1.1 p.1.2 || Planar.inBounds R C p.2.1 p.2.2).map sortPair)

/-- `_recovery_pauli(code, primal_matches, dual_matches)` for the matchings of the LAST iteration
    (`max_iterations ≥ 1`) -/
def planarCmwpmRecovery (R C : Int) (matesP matesD : List (CNode × CNode)) : Except IdxErr BVec :=
  Planar.applyMates R C (cmwpmMatches R C matesP ++ cmwpmMatches R C matesD)

/-- `max_iterations = 0` (the documented null decoder): both match sets stay `frozenset()` -/
def planarCmwpmNull (R C : Int) : Except IdxErr BVec := Planar.applyMates R C []

/-! ### toric MWPM (`_toricmwpmdecoder.py`) -/

/-- `[(la, r, c) for la, r, c in plaquette_indices if la == lattice]` -/
def toricDefects (R C : Int) (s : BVec) (l : Int) : List Toric.Idx :=
  (Toric.syndromeToPlaquettes R C s).filter fun i => i.1 == l

/-- the graph has an edge for every pair of defects of the lattice — so a lone defect is not even a node -/
def toricNodes (ds : List Toric.Idx) : List Toric.Idx := if ds.length < 2 then [] else ds
def toricEdges (ds : List Toric.Idx) : List (Toric.Idx × Toric.Idx) := pairsOf ds

def toricWeightedEdges (R C : Int) (ds : List Toric.Idx) : List (Toric.Idx × Toric.Idx × Nat) :=
  (pairsOf ds).map fun p => (p.1, p.2, match Toric.distance R C p.1 p.2 with | .ok d => d | .error _ => 0)

def toricMwpmRecovery (R C : Int) (mates0 mates1 : List (Toric.Idx × Toric.Idx)) : Except IdxErr BVec :=
  Toric.applyMates R C (mates0 ++ mates1)

/-! ### `sample_recovery` of the tensor-network decoders -/

/-- planar MPS / RMPS / Y: `path(index, virtual_plaquette_index(index))` for every defect -/
def planarSamplePairs (R C : Int) (s : BVec) : List (Idx2 × Idx2) :=
  (Planar.syndromeToPlaquettes R C s).map fun d => (d, vpT R C d)
def planarSampleRecovery (R C : Int) (s : BVec) : Except IdxErr BVec :=
  Planar.applyMates R C (planarSamplePairs R C s)

/-- rotated planar MPS / RMPS: from a Z-plaquette `(x, y)` X on the sites `(0..x, max(0, y))` (run to the left
    boundary), from an X-plaquette Z on the sites `(max(0, x), 0..y)` (run to the bottom boundary) -/
def rpRun (p : Idx2) : P1 × List Idx2 :=
  if RotatedPlanar.isZPlaquette p.1 p.2 then
    (P1.X, (List.range (p.1 + 1).toNat).map fun (i : Nat) => ((i : Int), max 0 p.2))
  else
    (P1.Z, (List.range (p.2 + 1).toNat).map fun (j : Nat) => (max 0 p.1, (j : Int)))

/-- the run operator of one defect applied to `v` -/
def rpRunApply (R C : Int) (v : BVec) (p : Idx2) : BVec := RotatedPlanar.sites R C (rpRun p).1 v (rpRun p).2

def rotatedPlanarSampleRecovery (R C : Int) (s : BVec) : BVec :=
  (RotatedPlanar.syndromeToPlaquettes R C s).foldl (rpRunApply R C) (RotatedPlanar.identity R C)

/-- `range(a, b + step, step)` for `step = sign(b - a) ≠ 0`: from `a` to `b` inclusive -/
def incl (a b : Int) : List Int :=
  if a ≤ b then (List.range (b - a + 1).toNat).map fun (i : Nat) => a + (i : Int)
  else (List.range (a - b + 1).toNat).map fun (i : Nat) => a - (i : Int)

/-- colour 6.6.6 MPS: the sites visited from plaquette `(r1, c1)` to its virtual plaquette `(r2, c2)` inclusive:
    along the row when `c2 ≠ c1`, along the column when `r2 ≠ r1`; only site indices are acted on -/
def colorRunSites (L : Int) (p : Idx2) : List Idx2 :=
  match Color666.virtualPlaquette L p.1 p.2 with
  | .error _ => []
  | .ok v =>
    let h := if v.2 = p.2 then [] else ((incl p.2 v.2).map fun cc => (p.1, cc)).filter fun q => Color666.isSite q.1 q.2
    let w := if v.1 = p.1 then [] else ((incl p.1 v.1).map fun rr => (rr, p.2)).filter fun q => Color666.isSite q.1 q.2
    h ++ w

def colorRunApply (L : Int) (op : P1) (v : BVec) (p : Idx2) : BVec := Color666.sites L op v (colorRunSites L p)

/-- `zip(code.syndrome_to_plaquette_indices(syndrome), ('Z', 'X'))`: Z-runs for the X-stabilizer defects, then
    X-runs for the Z-stabilizer defects -/
def color666SampleRecovery (L : Int) (s : BVec) : BVec :=
  let d := Color666.syndromeToPlaquettes L s
  d.2.foldl (colorRunApply L P1.X) (d.1.foldl (colorRunApply L P1.Z) (Color666.identity L))

/-- the answer of an MPS decoder: the sample times the logicals of the chosen coset -/
def timesLogical (r : BVec) (ls : List BVec) : BVec := ls.foldl xorV r

/-- which of the four cosets `sample`, `·X̄`, `·X̄Z̄`, `·Z̄` a recovery is literally equal to -/
def cosetOf (sample lx lz r : BVec) : Option P1 :=
  if r == sample then some P1.I
  else if r == xorV sample lx then some P1.X
  else if r == xorV (xorV sample lx) lz then some P1.Y
  else if r == xorV sample lz then some P1.Z
  else none

/-! ### naive decoder (`_naivedecoder.py`) -/

/-- `for error in pt.ibsf(n): if array_equal(bsp(error, S.T), syndrome): return error` — `none` = falls off the
    loop and returns `None` -/
def naiveDecode (n : Nat) (S : List BVec) (s : BVec) : Option BVec :=
  (ibsf n 0 n).bind fun l => l.find? fun e => synd S e == s

/-- the decoder on a list of syndromes of one code: the candidate stream `pt.ibsf(n)` is the same for every call, so
    it is built once (`naive_all_eq`: literally `ss.map (naiveDecode n S)`) — makes the exhaustive comparison over all
    2^(n-k) syndromes of a code affordable -/
def naiveDecodeAll (n : Nat) (S : List BVec) (ss : List BVec) : List (Option BVec) :=
  let c := ibsf n 0 n
  ss.map fun s => c.bind fun l => l.find? fun e => synd S e == s

inductive NaiveOut
  | valueError
  | pyNone
  | recovery (r : BVec)
  deriving DecidableEq, Repr

/-- with the `max_qubits` guard: `if self._max_qubits and n_qubits > self._max_qubits: raise ValueError`
    (`none`/`0` are falsy) -/
def naiveDecodeFull (maxQubits : Option Nat) (n : Nat) (S : List BVec) (s : BVec) : NaiveOut :=
  match maxQubits with
  | some m => if m ≠ 0 ∧ n > m then .valueError else (match naiveDecode n S s with | some r => .recovery r | none => .pyNone)
  | none => match naiveDecode n S s with | some r => .recovery r | none => .pyNone

/-- `naiveDecodeFull` on a list of syndromes (guard evaluated once, candidate stream built once) -/
def naiveDecodeFullAll (maxQubits : Option Nat) (n : Nat) (S : List BVec) (ss : List BVec) : List NaiveOut :=
  let blocked : Bool := match maxQubits with | some m => decide (m ≠ 0 ∧ n > m) | none => false
  if blocked then ss.map fun _ => .valueError
  else (naiveDecodeAll n S ss).map fun o => match o with | some r => .recovery r | none => .pyNone

end Qec.Dec
