import QecVerif.Model.Wire
namespace Qec.Drv
open Qec Qec.Wire

/-- driver ops of property C08 (first protocol token `c08`) -/
def c08 : List String → Option String
  | _ => none

end Qec.Drv
