import QecVerif.Model.Wire
import QecVerif.Model.Distance
import QecVerif.Model.Basic
import QecVerif.Model.Lattice.Planar
import QecVerif.Model.Lattice.RotatedPlanar
import QecVerif.Model.Lattice.Toric
import QecVerif.Model.Lattice.RotatedToric
import QecVerif.Model.Lattice.Color666
namespace Qec.Drv
open Qec Qec.Wire Qec.Distance

/-- the `d` component of the model's `n_k_d` -/
def c08ModelD : List String → Option String
  | ["planar", r, c] => do let r ← parseInt? r; let c ← parseInt? c; pure (toString (Planar.nkd r c).2.2)
  | ["rotatedplanar", r, c] => do let r ← parseInt? r; let c ← parseInt? c; pure (toString (RotatedPlanar.nkd r c).2.2)
  | ["toric", r, c] => do let r ← parseInt? r; let c ← parseInt? c; pure (toString (Toric.nkd r c).2.2)
  | ["rotatedtoric", r, c] => do let r ← parseInt? r; let c ← parseInt? c; pure (toString (RotatedToric.nkd r c).2.2)
  | ["color666", l] => do let l ← parseInt? l; pure (toString (Color666.nkd l).2.2)
  | ["five"] => pure (showOpt toString Basic.fiveQubit.d)
  | ["steane"] => pure (showOpt toString Basic.steane.d)
  | _ => none

def showOptBits : Option BVec → String
  | none => "none" | some e => "some " ++ showBits e

/-- driver ops of property C08 (first protocol token `c08`).  Matrices are the REAL `code.stabilizers`,
    `code.logicals` as bit strings.
    * `d <family> <size…>`            → the model's advertised distance
    * `css <n> <S> <L>`               → 1 iff every row has length 2n and is X-type or Z-type
    * `innorm <S> <L>`                → 1 iff every row of L commutes with every row of S
    * `search <n> <S> <L> <d>`        → `none` | `some <e>`  (verified CSS-split search, weight < d)
    * `searchany <n> <S> <L> <d>`     → same over all Paulis of weight < d
    * `dist <n> <S> <L> <m>`          → least weight ≤ m of an X-only/Z-only logical, `N` if none
    * `distany <n> <S> <L> <m>`       → same over all Paulis
    * `cert <S> <L> <e>`              → `<isLogicalCert> <wt e>` -/
def c08 : List String → Option String
  | "d" :: rest => c08ModelD rest
  | ["css", n, s, l] => do
      let n ← parseNat? n; let s ← parseMat? s; let l ← parseMat? l
      pure (showBool (isCSS n s && isCSS n l))
  | ["innorm", s, l] => do
      let s ← parseMat? s; let l ← parseMat? l
      pure (showBool (inNormaliser s l))
  | ["search", n, s, l, d] => do
      let n ← parseNat? n; let s ← parseMat? s; let l ← parseMat? l; let d ← parseNat? d
      pure (showOptBits (lightLogical? n s l d))
  | ["searchany", n, s, l, d] => do
      let n ← parseNat? n; let s ← parseMat? s; let l ← parseMat? l; let d ← parseNat? d
      pure (showOptBits (lightLogicalAny? n s l d))
  | ["dist", n, s, l, m] => do
      let n ← parseNat? n; let s ← parseMat? s; let l ← parseMat? l; let m ← parseNat? m
      pure (showOpt toString (distUpTo n s l m))
  | ["distany", n, s, l, m] => do
      let n ← parseNat? n; let s ← parseMat? s; let l ← parseMat? l; let m ← parseNat? m
      pure (showOpt toString (distUpToAny n s l m))
  | ["cert", s, l, e] => do
      let s ← parseMat? s; let l ← parseMat? l; let e ← parseBits? e
      pure s!"{showBool (isLogicalCert s l e)} {wt e}"
  | _ => none

end Qec.Drv
