/-
  F1 — GF(2) vectors and the binary symplectic product, written the way
  `qecsim.paulitools` computes them.  No imports outside core: this file is linked
  into the compiled driver.
-/
namespace Qec

abbrev BVec := List Bool

/-- element-wise XOR (numpy `^` on equal-length arrays) -/
def xorV (a b : BVec) : BVec := List.zipWith xor a b

/-- parity of the element-wise AND: `a.dot(b) % 2` -/
def dot : BVec → BVec → Bool
  | x :: xs, y :: ys => xor (x && y) (dot xs ys)
  | _, _ => false

/-- `np.hsplit(a, 2)[0]` -/
def xHalf (a : BVec) : BVec := a.take (a.length / 2)
/-- `np.hsplit(a, 2)[1]` -/
def zHalf (a : BVec) : BVec := a.drop (a.length / 2)

/-- `paulitools.bsp` on two vectors: `hstack((a2, a1)).dot(b) % 2` -/
def bsp (a b : BVec) : Bool := dot (zHalf a ++ xHalf a) b

/-- `bsp(e, M.T)` for a vector `e` and a matrix `M` given by its rows -/
def synd (M : List BVec) (e : BVec) : BVec := M.map (fun row => bsp e row)

/-- `bsp(A, B.T)` for two matrices given by rows: entry (i,j) = bsp A_i B_j -/
def bspMat (A B : List BVec) : List BVec := A.map (fun a => B.map (fun b => bsp a b))

/-- number of `true` entries -/
def count1 (a : BVec) : Nat := a.countP id

/-- `paulitools.bsf_wt` on a vector: `count_nonzero(xs + zs)` -/
def bsfWt (a : BVec) : Nat := (List.zipWith or (xHalf a) (zHalf a)).countP id

/-- `bsf_wt` on a matrix (sum of hsplit halves is element-wise, count over all entries) -/
def bsfWtMat (A : List BVec) : Nat := (A.map bsfWt).sum

def zeros (n : Nat) : BVec := List.replicate n false

/-- `np.bitwise_xor.reduce(rows)` for a non-empty list of equal-length rows -/
def xorAll (n : Nat) (rows : List BVec) : BVec := rows.foldl xorV (zeros n)

def isZero (a : BVec) : Bool := a.all (fun b => !b)

end Qec
