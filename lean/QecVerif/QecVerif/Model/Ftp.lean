/-
  C03 — fault-tolerant (time-periodic) decoding: what `qecsim.app._run_once` can hand to a `DecoderFTP`, and the
  part of the symmetry-matching decoders that is plain bookkeeping:

  * `reachable` — the syndrome arrays the simulation can produce (in terms of C01's `decoderInput`);
    `witnessErrors` / `witnessMeas` — an executable witness (step errors + measurement flips) for a given array;
  * `tparity`, `measurementTparities`, `finalize`, `composeToric` — the tail of
    `RotatedToricSMWPMDecoder.decode_ftp` (`_tparity`, `_measurement_error_tparities`, the `itp` / `time_steps == 1`
    branch, the `DecodeResult(success=…, recovery=…, custom_values=…)` that is returned);
  * `composePlanar` — `RotatedPlanarSMWPMDecoder.decode_ftp` returns the bare recovery
    `identity ^ _recovery(clusters) ^ _cluster_recovery(cluster_matches)`;
  * `recoveryTparities`, `clusterRecoveryTparities` — `_recovery_tparities` / `_cluster_recovery_tparities` of the
    rotated-toric decoder as functions of the clusters / cluster matches (which are PARAMETERS: the matching-graph
    construction, `gt.mwpm` and the clustering of matches are NOT modelled);
  * `recoveryOk` — the monitor `synd S r == s`.

  Parameters supplied by the harness (recorded from the real code): the two stage outputs
  (`_recovery_tparities`, `_cluster_recovery_tparities` results), the clusters and the cluster matches.
  No imports outside core/Std + other Model files (this file is linked into the driver).
-/
import QecVerif.Model.RunOnce
import QecVerif.Model.Lattice.RotatedToric
namespace Qec.Ftp
open Qec

/-! ## what the simulation can hand to an FTP decoder -/

/-- the three behaviours of `_run_once` with respect to the measurement-error probability `q`:
    `zero`: `q` falsy — the rng is not consulted, all flips are 0;
    `one` : `q = 1` — `rng.choice((0, 1), p=(0, 1))` can only return 1 (an outcome of probability 0 is never drawn);
    `mid` : `0 < q < 1` — every flip pattern has positive probability. -/
inductive QClass | zero | one | mid deriving DecidableEq, Repr

def ones (m : Nat) : BVec := List.replicate m true

/-- the flip patterns the rng can return for each class (`zero`: irrelevant, never asked) -/
def scriptOk (qc : QClass) (m : Nat) (script : List BVec) : Prop :=
  match qc with
  | .zero => True
  | .one => ∀ v ∈ script, v = ones m
  | .mid => ∀ v ∈ script, v.length = m

/-- `rows` is a syndrome array that `_run_once('ftp', …)` can hand to the decoder for a code with stabilizer
    matrix `S` on `n` qubits, `T` time steps, step errors drawn from the support `supp` of the error model and
    measurement probability of class `qc` (in terms of C01's model `decoderInput`) -/
def reachable (n : Nat) (S : List BVec) (supp : BVec → Prop) (qc : QClass) (T : Nat) (rows : List BVec) : Prop :=
  ∃ es script : List BVec, es.length = T ∧ script.length = T ∧ (∀ e ∈ es, supp e) ∧
    scriptOk qc S.length script ∧ rows = (decoderInput n S es script (qc != .zero)).syndrome

/-- executable witness, step errors: the whole error in the first step -/
def witnessErrors (n T : Nat) (e : BVec) : List BVec := e :: List.replicate (T - 1) (zeros (2 * n))

/-- `d[t] = rows[t] ⊕ synd S es[t]` -/
def residuals (S : List BVec) (es rows : List BVec) : List BVec :=
  (List.range es.length).map fun t => xorV (rows.getD t []) (synd S (es.getD t []))

/-- executable witness, measurement flips: `m[t] = ⊕_{u ≤ t} d[u]` (so that `m[t-1] ⊕ m[t] = d[t]` and
    `m[T-1] = ⊕ d = 0` exactly when `⊕ rows = synd S (⊕ es)`) -/
def witnessMeas (S : List BVec) (es rows : List BVec) : List BVec :=
  (List.range es.length).map fun t => xorAll S.length ((residuals S es rows).take (t + 1))

/-! ## the monitor -/

/-- `synd(stabilizers, recovery) == s` -/
def recoveryOk (S : List BVec) (r s : BVec) : Bool := synd S r == s

/-- the check of the property on one decoder call: the recovery has the syndrome `⊕ rows` -/
def ftpOk (S : List BVec) (rows : List BVec) (r : BVec) : Bool := recoveryOk S r (xorAll S.length rows)

/-! ## `RotatedToricSMWPMDecoder._tparity` -/

def iabs (x : Int) : Int := if x < 0 then -x else x

/-- `_tparity(time_steps, a_t, b_t)`; Python `%` is the floor modulus (`Int.fmod`); `none` = ZeroDivisionError
    (`time_steps == 0`, never passed by the simulation) -/
def tparity (T a b : Int) : Option Nat :=
  if T = 0 then none
  else
    let a' := a.fmod T
    let b' := b.fmod T
    let stepsInBulk := iabs (b' - a')
    if stepsInBulk ≤ T - stepsInBulk then some 0 else some 1

/-- `_tparity` when it cannot raise (`T ≠ 0`); 0 on the unreachable branch -/
def tparityD (T a b : Int) : Nat := (tparity T a b).getD 0

/-! ## `_measurement_error_tparities` -/

/-- `(len([i for i in idx if is_x_plaquette(i)]) % 2, (len(idx) - x_tparity) % 2)` with
    `idx = syndrome_to_plaquette_indices(measurement_error)` -/
def measurementTparities (R C : Int) (m : BVec) : Nat × Nat :=
  let idx := RotatedToric.syndromeToPlaquettes R C m
  let x := (idx.filter fun i => RotatedToric.isXPlaquette i.1 i.2).length % 2
  (x, (idx.length - x) % 2)

/-! ## the result constructor -/

/-- `DecodeResult(success, logical_commutations=None, recovery, custom_values)` as returned by `decode_ftp` -/
structure Result where
  success : Option Bool
  recovery : BVec
  cv : List Nat
  deriving DecidableEq, Repr

/-- `QecsimError('Failed to test t-parity. step_measurement_errors not provided.')` -/
inductive Err | noStepMeas deriving DecidableEq, Repr

/-- the tail of `decode_ftp` ("TEST T-PARITY"): `rx`, `rz` are the accumulated recovery t-parities (Python ints,
    combined with `^`), `stepMeas` is the `step_measurement_errors` keyword (`none` = `None`) -/
def finalize (R C : Int) (itp : Bool) (T : Int) (recovery : BVec) (rx rz : Nat)
    (stepMeas : Option (List BVec)) : Except Err Result :=
  if itp || T == 1 then .ok { success := none, recovery := recovery, cv := [0, 0] }
  else
    match stepMeas with
    | none => .error .noStepMeas
    | some [] => .error .noStepMeas          -- `not []`
    | some (m :: ms) =>
      let tps := measurementTparities R C ((m :: ms).getLast (by simp))
      let tx := rx ^^^ tps.1
      let tz := rz ^^^ tps.2
      if tx != 0 || tz != 0 then .ok { success := some false, recovery := recovery, cv := [tx, tz] }
      else .ok { success := none, recovery := recovery, cv := [0, 0] }

/-- output of a stage (`_recovery_tparities` / `_cluster_recovery_tparities`): operator and X / Z t-parity -/
structure Stage where
  op : BVec
  x : Nat
  z : Nat
  deriving DecidableEq, Repr

/-- `RotatedToricSMWPMDecoder.decode_ftp` with the two stage outputs as parameters:
    `recovery = identity ^ symmetry ^ cluster`, t-parities `0 ^ symmetry ^ cluster`, then `finalize` -/
def composeToric (R C : Int) (itp : Bool) (T : Int) (sym clu : Stage) (stepMeas : Option (List BVec)) :
    Except Err Result :=
  let recovery := xorV (xorV (RotatedToric.identity R C) sym.op) clu.op
  finalize R C itp T recovery ((0 ^^^ sym.x) ^^^ clu.x) ((0 ^^^ sym.z) ^^^ clu.z) stepMeas

/-- `RotatedPlanarSMWPMDecoder.decode_ftp` with the two stage outputs as parameters: a bare recovery -/
def composePlanar (n : Nat) (sym clu : BVec) : BVec := xorV (xorV (zeros (2 * n)) sym) clu

/-! ## the stages of the rotated-toric decoder as functions of the clusters (parameters) -/

abbrev TIdx := Int × Int × Int    -- (t, x, y)

/-- `_cluster_to_paths_and_defect`: X indices, Z indices (cluster order); if their lengths are odd the final
    index of each is split off as the Y-defect.  `none` = QecsimError('Cluster has non-fused non-Y defect.') -/
def clusterToPathsAndDefect (cluster : List TIdx) : Option (List TIdx × List TIdx × Option (TIdx × TIdx)) :=
  let xs := cluster.filter fun i => RotatedToric.isXPlaquette i.2.1 i.2.2
  let zs := cluster.filter fun i => RotatedToric.isZPlaquette i.2.1 i.2.2
  if xs.length % 2 != zs.length % 2 then none
  else if xs.length % 2 == 1 then
    match xs.getLast?, zs.getLast? with
    | some dx, some dz => some (xs.dropLast, zs.dropLast, some (dx, dz))
    | _, _ => none
  else some (xs, zs, none)

/-- `zip(path[::2], path[1::2])` -/
def pairUp : List TIdx → List (TIdx × TIdx)
  | a :: b :: rest => (a, b) :: pairUp rest
  | _ => []

/-- one `operator ^= path(a, b); tparity ^= _tparity(T, a_t, b_t)` step.  `path` toggles sites of the operator it
    is applied to, which is the same as XOR-ing the path operator in. -/
def fusePair (R C T : Int) (acc : BVec × Nat) (ab : TIdx × TIdx) : Option (BVec × Nat) :=
  match RotatedToric.path R C acc.1 (ab.1.2.1, ab.1.2.2) (ab.2.2.1, ab.2.2.2), tparity T ab.1.1 ab.2.1 with
  | .ok v, some tp => some (v, acc.2 ^^^ tp)
  | _, _ => none

/-- `_recovery_tparities(code, time_steps, clusters)`; `none` = the call raises -/
def recoveryTparities (R C T : Int) (clusters : List (List TIdx)) : Option Stage :=
  (clusters.foldlM (fun (st : Stage) cluster => do
      let (xp, zp, _) ← clusterToPathsAndDefect cluster
      -- X pairs and Z pairs act on disjoint halves of the t-parity; the operator is shared
      let (v1, tx) ← (pairUp xp).foldlM (fusePair R C T) (st.op, st.x)
      let (v2, tz) ← (pairUp zp).foldlM (fusePair R C T) (v1, st.z)
      pure { op := v2, x := tx, z := tz })
    { op := RotatedToric.identity R C, x := 0, z := 0 })

/-- `_cluster_recovery_tparities(code, time_steps, matches)`: each match is
    `((a.x_index, a.z_index), (b.x_index, b.z_index))` -/
def clusterRecoveryTparities (R C T : Int) (mts : List ((TIdx × TIdx) × (TIdx × TIdx))) : Option Stage :=
  mts.foldlM (fun (st : Stage) m => do
      let (v1, tx) ← fusePair R C T (st.op, st.x) (m.1.1, m.2.1)
      let (v2, tz) ← fusePair R C T (v1, st.z) (m.1.2, m.2.2)
      pure { op := v2, x := tx, z := tz })
    { op := RotatedToric.identity R C, x := 0, z := 0 }

end Qec.Ftp
