import QecVerif.Model.DriverLattice
import QecVerif.Model.Lattice.Color666
namespace Qec.Drv
open Qec Qec.Wire

private def parseOp? (op : String) : Option P1 :=
  match op.toList with | [ch] => P1.ofChar? ch | _ => none

/-- driver ops of the color666 family; `L` is the (accepted) size -/
def color666 : List String → Option String
  | ["ctor", s] => do let s ← parsePyVal? s; pure (showCtor (Color666.ctor s))
  | ["nkd", l] => do
      let l ← parseInt? l
      let (n, k, d) := Color666.nkd l; pure s!"{n} {k} {d}"
  | ["bound", l] => do let l ← parseInt? l; pure (toString (Color666.bound l))
  | ["stabs", l] => do let l ← parseInt? l; pure (showMat (Color666.stabilizers l))
  | ["lx", l] => do let l ← parseInt? l; pure (showBits (Color666.logicalX l))
  | ["lz", l] => do let l ← parseInt? l; pure (showBits (Color666.logicalZ l))
  | ["plaqidx", l] => do let l ← parseInt? l; pure (showIdxList (Color666.plaquetteIndices l))
  | ["flat", l, i] => do
      let l ← parseInt? l; let i ← parseIdx? i
      pure (if Color666.isSite i.1 i.2 && Color666.inBounds l i.1 i.2 then toString (Color666.flatten i.1 i.2)
            else "AssertionError")
  | ["kinds", i] => do
      let i ← parseIdx? i
      pure s!"{showBool (Color666.isPlaquette i.1 i.2)}{showBool (Color666.isSite i.1 i.2)}"
  | ["inb", l, i] => do
      let l ← parseInt? l; let i ← parseIdx? i; pure (showBool (Color666.inBounds l i.1 i.2))
  | ["site", l, op, i] => do
      let l ← parseInt? l; let i ← parseIdx? i; let op ← parseOp? op
      pure (if Color666.isSite i.1 i.2 then showBits (Color666.site l op (Color666.identity l) i) else "IndexError")
  | ["sites", l, op, v, is] => do
      let l ← parseInt? l; let op ← parseOp? op; let v ← parseBits? v; let is ← parseIdxList? is
      if v.length != 2 * (Color666.nQubits l).toNat then none
      else pure (sitesCall (fun i => Color666.isSite i.1 i.2) (Color666.site l op) v is)
  | ["opat", l, v, i] => do
      let l ← parseInt? l; let v ← parseBits? v; let i ← parseIdx? i
      pure (if Color666.isSite i.1 i.2 && Color666.inBounds l i.1 i.2
            then String.singleton (Color666.operatorAt l v i.1 i.2).toChar else "IndexError")
  | ["plaq", l, op, i] => do
      let l ← parseInt? l; let i ← parseIdx? i; let op ← parseOp? op
      pure (showExB (Color666.plaquette l op (Color666.identity l) i.1 i.2))
  | ["virt", l, i] => do
      let l ← parseInt? l; let i ← parseIdx? i
      match Color666.virtualPlaquette l i.1 i.2 with
      | .ok t => pure (showIdx t) | .error _ => pure "IndexError"
  | ["s2p", l, s] => do
      let l ← parseInt? l; let s ← parseBits? s
      let (x, z) := Color666.syndromeToPlaquettes l s
      pure s!"{showIdxList x}|{showIdxList z}"
  | _ => none

end Qec.Drv
