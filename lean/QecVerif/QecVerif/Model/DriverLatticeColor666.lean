import QecVerif.Model.DriverLattice
namespace Qec.Drv
open Qec Qec.Wire

/-- driver ops of the color666 family (filled in by the family's model) -/
def color666 : List String → Option String
  | _ => none

end Qec.Drv
