/-
  Model of qecsim.tensortools for property C11 (2-D tensor-network contraction), over `Int`.

  Mirrors
    tsr.as_scalar
    mps.contract_pairwise / contract_ladder / inner_product / bond_dimension / _mps_start_stop_indices
    mps.truncate            -- ONLY its guard: when the guard is false it returns `(mps, 1.0)`; when the guard is
                            --   true the real code enters the QR/SVD (LAPACK) path, which is outside this model:
                            --   the model answers `Err.svd`
    mps2d.transpose / contract

  A 4-leg tensor is its shape `(n, e, s, w)` plus the flat data in numpy C order
  (`index = ((i*e + j)*s + k)*w + l`).  `None` sites are `Option.none`.  numpy's `einsum` broadcasts a
  contracted label of dimension 1 against any dimension; that is mirrored by `bdim`/`clamp` (for compatible
  networks both dimensions are equal and `clamp` is the identity on the summation range).

  Exceptions of the real code are values of `Err` (`value` = ValueError, `type` = TypeError,
  `assertion` = AssertionError).  Nothing outside core Lean is imported (linked into `qvdriver`).
-/
namespace Qec.Tensor

inductive Err where
  | value | type | assertion | svd
deriving BEq, Repr, DecidableEq

/-- `Σ_{i<n} f i` -/
def sumRange : Nat → (Nat → Int) → Int
  | 0, _ => 0
  | n + 1, f => sumRange n f + f n

/-- `Π_{i<n} f i` -/
def prodRange : Nat → (Nat → Int) → Int
  | 0, _ => 1
  | n + 1, f => prodRange n f * f n

structure T4 where
  n : Nat
  e : Nat
  s : Nat
  w : Nat
  d : Array Int
deriving BEq, Repr

abbrev Site := Option T4
abbrev MPS := List Site

namespace T4

/-- entry `t[i, j, k, l]` (numpy C order); 0 outside the data -/
def get (t : T4) (i j k l : Nat) : Int := t.d.getD (((i * t.e + j) * t.s + k) * t.w + l) 0

/-- materialise a function on index tuples as a tensor of the given shape (numpy C order) -/
def ofFn (n e s w : Nat) (f : Nat → Nat → Nat → Nat → Int) : T4 :=
  { n := n, e := e, s := s, w := w,
    d := Array.ofFn (n := n * e * s * w) fun ix =>
      f (ix.val / (e * s * w)) (ix.val / (s * w) % e) (ix.val / w % s) (ix.val % w) }

/-- `tsr.size` -/
def size (t : T4) : Nat := t.n * t.e * t.s * t.w

/-- well-formed: data length matches the shape -/
def wf (t : T4) : Bool := t.d.size == t.n * t.e * t.s * t.w

/-- the scalar tensor 1 of shape (1,1,1,1): the mathematical meaning of a `None` padding site -/
def one : T4 := { n := 1, e := 1, s := 1, w := 1, d := #[1] }

/-- `np.transpose(t)`: axes reversed, `(n,e,s,w) → (w,s,e,n)` -/
def transpose (t : T4) : T4 := ofFn t.w t.s t.e t.n fun a b c d => t.get d c b a

end T4

/-- dimension of an einsum label shared by two operands (numpy broadcasts 1 against anything) -/
def bdim (a b : Nat) : Option Nat :=
  if a = b then some a else if a = 1 then some b else if b = 1 then some a else none

/-- index used for an operand whose dimension on a broadcast label is `d` -/
def clamp (d x : Nat) : Nat := if d = 1 then 0 else x

/-- one cell of `contract_pairwise`:
    `np.einsum('nesw,NESe->nNEsSw', le, ri).reshape((n*N, E, s*S, w))` -/
def cell (le ri : T4) : Except Err T4 :=
  match bdim le.e ri.w with
  | none => throw .value
  | some m => pure <| T4.ofFn (le.n * ri.n) ri.e (le.s * ri.s) le.w fun i j k l =>
      sumRange m fun x =>
        le.get (i / ri.n) (clamp le.e x) (k / ri.s) l * ri.get (i % ri.n) j (k % ri.s) (clamp ri.w x)

def cellSite : Site → Site → Except Err Site
  | none, r => pure r
  | some l, none => pure (some l)
  | some l, some r => do let t ← cell l r; pure (some t)

def zipSites : MPS → MPS → Except Err MPS
  | l :: ls, r :: rs => do let t ← cellSite l r; let ts ← zipSites ls rs; pure (t :: ts)
  | _, _ => pure []

/-- `mps.contract_pairwise` -/
def contractPairwise (l r : MPS) : Except Err MPS :=
  if l.length ≠ r.length then throw .assertion else zipSites l r

/-- the scan of `_mps_start_stop_indices` -/
def startStopAux : MPS → Nat → Option Nat → Option Nat → Except Err (Option Nat × Option Nat)
  | [], _, st, sp => pure (st, sp)
  | t :: rest, i, st, sp =>
    match st, sp with
    | none, _ => startStopAux rest (i + 1) (if t.isSome then some i else none) sp
    | some _, none => startStopAux rest (i + 1) st (if t.isNone then some i else none)
    | some _, some _ => if t.isSome then throw .value else startStopAux rest (i + 1) st sp

/-- `mps._mps_start_stop_indices` -/
def startStop (mps : MPS) : Except Err (Nat × Nat) := do
  let (st, sp) ← startStopAux mps 0 none none
  match st with
  | none => pure (0, 0)
  | some a => pure (a, sp.getD mps.length)

/-- one step of `contract_ladder`:
    `np.einsum('nesw,sESW->neESwW', v, t).reshape((n, e*E, S, w*W))` -/
def ladderStep (v t : T4) : Except Err T4 :=
  match bdim v.s t.n with
  | none => throw .value
  | some m => pure <| T4.ofFn v.n (v.e * t.e) t.s (v.w * t.w) fun i j k l =>
      sumRange m fun x =>
        v.get i (j / t.e) (clamp v.s x) (l / t.w) * t.get (clamp t.n x) (j % t.e) k (l % t.w)

def ladderFold : T4 → MPS → Except Err T4
  | v, [] => pure v
  | v, some t :: rest => do let v' ← ladderStep v t; ladderFold v' rest
  | _, none :: _ => throw .type

/-- `mps.contract_ladder` (`functools.reduce` over `mps[start:stop]`; empty slice → TypeError) -/
def contractLadder (mps : MPS) : Except Err T4 := do
  let (a, b) ← startStop mps
  match (mps.take b).drop a with
  | some v :: rest => ladderFold v rest
  | _ => throw .type

/-- `tsr.as_scalar` -/
def asScalar (t : T4) : Except Err Int :=
  if t.size ≠ 1 then throw .value else pure (t.d.getD 0 0)

/-- `mps.inner_product` -/
def innerProduct (bra ket : MPS) : Except Err Int := do
  let m ← contractPairwise bra ket
  let t ← contractLadder m
  asScalar t

/-- `mps.bond_dimension` -/
def bondDimension (mps : MPS) : Nat :=
  mps.foldl (fun m t => max m (match t with | some t => t.n | none => 0)) 0

/-- the condition under which `mps.truncate` does anything:
    `len(mps) and (tol or (chi and chi < bond_dimension(mps))) and (mask is None or any(mask))`.
    `tol` is modelled by its truthiness. -/
def truncateGuard (mps : MPS) (chi : Option Int) (tol : Bool) (mask : Option (List Bool)) : Bool :=
  mps.length != 0 &&
  (tol || (match chi with | some c => c != 0 && c < (bondDimension mps : Int) | none => false)) &&
  (match mask with | none => true | some m => m.any id)

/-- `mps.truncate`: identity with norm 1 when the guard is false; LAPACK path otherwise (not modelled) -/
def truncate (mps : MPS) (chi : Option Int) (tol : Bool) (mask : Option (List Bool)) : Except Err (MPS × Int) :=
  if truncateGuard mps chi tol mask then throw .svd else pure (mps, 1)

/-- a 2-D object array of sites, shape `(nrows, ncols)`, row-major -/
structure Net where
  nrows : Nat
  ncols : Nat
  a : Array Site
deriving BEq, Repr

namespace Net
def wf (tn : Net) : Bool :=
  tn.a.size == tn.nrows * tn.ncols && tn.a.all fun s => match s with | some t => t.wf | none => true
def site (tn : Net) (r c : Nat) : Site := tn.a.getD (r * tn.ncols + c) none
/-- `tn[:, c]` -/
def col (tn : Net) (c : Nat) : MPS := (List.range tn.nrows).map fun r => tn.site r c
/-- `mps2d.transpose` -/
def transpose (tn : Net) : Net :=
  { nrows := tn.ncols, ncols := tn.nrows,
    a := Array.ofFn (n := tn.ncols * tn.nrows) fun ix =>
      (tn.site (ix.val % tn.nrows) (ix.val / tn.nrows)).map T4.transpose }
end Net

/-- boolean mask array of shape `(nrows, ncols)`, row-major -/
structure Mask where
  nrows : Nat
  ncols : Nat
  a : Array Bool
deriving BEq, Repr

def Mask.col (m : Mask) (c : Nat) : List Bool := (List.range m.nrows).map fun r => m.a.getD (r * m.ncols + c) false

/-- `slice(start, stop, step).indices(len)` (CPython semantics); ValueError when step = 0 -/
def sliceIndices (start stop step : Option Int) (len : Nat) : Except Err (Int × Int × Int) :=
  let st : Int := step.getD 1
  if st = 0 then throw .value else
  let lower : Int := if st < 0 then -1 else 0
  let upper : Int := if st < 0 then (len : Int) - 1 else len
  let adj (x : Int) : Int :=
    if x < 0 then (if x + len < lower then lower else x + len) else (if x > upper then upper else x)
  let a : Int := match start with | none => if st < 0 then upper else lower | some x => adj x
  let b : Int := match stop with | none => if st < 0 then lower else upper | some x => adj x
  pure (a, b, st)

/-- `range(a, b, st)` as a list (st ≠ 0) -/
def pyRange (a b st : Int) : List Int :=
  let cnt : Int :=
    if st > 0 then (if a < b then (b - a + st - 1) / st else 0)
    else (if a > b then (a - b + (-st) - 1) / (-st) else 0)
  (List.range cnt.toNat).map fun (i : Nat) => a + (i : Int) * st

/-- `range(*slice(start, stop, step).indices(n))` as column indices -/
def colRange (start stop step : Option Int) (n : Nat) : Except Err (List Nat) := do
  let (a, b, st) ← sliceIndices start stop step n
  pure ((pyRange a b st).map Int.toNat)

/-- `left, right = (result, mps) if (step is None or step > 0) else (mps, result)` then `contract_pairwise` -/
def pairStep (fwd : Bool) (res mps : MPS) : Except Err MPS :=
  if fwd then contractPairwise res mps else contractPairwise mps res

/-- `if not (is_last_column and full_contraction): result, norm = truncate(...); mult *= norm` -/
def truncStep (skip : Bool) (m : MPS) (mult : Int) (chi : Option Int) (tol : Bool) (msk : Option (List Bool)) :
    Except Err (MPS × Int) :=
  if skip then .ok (m, mult) else
  match truncate m chi tol msk with
  | .ok (m', norm) => .ok (m', mult * norm)
  | .error e => .error e

/-- the column loop of `mps2d.contract` after the first column.  `noTruncLast` = "full contraction"
    (`n_cols == len(col_range)`): then the last column of the range is not truncated.  "Last column" is
    recognised by position in the range, which is the same as `col == col_range[-1]` because a range has
    no repeated element. -/
def sweep (fwd : Bool) (chi : Option Int) (tol : Bool) (noTruncLast : Bool) :
    MPS × Int → List (MPS × Option (List Bool)) → Except Err (MPS × Int)
  | acc, [] => .ok acc
  | (res, mult), (mps, msk) :: rest =>
    match pairStep fwd res mps with
    | .error e => .error e
    | .ok res' =>
      match truncStep (rest.isEmpty && noTruncLast) res' mult chi tol msk with
      | .error e => .error e
      | .ok acc' => sweep fwd chi tol noTruncLast acc' rest

inductive Result where
  | scalar (v : Int)
  | part (r : Option MPS) (mult : Int)
deriving BEq, Repr

/-- `assert mask is None or mask.shape == tn.shape` -/
def maskOK (tn : Net) (mask : Option Mask) : Bool :=
  match mask with
  | some m => m.nrows == tn.nrows && m.ncols == tn.ncols
  | none => true

/-- after the loop: full contraction → `as_scalar(contract_ladder(result))` times the multiplier; otherwise the
    partial result with its multiplier -/
def finish (full : Bool) (r : MPS × Int) : Except Err Result :=
  if full then
    match contractLadder r.1 with
    | .error e => .error e
    | .ok t =>
      match asScalar t with
      | .error e => .error e
      | .ok v => .ok (.scalar (r.2 * v))
  else .ok (.part (some r.1) r.2)

/-- the body of `mps2d.contract` once the column range `cr` is resolved -/
def contractCols (tn : Net) (chi : Option Int) (tol : Bool) (fwd : Bool) (mask : Option Mask) (cr : List Nat) :
    Except Err Result :=
  match cr.map fun c => (tn.col c, mask.map fun m => m.col c) with
  | [] =>
    -- empty range: `result` stays None (`contract_ladder(None)` is a TypeError in a full contraction)
    if tn.ncols == cr.length then .error .type else .ok (.part none 1)
  | (first, _) :: rest =>
    match sweep fwd chi tol (tn.ncols == cr.length) (first, 1) rest with
    | .error e => .error e
    | .ok r => finish (tn.ncols == cr.length) r

/-- `mps2d.contract(tn, chi, tol, start, stop, step, mask)`; `tol` by truthiness.  The multiplier is the
    product of the norms returned by `truncate` (always 1 inside the model, where truncation is a no-op). -/
def contract (tn : Net) (chi : Option Int) (tol : Bool) (start stop step : Option Int)
    (mask : Option Mask) : Except Err Result :=
  if !maskOK tn mask then .error .assertion else
  match colRange start stop step tn.ncols with
  | .error e => .error e
  | .ok cr => contractCols tn chi tol (match step with | none => true | some s => decide (s > 0)) mask cr

/-- value of a split-and-recombine evaluation at column `k` as the harness performs it on the real code:
    `l, ml = contract(tn, …, stop=k)`, `r, mr = contract(tn, …, start=-1, stop=k-1, step=-1)`,
    `inner_product(l, r) * ml * mr`  (0 < k < ncols). -/
def splitValue (tn : Net) (k : Nat) (chi : Option Int) (tol : Bool) (mask : Option Mask) : Except Err Int := do
  let l ← contract tn chi tol none (some k) none mask
  let r ← contract tn chi tol (some (-1)) (some ((k : Int) - 1)) (some (-1)) mask
  match l, r with
  | .part (some lm) ml, .part (some rm) mr => do
    let ip ← innerProduct lm rm
    pure (ip * ml * mr)
  | _, _ => throw .type

/-! ### exact value: brute-force sum over all bond-index assignments -/

/-- mixed-radix digits (least significant first) -/
def digits : List Nat → Nat → List Nat
  | [], _ => []
  | d :: ds, a => (a % d) :: digits ds (a / d)

/-- meaning of a site in the exact value: `None` padding is the scalar tensor 1 -/
def siteT (s : Site) : T4 := s.getD T4.one

/-- the network is a rectangular grid with matching bonds and dummy outer legs (None ↦ `T4.one`) -/
def compatible (tn : Net) : Bool :=
  decide (0 < tn.nrows) && decide (0 < tn.ncols) &&
  (List.range tn.nrows).all fun r => (List.range tn.ncols).all fun c =>
    let t := siteT (tn.site r c)
    (t.w == if c = 0 then 1 else (siteT (tn.site r (c - 1))).e) &&
    (t.n == if r = 0 then 1 else (siteT (tn.site (r - 1) c)).s) &&
    (decide (c + 1 < tn.ncols) || t.e == 1) && (decide (r + 1 < tn.nrows) || t.s == 1)

/-- radices of the bond variables: cell `p = r*ncols + c` owns its east bond (variable `2p`) and its
    south bond (variable `2p+1`) -/
def radices (tn : Net) : List Nat :=
  (List.range (tn.nrows * tn.ncols)).flatMap fun p =>
    let t := siteT (tn.a.getD p none); [t.e, t.s]

/-- number of bond-index assignments -/
def nAssignments (tn : Net) : Nat := (radices tn).foldl (· * ·) 1

/-- product of all entries under the assignment number `a` -/
def termOf (tn : Net) (rad : List Nat) (a : Nat) : Int :=
  let dg := (digits rad a).toArray
  let C := tn.ncols
  prodRange (tn.nrows * C) fun p =>
    let r := p / C; let c := p % C
    (siteT (tn.a.getD p none)).get
      (if r = 0 then 0 else dg.getD (2 * (p - C) + 1) 0) (dg.getD (2 * p) 0) (dg.getD (2 * p + 1) 0)
      (if c = 0 then 0 else dg.getD (2 * (p - 1)) 0)

/-- exact contraction value: `Σ_{assignments} Π_{cells} entry`; `none` when the network is not a compatible
    grid -/
def exactValue (tn : Net) : Option Int :=
  if compatible tn then
    let rad := radices tn
    some ((List.range (nAssignments tn)).foldl (fun acc a => acc + termOf tn rad a) 0)
  else none

end Qec.Tensor
