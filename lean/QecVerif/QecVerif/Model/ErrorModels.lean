/-
  C16 — executable models (over `Rat`) of the IID error-model distributions of
  qecsim.models.generic:  _simpleerrormodel.py (Depolarizing, BitFlip, PhaseFlip, BitPhaseFlip),
  _biasederrormodel.py (BiasedDepolarizing, BiasedYX), _sliceerrormodel.py (CenterSlice),
  and of their constructors' argument checks over a small universe of Python values.

  The models mirror the code that exists (same expressions, same order of the checks), with exact
  rational arithmetic instead of floats.  External: Python float arithmetic and `math.sqrt` are not
  modelled; the harness compares at the exact rational value of the float inputs within a stated
  tolerance.  For the biased-Y-X model (closed form with a square root) the model is
  (a) `biasedYXResidual`: the defining equations as a rational checker of a candidate (p_x,p_y,p_z),
  (b) `biasedYX?`: the closed form itself whenever the discriminant is a rational square.
  Division by zero follows `Rat` (x / 0 = 0); it only arises outside the accepted domains.
-/
namespace Qec.EM

/-- a single-qubit distribution (Pr I, Pr X, Pr Y, Pr Z) -/
structure Dist where
  pI : Rat
  pX : Rat
  pY : Rat
  pZ : Rat
  deriving DecidableEq, Repr

/-- `p_i = 1 - sum((p_x, p_y, p_z))` -/
def mk (px py pz : Rat) : Dist := ⟨1 - (px + py + pz), px, py, pz⟩

def Dist.sum (d : Dist) : Rat := d.pI + d.pX + d.pY + d.pZ
def Dist.nonneg (d : Dist) : Prop := 0 ≤ d.pI ∧ 0 ≤ d.pX ∧ 0 ≤ d.pY ∧ 0 ≤ d.pZ

/-! ### simple models -/
def depolarizing (p : Rat) : Dist := mk (p / 3) (p / 3) (p / 3)
def bitFlip (p : Rat) : Dist := mk p 0 0
def phaseFlip (p : Rat) : Dist := mk 0 0 p
def bitPhaseFlip (p : Rat) : Dist := mk 0 p 0

/-! ### biased depolarizing -/
inductive Axis | X | Y | Z deriving DecidableEq, Repr

def lowRate (bias p : Rat) : Rat := 1 / (2 * (bias + 1)) * p
def highRate (bias p : Rat) : Rat := bias / (bias + 1) * p

def biasedDepolarizing (bias : Rat) (ax : Axis) (p : Rat) : Dist :=
  let lr := lowRate bias p
  let hr := highRate bias p
  match ax with
  | .X => mk hr lr lr
  | .Y => mk lr hr lr
  | .Z => mk lr lr hr

/-- the rate along the axis / the two off-axis rates of a distribution -/
def Dist.along (d : Dist) : Axis → Rat
  | .X => d.pX | .Y => d.pY | .Z => d.pZ
def Dist.offSum (d : Dist) : Axis → Rat
  | .X => d.pY + d.pZ | .Y => d.pX + d.pZ | .Z => d.pX + d.pY

/-! ### biased Y-X -/
/-- from rates (independent X flips with rate rx and Y flips with rate ry) to the distribution -/
def ofRates (rx ry : Rat) : Dist := mk (rx * (1 - ry)) (ry * (1 - rx)) (rx * ry)

/-- residuals of the documented defining equations at a candidate (p_x, p_y, p_z):
    `p = p_x+p_y+p_z`, `bias = p_y/p_x` (as `p_y = bias·p_x`), and independence of the X and Y flips
    `p_z = (p_x+p_z)(p_y+p_z)` (the rates are r_x = p_x+p_z, r_y = p_y+p_z). All zero ⇔ solution. -/
def biasedYXResidual (p bias : Rat) (c : Rat × Rat × Rat) : Rat × Rat × Rat :=
  let (px, py, pz) := c
  (px + py + pz - p, py - bias * px, pz - (px + pz) * (py + pz))

/-- the quantity under the square root of the closed form: `-4p + (1 + h + p - h p)^2` -/
def yxDisc (bias p : Rat) : Rat := -4 * p + (1 + bias + p - bias * p) ^ 2

/-- exact square root of a non-negative rational when it is a rational square -/
def ratSqrt? (q : Rat) : Option Rat :=
  if q < 0 then none else
  let n := q.num.toNat
  let d := q.den
  let sn := Nat.sqrt n
  let sd := Nat.sqrt d
  if sn * sn = n ∧ sd * sd = d then some ((sn : Rat) / (sd : Rat)) else none

/-- `_rate_x` with the square root supplied -/
def yxRateX (bias p s : Rat) : Rat :=
  if bias = 0 then p else 1 / 2 * (1 + bias + p - bias * p - s)
/-- `_rate_y` with the square root supplied -/
def yxRateY (bias p s : Rat) : Rat :=
  if bias = 0 then 0 else 1 / (2 * bias) * (1 + bias - p + bias * p - s)

/-- the closed form given a value `s` for the square root of the discriminant -/
def biasedYXWith (bias p s : Rat) : Dist := ofRates (yxRateX bias p s) (yxRateY bias p s)

/-- the closed form, exactly, when the discriminant is a rational square (always when bias = 0) -/
def biasedYX? (bias p : Rat) : Option Dist :=
  if bias = 0 then some (biasedYXWith bias p 0) else
  (ratSqrt? (yxDisc bias p)).map (biasedYXWith bias p)

/-! ### centre slice -/
structure V3 where
  x : Rat
  y : Rat
  z : Rat
  deriving DecidableEq, Repr

def rabs (q : Rat) : Rat := if q < 0 then -q else q

def V3.sum (v : V3) : Rat := v.x + v.y + v.z
def V3.add (a b : V3) : V3 := ⟨a.x + b.x, a.y + b.y, a.z + b.z⟩
def V3.sub (a b : V3) : V3 := ⟨a.x - b.x, a.y - b.y, a.z - b.z⟩
def V3.smul (c : Rat) (a : V3) : V3 := ⟨c * a.x, c * a.y, c * a.z⟩
def V3.dot (a b : V3) : Rat := a.x * b.x + a.y * b.y + a.z * b.z
def V3.norm1 (a : V3) : Rat := rabs a.x + rabs a.y + rabs a.z
/-- squared Euclidean norm (the code compares `np.linalg.norm`s, which is monotone in this) -/
def V3.sq (a : V3) : Rat := a.dot a
def V3.nonzeros (a : V3) : Nat :=
  (if a.x = 0 then 0 else 1) + (if a.y = 0 then 0 else 1) + (if a.z = 0 then 0 else 1)

def center : V3 := ⟨1 / 3, 1 / 3, 1 / 3⟩

/-- `_normalize`: `r / np.linalg.norm(r, ord=1)` -/
def normalize (r : V3) : V3 := ⟨r.x / r.norm1, r.y / r.norm1, r.z / r.norm1⟩

/-- `_line_plane_intersect(plane_normal, plane_point, line_direction, line_point)` -/
def linePlaneIntersect (n pp dir lp : V3) : V3 :=
  let w := lp.sub pp
  let si := -(n.dot w) / (n.dot dir)
  (w.add (V3.smul si dir)).add pp

def eX : V3 := ⟨1, 0, 0⟩
def eY : V3 := ⟨0, 1, 0⟩
def eZ : V3 := ⟨0, 0, 1⟩

/-- one round of the loop `for p1, p2, p3 in ((pX,pY,pZ), (pY,pZ,pX), (pZ,pX,pY))` of `_neg_lim`;
    `none` = the `if not np.dot(pL, p1)` test fails, continue with the next triple -/
def negLimStep (lim p1 p2 p3 : V3) : Option V3 :=
  if lim.dot p1 = 0 then
    let pN := if (p2.sub lim).sq ≤ (p3.sub lim).sq then p2 else p3
    some (normalize (linePlaneIntersect pN ⟨0, 0, 0⟩ (center.sub lim) lim))
  else none

/-- `_neg_lim`; `none` = `QecsimError('Failed to find negative-limit.')` -/
def negLim? (lim : V3) : Option V3 :=
  match negLimStep lim eX eY eZ with
  | some r => some r
  | none => match negLimStep lim eY eZ eX with
    | some r => some r
    | none => negLimStep lim eZ eX eY

/-- `_ratio(lim, pos)`; `none` only when `_neg_lim` raises -/
def ratio? (lim : V3) (pos : Rat) : Option V3 := do
  let l ← if pos ≥ 0 then some lim else negLim? lim
  let a := rabs pos
  pure ((V3.smul a l).add (V3.smul (1 - a) center))

def sliceOfRatio (r : V3) (p : Rat) : Dist := mk (r.x * p) (r.y * p) (r.z * p)

/-- `CenterSliceErrorModel(lim, pos).probability_distribution(p)` for already validated (lim, pos):
    the constructor stores `_normalize(lim)` -/
def centerSlice? (lim : V3) (pos p : Rat) : Option Dist :=
  (ratio? (normalize lim) pos).map fun r => sliceOfRatio r p

/-! ### constructor argument checks over a universe of Python values -/
/-- scalar Python values -/
inductive PS
  | int (v : Int)
  | bool (b : Bool)
  | flt (q : Rat)        -- finite float
  | nan | pinf | ninf    -- float('nan'), float('inf'), float('-inf')
  | str (s : String)
  | none
  deriving DecidableEq, Repr

/-- Python values: scalars and sequences (tuple / list) of scalars -/
inductive PV
  | s (v : PS)
  | seq (l : List PS)
  deriving DecidableEq, Repr

inductive CtorErr | value | type deriving DecidableEq, Repr

/-- extended-real reading of a numeric scalar for order comparisons -/
inductive Num | fin (q : Rat) | nan | pinf | ninf deriving DecidableEq, Repr

def PS.num? : PS → Option Num
  | .int v => some (.fin v)
  | .bool b => some (.fin (if b then 1 else 0))
  | .flt q => some (.fin q)
  | .nan => some .nan | .pinf => some .pinf | .ninf => some .ninf
  | .str _ => Option.none | .none => Option.none

/-- `x > c` / `x >= c` / `x <= c` for a finite constant `c` (NaN compares false) -/
def Num.gt (x : Num) (c : Rat) : Bool :=
  match x with | .fin q => decide (c < q) | .pinf => true | _ => false
def Num.ge (x : Num) (c : Rat) : Bool :=
  match x with | .fin q => decide (c ≤ q) | .pinf => true | _ => false
def Num.le (x : Num) (c : Rat) : Bool :=
  match x with | .fin q => decide (q ≤ c) | .ninf => true | _ => false
def Num.isFinite : Num → Bool
  | .fin _ => true | _ => false
def Num.val : Num → Rat
  | .fin q => q | _ => 0

def axisOfString? (s : String) : Option Axis :=
  if s = "X" ∨ s = "x" then some .X else if s = "Y" ∨ s = "y" then some .Y
  else if s = "Z" ∨ s = "z" then some .Z else Option.none

/-- `BiasedDepolarizingErrorModel.__init__(bias, axis)`: bias is checked first (a non-numeric bias is a
    TypeError whatever the axis); `axis not in ('x','y','z','X','Y','Z')` never raises TypeError -/
def ctorBiasedDepolarizing (bias axis : PV) : Except CtorErr (Rat × Axis) :=
  match bias with
  | .seq _ => .error .type
  | .s b =>
    match b.num? with
    | Option.none => .error .type
    | some x =>
      if !(x.gt 0 && x.isFinite) then .error .value else
      match axis with
      | .s (.str a) => match axisOfString? a with
        | some ax => .ok (x.val, ax)
        | Option.none => .error .value
      | _ => .error .value

/-- `BiasedYXErrorModel.__init__(bias)` -/
def ctorBiasedYX (bias : PV) : Except CtorErr Rat :=
  match bias with
  | .seq _ => .error .type
  | .s b =>
    match b.num? with
    | Option.none => .error .type
    | some x => if !(x.ge 0 && x.isFinite) then .error .value else .ok x.val

/-- `np.count_nonzero` of a numeric scalar (NaN and ±inf are non-zero) -/
def Num.isNonzero : Num → Bool
  | .fin q => decide (q ≠ 0) | _ => true

/-- what the constructor stores for an accepted limit: the tuple as extended reals -/
structure SliceArgs where
  lim : List Num
  pos : Rat
  deriving DecidableEq, Repr

/-- `CenterSliceErrorModel.__init__(lim, pos)` on the universe: `lim` a scalar (no `len`: TypeError) or a
    sequence of numeric scalars (sequences containing str / None are outside the modelled universe and answer
    `none`); `len(lim) == 3 and np.count_nonzero(lim) in (1, 2)` first, then `-1.0 <= pos <= 1.0`.
    NOTE (mirrors the code, finding D4): the sign and finiteness of the limit components are NOT checked. -/
def ctorCenterSlice (lim pos : PV) : Option (Except CtorErr SliceArgs) :=
  match lim with
  | .s (.str _) => Option.none          -- len(str) works; outside the modelled universe
  | .s _ => some (.error .type)
  | .seq l =>
    match l.mapM PS.num? with
    | Option.none => Option.none
    | some nums =>
      let nz := (nums.filter Num.isNonzero).length
      if !(nums.length = 3 ∧ (nz = 1 ∨ nz = 2)) then some (.error .value) else
      match pos with
      | .seq _ => some (.error .type)
      | .s q =>
        match q.num? with
        | Option.none => some (.error .type)
        | some x =>
          if !(x.ge (-1) && x.le 1) then some (.error .value) else some (.ok ⟨nums, x.val⟩)

/-- the documented domain of the limit: three finite non-negative numbers with one or two zeros -/
def limInDomain (l : List Num) : Bool :=
  l.length = 3 && l.all (fun x => x.isFinite && decide (0 ≤ x.val)) &&
    (let nz := (l.filter Num.isNonzero).length; nz = 1 || nz = 2)

end Qec.EM
