import QecVerif.Model.Wire
namespace Qec.Drv
open Qec Qec.Wire

/-- driver ops of property C14 (first protocol token `c14`) -/
def c14 : List String → Option String
  | _ => none

end Qec.Drv
