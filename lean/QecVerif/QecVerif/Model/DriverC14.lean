import QecVerif.Model.Wire
import QecVerif.Model.NaiveDecode
namespace Qec.Drv
open Qec Qec.Wire

/-- `e:r,e:r,…` → list of pairs of bit vectors -/
def c14Pairs? (s : String) : Option (List (BVec × BVec)) :=
  (s.splitOn ",").mapM fun item =>
    match item.splitOn ":" with
    | [a, b] => do
        let x ← parseBits? a
        let y ← parseBits? b
        pure (x, y)
    | _ => none

def c14ShowVerdicts (l : List Bool) : String := String.ofList (l.map fun b => if b then '1' else '0')

/-- driver ops of property C14 (first protocol token `c14`)

    naive <max_qubits|N> <S> <n> <syndrome>      → ValueError | None | ok <recovery bsf>
    corrected <S> <L> <e:r,e:r,…>                → one verdict bit per pair (`corrected S L e r`)
    inspan <S> <v:cert,v:cert,…>                 → one verdict bit per pair (`inSpanCert S v cert`)
    distcheck <S> <L> <n> <d>                    → 0 | 1
-/
def c14 : List String → Option String
  | ["naive", mq, sS, sn, ss] => do
      let mq ← parseOptNat? mq
      let S ← parseMat? sS
      let n ← parseNat? sn
      let s ← parseBits? ss
      match naiveDecoderDecode mq S n s with
      | .error .value => pure "ValueError"
      | .ok none => pure "None"
      | .ok (some r) => pure ("ok " ++ showBits r)
  | ["corrected", sS, sL, ps] => do
      let S ← parseMat? sS
      let L ← parseMat? sL
      let ps ← c14Pairs? ps
      pure (c14ShowVerdicts (ps.map fun er => corrected S L er.1 er.2))
  | ["inspan", sS, ps] => do
      let S ← parseMat? sS
      let ps ← c14Pairs? ps
      pure (c14ShowVerdicts (ps.map fun vc => inSpanCert S vc.1 vc.2))
  | ["distcheck", sS, sL, sn, sd] => do
      let S ← parseMat? sS
      let L ← parseMat? sL
      let n ← parseNat? sn
      let d ← parseNat? sd
      pure (showBool (distCheck S L n d))
  | _ => none

end Qec.Drv
