/-
  C14 — `qecsim.models.generic.NaiveDecoder` and the verdict predicates of the property
  "minimum-weight decoders correct every error within half the distance".

  Mathlib-free (linked into the compiled driver); imports only the Pauli model for `ibsf`.

  External things that are parameters here:
  * the code: only its stabilizer matrix `S` (rows = binary symplectic vectors), its logical
    operators `L` (rows, `logical_xs` stacked on `logical_zs`) and the number of qubits `n` (`n_k_d[0]`);
  * the matching library behind the MWPM decoders is not modelled here (see Props/C14.lean: the
    matching is a universally quantified parameter of `applyMates`).
-/
import QecVerif.Model.Pauli
namespace Qec

/-- the loop of `NaiveDecoder.decode`:
    `for error in pt.ibsf(n): if np.array_equal(pt.bsp(error, S.T), syndrome): return error`
    with the iterator's weight range made explicit (`pt.ibsf(n)` is `ibsf n 0 n`), in reference form.
    `np.array_equal` on arrays of different shapes is `False`, which list equality reproduces.
    Falling off the loop returns Python `None` = `none` here (also `none` when the iterator's
    assertion `0 ≤ maxW ≤ n` would fail; never the case for `maxW = n`). -/
def naiveDecodeRef (S : List BVec) (n maxW : Nat) (s : BVec) : Option BVec :=
  match ibsf n 0 maxW with
  | none => none
  | some l => l.find? fun e => synd S e == s

/-- the same search written weight class by weight class, so that evaluation stops at the first
    weight class containing a match (a Python generator is lazy; a Lean list is not).
    `Lemmas/NaiveDecode.lean: naiveDecode_eq_ref` proves `naiveDecode = naiveDecodeRef`. -/
def naiveDecode (S : List BVec) (n maxW : Nat) (s : BVec) : Option BVec :=
  if maxW ≤ n then
    (List.range (maxW + 1)).findSome? fun w =>
      ((paulisOfWeight n w).map toBsf).find? fun e => synd S e == s
  else none

inductive NaiveErr | value   -- ValueError: 'NaiveDecoder limited to … qubits'
  deriving DecidableEq, Repr

/-- `NaiveDecoder(max_qubits).decode(code, syndrome)`.
    `maxQubits`: `none` = falsy (`None`, `0`, `False`); `some m` = truthy integer `m`.
    Guard `if self._max_qubits and n_qubits > self._max_qubits: raise ValueError` first. -/
def naiveDecoderDecode (maxQubits : Option Nat) (S : List BVec) (n : Nat) (s : BVec) :
    Except NaiveErr (Option BVec) :=
  match maxQubits with
  | some m => if m ≠ 0 ∧ n > m then .error .value else .ok (naiveDecode S n n s)
  | none => .ok (naiveDecode S n n s)

/-- the default `MAX_QUBITS = 10` -/
def naiveDefaultMaxQubits : Option Nat := some 10

/-- rows of `S` selected by the bit list `cert` -/
def selectRows (S : List BVec) (cert : List Bool) : List BVec :=
  (S.zip cert).filterMap fun p => if p.2 then some p.1 else none

/-- certificate check for "`v` is a product of stabilizers": `cert` has one bit per row of `S` and
    `v` is the XOR of the selected rows -/
def inSpanCert (S : List BVec) (v : BVec) (cert : List Bool) : Bool :=
  cert.length == S.length && xorAll v.length (selectRows S cert) == v

/-- the property's verdict: recovery ⊕ error commutes with every stabilizer and every logical
    operator (for a valid [[n,k]] code this is "recovery ⊕ error is a product of stabilizers") -/
def corrected (S L : List BVec) (e r : BVec) : Bool :=
  isZero (synd S (xorV r e)) && isZero (synd L (xorV r e))

/-- X-component of a bsf as an operator of its own (Z half zeroed), and likewise Z-component -/
def xPart (v : BVec) : BVec := xHalf v ++ zeros (zHalf v).length
def zPart (v : BVec) : BVec := zeros (xHalf v).length ++ zHalf v

/-- the distance check by enumeration used for the basic codes: every Pauli of weight `< d`
    that commutes with all of `S` commutes with all of `L` -/
def distCheck (S L : List BVec) (n d : Nat) : Bool :=
  match ibsf n 0 (d - 1) with
  | none => false
  | some l => l.all fun v => !isZero (synd S v) || isZero (synd L v)

end Qec
