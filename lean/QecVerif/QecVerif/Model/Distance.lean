/-
  C08 — minimum distance of a stabilizer code given by its REAL matrices (rows of `code.stabilizers`,
  `code.logicals` in binary symplectic form, `n` qubits, every row of length `2 n`).

  "Non-trivial logical operator" is expressed as: commutes with every stabilizer generator and anticommutes
  with at least one of the supplied logicals (`isLogicalCert`).  For a valid code (C07/C20) this is the same
  as "in the normaliser but not a product of stabilizers" (normaliser completeness, see Lemmas/Distance.lean).

  Two exhaustive searches, both executable (compiled into `qvdriver`) and kernel-evaluable:
  * `lightLogical?` — CSS-split search: X-only and Z-only operators, enumerated as subsets of the qubits in
    `itertools.combinations` order, weight 0, 1, …, d-1.  Complete for CSS codes (`css_split`).
  * `lightLogicalAny?` — all Paulis of weight < d in `ipauli` order (for non-CSS codes, e.g. the five-qubit code).
  Nothing external is modelled here: the matrices are inputs supplied by the harness (or by the lattice models).
-/
import QecVerif.Model.GF2
import QecVerif.Model.Pauli
namespace Qec.Distance

/-- weight of an operator in binary symplectic form: `paulitools.bsf_wt` -/
def wt (e : BVec) : Nat := bsfWt e

/-- `e` commutes with every row of `S` -/
def commAll (S : List BVec) (e : BVec) : Bool := S.all fun s => !bsp e s

/-- `e` anticommutes with some row of `L` -/
def antiSome (L : List BVec) (e : BVec) : Bool := L.any fun l => bsp e l

/-- certificate check: `e` commutes with all of `S` and anticommutes with some logical -/
def isLogicalCert (S L : List BVec) (e : BVec) : Bool := commAll S e && antiSome L e

/-- every row of `L` commutes with every row of `S` (the rows of `L` lie in the normaliser of `S`) -/
def inNormaliser (S L : List BVec) : Bool := L.all (commAll S)

/-- characteristic vector (length `n`) of a set of qubits -/
def ind (n : Nat) (qs : List Nat) : BVec := (List.range n).map fun i => qs.contains i

/-- the X-only operator with X-support `a` (`a.length = n`) -/
def xOp (n : Nat) (a : BVec) : BVec := a ++ zeros n
/-- the Z-only operator with Z-support `a` -/
def zOp (n : Nat) (a : BVec) : BVec := zeros n ++ a

def isXOnly (e : BVec) : Bool := isZero (zHalf e)
def isZOnly (e : BVec) : Bool := isZero (xHalf e)

/-- every row is X-type or Z-type (hypothesis of the CSS split), every row has length `2 n` -/
def isCSS (n : Nat) (M : List BVec) : Bool :=
  M.all fun s => decide (s.length = 2 * n) && (isXOnly s || isZOnly s)

/-- fast certificate for a one-type operator with support vector `a`, against the pre-split halves `Sh`, `Lh`
    (for an X-only operator: the Z halves of the rows; for a Z-only operator: the X halves);
    all-zero halves are dropped from `Sh` beforehand -/
def halfCert (Sh Lh : List BVec) (a : BVec) : Bool :=
  (Sh.all fun s => !dot a s) && (Lh.any fun l => dot a l)

/-- the relevant non-zero halves of the stabilizers -/
def nzHalves (h : BVec → BVec) (S : List BVec) : List BVec := (S.map h).filter fun s => !isZero s

/-- first element `c` of `itertools.combinations(xs, k)` with `p c = some _` — evaluated depth-first without
    materialising the list of combinations -/
def findComb {α β} (p : List α → Option β) : List α → Nat → Option β
  | _, 0 => p []
  | [], _ + 1 => none
  | x :: xs, k + 1 =>
    match findComb (fun c => p (x :: c)) xs k with
    | some r => some r
    | none => findComb p xs (k + 1)

/-- the test applied to one subset of qubits: the X-only operator first, then the Z-only operator -/
def testSubset (n : Nat) (Sz Lz Sx Lx : List BVec) (qs : List Nat) : Option BVec :=
  let a := ind n qs
  if halfCert Sz Lz a then some (xOp n a)
  else if halfCert Sx Lx a then some (zOp n a)
  else none

/-- CSS-split search at weight exactly `w` -/
def findAtWeight (n : Nat) (S L : List BVec) (w : Nat) : Option BVec :=
  findComb (testSubset n (nzHalves zHalf S) (L.map zHalf) (nzHalves xHalf S) (L.map xHalf)) (List.range n) w

/-- a witness of weight `< d` among the X-only / Z-only operators on `n` qubits, or `none` -/
def lightLogical? (n : Nat) (S L : List BVec) (d : Nat) : Option BVec :=
  (List.range d).findSome? (findAtWeight n S L)

/-- the least weight `w ≤ m` at which an X-only or Z-only non-trivial logical exists -/
def distUpTo (n : Nat) (S L : List BVec) (m : Nat) : Option Nat :=
  (List.range (m + 1)).find? fun w => (findAtWeight n S L w).isSome

/-- general search: the first Pauli (in `ipauli` order) of weight `< d` that is a non-trivial logical -/
def lightLogicalAny? (n : Nat) (S L : List BVec) (d : Nat) : Option BVec :=
  (List.range d).findSome? fun w => ((paulisOfWeight n w).map toBsf).find? (isLogicalCert S L)

/-- general least weight `≤ m` -/
def distUpToAny (n : Nat) (S L : List BVec) (m : Nat) : Option Nat :=
  (List.range (m + 1)).find? fun w => ((paulisOfWeight n w).map toBsf).any (isLogicalCert S L)

end Qec.Distance
