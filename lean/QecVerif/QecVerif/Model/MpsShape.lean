/-
  C12 — shape / control-flow model of qecsim.tensortools.mps
  (`_mps_start_stop_indices`, `zeros_like`, `reverse`, `bond_dimension`, `left_canonical_form`,
   `right_canonical_form`, `truncate`).

  What is modelled: which tensors are visited, which decomposition (QR / SVD) each visited tensor gets
  (`qr or not tsr_mask`), the shape of every output tensor, the number of singular values kept
  (`s = s / s[0]; s = s[s > tol] if tol; s = s[:chi] if chi; u[:, :len(s)]`), the zero tests
  (`not r_norm`, `not max_s`, `not len(s)` after the tol filter — no normalised singular value exceeds tol, i.e.
  tol ≥ 1 —, `not last_row_norm`) with their `zeros_like(mps), norm = 0; break`, the
  assertions, the ValueError of a non-contiguous MPS, the einsum bond check, the guard of `truncate`.

  What is NOT modelled: the numeric entries.  Everything the control flow reads from LAPACK / the entries
  is ORACLE INPUT, one `Orc` per decomposition the code performs, in call order:
    * `Orc.qr rn`   — `sp_linalg.norm(r)` of the R factor the code computed   (exact rational of the float)
    * `Orc.svd sig` — the singular values `s` returned by `sp_linalg.svd`      (exact rationals of the floats)
    * `Orc.last x`  — `sp_linalg.norm(lcf_mps[row])` of the last tensor (normalise=True only)
  The model compares `σ/σ₀ > tol` over ℚ; the code compares the rounded float quotient (the harness drops the
  measure-zero cases where the two differ).  A wrong kind of oracle entry, or a missing one, is `Err.oracle`.
  Python truthiness is kept: `chi` is "on" iff it is not None and ≠ 0, `tol` likewise.
-/
namespace Qec.Mps

/-- shape (N, E, S, W) of one 4-index tensor -/
structure Shape where
  n : Nat
  e : Nat
  s : Nat
  w : Nat
deriving DecidableEq, Repr, Inhabited

/-- a site: a tensor shape or Python `None` -/
abbrev Site := Option Shape
abbrev Mps := List Site

inductive Err
  | assertion   -- AssertionError (parameter validation)
  | gap         -- ValueError('MPS/MPO does not contain a single contiguous list of tensors')
  | bond        -- ValueError raised by einsum: S of a tensor and N of the next one differ and neither is 1
  | oracle      -- the oracle list does not fit the control flow (never produced by the real code)
deriving DecidableEq, Repr

/-! ### `_mps_start_stop_indices` -/

/-- the loop body of `_mps_start_stop_indices`, state = (start, stop), `i` = current index -/
def startStopAux : List Site → Nat → Option Nat → Option Nat → Except Err (Option Nat × Option Nat)
  | [], _, st, sp => .ok (st, sp)
  | t :: ts, i, none, sp =>
      if t.isSome then startStopAux ts (i + 1) (some i) sp else startStopAux ts (i + 1) none sp
  | t :: ts, i, some a, none =>
      if t.isNone then startStopAux ts (i + 1) (some a) (some i) else startStopAux ts (i + 1) (some a) none
  | t :: ts, i, some a, some b =>
      if t.isSome then .error .gap else startStopAux ts (i + 1) (some a) (some b)

def startStop (m : Mps) : Except Err (Nat × Nat) :=
  match startStopAux m 0 none none with
  | .error e => .error e
  | .ok (none, _) => .ok (0, 0)
  | .ok (some a, none) => .ok (a, m.length)
  | .ok (some a, some b) => .ok (a, b)

/-! ### small helpers -/

def zeroShape (t : Shape) : Shape := ⟨1, t.e, 1, t.w⟩

/-- `zeros_like` -/
def zerosLike (m : Mps) : Mps := m.map (Option.map zeroShape)

def Shape.swap (t : Shape) : Shape := ⟨t.s, t.e, t.n, t.w⟩

/-- `reverse`: reversed list, N and S swapped -/
def rev (m : Mps) : Mps := m.reverse.map (Option.map Shape.swap)

def siteN : Site → Nat
  | some t => t.n
  | none => 0

/-- `bond_dimension`: max N dimension, None counts 0, empty list 0 -/
def bondDim (m : Mps) : Nat := m.foldl (fun acc t => max acc (siteN t)) 0

/-! ### parameters and oracle -/

inductive Orc
  | qr (rnorm : Rat)
  | svd (sig : List Rat)
  | last (nrm : Rat)
deriving Repr

structure Params where
  chi : Option Nat := none
  tol : Option Rat := none
  qr : Bool := false
  normalise : Bool := false
  mask : Option (List Bool) := none

def optOnNat : Option Nat → Bool
  | some c => c != 0
  | none => false

def optOnRat : Option Rat → Bool
  | some t => t != 0
  | none => false

def Params.chiOn (p : Params) : Bool := optOnNat p.chi
def Params.tolOn (p : Params) : Bool := optOnRat p.tol

/-- `mask[row]` (None ⇒ True) -/
def maskAt (mask : Option (List Bool)) (i : Nat) : Bool :=
  match mask with
  | none => true
  | some l => l.getD i true

/-- the singular values that survive `s = s/s[0]; if tol: s = s[s > tol]; if chi: s = s[:chi]` -/
def keptSigmas (chi : Option Nat) (tol : Option Rat) (sig : List Rat) : List Rat :=
  let s0 := sig.headD 0
  let s1 := match tol with
    | some t => if t != 0 then sig.filter (fun x => decide (t < x / s0)) else sig
    | none => sig
  match chi with
  | some c => if c != 0 then s1.take c else s1
  | none => s1

/-- result of the decomposition of one tensor: zero flag, or the new bond dimension -/
inductive StepRes
  | zero
  | keep (k : Nat)
deriving DecidableEq, Repr

/-- one decomposition: `rows × cols` matrix, QR or SVD, against the oracle entry the code produced.
    SVD: `max_s = 0` raises the zero flag; so does a tolerance that no normalised singular value exceeds
    (`s = s[s > tol]; if not len(s): zeros_like, norm 0, break` — kept rank 0, reachable only with tol on, see
    `keptSigmas_length_eq_zero_iff` in Lemmas/MpsShape.lean), exactly like the σ₀ = 0 exit. -/
def stepDecide (p : Params) (useQr : Bool) (rows cols : Nat) : Orc → Except Err StepRes
  | .qr rn =>
      if useQr then (if rn = 0 then .ok .zero else .ok (.keep (min rows cols))) else .error .oracle
  | .svd sig =>
      if useQr then .error .oracle else
      match sig with
      | [] => .error .oracle   -- `s[0]` needs one value; LAPACK returns min(rows, cols) ≥ 1 of them
      | s0 :: _ =>
          if s0 = 0 then .ok .zero
          else if (keptSigmas p.chi p.tol sig).length = 0 then .ok .zero
          else .ok (.keep (min (min rows cols) (keptSigmas p.chi p.tol sig).length))
  | .last _ => .error .oracle

/-- one entry of the decomposition trace -/
structure Step where
  row : Nat
  isQr : Bool
  rows : Nat
  cols : Nat
  kept : Option Nat     -- none: this step raised the zero flag
deriving DecidableEq, Repr

inductive Flow
  | done (out : List Shape)
  | zero
deriving Repr

/-- numpy einsum broadcasts a summed index of dimension 1, so the contraction of the R (resp. S·V) factor into
    the next tensor raises only when both dimensions differ and neither is 1 -/
def bondClash (cols n : Nat) : Bool := cols != n && cols != 1 && n != 1

structure SweepRes where
  flow : Flow
  trace : List Step
  rest : List Orc
deriving Repr

def Flow.cons (t : Shape) : Flow → Flow
  | .done out => .done (t :: out)
  | .zero => .zero

/-- the `for row in range(start, stop)` loop over the contiguous run `cur :: more`; `cur` already carries
    the N dimension produced by the previous step -/
def sweep (p : Params) (mk : Nat → Bool) : Nat → Shape → List Shape → List Orc → Except Err SweepRes
  | _, cur, [], orc =>
      if p.normalise then
        match orc with
        | .last x :: orc' => if x = 0 then .ok ⟨.zero, [], orc'⟩ else .ok ⟨.done [cur], [], orc'⟩
        | _ => .error .oracle
      else .ok ⟨.done [cur], [], orc⟩
  | row, cur, nxt :: more, orc =>
      let rows := cur.n * cur.e * cur.w
      let cols := cur.s
      let useQr := p.qr || !(mk row)
      match orc with
      | [] => .error .oracle
      | o :: orc' =>
        match stepDecide p useQr rows cols o with
        | .error e => .error e
        | .ok .zero => .ok ⟨.zero, [⟨row, useQr, rows, cols, none⟩], orc'⟩
        | .ok (.keep k) =>
            if bondClash cols nxt.n then .error .bond
            else match sweep p mk (row + 1) { nxt with n := k } more orc' with
              | .error e => .error e
              | .ok r => .ok ⟨r.flow.cons { cur with s := k }, ⟨row, useQr, rows, cols, some k⟩ :: r.trace, r.rest⟩

structure Res where
  tensors : Mps
  zero : Bool          -- returned norm is 0 (only reported by the code when normalise=True)
  trace : List Step
  rest : List Orc      -- unconsumed oracle entries
deriving Repr

def maskLenBad (mask : Option (List Bool)) (m : Mps) : Bool :=
  match mask with
  | some l => l.length != m.length
  | none => false

/-- `left_canonical_form` -/
def lcf (p : Params) (m : Mps) (orc : List Orc) : Except Err Res :=
  if p.chiOn && p.qr then .error .assertion
  else if p.tolOn && p.qr then .error .assertion
  else if maskLenBad p.mask m then .error .assertion
  else match startStop m with
    | .error e => .error e
    | .ok (a, b) =>
      match ((m.drop a).take (b - a)).filterMap id with
      | [] => .ok ⟨m, false, [], orc⟩
      | cur :: more =>
        match sweep p (maskAt p.mask) a cur more orc with
        | .error e => .error e
        | .ok r =>
          match r.flow with
          | .zero => .ok ⟨zerosLike m, true, r.trace, r.rest⟩
          | .done out => .ok ⟨m.take a ++ out.map some ++ m.drop b, false, r.trace, r.rest⟩

/-- `right_canonical_form` = reverse ∘ lcf(reversed mask) ∘ reverse.  The trace rows are re-indexed to the
    positions of the given (un-reversed) list — bookkeeping of the model only. -/
def rcf (p : Params) (m : Mps) (orc : List Orc) : Except Err Res :=
  match lcf { p with mask := p.mask.map List.reverse } (rev m) orc with
  | .error e => .error e
  | .ok r => .ok { r with tensors := rev r.tensors,
                          trace := r.trace.map fun s => { s with row := m.length - 1 - s.row } }

/-! ### `truncate` -/

def maskAny : Option (List Bool) → Bool
  | none => true
  | some l => l.any id

def chiBelow (chi : Option Nat) (bd : Nat) : Bool :=
  match chi with
  | some c => c != 0 && decide (c < bd)
  | none => false

/-- `len(mps) and (tol or (chi and chi < bond_dimension(mps))) and (mask is None or any(mask))` -/
def truncGuard (chi : Option Nat) (tol : Option Rat) (mask : Option (List Bool)) (m : Mps) : Bool :=
  m.length != 0 && (optOnRat tol || chiBelow chi (bondDim m)) && maskAny mask

structure TruncRes where
  tensors : Mps
  same : Bool          -- the input object itself is returned
  zero : Bool          -- returned norm is 0
  trace1 : List Step   -- normalising QR left sweep
  trace2 : List Step   -- truncating SVD right sweep
  rest : List Orc
deriving Repr

def truncate (chi : Option Nat) (tol : Option Rat) (mask : Option (List Bool)) (m : Mps) (orc : List Orc) :
    Except Err TruncRes :=
  if !truncGuard chi tol mask m then .ok ⟨m, true, false, [], [], orc⟩
  else match lcf { qr := true, normalise := true } m orc with
    | .error e => .error e
    | .ok r1 =>
      match rcf { chi := chi, tol := tol, mask := mask } r1.tensors r1.rest with
      | .error e => .error e
      | .ok r2 => .ok ⟨r2.tensors, false, r1.zero, r1.trace, r2.trace, r2.rest⟩

end Qec.Mps
