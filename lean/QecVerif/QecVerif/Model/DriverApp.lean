import QecVerif.Model.Wire
import QecVerif.Model.Validate
import QecVerif.Model.RunLoop
import QecVerif.Model.Merge
namespace Qec.Drv
open Qec Qec.Wire

/-! C20 -/
def showVErr : ValidateErr → String
  | .stabilizers => "QecsimError:stabilizers" | .stabLogicals => "QecsimError:stablogicals"
  | .logicals => "QecsimError:logicals" | .hsplit => "ValueError:hsplit"

def c20 : List String → Option String
  | ["validate", s, lx, lz] => do
      let s ← parseMat? s; let lx ← parseMat? lx; let lz ← parseMat? lz
      match validate s lx lz with
      | .ok _ => pure "ok"
      | .error e => pure (showVErr e)
  | ["logicals", lx, lz] => do
      let lx ← parseMat? lx; let lz ← parseMat? lz; pure (showMat (stackLogicals lx lz))
  | ["twisted", m] => do let m ← parseNat? m; pure (showMat (twistedIdentity m))
  | ["dr", a, b] => do let a ← parseBool? a; let b ← parseBool? b; pure (showBool (decodeResultOk a b))
  | _ => none

/-! C01 -/
def parseAnswer? (s : String) : Option Answer :=
  match s.splitOn ":" with
  | ["none"] => some .bareNone
  | ["bare", r] => (parseBits? r).map .bare
  | ["res", su, lc, r, cv] => do
      let su ← parseOptBool? su; let lc ← parseOptIntList? lc; let r ← parseOptBits? r
      let cv ← parseOptIntList? cv
      pure (.result su lc r cv)
  | _ => none

def showRunErr : RunErr → String
  | .qecsim => "QecsimError" | .valueTimeSteps => "ValueError:timesteps" | .valueP => "ValueError:p"
  | .valueQ => "ValueError:q"

def showRunOut (o : RunOut) : String :=
  s!"{o.errorWeight}:{showBool o.success}:{showOptIntList o.lc}:{showOptIntList o.cv}"

def showV : Except RunErr Rat → String
  | .ok q => "ok q=" ++ showRat q
  | .error e => showRunErr e

def c01 : List String → Option String
  | ["run", n, s, l, es, ms, qt, ans] => do
      let n ← parseNat? n; let s ← parseMat? s; let l ← parseMat? l; let es ← parseMat? es
      let ms ← parseMat? ms; let qt ← parseBool? qt; let ans ← parseAnswer? ans
      let (di, out) := runOnceCore n s l es ms qt ans
      let o := match out with | .ok o => showRunOut o | .error e => showRunErr e
      pure s!"syn={showMat di.syndrome} err={showBits di.error} meas={showMat di.stepMeas} calls={di.rngChoiceCalls} out={o}"
  | ["vonce", t, p, q] => do
      let t ← parseInt? t; let p ← parseRat? p; let q ← parseOptRat? q; pure (showV (validateOnceFtp t p q))
  | ["vrun", t, p, q] => do
      let t ← parseInt? t; let p ← parseRat? p; let q ← parseOptRat? q; pure (showV (validateRunFtp t p q))
  | ["videal", p] => do let p ← parseRat? p; pure (showV (validateIdeal p))
  | _ => none

/-! C04 -/
def parseRunOut? (s : String) : Option RunOut :=
  match s.splitOn ":" with
  | [ew, su, lc, cv] => do
      let ew ← parseNat? ew; let su ← parseBool? su; let lc ← parseOptIntList? lc; let cv ← parseOptIntList? cv
      pure { errorWeight := ew, success := su, lc := lc, cv := cv }
  | _ => none

def parseOuts? (s : String) : Option (List RunOut) :=
  if s == "." then some [] else (s.splitOn "|").mapM parseRunOut?

def showLoopErr : LoopErr → String
  | .mismatchLc r => s!"QecsimError:lc:{r}" | .mismatchCv r => s!"QecsimError:cv:{r}" | .needMore => "needMore"

def showAgg (a : Aggregate) : String :=
  s!"ok {a.nRun} {a.nSuccess} {a.nFail} {showOptIntList a.lc} {showOptIntList a.cv} {a.ewTotal} {showRat a.pvar} {showRat a.lfr} {showRat a.per}"

def c04 : List String → Option String
  | ["run", n, t, mr, mf, outs] => do
      let n ← parseNat? n; let t ← parseNat? t; let mr ← parseOptNat? mr; let mf ← parseOptNat? mf
      let outs ← parseOuts? outs
      match run n t mr mf outs with
      | .ok a => pure (showAgg a)
      | .error e => pure (showLoopErr e)
  | _ => none

/-! C05 -/
def parseOptIntElems? (s : String) : Option (List (Option Int)) :=
  if s == "_" then some [] else (s.splitOn ",").mapM parseOptInt?

def parseArrField? (s : String) : Option ArrField :=
  if s == "A" then some .absent else if s == "N" then some .null
  else match s.toList with
    | 't' :: rest => (parseIntList? (String.ofList rest)).map (.arr false)
    | 'l' :: rest => (parseIntList? (String.ofList rest)).map (.arr true)
    | _ => none

def parseRec? (s : String) : Option RawRec :=
  match s.splitOn ";" with
  | [code, nkd, isl, em, dec, p, t, q, nrun, nsucc, nfail, ew, wall, lc, cv] => do
      let nkd ← parseOptIntElems? nkd; let isl ← parseBool? isl; let p ← parseRat? p
      let t ← parseOptInt? t; let q ← parseOptRat? q
      let nrun ← parseInt? nrun; let nsucc ← parseInt? nsucc; let nfail ← parseInt? nfail; let ew ← parseInt? ew
      let wall ← parseRat? wall; let lc ← parseArrField? lc; let cv ← parseArrField? cv
      pure { code := code, nkd := nkd, nkdIsList := isl, errorModel := em, decoder := dec, p := p, T := t, q := q
             nRun := nrun, nSuccess := nsucc, nFail := nfail, ewTotal := ew, wall := wall, lc := lc, cv := cv }
  | _ => none

def parseRecList? (s : String) : Option (List RawRec) :=
  if s == "." then some [] else (s.splitOn "|").mapM parseRec?

def showOptIntElems (l : List (Option Int)) : String :=
  if l.isEmpty then "_" else ",".intercalate (l.map (showOpt toString))

def showGroup (g : Group) : String :=
  ";".intercalate [g.key.code, showOptIntElems g.key.nkd, g.key.errorModel, g.key.decoder, showRat g.key.p,
    toString g.key.T, showRat g.key.q, toString g.sums.nRun, toString g.sums.nSuccess, toString g.sums.nFail,
    toString g.sums.ewTotal, showRat g.sums.wall, showOptIntList g.lc, showOptIntList g.cv,
    showRat (lfr g), showRat (per g)]

def c05 : List String → Option String
  | "merge" :: lists => do
      let ls ← lists.mapM parseRecList?
      match merge ls with
      | .ok gs => pure ("ok " ++ (if gs.isEmpty then "." else "|".intercalate (gs.map showGroup)))
      | .error .value => pure "ValueError"
      | .error .zeroDivision => pure "ZeroDivisionError"
  | _ => none

end Qec.Drv
