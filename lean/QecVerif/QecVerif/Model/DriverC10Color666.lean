import QecVerif.Model.Wire
import QecVerif.Model.Coset
import QecVerif.Model.Color666Tn
import QecVerif.Model.DriverC11
namespace Qec.Drv
open Qec Qec.Wire Qec.Coset

namespace C10Color666

def dist4? (a b c d : String) : Option (Dist Int) := do
  pure ⟨← parseInt? a, ← parseInt? b, ← parseInt? c, ← parseInt? d⟩

/-- arguments `L f aI aX aY aZ`: `L` odd, ≥ 3 (as `Color666Code` demands), `f` a bsf of the code's `2n` bits -/
def args? (sL sf a b c d : String) : Option (Int × BVec × Dist Int) := do
  let L ← parseNat? sL
  let f ← parseBits? sf
  let dist ← dist4? a b c d
  if L < 3 || L % 2 == 0 || f.length != 2 * (Color666.nQubits L).toNat then none else
  pure ((L : Int), f, dist)

/-- degrees of all cells, row-major, one digit per cell -/
def showDegrees (L : Int) (f : BVec) : String :=
  let nrows := L.toNat
  let ncols := (Color666.bound L + 1).toNat
  String.join ((List.range (nrows * ncols)).map fun ix =>
    toString (Color666Tn.cellDegree L f (ix / ncols) (ix % ncols)))

end C10Color666
open C10Color666

/-- driver ops for the colour 6.6.6 MPS decoder's network (first protocol token `c10color`).  Scalars are `Int`
    numerators over the common denominator `D` of the four probabilities.

    * `tn L f aI aX aY aZ` → `ok RxC degrees sites`: the network `colorTn` (Model/Color666Tn.lean), `degrees` = one digit
      per cell (number of qubits merged into the cell: the entries are integers over `D^degree`), `sites` in the C11 wire
      format (`N` = None, tensors `n.e.s.w:entries` in numpy C order, row-major, joined by `;`); `AssertionError` when an
      `assert` of `create_q_node` would fail;
    * `tnvalue L f aI aX aY aZ` → `ok v`: the decoder's evaluation for the coset of `f` (`cosetValue`);
    * `tnvalues L f aI aX aY aZ` → `ok v0,v1,v2,v3`: the four values of `_coset_probabilities` (ket from the network of `f`,
      bra = first column of the network of each variant, variants by the MODEL's logical operators);
    * `tnfull L f aI aX aY aZ` → `ok s v`: the default full contraction `mps2d.contract(tn)` of the network;
    * `tnexact L f aI aX aY aZ` → `ok v`: the literal index sum `exactValue` (refused above 2^18 assignments);
    * `tncoset L f aI aX aY aZ` → `n`: `cosetProb` of `f` for the MODEL's `Color666.stabilizers L`. -/
def c10color : List String → Option String
  | ["tn", sL, sf, a, b, c, d] => do
      let (L, f, dist) ← args? sL sf a b c d
      if !Color666Tn.assertsOk L f then pure "AssertionError" else
      let tn := Color666Tn.colorTn L dist f
      pure s!"ok {tn.nrows}x{tn.ncols} {showDegrees L f} {C11.showMPS tn.a.toList}"
  | ["tnvalue", sL, sf, a, b, c, d] => do
      let (L, f, dist) ← args? sL sf a b c d
      pure (C11.showRes toString (Color666Tn.tnValue L dist f))
  | ["tnvalues", sL, sf, a, b, c, d] => do
      let (L, f, dist) ← args? sL sf a b c d
      let vs := Color666Tn.tnValues L dist f
      let rec collect : List (Except Tensor.Err Int) → Except Tensor.Err (List Int)
        | [] => .ok []
        | .ok v :: t => (match collect t with | .ok l => .ok (v :: l) | .error e => .error e)
        | .error e :: _ => .error e
      pure (C11.showRes (fun l => ",".intercalate (l.map toString)) (collect vs))
  | ["tnfull", sL, sf, a, b, c, d] => do
      let (L, f, dist) ← args? sL sf a b c d
      pure (C11.showRes C11.showResult (Color666Tn.tnFull L dist f))
  | ["tnexact", sL, sf, a, b, c, d] => do
      let (L, f, dist) ← args? sL sf a b c d
      let tn := Color666Tn.colorTn L dist f
      if Tensor.nAssignments tn > 262144 then none else
      pure (match Tensor.exactValue tn with | some v => "ok " ++ toString v | none => "undefined")
  | ["tncoset", sL, sf, a, b, c, d] => do
      let (L, f, dist) ← args? sL sf a b c d
      pure (toString (cosetProb dist (Color666.stabilizers L) f))
  | _ => none

end Qec.Drv
