/-
  C06 (ii) — `functools.lru_cache` as a memo table.

  `State := List (Key × Val)`, most recently used entry first.  A call with argument `a` looks
  up `key a`; on a hit the stored value is returned (and the entry becomes most recent), on a
  miss `f a` is computed, stored in front, and the least recently used entries beyond the
  capacity are dropped (`maxsize=None` ↦ `cap = none`; the default `lru_cache()` is
  `cap = some 128`; `maxsize=0` caches nothing).

  `key : Arg → Key` is what the cache is keyed on, `f : Arg → Val` what the wrapped function
  really reads.  With `key = id` this is a correct cache; a cache "keyed on too little" is a
  `key` that forgets part of `Arg`.  `mutate` models a caller updating a returned (aliased)
  value in place — numpy arrays returned by reference.
-/
namespace Qec.Memo

abbrev State (Key Val : Type) := List (Key × Val)

variable {Arg Key Val : Type} [DecidableEq Key]

def find : State Key Val → Key → Option Val
  | [], _ => none
  | (k', v) :: t, k => if k' = k then some v else find t k

def erase (t : State Key Val) (k : Key) : State Key Val := t.filter fun kv => !decide (kv.1 = k)

/-- drop least recently used entries beyond the capacity -/
def trim (cap : Option Nat) (t : State Key Val) : State Key Val :=
  match cap with | none => t | some c => t.take c

structure Reply (Key Val : Type) where
  val : Val
  hit : Bool
  table : State Key Val

/-- one call of the wrapped function -/
def lookupOrCompute (key : Arg → Key) (f : Arg → Val) (cap : Option Nat) (t : State Key Val) (a : Arg) :
    Reply Key Val :=
  match find t (key a) with
  | some v => { val := v, hit := true, table := (key a, v) :: erase t (key a) }
  | none => let v := f a; { val := v, hit := false, table := trim cap ((key a, v) :: t) }

/-- a history of calls: the answers (with hit flags) in call order and the final table -/
def runHistory (key : Arg → Key) (f : Arg → Val) (cap : Option Nat) :
    State Key Val → List Arg → List (Val × Bool) × State Key Val
  | t, [] => ([], t)
  | t, a :: rest =>
    let r := lookupOrCompute key f cap t a
    let rs := runHistory key f cap r.table rest
    ((r.val, r.hit) :: rs.1, rs.2)

def answers (key : Arg → Key) (f : Arg → Val) (cap : Option Nat) (t : State Key Val) (h : List Arg) : List Val :=
  (runHistory key f cap t h).1.map (·.1)

/-- a caller mutates, in place, the value it was handed for key `k` (aliasing) -/
def mutate (g : Val → Val) (k : Key) (t : State Key Val) : State Key Val :=
  t.map fun kv => if kv.1 = k then (kv.1, g kv.2) else kv

/-- histories with mutation steps -/
inductive Op (Arg Key Val : Type)
  | call (a : Arg)
  | mutate (k : Key) (g : Val → Val)

def runOps (key : Arg → Key) (f : Arg → Val) (cap : Option Nat) :
    State Key Val → List (Op Arg Key Val) → List Val × State Key Val
  | t, [] => ([], t)
  | t, .call a :: rest =>
    let r := lookupOrCompute key f cap t a
    let rs := runOps key f cap r.table rest
    (r.val :: rs.1, rs.2)
  | t, .mutate k g :: rest => runOps key f cap (mutate g k t) rest

end Qec.Memo
