/-
  Wire format helpers for the line protocol (driver side).
  bit vector : string of 0/1, "_" for the empty vector
  matrix     : rows joined by "/", "." for the matrix with no rows
  int        : decimal, optional leading '-';  None : "N"
  int list   : comma separated, "_" for empty
-/
import QecVerif.Model.GF2
namespace Qec.Wire

def parseBits? (s : String) : Option BVec :=
  if s == "_" then some [] else
  s.toList.mapM fun c => if c == '0' then some false else if c == '1' then some true else none

def showBits (b : BVec) : String :=
  if b.isEmpty then "_" else String.ofList (b.map fun x => if x then '1' else '0')

def parseMat? (s : String) : Option (List BVec) :=
  if s == "." then some [] else (s.splitOn "/").mapM parseBits?

def showMat (m : List BVec) : String :=
  if m.isEmpty then "." else "/".intercalate (m.map showBits)

def parseInt? (s : String) : Option Int := s.toInt?
def parseNat? (s : String) : Option Nat := s.toNat?

def parseOptInt? (s : String) : Option (Option Int) :=
  if s == "N" then some none else (s.toInt?).map some
def parseOptNat? (s : String) : Option (Option Nat) :=
  if s == "N" then some none else (s.toNat?).map some

def parseIntList? (s : String) : Option (List Int) :=
  if s == "_" then some [] else (s.splitOn ",").mapM (·.toInt?)
def parseNatList? (s : String) : Option (List Nat) :=
  if s == "_" then some [] else (s.splitOn ",").mapM (·.toNat?)

def showIntList (l : List Int) : String :=
  if l.isEmpty then "_" else ",".intercalate (l.map toString)
def showNatList (l : List Nat) : String :=
  if l.isEmpty then "_" else ",".intercalate (l.map toString)

def showOpt {α} (f : α → String) : Option α → String
  | none => "N" | some a => f a

def showBool (b : Bool) : String := if b then "1" else "0"

end Qec.Wire

namespace Qec.Wire

def parseRat? (s : String) : Option Rat :=
  match s.splitOn "/" with
  | [a] => a.toInt?.map fun n => (n : Rat)
  | [a, b] => do
      let n ← a.toInt?
      let d ← b.toNat?
      if d = 0 then none else pure (mkRat n d)
  | _ => none

def showRat (r : Rat) : String := toString r.num ++ "/" ++ toString r.den

def parseOptRat? (s : String) : Option (Option Rat) :=
  if s == "N" then some none else (parseRat? s).map some

def parseBool? (s : String) : Option Bool :=
  if s == "1" then some true else if s == "0" then some false else none

def parseOptBool? (s : String) : Option (Option Bool) :=
  if s == "N" then some none else (parseBool? s).map some

def parseOptIntList? (s : String) : Option (Option (List Int)) :=
  if s == "N" then some none else (parseIntList? s).map some

def parseOptBits? (s : String) : Option (Option BVec) :=
  if s == "N" then some none else (parseBits? s).map some

def showOptIntList : Option (List Int) → String
  | none => "N" | some l => showIntList l

end Qec.Wire
