/-
  F2 — single-qubit Paulis, strings, conversion to/from binary symplectic form, the
  independent commutation table, weight-ordered iterators, pack/unpack.
-/
import QecVerif.Model.GF2
namespace Qec

inductive P1 | I | X | Y | Z
  deriving DecidableEq, Repr, Inhabited

namespace P1
def xBit : P1 → Bool | X => true | Y => true | _ => false
def zBit : P1 → Bool | Z => true | Y => true | _ => false
/-- `(xs + 2*zs)` translated through `'IXZY'` -/
def ofBits : Bool → Bool → P1
  | false, false => I | true, false => X | false, true => Z | true, true => Y
/-- the 4×4 commutation table of the single-qubit Pauli group (phases ignored):
    two single-qubit Paulis anticommute iff both are non-identity and different. -/
def anti : P1 → P1 → Bool
  | I, _ => false | _, I => false
  | X, X => false | Y, Y => false | Z, Z => false
  | _, _ => true
def toChar : P1 → Char | I => 'I' | X => 'X' | Y => 'Y' | Z => 'Z'
def ofChar? : Char → Option P1
  | 'I' => some I | 'X' => some X | 'Y' => some Y | 'Z' => some Z | _ => none
end P1

abbrev PStr := List P1

/-- `pauli_to_bsf` for one string -/
def toBsf (p : PStr) : BVec := p.map P1.xBit ++ p.map P1.zBit
/-- `bsf_to_pauli` for one vector -/
def ofBsf (b : BVec) : PStr := List.zipWith P1.ofBits (xHalf b) (zHalf b)
/-- `pauli_wt` -/
def pauliWt (p : PStr) : Nat := p.countP (· ≠ P1.I)

/-- Pauli-group commutation of two n-qubit strings: they commute iff the number of
    positions at which the factors anticommute is even.  Returns `true` when they ANTIcommute. -/
def antiStr : PStr → PStr → Bool
  | p :: ps, q :: qs => xor (P1.anti p q) (antiStr ps qs)
  | _, _ => false

/-- `itertools.combinations(xs, k)` -/
def combinations {α} : List α → Nat → List (List α)
  | _, 0 => [[]]
  | [], _ + 1 => []
  | x :: xs, k + 1 => (combinations xs k).map (x :: ·) ++ combinations xs (k + 1)

/-- `itertools.product(alphabet, repeat=k)` -/
def product {α} (alphabet : List α) : Nat → List (List α)
  | 0 => [[]]
  | k + 1 => alphabet.flatMap (fun a => (product alphabet k).map (a :: ·))

/-- `pauli = ['I']*n; for q, l in zip(qs, ls): pauli[q] = l` -/
def place (n : Nat) (qs : List Nat) (ls : List P1) : PStr :=
  (List.zip qs ls).foldl (fun acc ql => acc.set ql.1 ql.2) (List.replicate n P1.I)

/-- the Paulis of weight exactly `w` in the order `ipauli` yields them -/
def paulisOfWeight (n w : Nat) : List PStr :=
  (combinations (List.range n) w).flatMap fun qs =>
    (product [P1.X, P1.Z, P1.Y] w).map fun ls => place n qs ls

/-- `ipauli(n, lo, hi)`; `none` models the failed `assert lo <= hi <= n` -/
def ipauli (n lo hi : Nat) : Option (List PStr) :=
  if lo ≤ hi ∧ hi ≤ n then
    some ((List.range (hi + 1 - lo)).flatMap fun i => paulisOfWeight n (lo + i))
  else none

/-- `ibsf` -/
def ibsf (n lo hi : Nat) : Option (List BVec) := (ipauli n lo hi).map (·.map toBsf)

/-! pack / unpack -/

/-- big-endian value of a list of bits -/
def bitsToNat (bs : List Bool) : Nat := bs.foldl (fun acc b => 2 * acc + (if b then 1 else 0)) 0

/-- the 8 bits of a byte, most significant first -/
def byteBits (v : Nat) : List Bool := (List.range 8).map fun i => (v / 2 ^ (7 - i)) % 2 == 1

/-- chunk into groups of 8, zero-padding the last (`np.packbits`) -/
def packBytes : (fuel : Nat) → List Bool → List Nat
  | 0, _ => []
  | _, [] => []
  | f + 1, bs => bitsToNat ((bs.take 8) ++ List.replicate (8 - (bs.take 8).length) false)
                  :: packBytes f (bs.drop 8)

/-- `pack`: (bytes, length); the hex rendering of the bytes is done by the driver -/
def pack (b : BVec) : List Nat × Nat := (packBytes b.length b, b.length)

/-- `unpack`: `np.unpackbits(bytes)[:length]` -/
def unpack (p : List Nat × Nat) : BVec := (p.1.flatMap byteBits).take p.2

def hexDigit (v : Nat) : Char := "0123456789abcdef".toList.getD v '?'
def bytesToHex (bs : List Nat) : String :=
  String.ofList (bs.flatMap fun v => [hexDigit (v / 16), hexDigit (v % 16)])
def hexVal? (c : Char) : Option Nat :=
  if '0' ≤ c ∧ c ≤ '9' then some (c.toNat - '0'.toNat)
  else if 'a' ≤ c ∧ c ≤ 'f' then some (c.toNat - 'a'.toNat + 10)
  else if 'A' ≤ c ∧ c ≤ 'F' then some (c.toNat - 'A'.toNat + 10)
  else none
def hexToBytes? : List Char → Option (List Nat)
  | [] => some []
  | a :: b :: rest => do
      let x ← hexVal? a; let y ← hexVal? b; let r ← hexToBytes? rest; pure ((16 * x + y) :: r)
  | _ => none

end Qec
