import QecVerif.Model.DriverLattice
import QecVerif.Model.Lattice.RotatedPlanar
namespace Qec.Drv
open Qec Qec.Wire

/-- driver ops of the rotatedplanar family; `r c` = rows columns, indices are `x,y` -/
def rotatedplanar : List String → Option String
  | ["ctor", r, c] => do
      let r ← parsePyVal? r; let c ← parsePyVal? c; pure (showCtor (RotatedPlanar.ctor r c))
  | ["nkd", r, c] => do
      let r ← parseInt? r; let c ← parseInt? c
      let (n, k, d) := RotatedPlanar.nkd r c; pure s!"{n} {k} {d}"
  | ["stabs", r, c] => do
      let r ← parseInt? r; let c ← parseInt? c; pure (showMat (RotatedPlanar.stabilizers r c))
  | ["lx", r, c] => do let r ← parseInt? r; let c ← parseInt? c; pure (showBits (RotatedPlanar.logicalX r c))
  | ["lz", r, c] => do let r ← parseInt? r; let c ← parseInt? c; pure (showBits (RotatedPlanar.logicalZ r c))
  | ["plaqidx", r, c] => do
      let r ← parseInt? r; let c ← parseInt? c; pure (showIdxList (RotatedPlanar.plaquetteIndices r c))
  | ["bounds", r, c] => do
      let r ← parseInt? r; let c ← parseInt? c
      pure (showIdx (RotatedPlanar.maxSiteX c, RotatedPlanar.maxSiteY r))
  | ["flat", r, c, i] => do
      let r ← parseInt? r; let c ← parseInt? c; let i ← parseIdx? i
      pure (if RotatedPlanar.inSiteBounds r c i.1 i.2 then toString (RotatedPlanar.flatten r c i.1 i.2)
            else "AssertionError")
  | ["kinds", i] => do
      let i ← parseIdx? i
      pure s!"{showBool (RotatedPlanar.isXPlaquette i.1 i.2)}{showBool (RotatedPlanar.isZPlaquette i.1 i.2)}"
  | ["inb", r, c, i] => do
      let r ← parseInt? r; let c ← parseInt? c; let i ← parseIdx? i
      pure s!"{showBool (RotatedPlanar.inSiteBounds r c i.1 i.2)}{showBool (RotatedPlanar.inPlaquetteBounds r c i.1 i.2)}{showBool (RotatedPlanar.isVirtualPlaquette r c i.1 i.2)}"
  | ["site", r, c, op, i] => do
      let r ← parseInt? r; let c ← parseInt? c; let i ← parseIdx? i
      let op ← (match op.toList with | [ch] => P1.ofChar? ch | _ => none)
      pure (showBits (RotatedPlanar.site r c op (RotatedPlanar.identity r c) i))
  | ["sites", r, c, op, v, l] => do
      let r ← parseInt? r; let c ← parseInt? c; let op ← parseOp1? op; let v ← parseBits? v; let l ← parseIdxList? l
      if v.length != 2 * (RotatedPlanar.nQubits r c).toNat then none
      else pure (showBits (RotatedPlanar.sites r c op v l))
  | ["plaq", r, c, i] => do
      let r ← parseInt? r; let c ← parseInt? c; let i ← parseIdx? i
      pure (showBits (RotatedPlanar.plaquette r c (RotatedPlanar.identity r c) i.1 i.2))
  | ["s2p", r, c, s] => do
      let r ← parseInt? r; let c ← parseInt? c; let s ← parseBits? s
      pure (showIdxList (RotatedPlanar.syndromeToPlaquettes r c s))
  | _ => none

end Qec.Drv
