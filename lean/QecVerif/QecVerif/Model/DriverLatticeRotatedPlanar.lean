import QecVerif.Model.DriverLattice
namespace Qec.Drv
open Qec Qec.Wire

/-- driver ops of the rotatedplanar family (filled in by the family's model) -/
def rotatedplanar : List String → Option String
  | _ => none

end Qec.Drv
