import QecVerif.Model.Wire
import QecVerif.Model.Coset
import QecVerif.Model.RotatedPlanarTn
import QecVerif.Model.DriverC11
namespace Qec.Drv
open Qec Qec.Wire Qec.Coset

private def rpDist4? (a b c d : String) : Option (Dist Int) := do
  pure ⟨← parseInt? a, ← parseInt? b, ← parseInt? c, ← parseInt? d⟩

/-- arguments of the rotated planar network ops: `R C f aI aX aY aZ` with `R, C ≥ 3` (as `RotatedPlanarCode`
    demands) and `f` a bsf of the code's `2n` bits -/
private def rpTnArgs? (sR sC sf a b c d : String) : Option (Int × Int × BVec × Dist Int) := do
  let R ← parseNat? sR
  let C ← parseNat? sC
  let f ← parseBits? sf
  let dist ← rpDist4? a b c d
  if R < 3 || C < 3 || f.length != 2 * (RotatedPlanar.nQubits R C).toNat then none else
  pure ((R : Int), (C : Int), f, dist)

/-- driver ops of property C10 for the ROTATED PLANAR MPS decoder's network (first protocol token `c10rplanar`);
    scalars are `Int` numerators over the common denominator `D`, as for `c10`.

    * `tn R C f aI aX aY aZ` → `ok (R+C-1)x(R+C-1) sites`: `rplanarTn` (Model/RotatedPlanarTn.lean), every site as
      `n.e.s.w:entries` (numpy C order) or `N` for `None`, row-major, joined by `;` (the C11 wire format);
    * `tnvalue R C f aI aX aY aZ` → `ok s v`: the model of `mps2d.contract` (C11, exact) applied to that network
      (the decoder's mode 'c');
    * `tnvaluer R C f aI aX aY aZ` → `ok s v`: … applied to `mps2d.transpose` of that network (mode 'r');
    * `tnexact R C f aI aX aY aZ` → `ok v`: the literal sum over all bond-index assignments (`exactValue`; refused
      above 2^16 assignments, i.e. always refused except for degenerate inputs — the smallest code has 24 bonds of
      dimension 2 — kept for symmetry with `c10`);
    * `tncompat R C f aI aX aY aZ` → `1`/`0`: C11's `compatible` (facing bonds equal, outer legs dummy, `None` ↦ the
      scalar tensor 1) — the hypothesis under which `exactValue` is defined;
    * `tncoset R C f aI aX aY aZ` → `n`: `cosetProb` of `f` for the MODEL's `RotatedPlanar.stabilizers R C` (the spec
      the theorems `rplanar_tn_value…` talk about);
    * `tnvalues R C mode f aI aX aY aZ` (mode c | r | a) → `ok trace v0,v1,v2,v3`: the PROCEDURE of
      `RotatedPlanarMPSDecoder._coset_probabilities` (`RotatedPlanarTn.cosetValuesC / R / A`: four plain contractions per
      mode, nothing shared); `trace` = the calls in execution order (`t` = the four `mps2d.transpose`,
      `c<net>:start:stop:step` = a `mps2d.contract` on `tns[net]`); integers over `D^n` (modes c, r) or rationals `p/q`
      (mode a). -/
def c10rplanar : List String → Option String
  | ["tn", sR, sC, sf, a, b, c, d] => do
      let (R, C, f, dist) ← rpTnArgs? sR sC sf a b c d
      let tn := RotatedPlanarTn.rplanarTn R C dist f
      pure s!"ok {tn.nrows}x{tn.ncols} {C11.showMPS tn.a.toList}"
  | ["tnvalue", sR, sC, sf, a, b, c, d] => do
      let (R, C, f, dist) ← rpTnArgs? sR sC sf a b c d
      pure (C11.showRes C11.showResult (RotatedPlanarTn.tnValue R C dist f))
  | ["tnvaluer", sR, sC, sf, a, b, c, d] => do
      let (R, C, f, dist) ← rpTnArgs? sR sC sf a b c d
      pure (C11.showRes C11.showResult (RotatedPlanarTn.tnValueR R C dist f))
  | ["tnexact", sR, sC, sf, a, b, c, d] => do
      let (R, C, f, dist) ← rpTnArgs? sR sC sf a b c d
      let tn := RotatedPlanarTn.rplanarTn R C dist f
      if Tensor.nAssignments tn > 65536 then none else
      pure (match Tensor.exactValue tn with | some v => "ok " ++ toString v | none => "undefined")
  | ["tncompat", sR, sC, sf, a, b, c, d] => do
      let (R, C, f, dist) ← rpTnArgs? sR sC sf a b c d
      pure (showBool (Tensor.compatible (RotatedPlanarTn.rplanarTn R C dist f)))
  | ["tncoset", sR, sC, sf, a, b, c, d] => do
      let (R, C, f, dist) ← rpTnArgs? sR sC sf a b c d
      pure (toString (cosetProb dist (RotatedPlanar.stabilizers R C) f))
  | ["tnvalues", sR, sC, mode, sf, a, b, c, d] => do
      let (R, C, f, dist) ← rpTnArgs? sR sC sf a b c d
      let showE {α : Type} (sh : α → String) (tr : String) (r : Except Tensor.Err (List α)) : String :=
        match r with
        | .ok vs => s!"ok {tr} " ++ ",".intercalate (vs.map sh)
        | .error e => C11.showErr e
      let showQ (q : Rat) : String := s!"{q.num}/{q.den}"
      let trC := RotatedPlanarTn.fullTrace
      let trR := "t," ++ RotatedPlanarTn.fullTrace
      match mode with
      | "c" => pure (showE (toString : Int → String) trC (RotatedPlanarTn.cosetValuesC R C dist f))
      | "r" => pure (showE (toString : Int → String) trR (RotatedPlanarTn.cosetValuesR R C dist f))
      | "a" => pure (showE showQ (trC ++ "," ++ trR) (RotatedPlanarTn.cosetValuesA R C dist f))
      | _ => none
  | _ => none

end Qec.Drv
