import QecVerif.Model.Wire
import QecVerif.Model.Coset
import QecVerif.Model.RotatedPlanarTn
import QecVerif.Model.DriverC11
namespace Qec.Drv
open Qec Qec.Wire Qec.Coset

private def rpDist4? (a b c d : String) : Option (Dist Int) := do
  pure ⟨← parseInt? a, ← parseInt? b, ← parseInt? c, ← parseInt? d⟩

/-- arguments of the rotated planar network ops: `R C f aI aX aY aZ` with `R, C ≥ 3` (as `RotatedPlanarCode`
    demands) and `f` a bsf of the code's `2n` bits -/
private def rpTnArgs? (sR sC sf a b c d : String) : Option (Int × Int × BVec × Dist Int) := do
  let R ← parseNat? sR
  let C ← parseNat? sC
  let f ← parseBits? sf
  let dist ← rpDist4? a b c d
  if R < 3 || C < 3 || f.length != 2 * (RotatedPlanar.nQubits R C).toNat then none else
  pure ((R : Int), (C : Int), f, dist)

/-- driver ops of property C10 for the ROTATED PLANAR MPS decoder's network (first protocol token `c10rplanar`);
    scalars are `Int` numerators over the common denominator `D`, as for `c10`.

    * `tn R C f aI aX aY aZ` → `ok (R+C-1)x(R+C-1) sites`: `rplanarTn` (Model/RotatedPlanarTn.lean), every site as
      `n.e.s.w:entries` (numpy C order) or `N` for `None`, row-major, joined by `;` (the C11 wire format);
    * `tnvalue R C f aI aX aY aZ` → `ok s v`: the model of `mps2d.contract` (C11, exact) applied to that network
      (the decoder's mode 'c');
    * `tnvaluer R C f aI aX aY aZ` → `ok s v`: … applied to `mps2d.transpose` of that network (mode 'r');
    * `tnexact R C f aI aX aY aZ` → `ok v`: the literal sum over all bond-index assignments (`exactValue`; refused
      above 2^16 assignments, i.e. always refused except for degenerate inputs — the smallest code has 24 bonds of
      dimension 2 — kept for symmetry with `c10`);
    * `tncompat R C f aI aX aY aZ` → `1`/`0`: C11's `compatible` (facing bonds equal, outer legs dummy, `None` ↦ the
      scalar tensor 1) — the hypothesis under which `exactValue` is defined;
    * `tncoset R C f aI aX aY aZ` → `n`: `cosetProb` of `f` for the MODEL's `RotatedPlanar.stabilizers R C` (the spec
      the theorems `rplanar_tn_value…` talk about). -/
def c10rplanar : List String → Option String
  | ["tn", sR, sC, sf, a, b, c, d] => do
      let (R, C, f, dist) ← rpTnArgs? sR sC sf a b c d
      let tn := RotatedPlanarTn.rplanarTn R C dist f
      pure s!"ok {tn.nrows}x{tn.ncols} {C11.showMPS tn.a.toList}"
  | ["tnvalue", sR, sC, sf, a, b, c, d] => do
      let (R, C, f, dist) ← rpTnArgs? sR sC sf a b c d
      pure (C11.showRes C11.showResult (RotatedPlanarTn.tnValue R C dist f))
  | ["tnvaluer", sR, sC, sf, a, b, c, d] => do
      let (R, C, f, dist) ← rpTnArgs? sR sC sf a b c d
      pure (C11.showRes C11.showResult (RotatedPlanarTn.tnValueR R C dist f))
  | ["tnexact", sR, sC, sf, a, b, c, d] => do
      let (R, C, f, dist) ← rpTnArgs? sR sC sf a b c d
      let tn := RotatedPlanarTn.rplanarTn R C dist f
      if Tensor.nAssignments tn > 65536 then none else
      pure (match Tensor.exactValue tn with | some v => "ok " ++ toString v | none => "undefined")
  | ["tncompat", sR, sC, sf, a, b, c, d] => do
      let (R, C, f, dist) ← rpTnArgs? sR sC sf a b c d
      pure (showBool (Tensor.compatible (RotatedPlanarTn.rplanarTn R C dist f)))
  | ["tncoset", sR, sC, sf, a, b, c, d] => do
      let (R, C, f, dist) ← rpTnArgs? sR sC sf a b c d
      pure (toString (cosetProb dist (RotatedPlanar.stabilizers R C) f))
  | _ => none

end Qec.Drv
